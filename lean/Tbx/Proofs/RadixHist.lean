import Tbx.Proofs.RadixBucket
/-
Histogram level = bucket level (C17).

  hist_count        Friend's one-pass histograms hold the bucket sizes of every round,
  scan_spec         the prefix-sum loop computes exclusive prefix sums (and the skip flag),
  prefixRound_spec  both branches of the prefix phase yield the start offsets of the buckets in the
                    pass's bucket order (`startOf (bucketOrder t k)`), and the skip flag of the round,
  place_spec        the placement loop keeps every write inside the segment of its bucket,
  place_eq_pass     … so the output array is the concatenation of the buckets (the segments tile it),
  radixSort_eq_sortB  the whole function.
-/
namespace Tbx.Radix
open Tbx Tbx.SortSpec

theorem gt_replicate {α : Type} [Inhabited α] (n : Nat) (v : α) (i : Nat) (h : i < n) :
    gt (Array.replicate n v) i = v := by
  simp [gt, Array.getD_eq_getD_getElem?, h]

/-- well-formed histogram table: `w` rows of 256 counters -/
structure TabWF (w : Nat) (tab : Table) : Prop where
  size : tab.size = w
  row : ∀ k, k < w → (gt tab k).size = 256

theorem incr_wf (w : Nat) (tab : Table) (k r : Nat) (h : TabWF w tab) : TabWF w (incr tab k r) := by
  constructor
  · unfold incr; rw [size_st]; exact h.size
  · intro k' hk'
    unfold incr
    rw [gt_st]
    split
    · rw [size_st]; rename_i hc; rw [hc.1]; exact h.row k' hk'
    · exact h.row k' hk'

theorem gt_incr (w : Nat) (tab : Table) (k r k' b : Nat) (h : TabWF w tab) (hk : k < w) (hr : r < 256) :
    gt (gt (incr tab k r) k') b = gt (gt tab k') b + (if k = k' ∧ r = b then 1 else 0) := by
  unfold incr
  rw [gt_st]
  have hks : k < tab.size := by rw [h.size]; exact hk
  by_cases hkk : k = k'
  · subst hkk
    rw [if_pos ⟨rfl, hks⟩, gt_st]
    have : r < (gt tab k).size := by rw [h.row k hk]; exact hr
    by_cases hrb : r = b
    · subst hrb; simp [this]
    · simp [hrb]
  · simp [hkk]

theorem histOne_spec (t : Ty) (x : Nat) (w : Nat) : ∀ (ks : List Nat) (tab : Table), TabWF w tab → ks.Nodup →
    (∀ k ∈ ks, k < w) →
    TabWF w (histOne t x ks tab) ∧
    ∀ k' b, gt (gt (histOne t x ks tab) k') b =
      gt (gt tab k') b + (if k' ∈ ks ∧ key t x k' = b then 1 else 0) := by
  intro ks
  induction ks with
  | nil => intro tab h _ _; exact ⟨h, by intro k' b; simp [histOne]⟩
  | cons k ks ih =>
    intro tab h hnd hlt
    rw [List.nodup_cons] at hnd
    have hk : k < w := hlt k List.mem_cons_self
    have := ih (incr tab k (key t x k)) (incr_wf w tab k _ h) hnd.2 (fun k' hk' => hlt k' (List.mem_cons_of_mem _ hk'))
    refine ⟨this.1, ?_⟩
    intro k' b
    show gt (gt (histOne t x ks (incr tab k (key t x k))) k') b = _
    rw [this.2 k' b, gt_incr w tab k _ k' b h hk (key_lt t x k)]
    by_cases hkk : k = k'
    · subst hkk
      have : k ∉ ks := hnd.1
      simp [this]
    · have : (k' = k) = False := by simp; exact fun e => hkk e.symm
      simp [hkk, this]

theorem histFrom_spec (t : Ty) : ∀ (xs : List Nat) (tab : Table), TabWF t.w tab →
    TabWF t.w (histFrom t xs tab) ∧
    ∀ k b, k < t.w → gt (gt (histFrom t xs tab) k) b =
      gt (gt tab k) b + xs.countP (fun x => key t x k == b) := by
  intro xs
  induction xs with
  | nil => intro tab h; exact ⟨h, by intro k b _; simp [histFrom]⟩
  | cons x xs ih =>
    intro tab h
    have h1 := histOne_spec t x t.w (List.range t.w) tab h List.nodup_range (fun k hk => List.mem_range.mp hk)
    have h2 := ih (histOne t x (List.range t.w) tab) h1.1
    refine ⟨h2.1, ?_⟩
    intro k b hk
    show gt (gt (histFrom t xs (histOne t x (List.range t.w) tab)) k) b = _
    rw [h2.2 k b hk, h1.2 k b, List.countP_cons]
    have : k ∈ List.range t.w := List.mem_range.mpr hk
    by_cases hb : key t x k = b
    · simp [this, hb]; omega
    · simp [hb]

theorem zeroTable_wf (t : Ty) : TabWF t.w (zeroTable t) := by
  constructor
  · simp [zeroTable]
  · intro k hk
    unfold zeroTable
    rw [gt_replicate _ _ _ hk]
    simp

theorem hist_count (t : Ty) (xs : List Nat) (k b : Nat) (hk : k < t.w) :
    gt (gt (histAll t xs) k) b = xs.countP (fun x => key t x k == b) := by
  unfold histAll
  rw [(histFrom_spec t xs (zeroTable t) (zeroTable_wf t)).2 k b hk]
  unfold zeroTable
  rw [gt_replicate _ _ _ hk]
  have : gt (Array.replicate 256 0) b = 0 := by
    by_cases hb : b < 256
    · exact gt_replicate _ _ _ hb
    · rw [gt_of_ge]; rfl
      simp; omega
  rw [this]; omega

theorem histAll_wf (t : Ty) (xs : List Nat) : TabWF t.w (histAll t xs) :=
  (histFrom_spec t xs (zeroTable t) (zeroTable_wf t)).1

/-- start offset of bucket `b`: total count of the buckets laid out before it in the order `bo` -/
def startOf (bo : List Nat) (c : Nat → Nat) (b : Nat) : Nat := ((bo.takeWhile (· != b)).map c).sum

theorem startOf_cons_self (bo : List Nat) (c : Nat → Nat) (b : Nat) : startOf (b :: bo) c b = 0 := by
  simp [startOf]

theorem startOf_cons_ne (bo : List Nat) (c : Nat → Nat) (a b : Nat) (h : a ≠ b) :
    startOf (a :: bo) c b = c a + startOf bo c b := by
  simp [startOf, h]

theorem startOf_append_left (l1 l2 : List Nat) (c : Nat → Nat) (b : Nat) (h : b ∈ l1) :
    startOf (l1 ++ l2) c b = startOf l1 c b := by
  induction l1 with
  | nil => cases h
  | cons a l ih =>
    by_cases e : a = b
    · subst e; rw [List.cons_append, startOf_cons_self, startOf_cons_self]
    · rw [List.cons_append, startOf_cons_ne _ _ _ _ e, startOf_cons_ne _ _ _ _ e]
      rcases List.mem_cons.mp h with h' | h'
      · exact absurd h'.symm e
      · rw [ih h']

theorem startOf_append_right (l1 l2 : List Nat) (c : Nat → Nat) (b : Nat) (h : b ∉ l1) :
    startOf (l1 ++ l2) c b = (l1.map c).sum + startOf l2 c b := by
  induction l1 with
  | nil => simp
  | cons a l ih =>
    have e : a ≠ b := fun e => h (e ▸ List.mem_cons_self)
    rw [List.cons_append, startOf_cons_ne _ _ _ _ e, ih (fun h' => h (List.mem_cons_of_mem _ h'))]
    simp [List.sum_cons]; omega

theorem startOf_congr (bo : List Nat) (c c' : Nat → Nat) (b : Nat) (h : ∀ a ∈ bo, c a = c' a) :
    startOf bo c b = startOf bo c' b := by
  unfold startOf
  congr 1
  apply List.map_congr_left
  intro a ha
  exact h a ((List.takeWhile_sublist _).subset ha)

theorem any_congr_mem (l : List Nat) (p q : Nat → Bool) (h : ∀ a ∈ l, p a = q a) : l.any p = l.any q := by
  induction l with
  | nil => rfl
  | cons a l ih =>
    rw [List.any_cons, List.any_cons, h a List.mem_cons_self,
      ih (fun b hb => h b (List.mem_cons_of_mem _ hb))]

/-- the prefix-sum loop: exclusive prefix sums over the buckets `bs` in this order, total, skip flag -/
theorem scan_spec (n : Nat) : ∀ (bs : List Nat) (h : Array Nat) (prev : Nat) (skip : Bool), bs.Nodup →
    (∀ b ∈ bs, b < h.size) →
    (scan n bs h prev skip).1.size = h.size ∧
    (∀ b, b ∉ bs → gt (scan n bs h prev skip).1 b = gt h b) ∧
    (∀ b, b ∈ bs → gt (scan n bs h prev skip).1 b = prev + startOf bs (gt h) b) ∧
    (scan n bs h prev skip).2.1 = prev + (bs.map (gt h)).sum ∧
    (scan n bs h prev skip).2.2 = (skip || bs.any (fun b => gt h b == n)) := by
  intro bs
  induction bs with
  | nil =>
    intro h prev skip _ _
    refine ⟨rfl, fun _ _ => rfl, ?_, ?_, ?_⟩
    · intro b hb; cases hb
    · show prev = prev + 0; omega
    · show skip = (skip || false); simp
  | cons i is ih =>
    intro h prev skip hnd hlt
    rw [List.nodup_cons] at hnd
    have hi : i < h.size := hlt i List.mem_cons_self
    have hagree : ∀ a ∈ is, gt (st h i prev) a = gt h a := by
      intro a ha
      exact gt_st_ne h i a prev (fun e => hnd.1 (e ▸ ha))
    have IH := ih (st h i prev) (prev + gt h i) (skip || gt h i == n) hnd.2
      (fun b hb => by rw [size_st]; exact hlt b (List.mem_cons_of_mem _ hb))
    have e : scan n (i :: is) h prev skip = scan n is (st h i prev) (prev + gt h i) (skip || gt h i == n) := rfl
    rw [e]
    refine ⟨by rw [IH.1, size_st], ?_, ?_, ?_, ?_⟩
    · intro b hb
      rw [IH.2.1 b (fun h' => hb (List.mem_cons_of_mem _ h'))]
      exact gt_st_ne h i b prev (fun e => hb (e ▸ List.mem_cons_self))
    · intro b hb
      by_cases e : i = b
      · subst e
        rw [IH.2.1 i hnd.1, gt_st_eq h i prev hi, startOf_cons_self]; rfl
      · have hb' : b ∈ is := by
          rcases List.mem_cons.mp hb with h' | h'
          · exact absurd h'.symm e
          · exact h'
        rw [IH.2.2.1 b hb', startOf_cons_ne _ _ _ _ e, startOf_congr is _ (gt h) b hagree]
        omega
    · rw [IH.2.2.2.1, List.map_cons, List.sum_cons, List.map_congr_left hagree]
      omega
    · rw [IH.2.2.2.2, List.any_cons, Bool.or_assoc]
      congr 2
      apply any_congr_mem
      intro a ha
      rw [hagree a ha]


/-- row `k` of the table after the prefix-sum phase: start offsets in the pass's bucket order -/
structure RowOK (t : Ty) (k : Nat) (c : Nat → Nat) (offs : Array Nat) : Prop where
  size : offs.size = 256
  start : ∀ b, b < 256 → gt offs b = startOf (bucketOrder t k) c b

theorem mem_r0 (b : Nat) : b ∈ List.range' 0 128 ↔ b < 128 := by
  constructor <;> intro h
  · have := List.mem_range'_1.1 h; omega
  · exact List.mem_range'_1.2 (by omega)
theorem mem_r1 (b : Nat) : b ∈ List.range' 128 128 ↔ 128 ≤ b ∧ b < 256 := by
  constructor <;> intro h
  · have := List.mem_range'_1.1 h; omega
  · exact List.mem_range'_1.2 (by omega)
theorem mem_r (b : Nat) : b ∈ List.range' 0 256 ↔ b < 256 := by
  constructor <;> intro h
  · have := List.mem_range'_1.1 h; omega
  · exact List.mem_range'_1.2 (by omega)

theorem prefixRound_spec (t : Ty) (n k : Nat) (h : Array Nat) (hs : h.size = 256) :
    RowOK t k (gt h) (prefixRound t n k h false).1 ∧
    (prefixRound t n k h false).2 = (List.range' 0 256).any (fun b => gt h b == n) := by
  unfold prefixRound
  by_cases hc : (isSigned t && k == t.w - 1) = true
  · rw [if_pos hc]
    have S1 := scan_spec n (List.range' 0 128) h (sumFrom128 h) false List.nodup_range'
      (fun b hb => by rw [hs]; have := (mem_r0 b).1 hb; omega)
    have S2 := scan_spec n (List.range' 128 128) (scan n (List.range' 0 128) h (sumFrom128 h) false).1 0
      (scan n (List.range' 0 128) h (sumFrom128 h) false).2.2 List.nodup_range'
      (fun b hb => by rw [S1.1, hs]; have := (mem_r1 b).1 hb; omega)
    have hagree : ∀ a ∈ List.range' 128 128,
        gt (scan n (List.range' 0 128) h (sumFrom128 h) false).1 a = gt h a := by
      intro a ha
      apply S1.2.1
      rw [mem_r0]; have := (mem_r1 a).1 ha; omega
    have hbo : bucketOrder t k = List.range' 128 128 ++ List.range' 0 128 := by
      unfold bucketOrder; rw [if_pos hc]
    refine ⟨⟨?_, ?_⟩, ?_⟩
    · dsimp only
      rw [S2.1, S1.1, hs]
    · intro b hb
      dsimp only
      rw [hbo]
      by_cases hlo : b < 128
      · have h1 : b ∉ List.range' 128 128 := by rw [mem_r1]; omega
        rw [S2.2.1 b h1, S1.2.2.1 b ((mem_r0 b).2 hlo), startOf_append_right _ _ _ _ h1]
        rfl
      · have h1 : b ∈ List.range' 128 128 := by rw [mem_r1]; omega
        rw [S2.2.2.1 b h1, startOf_append_left _ _ _ _ h1, startOf_congr _ _ (gt h) b hagree]
        omega
    · dsimp only
      rw [S2.2.2.2.2, S1.2.2.2.2,
        any_congr_mem (List.range' 128 128) _ (fun b => gt h b == n) (fun a ha => by rw [hagree a ha])]
      have : List.range' 0 256 = List.range' 0 128 ++ List.range' (0 + 128) 128 :=
        (List.range'_append_1 (s := 0) (m := 128) (n := 128)).symm
      rw [this, List.any_append, Bool.false_or]
  · rw [if_neg hc]
    have S := scan_spec n (List.range' 0 256) h 0 (gt h 0 == n) List.nodup_range'
      (fun b hb => by rw [hs]; exact (mem_r b).1 hb)
    have hbo : bucketOrder t k = List.range' 0 256 := by
      unfold bucketOrder; rw [if_neg hc]
    refine ⟨⟨?_, ?_⟩, ?_⟩
    · dsimp only
      rw [S.1, hs]
    · intro b hb
      dsimp only
      rw [hbo, S.2.2.1 b ((mem_r b).2 hb)]
      omega
    · dsimp only
      rw [S.2.2.2.2]
      cases h0 : (gt h 0 == n)
      · simp
      · have : (List.range' 0 256).any (fun b => gt h b == n) = true := by
          rw [List.any_eq_true]
          exact ⟨0, (mem_r 0).2 (by omega), h0⟩
        rw [this]; rfl


/-! ### placement -/

/-- number of elements of `l` in bucket `b` of round `k` -/
def cnt (t : Ty) (k : Nat) (l : List Nat) (b : Nat) : Nat := l.countP (fun x => key t x k == b)

theorem cnt_cons (t : Ty) (k x : Nat) (xs : List Nat) (b : Nat) :
    cnt t k (x :: xs) b = cnt t k xs b + (if key t x k = b then 1 else 0) := by
  unfold cnt
  rw [List.countP_cons]
  simp

theorem bucket_length (t : Ty) (k b : Nat) (l : List Nat) : (bucket t k b l).length = cnt t k l b := by
  unfold bucket cnt
  rw [List.countP_eq_length_filter]

theorem bucket_cons (t : Ty) (k b x : Nat) (xs : List Nat) :
    bucket t k b (x :: xs) = if key t x k = b then x :: bucket t k b xs else bucket t k b xs := by
  unfold bucket
  rw [List.filter_cons]
  by_cases h : key t x k = b <;> simp [h]

theorem gt_st_if (a : Array Nat) (r v b : Nat) (hr : r < a.size) :
    gt (st a r v) b = if r = b then v else gt a b := by
  rw [gt_st]
  by_cases h : r = b
  · subst h; rw [if_pos ⟨rfl, hr⟩, if_pos rfl]
  · rw [if_neg (fun hh => h hh.1), if_neg h]

theorem place_spec (t : Ty) (k : Nat) : ∀ (l : List Nat) (offs out : Array Nat),
    offs.size = 256 →
    (∀ b, b < 256 → gt offs b + cnt t k l b ≤ out.size) →
    (∀ b b', b < 256 → b' < 256 → b ≠ b' →
      gt offs b + cnt t k l b ≤ gt offs b' ∨ gt offs b' + cnt t k l b' ≤ gt offs b) →
    ∃ offs' out', place t k l offs out = some (offs', out') ∧ out'.size = out.size ∧ offs'.size = 256 ∧
      (∀ b, b < 256 → gt offs' b = gt offs b + cnt t k l b) ∧
      (∀ b, b < 256 → ∀ i, i < cnt t k l b → (bucket t k b l)[i]? = some (gt out' (gt offs b + i))) ∧
      (∀ p, (∀ b, b < 256 → p < gt offs b ∨ gt offs b + cnt t k l b ≤ p) → gt out' p = gt out p) := by
  intro l
  induction l with
  | nil =>
    intro offs out hs _ _
    refine ⟨offs, out, rfl, rfl, hs, ?_, ?_, ?_⟩
    · intro b _; simp [cnt]
    · intro b _ i hi; simp [cnt] at hi
    · intro p _; rfl
  | cons x xs ih =>
    intro offs out hs hroom hdis
    have hr : key t x k < 256 := key_lt t x k
    have hr' : key t x k < offs.size := by rw [hs]; exact hr
    have hc : ∀ b, cnt t k (x :: xs) b = cnt t k xs b + (if key t x k = b then 1 else 0) := cnt_cons t k x xs
    have htgt : gt offs (key t x k) < out.size := by
      have := hroom _ hr
      rw [hc] at this
      simp at this
      omega
    have e : place t k (x :: xs) offs out =
        place t k xs (st offs (key t x k) (gt offs (key t x k) + 1)) (st out (gt offs (key t x k)) x) := by
      simp only [place]
      rw [if_pos ⟨htgt, hr'⟩]
    have hoffs1 : ∀ b, gt (st offs (key t x k) (gt offs (key t x k) + 1)) b =
        if key t x k = b then gt offs (key t x k) + 1 else gt offs b := fun b => gt_st_if offs _ _ b hr'
    have IH := ih (st offs (key t x k) (gt offs (key t x k) + 1)) (st out (gt offs (key t x k)) x)
      (by rw [size_st]; exact hs)
      (by
        intro b hb
        have := hroom b hb
        rw [hc] at this
        rw [hoffs1, size_st]
        by_cases h : key t x k = b
        · subst h; simp at this ⊢; omega
        · simp [h] at this ⊢; omega)
      (by
        intro b b' hb hb' hne
        have h1 := hdis b b' hb hb' hne
        rw [hc, hc] at h1
        rw [hoffs1, hoffs1]
        by_cases h : key t x k = b
        · subst h
          have h' : ¬ key t x k = b' := hne
          simp only [h', if_true, if_false] at h1 ⊢
          omega
        · by_cases h' : key t x k = b'
          · subst h'
            simp only [h, if_true, if_false] at h1 ⊢
            omega
          · simp only [h, h', if_false] at h1 ⊢
            omega)
    rcases IH with ⟨offs', out', hpl, hsz, hosz, hoff, hcont, hunch⟩
    refine ⟨offs', out', by rw [e]; exact hpl, by rw [hsz, size_st], hosz, ?_, ?_, ?_⟩
    · intro b hb
      rw [hoff b hb, hoffs1, hc]
      by_cases h : key t x k = b
      · subst h; simp; omega
      · simp [h]
    · intro b hb i hi
      rw [bucket_cons]
      rw [hc] at hi
      by_cases h : key t x k = b
      · subst h
        simp only [if_true] at hi ⊢
        cases i with
        | zero =>
          have hp := hunch (gt offs (key t x k)) (by
            intro b' hb'
            rw [hoffs1]
            by_cases h' : key t x k = b'
            · subst h'
              simp only [if_true]
              omega
            · simp only [h', if_false]
              have h1 := hdis (key t x k) b' hr hb' h'
              rw [hc, hc] at h1
              simp [h'] at h1
              omega)
          rw [gt_st_eq _ _ _ htgt] at hp
          simp [hp]
        | succ j =>
          have := hcont (key t x k) hr j (by omega)
          rw [hoffs1] at this
          simp only [if_true] at this
          rw [List.getElem?_cons_succ, this]
          congr 2
          omega
      · simp only [h, if_false] at hi ⊢
        have := hcont b hb i (by omega)
        rw [hoffs1] at this
        simp only [h, if_false] at this
        exact this
    · intro p hp
      have hne : gt offs (key t x k) ≠ p := by
        have := hp _ hr
        rw [hc] at this
        simp at this
        omega
      rw [hunch p (by
        intro b hb
        have := hp b hb
        rw [hc] at this
        rw [hoffs1]
        by_cases h : key t x k = b
        · subst h; simp at this ⊢; omega
        · simp [h] at this ⊢; omega)]
      exact gt_st_ne _ _ _ _ hne


/-! ### offsets tile the output; the placed array is the concatenation of the buckets -/

theorem startOf_disjoint (c : Nat → Nat) : ∀ (bo : List Nat), bo.Nodup → ∀ b b', b ∈ bo → b' ∈ bo → b ≠ b' →
    startOf bo c b + c b ≤ startOf bo c b' ∨ startOf bo c b' + c b' ≤ startOf bo c b := by
  intro bo
  induction bo with
  | nil => intro _ b b' hb; cases hb
  | cons a bo ih =>
    intro hnd b b' hb hb' hne
    rw [List.nodup_cons] at hnd
    by_cases e : a = b
    · subst e
      have e' : a ≠ b' := hne
      rw [startOf_cons_self, startOf_cons_ne _ _ _ _ e']
      omega
    · by_cases e' : a = b'
      · subst e'
        rw [startOf_cons_self, startOf_cons_ne _ _ _ _ e]
        omega
      · rw [startOf_cons_ne _ _ _ _ e, startOf_cons_ne _ _ _ _ e']
        have hb1 : b ∈ bo := by
          rcases List.mem_cons.mp hb with h | h
          · exact absurd h.symm e
          · exact h
        have hb2 : b' ∈ bo := by
          rcases List.mem_cons.mp hb' with h | h
          · exact absurd h.symm e'
          · exact h
        have := ih hnd.2 b b' hb1 hb2 hne
        omega

theorem startOf_room (c : Nat → Nat) : ∀ (bo : List Nat) (b : Nat), b ∈ bo →
    startOf bo c b + c b ≤ (bo.map c).sum := by
  intro bo
  induction bo with
  | nil => intro b hb; cases hb
  | cons a bo ih =>
    intro b hb
    rw [List.map_cons, List.sum_cons]
    by_cases e : a = b
    · subst e; rw [startOf_cons_self]; omega
    · rw [startOf_cons_ne _ _ _ _ e]
      have hb1 : b ∈ bo := by
        rcases List.mem_cons.mp hb with h | h
        · exact absurd h.symm e
        · exact h
      have := ih b hb1
      omega

theorem flatMap_of_segments (f : Nat → List Nat) : ∀ (bo : List Nat) (L : List Nat) (s : Nat), bo.Nodup →
    L.length = s + (bo.map (fun b => (f b).length)).sum →
    (∀ b ∈ bo, ∀ i, i < (f b).length →
      L[s + startOf bo (fun b => (f b).length) b + i]? = (f b)[i]?) →
    L.drop s = bo.flatMap f := by
  intro bo
  induction bo with
  | nil =>
    intro L s _ hlen _
    simp at hlen
    simp [List.drop_eq_nil_of_le, hlen]
  | cons c bo ih =>
    intro L s hnd hlen hseg
    rw [List.nodup_cons] at hnd
    rw [List.map_cons, List.sum_cons] at hlen
    rw [List.flatMap_cons]
    have hsplit : L.drop s = (L.drop s).take (f c).length ++ L.drop (s + (f c).length) := by
      rw [← List.drop_drop]
      exact (List.take_append_drop _ _).symm
    rw [hsplit]
    congr 1
    · apply List.ext_getElem?
      intro i
      rw [List.getElem?_take]
      by_cases hi : i < (f c).length
      · rw [if_pos hi, List.getElem?_drop]
        have := hseg c List.mem_cons_self i hi
        rw [startOf_cons_self] at this
        simpa using this
      · rw [if_neg hi]
        exact (List.getElem?_eq_none (by omega)).symm
    · apply ih L (s + (f c).length) hnd.2 (by omega)
      intro b hb i hi
      have hne : c ≠ b := fun e => hnd.1 (e ▸ hb)
      have := hseg b (List.mem_cons_of_mem _ hb) i hi
      rw [startOf_cons_ne _ _ _ _ hne] at this
      have e : s + ((f c).length + startOf bo (fun b => (f b).length) b) + i =
          s + (f c).length + startOf bo (fun b => (f b).length) b + i := by omega
      rw [e] at this
      exact this

theorem toList_getElem?_gt (a : Array Nat) (p : Nat) (h : p < a.size) : a.toList[p]? = some (gt a p) := by
  simp [gt, Array.getD_eq_getD_getElem?, h]

theorem sum_cnt (t : Ty) (k : Nat) (l : List Nat) : ((bucketOrder t k).map (cnt t k l)).sum = l.length := by
  have h := (pass_perm t k l).length_eq
  unfold pass at h
  rw [List.length_flatMap] at h
  rw [← h]
  congr 1
  apply List.map_congr_left
  intro b _
  exact (bucket_length t k b l).symm

/-- one permutation round at the histogram level = one bucket-level pass, all writes in bounds -/
theorem place_eq_pass (t : Ty) (k : Nat) (l : List Nat) (offs out : Array Nat)
    (hrow : RowOK t k (cnt t k l) offs) (hout : out.size = l.length) :
    ∃ offs' out', place t k l offs out = some (offs', out') ∧ out'.toList = pass t k l ∧
      out'.size = out.size := by
  have hnd := bucketOrder_nodup t k
  have hmem : ∀ b, b < 256 → b ∈ bucketOrder t k := fun b hb => (mem_bucketOrder t k b).2 hb
  have hsum := sum_cnt t k l
  rcases place_spec t k l offs out hrow.size
    (by
      intro b hb
      rw [hrow.start b hb, hout, ← hsum]
      exact startOf_room _ _ b (hmem b hb))
    (by
      intro b b' hb hb' hne
      rw [hrow.start b hb, hrow.start b' hb']
      exact startOf_disjoint _ _ hnd b b' (hmem b hb) (hmem b' hb') hne)
    with ⟨offs', out', hpl, hsz, _, _, hcont, _⟩
  refine ⟨offs', out', hpl, ?_, hsz⟩
  have hfun : (fun b => (bucket t k b l).length) = cnt t k l := by
    funext b; exact bucket_length t k b l
  have := flatMap_of_segments (fun b => bucket t k b l) (bucketOrder t k) out'.toList 0 hnd
    (by rw [hfun, hsum]; simp [hsz, hout])
    (by
      intro b hb i hi
      have hb' : b < 256 := (mem_bucketOrder t k b).1 hb
      rw [bucket_length] at hi
      rw [hfun, hcont b hb' i hi, hrow.start b hb', Nat.zero_add]
      apply toList_getElem?_gt
      have := startOf_room (cnt t k l) _ b hb
      rw [hsum] at this
      rw [hsz, hout]
      omega)
  simpa [pass] using this


/-! ### the phases put together -/

theorem prefixAll_spec (t : Ty) (n : Nat) : ∀ (ks : List Nat) (tab : Table) (sk : Array Bool), ks.Nodup →
    (∀ k ∈ ks, k < tab.size ∧ k < sk.size) →
    (prefixAll t n ks tab sk).1.size = tab.size ∧ (prefixAll t n ks tab sk).2.size = sk.size ∧
    (∀ k, k ∈ ks →
      gt (prefixAll t n ks tab sk).1 k = (prefixRound t n k (gt tab k) (gt sk k)).1 ∧
      gt (prefixAll t n ks tab sk).2 k = (prefixRound t n k (gt tab k) (gt sk k)).2) ∧
    (∀ k, k ∉ ks → gt (prefixAll t n ks tab sk).1 k = gt tab k ∧ gt (prefixAll t n ks tab sk).2 k = gt sk k) := by
  intro ks
  induction ks with
  | nil =>
    intro tab sk _ _
    exact ⟨rfl, rfl, fun k hk => (by cases hk), fun k _ => ⟨rfl, rfl⟩⟩
  | cons k ks ih =>
    intro tab sk hnd hlt
    rw [List.nodup_cons] at hnd
    have hk := hlt k List.mem_cons_self
    have e : prefixAll t n (k :: ks) tab sk =
        prefixAll t n ks (st tab k (prefixRound t n k (gt tab k) (gt sk k)).1)
          (st sk k (prefixRound t n k (gt tab k) (gt sk k)).2) := rfl
    rw [e]
    have IH := ih (st tab k (prefixRound t n k (gt tab k) (gt sk k)).1)
      (st sk k (prefixRound t n k (gt tab k) (gt sk k)).2) hnd.2
      (by intro k' hk'; rw [size_st, size_st]; exact hlt k' (List.mem_cons_of_mem _ hk'))
    refine ⟨by rw [IH.1, size_st], by rw [IH.2.1, size_st], ?_, ?_⟩
    · intro k' hk'
      by_cases ek : k = k'
      · subst ek
        have := IH.2.2.2 k hnd.1
        rw [this.1, this.2, gt_st_eq _ _ _ hk.1, gt_st_eq _ _ _ hk.2]
        exact ⟨rfl, rfl⟩
      · have hk'' : k' ∈ ks := by
          rcases List.mem_cons.mp hk' with h | h
          · exact absurd h.symm ek
          · exact h
        have := IH.2.2.1 k' hk''
        rw [gt_st_ne _ _ _ _ ek, gt_st_ne _ _ _ _ ek] at this
        exact this
    · intro k' hk'
      have ek : k ≠ k' := fun e => hk' (e ▸ List.mem_cons_self)
      have := IH.2.2.2 k' (fun h => hk' (List.mem_cons_of_mem _ h))
      rw [gt_st_ne _ _ _ _ ek, gt_st_ne _ _ _ _ ek] at this
      exact this

theorem cnt_perm (t : Ty) (k : Nat) (l xs : List Nat) (hp : l.Perm xs) : cnt t k l = cnt t k xs := by
  funext b
  unfold cnt
  exact hp.countP_eq _

theorem permute_spec (t : Ty) (xs : List Nat) : ∀ (ks : List Nat) (tab : Table) (sk : Array Bool)
    (cur out : Array Nat), ks.Nodup →
    (∀ k ∈ ks, k < tab.size ∧ RowOK t k (cnt t k xs) (gt tab k) ∧ gt sk k = skipRound t k xs) →
    cur.toList.Perm xs → out.size = cur.size →
    ∃ a, permute t ks tab sk cur out = some a ∧ a.toList = roundsB t xs ks cur.toList := by
  intro ks
  induction ks with
  | nil =>
    intro tab sk cur out _ _ _ _
    exact ⟨cur, rfl, rfl⟩
  | cons k ks ih =>
    intro tab sk cur out hnd hrows hperm hsize
    rw [List.nodup_cons] at hnd
    have hk := hrows k List.mem_cons_self
    have hrest : ∀ k' ∈ ks, k' < tab.size ∧ RowOK t k' (cnt t k' xs) (gt tab k') ∧ gt sk k' = skipRound t k' xs :=
      fun k' hk' => hrows k' (List.mem_cons_of_mem _ hk')
    have er : roundsB t xs (k :: ks) cur.toList =
        roundsB t xs ks (if skipRound t k xs then cur.toList else pass t k cur.toList) := rfl
    rw [er]
    by_cases hs : gt sk k = true
    · have e : permute t (k :: ks) tab sk cur out = permute t ks tab sk cur out := by
        simp only [permute]
        rw [if_pos hs]
      rw [e, ← hk.2.2, if_pos hs]
      exact ih tab sk cur out hnd.2 hrest hperm hsize
    · have hrow : RowOK t k (cnt t k cur.toList) (gt tab k) := by
        rw [cnt_perm t k cur.toList xs hperm]; exact hk.2.1
      rcases place_eq_pass t k cur.toList (gt tab k) out hrow (by rw [hsize]; simp)
        with ⟨offs', out', hpl, htl, hsz⟩
      have e : permute t (k :: ks) tab sk cur out = permute t ks (st tab k offs') sk out' cur := by
        simp only [permute]
        rw [if_neg hs, hpl]
      rw [e, ← hk.2.2, if_neg hs, ← htl]
      apply ih (st tab k offs') sk out' cur hnd.2
      · intro k' hk'
        have ek : k ≠ k' := fun e => hnd.1 (e ▸ hk')
        rw [size_st, gt_st_ne _ _ _ _ ek]
        exact hrest k' hk'
      · rw [htl]; exact (pass_perm t k cur.toList).trans hperm
      · rw [hsz, hsize]

/-- the histogram-level model never leaves the bounds of its arrays and computes the bucket-level sort -/
theorem radixSort_eq_sortB (t : Ty) (xs : Array Nat) :
    ∃ a, radixSort t xs = some a ∧ a.toList = sortB t xs.toList := by
  unfold radixSort sortB
  have hwf := histAll_wf t xs.toList
  have P := prefixAll_spec t xs.size (List.range t.w) (histAll t xs.toList) (Array.replicate t.w false)
    List.nodup_range (by
      intro k hk
      rw [hwf.size]
      simp
      exact List.mem_range.mp hk)
  apply permute_spec t xs.toList (List.range t.w) _ _ xs (Array.replicate xs.size 0) List.nodup_range
  · intro k hk
    have hkw : k < t.w := List.mem_range.mp hk
    have hrow := P.2.2.1 k hk
    have hfalse : gt (Array.replicate t.w false) k = false := gt_replicate _ _ _ hkw
    rw [hfalse] at hrow
    have S := prefixRound_spec t xs.size k (gt (histAll t xs.toList) k) (hwf.row k hkw)
    have hfun : gt (gt (histAll t xs.toList) k) = cnt t k xs.toList := by
      funext b; exact hist_count t xs.toList k b hkw
    refine ⟨by rw [P.1, hwf.size]; exact hkw, ?_, ?_⟩
    · rw [hrow.1]
      rw [hfun] at S
      exact S.1
    · rw [hrow.2, S.2, hfun]
      unfold skipRound cnt
      simp
  · exact List.Perm.refl _
  · simp

end Tbx.Radix
