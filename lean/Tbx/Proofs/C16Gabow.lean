import Tbx.Model.Gabow
import Tbx.Proofs.C16Arr
import Tbx.Proofs.C16UF
/-
Path-based SCC (`Model/Gabow.lean`): whenever `run` returns, every node carries a label below n.

Invariant of the explicit-stack DFS:
  * every `scc` entry is `usize::MAX` or below n; `component ≤ n`
  * the nodes on stack `S` are visited nodes below n, and there are at most as many as visited nodes
  * a `Visit(w)` record only ever sits on top of the work list, and then `w` is unvisited
Core Lean only.
-/
namespace Tbx.Gabow
open Tbx Tbx.Csr
open Tbx.UF (countP_range_update)

/-- number of visited nodes -/
def visited (scc : Array Nat) (n : Nat) : Nat := (List.range n).countP (fun v => gt scc v != maxU)

structure GS (n : Nat) (s : State) : Prop where
  size : s.scc.size = n
  range : ∀ v, v < n → gt s.scc v = maxU ∨ gt s.scc v < n
  comp : s.component ≤ n
  stk : ∀ i, i < s.stack.size → gt s.stack i < n ∧ gt s.scc (gt s.stack i) ≠ maxU
  cnt : s.stack.size ≤ visited s.scc n

def NoVisit (l : List Dfs) : Prop := ∀ d, d ∈ l → ∀ w, d ≠ .visit w

/-- a `Visit` record only on top, and only of an unvisited node -/
def WorkOK (scc : Array Nat) : List Dfs → Prop
  | [] => True
  | .visit w :: rest => gt scc w = maxU ∧ NoVisit rest
  | _ :: rest => NoVisit rest

theorem visited_le (scc : Array Nat) (n : Nat) : visited scc n ≤ n := by
  have := @List.countP_le_length _ (fun v => gt scc v != maxU) (List.range n)
  simpa [visited] using this

theorem visited_mono (scc scc' : Array Nat) (n : Nat) (h : ∀ v, gt scc v ≠ maxU → gt scc' v ≠ maxU) :
    visited scc n ≤ visited scc' n := by
  apply List.countP_mono_left
  intro v _ hv
  simp only [bne_iff_ne, ne_eq] at hv ⊢
  exact h v hv

theorem visited_st (scc : Array Nat) (n v x : Nat) (hv : v < n) (hsz : scc.size = n) (hm : gt scc v = maxU) (hx : x ≠ maxU) :
    visited (st scc v x) n = visited scc n + 1 := by
  have := countP_range_update (fun u => gt (st scc v x) u != maxU) (fun u => gt scc u != maxU) v
    (by simp [gt_st_eq _ _ _ (hsz ▸ hv), hx]) (by simp [hm])
    (by intro i hi; simp [gt_st_ne _ _ _ _ (Ne.symm hi)]) n hv
  simp only [visited]
  omega

/-- the pop loop of `Finalize` keeps the invariant and un-visits nothing -/
theorem popComp_inv (n : Nat) (hn : n < maxU) (v : Nat) :
    ∀ (f : Nat) (s s' : State), GS n s → s.component < n → popComp v f s = some s' →
      GS n s' ∧ s'.component = s.component ∧ ∀ u, gt s.scc u ≠ maxU → gt s'.scc u ≠ maxU := by
  intro f
  induction f with
  | zero =>
    intro s s' hs _ h
    simp only [popComp] at h
    cases h
    exact ⟨hs, rfl, fun _ h => h⟩
  | succ f ih =>
    intro s s' hs hc h
    simp only [popComp] at h
    split at h
    · cases h; exact ⟨hs, rfl, fun _ h => h⟩
    · rename_i hne
      split at h
      · cases h
      · rename_i hu
        have hmono : ∀ u, gt s.scc u ≠ maxU → gt (st s.scc (gt s.stack (s.stack.size - 1)) s.component) u ≠ maxU := by
          intro u hu'
          rw [gt_st]
          split
          · omega
          · exact hu'
        have hs1 : GS n { s with stack := s.stack.pop, scc := st s.scc (gt s.stack (s.stack.size - 1)) s.component } := by
          constructor
          · simp only [size_st]; exact hs.size
          · intro u hu'
            simp only
            rw [gt_st]
            split
            · right; exact hc
            · exact hs.range u hu'
          · exact hs.comp
          · intro i hi
            simp only [Array.size_pop] at hi
            simp only
            rw [gt_pop_lt _ _ hi]
            have := hs.stk i (by omega)
            exact ⟨this.1, hmono _ this.2⟩
          · simp only [Array.size_pop]
            have := hs.cnt
            have := visited_mono _ _ n hmono
            omega
        split at h
        · cases h
          exact ⟨hs1, rfl, hmono⟩
        · obtain ⟨h1, h2, h3⟩ := ih _ _ hs1 hc h
          exact ⟨h1, h2, fun u hu' => h3 u (hmono u hu')⟩

theorem step_inv (g : Graph) (n : Nat) (hn : n < maxU) (s : State) (ei : Array Nat) (rest : List Dfs) (top : Dfs)
    (s' : State) (ei' : Array Nat) (work' : List Dfs) (hs : GS n s) (hw : WorkOK s.scc (top :: rest))
    (h : step g s ei rest top = some (s', ei', work')) :
    GS n s' ∧ WorkOK s'.scc work' ∧ (∀ u, gt s.scc u ≠ maxU → gt s'.scc u ≠ maxU) ∧
      (∀ w, top = .visit w → gt s'.scc w ≠ maxU) := by
  cases top with
  | visit v =>
    simp only [step] at h
    split at h
    · cases h
    · rename_i hv
      have hvn : v < n := by have := hs.size; omega
      simp only [Option.some.injEq, Prod.mk.injEq] at h
      obtain ⟨rfl, rfl, rfl⟩ := h
      obtain ⟨hm, hnv⟩ := hw
      simp only [Array.size_push, Nat.add_sub_cancel]
      have hV := visited_st s.scc n v s.stack.size hvn hs.size hm
      have hS : s.stack.size < n := by
        have h1 := hs.cnt
        by_cases hx : s.stack.size = maxU
        · have := visited_le s.scc n; omega
        · have := hV hx
          have := visited_le (st s.scc v s.stack.size) n
          omega
      have hV' := hV (by omega)
      have hmono : ∀ u, gt s.scc u ≠ maxU → gt (st s.scc v s.stack.size) u ≠ maxU := by
        intro u hu
        rw [gt_st]; split
        · omega
        · exact hu
      refine ⟨?_, hnv, hmono, ?_⟩
      · constructor
        · simp only [size_st]; exact hs.size
        · intro u hu
          simp only
          rw [gt_st]; split
          · right; exact hS
          · exact hs.range u hu
        · exact hs.comp
        · intro i hi
          simp only [Array.size_push] at hi
          simp only
          by_cases hil : i < s.stack.size
          · rw [gt_push_lt _ _ _ hil]
            have := hs.stk i hil
            exact ⟨this.1, hmono _ this.2⟩
          · have : i = s.stack.size := by omega
            subst this
            rw [gt_push_eq]
            refine ⟨hvn, ?_⟩
            rw [gt_st_eq _ _ _ (by have := hs.size; omega)]
            omega
        · simp only [Array.size_push]
          have := hs.cnt
          omega
      · intro w hw'
        cases hw'
        rw [gt_st_eq _ _ _ (by have := hs.size; omega)]
        omega
  | process v =>
    have hnv : NoVisit rest := hw
    have hnv' : NoVisit (Dfs.process v :: rest) := by
      intro d hd w
      rcases List.mem_cons.mp hd with rfl | hd
      · intro hh; cases hh
      · exact hnv d hd w
    simp only [step] at h
    split at h
    · cases h
    · split at h
      · split at h
        · cases h
        · split at h
          · rename_i hm
            simp only [Option.some.injEq, Prod.mk.injEq] at h
            obtain ⟨rfl, rfl, rfl⟩ := h
            exact ⟨hs, ⟨hm, hnv'⟩, fun _ h => h, fun w hw' => by cases hw'⟩
          · simp only [Option.some.injEq, Prod.mk.injEq] at h
            obtain ⟨rfl, rfl, rfl⟩ := h
            refine ⟨⟨hs.size, hs.range, hs.comp, hs.stk, hs.cnt⟩, hnv, fun _ h => h, fun w hw' => by cases hw'⟩
      · simp only [Option.some.injEq, Prod.mk.injEq] at h
        obtain ⟨rfl, rfl, rfl⟩ := h
        refine ⟨hs, ?_, fun _ h => h, fun w hw' => by cases hw'⟩
        exact hnv
  | finalize v =>
    have hnv : NoVisit rest := hw
    have hrest : ∀ scc, WorkOK scc rest := by
      intro scc
      cases rest with
      | nil => trivial
      | cons d ds =>
        have hd := hnv d List.mem_cons_self
        have hds : NoVisit ds := fun x hx => hnv x (List.mem_cons_of_mem _ hx)
        cases d with
        | visit w => exact absurd rfl (hd w)
        | process w => exact hds
        | finalize w => exact hds
    simp only [step] at h
    split at h
    · cases h
    · split at h
      · split at h
        · cases h
        · rename_i hc
          split at h
          · cases h
          · rename_i s1 hp
            simp only [Option.some.injEq, Prod.mk.injEq] at h
            obtain ⟨rfl, rfl, rfl⟩ := h
            have hs0 : GS n { s with bounds := s.bounds.pop, component := s.component - 1 } :=
              ⟨hs.size, hs.range, by have := hs.comp; simp only; omega, hs.stk, hs.cnt⟩
            obtain ⟨h1, _, h3⟩ := popComp_inv n hn v _ _ _ hs0 (by have := hs.comp; simp only; omega) hp
            exact ⟨h1, hrest _, h3, fun w hw' => by cases hw'⟩
      · simp only [Option.some.injEq, Prod.mk.injEq] at h
        obtain ⟨rfl, rfl, rfl⟩ := h
        exact ⟨hs, hrest _, fun _ h => h, fun w hw' => by cases hw'⟩

theorem loop_inv (g : Graph) (n : Nat) (hn : n < maxU) :
    ∀ (f : Nat) (s : State) (ei : Array Nat) (work : List Dfs) (s' : State), GS n s → WorkOK s.scc work →
      loop g f s ei work = some s' →
      GS n s' ∧ (∀ u, gt s.scc u ≠ maxU → gt s'.scc u ≠ maxU) ∧
        (∀ w rest, work = .visit w :: rest → gt s'.scc w ≠ maxU) := by
  intro f
  induction f with
  | zero => intro s ei work s' _ _ h; simp [loop] at h
  | succ f ih =>
    intro s ei work s' hs hw h
    simp only [loop] at h
    split at h
    · cases h
      exact ⟨hs, fun _ h => h, fun w rest hh => by cases hh⟩
    · rename_i top rest
      split at h
      · cases h
      · rename_i s1 ei1 work1 hstep
        obtain ⟨h1, h2, h3, h4⟩ := step_inv g n hn s ei rest top s1 ei1 work1 hs hw hstep
        obtain ⟨k1, k2, _⟩ := ih s1 ei1 work1 s' h1 h2 h
        refine ⟨k1, fun u hu => k2 u (h3 u hu), ?_⟩
        intro w rest' hh
        cases hh
        exact k2 w (h4 w rfl)

theorem outer_inv (g : Graph) (n : Nat) (hn : n < maxU) :
    ∀ (k v : Nat) (s s' : State), GS n s → v + k = n → (∀ u, u < v → gt s.scc u ≠ maxU) →
      outer g k v s = some s' → GS n s' ∧ ∀ u, u < n → gt s'.scc u ≠ maxU := by
  intro k
  induction k with
  | zero =>
    intro v s s' hs hv hall h
    simp only [outer] at h
    cases h
    exact ⟨hs, fun u hu => hall u (by omega)⟩
  | succ k ih =>
    intro v s s' hs hv hall h
    simp only [outer] at h
    split at h
    · rename_i hm
      split at h
      · cases h
      · rename_i s1 hd
        obtain ⟨h1, h2, h3⟩ := loop_inv g n hn _ s _ _ s1 hs (show WorkOK s.scc [.visit v] from ⟨hm, fun d hd' => by cases hd'⟩) hd
        refine ih (v + 1) s1 s' h1 (by omega) ?_ h
        intro u hu
        by_cases huv : u = v
        · subst huv; exact h3 u [] rfl
        · exact h2 u (hall u (by omega))
    · rename_i hm
      refine ih (v + 1) s s' hs (by omega) ?_ h
      intro u hu
      by_cases huv : u = v
      · subst huv; exact hm
      · exact hall u (by omega)

/-- whenever `PathBasedScc::run` returns, every node has a label below the number of nodes -/
theorem run_labels (s : State) (g : Graph) (hn : numNodes g < maxU) (s' : State) (a : Array Nat)
    (h : run s g = some (s', a)) : a.size = numNodes g ∧ ∀ v, v < numNodes g → gt a v < numNodes g := by
  simp only [run, runWith] at h
  split at h
  · cases h
  · rename_i s1 ho
    simp only [Option.some.injEq, Prod.mk.injEq] at h
    obtain ⟨rfl, rfl⟩ := h
    have hinit : GS (numNodes g) (prepare true s g) := by
      simp only [prepare, if_true, Tarjan.clear, Tarjan.resize_empty]
      constructor
      · simp
      · intro v hv; left; exact gt_replicate _ _ _ hv
      · exact Nat.le_refl _
      · intro i hi; simp at hi
      · simp
    obtain ⟨h1, h2⟩ := outer_inv g _ hn _ 0 _ _ hinit (by omega) (fun u hu => by omega) ho
    refine ⟨h1.size, fun v hv => ?_⟩
    rcases h1.range v hv with h | h
    · exact absurd h (h2 v hv)
    · exact h

end Tbx.Gabow
