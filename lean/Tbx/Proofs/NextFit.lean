import Tbx.Model.NextFit
import Tbx.Spec.NextFit
/-
Next-fit: the loop invariant (`loop_spec`) and the soundness of the judge's checker.
-/
namespace Tbx.NextFit
open Tbx.NextFitSpec

theorem load_zero (xs asg : List Nat) (b : Nat) (h : ∀ a ∈ asg, a ≠ b) : load xs asg b = 0 := by
  induction xs generalizing asg with
  | nil => cases asg <;> simp [load]
  | cons x xs ih =>
    cases asg with
    | nil => simp [load]
    | cons a as =>
      have ha : a ≠ b := h a List.mem_cons_self
      simp only [load, if_neg ha, Nat.zero_add]
      exact ih as (fun a' ha' => h a' (List.mem_cons_of_mem _ ha'))

/-- load of bin b when `cap - rem` has already been put into bin `cur` before the remaining items -/
def loadT (cap : Nat) (xs asg : List Nat) (cur rem b : Nat) : Nat :=
  load xs asg b + (if cur = b then cap - rem else 0)

theorem getD_ge (l : List Nat) (c i : Nat) (h : ∀ a ∈ l, c ≤ a) (hi : i < l.length) : c ≤ l.getD i 0 := by
  have : l.getD i 0 ∈ l := by
    rw [List.getD_eq_getElem?_getD, List.getElem?_eq_getElem hi]; simp
  exact h _ this

theorem loop_spec (cap : Nat) (xs : List Nat) (cur rem : Nat) (hr : rem ≤ cap) (hx : ∀ x ∈ xs, x ≤ cap) :
    (loop cap xs cur rem).2.length = xs.length ∧
    (∀ a ∈ (loop cap xs cur rem).2, cur ≤ a) ∧
    (∀ i, i < xs.length →
      (cur :: (loop cap xs cur rem).2).getD (i + 1) 0 = (cur :: (loop cap xs cur rem).2).getD i 0 ∨
      (cur :: (loop cap xs cur rem).2).getD (i + 1) 0 = (cur :: (loop cap xs cur rem).2).getD i 0 + 1) ∧
    (loop cap xs cur rem).1 = (cur :: (loop cap xs cur rem).2).getD xs.length 0 ∧
    (∀ b, loadT cap xs (loop cap xs cur rem).2 cur rem b ≤ cap) ∧
    (∀ i, i < xs.length →
      (cur :: (loop cap xs cur rem).2).getD (i + 1) 0 = (cur :: (loop cap xs cur rem).2).getD i 0 + 1 →
      xs.getD i 0 + loadT cap xs (loop cap xs cur rem).2 cur rem ((cur :: (loop cap xs cur rem).2).getD i 0) > cap) := by
  induction xs generalizing cur rem with
  | nil =>
    refine ⟨rfl, ?_, ?_, rfl, ?_, ?_⟩
    · intro a ha; simp [loop] at ha
    · intro i hi; simp at hi
    · intro b; simp only [loadT, load]; split <;> omega
    · intro i hi; simp at hi
  | cons x xs ih =>
    have hxc : x ≤ cap := hx x List.mem_cons_self
    have hxs : ∀ y ∈ xs, y ≤ cap := fun y hy => hx y (List.mem_cons_of_mem _ hy)
    by_cases hfit : x > rem
    · -- a new bin is opened
      obtain ⟨h1, h2, h3, h4, h5, h6⟩ := ih (cur + 1) (cap - x) (Nat.sub_le _ _) hxs
      have hl : loop cap (x :: xs) cur rem = ((loop cap xs (cur + 1) (cap - x)).1, (cur + 1) :: (loop cap xs (cur + 1) (cap - x)).2) := by
        simp [loop, hfit]
      rw [hl]
      have hz : load xs (loop cap xs (cur + 1) (cap - x)).2 cur = 0 :=
        load_zero _ _ _ (fun a ha => by have := h2 a ha; omega)
      refine ⟨by simp [h1], ?_, ?_, ?_, ?_, ?_⟩
      · intro a ha
        rcases List.mem_cons.mp ha with rfl | ha
        · omega
        · have := h2 a ha; omega
      · intro i hi
        cases i with
        | zero => right; simp
        | succ i =>
          simp only [List.length_cons, Nat.add_lt_add_iff_right] at hi
          simpa using h3 i hi
      · simpa using h4
      · intro b
        have := h5 b
        simp only [loadT, load] at this ⊢
        by_cases hb : cur = b
        · subst hb
          have hne : ¬ (cur + 1 = cur) := by omega
          simp only [hz, if_neg hne, if_true] at this ⊢
          omega
        · simp only [if_neg hb]
          by_cases hb2 : cur + 1 = b
          · simp only [if_pos hb2] at this ⊢; omega
          · simp only [if_neg hb2] at this ⊢; omega
      · intro i hi hop
        cases i with
        | zero =>
          have hne : ¬ (cur + 1 = cur) := by omega
          simp only [List.getD_cons_zero, loadT, load, hz, if_neg hne, if_true]
          omega
        | succ i =>
          simp only [List.length_cons, Nat.add_lt_add_iff_right] at hi
          have hop' := h6 i hi (by simpa using hop)
          have hge : cur + 1 ≤ ((cur + 1) :: (loop cap xs (cur + 1) (cap - x)).2).getD i 0 := by
            apply getD_ge
            · intro a ha
              rcases List.mem_cons.mp ha with rfl | ha
              · omega
              · exact h2 a ha
            · simp [h1]; omega
          simp only [List.getD_cons_succ] at hop' ⊢
          generalize ((cur + 1) :: (loop cap xs (cur + 1) (cap - x)).2).getD i 0 = b at hop' hge ⊢
          simp only [loadT, load] at hop' ⊢
          have hb : ¬ (cur = b) := by omega
          simp only [if_neg hb]
          by_cases hb2 : cur + 1 = b
          · simp only [if_pos hb2] at hop' ⊢; omega
          · simp only [if_neg hb2] at hop' ⊢; omega
    · -- the item goes into the current bin
      have hle : x ≤ rem := by omega
      obtain ⟨h1, h2, h3, h4, h5, h6⟩ := ih cur (rem - x) (by omega) hxs
      have hl : loop cap (x :: xs) cur rem = ((loop cap xs cur (rem - x)).1, cur :: (loop cap xs cur (rem - x)).2) := by
        simp [loop, hfit]
      rw [hl]
      refine ⟨by simp [h1], ?_, ?_, ?_, ?_, ?_⟩
      · intro a ha
        rcases List.mem_cons.mp ha with rfl | ha
        · omega
        · exact h2 a ha
      · intro i hi
        cases i with
        | zero => left; simp
        | succ i =>
          simp only [List.length_cons, Nat.add_lt_add_iff_right] at hi
          simpa using h3 i hi
      · simpa using h4
      · intro b
        have := h5 b
        simp only [loadT, load] at this ⊢
        by_cases hb : cur = b
        · simp only [if_pos hb] at this ⊢; omega
        · simp only [if_neg hb] at this ⊢; omega
      · intro i hi hop
        cases i with
        | zero => simp at hop
        | succ i =>
          simp only [List.length_cons, Nat.add_lt_add_iff_right] at hi
          have hop' := h6 i hi (by simpa using hop)
          simp only [List.getD_cons_succ] at hop' ⊢
          generalize (cur :: (loop cap xs cur (rem - x)).2).getD i 0 = b at hop' ⊢
          simp only [loadT, load] at hop' ⊢
          by_cases hb : cur = b
          · simp only [if_pos hb] at hop' ⊢; omega
          · simp only [if_neg hb] at hop' ⊢; omega


theorem any_gt_iff (items : List Nat) (cap : Nat) :
    (items.any fun x => decide (x > cap)) = true ↔ ∃ x ∈ items, x > cap := by
  simp [List.any_eq_true]

/-- the model's result satisfies the laws, for every input -/
theorem nextFit_laws (items : List Nat) (cap : Nat) : Laws items cap (nextFit items cap) := by
  unfold nextFit
  by_cases hc : cap = 0
  · simp only [if_pos hc]
    exact ⟨⟨fun _ => Or.inl hc, fun _ => rfl⟩, fun _ _ h => by cases h⟩
  simp only [if_neg hc]
  cases items with
  | nil =>
    simp only [List.isEmpty_nil, if_true]
    refine ⟨⟨(fun h => by cases h), fun h => ?_⟩, ?_⟩
    · rcases h with h | ⟨x, hx, _⟩
      · exact absurd h hc
      · cases hx
    · intro bins asg h
      cases h
      refine ⟨rfl, ?_, ?_, fun _ => rfl, ?_, ?_, ?_⟩
      · intro h; simp at h
      · intro i h; simp at h
      · intro h; simp at h
      · intro b; simp [load]
      · intro i h; simp at h
  | cons x xs =>
    simp only [List.isEmpty_cons, Bool.false_eq_true, if_false]
    by_cases hany : ((x :: xs).any fun y => decide (y > cap)) = true
    · simp only [if_pos hany]
      exact ⟨⟨fun _ => Or.inr ((any_gt_iff _ _).mp hany), fun _ => rfl⟩, fun _ _ h => by cases h⟩
    · simp only [if_neg hany]
      have hall : ∀ y ∈ x :: xs, y ≤ cap := by
        intro y hy
        by_cases hgt : y > cap
        · exact absurd ((any_gt_iff _ _).mpr ⟨y, hy, hgt⟩) hany
        · omega
      obtain ⟨h1, h2, h3, h4, h5, h6⟩ := loop_spec cap (x :: xs) 0 cap (Nat.le_refl _) hall
      refine ⟨⟨(fun h => by cases h), fun h => ?_⟩, ?_⟩
      · rcases h with h | h
        · exact absurd h hc
        · exact absurd ((any_gt_iff _ _).mpr h) hany
      · intro bins asg h
        cases h
        have hx : x ≤ cap := hall x List.mem_cons_self
        have hhead : (loop cap (x :: xs) 0 cap).2.getD 0 0 = 0 := by
          have : ¬ (x > cap) := by omega
          simp [loop, this]
        refine ⟨h1, fun _ => hhead, ?_, ?_, ?_, ?_, ?_⟩
        · intro i hi
          have := h3 (i + 1) (by rw [h1] at hi; exact hi)
          simpa using this
        · intro h
          rw [h] at h1; simp at h1
        · intro _
          rw [h4, h1]
          simp
        · intro b
          have := h5 b
          simp only [loadT, Nat.sub_self] at this
          split at this <;> omega
        · intro i hi hop
          have := h6 (i + 1) (by rw [h1] at hi; exact hi) (by simpa using hop)
          simp only [List.getD_cons_succ, loadT, Nat.sub_self] at this ⊢
          split at this <;> omega

theorem load_le_of_all (items asg : List Nat) (cap : Nat)
    (h : ∀ b ∈ asg, load items asg b ≤ cap) (b : Nat) : load items asg b ≤ cap := by
  by_cases hb : b ∈ asg
  · exact h b hb
  · rw [load_zero items asg b (fun a ha hab => hb (hab ▸ ha))]
    exact Nat.zero_le _

/-- the judge's checker decides exactly the laws -/
theorem check_iff (items : List Nat) (cap : Nat) (res : Option (Nat × List Nat)) :
    check items cap res = true ↔ Laws items cap res := by
  cases res with
  | none =>
    show (decide (cap = 0) || items.any fun x => decide (x > cap)) = true ↔ Laws items cap none
    rw [Bool.or_eq_true, decide_eq_true_eq, any_gt_iff]
    constructor
    · intro h; exact ⟨⟨fun _ => h, fun _ => rfl⟩, fun _ _ h => by cases h⟩
    · intro h; exact h.1.mp rfl
  | some r =>
    obtain ⟨bins, asg⟩ := r
    simp only [check, Laws, Bool.and_eq_true, Bool.not_eq_eq_eq_not, Bool.not_true, Bool.or_eq_false_iff,
      Bool.or_eq_true, decide_eq_true_eq, decide_eq_false_iff_not, List.all_eq_true, List.mem_range]
    constructor
    · rintro ⟨⟨⟨⟨⟨⟨⟨hc, hany⟩, hlen⟩, hfirst⟩, hstep⟩, hbins⟩, hload⟩, hopen⟩
      refine ⟨⟨(fun h => by cases h), fun h => ?_⟩, ?_⟩
      · rcases h with h | h
        · exact absurd h hc
        · rw [← any_gt_iff] at h; rw [h] at hany; cases hany
      · intro b a hba
        cases hba
        refine ⟨hlen, ?_, ?_, ?_, ?_, load_le_of_all items asg cap hload, ?_⟩
        · intro h; rcases hfirst with h' | h'
          · omega
          · exact h'
        · intro i hi; exact hstep i (by omega)
        · intro h; subst h; simpa using hbins
        · intro h
          have : ¬ (asg.length = 0) := by omega
          simpa [this] using hbins
        · intro i hi hop
          rcases hopen i (by omega) with h | h
          · exact absurd hop h
          · exact h
    · rintro ⟨herr, hok⟩
      obtain ⟨hlen, hfirst, hstep, hnil, hbins, hload, hopen⟩ := hok bins asg rfl
      have hne : ¬ (cap = 0 ∨ ∃ x ∈ items, x > cap) := fun h => by cases herr.mpr h
      refine ⟨⟨⟨⟨⟨⟨⟨fun h => hne (Or.inl h), ?_⟩, hlen⟩, ?_⟩, ?_⟩, ?_⟩, fun b _ => hload b⟩, ?_⟩
      · cases hany : items.any fun x => decide (x > cap)
        · rfl
        · exact absurd (Or.inr ((any_gt_iff _ _).mp hany)) hne
      · by_cases h : asg.length = 0
        · left; exact h
        · right; exact hfirst (by omega)
      · intro i hi; exact hstep i (by omega)
      · by_cases h : asg.length = 0
        · simp only [if_pos h, decide_eq_true_eq]
          exact hnil (List.length_eq_zero_iff.mp h)
        · simp only [if_neg h, decide_eq_true_eq]
          exact hbins (by omega)
      · intro i hi
        by_cases hop : asg.getD (i + 1) 0 = asg.getD i 0 + 1
        · right; exact hopen i (by omega) hop
        · left; exact hop

end Tbx.NextFit
