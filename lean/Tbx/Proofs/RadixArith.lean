import Tbx.Model.Radix
/-
Arithmetic of radix keys (C17): `key` is a byte of the transformed pattern; for every kind there is an
order-preserving unsigned key `okey` whose byte `k` is the *rank* of the bucket of round `k`, and the
type's order is the numeric order of `okey`.
-/
namespace Tbx.Radix
open Tbx Tbx.SortSpec

theorem key_eq (t : Ty) (x k : Nat) : key t x k = tr t x / 256 ^ k % 256 := by
  unfold key
  rw [Nat.shiftRight_eq_div_pow, Nat.shiftLeft_eq]
  have : (2 : Nat) ^ (k * 2 ^ 3) = 256 ^ k := by
    rw [show (256 : Nat) = 2 ^ 8 from rfl, ← Nat.pow_mul]
    congr 1
    omega
  rw [this]

theorem key_lt (t : Ty) (x k : Nat) : key t x k < 256 := by
  unfold key; exact Nat.mod_lt _ (by decide)

theorem pow_pos256 (k : Nat) : 0 < 256 ^ k := Nat.pow_pos (by decide)

theorem card_eq (t : Ty) (hw : 0 < t.w) : t.card = 256 * 256 ^ (t.w - 1) := by
  unfold Ty.card
  have : t.w = (t.w - 1) + 1 := by omega
  rw [this, Nat.pow_succ, Nat.mul_comm]
  simp

theorem card_eq_two_half (t : Ty) (hw : 0 < t.w) : t.card = 2 * t.half := by
  rw [card_eq t hw]; unfold Ty.half; omega

theorem half_pos (t : Ty) : 0 < t.half := by
  unfold Ty.half
  have := pow_pos256 (t.w - 1)
  omega

/-- for `k < w`: `card = 256^k * (256 * 256^(w-1-k))` -/
theorem card_split (t : Ty) (k : Nat) (hk : k < t.w) : t.card = 256 ^ k * (256 * 256 ^ (t.w - 1 - k)) := by
  unfold Ty.card
  have : t.w = k + (1 + (t.w - 1 - k)) := by omega
  conv => lhs; rw [this]
  rw [Nat.pow_add, Nat.pow_add, Nat.pow_one]

/-- for `k < w - 1`: `half = 256^k * (256 * (128 * 256^(w-2-k)))` -/
theorem half_split (t : Ty) (k : Nat) (hk : k + 1 < t.w) :
    t.half = 256 ^ k * (256 * (128 * 256 ^ (t.w - 2 - k))) := by
  unfold Ty.half
  have : t.w - 1 = k + (1 + (t.w - 2 - k)) := by omega
  rw [this, Nat.pow_add, Nat.pow_add]
  simp only [Nat.pow_one]
  rw [Nat.mul_left_comm 128, Nat.mul_left_comm 128]

/-! ### the sign tests in terms of `half` -/

theorem div_half_eq_one (t : Ty) (hw : 0 < t.w) (x : Nat) (hx : x < t.card) :
    x / t.half = 1 ↔ t.half ≤ x := by
  have hc := card_eq_two_half t hw
  have hp := half_pos t
  constructor
  · intro h
    apply Classical.byContradiction
    intro hn
    rw [Nat.div_eq_of_lt (by omega)] at h
    cases h
  · intro h
    exact Nat.div_eq_of_lt_le (by omega) (by omega)

theorem fmag_eq (t : Ty) (hw : 0 < t.w) (x : Nat) (hx : x < t.card) :
    fmag t x = if t.half ≤ x then x - t.half else x := by
  have hc := card_eq_two_half t hw
  unfold fmag
  split
  · rename_i h
    rw [Nat.mod_eq_sub_mod h, Nat.mod_eq_of_lt (by omega)]
  · rename_i h
    exact Nat.mod_eq_of_lt (by omega)

theorem floatTr_eq (t : Ty) (hw : 0 < t.w) (x : Nat) (hx : x < t.card) :
    floatTr t x = if t.half ≤ x then t.card - 1 - x else x + t.half := by
  unfold floatTr
  by_cases h : t.half ≤ x
  · rw [if_pos ((div_half_eq_one t hw x hx).2 h), if_pos h]
  · rw [if_neg (fun h' => h ((div_half_eq_one t hw x hx).1 h')), if_neg h]

theorem floatTr_lt (t : Ty) (hw : 0 < t.w) (x : Nat) (hx : x < t.card) : floatTr t x < t.card := by
  have hc := card_eq_two_half t hw
  have hp := half_pos t
  rw [floatTr_eq t hw x hx]
  split <;> omega

/-- the float key transform is strictly monotone from IEEE totalOrder (sign–magnitude) to unsigned order -/
theorem float_key_monotone' (t : Ty) (hw : 0 < t.w) (a b : Nat) (ha : a < t.card) (hb : b < t.card) :
    (fle t a b ↔ floatTr t a ≤ floatTr t b) ∧ (¬ fle t b a ↔ floatTr t a < floatTr t b) := by
  have hc := card_eq_two_half t hw
  have hp := half_pos t
  rw [floatTr_eq t hw a ha, floatTr_eq t hw b hb]
  unfold fle fneg
  rw [fmag_eq t hw a ha, fmag_eq t hw b hb]
  by_cases h1 : t.half ≤ a <;> by_cases h2 : t.half ≤ b <;> simp only [h1, h2, if_true, if_false] <;>
    constructor <;> first | omega | (simp; omega) | simp

/-! ### the order-preserving unsigned key -/

/-- unsigned key whose numeric order is the type's order -/
def okey (t : Ty) (x : Nat) : Nat :=
  match t.kind with
  | .signed => (x + t.half) % t.card
  | .float => floatTr t x
  | _ => x

theorem okeyS_eq (t : Ty) (hw : 0 < t.w) (x : Nat) (hx : x < t.card) :
    (x + t.half) % t.card = if x < t.half then x + t.half else x - t.half := by
  have hc := card_eq_two_half t hw
  split
  · exact Nat.mod_eq_of_lt (by omega)
  · rw [Nat.mod_eq_sub_mod (by omega), Nat.mod_eq_of_lt (by omega)]
    omega

theorem okey_lt (t : Ty) (hw : 0 < t.w) (x : Nat) (hx : x < t.card) : okey t x < t.card := by
  unfold okey
  split
  · exact Nat.mod_lt _ (by have := half_pos t; have := card_eq_two_half t hw; omega)
  · exact floatTr_lt t hw x hx
  · exact hx

/-- the type's order is the numeric order of `okey` -/
theorem le_iff_okey (t : Ty) (hw : 0 < t.w) (a b : Nat) (ha : a < t.card) (hb : b < t.card) :
    le t a b ↔ okey t a ≤ okey t b := by
  unfold le okey
  cases hk : t.kind <;> simp only
  · -- signed
    rw [okeyS_eq t hw a ha, okeyS_eq t hw b hb]
    unfold toInt
    have hc : (t.card : Int) = 2 * (t.half : Int) := by
      have := card_eq_two_half t hw
      omega
    by_cases h1 : a < t.half <;> by_cases h2 : b < t.half <;> simp only [h1, h2, if_true, if_false] <;> omega
  · exact (float_key_monotone' t hw a b ha hb).1

theorem okey_inj (t : Ty) (hw : 0 < t.w) (a b : Nat) (ha : a < t.card) (hb : b < t.card)
    (h : okey t a = okey t b) : a = b := by
  have hc := card_eq_two_half t hw
  unfold okey at h
  cases hk : t.kind <;> simp only [hk] at h
  · exact h
  · rw [okeyS_eq t hw a ha, okeyS_eq t hw b hb] at h
    by_cases h1 : a < t.half <;> by_cases h2 : b < t.half <;> simp only [h1, h2, if_true, if_false] at h <;> omega
  · rw [floatTr_eq t hw a ha, floatTr_eq t hw b hb] at h
    by_cases h1 : t.half ≤ a <;> by_cases h2 : t.half ≤ b <;> simp only [h1, h2, if_true, if_false] at h <;> omega
  · exact h

theorem le_antisymm (t : Ty) (hw : 0 < t.w) (a b : Nat) (ha : a < t.card) (hb : b < t.card)
    (h1 : le t a b) (h2 : le t b a) : a = b :=
  okey_inj t hw a b ha hb
    (Nat.le_antisymm ((le_iff_okey t hw a b ha hb).1 h1) ((le_iff_okey t hw b a hb ha).1 h2))

/-! ### byte `k` of `okey` is the rank of the bucket of round `k` -/

theorem div_mod_of_split (v p q : Nat) : v % (p * (256 * q)) / p % 256 = v / p % 256 := by
  rw [Nat.mod_mul_right_div_self, Nat.mod_mul_right_mod]

theorem okey_digit (t : Ty) (x k : Nat) (hk : k < t.w) :
    rank t k (key t x k) = okey t x / 256 ^ k % 256 := by
  have hw : 0 < t.w := by omega
  rw [key_eq]
  unfold rank okey tr isSigned
  cases hkind : t.kind <;> simp only [Bool.false_and, Bool.true_and]
  · simp
  · -- signed
    have hp := pow_pos256 k
    rw [card_split t k hk, div_mod_of_split]
    by_cases hlast : k = t.w - 1
    · subst hlast
      have : (t.w - 1 == t.w - 1) = true := by simp
      rw [if_pos this]
      unfold Ty.half
      rw [Nat.mul_comm 128, Nat.add_mul_div_left _ _ hp]
      omega
    · have hne : (k == t.w - 1) = false := by simpa using hlast
      rw [hne]
      simp only [Bool.false_eq_true, if_false]
      rw [half_split t k (by omega), Nat.add_mul_div_left _ _ hp]
      omega
  · simp
  · simp

theorem tr_lt (t : Ty) (hw : 0 < t.w) (x : Nat) (hx : x < t.card) : tr t x < t.card := by
  unfold tr
  split
  · exact floatTr_lt t hw x hx
  · exact hx

end Tbx.Radix
