import Tbx.Proofs.C16Cycle
/-
The CSR construction of `Model/Csr.lean` (`StaticGraph::new`: sort, offsets, sentinel) builds a
well-formed graph whose edges are exactly the input's.  This links the C16 theorems, stated for
well-formed CSR graphs, to arbitrary input edge lists.  Core Lean only.
-/
namespace Tbx.Csr
open Tbx

/-! ### sorting -/

def SrcSorted (l : List (Nat × Nat)) : Prop := List.Pairwise (fun a b => a.1 ≤ b.1) l

theorem insertSorted_mem (e : Nat × Nat) : ∀ (l : List (Nat × Nat)) (p : Nat × Nat),
    p ∈ insertSorted e l ↔ p = e ∨ p ∈ l := by
  intro l
  induction l with
  | nil => intro p; simp [insertSorted]
  | cons x xs ih =>
    intro p
    simp only [insertSorted]
    split
    · simp only [List.mem_cons, ih]
      constructor
      · rintro (h | h | h)
        · exact Or.inr (Or.inl h)
        · exact Or.inl h
        · exact Or.inr (Or.inr h)
      · rintro (h | h | h)
        · exact Or.inr (Or.inl h)
        · exact Or.inl h
        · exact Or.inr (Or.inr h)
    · simp only [List.mem_cons]

theorem insertSorted_sorted (e : Nat × Nat) : ∀ (l : List (Nat × Nat)), SrcSorted l → SrcSorted (insertSorted e l) := by
  intro l
  induction l with
  | nil => intro _; simp [insertSorted, SrcSorted]
  | cons x xs ih =>
    intro h
    simp only [SrcSorted, List.pairwise_cons] at h
    simp only [insertSorted]
    split
    · rename_i hle
      have hxe : x.1 ≤ e.1 := by
        simp only [edgeLe, Bool.or_eq_true, decide_eq_true_eq, Bool.and_eq_true, beq_iff_eq] at hle
        rcases hle with h1 | h1 <;> omega
      simp only [SrcSorted, List.pairwise_cons]
      refine ⟨?_, ih h.2⟩
      intro p hp
      rcases (insertSorted_mem e xs p).mp hp with rfl | hp
      · exact hxe
      · exact h.1 p hp
    · rename_i hle
      have hex : e.1 ≤ x.1 := by
        simp only [edgeLe, Bool.or_eq_true, decide_eq_true_eq, Bool.and_eq_true, beq_iff_eq, not_or, not_and] at hle
        omega
      simp only [SrcSorted, List.pairwise_cons]
      refine ⟨?_, h⟩
      intro p hp
      rcases List.mem_cons.mp hp with rfl | hp
      · exact hex
      · exact Nat.le_trans hex (h.1 p hp)

theorem sortEdges_spec (es : List (Nat × Nat)) : SrcSorted (sortEdges es) ∧ ∀ p, p ∈ sortEdges es ↔ p ∈ es := by
  have key : ∀ (es acc : List (Nat × Nat)), SrcSorted acc →
      SrcSorted (es.foldl (fun acc e => insertSorted e acc) acc) ∧
      ∀ p, p ∈ es.foldl (fun acc e => insertSorted e acc) acc ↔ p ∈ es ∨ p ∈ acc := by
    intro es
    induction es with
    | nil => intro acc h; exact ⟨h, fun p => by simp⟩
    | cons e es ih =>
      intro acc h
      obtain ⟨h1, h2⟩ := ih (insertSorted e acc) (insertSorted_sorted e acc h)
      refine ⟨h1, fun p => ?_⟩
      simp only [List.foldl_cons]
      rw [h2, insertSorted_mem, List.mem_cons]
      constructor
      · rintro (h | h | h)
        · exact Or.inl (Or.inr h)
        · exact Or.inl (Or.inl h)
        · exact Or.inr h
      · rintro ((h | h) | h)
        · exact Or.inr (Or.inl h)
        · exact Or.inl h
        · exact Or.inr (Or.inr h)
  obtain ⟨h1, h2⟩ := key es [] (by simp [SrcSorted])
  exact ⟨h1, fun p => by rw [sortEdges, h2]; simp⟩

theorem maxId_ge : ∀ (es : List (Nat × Nat)) (m : Nat), m ≤ maxId es m ∧ ∀ e, e ∈ es → e.1 ≤ maxId es m ∧ e.2 ≤ maxId es m := by
  intro es
  induction es with
  | nil => intro m; exact ⟨Nat.le_refl _, fun e he => by cases he⟩
  | cons x xs ih =>
    intro m
    simp only [maxId]
    obtain ⟨h1, h2⟩ := ih (max x.2 (max x.1 m))
    refine ⟨by omega, ?_⟩
    intro e he
    rcases List.mem_cons.mp he with rfl | he
    · constructor <;> omega
    · exact h2 e he

/-! ### offsets -/

/-- `b` separates the edges with source `< u` from those with source `≥ u` -/
def Bd (a : Array (Nat × Nat)) (u b : Nat) : Prop :=
  b ≤ a.size ∧ (∀ j, j < b → (gt a j).1 < u) ∧ (∀ j, b ≤ j → j < a.size → u ≤ (gt a j).1)

theorem skipLoop_spec (a : Array (Nat × Nat)) (hsorted : ∀ i j, i ≤ j → j < a.size → (gt a i).1 ≤ (gt a j).1) (i : Nat) :
    ∀ (fuel off : Nat), off ≤ a.size → (∀ j, j < off → (gt a j).1 ≤ i) → (∀ j, off ≤ j → j < a.size → i ≤ (gt a j).1) →
      a.size - off ≤ fuel → Bd a (i + 1) (skipLoop a i fuel off) := by
  intro fuel
  induction fuel with
  | zero =>
    intro off h1 h2 h3 hf
    simp only [skipLoop]
    exact ⟨h1, fun j hj => by have := h2 j hj; omega, fun j hj1 hj2 => by omega⟩
  | succ fuel ih =>
    intro off h1 h2 h3 hf
    simp only [skipLoop]
    split
    · rename_i hc
      apply ih (off + 1) (by omega)
      · intro j hj
        by_cases hjo : j = off
        · subst hjo; omega
        · exact h2 j (by omega)
      · intro j hj1 hj2; exact h3 j (by omega) hj2
      · omega
    · rename_i hc
      refine ⟨h1, fun j hj => by have := h2 j hj; omega, ?_⟩
      intro j hj1 hj2
      have hoff : off ≠ a.size := by omega
      have hne : (gt a off).1 ≠ i := fun h => hc ⟨hoff, h⟩
      have h4 := h3 off (Nat.le_refl _) (by omega)
      have h5 := hsorted off j hj1 hj2
      omega

theorem offsetsLoop_spec (a : Array (Nat × Nat)) (hsorted : ∀ i j, i ≤ j → j < a.size → (gt a i).1 ≤ (gt a j).1) :
    ∀ (k i off : Nat) (acc : Array Nat), acc.size = i + 1 → gt acc i = off → (∀ u, u ≤ i → Bd a u (gt acc u)) →
      (offsetsLoop a k i off acc).size = i + k + 1 ∧ ∀ u, u ≤ i + k → Bd a u (gt (offsetsLoop a k i off acc) u) := by
  intro k
  induction k with
  | zero =>
    intro i off acc h1 _ h3
    simp only [offsetsLoop]
    exact ⟨by omega, fun u hu => h3 u (by omega)⟩
  | succ k ih =>
    intro i off acc h1 h2 h3
    simp only [offsetsLoop]
    have hb := h3 i (Nat.le_refl _)
    rw [h2] at hb
    have hnext := skipLoop_spec a hsorted i (a.size - off) off hb.1
      (fun j hj => by have := hb.2.1 j hj; omega) hb.2.2 (Nat.le_refl _)
    obtain ⟨r1, r2⟩ := ih (i + 1) (skipLoop a i (a.size - off) off) (acc.push (skipLoop a i (a.size - off) off))
      (by rw [Array.size_push]; omega) (by rw [← h1]; exact gt_push_eq _ _)
      (by
        intro u hu
        by_cases hui : u ≤ i
        · rw [gt_push_lt _ _ _ (by omega)]; exact h3 u hui
        · have : u = i + 1 := by omega
          subst this
          have e : gt (acc.push (skipLoop a i (a.size - off) off)) (i + 1) = skipLoop a i (a.size - off) off := by
            rw [← h1]; exact gt_push_eq _ _
          rw [e]; exact hnext)
    exact ⟨by omega, fun u hu => r2 u (by omega)⟩

/-! ### `ofEdges` -/

theorem sorted_toArray (l : List (Nat × Nat)) (h : SrcSorted l) :
    ∀ i j, i ≤ j → j < l.toArray.size → (gt l.toArray i).1 ≤ (gt l.toArray j).1 := by
  intro i j hij hj
  have hj' : j < l.length := by simpa using hj
  have hgi : gt l.toArray i = l[i]'(by omega) := by simp [gt, (by omega : i < l.length)]
  have hgj : gt l.toArray j = l[j]'hj' := by simp [gt, hj']
  rw [hgi, hgj]
  by_cases he : i = j
  · subst he; exact Nat.le_refl _
  · exact List.pairwise_iff_getElem.mp h i j (by omega) hj' (by omega)

theorem mem_toArray_iff (l : List (Nat × Nat)) (p : Nat × Nat) :
    p ∈ l ↔ ∃ e, e < l.toArray.size ∧ gt l.toArray e = p := by
  constructor
  · intro hp
    obtain ⟨e, he, hpe⟩ := List.mem_iff_getElem.mp hp
    exact ⟨e, by simpa using he, by simp [gt, he, hpe]⟩
  · rintro ⟨e, he, hpe⟩
    have he' : e < l.length := by simpa using he
    rw [← hpe]
    simp [gt, he']

/-- the facts about `ofSorted` everything else follows from -/
theorem ofSorted_spec (inp : List (Nat × Nat)) (hs : SrcSorted inp) :
    (ofSorted inp).nodes.size = maxId inp 0 + 2 ∧ (ofSorted inp).targets.size = inp.length ∧
    (∀ u, u ≤ maxId inp 0 + 1 → Bd inp.toArray u (gt (ofSorted inp).nodes u)) ∧
    (∀ e, e < inp.length → gt (ofSorted inp).targets e = (gt inp.toArray e).2) ∧
    gt (ofSorted inp).nodes (maxId inp 0 + 1) = inp.length := by
  have hsorted := sorted_toArray inp hs
  obtain ⟨h1, h2⟩ := offsetsLoop_spec inp.toArray hsorted (maxId inp 0) 0 0 #[0] (by simp) (by simp [gt])
    (by
      intro u hu
      have : u = 0 := by omega
      subst this
      refine ⟨Nat.zero_le _, fun j hj => ?_, fun j _ _ => Nat.zero_le _⟩
      have : gt (#[0] : Array Nat) 0 = 0 := by simp [gt]
      rw [this] at hj; omega)
  simp only [Nat.zero_add] at h1 h2
  have hlast : gt (ofSorted inp).nodes (maxId inp 0 + 1) = inp.length := by
    simp only [ofSorted]
    rw [← h1, gt_push_eq]; simp
  refine ⟨by simp only [ofSorted, Array.size_push]; omega, by simp [ofSorted], ?_, ?_, hlast⟩
  · intro u hu
    simp only [ofSorted]
    by_cases hul : u ≤ maxId inp 0
    · rw [gt_push_lt _ _ _ (by omega)]; exact h2 u hul
    · have : u = maxId inp 0 + 1 := by omega
      subst this
      have e : gt ((offsetsLoop inp.toArray (maxId inp 0) 0 0 #[0]).push inp.toArray.size) (maxId inp 0 + 1)
          = inp.toArray.size := by rw [← h1]; exact gt_push_eq _ _
      rw [e]
      refine ⟨Nat.le_refl _, ?_, fun j hj1 hj2 => by omega⟩
      intro j hj
      have hm : gt inp.toArray j ∈ inp := (mem_toArray_iff inp _).mpr ⟨j, hj, rfl⟩
      have := ((maxId_ge inp 0).2 _ hm).1
      omega
  · intro e he
    simp [ofSorted, gt, he]

theorem ofEdges_wf (es : List (Nat × Nat)) : WF (ofEdges es) := by
  obtain ⟨hs, _⟩ := sortEdges_spec es
  obtain ⟨h1, h2, h3, h4, h5⟩ := ofSorted_spec (sortEdges es) hs
  have hn : numNodes (ofEdges es) = maxId (sortEdges es) 0 + 1 := by simp only [numNodes, ofEdges]; omega
  constructor
  · simp only [ofEdges]; omega
  · intro i hi
    rw [hn] at hi
    obtain ⟨a1, a2, a3⟩ := h3 i (by omega)
    obtain ⟨b1, b2, b3⟩ := h3 (i + 1) (by omega)
    simp only [ofEdges]
    apply Decidable.byContradiction
    intro hgt
    have hlt : gt (ofSorted (sortEdges es)).nodes (i + 1) < gt (ofSorted (sortEdges es)).nodes i := by omega
    have c1 := a2 _ hlt
    have c2 := b3 _ (Nat.le_refl _) (by omega)
    omega
  · rw [hn]
    simp only [ofEdges]
    rw [h5, h2]
  · intro e he
    rw [hn]
    simp only [ofEdges] at he ⊢
    rw [h2] at he
    rw [h4 e he]
    have hm : gt (sortEdges es).toArray e ∈ sortEdges es :=
      (mem_toArray_iff _ _).mpr ⟨e, by simpa using he, rfl⟩
    have := ((maxId_ge (sortEdges es) 0).2 _ hm).2
    omega

theorem numNodes_ofEdges (es : List (Nat × Nat)) : numNodes (ofEdges es) = maxId (sortEdges es) 0 + 1 := by
  obtain ⟨hs, _⟩ := sortEdges_spec es
  obtain ⟨h1, _⟩ := ofSorted_spec (sortEdges es) hs
  simp only [numNodes, ofEdges]; omega

/-- the constructed graph has exactly the input's edges -/
theorem mem_edgesOf_ofEdges (es : List (Nat × Nat)) (u v : Nat) : (u, v) ∈ edgesOf (ofEdges es) ↔ (u, v) ∈ es := by
  obtain ⟨hs, hmem⟩ := sortEdges_spec es
  obtain ⟨h1, h2, h3, h4, h5⟩ := ofSorted_spec (sortEdges es) hs
  have hn := numNodes_ofEdges es
  suffices key : CycleCheck.E (ofEdges es) u v ↔
      ∃ e, e < (sortEdges es).toArray.size ∧ gt (sortEdges es).toArray e = (u, v) from
    key.trans ((mem_toArray_iff _ _).symm.trans (hmem _))
  rw [CycleCheck.mem_edgesOf, CycleCheck.mem_succs, hn]
  simp only [ofEdges, outDegree, beginEdges, endEdges, target]
  constructor
  · rintro ⟨hu, e, he1, he2, he3⟩
    obtain ⟨a1, a2, a3⟩ := h3 u (by omega)
    obtain ⟨b1, b2, b3⟩ := h3 (u + 1) (by omega)
    have hlt : e < gt (ofSorted (sortEdges es)).nodes (u + 1) := by omega
    have hem : e < (sortEdges es).toArray.size := by omega
    have hsrc1 := a3 e he1 hem
    have hsrc2 := b2 e hlt
    refine ⟨e, hem, ?_⟩
    have ht := h4 e (by simpa using hem)
    rw [ht] at he3
    apply Prod.ext
    · show (gt (sortEdges es).toArray e).1 = u; omega
    · exact he3
  · rintro ⟨e, hem, hpe⟩
    have hm : (u, v) ∈ sortEdges es := (mem_toArray_iff _ _).mpr ⟨e, hem, hpe⟩
    have hub := ((maxId_ge (sortEdges es) 0).2 _ hm).1
    simp only at hub
    obtain ⟨a1, a2, a3⟩ := h3 u (by omega)
    obtain ⟨b1, b2, b3⟩ := h3 (u + 1) (by omega)
    have hsrc : (gt (sortEdges es).toArray e).1 = u := by rw [hpe]
    have hge : gt (ofSorted (sortEdges es)).nodes u ≤ e := by
      apply Decidable.byContradiction
      intro hh
      have := a2 e (by omega); omega
    have hlt : e < gt (ofSorted (sortEdges es)).nodes (u + 1) := by
      apply Decidable.byContradiction
      intro hh
      have := b3 e (by omega) hem; omega
    refine ⟨by omega, e, hge, by omega, ?_⟩
    rw [h4 e (by simpa using hem), hpe]

/-- reachability in the constructed graph is reachability over the input edge list -/
theorem reach_ofEdges (es : List (Nat × Nat)) (u v : Nat) :
    Comp.Reach (edgesOf (ofEdges es)) u v ↔ Comp.Reach es u v :=
  ⟨Comp.Reach.mono (fun p hp => by obtain ⟨a, b⟩ := p; exact (mem_edgesOf_ofEdges es a b).mp hp),
   Comp.Reach.mono (fun p hp => by obtain ⟨a, b⟩ := p; exact (mem_edgesOf_ofEdges es a b).mpr hp)⟩

theorem sameSCC_ofEdges (es : List (Nat × Nat)) (u v : Nat) :
    Comp.SameSCC (edgesOf (ofEdges es)) u v ↔ Comp.SameSCC es u v := by
  simp only [Comp.SameSCC, reach_ofEdges]

theorem hasCycle_ofEdges (es : List (Nat × Nat)) : Comp.HasCycle (edgesOf (ofEdges es)) ↔ Comp.HasCycle es := by
  simp only [Comp.HasCycle]
  constructor
  · rintro ⟨u, v, h1, h2⟩; exact ⟨u, v, (mem_edgesOf_ofEdges es u v).mp h1, (reach_ofEdges es v u).mp h2⟩
  · rintro ⟨u, v, h1, h2⟩; exact ⟨u, v, (mem_edgesOf_ofEdges es u v).mpr h1, (reach_ofEdges es v u).mpr h2⟩

end Tbx.Csr
