import Tbx.Proofs.SearchBasic
import Tbx.Proofs.SearchComplete
/-
Helper lemmas for C15, part 3: the parents vector is a forest rooted in the sources whose tree paths
are simple paths along existing unfiltered edges (any pop discipline), and the three path views
(`nodePathLoop`, `iterLoop`, `edgePathLoop`) read exactly that tree path.  Core only.
-/
namespace Tbx.Search
open Tbx

/-- `Tree … par v l`: `l` is the path source … `v` obtained by following `par` from `v` -/
inductive Tree (g : Graph) (filt : Nat → Bool) (isSrc : Nat → Prop) (par : Nat → Option Nat) :
    Nat → List Nat → Prop where
  | root (s : Nat) : isSrc s → par s = some s → Tree g filt isSrc par s [s]
  | node (v p : Nat) (l : List Nat) : par v = some p → p ≠ v → Tree g filt isSrc par p l → v ∉ l →
      Reach.Edge g filt p v → Tree g filt isSrc par v (l ++ [v])

namespace Tree
variable {g : Graph} {filt : Nat → Bool} {isSrc : Nat → Prop} {par : Nat → Option Nat}

theorem some_of_mem {v : Nat} {l : List Nat} (h : Tree g filt isSrc par v l) :
    ∀ x, x ∈ l → (par x).isSome = true := by
  induction h with
  | root s _ hp => intro x hx; simp only [List.mem_singleton] at hx; subst hx; simp [hp]
  | node v p l hp _ _ _ _ ih =>
    intro x hx
    rcases List.mem_append.mp hx with h1 | h1
    · exact ih x h1
    · simp only [List.mem_singleton] at h1; subst h1; simp [hp]

theorem mono {par' : Nat → Option Nat} {v : Nat} {l : List Nat} (h : Tree g filt isSrc par v l)
    (hm : ∀ x, (par x).isSome = true → par' x = par x) : Tree g filt isSrc par' v l := by
  induction h with
  | root s hs hp => exact .root s hs (by rw [hm s (by simp [hp]), hp])
  | node v p l hp hne _ hnm he ih => exact .node v p l (by rw [hm v (by simp [hp]), hp]) hne ih hnm he

theorem last {v : Nat} {l : List Nat} (h : Tree g filt isSrc par v l) : l.getLast? = some v := by
  cases h <;> simp

theorem first {v : Nat} {l : List Nat} (h : Tree g filt isSrc par v l) : ∃ s, l.head? = some s ∧ isSrc s := by
  induction h with
  | root s hs _ => exact ⟨s, rfl, hs⟩
  | node v p l _ _ _ _ _ ih =>
    obtain ⟨s, h1, h2⟩ := ih
    refine ⟨s, ?_, h2⟩
    cases l with
    | nil => simp at h1
    | cons a as => simpa using h1

theorem nodup {v : Nat} {l : List Nat} (h : Tree g filt isSrc par v l) : l.Nodup := by
  induction h with
  | root s _ _ => simp
  | node v p l _ _ _ hnm _ ih =>
    rw [List.nodup_append]
    refine ⟨ih, by simp, ?_⟩
    intro a ha b hb
    simp only [List.mem_singleton] at hb
    subst hb
    intro e; subst e; exact hnm ha

theorem self_mem {v : Nat} {l : List Nat} (h : Tree g filt isSrc par v l) : v ∈ l := by
  cases h <;> simp

theorem length_pos {v : Nat} {l : List Nat} (h : Tree g filt isSrc par v l) : 0 < l.length := by
  cases h <;> simp

end Tree

/-! ### `Linked` / `EdgesJoin` at the end of a list -/

theorem linked_snoc (R : Nat → Nat → Prop) (l : List Nat) (p v : Nat) (hl : Reach.Linked R l)
    (hlast : l.getLast? = some p) (hr : R p v) : Reach.Linked R (l ++ [v]) := by
  induction l with
  | nil => simp at hlast
  | cons a as ih =>
    cases as with
    | nil =>
      simp only [List.getLast?_singleton, Option.some.injEq] at hlast
      subst hlast
      exact ⟨hr, trivial⟩
    | cons b bs =>
      obtain ⟨h1, h2⟩ := hl
      refine ⟨h1, ?_⟩
      apply ih h2
      simpa [List.getLast?_cons_cons] using hlast

theorem edgesJoin_snoc (g : Graph) (l es : List Nat) (p v e : Nat) (hj : Reach.EdgesJoin g l es)
    (hlast : l.getLast? = some p) (he : (v, e) ∈ g p) : Reach.EdgesJoin g (l ++ [v]) (es ++ [e]) := by
  induction l generalizing es with
  | nil => simp at hlast
  | cons a as ih =>
    cases as with
    | nil =>
      cases es with
      | nil =>
        simp only [List.getLast?_singleton, Option.some.injEq] at hlast
        subst hlast
        exact ⟨he, trivial⟩
      | cons _ _ => simp [Reach.EdgesJoin] at hj
    | cons b bs =>
      cases es with
      | nil => simp [Reach.EdgesJoin] at hj
      | cons e0 es0 =>
        obtain ⟨h1, h2⟩ := hj
        refine ⟨h1, ?_⟩
        apply ih es0 h2
        simpa [List.getLast?_cons_cons] using hlast

theorem Tree.linked {g : Graph} {filt : Nat → Bool} {isSrc : Nat → Prop} {par : Nat → Option Nat}
    {v : Nat} {l : List Nat} (h : Tree g filt isSrc par v l) : Reach.Linked (Reach.Edge g filt) l := by
  induction h with
  | root s _ _ => trivial
  | node v p l _ _ ht _ he ih => exact linked_snoc _ l p v ih ht.last he

/-- a tree path ending in a target is a valid path in the sense of the Spec -/
theorem Tree.valid {g : Graph} {filt : Nat → Bool} {isSrc isT : Nat → Prop} {par : Nat → Option Nat}
    {v : Nat} {l : List Nat} (h : Tree g filt isSrc par v l) (ht : isT v) :
    Reach.ValidPath g filt isSrc isT l :=
  ⟨h.first, ⟨v, h.last, ht⟩, h.nodup, h.linked⟩

/-- pigeonhole: a tree path is no longer than the parents vector -/
theorem Tree.length_le {g : Graph} {filt : Nat → Bool} {isSrc : Nat → Prop} {par : Array (Option Nat)}
    {v : Nat} {l : List Nat} (h : Tree g filt isSrc (gt par) v l) : l.length ≤ par.size := by
  have hsub : l ⊆ List.range par.size := by
    intro x hx
    exact List.mem_range.mpr (marked_lt par x (h.some_of_mem x hx))
  have := h.nodup.length_le_of_subset hsub
  simpa using this

/-! ### the forest invariant -/

structure SInv (g : Graph) (filt : Nat → Bool) (isSrc : Nat → Prop) (s : S) : Prop where
  tree : ∀ v, marked s.par v → ∃ l, Tree g filt isSrc (gt s.par) v l
  wl   : ∀ x, x ∈ s.wl → marked s.par x

theorem Disc.par_old {filt : Nat → Bool} {u : Nat} {vs : List (Nat × Nat)} {s s' : S} {news : List Nat}
    (hd : Disc filt u vs s s' news) : ∀ x, (gt s.par x).isSome = true → gt s'.par x = gt s.par x := by
  intro x hx
  rw [hd.par x]
  split
  · rename_i hn
    rw [(hd.fresh x hn).1] at hx; cases hx
  · rfl

/-- tree paths survive a discovery pass -/
theorem Disc.tree_old {g : Graph} {filt : Nat → Bool} {isSrc : Nat → Prop} {u : Nat} {vs : List (Nat × Nat)}
    {s s' : S} {news : List Nat} (hd : Disc filt u vs s s' news) {v : Nat} {l : List Nat}
    (h : Tree g filt isSrc (gt s.par) v l) : Tree g filt isSrc (gt s'.par) v l :=
  h.mono hd.par_old

/-- every discovered node gets the tree path of `u` plus itself -/
theorem Disc.tree_new {g : Graph} {filt : Nat → Bool} {isSrc : Nat → Prop} {u : Nat} {s s' : S} {news : List Nat}
    (hd : Disc filt u (g u) s s' news) {lu : List Nat} (hlu : Tree g filt isSrc (gt s.par) u lu)
    {v : Nat} (hv : v ∈ news) : Tree g filt isSrc (gt s'.par) v (lu ++ [v]) := by
  obtain ⟨hnone, _, e, he, hf⟩ := hd.fresh v hv
  refine .node v u lu ?_ ?_ (hd.tree_old hlu) ?_ ⟨e, he, hf⟩
  · rw [hd.par v]; simp [hv]
  · intro e; subst e
    have := hlu.some_of_mem _ hlu.self_mem
    rw [hnone] at this; cases this
  · intro hm
    have := hlu.some_of_mem v hm
    rw [hnone] at this; cases this

/-- trees survive a discovery pass, and every discovered node gets one -/
theorem Disc.trees {g : Graph} {filt : Nat → Bool} {isSrc : Nat → Prop} {u : Nat} {s s' : S} {news : List Nat}
    (hd : Disc filt u (g u) s s' news) (ht : ∀ v, marked s.par v → ∃ l, Tree g filt isSrc (gt s.par) v l)
    (hu : marked s.par u) :
    ∀ v, marked s'.par v → ∃ l, Tree g filt isSrc (gt s'.par) v l := by
  obtain ⟨lu, hlu⟩ := ht u hu
  intro v hv
  rcases (hd.marked_iff v).mp hv with h1 | h1
  · exact ⟨lu ++ [v], hd.tree_new hlu h1⟩
  · obtain ⟨l, hl⟩ := ht v h1
    exact ⟨l, hd.tree_old hl⟩

theorem loop_sound (g : Graph) (filt isT : Nat → Bool) (isSrc : Nat → Prop)
    (pop : List Nat → Option (Nat × List Nat)) (hp : PopOK pop)
    (fuel : Nat) (s s' : S) (r : Option Nat) (hi : SInv g filt isSrc s)
    (h : loop g filt isT pop fuel s = .done r s') :
    (∀ v, marked s'.par v → ∃ l, Tree g filt isSrc (gt s'.par) v l) ∧
    (∀ t, r = some t → isT t = true ∧ marked s'.par t) := by
  induction fuel generalizing s with
  | zero => simp [loop] at h
  | succ fuel ih =>
    simp only [loop] at h
    split at h
    · simp only [LR.done.injEq] at h
      obtain ⟨rfl, rfl⟩ := h
      exact ⟨hi.tree, by intro t ht; cases ht⟩
    · rename_i u rest hpop
      have hu : marked s.par u := hi.wl u ((hp.2 _ _ _ hpop u).mpr (Or.inl rfl))
      split at h
      · cases h
      · split at h
        · cases h
        · rename_i t s1 he
          simp only [LR.done.injEq] at h
          obtain ⟨rfl, rfl⟩ := h
          obtain ⟨news, hd, _, _, hT⟩ := edges_found filt isT u _ (g u) _ s1 t he
          refine ⟨hd.trees hi.tree hu, ?_⟩
          intro t' ht'
          cases ht'
          exact ⟨hT, (hd.marked_iff t).mpr (Or.inl (by simp))⟩
        · rename_i s1 he
          obtain ⟨news, hd, hw, _, _⟩ := edges_cont filt isT u _ (g u) _ s1 he
          apply ih s1 _ h
          constructor
          · exact hd.trees hi.tree hu
          · intro x hx
            rw [hw] at hx
            rcases List.mem_append.mp hx with h1 | h1
            · exact (hd.marked_iff x).mpr (Or.inr (hi.wl x ((hp.2 _ _ _ hpop x).mpr (Or.inr h1))))
            · exact (hd.marked_iff x).mpr (Or.inl h1)

theorem init_SInv (g : Graph) (filt : Nat → Bool) (sr : Searcher) (par : Array (Option Nat))
    (h : resetParents sr = some par) :
    SInv g filt (· ∈ sr.sources) { par := par, wl := sr.sources } := by
  obtain ⟨_, _, h3⟩ := resetParents_spec sr par h
  constructor
  · intro v hv
    have hs : v ∈ sr.sources := (init_marked sr par h v).mp hv
    exact ⟨[v], .root v hs (by simp only; rw [h3 v]; simp [hs])⟩
  · intro x hx; exact (init_marked sr par h x).mpr hx

/-! ### the three path views read the tree path -/

theorem nodePathLoop_tree {g : Graph} {filt : Nat → Bool} {isSrc : Nat → Prop} {par : Array (Option Nat)}
    {v : Nat} {l : List Nat} (h : Tree g filt isSrc (gt par) v l) :
    ∀ fuel acc, l.length ≤ fuel → nodePathLoop par fuel v acc = some (l ++ acc) := by
  induction h with
  | root s _ hp =>
    intro fuel acc hf
    cases fuel with
    | zero => simp at hf
    | succ f =>
      have hlt : s < par.size := marked_lt par s (by unfold marked; rw [hp]; rfl)
      simp only [nodePathLoop, hp]
      simp [Nat.not_le.mpr hlt]
  | node v p l hp hne _ _ _ ih =>
    intro fuel acc hf
    cases fuel with
    | zero => simp at hf
    | succ f =>
      have hlt : v < par.size := marked_lt par v (by unfold marked; rw [hp]; rfl)
      simp only [nodePathLoop, hp]
      simp only [Nat.not_le.mpr hlt, if_false, hne, List.append_assoc, List.singleton_append]
      apply ih
      simp at hf; omega

theorem iterLoop_tree {g : Graph} {filt : Nat → Bool} {isSrc : Nat → Prop} {par : Array (Option Nat)}
    {v : Nat} {l : List Nat} (h : Tree g filt isSrc (gt par) v l) :
    ∀ fuel, l.length + 1 ≤ fuel → iterLoop par fuel (some v) = some l.reverse := by
  induction h with
  | root s _ hp =>
    intro fuel hf
    have hlt : s < par.size := marked_lt par s (by unfold marked; rw [hp]; rfl)
    match fuel, hf with
    | f + 2, _ =>
      simp only [iterLoop, hp]
      simp [Nat.not_le.mpr hlt, iterLoop]
  | node v p l hp hne _ _ _ ih =>
    intro fuel hf
    have hlt : v < par.size := marked_lt par v (by unfold marked; rw [hp]; rfl)
    cases fuel with
    | zero => simp at hf
    | succ f =>
      have hne' : ¬ (p = v) := hne
      simp only [iterLoop, hp]
      simp only [Nat.not_le.mpr hlt, if_false, beq_iff_eq, Option.some.injEq, hne']
      rw [ih f (by simp at hf; omega)]
      simp

theorem findEdge_some (g : Graph) (filt : Nat → Bool) (p v : Nat) (h : Reach.Edge g filt p v) :
    ∃ e, findEdge g p v = some e ∧ (v, e) ∈ g p := by
  obtain ⟨e0, hm, _⟩ := h
  unfold findEdge
  cases hf : (g p).find? (fun q => q.1 == v) with
  | none =>
    have := List.find?_eq_none.mp hf (v, e0) hm
    simp at this
  | some q =>
    obtain ⟨w, e⟩ := q
    have h1 := List.find?_some hf
    have h2 := List.mem_of_find?_eq_some hf
    simp only [beq_iff_eq] at h1
    subst h1
    exact ⟨e, rfl, h2⟩

theorem edgePathLoop_tree {g : Graph} {filt : Nat → Bool} {isSrc : Nat → Prop} {par : Array (Option Nat)}
    {v : Nat} {l : List Nat} (h : Tree g filt isSrc (gt par) v l) :
    ∀ fuel acc, l.length ≤ fuel →
      ∃ es, edgePathLoop g par fuel v acc = some (es ++ acc) ∧ Reach.EdgesJoin g l es := by
  induction h with
  | root s _ hp =>
    intro fuel acc hf
    cases fuel with
    | zero => simp at hf
    | succ f =>
      have hlt : s < par.size := marked_lt par s (by unfold marked; rw [hp]; rfl)
      refine ⟨[], ?_, trivial⟩
      simp only [edgePathLoop, hp]
      simp [Nat.not_le.mpr hlt]
  | node v p l hp hne ht _ he ih =>
    intro fuel acc hf
    cases fuel with
    | zero => simp at hf
    | succ f =>
      have hlt : v < par.size := marked_lt par v (by unfold marked; rw [hp]; rfl)
      obtain ⟨e, hfe, hme⟩ := findEdge_some g filt p v he
      obtain ⟨es, h1, h2⟩ := ih f (e :: acc) (by simp at hf; omega)
      refine ⟨es ++ [e], ?_, edgesJoin_snoc g l es p v e h2 ht.last hme⟩
      simp only [edgePathLoop, hp]
      simp only [Nat.not_le.mpr hlt, if_false, hne, hfe, h1, List.append_assoc, List.singleton_append]

/-! ### bookkeeping: sizes, `new`, reachability of tree nodes -/

theorem loop_size (g : Graph) (filt isT : Nat → Bool) (pop : List Nat → Option (Nat × List Nat))
    (fuel : Nat) (s s' : S) (r : Option Nat) (h : loop g filt isT pop fuel s = .done r s') :
    s'.par.size = s.par.size := by
  induction fuel generalizing s with
  | zero => simp [loop] at h
  | succ fuel ih =>
    simp only [loop] at h
    split at h
    · simp only [LR.done.injEq] at h
      obtain ⟨_, rfl⟩ := h; rfl
    · split at h
      · cases h
      · split at h
        · cases h
        · rename_i t s1 he
          simp only [LR.done.injEq] at h
          obtain ⟨_, rfl⟩ := h
          obtain ⟨news, hd, _⟩ := edges_found filt isT _ _ (g _) _ s1 t he
          exact hd.size
        · rename_i s1 he
          obtain ⟨news, hd, _⟩ := edges_cont filt isT _ _ (g _) _ s1 he
          rw [ih s1 h]; exact hd.size

theorem Tree.reachable {g : Graph} {filt : Nat → Bool} {isSrc : Nat → Prop} {par : Nat → Option Nat}
    {v : Nat} {l : List Nat} (h : Tree g filt isSrc par v l) : Reach.Reachable g filt isSrc v := by
  induction h with
  | root s hs _ => exact .src s hs
  | node v p l _ _ _ _ he ih => exact .step p v ih he

/-- a tree path of `k + 1` nodes is a walk of `k` edges -/
theorem Tree.walk {g : Graph} {filt : Nat → Bool} {isSrc : Nat → Prop} {par : Nat → Option Nat}
    {v : Nat} {l : List Nat} (h : Tree g filt isSrc par v l) : Reach.Walk g filt isSrc (l.length - 1) v := by
  induction h with
  | root s hs _ => exact .src s hs
  | node v p l _ _ ht _ he ih =>
    have := ht.length_pos
    have e : (l ++ [v]).length - 1 = (l.length - 1) + 1 := by simp; omega
    rw [e]
    exact .step _ p v ih he

theorem new_spec (srcs tgts : List Nat) (n : Nat) (sr : Searcher) (h : new srcs tgts n = some sr) :
    sr.sources = srcs ∧ sr.emptyTargets = tgts.isEmpty ∧ sr.parents.size = n ∧ sr.targetSet.size = n ∧
    (∀ v, gt sr.targetSet v = true ↔ v ∈ tgts) ∧ (∀ v, v ∈ srcs → v < n) ∧ (∀ v, v ∈ tgts → v < n) := by
  unfold new at h
  split at h
  · cases h
  · rename_i ts hts
    split at h
    · cases h
    · rename_i ps hps
      simp only [Option.some.injEq] at h
      subst h
      obtain ⟨a1, a2, a3⟩ := setAll_spec _ _ _ _ hts
      obtain ⟨b1, b2, _⟩ := setAll_spec _ _ _ _ hps
      simp only [Array.size_replicate] at a1 a2 b1 b2
      refine ⟨rfl, rfl, b1, a1, ?_, b2, a2⟩
      intro v
      rw [a3 v, gt_replicate _ false _ rfl]
      by_cases hv : v ∈ tgts <;> simp [hv]

theorem new_isSome (srcs tgts : List Nat) (n : Nat) (hs : ∀ v, v ∈ srcs → v < n) (ht : ∀ v, v ∈ tgts → v < n) :
    ∃ sr, new srcs tgts n = some sr := by
  unfold new
  obtain ⟨ts, hts⟩ := setAll_isSome (fun _ => true) tgts (Array.replicate n false) (by simpa using ht)
  obtain ⟨ps, hps⟩ := setAll_isSome some srcs (Array.replicate n (none : Option Nat)) (by simpa using hs)
  rw [hts, hps]
  exact ⟨_, rfl⟩

end Tbx.Search
