import Tbx.Model.SortedInsert
import Tbx.Proofs.Sorting
/-
`insert_sorted` of the singly linked list: keeps ascending order and adds exactly the element.
-/
namespace Tbx.SList
open Tbx.Sorting

theorem isSorted_iff (l : SL) : isSorted l = true ↔ Sorted l := by
  induction l with
  | nil => simp [isSorted, Sorted]
  | cons x t ih =>
    cases t with
    | nil => simp [isSorted, Sorted]
    | cons y r =>
      simp only [isSorted]
      rw [sorted_cons (x := x)]
      split
      · rename_i hxy
        constructor
        · intro h; cases h
        · rintro ⟨hx, _⟩
          have := hx y List.mem_cons_self
          omega
      · rename_i hxy
        rw [ih]
        constructor
        · intro hs
          refine ⟨?_, hs⟩
          rw [sorted_cons] at hs
          intro z hz
          rcases List.mem_cons.mp hz with rfl | hz
          · omega
          · have := hs.1 z hz; omega
        · exact fun h => h.2

theorem insertSorted_perm (l : SL) (e : Int) : (insertSorted l e).Perm (e :: l) := by
  induction l with
  | nil => exact List.Perm.refl _
  | cons x xs ih =>
    simp only [insertSorted]
    split
    · exact (List.Perm.cons x ih).trans (List.Perm.swap e x xs)
    · exact List.Perm.refl _

theorem insertSorted_sorted (l : SL) (e : Int) (h : Sorted l) : Sorted (insertSorted l e) := by
  induction l with
  | nil => simp [insertSorted, Sorted]
  | cons x xs ih =>
    simp only [insertSorted]
    rw [sorted_cons] at h
    split
    · rename_i hxe
      rw [sorted_cons]
      refine ⟨?_, ih h.2⟩
      intro z hz
      rcases List.mem_cons.mp ((insertSorted_perm xs e).mem_iff.mp hz) with rfl | hz
      · omega
      · exact h.1 z hz
    · rename_i hxe
      rw [sorted_cons]
      refine ⟨?_, sorted_cons.mpr h⟩
      intro z hz
      rcases List.mem_cons.mp hz with rfl | hz
      · omega
      · have := h.1 z hz; omega

end Tbx.SList
