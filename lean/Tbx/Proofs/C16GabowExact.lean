import Tbx.Proofs.C16GabowTotal
import Tbx.Proofs.C16Cycle
/-
Path-based SCC (`Model/Gabow.lean`) is exact: two nodes get the same label iff they are mutually
reachable.

Reading of the state: the bounds stack `B` cuts the node stack `S` into blocks; every block is
strongly connected, earlier stack nodes reach later ones, and every already explored edge from a
stack node leads to an assigned node or to a block that is not below its own.  Assigned nodes
(label ≥ component) form complete strongly connected components closed under edges.  When
`Finalize(v)` finds `scc[v]` on top of `B`, the top block is closed under edges together with the
assigned nodes, hence a complete component.  Core Lean only.
-/
namespace Tbx.Gabow
open Tbx Tbx.Csr Tbx.Comp
open Tbx.CycleCheck (E mem_edgesOf mem_succs)

abbrev R (g : Graph) := Reach (edgesOf g)

/-- `v` has its final component number -/
def Assigned (g : Graph) (s : State) (v : Nat) : Prop :=
  v < numNodes g ∧ gt s.scc v ≠ maxU ∧ s.component ≤ gt s.scc v

/-- positions `i ≤ i'` of `S` with no bound in between: the same block -/
def SameBlock (s : State) (i i' : Nat) : Prop :=
  i ≤ i' ∧ i' < s.stack.size ∧ ∀ j, j < s.bounds.size → ¬ (i < gt s.bounds j ∧ gt s.bounds j ≤ i')

/-- the edge `u → x` has been looked at by `ProcessNeighbors(u)` -/
def Explored (g : Graph) (ei : Array Nat) (u x : Nat) : Prop :=
  ∃ k, k < gt ei u ∧ k < outDegree g u ∧ target g (beginEdges g u + k) = x

def OnPath (work : List Dfs) (v : Nat) : Prop := ∃ d, d ∈ work ∧ nodeOf d = some v

def IsProcess : Dfs → Prop
  | .process _ => True
  | _ => False

structure GX (g : Graph) (s : State) (ei : Array Nat) (work : List Dfs) : Prop where
  cls : ∀ v, v < numNodes g → gt s.scc v ≠ maxU → OnStack s v ∨ Assigned g s v
  s_le_c : s.stack.size ≤ s.component
  bnd0 : s.stack.size ≠ 0 → s.bounds.size ≠ 0 ∧ gt s.bounds 0 = 0
  bnd_path : ∀ j, j < s.bounds.size → ∃ v, OnPath work v ∧ gt s.scc v = gt s.bounds j
  fwd : ∀ i i', i ≤ i' → i' < s.stack.size → R g (gt s.stack i) (gt s.stack i')
  blk : ∀ i i', SameBlock s i i' → R g (gt s.stack i') (gt s.stack i)
  expl : ∀ u x, OnStack s u → Explored g ei u x →
    Assigned g s x ∨ (OnStack s x ∧ ∀ j, j < s.bounds.size → gt s.bounds j ≤ gt s.scc u → gt s.bounds j ≤ gt s.scc x) ∨
      (∃ rest, work = .visit x :: rest)
  fin : ∀ u, OnStack s u → ¬ OnPath work u → outDegree g u ≤ gt ei u
  fin_top : ∀ v rest, work = .finalize v :: rest → outDegree g v ≤ gt ei v
  tail_proc : ∀ d, d ∈ work.tail → IsProcess d
  vis_ok : ∀ w rest, work = .visit w :: rest →
    (rest = [] ∧ s.stack.size = 0) ∨ (∃ v rest', rest = .process v :: rest' ∧ E g v w)
  ei0 : ∀ u, gt s.scc u = maxU → gt ei u = 0
  a_closed : ∀ v x, Assigned g s v → E g v x → Assigned g s x
  a_exact : ∀ v v', Assigned g s v → Assigned g s v' → (gt s.scc v = gt s.scc v' ↔ SameSCC (edgesOf g) v v')

theorem E_iff (g : Graph) (u x : Nat) :
    E g u x ↔ u < numNodes g ∧ ∃ k, k < outDegree g u ∧ target g (beginEdges g u + k) = x := by
  rw [mem_edgesOf, mem_succs]
  constructor
  · rintro ⟨h1, e, h2, h3, h4⟩
    exact ⟨h1, e - beginEdges g u, by omega, by rw [← h4]; congr 1; omega⟩
  · rintro ⟨h1, k, h2, h3⟩
    exact ⟨h1, beginEdges g u + k, by omega, by omega, h3⟩

/-- assigned nodes are closed under reachability -/
theorem assigned_reach {g : Graph} {s : State} {ei : Array Nat} {work : List Dfs} (h : GX g s ei work) {v x : Nat}
    (hv : Assigned g s v) (hr : R g v x) : Assigned g s x := by
  induction hr with
  | refl => exact hv
  | tail _ he ih => exact h.a_closed _ _ ih he

/-- a node on the stack is not assigned -/
theorem onStack_not_assigned {g : Graph} {s : State} {ei : Array Nat} {work : List Dfs} (h : GX g s ei work) {v : Nat}
    (hv : OnStack s v) : ¬ Assigned g s v := by
  intro ha
  have := h.s_le_c
  have := hv.1
  have := ha.2.2
  omega

/-- `contract` on a strictly increasing `bounds`: keeps exactly the bounds `≤ x` -/
theorem contract_spec (x : Nat) : ∀ (f : Nat) (b : Array Nat),
    (∀ j j', j < j' → j' < b.size → gt b j < gt b j') → b.size ≤ f →
    (contract x f b).size ≤ b.size ∧ (∀ j, j < (contract x f b).size → gt (contract x f b) j = gt b j) ∧
      (∀ j, j < (contract x f b).size → gt b j ≤ x) ∧
      (∀ j, (contract x f b).size ≤ j → j < b.size → x < gt b j) := by
  intro f
  induction f with
  | zero =>
    intro b _ hb
    simp only [contract]
    exact ⟨Nat.le_refl _, (by intros; first | rfl | trivial), (fun j hj => by omega), (fun j h1 h2 => by omega)⟩
  | succ f ih =>
    intro b hmono hb
    simp only [contract]
    split
    · rename_i h0
      exact ⟨Nat.le_refl _, (by intros; first | rfl | trivial), (fun j hj => by omega), (fun j h1 h2 => by omega)⟩
    · rename_i h0
      split
      · rename_i hlt
        obtain ⟨h1, h2, h3, h4⟩ := ih b.pop
          (by
            intro j j' hjj hj'
            rw [Array.size_pop] at hj'
            rw [gt_pop_lt _ _ hj', gt_pop_lt _ _ (by omega)]
            exact hmono j j' hjj (by omega))
          (by rw [Array.size_pop]; omega)
        rw [Array.size_pop] at h1 h4
        refine ⟨by omega, ?_, ?_, ?_⟩
        · intro j hj; rw [h2 j hj]; exact gt_pop_lt _ _ (by omega)
        · intro j hj; have := h3 j hj; rw [gt_pop_lt _ _ (by omega)] at this; exact this
        · intro j hj1 hj2
          by_cases hjl : j = b.size - 1
          · subst hjl; exact hlt
          · have := h4 j hj1 (by omega)
            rw [gt_pop_lt _ _ (by omega)] at this; exact this
      · rename_i hge
        refine ⟨Nat.le_refl _, (by intros; first | rfl | trivial), ?_, (fun j h1 h2 => by omega)⟩
        intro j hj
        by_cases hjl : j = b.size - 1
        · subst hjl; omega
        · have := hmono j (b.size - 1) (by omega) (by omega); omega

/-! ### facts about the deepest path node -/

theorem bounds_le_top {s : State} {d : Dfs} {rest : List Dfs} {v : Nat}
    (hbp : ∀ j, j < s.bounds.size → ∃ v', OnPath (d :: rest) v' ∧ gt s.scc v' = gt s.bounds j)
    (hp : WP s (d :: rest)) (hd : nodeOf d = some v) :
    ∀ j, j < s.bounds.size → gt s.bounds j ≤ gt s.scc v := by
  intro j hj
  obtain ⟨v', ⟨d', hd', hn'⟩, he⟩ := hbp j hj
  rcases List.mem_cons.mp hd' with rfl | hd'
  · rw [hd] at hn'; cases hn'; omega
  · have := (hp.1 v hd).2 d' hd' v' hn'
    omega

theorem above_not_path {s : State} {d : Dfs} {rest : List Dfs} {v u : Nat}
    (hp : WP s (d :: rest)) (hd : nodeOf d = some v) (hlt : gt s.scc v < gt s.scc u) : ¬ OnPath (d :: rest) u := by
  rintro ⟨d', hd', hn'⟩
  rcases List.mem_cons.mp hd' with rfl | hd'
  · rw [hd] at hn'; cases hn'; omega
  · have := (hp.1 v hd).2 d' hd' u hn'
    omega

/-- every stack node reaches the deepest path node -/
theorem reach_top {g : Graph} {s : State} {d : Dfs} {rest : List Dfs} {v : Nat}
    (hbp : ∀ j, j < s.bounds.size → ∃ v', OnPath (d :: rest) v' ∧ gt s.scc v' = gt s.bounds j)
    (hfwd : ∀ i i', i ≤ i' → i' < s.stack.size → R g (gt s.stack i) (gt s.stack i'))
    (hblk : ∀ i i', SameBlock s i i' → R g (gt s.stack i') (gt s.stack i))
    (hp : WP s (d :: rest)) (hd : nodeOf d = some v) (i : Nat) (hi : i < s.stack.size) :
    R g (gt s.stack i) v := by
  have hon := (hp.1 v hd).1
  by_cases hle : i ≤ gt s.scc v
  · have := hfwd i (gt s.scc v) hle hon.1
    rw [hon.2] at this; exact this
  · have := hblk (gt s.scc v) i ⟨by omega, hi, fun j hj hh => by
      have := bounds_le_top hbp hp hd j hj; omega⟩
    rw [hon.2] at this; exact this

/-! ### the six kinds of steps -/

theorem gx_visit (g : Graph) (hn : numNodes g < maxU) (s : State) (ei : Array Nat) (v : Nat) (rest : List Dfs)
    (hf : GF (numNodes g) s) (hp : WP s (.visit v :: rest)) (hm : gt s.scc v = maxU) (hvn : v < numNodes g)
    (hx : GX g s ei (.visit v :: rest)) : GX g (pushState s v) ei (.process v :: rest) := by
  have hb := hf.base
  have hvs : v < s.scc.size := by rw [hb.size]; exact hvn
  have hV := visited_st s.scc (numNodes g) v s.stack.size hvn hb.size hm
    (by have := hb.cnt; have := visited_le s.scc (numNodes g); omega)
  have hVle := visited_le (st s.scc v s.stack.size) (numNodes g)
  have hS1 : s.stack.size + 1 ≤ s.component := by have := hf.comp_cnt; have := hb.comp; omega
  have hsv : gt (pushState s v).scc v = s.stack.size := by rw [pushState_scc, gt_st_eq _ _ _ hvs]
  have hsu : ∀ u, u ≠ v → gt (pushState s v).scc u = gt s.scc u := fun u hu => by
    rw [pushState_scc, gt_st_ne _ _ _ _ (Ne.symm hu)]
  have hstk : ∀ i, i < s.stack.size → gt (pushState s v).stack i = gt s.stack i := fun i hi => by
    rw [pushState_stack, gt_push_lt _ _ _ hi]
  have hstkS : gt (pushState s v).stack s.stack.size = v := by rw [pushState_stack, gt_push_eq]
  have hsz : (pushState s v).stack.size = s.stack.size + 1 := by rw [pushState_stack, Array.size_push]
  have hone : ∀ u, OnStack s u → u ≠ v := by
    intro u hu he; subst he
    have := hu.1; rw [hm] at this; have := hb.cnt; omega
  have hon_old : ∀ u, OnStack s u → OnStack (pushState s v) u := by
    intro u hu
    refine ⟨by rw [hsu u (hone u hu), hsz]; have := hu.1; omega, ?_⟩
    rw [hsu u (hone u hu), hstk _ hu.1]; exact hu.2
  have hon_v : OnStack (pushState s v) v := ⟨by rw [hsv, hsz]; omega, by rw [hsv, hstkS]⟩
  have hon_inv : ∀ u, OnStack (pushState s v) u → u = v ∨ OnStack s u := by
    intro u hu
    by_cases huv : u = v
    · exact Or.inl huv
    · right
      have h1 := hu.1; have h2 := hu.2
      rw [hsu u huv, hsz] at h1
      rw [hsu u huv] at h2
      have hlt : gt s.scc u < s.stack.size := by
        apply Decidable.byContradiction
        intro hh
        have : gt s.scc u = s.stack.size := by omega
        rw [this, hstkS] at h2
        exact huv h2.symm
      exact ⟨hlt, by rw [hstk _ hlt] at h2; exact h2⟩
  have hass : ∀ u, Assigned g (pushState s v) u ↔ Assigned g s u := by
    intro u
    simp only [Assigned, pushState_component]
    by_cases huv : u = v
    · subst huv
      rw [hsv, hm]
      constructor
      · intro h; omega
      · intro h; exact absurd rfl h.2.1
    · rw [hsu u huv]
  have hbsz : (pushState s v).bounds.size = s.bounds.size + 1 := by rw [pushState_bounds, Array.size_push]
  have hbnd : ∀ j, j < s.bounds.size → gt (pushState s v).bounds j = gt s.bounds j := fun j hj => by
    rw [pushState_bounds, gt_push_lt _ _ _ hj]
  have hbndS : gt (pushState s v).bounds s.bounds.size = s.stack.size := by rw [pushState_bounds, gt_push_eq]
  have hpath : ∀ u, OnPath (.visit v :: rest) u → OnPath (.process v :: rest) u := by
    rintro u ⟨d, hd, hn'⟩
    rcases List.mem_cons.mp hd with rfl | hd
    · cases hn'
    · exact ⟨d, List.mem_cons_of_mem _ hd, hn'⟩
  constructor
  · -- cls
    intro u hu hvis
    by_cases huv : u = v
    · subst huv; exact Or.inl hon_v
    · rw [hsu u huv] at hvis
      rcases hx.cls u hu hvis with h | h
      · exact Or.inl (hon_old u h)
      · exact Or.inr ((hass u).mpr h)
  · rw [hsz, pushState_component]; exact hS1
  · -- bnd0
    intro _
    refine ⟨by rw [hbsz]; omega, ?_⟩
    by_cases hB : s.bounds.size = 0
    · have hS0 : s.stack.size = 0 := by
        apply Decidable.byContradiction
        intro hh
        exact (hx.bnd0 hh).1 hB
      have := hbndS; rw [hB] at this; rw [this, hS0]
    · have hS0 : s.stack.size ≠ 0 := by
        intro hh
        have := hf.bnd_lt 0 (by omega); omega
      rw [hbnd 0 (by omega)]; exact (hx.bnd0 hS0).2
  · -- bnd_path
    intro j hj
    rw [hbsz] at hj
    by_cases hjl : j < s.bounds.size
    · obtain ⟨u, hu, he⟩ := hx.bnd_path j hjl
      have hne : u ≠ v := by
        intro hh; subst hh
        rw [hm] at he
        have := hf.bnd_lt j hjl; have := hb.cnt; omega
      exact ⟨u, hpath u hu, by rw [hsu u hne, hbnd j hjl]; exact he⟩
    · have : j = s.bounds.size := by omega
      subst this
      exact ⟨v, ⟨.process v, List.mem_cons_self, rfl⟩, by rw [hsv, hbndS]⟩
  · -- fwd
    intro i i' hii hi'
    rw [hsz] at hi'
    by_cases hil : i' < s.stack.size
    · rw [hstk i (by omega), hstk i' hil]; exact hx.fwd i i' hii hil
    · have hi'S : i' = s.stack.size := by omega
      subst hi'S
      rw [hstkS]
      by_cases hiS : i = s.stack.size
      · subst hiS; rw [hstkS]; exact .refl _
      · rw [hstk i (by omega)]
        rcases hx.vis_ok v rest rfl with ⟨_, h0⟩ | ⟨p, rest', hr, hE⟩
        · omega
        · subst hr
          have hbp' : ∀ j, j < s.bounds.size → ∃ v', OnPath (.process p :: rest') v' ∧ gt s.scc v' = gt s.bounds j := by
            intro j hj
            obtain ⟨u, ⟨d, hd, hn'⟩, he⟩ := hx.bnd_path j hj
            rcases List.mem_cons.mp hd with rfl | hd
            · cases hn'
            · exact ⟨u, ⟨d, hd, hn'⟩, he⟩
          have := reach_top hbp' hx.fwd hx.blk (WP_tail hp) (v := p) rfl i (by omega)
          exact .tail this hE
  · -- blk
    rintro i i' ⟨hii, hi', hnb⟩
    rw [hsz] at hi'
    by_cases hil : i' < s.stack.size
    · rw [hstk i (by omega), hstk i' hil]
      refine hx.blk i i' ⟨hii, hil, fun j hj hh => ?_⟩
      have := hnb j (by rw [hbsz]; omega)
      rw [hbnd j hj] at this
      exact this hh
    · have hi'S : i' = s.stack.size := by omega
      subst hi'S
      have := hnb s.bounds.size (by rw [hbsz]; omega)
      rw [hbndS] at this
      have hiS : i = s.stack.size := by
        apply Decidable.byContradiction
        intro hh
        exact this ⟨by omega, Nat.le_refl _⟩
      subst hiS
      exact .refl _
  · -- expl
    intro u x hu hex
    rcases hon_inv u hu with rfl | huo
    · obtain ⟨k, hk, _, _⟩ := hex
      rw [hx.ei0 u hm] at hk; omega
    · rcases hx.expl u x huo hex with h | ⟨h1, h2⟩ | ⟨rest', hr⟩
      · exact Or.inl ((hass x).mpr h)
      · right; left
        refine ⟨hon_old x h1, ?_⟩
        intro j hj hle
        rw [hbsz] at hj
        rw [hsu u (hone u huo)] at hle
        rw [hsu x (hone x h1)]
        by_cases hjl : j < s.bounds.size
        · rw [hbnd j hjl] at hle ⊢; exact h2 j hjl hle
        · have : j = s.bounds.size := by omega
          subst this
          rw [hbndS] at hle
          have := huo.1; omega
      · cases hr
        right; left
        refine ⟨hon_v, ?_⟩
        intro j hj _
        rw [hbsz] at hj
        rw [hsv]
        by_cases hjl : j < s.bounds.size
        · rw [hbnd j hjl]; have := hf.bnd_lt j hjl; omega
        · have : j = s.bounds.size := by omega
          subst this
          rw [hbndS]; exact Nat.le_refl _
  · -- fin
    intro u hu hnp
    rcases hon_inv u hu with rfl | huo
    · exact absurd ⟨.process u, List.mem_cons_self, rfl⟩ hnp
    · exact hx.fin u huo (fun hh => hnp (hpath u hh))
  · intro w rest' h; cases h
  · intro d hd; exact hx.tail_proc d hd
  · intro w rest' h; cases h
  · intro u hu
    by_cases huv : u = v
    · subst huv; rw [hsv] at hu; have := hb.comp; omega
    · rw [hsu u huv] at hu; exact hx.ei0 u hu
  · intro a x ha he
    exact (hass x).mpr (hx.a_closed a x ((hass a).mp ha) he)
  · intro a a' ha ha'
    have h1 := (hass a).mp ha
    have h2 := (hass a').mp ha'
    have n1 : a ≠ v := fun hh => by subst hh; exact h1.2.1 hm
    have n2 : a' ≠ v := fun hh => by subst hh; exact h2.2.1 hm
    rw [hsu a n1, hsu a' n2]
    exact hx.a_exact a a' h1 h2

theorem explored_step {g : Graph} {ei : Array Nat} {v : Nat} (hvs : v < ei.size) {u x : Nat}
    (h : Explored g (st ei v (gt ei v + 1)) u x) :
    Explored g ei u x ∨ (u = v ∧ gt ei v < outDegree g v ∧ x = target g (beginEdges g v + gt ei v)) := by
  obtain ⟨k, hk, hd, ht⟩ := h
  by_cases huv : u = v
  · subst huv
    rw [gt_st_eq _ _ _ hvs] at hk
    by_cases hke : k = gt ei u
    · subst hke; exact Or.inr ⟨rfl, hd, ht.symm⟩
    · exact Or.inl ⟨k, by omega, hd, ht⟩
  · rw [gt_st_ne _ _ _ _ (Ne.symm huv)] at hk
    exact Or.inl ⟨k, hk, hd, ht⟩

theorem onStack_visited {n : Nat} {s : State} (hb : GS n s) (hn : n < maxU) {u : Nat} (hu : OnStack s u) :
    gt s.scc u ≠ maxU ∧ u < n := by
  have h1 := hb.stk _ hu.1
  rw [hu.2] at h1
  exact ⟨h1.2, h1.1⟩

theorem gx_tree (g : Graph) (hn : numNodes g < maxU) (s : State) (ei : Array Nat) (v : Nat) (rest : List Dfs)
    (hf : GF (numNodes g) s) (hp : WP s (.process v :: rest)) (hvs : v < ei.size)
    (hlt : gt ei v < outDegree g v) (hx : GX g s ei (.process v :: rest)) :
    GX g s (st ei v (gt ei v + 1)) (.visit (target g (beginEdges g v + gt ei v)) :: .process v :: rest) := by
  have hb := hf.base
  have hon := (hp.1 v rfl).1
  obtain ⟨hvv, hvn⟩ := onStack_visited hb hn hon
  have hpath : ∀ u, OnPath (.visit (target g (beginEdges g v + gt ei v)) :: .process v :: rest) u ↔
      OnPath (.process v :: rest) u := by
    intro u
    constructor
    · rintro ⟨d, hd, hn'⟩
      rcases List.mem_cons.mp hd with rfl | hd
      · cases hn'
      · exact ⟨d, hd, hn'⟩
    · rintro ⟨d, hd, hn'⟩; exact ⟨d, List.mem_cons_of_mem _ hd, hn'⟩
  have hei : ∀ u, gt ei u ≤ gt (st ei v (gt ei v + 1)) u := by
    intro u
    by_cases huv : u = v
    · subst huv; rw [gt_st_eq _ _ _ hvs]; omega
    · rw [gt_st_ne _ _ _ _ (Ne.symm huv)]; exact Nat.le_refl _
  refine ⟨hx.cls, hx.s_le_c, hx.bnd0, ?_, hx.fwd, hx.blk, ?_, ?_, ?_, ?_, ?_, ?_, hx.a_closed, hx.a_exact⟩
  · intro j hj
    obtain ⟨u, hu, he⟩ := hx.bnd_path j hj
    exact ⟨u, (hpath u).mpr hu, he⟩
  · intro u x hu hex
    rcases explored_step hvs hex with h | ⟨rfl, _, rfl⟩
    · rcases hx.expl u x hu h with h | h | ⟨rest', hr⟩
      · exact Or.inl h
      · exact Or.inr (Or.inl h)
      · cases hr
    · exact Or.inr (Or.inr ⟨_, rfl⟩)
  · intro u hu hnp
    exact Nat.le_trans (hx.fin u hu (fun hh => hnp ((hpath u).mpr hh))) (hei u)
  · intro w rest' h; cases h
  · intro d hd
    simp only [List.tail_cons] at hd
    rcases List.mem_cons.mp hd with rfl | hd
    · trivial
    · exact hx.tail_proc d hd
  · intro w rest' h
    cases h
    exact Or.inr ⟨v, rest, rfl, (E_iff g v _).mpr ⟨hvn, gt ei v, hlt, rfl⟩⟩
  · intro u hu
    have huv : u ≠ v := fun hh => hvv (hh ▸ hu)
    rw [gt_st_ne _ _ _ _ (Ne.symm huv)]; exact hx.ei0 u hu

theorem gx_done (g : Graph) (s : State) (ei : Array Nat) (v : Nat) (rest : List Dfs)
    (hge : ¬ gt ei v < outDegree g v) (hx : GX g s ei (.process v :: rest)) : GX g s ei (.finalize v :: rest) := by
  have hpath : ∀ u, OnPath (.finalize v :: rest) u ↔ OnPath (.process v :: rest) u := by
    intro u
    constructor
    · rintro ⟨d, hd, hn'⟩
      rcases List.mem_cons.mp hd with rfl | hd
      · exact ⟨.process v, List.mem_cons_self, hn'⟩
      · exact ⟨d, List.mem_cons_of_mem _ hd, hn'⟩
    · rintro ⟨d, hd, hn'⟩
      rcases List.mem_cons.mp hd with rfl | hd
      · exact ⟨.finalize v, List.mem_cons_self, hn'⟩
      · exact ⟨d, List.mem_cons_of_mem _ hd, hn'⟩
  refine ⟨hx.cls, hx.s_le_c, hx.bnd0, ?_, hx.fwd, hx.blk, ?_, ?_, ?_, hx.tail_proc, ?_, hx.ei0, hx.a_closed, hx.a_exact⟩
  · intro j hj
    obtain ⟨u, hu, he⟩ := hx.bnd_path j hj
    exact ⟨u, (hpath u).mpr hu, he⟩
  · intro u x hu hex
    rcases hx.expl u x hu hex with h | h | ⟨rest', hr⟩
    · exact Or.inl h
    · exact Or.inr (Or.inl h)
    · cases hr
  · intro u hu hnp
    exact hx.fin u hu (fun hh => hnp ((hpath u).mpr hh))
  · intro w rest' h
    cases h
    omega
  · intro w rest' h; cases h

theorem gx_skip (g : Graph) (s : State) (ei : Array Nat) (v : Nat) (rest : List Dfs)
    (hf : GF (numNodes g) s) (hp : WP s (.finalize v :: rest))
    (hc : ¬ (s.bounds.size ≠ 0 ∧ gt s.bounds (s.bounds.size - 1) = gt s.scc v))
    (hx : GX g s ei (.finalize v :: rest)) : GX g s ei rest := by
  have hble := bounds_le_top hx.bnd_path hp (v := v) rfl
  have hrest : ∀ d, d ∈ rest → IsProcess d := fun d hd => hx.tail_proc d hd
  refine ⟨hx.cls, hx.s_le_c, hx.bnd0, ?_, hx.fwd, hx.blk, ?_, ?_, ?_, ?_, ?_, hx.ei0, hx.a_closed, hx.a_exact⟩
  · intro j hj
    obtain ⟨u, ⟨d, hd, hn'⟩, he⟩ := hx.bnd_path j hj
    rcases List.mem_cons.mp hd with rfl | hd
    · exfalso
      simp only [nodeOf, Option.some.injEq] at hn'
      subst hn'
      apply hc
      refine ⟨by omega, ?_⟩
      by_cases hjl : j = s.bounds.size - 1
      · subst hjl; exact he.symm
      · have h1 := hf.bnd_mono j (s.bounds.size - 1) (by omega) (by omega)
        have h2 := hble (s.bounds.size - 1) (by omega)
        omega
    · exact ⟨u, ⟨d, hd, hn'⟩, he⟩
  · intro u x hu hex
    rcases hx.expl u x hu hex with h | h | ⟨rest', hr⟩
    · exact Or.inl h
    · exact Or.inr (Or.inl h)
    · cases hr
  · intro u hu hnp
    by_cases huv : u = v
    · subst huv; exact hx.fin_top u rest rfl
    · apply hx.fin u hu
      rintro ⟨d, hd, hn'⟩
      rcases List.mem_cons.mp hd with rfl | hd
      · simp only [nodeOf, Option.some.injEq] at hn'; exact huv hn'.symm
      · exact hnp ⟨d, hd, hn'⟩
  · intro w rest' h
    have := hrest (.finalize w) (by rw [h]; exact List.mem_cons_self)
    exact absurd this (by simp [IsProcess])
  · intro d hd
    exact hrest d (List.mem_of_mem_tail hd)
  · intro w rest' h
    have := hrest (.visit w) (by rw [h]; exact List.mem_cons_self)
    exact absurd this (by simp [IsProcess])

/-- `ProcessNeighbors(v)` looks at an edge to an already visited node `w` and contracts -/
theorem gx_back (g : Graph) (hn : numNodes g < maxU) (s : State) (ei : Array Nat) (v : Nat) (rest : List Dfs)
    (hf : GF (numNodes g) s) (hp : WP s (.process v :: rest)) (hvs : v < ei.size)
    (hlt : gt ei v < outDegree g v) (hwn : target g (beginEdges g v + gt ei v) < numNodes g)
    (hwv : gt s.scc (target g (beginEdges g v + gt ei v)) ≠ maxU)
    (hx : GX g s ei (.process v :: rest)) :
    GX g { s with bounds := contract (gt s.scc (target g (beginEdges g v + gt ei v))) s.bounds.size s.bounds }
      (st ei v (gt ei v + 1)) (.process v :: rest) := by
  have hb := hf.base
  have hon := (hp.1 v rfl).1
  obtain ⟨hvv, hvn⟩ := onStack_visited hb hn hon
  generalize hw : target g (beginEdges g v + gt ei v) = w at hwn hwv ⊢
  have hE : E g v w := (E_iff g v w).mpr ⟨hvn, gt ei v, hlt, hw⟩
  obtain ⟨c1, c2, c3, c4⟩ := contract_spec (gt s.scc w) s.bounds.size s.bounds hf.bnd_mono (Nat.le_refl _)
  generalize hbs : contract (gt s.scc w) s.bounds.size s.bounds = bs at c1 c2 c3 c4 ⊢
  have hble := bounds_le_top hx.bnd_path hp (v := v) rfl
  have hei : ∀ u, gt ei u ≤ gt (st ei v (gt ei v + 1)) u := by
    intro u
    by_cases huv : u = v
    · subst huv; rw [gt_st_eq _ _ _ hvs]; omega
    · rw [gt_st_ne _ _ _ _ (Ne.symm huv)]; exact Nat.le_refl _
  -- an assigned target removes no bound
  have hass_keep : Assigned g s w → bs.size = s.bounds.size := by
    intro ha
    apply Nat.le_antisymm c1
    apply Decidable.byContradiction
    intro hh
    have h1 := c4 bs.size (Nat.le_refl _) (by omega)
    have h2 := hf.bnd_lt bs.size (by omega)
    have := hx.s_le_c; have := ha.2.2
    omega
  refine ⟨hx.cls, hx.s_le_c, ?_, ?_, hx.fwd, ?_, ?_, ?_, ?_, hx.tail_proc, ?_, ?_, hx.a_closed, hx.a_exact⟩
  · -- bnd0
    intro hS
    obtain ⟨h1, h2⟩ := hx.bnd0 hS
    have hpos : 0 < bs.size := by
      apply Decidable.byContradiction
      intro hh
      have := c4 0 (by omega) (by omega)
      omega
    exact ⟨by simp only; omega, by simp only; rw [c2 0 hpos]; exact h2⟩
  · intro j hj
    simp only at hj ⊢
    rw [c2 j hj]
    exact hx.bnd_path j (by omega)
  · -- blk
    rintro i i' ⟨hii, hi', hnb⟩
    simp only at hi' hnb
    rcases Classical.em (∃ j, j < s.bounds.size ∧ i < gt s.bounds j ∧ gt s.bounds j ≤ i') with ⟨j0, hj0, h1, h2⟩ | hno
    · -- a removed bound lies between i and i': go round through v -> w
      have hrem : bs.size ≤ j0 := by
        apply Decidable.byContradiction
        intro hh
        have := hnb j0 (by omega)
        rw [c2 j0 (by omega)] at this
        exact this ⟨h1, h2⟩
      have hwlt : gt s.scc w < gt s.bounds j0 := c4 j0 hrem hj0
      have hwon : OnStack s w := by
        rcases hx.cls w hwn hwv with h | h
        · exact h
        · have := hass_keep h; omega
      have hrem_le : ∀ j, j < bs.size → gt s.bounds j ≤ i := by
        intro j hj
        apply Decidable.byContradiction
        intro hh
        have h3 := c3 j hj
        have := hnb j hj
        rw [c2 j hj] at this
        exact this ⟨by omega, by omega⟩
      have r1 : R g (gt s.stack i') v := reach_top hx.bnd_path hx.fwd hx.blk hp rfl i' hi'
      have r2 : R g v w := Reach.single hE
      have r3 : R g w (gt s.stack i) := by
        by_cases hle : gt s.scc w ≤ i
        · have := hx.fwd (gt s.scc w) i hle (by omega)
          rw [hwon.2] at this; exact this
        · have := hx.blk i (gt s.scc w) ⟨by omega, hwon.1, fun j hj hh => by
            by_cases hjb : j < bs.size
            · have := hrem_le j hjb; omega
            · have := c4 j (by omega) hj; omega⟩
          rw [hwon.2] at this; exact this
      exact r1.trans (r2.trans r3)
    · exact hx.blk i i' ⟨hii, hi', fun j hj hh => hno ⟨j, hj, hh⟩⟩
  · -- expl
    intro u x hu hex
    have hu' : OnStack s u := hu
    rcases explored_step hvs hex with h | ⟨rfl, _, hxw⟩
    · rcases hx.expl u x hu' h with h | ⟨h1, h2⟩ | ⟨rest', hr⟩
      · exact Or.inl h
      · right; left
        refine ⟨h1, fun j hj hle => ?_⟩
        simp only at hj hle ⊢
        rw [c2 j hj] at hle ⊢
        exact h2 j (by omega) hle
      · cases hr
    · rw [hw] at hxw; subst hxw
      rcases hx.cls x hwn hwv with h | h
      · right; left
        refine ⟨h, fun j hj _ => ?_⟩
        simp only at hj ⊢
        rw [c2 j hj]; exact c3 j hj
      · exact Or.inl h
  · intro u hu hnp
    exact Nat.le_trans (hx.fin u hu hnp) (hei u)
  · intro w' rest' h; cases h
  · intro w' rest' h; cases h
  · intro u hu
    have huv : u ≠ v := fun hh => hvv (hh ▸ hu)
    rw [gt_st_ne _ _ _ _ (Ne.symm huv)]; exact hx.ei0 u hu

/-- `Finalize(v)` with `scc[v]` on top of the bounds: the top block is a complete component -/
theorem gx_pop (g : Graph) (hn : numNodes g < maxU) (s : State) (ei : Array Nat) (v : Nat) (rest : List Dfs)
    (hf : GF (numNodes g) s) (hp : WP s (.finalize v :: rest))
    (hc : s.bounds.size ≠ 0 ∧ gt s.bounds (s.bounds.size - 1) = gt s.scc v)
    (hx : GX g s ei (.finalize v :: rest)) (s1 : State)
    (h2 : s1.stack.size = gt s.scc v) (h3 : ∀ i, i < gt s.scc v → gt s1.stack i = gt s.stack i)
    (h5 : s1.bounds = s.bounds.pop) (h6 : s1.component = s.component - 1)
    (h7 : ∀ u, (∃ i, gt s.scc v ≤ i ∧ i < s.stack.size ∧ gt s.stack i = u) → gt s1.scc u = s.component - 1)
    (h8 : ∀ u, ¬ (∃ i, gt s.scc v ≤ i ∧ i < s.stack.size ∧ gt s.stack i = u) → gt s1.scc u = gt s.scc u) :
    GX g s1 ei rest := by
  have hb := hf.base
  have hon := (hp.1 v rfl).1
  have hbelow := (hp.1 v rfl).2
  have hSc := hx.s_le_c
  have hcn := hb.comp
  have hpS : gt s.scc v < s.stack.size := hon.1
  have hrest : ∀ d, d ∈ rest → IsProcess d := fun d hd => hx.tail_proc d hd
  -- the popped nodes
  have hpop_iff : ∀ u, (∃ i, gt s.scc v ≤ i ∧ i < s.stack.size ∧ gt s.stack i = u) ↔ (OnStack s u ∧ gt s.scc v ≤ gt s.scc u) := by
    intro u
    constructor
    · rintro ⟨i, hi1, hi2, rfl⟩
      have := hf.pos i hi2
      exact ⟨⟨by rw [this]; exact hi2, by rw [this]⟩, by rw [this]; exact hi1⟩
    · rintro ⟨hu, hle⟩
      exact ⟨gt s.scc u, hle, hu.1, hu.2⟩
  have hscc_pop : ∀ u, OnStack s u → gt s.scc v ≤ gt s.scc u → gt s1.scc u = s.component - 1 :=
    fun u hu hle => h7 u ((hpop_iff u).mpr ⟨hu, hle⟩)
  have hscc_keep : ∀ u, ¬ (OnStack s u ∧ gt s.scc v ≤ gt s.scc u) → gt s1.scc u = gt s.scc u :=
    fun u hnu => h8 u (fun hh => hnu ((hpop_iff u).mp hh))
  have hon1 : ∀ u, OnStack s1 u ↔ (OnStack s u ∧ gt s.scc u < gt s.scc v) := by
    intro u
    constructor
    · intro hu
      by_cases hpu : OnStack s u ∧ gt s.scc v ≤ gt s.scc u
      · have := hscc_pop u hpu.1 hpu.2
        have h1 := hu.1
        rw [this, h2] at h1
        omega
      · have hk := hscc_keep u hpu
        have h1 := hu.1; have h2' := hu.2
        rw [hk, h2] at h1
        rw [hk, h3 _ h1] at h2'
        exact ⟨⟨by omega, h2'⟩, h1⟩
    · rintro ⟨hu, hlt⟩
      have hk := hscc_keep u (fun hh => by omega)
      exact ⟨by rw [hk, h2]; exact hlt, by rw [hk, h3 _ hlt]; exact hu.2⟩
  have hass1 : ∀ u, Assigned g s1 u ↔ (Assigned g s u ∨ (OnStack s u ∧ gt s.scc v ≤ gt s.scc u)) := by
    intro u
    constructor
    · rintro ⟨hun, hvis, hge⟩
      by_cases hpu : OnStack s u ∧ gt s.scc v ≤ gt s.scc u
      · exact Or.inr hpu
      · have hk := hscc_keep u hpu
        rw [hk] at hvis hge
        rw [h6] at hge
        rcases hx.cls u hun hvis with h | h
        · exfalso
          have : gt s.scc u < gt s.scc v := by
            apply Decidable.byContradiction
            intro hh
            exact hpu ⟨h, by omega⟩
          omega
        · exact Or.inl h
    · rintro (⟨hun, hvis, hge⟩ | ⟨hu, hle⟩)
      · have hk := hscc_keep u (fun hh => by have := hh.1.1; omega)
        exact ⟨hun, by rw [hk]; exact hvis, by rw [hk, h6]; omega⟩
      · have := hscc_pop u hu hle
        exact ⟨(onStack_visited hb hn hu).2, by rw [this]; omega, by rw [this, h6]; exact Nat.le_refl _⟩
  have hB1 : s1.bounds.size = s.bounds.size - 1 := by rw [h5, Array.size_pop]
  have hbnd1 : ∀ j, j < s.bounds.size - 1 → gt s1.bounds j = gt s.bounds j := fun j hj => by
    rw [h5]; exact gt_pop_lt _ _ hj
  have hbnd_lt : ∀ j, j < s.bounds.size - 1 → gt s.bounds j < gt s.scc v := by
    intro j hj
    have := hf.bnd_mono j (s.bounds.size - 1) hj (by omega)
    omega
  -- all edges of a popped node have been explored, and lead to popped or assigned nodes
  have hpop_edges : ∀ u x, OnStack s u → gt s.scc v ≤ gt s.scc u → E g u x →
      Assigned g s x ∨ (OnStack s x ∧ gt s.scc v ≤ gt s.scc x) := by
    intro u x hu hle he
    obtain ⟨_, k, hk, ht⟩ := (E_iff g u x).mp he
    have hfull : outDegree g u ≤ gt ei u := by
      by_cases huv : u = v
      · subst huv; exact hx.fin_top u rest rfl
      · apply hx.fin u hu
        have hlt : gt s.scc v < gt s.scc u := by
          apply Decidable.byContradiction
          intro hh
          have he' : gt s.scc u = gt s.scc v := by omega
          have h1 := hu.2; rw [he', hon.2] at h1
          exact huv h1.symm
        exact above_not_path hp rfl hlt
    rcases hx.expl u x hu ⟨k, by omega, hk, ht⟩ with h | ⟨h1, h2'⟩ | ⟨rest', hr⟩
    · exact Or.inl h
    · right
      refine ⟨h1, ?_⟩
      have := h2' (s.bounds.size - 1) (by omega) (by rw [hc.2]; exact hle)
      rw [hc.2] at this; exact this
    · cases hr
  constructor
  · -- cls
    intro u hu hvis
    by_cases hpu : OnStack s u ∧ gt s.scc v ≤ gt s.scc u
    · exact Or.inr ((hass1 u).mpr (Or.inr hpu))
    · rw [hscc_keep u hpu] at hvis
      rcases hx.cls u hu hvis with h | h
      · left
        refine (hon1 u).mpr ⟨h, ?_⟩
        apply Decidable.byContradiction
        intro hh
        exact hpu ⟨h, by omega⟩
      · exact Or.inr ((hass1 u).mpr (Or.inl h))
  · rw [h2, h6]; omega
  · -- bnd0
    intro hS1
    rw [h2] at hS1
    obtain ⟨_, h0⟩ := hx.bnd0 (by omega)
    have hB2 : 2 ≤ s.bounds.size := by
      apply Decidable.byContradiction
      intro hh
      have : s.bounds.size - 1 = 0 := by omega
      rw [this, h0] at hc
      omega
    exact ⟨by rw [hB1]; omega, by rw [hbnd1 0 (by omega)]; exact h0⟩
  · -- bnd_path
    intro j hj
    rw [hB1] at hj
    obtain ⟨u, ⟨d, hd, hn'⟩, he⟩ := hx.bnd_path j (by omega)
    have hlt := hbnd_lt j hj
    rcases List.mem_cons.mp hd with rfl | hd
    · simp only [nodeOf, Option.some.injEq] at hn'; subst hn'; omega
    · refine ⟨u, ⟨d, hd, hn'⟩, ?_⟩
      rw [hbnd1 j hj, hscc_keep u (fun hh => by omega)]; exact he
  · -- fwd
    intro i i' hii hi'
    rw [h2] at hi'
    rw [h3 i (by omega), h3 i' hi']
    exact hx.fwd i i' hii (by omega)
  · -- blk
    rintro i i' ⟨hii, hi', hnb⟩
    rw [h2] at hi'
    rw [h3 i (by omega), h3 i' hi']
    refine hx.blk i i' ⟨hii, by omega, fun j hj hh => ?_⟩
    by_cases hjl : j < s.bounds.size - 1
    · have := hnb j (by rw [hB1]; exact hjl)
      rw [hbnd1 j hjl] at this
      exact this hh
    · have : j = s.bounds.size - 1 := by omega
      subst this
      rw [hc.2] at hh; omega
  · -- expl
    intro u x hu hex
    obtain ⟨huo, hult⟩ := (hon1 u).mp hu
    rcases hx.expl u x huo hex with h | ⟨h1, h2'⟩ | ⟨rest', hr⟩
    · exact Or.inl ((hass1 x).mpr (Or.inl h))
    · by_cases hpx : gt s.scc v ≤ gt s.scc x
      · exact Or.inl ((hass1 x).mpr (Or.inr ⟨h1, hpx⟩))
      · right; left
        refine ⟨(hon1 x).mpr ⟨h1, by omega⟩, ?_⟩
        intro j hj hle
        rw [hB1] at hj
        rw [hbnd1 j hj, hscc_keep u (fun hh => by omega)] at hle
        rw [hbnd1 j hj, hscc_keep x (fun hh => by omega)]
        exact h2' j (by omega) hle
    · cases hr
  · -- fin
    intro u hu hnp
    obtain ⟨huo, hult⟩ := (hon1 u).mp hu
    apply hx.fin u huo
    rintro ⟨d, hd, hn'⟩
    rcases List.mem_cons.mp hd with rfl | hd
    · simp only [nodeOf, Option.some.injEq] at hn'; subst hn'; omega
    · exact hnp ⟨d, hd, hn'⟩
  · intro w rest' h
    have := hrest (.finalize w) (by rw [h]; exact List.mem_cons_self)
    exact absurd this (by simp [IsProcess])
  · intro d hd
    exact hrest d (List.mem_of_mem_tail hd)
  · intro w rest' h
    have := hrest (.visit w) (by rw [h]; exact List.mem_cons_self)
    exact absurd this (by simp [IsProcess])
  · -- ei0
    intro u hu
    by_cases hpu : OnStack s u ∧ gt s.scc v ≤ gt s.scc u
    · rw [hscc_pop u hpu.1 hpu.2] at hu; omega
    · rw [hscc_keep u hpu] at hu; exact hx.ei0 u hu
  · -- a_closed
    intro a x ha he
    rcases (hass1 a).mp ha with h | ⟨h1, h2'⟩
    · exact (hass1 x).mpr (Or.inl (hx.a_closed a x h he))
    · exact (hass1 x).mpr (hpop_edges a x h1 h2' he)
  · -- a_exact
    intro a a' ha ha'
    -- popped nodes are mutually reachable
    have hmut : ∀ u u', OnStack s u → gt s.scc v ≤ gt s.scc u → OnStack s u' → gt s.scc v ≤ gt s.scc u' → R g u u' := by
      intro u u' hu hle hu' hle'
      by_cases hord : gt s.scc u ≤ gt s.scc u'
      · have := hx.fwd (gt s.scc u) (gt s.scc u') hord hu'.1
        rw [hu.2, hu'.2] at this; exact this
      · have := hx.blk (gt s.scc u') (gt s.scc u) ⟨by omega, hu.1, fun j hj hh => by
          have := bounds_le_top hx.bnd_path hp (v := v) rfl j hj; omega⟩
        rw [hu.2, hu'.2] at this; exact this
    -- a popped node and an old assigned node are in different components
    have hsep : ∀ u o, OnStack s u → Assigned g s o → ¬ R g o u := by
      intro u o hu ho hr
      exact onStack_not_assigned hx hu (assigned_reach hx ho hr)
    rcases (hass1 a).mp ha with h | ⟨h1, h1'⟩ <;> rcases (hass1 a').mp ha' with h' | ⟨h2', h2''⟩
    · rw [hscc_keep a (fun hh => onStack_not_assigned hx hh.1 h), hscc_keep a' (fun hh => onStack_not_assigned hx hh.1 h')]
      exact hx.a_exact a a' h h'
    · rw [hscc_keep a (fun hh => onStack_not_assigned hx hh.1 h), hscc_pop a' h2' h2'']
      constructor
      · intro he; have := h.2.2; omega
      · intro hs; exact absurd hs.1 (hsep a' a h2' h)
    · rw [hscc_pop a h1 h1', hscc_keep a' (fun hh => onStack_not_assigned hx hh.1 h')]
      constructor
      · intro he; have := h'.2.2; omega
      · intro hs; exact absurd hs.2 (hsep a a' h1 h')
    · rw [hscc_pop a h1 h1', hscc_pop a' h2' h2'']
      exact ⟨fun _ => ⟨hmut a a' h1 h1' h2' h2'', hmut a' a h2' h2'' h1 h1'⟩, fun _ => rfl⟩

/-! ### one step, the DFS loop, all roots -/

theorem step_exact (g : Graph) (hn : numNodes g < maxU) (s : State) (ei : Array Nat) (rest : List Dfs) (top : Dfs)
    (s' : State) (ei' : Array Nat) (work' : List Dfs) (hf : GF (numNodes g) s) (hw : WorkOK s.scc (top :: rest))
    (hp : WP s (top :: rest)) (hei : ei.size = numNodes g) (htop : ∀ w, top = .visit w → w < numNodes g)
    (hx : GX g s ei (top :: rest)) (h : step g s ei rest top = some (s', ei', work')) : GX g s' ei' work' := by
  have hb := hf.base
  cases top with
  | visit v =>
    have hvn := htop v rfl
    obtain ⟨hm, _⟩ := hw
    have hstep : step g s ei rest (.visit v) = some (pushState s v, ei, .process v :: rest) := by
      simp only [step, pushState, Array.size_push, Nat.add_sub_cancel]
      rw [if_neg (by rw [hb.size]; omega)]
    rw [hstep] at h
    simp only [Option.some.injEq, Prod.mk.injEq] at h
    obtain ⟨rfl, rfl, rfl⟩ := h
    exact gx_visit g hn s ei v rest hf hp hm hvn hx
  | process v =>
    obtain ⟨hon, _⟩ := hp.1 v rfl
    have hvn : v < numNodes g := (onStack_visited hb hn hon).2
    simp only [step] at h
    rw [if_neg (by omega)] at h
    by_cases hlt : gt ei v < endEdges g v - beginEdges g v
    · rw [if_pos hlt] at h
      split at h
      · cases h
      · rename_i hwn
        have hwn' : target g (beginEdges g v + gt ei v) < numNodes g := by have := hb.size; omega
        split at h
        · rename_i hm
          simp only [Option.some.injEq, Prod.mk.injEq] at h
          obtain ⟨rfl, rfl, rfl⟩ := h
          exact gx_tree g hn s ei v rest hf hp (by omega) hlt hx
        · rename_i hm
          simp only [Option.some.injEq, Prod.mk.injEq] at h
          obtain ⟨rfl, rfl, rfl⟩ := h
          exact gx_back g hn s ei v rest hf hp (by omega) hlt hwn' hm hx
    · rw [if_neg hlt] at h
      simp only [Option.some.injEq, Prod.mk.injEq] at h
      obtain ⟨rfl, rfl, rfl⟩ := h
      exact gx_done g s ei v rest hlt hx
  | finalize v =>
    obtain ⟨hon, _⟩ := hp.1 v rfl
    have hvn : v < numNodes g := (onStack_visited hb hn hon).2
    simp only [step] at h
    rw [if_neg (by rw [hb.size]; omega)] at h
    by_cases hc : s.bounds.size ≠ 0 ∧ gt s.bounds (s.bounds.size - 1) = gt s.scc v
    · rw [if_pos hc] at h
      split at h
      · cases h
      · rename_i hcomp
        obtain ⟨s1, h1, h2, h3, h4, h5, h6, h7, h8⟩ := popComp_total (numNodes g) v (gt s.scc v) s.stack.size
          { s with bounds := s.bounds.pop, component := s.component - 1 } hb.size (fun i hi => (hb.stk i hi).1)
          hf.pos hon.1 hon.2 (by simp only; omega)
        simp only at h5 h6 h7 h8
        simp only [h1, Option.some.injEq, Prod.mk.injEq] at h
        obtain ⟨rfl, rfl, rfl⟩ := h
        exact gx_pop g hn s ei v rest hf hp hc hx _ h2 h3 h5 h6 h7 h8
    · rw [if_neg hc] at h
      simp only [Option.some.injEq, Prod.mk.injEq] at h
      obtain ⟨rfl, rfl, rfl⟩ := h
      exact gx_skip g s ei v rest hf hp hc hx

theorem loop_exact (g : Graph) (hwf : WF g) (hn : numNodes g < maxU) :
    ∀ (f : Nat) (s : State) (ei : Array Nat) (work : List Dfs) (s' : State), GF (numNodes g) s → WorkOK s.scc work →
      WP s work → ei.size = numNodes g → (∀ w rest, work = .visit w :: rest → w < numNodes g) → GX g s ei work →
      loop g f s ei work = some s' → ∃ ei', GF (numNodes g) s' ∧ GX g s' ei' [] := by
  intro f
  induction f with
  | zero => intro _ _ _ _ _ _ _ _ _ _ h; simp [loop] at h
  | succ f ih =>
    intro s ei work s' hf hw hp hei htop hx h
    cases work with
    | nil =>
      simp only [loop] at h
      cases h
      exact ⟨ei, hf, hx⟩
    | cons top rest =>
      obtain ⟨s1, ei1, work1, hstep, h1, h2, h3, h4, h5, _⟩ :=
        step_total g hwf hn s ei rest top hf hw hp hei (fun w hw' => htop w rest (by rw [hw']))
      have hx1 := step_exact g hn s ei rest top s1 ei1 work1 hf hw hp hei (fun w hw' => htop w rest (by rw [hw'])) hx hstep
      simp only [loop, hstep] at h
      exact ih s1 ei1 work1 s' h1 h2 h3 h4 h5 hx1 h

/-- between two roots: the node stack is empty and everything visited is assigned -/
structure OX (g : Graph) (s : State) : Prop where
  gf : GF (numNodes g) s
  emp : s.stack.size = 0
  cls : ∀ v, v < numNodes g → gt s.scc v ≠ maxU → Assigned g s v
  a_closed : ∀ v x, Assigned g s v → E g v x → Assigned g s x
  a_exact : ∀ v v', Assigned g s v → Assigned g s v' → (gt s.scc v = gt s.scc v' ↔ SameSCC (edgesOf g) v v')

theorem ox_of_gx {g : Graph} {s : State} {ei : Array Nat} (hf : GF (numNodes g) s) (hx : GX g s ei []) : OX g s := by
  have hemp : s.stack.size = 0 := by
    apply Decidable.byContradiction
    intro hS
    obtain ⟨hB, _⟩ := hx.bnd0 hS
    obtain ⟨v, ⟨d, hd, _⟩, _⟩ := hx.bnd_path 0 (by omega)
    cases hd
  refine ⟨hf, hemp, ?_, hx.a_closed, hx.a_exact⟩
  intro v hv hvis
  rcases hx.cls v hv hvis with h | h
  · have := h.1; omega
  · exact h

theorem gx_of_ox {g : Graph} {s : State} (ho : OX g s) (v : Nat) (hm : gt s.scc v = maxU) :
    GX g s (Array.replicate (numNodes g) 0) [.visit v] := by
  have hnos : ∀ u, ¬ OnStack s u := fun u hu => by have := hu.1; have := ho.emp; omega
  have hB : s.bounds.size = 0 := by
    apply Decidable.byContradiction
    intro hh
    have := ho.gf.bnd_lt 0 (by omega)
    have := ho.emp; omega
  constructor
  · exact fun u hu hvis => Or.inr (ho.cls u hu hvis)
  · rw [ho.emp]; exact Nat.zero_le _
  · exact fun h => absurd ho.emp h
  · intro j hj; omega
  · intro i i' _ hi'; have := ho.emp; omega
  · intro i i' h; have := h.2.1; have := ho.emp; omega
  · exact fun u x hu _ => absurd hu (hnos u)
  · exact fun u hu _ => absurd hu (hnos u)
  · intro w rest h; cases h
  · intro d hd; cases hd
  · intro w rest h; cases h; exact Or.inl ⟨rfl, ho.emp⟩
  · intro u _
    by_cases hu : u < numNodes g
    · exact gt_replicate _ _ _ hu
    · exact gt_of_ge _ _ (by simpa using Nat.le_of_not_lt hu)
  · exact ho.a_closed
  · exact ho.a_exact

theorem outer_exact (g : Graph) (hwf : WF g) (hn : numNodes g < maxU) :
    ∀ (k v : Nat) (s s' : State), OX g s → v + k = numNodes g → (∀ u, u < v → gt s.scc u ≠ maxU) →
      outer g k v s = some s' → OX g s' ∧ ∀ u, u < numNodes g → gt s'.scc u ≠ maxU := by
  intro k
  induction k with
  | zero =>
    intro v s s' ho hv hall h
    simp only [outer] at h
    cases h
    exact ⟨ho, fun u hu => hall u (by omega)⟩
  | succ k ih =>
    intro v s s' ho hv hall h
    simp only [outer] at h
    split at h
    · rename_i hm
      split at h
      · cases h
      · rename_i s1 hd
        have hwo : WorkOK s.scc [.visit v] := ⟨hm, (fun d hd => by cases hd)⟩
        have hwp : WP s [.visit v] := ⟨(fun u hu => by cases hu), trivial⟩
        obtain ⟨ei', hf1, hx1⟩ := loop_exact g hwf hn _ s _ _ s1 ho.gf hwo hwp (by simp)
          (fun w rest h => by cases h; omega) (gx_of_ox ho v hm) hd
        obtain ⟨_, h2, h3⟩ := loop_inv g _ hn _ s _ _ s1 ho.gf.base hwo hd
        refine ih (v + 1) s1 s' (ox_of_gx hf1 hx1) (by omega) ?_ h
        intro u hu
        by_cases huv : u = v
        · subst huv; exact h3 u [] rfl
        · exact h2 u (hall u (by omega))
    · rename_i hm
      refine ih (v + 1) s s' ho (by omega) ?_ h
      intro u hu
      by_cases huv : u = v
      · subst huv; exact hm
      · exact hall u (by omega)

/-- `PathBasedScc::run` is exact: it returns, and two nodes carry the same label iff they are mutually reachable -/
theorem run_exact (s : State) (g : Graph) (hwf : WF g) (hn : numNodes g < maxU) :
    ∃ s' a, run s g = some (s', a) ∧ a.size = numNodes g ∧
      ∀ u v, u < numNodes g → v < numNodes g → (gt a u = gt a v ↔ SameSCC (edgesOf g) u v) := by
  obtain ⟨s1, a, hrun, hsz, _⟩ := run_total s g hwf hn
  refine ⟨s1, a, hrun, hsz, ?_⟩
  simp only [run, runWith] at hrun
  split at hrun
  · cases hrun
  · rename_i s2 ho
    simp only [Option.some.injEq, Prod.mk.injEq] at hrun
    obtain ⟨_, e2⟩ := hrun
    rw [← e2]
    -- the initial state
    have hgf : GF (numNodes g) (prepare true s g) := by
      have hbase : GS (numNodes g) (prepare true s g) := by
        simp only [prepare, if_true, Tarjan.clear, Tarjan.resize_empty]
        constructor
        · simp
        · intro v hv; left; exact gt_replicate _ _ _ hv
        · exact Nat.le_refl _
        · intro i hi; simp at hi
        · simp
      refine ⟨hbase, ?_, ?_, ?_, ?_⟩
      · intro i hi; simp [prepare] at hi
      · intro j hj; simp [prepare] at hj
      · intro j j' _ hj'; simp [prepare] at hj'
      · simp [prepare]
    have hunv : ∀ u, u < numNodes g → gt (prepare true s g).scc u = maxU := by
      intro u hu
      simp only [prepare, if_true, Tarjan.clear, Tarjan.resize_empty]
      exact gt_replicate _ _ _ hu
    have hnoass : ∀ u, ¬ Assigned g (prepare true s g) u := fun u hu => hu.2.1 (hunv u hu.1)
    have hox : OX g (prepare true s g) :=
      ⟨hgf, by simp [prepare], fun v hv hvis => absurd (hunv v hv) hvis, fun v x hv _ => absurd hv (hnoass v),
        fun v v' hv _ => absurd hv (hnoass v)⟩
    obtain ⟨hox', hall⟩ := outer_exact g hwf hn _ 0 _ _ hox (by omega) (fun u hu => by omega) ho
    intro u v hu hv
    exact hox'.a_exact u v (hox'.cls u hu (hall u hu)) (hox'.cls v hv (hall v hv))

end Tbx.Gabow
