import Tbx.Model.RTree
import Tbx.Proofs.GeoZOrder
/-
C12: the R-tree model's local `zorderCmp` (bit operations on `BitVec 32`) is the C19 model
`Tbx.Geo.zorderCmp` (patterns `pat32 x = (x % 2^32).toNat`), for which `Tbx.Proofs.GeoZOrder` proves that it
is the comparison of the interleaved keys and hence a strict total order on i32 coordinates.
-/
namespace Tbx.RTree

def toGeo (c : Coord) : Tbx.Geo.Coord := ⟨c.lat, c.lon⟩

theorem toNat_ofInt32 (x : Int) : (BitVec.ofInt 32 x).toNat = Tbx.Geo.pat32 x := by
  rw [BitVec.toNat_ofInt]; rfl

/-- the two models of `zorder_cmp` agree (on all integers: both work on the 32-bit patterns) -/
theorem zorderCmp_eq_geo (a b : Coord) : zorderCmp a b = Tbx.Geo.zorderCmp (toGeo a) (toGeo b) := by
  unfold zorderCmp Tbx.Geo.zorderCmp toGeo
  simp only [BitVec.toNat_xor, toNat_ofInt32, BitVec.getLsbD, Bool.and_eq_true, beq_iff_eq]
  by_cases h1 : Tbx.Geo.pat32 a.lat ^^^ Tbx.Geo.pat32 b.lat = 0 <;>
  by_cases h2 : Tbx.Geo.pat32 a.lon ^^^ Tbx.Geo.pat32 b.lon = 0 <;>
  simp [h1, h2]
  generalize compare (Tbx.Geo.pat32 a.lat ^^^ Tbx.Geo.pat32 b.lat).log2
    (Tbx.Geo.pat32 a.lon ^^^ Tbx.Geo.pat32 b.lon).log2 = o
  cases o
  · rfl
  · split <;> split <;> first | rfl | contradiction
  · rfl

end Tbx.RTree
