import Tbx.Proofs.DijkstraLoop
/-
Exactness of both searches (relative to `HeapLaws`): what `run` returns is the true distance /
the unreachable marker, labels are weights of real walks, one-to-many reports success iff all
targets are reachable and holds their exact distances.
-/
namespace Tbx.Dijkstra
open Tbx Tbx.AHeap
variable {Inv : Heap → Prop}

theorem not_settled_start (L : HeapLaws Inv) (s : Nat) (x : Int) :
    ¬ Settled (insert (init 0 UMAX) (s : Int) 0 (s : Int)) x := by
  obtain ⟨h1, _, _, _⟩ := init_observers 0 UMAX (s : Int)
  obtain ⟨_, o1, o2, _, _⟩ := L.insert_ok (init 0 UMAX) (s : Int) 0 (s : Int) (L.inv_init 0 UMAX) h1 (Int.le_refl _)
  intro hx
  have h := hx.1
  rw [o1, (init_observers 0 UMAX x).1] at h
  have : x = (s : Int) := by simpa using h
  subst this
  have h := hx.2
  rw [o2] at h; simp at h

theorem init_params : (init 0 UMAX).wmin = 0 ∧ (init 0 UMAX).wmax = UMAX := ⟨rfl, rfl⟩

theorem uniRun_new (adj : Adj) (n s t : Nat) :
    uniRun adj n Uni.new s t =
      uniLoop adj (t : Int) (n + 1) { queue := insert (init 0 UMAX) (s : Int) 0 (s : Int), upperBound := UMAX } := by
  simp only [uniRun, Uni.clear, Uni.new, AHeap.clear, init_params.1, init_params.2]

theorem o2mRun_new (adj : Adj) (n s : Nat) (targets : List Nat) :
    o2mRun adj n O2M.new s targets =
      (o2mLoop adj targets (n + 1) { queue := insert (init 0 UMAX) (s : Int) 0 (s : Int), reached := 0 }).map
        (fun st' => (st', st'.reached == targets.length)) := by
  simp only [o2mRun, O2M.clear, O2M.new, AHeap.clear, init_params.1, init_params.2]
  generalize o2mLoop adj targets (n + 1) _ = r
  cases r <;> rfl

theorem uniRun_spec (L : HeapLaws Inv) (adj : Adj) (n : Nat) (st : Uni) (s t : Nat) (hw : WFq st.queue) :
    (uniRun adj n st s t).Holds (fun p => UniPost Inv adj s t p.1 p.2) := by
  rw [uniRun_reuse adj n st s t hw, uniRun_new]
  exact uniLoop_spec L adj s t (n + 1) _ (LInv.start L adj s) rfl (not_settled_start L s _)

theorem UniPost.core {adj : Adj} {s t : Nat} {st' : Uni} {r : Int} (P : UniPost Inv adj s t st' r) :
    Core Inv adj s st'.queue := by
  cases P with
  | found d hr hub R => exact R.toCore
  | drained hr hub I _ _ => exact I.toCore

theorem UniPost.exact {adj : Adj} {s t : Nat} {st' : Uni} {r : Int} (P : UniPost Inv adj s t st' r) :
    (∃ d : Nat, r = (d : Int) ∧ SP.IsDist adj s t d) ∨ (r = UMAX ∧ ¬ SP.Reachable adj s t) := by
  cases P with
  | found d hr hub R =>
    left
    obtain ⟨v, d', hv, hd', hwalk⟩ := R.sound t R.cur.1.1
    have hv' : t = v := by omega
    rw [← hv'] at hwalk
    have hdd : d' = d := by have := R.cur.2; omega
    rw [hdd] at hwalk
    refine ⟨d, hr, hwalk, ?_⟩
    intro d2 hw2
    have := R.exact t R.cur.1 d2 hw2
    rw [R.cur.2] at this; omega
  | drained hr hub I hempty hnt =>
    right
    refine ⟨hr, ?_⟩
    rintro ⟨d', hw'⟩
    rcases I.walk_bound hw' with ⟨hs, _⟩ | ⟨y, hy, _⟩
    · exact hnt hs
    · rw [hempty y] at hy; cases hy

theorem o2mRun_spec (L : HeapLaws Inv) (adj : Adj) (n : Nat) (st : O2M) (s : Nat) (targets : List Nat)
    (hnd : targets.Nodup) (hw : WFq st.queue) :
    (o2mRun adj n st s targets).Holds
      (fun p => O2MPost Inv adj s targets p.1 ∧ p.2 = (p.1.reached == targets.length)) := by
  rw [o2mRun_reuse adj n st s targets hw, o2mRun_new]
  have hc : (0 : Nat) = settledCount (insert (init 0 UMAX) (s : Int) 0 (s : Int)) targets := by
    unfold settledCount
    have : ∀ t : Nat, settledB (insert (init 0 UMAX) (s : Int) 0 (s : Int)) (t : Int) = false := by
      intro t
      cases h : settledB (insert (init 0 UMAX) (s : Int) 0 (s : Int)) (t : Int)
      · rfl
      · exact absurd ((settledB_iff _ _).mp h) (not_settled_start L s _)
    rw [List.filter_eq_nil_iff.mpr (by intro t _; simp [this])]; rfl
  have := o2mLoop_spec L adj s targets hnd (n + 1)
    { queue := insert (init 0 UMAX) (s : Int) 0 (s : Int), reached := 0 } (LInv.start L adj s) hc
  revert this
  generalize o2mLoop adj targets (n + 1) _ = r
  cases r with
  | ok a => intro h; exact ⟨h, rfl⟩
  | panic => intro h; exact h
  | fuel => intro _; trivial

theorem settledCount_le (q : Heap) (targets : List Nat) : settledCount q targets ≤ targets.length :=
  List.length_filter_le _ _

theorem settledCount_full {q : Heap} {targets : List Nat} (h : settledCount q targets = targets.length) :
    ∀ t ∈ targets, Settled q (t : Int) := by
  intro t ht
  unfold settledCount at h
  have := (List.length_filter_eq_length_iff.mp h) t ht
  exact (settledB_iff _ _).mp this

/-- in a state where the loop-head invariant holds: a settled node's label is its distance -/
theorem LInv.settled_exact {adj : Adj} {s : Nat} {q : Heap} (I : LInv Inv adj s q) {t : Nat}
    (ht : Settled q (t : Int)) : ∃ d : Nat, weight q (t : Int) = (d : Int) ∧ SP.IsDist adj s t d := by
  obtain ⟨v, d, hv, hd, hwalk⟩ := I.sound t ht.1
  have hv' : t = v := by omega
  rw [← hv'] at hwalk
  refine ⟨d, hd, hwalk, ?_⟩
  intro d2 hw2
  have := I.exact t ht d2 hw2
  omega

/-- with a drained queue: reachable = settled -/
theorem LInv.drained {adj : Adj} {s : Nat} {q : Heap} (I : LInv Inv adj s q)
    (hempty : ∀ x, contains q x = false) (t : Nat) :
    (SP.Reachable adj s t → Settled q (t : Int)) ∧ (¬ SP.Reachable adj s t → inserted q (t : Int) = false) := by
  constructor
  · rintro ⟨d', hw'⟩
    rcases I.walk_bound hw' with ⟨hs, _⟩ | ⟨y, hy, _⟩
    · exact hs
    · rw [hempty y] at hy; cases hy
  · intro hnr
    cases hi : inserted q (t : Int)
    · rfl
    · obtain ⟨v, d, hv, _, hwalk⟩ := I.sound t hi
      have hv' : t = v := by omega
      rw [← hv'] at hwalk
      exact absurd ⟨d, hwalk⟩ hnr

/-- **one-to-many exactness** from the loop postcondition -/
theorem O2MPost.exact (L : HeapLaws Inv) {adj : Adj} {s : Nat} {targets : List Nat} {st' : O2M}
    (P : O2MPost Inv adj s targets st') :
    ((st'.reached == targets.length) = true ↔ ∀ t ∈ targets, SP.Reachable adj s t) ∧
    ∀ t ∈ targets,
      (∃ d : Nat, st'.distance t = (d : Int) ∧ SP.IsDist adj s t d) ∨
      (st'.distance t = UMAX ∧ ¬ SP.Reachable adj s t) := by
  have hle := settledCount_le st'.queue targets
  have hcnt := P.count
  by_cases hfull : st'.reached = targets.length
  · -- all targets settled
    have hall := settledCount_full (by omega : settledCount st'.queue targets = targets.length)
    refine ⟨?_, ?_⟩
    · simp only [hfull, beq_self_eq_true, true_iff]
      intro t ht
      obtain ⟨d, _, hd⟩ := P.linv.settled_exact (hall t ht)
      exact ⟨d, hd.1⟩
    · intro t ht
      left
      exact P.linv.settled_exact (hall t ht)
  · have hempty : ∀ x, contains st'.queue x = false := by
      rcases P.exit with h | h
      · omega
      · exact h
    refine ⟨?_, ?_⟩
    · have : (st'.reached == targets.length) = false := by simp [hfull]
      rw [this]
      simp only [Bool.false_eq_true, false_iff]
      intro hreach
      apply hfull
      have : settledCount st'.queue targets = targets.length := by
        unfold settledCount
        apply List.length_filter_eq_length_iff.mpr
        intro t ht
        exact (settledB_iff _ _).mpr ((P.linv.drained hempty t).1 (hreach t ht))
      omega
    · intro t _
      by_cases hr : SP.Reachable adj s t
      · left; exact P.linv.settled_exact ((P.linv.drained hempty t).1 hr)
      · right
        refine ⟨?_, hr⟩
        unfold O2M.distance
        rw [L.weight_wmax _ _ P.linv.inv ((P.linv.drained hempty t).2 hr)]
        exact P.linv.wf.2

end Tbx.Dijkstra
