import Tbx.Proofs.FlowDinicBfs
/-
C01 `dinic_bfs_exact`, the other direction: every node `bfs()` labels reaches the target through
residual edges of positive capacity; hence `bfs() = true` implies a residual path source → target.
-/
namespace Tbx.Flow
open Tbx

theorem bfsEdges_sound (g : Graph) (source u t : Nat) (k : Nat) :
    ∀ (e : Nat) (lv : Array Nat) (q : List Nat) (lv' : Array Nat) (q' : List Nat),
    ReachTo g t u → (∀ x, x < lv.size → Lab lv x → ReachTo g t x) →
    bfsEdges g source u e k lv q = some (lv', q') →
    lv'.size = lv.size ∧ ∀ x, x < lv.size → Lab lv' x → ReachTo g t x := by
  induction k with
  | zero =>
    intro e lv q lv' q' _ hinv h
    simp only [bfsEdges, Option.some.injEq, Prod.mk.injEq] at h
    obtain ⟨rfl, rfl⟩ := h
    exact ⟨rfl, hinv⟩
  | succ k ih =>
    intro e lv q lv' q' hu hinv h
    simp only [bfsEdges] at h
    split at h
    · exact ih (e + 1) lv q lv' q' hu hinv h
    · cases hf : g.findEdge (gt g.tgt e) u with
      | none => simp [hf] at h
      | some rev =>
        simp only [hf] at h
        split at h
        · exact ih (e + 1) lv q lv' q' hu hinv h
        · rename_i hcap
          obtain ⟨_, hr, ht⟩ := findEdge_spec g _ _ rev hf
          have hpe : PosEdge g (gt g.tgt e) u := ⟨rev, hr.1, hr.2, ht, by omega⟩
          have hinv1 : ∀ x, x < (st lv (gt g.tgt e) (gt lv u + 1)).size →
              Lab (st lv (gt g.tgt e) (gt lv u + 1)) x → ReachTo g t x := by
            intro x hx hl
            rw [size_st] at hx
            by_cases hxv : x = gt g.tgt e
            · rw [hxv]; exact ReachTo.step hpe hu
            · apply hinv x hx
              unfold Lab at hl ⊢
              rw [gt_st_ne _ _ _ _ (fun hh => hxv hh.symm)] at hl; exact hl
          split at h
          · obtain ⟨a, b⟩ := ih (e + 1) _ _ lv' q' hu hinv1 h
            rw [size_st] at a b
            exact ⟨a, b⟩
          · obtain ⟨a, b⟩ := ih (e + 1) _ _ lv' q' hu hinv1 h
            rw [size_st] at a b
            exact ⟨a, b⟩

theorem bfsLoop_sound (g : Graph) (hwf : WF g) (huq : Uniq g) (hrc : RevClosed g) (source t : Nat)
    (hN : g.numNodes + 2 < INV) (fuel : Nat) :
    ∀ (lv : Array Nat) (q : List Nat) (lv' : Array Nat), BInv g source t lv q fuel →
    (∀ x, x < lv.size → Lab lv x → ReachTo g t x) →
    bfsLoop g source fuel lv q = some lv' →
    ∀ x, x < g.numNodes → Lab lv' x → ReachTo g t x := by
  induction fuel with
  | zero => intro lv q lv' _ _ h; simp [bfsLoop] at h
  | succ fuel ih =>
    intro lv q lv' hi hinv h
    cases q with
    | nil =>
      simp only [bfsLoop, Option.some.injEq] at h
      subst h
      intro x hx hl; exact hinv x (by rw [hi.hsz]; exact hx) hl
    | cons u rest =>
      simp only [bfsLoop] at h
      cases hb : bfsEdges g source u (g.beginEdges u) (g.deg u) lv rest with
      | none => simp [hb] at h
      | some r =>
        obtain ⟨lv1, q1⟩ := r
        simp only [hb] at h
        obtain ⟨hun, _, hul⟩ := hi.qOK u List.mem_cons_self
        have hru : ReachTo g t u := hinv u (by rw [hi.hsz]; exact hun) hul
        obtain ⟨a, b⟩ := bfsEdges_sound g source u t _ _ lv rest lv1 q1 hru hinv hb
        exact ih lv1 q1 lv' (binv_step g hwf huq hrc source t hN fuel lv u rest lv1 q1 hi hb)
          (fun x hx hl => b x (by rw [← a]; exact hx) hl) h

theorem reachG_of_reachTo (g : Graph) (s t : Nat) (h : ReachTo g t s) : ReachG g s t := by
  have key : ∀ v, ReachTo g t v → ∀ w, ReachG g w v → ReachG g w t := by
    intro v hv
    induction hv with
    | refl => intro w hw; exact hw
    | step he _ ih => intro w hw; exact ih w (ReachG.step hw he)
  exact key s h s ReachG.refl

/-- **dinic_bfs_exact**: `bfs()` returns `true` iff there is a residual path of positive capacities from
    the source to the target -/
theorem bfs_exact (d : Dinic) (hwf : WF d.g) (huq : Uniq d.g) (hrc : RevClosed d.g)
    (hN : d.g.numNodes + 2 < INV) (hsz : d.level.size = d.g.numNodes) (hs : d.source < d.g.numNodes)
    (ht : d.target < d.g.numNodes) (hst : d.source ≠ d.target) (d' : Dinic) (b : Bool)
    (h : d.bfs = some (d', b)) : (b = true ↔ ReachG d.g d.source d.target) := by
  obtain ⟨_, _, _, _, _, hfalse⟩ := bfs_spec d hwf huq hrc hN hsz ht hst d' b h
  constructor
  · intro hb
    unfold Dinic.bfs at h
    simp only at h
    cases hl : bfsLoop d.g d.source (d.g.numNodes + 1)
        (st (Array.replicate d.level.size INV) d.target 0) [d.target] with
    | none => simp [hl] at h
    | some lv =>
      simp only [hl, Option.some.injEq, Prod.mk.injEq] at h
      obtain ⟨_, hbb⟩ := h
      have hrep : ∀ x, x < d.level.size → gt (Array.replicate d.level.size INV) x = INV := by
        intro x hx; unfold gt; simp [Array.getD_eq_getD_getElem?, hx]
      have hlab0 : ∀ x, x < d.g.numNodes →
          Lab (st (Array.replicate d.level.size INV) d.target 0) x → x = d.target := by
        intro x hx hl'
        unfold Lab at hl'
        rw [gt_st] at hl'
        split at hl'
        · rename_i hh; exact hh.1.symm
        · exact absurd (hrep x (by rw [hsz]; exact hx)) hl'
      have hlt0 : Lab (st (Array.replicate d.level.size INV) d.target 0) d.target := by
        unfold Lab; rw [gt_st_eq _ _ _ (by simp [hsz, ht])]; unfold INV; omega
      have hinv : BInv d.g d.source d.target (st (Array.replicate d.level.size INV) d.target 0)
          [d.target] (d.g.numNodes + 1) := by
        refine ⟨by simp [hsz], hlt0, ?_, ?_, ?_⟩
        · intro x hx; rw [List.mem_singleton] at hx; subst hx
          exact ⟨ht, fun e => hst e.symm, hlt0⟩
        · intro x hx _ hl'
          left; rw [hlab0 x hx hl']; exact List.mem_singleton.mpr rfl
        · intro x hx _ hl'
          rw [hlab0 x hx hl', gt_st_eq _ _ _ (by simp [hsz, ht])]; omega
      have hsound := bfsLoop_sound d.g hwf huq hrc d.source d.target hN _ _ _ lv hinv
        (fun x hx hl' => by
          have hx' : x < d.g.numNodes := by simpa [hsz] using hx
          rw [hlab0 x hx' hl']; exact ReachTo.refl) hl
      have hlabs : Lab lv d.source := by
        unfold Lab
        intro he
        rw [← hbb] at hb
        simp [he] at hb
      exact reachG_of_reachTo d.g d.source d.target (hsound d.source hs hlabs)
  · intro hr
    cases b with
    | true => rfl
    | false => exact absurd hr (hfalse rfl)

end Tbx.Flow
