import Tbx.Proofs.FlowDinicDfs
/-
Helper lemmas for `dinic_aug_positive`: parent chains (uniqueness, suffixes), the walk indicator on node
ids, the node `closest_tail` computed by `augChain`, and `unwind`.
-/
namespace Tbx.Flow
open Tbx Tbx.FlowTheory

/-! ### parent chains -/

theorem pchain_unique {n s : Nat} {ps : Array Nat} {y : Nat} {l1 l2 : List Nat}
    (h1 : PChain n s ps y l1) (h2 : PChain n s ps y l2) : l1 = l2 := by
  induction h1 generalizing l2 with
  | base =>
    cases h2 with
    | base => rfl
    | step hne _ _ _ _ => exact absurd rfl hne
  | @step y l hne _ _ _ _ ih =>
    cases h2 with
    | base => exact absurd rfl hne
    | step _ _ _ h4 _ => rw [ih h4]

theorem pchain_suffix {n s : Nat} {ps : Array Nat} {y : Nat} {l : List Nat} (h : PChain n s ps y l) :
    ∀ (l1 : List Nat) (c : Nat) (l2 : List Nat), l = l1 ++ c :: l2 → PChain n s ps c (c :: l2) := by
  induction h with
  | base =>
    intro l1 c l2 heq
    cases l1 with
    | nil => simp only [List.nil_append, List.cons.injEq] at heq; obtain ⟨rfl, rfl⟩ := heq; exact PChain.base
    | cons a tl => simp at heq
  | @step y l h1 h2 h3 h4 h5 ih =>
    intro l1 c l2 heq
    cases l1 with
    | nil =>
      simp only [List.nil_append, List.cons.injEq] at heq
      obtain ⟨rfl, rfl⟩ := heq
      exact PChain.step h1 h2 h3 h4 h5
    | cons a tl =>
      simp only [List.cons_append, List.cons.injEq] at heq
      exact ih tl c l2 heq.2

theorem windows_suffix (l1 : List Nat) (c : Nat) (l2 : List Nat) (ab : Nat × Nat)
    (h : ab ∈ windows (c :: l2)) : ab ∈ windows (l1 ++ c :: l2) := by
  induction l1 with
  | nil => exact h
  | cons a tl ih =>
    cases tl with
    | nil => simp only [List.cons_append, List.nil_append, windows, List.mem_cons]; exact Or.inr h
    | cons b tl' =>
      simp only [List.cons_append, windows, List.mem_cons]
      exact Or.inr ih

/-- the chain of the parent is the tail of the chain -/
theorem pchain_parent_sub {n s : Nat} {ps : Array Nat} (hps : gt ps s = s) {u : Nat} {lu l : List Nat}
    (h1 : PChain n s ps u lu) (h2 : PChain n s ps (gt ps u) l) : ∀ x, x ∈ l → x ∈ lu := by
  cases h1 with
  | base =>
    rw [hps] at h2
    cases h2 with
    | base => intro x hx; exact hx
    | step hne _ _ _ _ => exact absurd rfl hne
  | step _ _ _ h4 _ =>
    rw [pchain_unique h2 h4]
    intro x hx; exact List.mem_cons_of_mem _ hx

/-! ### the walk indicator on node ids -/

theorem chiN_anti (p : List Nat) (u v : Nat) : chiN p u v = - chiN p v u := by
  induction p with
  | nil => simp [chiN]
  | cons a rest ih =>
    cases rest with
    | nil => simp [chiN]
    | cons b rest =>
      simp only [chiN]
      rw [ih]
      have e1 : (u = a ∧ v = b) ↔ (v = b ∧ u = a) := And.comm
      have e2 : (u = b ∧ v = a) ↔ (v = a ∧ u = b) := And.comm
      simp only [e1, e2]; ring

theorem chiN_not_mem_left (p : List Nat) (u v : Nat) (h : u ∉ p) : chiN p u v = 0 := by
  induction p with
  | nil => simp [chiN]
  | cons a rest ih =>
    cases rest with
    | nil => simp [chiN]
    | cons b rest =>
      simp only [chiN]
      have ha : u ≠ a := fun e => h (e ▸ List.mem_cons_self)
      have hb : u ≠ b := fun e => h (e ▸ List.mem_cons_of_mem _ List.mem_cons_self)
      rw [ih (fun hm => h (List.mem_cons_of_mem _ hm))]
      simp [ha, hb]

theorem chiN_not_mem_right (p : List Nat) (u v : Nat) (h : v ∉ p) : chiN p u v = 0 := by
  rw [chiN_anti, chiN_not_mem_left p v u h]; simp

/-- on a simple path: the indicator of a window (a,b) is 1, and it is positive only on windows -/
theorem chiN_window (p : List Nat) (hnd : p.Nodup) (a b : Nat) :
    ((a, b) ∈ windows p → chiN p a b = 1) ∧ (0 < chiN p a b → (a, b) ∈ windows p) ∧ chiN p a b ≤ 1 := by
  induction p with
  | nil => simp [chiN, windows]
  | cons x rest ih =>
    cases rest with
    | nil => simp [chiN, windows]
    | cons y rest =>
      have hnd' : (y :: rest).Nodup := (List.nodup_cons.mp hnd).2
      have hx : x ∉ y :: rest := (List.nodup_cons.mp hnd).1
      have hxy : x ≠ y := fun e => hx (e ▸ List.mem_cons_self)
      obtain ⟨i1, i2, i3⟩ := ih hnd'
      simp only [chiN, windows, List.mem_cons, Prod.mk.injEq]
      by_cases h1 : a = x ∧ b = y
      · have z : chiN (y :: rest) a b = 0 := chiN_not_mem_left _ _ _ (h1.1 ▸ hx)
        have h2 : ¬ (a = y ∧ b = x) := fun h => hxy (h1.1 ▸ h.1)
        rw [z, if_pos h1, if_neg h2]
        exact ⟨fun _ => by omega, fun _ => Or.inl h1, by omega⟩
      · by_cases h2 : a = y ∧ b = x
        · have z : chiN (y :: rest) a b = 0 := chiN_not_mem_right _ _ _ (h2.2 ▸ hx)
          rw [z, if_neg h1, if_pos h2]
          refine ⟨?_, fun h => by omega, by omega⟩
          rintro (h | h)
          · exact absurd h h1
          · have := (mem_windows h).2
            simp only at this
            rw [h2.2] at this; exact absurd this hx
        · rw [if_neg h1, if_neg h2]
          refine ⟨?_, ?_, by omega⟩
          · rintro (h | h)
            · exact absurd h h1
            · have := i1 h; omega
          · intro h; exact Or.inr (i2 (by omega))

/-! ### edges with positive capacity, as windows -/

/-- the window (a,b) — child a, parent b — is an existing edge b → a of positive capacity -/
def PosW (g : Graph) (ab : Nat × Nat) : Prop := ∃ e, g.findEdge ab.2 ab.1 = some e ∧ 0 < gt g.cap e

theorem findEdge_of_eq {g g' : Graph} (h1 : g'.first = g.first) (h2 : g'.tgt = g.tgt) (a b : Nat) :
    g'.findEdge a b = g.findEdge a b := by
  have hf : ∀ k e, g'.findFrom b e k = g.findFrom b e k := by
    intro k; induction k with
    | zero => intro e; rfl
    | succ k ih => intro e; simp only [Graph.findFrom]; rw [ih, h2]
  unfold Graph.findEdge Graph.numNodes Graph.beginEdges Graph.deg Graph.endEdges Graph.beginEdges
  rw [h1, hf]

/-- with unique pairs: positivity of a window is positivity of the pair residual -/
theorem posW_iff {g : Graph} (hu : Uniq g) (ab : Nat × Nat) (e : Nat) (he : g.findEdge ab.2 ab.1 = some e) :
    PosW g ab ↔ 0 < rOf g ab.2 ab.1 := by
  obtain ⟨_, hr, ht⟩ := findEdge_spec g _ _ e he
  rw [rOf_eq_cap hu _ _ e hr ht]
  constructor
  · rintro ⟨e', h1, h2⟩; rw [he] at h1; cases h1; exact h2
  · intro h; exact ⟨e, he, h⟩

/-! ### `closest_tail` -/

/-- `closest_tail` as a function of the ORIGINAL pair residuals `r`: walking the path from the target
    towards the source, the tail of every edge whose residual equals the pushed amount replaces it -/
def ctSpec (r : Nat → Nat → ℤ) (fl : ℤ) : Nat → List Nat → Nat
  | ct, v :: u :: rest => ctSpec r fl (if r u v = fl then u else ct) (u :: rest)
  | ct, _ => ct

theorem ctSpec_char (r : Nat → Nat → ℤ) (fl : ℤ) (l : List Nat) : ∀ ct,
    (ctSpec r fl ct l = ct ∧ ∀ ab, ab ∈ windows l → r ab.2 ab.1 ≠ fl) ∨
    (∃ l1 l2, l = l1 ++ ctSpec r fl ct l :: l2 ∧ l1 ≠ [] ∧
      ∀ ab, ab ∈ windows (ctSpec r fl ct l :: l2) → r ab.2 ab.1 ≠ fl) := by
  induction l with
  | nil => intro ct; left; exact ⟨rfl, fun ab h => by simp [windows] at h⟩
  | cons v tl ih =>
    cases tl with
    | nil => intro ct; left; exact ⟨rfl, fun ab h => by simp [windows] at h⟩
    | cons u rest =>
      intro ct
      simp only [ctSpec]
      by_cases hc : r u v = fl
      · rw [if_pos hc]
        rcases ih u with ⟨h1, h2⟩ | ⟨l1, l2, h1, h2, h3⟩
        · right
          refine ⟨[v], rest, by rw [h1]; rfl, by simp, ?_⟩
          rw [h1]; exact h2
        · right
          exact ⟨v :: l1, l2, by rw [List.cons_append, ← h1], by simp, h3⟩
      · rw [if_neg hc]
        rcases ih ct with ⟨h1, h2⟩ | ⟨l1, l2, h1, h2, h3⟩
        · left
          refine ⟨h1, ?_⟩
          intro ab hab
          simp only [windows, List.mem_cons] at hab
          rcases hab with rfl | hab
          · exact hc
          · exact h2 ab hab
        · right
          exact ⟨v :: l1, l2, by rw [List.cons_append, ← h1], by simp, h3⟩

/-- effect of one augmentation step (edge u → v minus fl, edge v → u plus fl) on the pair residuals -/
theorem aug_step_rOf {g : Graph} (hwf : WF g) (u v fwd rev : Nat) (fl : ℤ)
    (h1 : g.findEdge u v = some fwd) (h2 : g.findEdge v u = some rev) (a b : Nat) :
    rOf { g with cap := st (st g.cap fwd (gt g.cap fwd - fl)) rev (gt (st g.cap fwd (gt g.cap fwd - fl)) rev + fl) } a b =
      rOf g a b - (if a = u ∧ b = v then fl else 0) + (if a = v ∧ b = u then fl else 0) := by
  obtain ⟨hu, hru, htu⟩ := findEdge_spec g u v fwd h1
  obtain ⟨hv, hrv, htv⟩ := findEdge_spec g v u rev h2
  have hwfA : WF { g with cap := st g.cap fwd (gt g.cap fwd - fl) } := hwf.withCap _ (by simp)
  have hA := rOf_st hwf u v fwd (gt g.cap fwd - fl) hu hru htu a b
  have hB := rOf_st hwfA v u rev (gt (st g.cap fwd (gt g.cap fwd - fl)) rev + fl) hv hrv htv a b
  simp only at hA hB
  rw [hB, hA]
  split_ifs <;> ring

theorem augChain_ct (n s : Nat) (ps : Array Nat) (hps : gt ps s = s) (r : Nat → Nat → ℤ) (fl : ℤ)
    (fuel : Nat) : ∀ (v : Nat) (l : List Nat) (ct : Nat) (g g' : Graph) (ct' : Nat),
    PChain n s ps v l → l.Nodup → WF g → Uniq g →
    (∀ ab, ab ∈ windows l → rOf g ab.2 ab.1 = r ab.2 ab.1) →
    augChain ps fl fuel v ct g = some (g', ct') → ct' = ctSpec r fl ct l := by
  induction fuel with
  | zero => intro v l ct g g' ct' _ _ _ _ _ h; simp [augChain] at h
  | succ fuel ih =>
    intro v l ct g g' ct' hc hnd hwf huq hq h
    simp only [augChain] at h
    cases hc with
    | base =>
      rw [hps] at h
      simp only [if_true, Option.some.injEq, Prod.mk.injEq] at h
      rw [← h.2]; rfl
    | @step _ l' h1 h2 h3 h4 h5 =>
      obtain ⟨tl, rfl⟩ := pchain_head h4
      have hne : gt ps v ≠ v := fun e => h5 (by rw [e]; exact List.mem_cons_self)
      rw [if_neg hne] at h
      cases hf1 : g.findEdge (gt ps v) v with
      | none => simp [hf1] at h
      | some fwd =>
        cases hf2 : g.findEdge v (gt ps v) with
        | none => simp [hf1, hf2] at h
        | some rev =>
          simp only [hf1, hf2] at h
          obtain ⟨hu, hru, htu⟩ := findEdge_spec g _ _ fwd hf1
          have hfsz : fwd < g.cap.size := by rw [hwf.capsz]; exact hwf.inRange_lt hu hru
          have hcapfwd : gt g.cap fwd = r (gt ps v) v := by
            rw [← rOf_eq_cap huq _ _ fwd hru htu]
            exact hq (v, gt ps v) (by simp [windows])
          have hcond : (gt (st g.cap fwd (gt g.cap fwd - fl)) fwd = 0) ↔ (r (gt ps v) v = fl) := by
            rw [gt_st_eq _ _ _ hfsz, hcapfwd]; omega
          have hnd' : (gt ps v :: tl).Nodup := (List.nodup_cons.mp hnd).2
          have hwf2 : WF { g with cap := st (st g.cap fwd (gt g.cap fwd - fl)) rev (gt (st g.cap fwd (gt g.cap fwd - fl)) rev + fl) } :=
            hwf.withCap _ (by simp)
          have hq2 : ∀ ab, ab ∈ windows (gt ps v :: tl) →
              rOf { g with cap := st (st g.cap fwd (gt g.cap fwd - fl)) rev (gt (st g.cap fwd (gt g.cap fwd - fl)) rev + fl) } ab.2 ab.1 = r ab.2 ab.1 := by
            intro ab hab
            rw [aug_step_rOf hwf _ _ fwd rev fl hf1 hf2]
            have hm := mem_windows hab
            have hv1 : ab.1 ≠ v := fun e => h5 (e ▸ hm.1)
            have hv2 : ab.2 ≠ v := fun e => h5 (e ▸ hm.2)
            rw [if_neg (fun hh => hv1 hh.2), if_neg (fun hh => hv2 hh.1)]
            have := hq ab (by simp only [windows, List.mem_cons]; exact Or.inr hab)
            omega
          have := ih _ _ _ _ g' ct' h4 hnd' hwf2 (huq.withCap _) hq2 h
          rw [this]
          simp only [ctSpec]
          by_cases hc' : r (gt ps v) v = fl
          · rw [if_pos hc', if_pos (hcond.mpr hc')]
          · rw [if_neg hc', if_neg (fun hh => hc' (hcond.mp hh))]

/-! ### `unwind` -/

theorem unwind_char (ps : Array Nat) (ct : Nat) (stk : List (Nat × ℤ)) :
    unwind ps ct stk = [] ∨
    ∃ pre y0 post, stk = pre ++ y0 :: post ∧ gt ps y0.1 = ct ∧ unwind ps ct stk = post := by
  induction stk with
  | nil => left; rfl
  | cons a rest ih =>
    obtain ⟨node, fl⟩ := a
    simp only [unwind]
    split
    · rename_i hc
      right; exact ⟨[], (node, fl), rest, rfl, hc, rfl⟩
    · rcases ih with h | ⟨pre, y0, post, h1, h2, h3⟩
      · left; exact h
      · right; exact ⟨(node, fl) :: pre, y0, post, by rw [h1]; rfl, h2, h3⟩

end Tbx.Flow
