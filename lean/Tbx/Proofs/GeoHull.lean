import Tbx.Model.Hull
import Tbx.Proofs.GeoCross
/-
Monotone chain: stack invariant (every three consecutive stack entries make a strict turn), the
upper pass is the lower pass run on the reversed order on top of an untouched base, outputs are
input points, degenerate inputs.
The stack is a list with the top at the head (see Tbx/Model/Hull.lean).
-/
namespace Tbx.Geo

/-! ### the sort: membership and length -/

theorem mem_insertLonLat {v x : Coord} {l : List Coord} : v ∈ insertLonLat x l ↔ v = x ∨ v ∈ l := by
  induction l with
  | nil => simp [insertLonLat]
  | cons y ys ih =>
    unfold insertLonLat
    split
    · simp
    · simp only [List.mem_cons, ih]
      constructor
      · rintro (h | h | h)
        · exact Or.inr (Or.inl h)
        · exact Or.inl h
        · exact Or.inr (Or.inr h)
      · rintro (h | h | h)
        · exact Or.inr (Or.inl h)
        · exact Or.inl h
        · exact Or.inr (Or.inr h)

theorem mem_sortLonLat {v : Coord} {l : List Coord} : v ∈ sortLonLat l ↔ v ∈ l := by
  induction l with
  | nil => simp [sortLonLat]
  | cons x xs ih =>
    have : sortLonLat (x :: xs) = insertLonLat x (sortLonLat xs) := rfl
    rw [this, mem_insertLonLat, ih, List.mem_cons]

theorem length_insertLonLat (x : Coord) (l : List Coord) : (insertLonLat x l).length = l.length + 1 := by
  induction l with
  | nil => rfl
  | cons y ys ih =>
    unfold insertLonLat
    split
    · rfl
    · simp [ih]

theorem length_sortLonLat (l : List Coord) : (sortLonLat l).length = l.length := by
  induction l with
  | nil => rfl
  | cons x xs ih =>
    have : sortLonLat (x :: xs) = insertLonLat x (sortLonLat xs) := rfl
    rw [this, length_insertLonLat, ih, List.length_cons]

/-! ### the `while` loop -/

theorem popWhile_suffix (m : Nat) (p : Coord) (st : List Coord) : popWhile m p st <:+ st := by
  induction st with
  | nil => exact List.suffix_refl _
  | cons a rest ih =>
    unfold popWhile
    cases rest with
    | nil => exact List.suffix_refl _
    | cons o r =>
      simp only
      split
      · exact List.IsSuffix.trans ih (List.suffix_cons _ _)
      · exact List.suffix_refl _

theorem popWhile_nil (m : Nat) (p : Coord) : popWhile m p [] = [] := rfl
theorem popWhile_single (m : Nat) (p a : Coord) : popWhile m p [a] = [a] := rfl
theorem popWhile_cons2 (m : Nat) (p a o : Coord) (r : List Coord) :
    popWhile m p (a :: o :: r) =
      if m ≤ (o :: r).length + 1 ∧ (!isCW o a p) = true then popWhile m p (o :: r) else a :: o :: r := rfl

/-- stack invariant, top first: for consecutive entries a, o, o' (o' deepest) the turn o' -> o -> a is strict -/
def Turns : List Coord → Prop
  | a :: o :: o' :: rest => isCW o' o a = true ∧ Turns (o :: o' :: rest)
  | _ => True

theorem Turns_tail {a : Coord} {l : List Coord} (h : Turns (a :: l)) : Turns l := by
  match l, h with
  | [], _ => trivial
  | [_], _ => trivial
  | _ :: _ :: _, h => exact h.2

theorem Turns_suffix {l₁ l₂ : List Coord} (hs : l₁ <:+ l₂) (h : Turns l₂) : Turns l₁ := by
  induction l₂ with
  | nil =>
    have : l₁ = [] := List.suffix_nil.mp hs
    subst this; trivial
  | cons a l ih =>
    rcases List.suffix_cons_iff.mp hs with rfl | hs'
    · exact h
    · exact ih hs' (Turns_tail h)

/-- when the loop stops with two or more entries left (lower pass: `minLen = 2`), the incoming point
makes a strict turn with the top two -/
theorem popWhile_top (p : Coord) (st : List Coord) {a o : Coord} {r : List Coord}
    (h : popWhile 2 p st = a :: o :: r) : isCW o a p = true := by
  induction st with
  | nil => simp [popWhile] at h
  | cons x rest ih =>
    cases rest with
    | nil => simp [popWhile] at h
    | cons y r' =>
      rw [popWhile_cons2] at h
      split at h
      · exact ih h
      · rename_i hc
        simp only [List.cons.injEq] at h
        obtain ⟨rfl, rfl, rfl⟩ := h
        have : ¬ ((!isCW y x p) = true) := fun hn => hc ⟨by simp, hn⟩
        simpa using this

theorem push_turns (p : Coord) (st : List Coord) (h : Turns st) : Turns (p :: popWhile 2 p st) := by
  have hs := Turns_suffix (popWhile_suffix 2 p st) h
  match hst : popWhile 2 p st with
  | [] => trivial
  | [_] => trivial
  | a :: o :: r =>
    rw [hst] at hs
    exact ⟨popWhile_top p st hst, hs⟩

theorem chain_turns (pts st : List Coord) (h : Turns st) : Turns (chain 2 st pts) := by
  induction pts generalizing st with
  | nil => exact h
  | cons p ps ih =>
    simp only [chain, List.foldl_cons]
    exact ih _ (push_turns p st h)

/-! ### the upper pass leaves the lower part alone -/

theorem popWhile_base (p : Coord) (base u : List Coord) :
    popWhile (2 + base.length) p (u ++ base) = popWhile 2 p u ++ base := by
  induction u with
  | nil =>
    cases base with
    | nil => rfl
    | cons a rest =>
      cases rest with
      | nil => rfl
      | cons o r =>
        rw [List.nil_append, popWhile_cons2, popWhile_nil, List.nil_append]
        have : ¬ (2 + (a :: o :: r).length ≤ (o :: r).length + 1) := by simp only [List.length_cons]; omega
        rw [if_neg (fun h => this h.1)]
  | cons a u' ih =>
    cases u' with
    | nil =>
      cases base with
      | nil => rfl
      | cons o r =>
        show popWhile (2 + (o :: r).length) p (a :: o :: r) = popWhile 2 p [a] ++ o :: r
        rw [popWhile_cons2, popWhile_single]
        have : ¬ (2 + (o :: r).length ≤ (o :: r).length + 1) := by omega
        rw [if_neg (fun h => this h.1)]
        rfl
    | cons o u'' =>
      show popWhile (2 + base.length) p (a :: o :: (u'' ++ base)) = popWhile 2 p (a :: o :: u'') ++ base
      rw [popWhile_cons2, popWhile_cons2]
      have h1 : 2 + base.length ≤ (o :: (u'' ++ base)).length + 1 := by
        simp only [List.length_cons, List.length_append]; omega
      have h2 : 2 ≤ (o :: u'').length + 1 := by simp only [List.length_cons]; omega
      simp only [h1, h2, true_and]
      split
      · exact ih
      · rfl

theorem chain_base (base pts u : List Coord) :
    chain (2 + base.length) (u ++ base) pts = chain 2 u pts ++ base := by
  induction pts generalizing u with
  | nil => rfl
  | cons p ps ih =>
    simp only [chain, List.foldl_cons]
    rw [popWhile_base]
    exact ih (p :: popWhile 2 p u)

/-- the output in terms of two lower passes: Vec order, each chain without its last point -/
theorem monotoneChain_eq (pts : List Coord) (h : 3 < pts.length) :
    monotoneChain pts =
      (lowerStack (sortLonLat pts)).reverse.dropLast ++ (lowerStack (sortLonLat pts).reverse).reverse.dropLast := by
  unfold monotoneChain
  have hn : ¬ pts.length ≤ 3 := by omega
  simp only [hn, if_false]
  have := chain_base (lowerStack (sortLonLat pts)).tail (sortLonLat pts).reverse []
  rw [List.nil_append] at this
  rw [this]
  have hne : chain 2 [] (sortLonLat pts).reverse ≠ [] := by
    have hl : (sortLonLat pts).reverse ≠ [] := by
      intro h0
      have h1 := congrArg List.length h0
      rw [List.length_reverse, length_sortLonLat] at h1
      have h2 : pts.length = 0 := h1
      omega
    match hr : (sortLonLat pts).reverse, hl with
    | c :: cs, _ =>
      simp only [chain, List.foldl_cons]
      -- the stack is never empty after a push
      have : ∀ (l : List Coord) (st : List Coord), st ≠ [] → l.foldl (fun st p => p :: popWhile 2 p st) st ≠ [] := by
        intro l
        induction l with
        | nil => intro st h; exact h
        | cons x xs ih => intro st _; exact ih _ (by simp)
      exact this cs _ (by simp)
  rw [List.tail_append_of_ne_nil hne, List.reverse_append, List.dropLast_reverse, List.dropLast_reverse]
  rfl

/-! ### membership -/

theorem chain_mem (m : Nat) (pts st : List Coord) : ∀ v ∈ chain m st pts, v ∈ st ∨ v ∈ pts := by
  induction pts generalizing st with
  | nil => intro v hv; exact Or.inl hv
  | cons p ps ih =>
    intro v hv
    simp only [chain, List.foldl_cons] at hv
    rcases ih (p :: popWhile m p st) v hv with h | h
    · rcases List.mem_cons.mp h with rfl | h
      · exact Or.inr List.mem_cons_self
      · exact Or.inl (List.IsSuffix.mem h (popWhile_suffix m p st))
    · exact Or.inr (List.mem_cons_of_mem _ h)

theorem monotoneChain_subset (pts : List Coord) : ∀ v ∈ monotoneChain pts, v ∈ pts := by
  intro v hv
  unfold monotoneChain at hv
  split at hv
  · exact hv
  · simp only [List.mem_reverse] at hv
    have hv := List.mem_of_mem_tail hv
    rcases chain_mem _ _ _ v hv with h | h
    · have h := List.mem_of_mem_tail h
      rcases chain_mem _ _ _ v h with h | h
      · cases h
      · exact mem_sortLonLat.mp h
    · exact mem_sortLonLat.mp (List.mem_reverse.mp h)

/-! ### consecutive triples, Vec order -/

/-- every three consecutive points x, y, z of the list (in this order) make a strict turn -/
def ConsecTurns (l : List Coord) : Prop := ∀ x y z, [x, y, z] <:+: l → 0 < cross x y z

theorem Turns_infix {st : List Coord} (h : Turns st) :
    ∀ a o o', [a, o, o'] <:+: st → isCW o' o a = true := by
  induction st with
  | nil =>
    intro a o o' hi
    have := List.infix_nil.mp hi
    cases this
  | cons x t ih =>
    intro a o o' hi
    rcases List.infix_cons_iff.mp hi with hp | hi'
    · match t, h, hp with
      | y :: z :: r, h, hp =>
        rw [List.cons_prefix_cons, List.cons_prefix_cons, List.cons_prefix_cons] at hp
        obtain ⟨rfl, rfl, rfl, _⟩ := hp
        exact h.1
      | [y], _, hp =>
        rw [List.cons_prefix_cons, List.cons_prefix_cons] at hp
        have := hp.2.2
        simp at this
      | [], _, hp =>
        rw [List.cons_prefix_cons] at hp
        have := hp.2
        simp at this
    · exact ih (Turns_tail h) a o o' hi'

theorem consecTurns_of_Turns {st : List Coord} (h : Turns st) : ConsecTurns st.reverse := by
  intro x y z hi
  have : [z, y, x] <:+: st := by
    have := List.reverse_infix.mpr hi
    simpa using this
  exact (isCW_iff x y z).mp (Turns_infix h z y x this)

theorem lowerStack_consecTurns (cs : List Coord) : ConsecTurns (lowerStack cs).reverse :=
  consecTurns_of_Turns (chain_turns cs [] trivial)

/-! ### degenerate inputs: no strict turn anywhere -/

def lastD : Coord → List Coord → Coord
  | d, [] => d
  | _, x :: xs => lastD x xs

theorem lastD_mem (d : Coord) (l : List Coord) : lastD d l = d ∨ lastD d l ∈ l := by
  induction l generalizing d with
  | nil => exact Or.inl rfl
  | cons x xs ih =>
    rcases ih x with h | h
    · exact Or.inr (by simp [lastD, h])
    · exact Or.inr (by simp only [lastD]; exact List.mem_cons_of_mem _ h)

theorem getLast?_cons_lastD (d : Coord) (l : List Coord) : (d :: l).getLast? = some (lastD d l) := by
  induction l generalizing d with
  | nil => rfl
  | cons x xs ih => rw [List.getLast?_cons_cons, ih]; rfl

theorem lastD_append_single (d : Coord) (l : List Coord) (x : Coord) : lastD d (l ++ [x]) = x := by
  induction l generalizing d with
  | nil => rfl
  | cons y ys ih => exact ih y

/-- without any strict turn among the points of `S`, the loop pops down to the bottom entry -/
theorem popWhile_flat (S : List Coord) (hS : ∀ o ∈ S, ∀ a ∈ S, ∀ p ∈ S, isCW o a p = false)
    (p : Coord) (hp : p ∈ S) (x : Coord) (st : List Coord) (hst : ∀ v ∈ x :: st, v ∈ S) :
    popWhile 2 p (x :: st) = [lastD x st] := by
  induction st generalizing x with
  | nil => rfl
  | cons o r ih =>
    rw [popWhile_cons2]
    have hx : x ∈ S := hst x List.mem_cons_self
    have ho : o ∈ S := hst o (List.mem_cons_of_mem _ List.mem_cons_self)
    have : 2 ≤ (o :: r).length + 1 ∧ (!isCW o x p) = true := by
      refine ⟨by simp only [List.length_cons]; omega, ?_⟩
      rw [hS o ho x hx p hp]; rfl
    simp only [this, and_self, if_true]
    exact ih o (fun v hv => hst v (List.mem_cons_of_mem _ hv))

theorem chain_flat (S : List Coord) (hS : ∀ o ∈ S, ∀ a ∈ S, ∀ p ∈ S, isCW o a p = false)
    (c0 : Coord) (hc0 : c0 ∈ S) (ps : List Coord) (hps : ∀ v ∈ ps, v ∈ S) (x : Coord) (st : List Coord)
    (hst : ∀ v ∈ x :: st, v ∈ S) (hb : lastD x st = c0) :
    chain 2 (x :: st) ps = if ps = [] then x :: st else [lastD c0 ps, c0] := by
  induction ps generalizing x st with
  | nil => rfl
  | cons p ps ih =>
    have hp : p ∈ S := hps p List.mem_cons_self
    simp only [chain, List.foldl_cons]
    rw [popWhile_flat S hS p hp x st hst, hb]
    have := ih (fun v hv => hps v (List.mem_cons_of_mem _ hv)) p [c0]
      (by intro v hv; rcases List.mem_cons.mp hv with rfl | hv
          · exact hp
          · rcases List.mem_cons.mp hv with rfl | hv
            · exact hc0
            · cases hv) rfl
    simp only [chain] at this
    rw [this]
    cases ps with
    | nil => rfl
    | cons q qs => simp [lastD]

theorem lowerStack_flat (S : List Coord) (hS : ∀ o ∈ S, ∀ a ∈ S, ∀ p ∈ S, isCW o a p = false)
    (c0 : Coord) (ps : List Coord) (hne : ps ≠ []) (hm : ∀ v ∈ c0 :: ps, v ∈ S) :
    lowerStack (c0 :: ps) = [lastD c0 ps, c0] := by
  have h := chain_flat S hS c0 (hm c0 List.mem_cons_self) ps (fun v hv => hm v (List.mem_cons_of_mem _ hv)) c0 []
    (by intro v hv; rcases List.mem_cons.mp hv with rfl | hv
        · exact hm _ List.mem_cons_self
        · cases hv) rfl
  simp only [hne, if_false] at h
  simpa [lowerStack, chain, popWhile] using h

/-! ### the sort -/

theorem lonLatLe_trans (a b c : Coord) (h1 : lonLatLe a b = true) (h2 : lonLatLe b c = true) : lonLatLe a c = true := by
  simp only [lonLatLe, Bool.or_eq_true, Bool.and_eq_true, decide_eq_true_eq] at *
  omega

theorem lonLatLe_total (a b : Coord) : (lonLatLe a b || lonLatLe b a) = true := by
  simp only [lonLatLe, Bool.or_eq_true, Bool.and_eq_true, decide_eq_true_eq]
  omega

theorem lonLatLe_refl (a : Coord) : lonLatLe a a = true := by
  simp [lonLatLe]

theorem insertLonLat_sorted (x : Coord) (l : List Coord)
    (h : List.Pairwise (fun a b => lonLatLe a b = true) l) :
    List.Pairwise (fun a b => lonLatLe a b = true) (insertLonLat x l) := by
  induction l with
  | nil => simp [insertLonLat]
  | cons y ys ih =>
    obtain ⟨h1, h2⟩ := List.pairwise_cons.mp h
    unfold insertLonLat
    split
    · rename_i hle
      refine List.pairwise_cons.mpr ⟨?_, h⟩
      intro z hz
      rcases List.mem_cons.mp hz with rfl | hz
      · exact hle
      · exact lonLatLe_trans _ _ _ hle (h1 z hz)
    · rename_i hle
      have hyx : lonLatLe y x = true := by
        have := lonLatLe_total x y
        simp only [Bool.or_eq_true] at this
        rcases this with h | h
        · exact absurd h hle
        · exact h
      refine List.pairwise_cons.mpr ⟨?_, ih h2⟩
      intro z hz
      rcases mem_insertLonLat.mp hz with rfl | hz
      · exact hyx
      · exact h1 z hz

theorem sortLonLat_sorted (l : List Coord) : List.Pairwise (fun a b => lonLatLe a b = true) (sortLonLat l) := by
  induction l with
  | nil => exact List.Pairwise.nil
  | cons x xs ih => exact insertLonLat_sorted x _ ih

theorem pairwise_le_lastD (c0 : Coord) (ps : List Coord)
    (h : List.Pairwise (fun a b => lonLatLe a b = true) (c0 :: ps)) :
    ∀ q ∈ c0 :: ps, lonLatLe q (lastD c0 ps) = true := by
  induction ps generalizing c0 with
  | nil =>
    intro q hq
    rcases List.mem_cons.mp hq with rfl | hq
    · exact lonLatLe_refl _
    · cases hq
  | cons x xs ih =>
    intro q hq
    obtain ⟨h1, h2⟩ := List.pairwise_cons.mp h
    simp only [lastD]
    rcases List.mem_cons.mp hq with rfl | hq
    · rcases lastD_mem x xs with e | m
      · rw [e]; exact h1 x List.mem_cons_self
      · exact h1 _ (List.mem_cons_of_mem _ m)
    · exact ih x h2 q hq

end Tbx.Geo
