import Tbx.Model.UnionFind
import Tbx.Proofs.C16Conn
/-
Union-find (`Model/UnionFind.lean`) refines the equivalence closure of the union pairs.

  RootOf par i r     r is the root reached from i along parent pointers
  Ranked par rk      parents in range, ranks strictly increase along non-root parent edges
  Inv u              Ranked + rank bound (fuel of `find`) + numSets = number of roots
  findLoop_spec      path halving terminates, returns the root, keeps every RootOf fact and every root
  link_iff           what pointing one root to another does to RootOf
  union_spec         union merges exactly the two classes, numSets drops by one iff they differed
Core Lean only.
-/
namespace Tbx.UF
open Tbx Tbx.Comp

inductive RootOf (par : Array Nat) : Nat → Nat → Prop where
  | root {i : Nat} : i < par.size → gt par i = i → RootOf par i i
  | step {i r : Nat} : i < par.size → gt par i ≠ i → RootOf par (gt par i) r → RootOf par i r

theorem RootOf.lt {par : Array Nat} {i r : Nat} (h : RootOf par i r) : i < par.size := by
  cases h <;> assumption

theorem RootOf.is_root {par : Array Nat} {i r : Nat} (h : RootOf par i r) : r < par.size ∧ gt par r = r := by
  induction h with
  | root hi hr => exact ⟨hi, hr⟩
  | step _ _ _ ih => exact ih

theorem RootOf.functional {par : Array Nat} {i r r' : Nat} (h1 : RootOf par i r) (h2 : RootOf par i r') : r = r' := by
  induction h1 with
  | root hi hr =>
    cases h2 with
    | root => rfl
    | step _ hne _ => exact absurd hr hne
  | step hi hne _ ih =>
    cases h2 with
    | root _ hr => exact absurd hr hne
    | step _ _ h => exact ih h

/-- a root is its own root, and nothing else is -/
theorem RootOf.of_root {par : Array Nat} {i r : Nat} (hr : gt par i = i) (h : RootOf par i r) : r = i := by
  cases h with
  | root => rfl
  | step _ hne _ => exact absurd hr hne

structure Ranked (par rk : Array Nat) : Prop where
  par_lt : ∀ i, i < par.size → gt par i < par.size
  rank_lt : ∀ i, i < par.size → gt par i ≠ i → gt rk i < gt rk (gt par i)

/-- the parent forest is acyclic: every element reaches a root -/
theorem exists_root {par rk : Array Nat} (h : Ranked par rk) (R : Nat) (hR : ∀ i, i < par.size → gt rk i ≤ R) :
    ∀ i, i < par.size → ∃ r, RootOf par i r := by
  have key : ∀ d i, i < par.size → R - gt rk i ≤ d → ∃ r, RootOf par i r := by
    intro d
    induction d with
    | zero =>
      intro i hi hd
      by_cases hr : gt par i = i
      · exact ⟨i, .root hi hr⟩
      · have h1 := h.rank_lt i hi hr
        have h2 := hR _ (h.par_lt i hi)
        have h3 := hR i hi
        omega
    | succ d ih =>
      intro i hi hd
      by_cases hr : gt par i = i
      · exact ⟨i, .root hi hr⟩
      · have h1 := h.rank_lt i hi hr
        have h2 := hR _ (h.par_lt i hi)
        obtain ⟨r, hr'⟩ := ih (gt par i) (h.par_lt i hi) (by omega)
        exact ⟨r, .step hi hr hr'⟩
  intro i hi
  exact key (R - gt rk i) i hi (Nat.le_refl _)

/-! ### path halving -/

theorem halve_iff {par : Array Nat} {p : Nat} (hp : p < par.size) (hne : gt par p ≠ p)
    (hpp : gt par p < par.size) (hg : gt par (gt par p) ≠ p) (j r : Nat) :
    RootOf (st par p (gt par (gt par p))) j r ↔ RootOf par j r := by
  constructor
  · intro h
    induction h with
    | @root j hj hr =>
      rw [size_st] at hj
      by_cases hjp : j = p
      · subst hjp; rw [gt_st_eq _ _ _ hp] at hr; exact absurd hr hg
      · rw [gt_st_ne _ _ _ _ (Ne.symm hjp)] at hr; exact .root hj hr
    | @step j r hj hne' _ ih =>
      rw [size_st] at hj
      by_cases hjp : j = p
      · subst hjp
        rw [gt_st_eq _ _ _ hp] at ih
        refine .step hp hne ?_
        by_cases hroot : gt par (gt par j) = gt par j
        · rw [hroot] at ih; exact ih
        · exact .step hpp hroot ih
      · rw [gt_st_ne _ _ _ _ (Ne.symm hjp)] at ih hne'
        exact .step hj hne' ih
  · intro h
    have key : RootOf (st par p (gt par (gt par p))) j r ∧ RootOf (st par p (gt par (gt par p))) (gt par j) r := by
      induction h with
      | @root j hj hr =>
        have hjp : j ≠ p := fun h => hne (h ▸ hr)
        have : RootOf (st par p (gt par (gt par p))) j j :=
          .root (by rw [size_st]; exact hj) (by rw [gt_st_ne _ _ _ _ (Ne.symm hjp)]; exact hr)
        exact ⟨this, by rw [hr]; exact this⟩
      | @step j r hj hne' _ ih =>
        refine ⟨?_, ih.1⟩
        by_cases hjp : j = p
        · subst hjp
          refine .step (by rw [size_st]; exact hj) (by rw [gt_st_eq _ _ _ hp]; exact hg) ?_
          rw [gt_st_eq _ _ _ hp]
          exact ih.2
        · refine .step (by rw [size_st]; exact hj) (by rw [gt_st_ne _ _ _ _ (Ne.symm hjp)]; exact hne') ?_
          rw [gt_st_ne _ _ _ _ (Ne.symm hjp)]
          exact ih.1
    exact key.1

theorem findLoop_spec {rk : Array Nat} (R : Nat) :
    ∀ (f : Nat) (par : Array Nat) (p : Nat), Ranked par rk → (∀ i, i < par.size → gt rk i ≤ R) →
      p < par.size → R - gt rk p < f →
      ∃ par' r, findLoop f par p = some (par', r) ∧ par'.size = par.size ∧ Ranked par' rk ∧ RootOf par p r ∧
        (∀ j r', RootOf par' j r' ↔ RootOf par j r') ∧ (∀ i, gt par' i = i ↔ gt par i = i) := by
  intro f
  induction f with
  | zero => intro par p _ _ _ hf; omega
  | succ f ih =>
    intro par p hrk hR hp hf
    unfold findLoop
    rw [if_neg (by omega)]
    by_cases hne : gt par p ≠ p
    · rw [if_pos hne]
      have hpp := hrk.par_lt p hp
      rw [if_neg (by omega)]
      have h1 := hrk.rank_lt p hp hne
      have h2 : gt rk (gt par p) ≤ gt rk (gt par (gt par p)) := by
        by_cases hroot : gt par (gt par p) = gt par p
        · rw [hroot]; exact Nat.le_refl _
        · exact Nat.le_of_lt (hrk.rank_lt _ hpp hroot)
      have hg : gt par (gt par p) ≠ p := by
        intro h; rw [h] at h2; omega
      have hgl := hrk.par_lt _ hpp
      have hrk1 : Ranked (st par p (gt par (gt par p))) rk := by
        constructor
        · intro i hi
          rw [size_st] at hi ⊢
          by_cases hip : i = p
          · subst hip; rw [gt_st_eq _ _ _ hp]; exact hgl
          · rw [gt_st_ne _ _ _ _ (Ne.symm hip)]; exact hrk.par_lt i hi
        · intro i hi
          rw [size_st] at hi
          by_cases hip : i = p
          · subst hip; rw [gt_st_eq _ _ _ hp]; intro _; omega
          · rw [gt_st_ne _ _ _ _ (Ne.symm hip)]; exact hrk.rank_lt i hi
      simp only [gt_st_eq _ _ _ hp]
      obtain ⟨par', r, hfl, hsz, hrk', hroot, hiff, hroots⟩ :=
        ih (st par p (gt par (gt par p))) (gt par (gt par p)) hrk1 (by rw [size_st]; exact hR)
          (by rw [size_st]; exact hgl) (by have := hR _ hgl; omega)
      refine ⟨par', r, hfl, by rw [hsz, size_st], hrk', ?_, ?_, ?_⟩
      · have h3 := (halve_iff hp hne hpp hg _ _).mp hroot
        refine .step hp hne ?_
        by_cases hr : gt par (gt par p) = gt par p
        · rw [hr] at h3; exact h3
        · exact .step hpp hr h3
      · intro j r'
        rw [hiff, halve_iff hp hne hpp hg]
      · intro i
        rw [hroots]
        by_cases hip : i = p
        · subst hip
          rw [gt_st_eq _ _ _ hp]
          exact ⟨fun h => absurd h hg, fun h => absurd h hne⟩
        · rw [gt_st_ne _ _ _ _ (Ne.symm hip)]
    · rw [if_neg hne]
      have hroot : gt par p = p := Decidable.not_not.mp hne
      exact ⟨par, p, rfl, rfl, hrk, .root hp hroot, fun _ _ => Iff.rfl, fun _ => Iff.rfl⟩

/-! ### counting roots -/

theorem countP_range_congr (p q : Nat → Bool) (n : Nat) (h : ∀ i, i < n → p i = q i) :
    (List.range n).countP p = (List.range n).countP q :=
  List.countP_congr fun i hi => by rw [h i (List.mem_range.mp hi)]

/-- switching the predicate off at one index lowers the count by one -/
theorem countP_range_update (p q : Nat → Bool) (a : Nat) (hpa : p a = true) (hqa : q a = false)
    (h : ∀ i, i ≠ a → p i = q i) : ∀ n, a < n → (List.range n).countP q + 1 = (List.range n).countP p := by
  intro n
  induction n with
  | zero => intro h; omega
  | succ n ih =>
    intro han
    rw [List.range_succ, List.countP_append, List.countP_append, List.countP_singleton, List.countP_singleton]
    by_cases hn : a = n
    · subst hn
      rw [countP_range_congr p q a (fun i hi => h i (by omega))]
      simp [hpa, hqa]
    · have := ih (by omega)
      rw [h n (Ne.symm hn)]
      omega

theorem countP_range_pos (p : Nat → Bool) (n a : Nat) (ha : a < n) (hpa : p a = true) : 1 ≤ (List.range n).countP p :=
  List.countP_pos_iff.mpr ⟨a, List.mem_range.mpr ha, hpa⟩

/-- at most one index satisfies a predicate whose count is ≤ 1 -/
theorem countP_range_unique (p : Nat → Bool) (n a b : Nat) (ha : a < n) (hb : b < n) (hpa : p a = true) (hpb : p b = true)
    (hc : (List.range n).countP p ≤ 1) : a = b := by
  by_cases hab : a = b
  · exact hab
  · have h1 := countP_range_update p (fun i => if i = a then false else p i) a hpa (by simp)
      (by intro i hi; simp [hi]) n ha
    have h2 := countP_range_pos (fun i => if i = a then false else p i) n b hb (by simp [Ne.symm hab, hpb])
    omega

def countRoots (par : Array Nat) : Nat := (List.range par.size).countP (fun i => gt par i == i)

/-! ### the invariant -/

structure Inv (u : UF) : Prop where
  sizeR : u.rank.size = u.parent.size
  ranked : Ranked u.parent u.rank
  rank_bd : ∀ i, i < u.parent.size → gt u.rank i + u.numSets ≤ u.parent.size
  nsets : u.numSets = countRoots u.parent

/-- `i` and `j` have the same root -/
def Cls (par : Array Nat) (i j : Nat) : Prop := ∃ r, RootOf par i r ∧ RootOf par j r

theorem Inv.exists_root {u : UF} (h : Inv u) (i : Nat) (hi : i < u.parent.size) : ∃ r, RootOf u.parent i r :=
  UF.exists_root h.ranked (u.parent.size - u.numSets) (fun i hi => by have := h.rank_bd i hi; omega) i hi

theorem Cls.refl {u : UF} (h : Inv u) (i : Nat) (hi : i < u.parent.size) : Cls u.parent i i := by
  obtain ⟨r, hr⟩ := h.exists_root i hi
  exact ⟨r, hr, hr⟩

theorem Cls.symm {par : Array Nat} {i j : Nat} (h : Cls par i j) : Cls par j i := by
  obtain ⟨r, h1, h2⟩ := h
  exact ⟨r, h2, h1⟩

theorem Cls.trans {par : Array Nat} {i j k : Nat} (h1 : Cls par i j) (h2 : Cls par j k) : Cls par i k := by
  obtain ⟨r, a, b⟩ := h1
  obtain ⟨r', c, d⟩ := h2
  have := b.functional c
  subst this
  exact ⟨r, a, d⟩

theorem new_inv (n : Nat) : Inv (new n) := by
  have hg : ∀ i, i < n → gt (Array.range n) i = i := by
    intro i hi
    simp [gt, hi]
  have hz : ∀ i, i < n → gt (Array.replicate n 0) i = 0 := by
    intro i hi
    simp [gt, hi]
  constructor
  · simp [new]
  · constructor
    · intro i hi
      simp only [new, Array.size_range] at hi ⊢
      rw [hg i hi]; exact hi
    · intro i hi hne
      simp only [new, Array.size_range] at hi hne
      exact absurd (hg i hi) hne
  · intro i hi
    simp only [new, Array.size_range] at hi ⊢
    rw [hz i hi]; omega
  · simp only [new, countRoots, Array.size_range]
    symm
    have : (List.range n).countP (fun i => gt (Array.range n) i == i) = (List.range n).length :=
      List.countP_eq_length.mpr (by intro i hi; simp [hg i (List.mem_range.mp hi)])
    simpa using this

theorem new_cls (n i j : Nat) : Cls (new n).parent i j ↔ (i = j ∧ i < n) := by
  have hg : ∀ i, i < n → gt (Array.range n) i = i := by
    intro i hi
    simp [gt, hi]
  constructor
  · rintro ⟨r, h1, h2⟩
    have hi := h1.lt
    have hj := h2.lt
    simp only [new, Array.size_range] at hi hj
    have e1 := h1.of_root (hg i hi)
    have e2 := h2.of_root (hg j hj)
    exact ⟨by omega, hi⟩
  · rintro ⟨rfl, hi⟩
    exact ⟨i, .root (by simpa [new] using hi) (hg i hi), .root (by simpa [new] using hi) (hg i hi)⟩

/-- `find`: terminates, returns the root of `x`, changes no class and no root -/
theorem find_spec {u : UF} (h : Inv u) (x : Nat) (hx : x < u.parent.size) :
    ∃ u' r, find u x = some (u', r) ∧ Inv u' ∧ u'.parent.size = u.parent.size ∧ u'.rank = u.rank ∧
      u'.numSets = u.numSets ∧ RootOf u.parent x r ∧ (∀ j r', RootOf u'.parent j r' ↔ RootOf u.parent j r') := by
  have hR : ∀ i, i < u.parent.size → gt u.rank i ≤ u.parent.size - u.numSets := by
    intro i hi; have := h.rank_bd i hi; omega
  obtain ⟨par', r, hfl, hsz, hrk, hroot, hiff, hroots⟩ :=
    findLoop_spec (u.parent.size - u.numSets) (u.parent.size + 1) u.parent x h.ranked hR hx (by omega)
  refine ⟨{ u with parent := par' }, r, ?_, ?_, hsz, rfl, rfl, hroot, hiff⟩
  · simp only [find, hfl]
  · constructor
    · simp only [hsz]; exact h.sizeR
    · exact hrk
    · simp only [hsz]; exact h.rank_bd
    · simp only [countRoots, hsz]
      rw [h.nsets, countRoots]
      apply countP_range_congr
      intro i _
      have := hroots i
      rw [Bool.eq_iff_iff]
      simp only [beq_iff_eq]
      exact this.symm

/-! ### linking one root below another -/

theorem link_iff {par : Array Nat} {a b : Nat} (ha : a < par.size) (hb : b < par.size) (hra : gt par a = a)
    (hrb : gt par b = b) (hab : a ≠ b) (j r : Nat) :
    RootOf (st par a b) j r ↔ (RootOf par j r ∧ r ≠ a) ∨ (RootOf par j a ∧ r = b) := by
  have hbb : RootOf (st par a b) b b :=
    .root (by rw [size_st]; exact hb) (by rw [gt_st_ne _ _ _ _ hab]; exact hrb)
  have key : ∀ j r, RootOf par j r → r = a → RootOf (st par a b) j b := by
    intro j r h
    induction h with
    | @root j hj hroot =>
      intro hja; subst hja
      refine .step (by rw [size_st]; exact ha) (by rw [gt_st_eq _ _ _ ha]; exact Ne.symm hab) ?_
      rw [gt_st_eq _ _ _ ha]; exact hbb
    | @step j r hj hne _ ih =>
      intro hr
      have hja : j ≠ a := fun h => hne (h ▸ hra)
      refine .step (by rw [size_st]; exact hj) (by rw [gt_st_ne _ _ _ _ (Ne.symm hja)]; exact hne) ?_
      rw [gt_st_ne _ _ _ _ (Ne.symm hja)]
      exact ih hr
  constructor
  · intro h
    induction h with
    | @root j hj hr =>
      rw [size_st] at hj
      have hja : j ≠ a := by
        intro h; subst h; rw [gt_st_eq _ _ _ ha] at hr; exact hab hr.symm
      rw [gt_st_ne _ _ _ _ (Ne.symm hja)] at hr
      exact Or.inl ⟨.root hj hr, hja⟩
    | @step j r hj hne _ ih =>
      rw [size_st] at hj
      by_cases hja : j = a
      · subst hja
        rw [gt_st_eq _ _ _ ha] at ih
        rcases ih with ⟨h1, _⟩ | ⟨h1, _⟩
        · have := h1.of_root hrb
          exact Or.inr ⟨.root ha hra, this⟩
        · exact absurd (h1.of_root hrb) hab
      · rw [gt_st_ne _ _ _ _ (Ne.symm hja)] at ih hne
        rcases ih with ⟨h1, h2⟩ | ⟨h1, h2⟩
        · exact Or.inl ⟨.step hj hne h1, h2⟩
        · exact Or.inr ⟨.step hj hne h1, h2⟩
  · rintro (⟨h, hr⟩ | ⟨h, hr⟩)
    · induction h with
      | @root j hj hroot =>
        exact .root (by rw [size_st]; exact hj) (by rw [gt_st_ne _ _ _ _ (Ne.symm hr)]; exact hroot)
      | @step j r hj hne _ ih =>
        have hja : j ≠ a := fun h => hne (h ▸ hra)
        refine .step (by rw [size_st]; exact hj) (by rw [gt_st_ne _ _ _ _ (Ne.symm hja)]; exact hne) ?_
        rw [gt_st_ne _ _ _ _ (Ne.symm hja)]
        exact ih hr
    · rw [hr]; exact key j a h rfl

/-- classes after linking root `a` below root `b` -/
theorem link_cls {par : Array Nat} {a b : Nat} (ha : a < par.size) (hb : b < par.size) (hra : gt par a = a)
    (hrb : gt par b = b) (hab : a ≠ b) (i j : Nat) :
    Cls (st par a b) i j ↔ Cls par i j ∨ (RootOf par i a ∧ RootOf par j b) ∨ (RootOf par i b ∧ RootOf par j a) := by
  constructor
  · rintro ⟨r, h1, h2⟩
    rcases (link_iff ha hb hra hrb hab i r).mp h1 with ⟨hi, hr⟩ | ⟨hi, hr⟩
    · rcases (link_iff ha hb hra hrb hab j r).mp h2 with ⟨hj, _⟩ | ⟨hj, hr'⟩
      · exact Or.inl ⟨r, hi, hj⟩
      · subst hr'; exact Or.inr (Or.inr ⟨hi, hj⟩)
    · rcases (link_iff ha hb hra hrb hab j r).mp h2 with ⟨hj, _⟩ | ⟨hj, _⟩
      · subst hr; exact Or.inr (Or.inl ⟨hi, hj⟩)
      · exact Or.inl ⟨a, hi, hj⟩
  · rintro (⟨r, hi, hj⟩ | ⟨hi, hj⟩ | ⟨hi, hj⟩)
    · by_cases hr : r = a
      · subst hr
        exact ⟨b, (link_iff ha hb hra hrb hab i b).mpr (Or.inr ⟨hi, rfl⟩),
          (link_iff ha hb hra hrb hab j b).mpr (Or.inr ⟨hj, rfl⟩)⟩
      · exact ⟨r, (link_iff ha hb hra hrb hab i r).mpr (Or.inl ⟨hi, hr⟩),
          (link_iff ha hb hra hrb hab j r).mpr (Or.inl ⟨hj, hr⟩)⟩
    · exact ⟨b, (link_iff ha hb hra hrb hab i b).mpr (Or.inr ⟨hi, rfl⟩),
        (link_iff ha hb hra hrb hab j b).mpr (Or.inl ⟨hj, Ne.symm hab⟩)⟩
    · exact ⟨b, (link_iff ha hb hra hrb hab i b).mpr (Or.inl ⟨hi, Ne.symm hab⟩),
        (link_iff ha hb hra hrb hab j b).mpr (Or.inr ⟨hj, rfl⟩)⟩

theorem countRoots_link {par : Array Nat} {a b : Nat} (ha : a < par.size) (hra : gt par a = a) (hab : a ≠ b) :
    countRoots (st par a b) + 1 = countRoots par := by
  simp only [countRoots, size_st]
  apply countP_range_update _ _ a (by simp [hra]) (by simp [gt_st_eq _ _ _ ha, Ne.symm hab]) _ _ ha
  intro i hi
  rw [gt_st_ne _ _ _ _ (Ne.symm hi)]

theorem rootOf_iff_cls {par : Array Nat} {x xs : Nat} (hx : RootOf par x xs) (i : Nat) :
    RootOf par i xs ↔ Cls par i x :=
  ⟨fun h => ⟨xs, h, hx⟩, fun ⟨_, h1, h2⟩ => (h2.functional hx) ▸ h1⟩

/-- the invariant survives linking root `a` below root `b` when `b`'s (possibly bumped) rank exceeds `a`'s -/
theorem link_inv {u : UF} (h : Inv u) {a b : Nat} {rk' : Array Nat} (ha : a < u.parent.size) (hb : b < u.parent.size)
    (hra : gt u.parent a = a) (hrb : gt u.parent b = b) (hab : a ≠ b)
    (hsz : rk'.size = u.rank.size) (hmono : ∀ i, gt u.rank i ≤ gt rk' i) (hsame : ∀ i, i ≠ b → gt rk' i = gt u.rank i)
    (hlt : gt u.rank a < gt rk' b) (hbd : gt rk' b + (u.numSets - 1) ≤ u.parent.size) :
    Inv { parent := st u.parent a b, rank := rk', numSets := u.numSets - 1 } := by
  constructor
  · simp only [size_st]; rw [hsz]; exact h.sizeR
  · constructor
    · intro i hi
      simp only [size_st] at hi ⊢
      by_cases hia : i = a
      · subst hia; rw [gt_st_eq _ _ _ ha]; exact hb
      · rw [gt_st_ne _ _ _ _ (Ne.symm hia)]; exact h.ranked.par_lt i hi
    · intro i hi
      simp only [size_st] at hi ⊢
      by_cases hia : i = a
      · subst hia
        rw [gt_st_eq _ _ _ ha]
        intro _
        rw [hsame i hab]; exact hlt
      · rw [gt_st_ne _ _ _ _ (Ne.symm hia)]
        intro hne
        have hib : i ≠ b := fun hh => hne (hh ▸ hrb)
        rw [hsame i hib]
        exact Nat.lt_of_lt_of_le (h.ranked.rank_lt i hi hne) (hmono _)
  · intro i hi
    simp only [size_st] at hi ⊢
    by_cases hib : i = b
    · subst hib; exact hbd
    · rw [hsame i hib]; have := h.rank_bd i hi; omega
  · have h1 := countRoots_link (b := b) ha hra hab
    have h2 := h.nsets
    simp only
    omega

/-- `union`: never panics, keeps the invariant, merges exactly the classes of `x` and `y`,
    and lowers `number_of_sets` by one iff they were different -/
theorem union_spec {u : UF} (h : Inv u) (x y : Nat) (hx : x < u.parent.size) (hy : y < u.parent.size) :
    ∃ u', union u x y = some u' ∧ Inv u' ∧ u'.parent.size = u.parent.size ∧
      (∀ i j, Cls u'.parent i j ↔
        Cls u.parent i j ∨ (Cls u.parent i x ∧ Cls u.parent y j) ∨ (Cls u.parent i y ∧ Cls u.parent x j)) ∧
      (Cls u.parent x y → u'.numSets = u.numSets) ∧ (¬ Cls u.parent x y → u'.numSets + 1 = u.numSets) := by
  obtain ⟨u1, xs, hf1, hi1, hs1, hr1, hn1, hxs, hiff1⟩ := find_spec h x hx
  obtain ⟨u2, ys, hf2, hi2, hs2, hr2, hn2, hys1, hiff2⟩ := find_spec hi1 y (by rw [hs1]; exact hy)
  have hiff : ∀ j r, RootOf u2.parent j r ↔ RootOf u.parent j r := fun j r => (hiff2 j r).trans (hiff1 j r)
  have hcls : ∀ i j, Cls u2.parent i j ↔ Cls u.parent i j := by
    intro i j
    constructor
    · rintro ⟨r, a, b⟩; exact ⟨r, (hiff _ _).mp a, (hiff _ _).mp b⟩
    · rintro ⟨r, a, b⟩; exact ⟨r, (hiff _ _).mpr a, (hiff _ _).mpr b⟩
  have hys : RootOf u.parent y ys := (hiff1 _ _).mp hys1
  have hxs2 : RootOf u2.parent x xs := (hiff _ _).mpr hxs
  have hys2 : RootOf u2.parent y ys := (hiff _ _).mpr hys
  have hsz2 : u2.parent.size = u.parent.size := by rw [hs2, hs1]
  have hrk2 : u2.rank = u.rank := by rw [hr2, hr1]
  have hns2 : u2.numSets = u.numSets := by rw [hn2, hn1]
  simp only [union, hf1, hf2]
  by_cases he : xs = ys
  · rw [if_pos he]
    subst he
    have hxy : Cls u.parent x y := ⟨xs, hxs, hys⟩
    refine ⟨u2, rfl, hi2, hsz2, ?_, fun _ => hns2, fun hn => absurd hxy hn⟩
    intro i j
    rw [hcls]
    constructor
    · exact Or.inl
    · rintro (h | ⟨h1, h2⟩ | ⟨h1, h2⟩)
      · exact h
      · exact h1.trans (hxy.trans h2)
      · exact h1.trans (hxy.symm.trans h2)
  · rw [if_neg he]
    have hnxy : ¬ Cls u.parent x y := by
      rintro ⟨r, a, b⟩
      exact he ((a.functional hxs).symm.trans (b.functional hys))
    obtain ⟨hxl, hxr⟩ := hxs2.is_root
    obtain ⟨hyl, hyr⟩ := hys2.is_root
    have hpos : 1 ≤ u2.numSets := by
      rw [hi2.nsets]; exact countP_range_pos _ _ xs hxl (by simp [hxr])
    rw [if_neg (by omega)]
    -- the classes after linking, in terms of x and y
    have hlink : ∀ a b, (a = xs ∧ b = ys) ∨ (a = ys ∧ b = xs) → ∀ i j, Cls (st u2.parent a b) i j ↔
        Cls u.parent i j ∨ (Cls u.parent i x ∧ Cls u.parent y j) ∨ (Cls u.parent i y ∧ Cls u.parent x j) := by
      intro a b hab i j
      have e1 : ∀ i, RootOf u2.parent i xs ↔ Cls u.parent i x := fun i =>
        (rootOf_iff_cls hxs2 i).trans (hcls i x)
      have e2 : ∀ i, RootOf u2.parent i ys ↔ Cls u.parent i y := fun i =>
        (rootOf_iff_cls hys2 i).trans (hcls i y)
      rcases hab with ⟨rfl, rfl⟩ | ⟨rfl, rfl⟩
      · rw [link_cls hxl hyl hxr hyr he, hcls, e1, e2, e1, e2]
        constructor
        · rintro (h | ⟨h1, h2⟩ | ⟨h1, h2⟩)
          · exact Or.inl h
          · exact Or.inr (Or.inl ⟨h1, h2.symm⟩)
          · exact Or.inr (Or.inr ⟨h1, h2.symm⟩)
        · rintro (h | ⟨h1, h2⟩ | ⟨h1, h2⟩)
          · exact Or.inl h
          · exact Or.inr (Or.inl ⟨h1, h2.symm⟩)
          · exact Or.inr (Or.inr ⟨h1, h2.symm⟩)
      · rw [link_cls hyl hxl hyr hxr (Ne.symm he), hcls, e1, e2, e1, e2]
        constructor
        · rintro (h | ⟨h1, h2⟩ | ⟨h1, h2⟩)
          · exact Or.inl h
          · exact Or.inr (Or.inr ⟨h1, h2.symm⟩)
          · exact Or.inr (Or.inl ⟨h1, h2.symm⟩)
        · rintro (h | ⟨h1, h2⟩ | ⟨h1, h2⟩)
          · exact Or.inl h
          · exact Or.inr (Or.inr ⟨h1, h2.symm⟩)
          · exact Or.inr (Or.inl ⟨h1, h2.symm⟩)
    have hbd : ∀ i, i < u2.parent.size → gt u2.rank i + u2.numSets ≤ u2.parent.size := hi2.rank_bd
    by_cases hlt : gt u2.rank xs < gt u2.rank ys
    · rw [if_pos hlt]
      refine ⟨_, rfl, ?_, by simp only [size_st]; exact hsz2, hlink xs ys (Or.inl ⟨rfl, rfl⟩),
        fun hc => absurd hc hnxy, fun _ => by simp only; omega⟩
      exact link_inv hi2 hxl hyl hxr hyr he rfl (fun _ => Nat.le_refl _) (fun _ _ => rfl) hlt
        (by have := hbd ys hyl; omega)
    · rw [if_neg hlt]
      by_cases hgt : gt u2.rank xs > gt u2.rank ys
      · rw [if_pos hgt]
        refine ⟨_, rfl, ?_, by simp only [size_st]; exact hsz2, hlink ys xs (Or.inr ⟨rfl, rfl⟩),
          fun hc => absurd hc hnxy, fun _ => by simp only; omega⟩
        exact link_inv hi2 hyl hxl hyr hxr (Ne.symm he) rfl (fun _ => Nat.le_refl _) (fun _ _ => rfl) hgt
          (by have := hbd xs hxl; omega)
      · rw [if_neg hgt]
        have heq : gt u2.rank xs = gt u2.rank ys := by omega
        have hxr' : xs < u2.rank.size := by rw [hi2.sizeR]; exact hxl
        refine ⟨_, rfl, ?_, by simp only [size_st]; exact hsz2, hlink ys xs (Or.inr ⟨rfl, rfl⟩),
          fun hc => absurd hc hnxy, fun _ => by simp only; omega⟩
        refine link_inv hi2 hyl hxl hyr hxr (Ne.symm he) (by rw [size_st]) ?_ ?_ ?_ ?_
        · intro i
          by_cases hix : i = xs
          · subst hix; rw [gt_st_eq _ _ _ hxr']; omega
          · rw [gt_st_ne _ _ _ _ (Ne.symm hix)]; exact Nat.le_refl _
        · intro i hix
          rw [gt_st_ne _ _ _ _ (Ne.symm hix)]
        · rw [gt_st_eq _ _ _ hxr']; omega
        · rw [gt_st_eq _ _ _ hxr']
          have := hbd xs hxl
          omega

/-! ### histories -/

theorem conn_nil (i j : Nat) : Conn [] i j ↔ i = j := by
  constructor
  · intro h
    unfold Conn at h
    induction h with
    | refl => rfl
    | tail _ he _ => simp [sym] at he
  · rintro rfl; exact Conn.refl _ _

/-- the states reachable from `new n` by `find` and `union` on elements `< n`, with the union pairs so far -/
inductive Reachable (n : Nat) : UF → Edges → Prop where
  | new : Reachable n (new n) []
  | find {u : UF} {ps : Edges} {x : Nat} {u' : UF} {r : Nat} :
      Reachable n u ps → x < n → find u x = some (u', r) → Reachable n u' ps
  | union {u : UF} {ps : Edges} {x y : Nat} {u' : UF} :
      Reachable n u ps → x < n → y < n → union u x y = some u' → Reachable n u' (ps ++ [(x, y)])

theorem reachable_refines {n : Nat} {u : UF} {ps : Edges} (h : Reachable n u ps) :
    Inv u ∧ u.parent.size = n ∧ ∀ i j, i < n → j < n → (Cls u.parent i j ↔ Conn ps i j) := by
  induction h with
  | new =>
    refine ⟨new_inv n, by simp [new], ?_⟩
    intro i j hi _
    rw [new_cls, conn_nil]
    exact ⟨fun h => h.1, fun h => ⟨h, hi⟩⟩
  | @find u ps x u' r _ hx hf ih =>
    obtain ⟨hinv, hsz, hcls⟩ := ih
    obtain ⟨u'', r', hf', hinv', hsz', _, _, _, hiff⟩ := find_spec hinv x (by omega)
    rw [hf] at hf'
    cases hf'
    refine ⟨hinv', by omega, ?_⟩
    intro i j hi hj
    rw [← hcls i j hi hj]
    constructor
    · rintro ⟨r, a, b⟩; exact ⟨r, (hiff _ _).mp a, (hiff _ _).mp b⟩
    · rintro ⟨r, a, b⟩; exact ⟨r, (hiff _ _).mpr a, (hiff _ _).mpr b⟩
  | @union u ps x y u' _ hx hy hu ih =>
    obtain ⟨hinv, hsz, hcls⟩ := ih
    obtain ⟨u'', hu', hinv', hsz', hm, _, _⟩ := union_spec hinv x y (by omega) (by omega)
    rw [hu] at hu'
    cases hu'
    refine ⟨hinv', by omega, ?_⟩
    intro i j hi hj
    rw [hm, conn_snoc, hcls i j hi hj, hcls i x hi hx, hcls y j hy hj, hcls i y hi hy, hcls x j hx hj]

end Tbx.UF
