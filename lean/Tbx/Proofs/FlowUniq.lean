import Tbx.Proofs.FlowBuild
/-
Two more structural properties of the residual graph Dinic's constructor builds (second half of
`merge_cap`): (source,target) pairs are unique — `find_edge_unchecked` is a function — and every edge
has its reverse.  Both only depend on `first` / `tgt`, so every later state of the solver has them.
-/
namespace Tbx.Flow
open Tbx

/-- at most one edge per (source,target) pair -/
def Uniq (g : Graph) : Prop :=
  ∀ u e1 e2, InRange g u e1 → InRange g u e2 → gt g.tgt e1 = gt g.tgt e2 → e1 = e2

/-- every edge u → v has a reverse edge v → u -/
def RevClosed (g : Graph) : Prop :=
  ∀ u e, u < g.numNodes → InRange g u e → ∃ e', InRange g (gt g.tgt e) e' ∧ gt g.tgt e' = u

theorem Uniq.withCap {g : Graph} (h : Uniq g) (c : Array Int) : Uniq { g with cap := c } := h
theorem RevClosed.withCap {g : Graph} (h : RevClosed g) (c : Array Int) : RevClosed { g with cap := c } := h

theorem uniq_of_eq {g g' : Graph} (h : Uniq g) (h1 : g'.first = g.first) (h2 : g'.tgt = g.tgt) : Uniq g' := by
  intro u e1 e2 r1 r2 ht
  unfold InRange Graph.beginEdges Graph.deg Graph.endEdges Graph.beginEdges at r1 r2
  rw [h1] at r1 r2; rw [h2] at ht
  exact h u e1 e2 r1 r2 ht

theorem revClosed_of_eq {g g' : Graph} (h : RevClosed g) (h1 : g'.first = g.first) (h2 : g'.tgt = g.tgt) :
    RevClosed g' := by
  intro u e hu r
  unfold InRange Graph.beginEdges Graph.deg Graph.endEdges Graph.beginEdges at r
  unfold Graph.numNodes at hu
  rw [h1] at r hu; rw [h2]
  obtain ⟨e', a, b⟩ := h u e hu r
  refine ⟨e', ?_, b⟩
  unfold InRange Graph.beginEdges Graph.deg Graph.endEdges Graph.beginEdges
  rw [h1]; exact a

/-- with unique pairs, `findEdge` returns THE edge -/
theorem findEdge_eq_of_uniq {g : Graph} (hu : Uniq g) (u v e : Nat) (hun : u < g.numNodes)
    (hr : InRange g u e) (ht : gt g.tgt e = v) : g.findEdge u v = some e := by
  obtain ⟨x, hx⟩ := findEdge_some_of_edge g u v e hun hr ht
  obtain ⟨_, hrx, htx⟩ := findEdge_spec g u v x hx
  rw [hx, hu u x e hrx hr (by rw [htx, ht])]

theorem rowSum_single (g : Graph) (v x : Nat) (k : Nat) : ∀ e,
    (∀ y, e ≤ y → y < e + k → gt g.tgt y = v → y = x) →
    rowSum g v e k = if e ≤ x ∧ x < e + k ∧ gt g.tgt x = v then gt g.cap x else 0 := by
  induction k with
  | zero => intro e _; simp only [rowSum]; rw [if_neg (by omega)]
  | succ k ih =>
    intro e h
    simp only [rowSum]
    rw [ih (e + 1) (fun y h1 h2 h3 => h y (by omega) (by omega) h3)]
    by_cases hv : gt g.tgt e = v
    · have hex : e = x := h e (Nat.le_refl _) (by omega) hv
      subst hex
      rw [if_pos hv, if_neg (by omega), if_pos ⟨Nat.le_refl _, by omega, hv⟩]; omega
    · rw [if_neg hv]
      by_cases hc : e + 1 ≤ x ∧ x < e + 1 + k ∧ gt g.tgt x = v
      · rw [if_pos hc, if_pos ⟨by omega, by omega, hc.2.2⟩]; omega
      · rw [if_neg hc]
        have : ¬ (e ≤ x ∧ x < e + (k + 1) ∧ gt g.tgt x = v) := by
          intro hh
          by_cases hxe : x = e
          · subst hxe; exact hv hh.2.2
          · exact hc ⟨by omega, by omega, hh.2.2⟩
        rw [if_neg this]; omega

/-- with unique pairs, the pair residual is the capacity of the one edge -/
theorem rOf_eq_cap {g : Graph} (hu : Uniq g) (u v e : Nat) (hr : InRange g u e) (ht : gt g.tgt e = v) :
    rOf g u v = gt g.cap e := by
  unfold rOf
  rw [rowSum_single g v e (g.deg u) (g.beginEdges u)
    (fun y h1 h2 h3 => hu u y e ⟨h1, h2⟩ hr (by rw [h3, ht]))]
  rw [if_pos ⟨hr.1, hr.2, ht⟩]

/-! ### sorting by (source,target) -/

def LeK (a b : Edge) : Prop := a.src < b.src ∨ (a.src = b.src ∧ a.tgt ≤ b.tgt)
def LtK (a b : Edge) : Prop := a.src < b.src ∨ (a.src = b.src ∧ a.tgt < b.tgt)

theorem leST_iff (a b : Edge) : leST a b = true ↔ LeK a b := by
  unfold leST LeK
  split
  · rename_i h; simp only [decide_eq_true_eq]; constructor
    · intro h1; exact Or.inr ⟨h, h1⟩
    · rintro (h1 | ⟨_, h1⟩)
      · omega
      · exact h1
  · rename_i h; simp only [decide_eq_true_eq]; constructor
    · intro h1; exact Or.inl (by omega)
    · rintro (h1 | ⟨h1, _⟩)
      · omega
      · exact absurd h1 h

theorem insertSorted_leK (x : Edge) (L : List Edge) (h : L.Pairwise LeK) :
    (insertSorted leST x L).Pairwise LeK := by
  induction L with
  | nil => simp [insertSorted]
  | cons a L ih =>
    simp only [insertSorted]
    rw [List.pairwise_cons] at h
    split
    · rename_i hc
      have hxa := (leST_iff x a).mp hc
      rw [List.pairwise_cons]
      refine ⟨?_, List.pairwise_cons.mpr h⟩
      intro z hz
      rcases List.mem_cons.mp hz with rfl | h1
      · exact hxa
      · have := h.1 z h1
        unfold LeK at *; omega
    · rename_i hc
      have hax : LeK a x := by
        have : ¬ LeK x a := fun hh => hc ((leST_iff x a).mpr hh)
        unfold LeK at *; omega
      rw [List.pairwise_cons]
      refine ⟨?_, ih h.2⟩
      intro z hz
      rcases (mem_insertSorted leST x z L).mp hz with rfl | h1
      · exact hax
      · exact h.1 z h1

theorem sortBy_leK (L : List Edge) : (sortBy leST L).Pairwise LeK := by
  induction L with
  | nil => simp [sortBy]
  | cons a L ih => simp only [sortBy]; exact insertSorted_leK a _ ih

theorem dedupInto_ltK (L : List Edge) : ∀ cur, (∀ y, y ∈ L → LeK cur y) → L.Pairwise LeK →
    (dedupInto cur L).Pairwise LtK ∧ ∀ y, y ∈ dedupInto cur L → LeK cur y := by
  induction L with
  | nil =>
    intro cur _ _
    simp only [dedupInto]
    refine ⟨List.pairwise_singleton _ _, ?_⟩
    intro y hy; rw [List.mem_singleton] at hy; subst hy; unfold LeK; omega
  | cons a L ih =>
    intro cur hle hp
    rw [List.pairwise_cons] at hp
    simp only [dedupInto]
    split
    · rename_i hc
      apply ih { cur with cap := cur.cap + a.cap } _ hp.2
      intro y hy
      have := hle y (List.mem_cons_of_mem _ hy)
      exact this
    · rename_i hc
      obtain ⟨i1, i2⟩ := ih a hp.1 hp.2
      have hca := hle a List.mem_cons_self
      have hlt : LtK cur a := by
        unfold LeK at hca; unfold LtK
        rcases hca with h | ⟨h1, h2⟩
        · exact Or.inl h
        · right; refine ⟨h1, ?_⟩
          rcases Nat.lt_or_ge cur.tgt a.tgt with h3 | h3
          · exact h3
          · exact absurd ⟨h1.symm, by omega⟩ hc
      refine ⟨?_, ?_⟩
      · rw [List.pairwise_cons]
        refine ⟨?_, i1⟩
        intro y hy
        have := i2 y hy
        unfold LeK at this; unfold LtK at hlt ⊢; omega
      · intro y hy
        rcases List.mem_cons.mp hy with rfl | h1
        · unfold LeK; omega
        · have := i2 y h1
          unfold LeK at this ⊢; unfold LtK at hlt; omega

theorem dedupMerge_ltK (L : List Edge) (h : L.Pairwise LeK) : (dedupMerge L).Pairwise LtK := by
  cases L with
  | nil => simp [dedupMerge]
  | cons a L =>
    rw [List.pairwise_cons] at h
    exact (dedupInto_ltK L a h.1 h.2).1

/-! ### CSR of a strictly sorted, reverse-closed list -/

theorem csr_uniq (L : List Edge) (hs : SrcSorted L) (hlt : L.Pairwise LtK) : Uniq (csr L) := by
  intro u e1 e2 r1 r2 ht
  have hnn := csr_numNodes L hs
  have hwf := csr_wf L hs
  by_cases hu : u ≤ maxId L
  · obtain ⟨l1, s1⟩ := (csr_inRange L hs u e1 hu).mp r1
    obtain ⟨l2, s2⟩ := (csr_inRange L hs u e2 hu).mp r2
    have t1 : gt (csr L).tgt e1 = (L.getD e1 default).tgt := gt_map_tgt L e1 l1
    have t2 : gt (csr L).tgt e2 = (L.getD e2 default).tgt := gt_map_tgt L e2 l2
    rw [t1, t2] at ht
    have key : ∀ i j, i < j → j < L.length → (L.getD i default).src = (L.getD j default).src →
        (L.getD i default).tgt = (L.getD j default).tgt → False := by
      intro i j hij hj hs' ht'
      have := (List.pairwise_iff_getElem.mp hlt) i j (by omega) hj hij
      simp only [List.getD_eq_getElem?_getD, List.getElem?_eq_getElem hj,
        List.getElem?_eq_getElem (show i < L.length by omega), Option.getD_some] at hs' ht'
      unfold LtK at this; omega
    rcases Nat.lt_trichotomy e1 e2 with h | h | h
    · exact (key e1 e2 h l2 (by rw [s1, s2]) ht).elim
    · exact h
    · exact (key e2 e1 h l1 (by rw [s1, s2]) ht.symm).elim
  · have := hwf.deg_zero_of_ge u (by omega)
    unfold InRange at r1; omega

theorem csr_revClosed (L : List Edge) (hs : SrcSorted L)
    (hrev : ∀ y, y ∈ L → ∃ y', y' ∈ L ∧ y'.src = y.tgt ∧ y'.tgt = y.src) : RevClosed (csr L) := by
  intro u e hu r
  have hnn := csr_numNodes L hs
  have hu' : u ≤ maxId L := by omega
  obtain ⟨l1, s1⟩ := (csr_inRange L hs u e hu').mp r
  obtain ⟨y', hy', a, b⟩ := hrev _ (getD_mem L e l1)
  obtain ⟨i, hi, hget⟩ := List.mem_iff_getElem.mp hy'
  have hgi : L.getD i default = y' := by
    rw [List.getD_eq_getElem?_getD, List.getElem?_eq_getElem hi]; simp [hget]
  have t1 : gt (csr L).tgt e = (L.getD e default).tgt := gt_map_tgt L e l1
  have hv : (L.getD e default).tgt ≤ maxId L := (le_maxId L _ (getD_mem L e l1)).2
  refine ⟨i, ?_, ?_⟩
  · rw [t1]
    exact (csr_inRange L hs _ i hv).mpr ⟨hi, by rw [hgi, a]⟩
  · have : gt (csr L).tgt i = (L.getD i default).tgt := gt_map_tgt L i hi
    rw [this, hgi, b, s1]

/-- **merge_cap, second half** (Dinic's constructor) -/
theorem residualDinic_uniq_rev (es : List Edge) : Uniq (residualDinic es) ∧ RevClosed (residualDinic es) := by
  have hs : SrcSorted (mergedList leST es) := (mergedList_props leST leST_srcLe es).1
  constructor
  · exact csr_uniq _ hs (dedupMerge_ltK _ (sortBy_leK _))
  · apply csr_revClosed _ hs
    intro y hy
    unfold mergedList at hy ⊢
    cases hL : sortBy leST (extend es) with
    | nil => rw [hL] at hy; simp [dedupMerge] at hy
    | cons a L =>
      rw [hL] at hy
      obtain ⟨d1, d2, _⟩ := dedupInto_mem L a
      obtain ⟨y0, m1, m2, m3⟩ := d1 y hy
      rw [← hL] at m1
      have hin := (mem_sortBy leST y0 _).mp m1
      -- the reversed key is in `extend es`
      have hrev : ∃ z, z ∈ extend es ∧ z.src = y0.tgt ∧ z.tgt = y0.src := by
        rcases (mem_extend es y0).mp hin with h | ⟨e, he, rfl⟩
        · exact ⟨{ src := y0.tgt, tgt := y0.src, cap := 0 }, (mem_extend es _).mpr (Or.inr ⟨y0, h, rfl⟩), rfl, rfl⟩
        · exact ⟨e, (mem_extend es e).mpr (Or.inl he), rfl, rfl⟩
      obtain ⟨z, hz, z1, z2⟩ := hrev
      have hz' : z ∈ a :: L := by rw [← hL]; exact (mem_sortBy leST z _).mpr hz
      obtain ⟨w, w1, w2, w3⟩ := d2 z hz'
      exact ⟨w, w1, by rw [w2, z1, m3], by rw [w3, z2, m2]⟩

end Tbx.Flow
