import Tbx.Proofs.FlowDinicPosA
/-
C01 `dinic_aug_positive`: the stack / unwinding invariant of the Dinic model's `dfs`.

`DP`: every stack entry's parent chain consists of edges of positive residual capacity (in the CURRENT
graph), stack entries are leaves of the parent forest, pairwise distinct, and ordered: the parent of a
lower entry is an ancestor-or-self of the parent of every entry above it.  After an augmentation the stack
is unwound to (one child of) `closest_tail`, the tail of the saturated edge closest to the source
(`augChain_ct`, `ctSpec_char`): the parents of the surviving entries lie on the part of the path between
the source and `closest_tail`, whose edges keep positive capacity.  Hence every augmentation pushes ≥ 1.
-/
namespace Tbx.Flow
open Tbx Tbx.FlowTheory Tbx.FlowSpec

structure DP (n s : Nat) (g : Graph) (ps : Array Nat) (stk : List Nat) : Prop where
  pos  : ∀ y, y ∈ stk → ∀ l, PChain n s ps y l → ∀ ab, ab ∈ windows l → PosW g ab
  leaf : ∀ y, y ∈ stk → ∀ w, w < n → w ≠ y → gt ps w ≠ y
  nd   : stk.Nodup
  ord  : stk.Pairwise fun y y' => ∃ l, PChain n s ps (gt ps y) l ∧ gt ps y' ∈ l
  pm   : ∀ w, w < n → gt ps w ≠ INV → gt ps (gt ps w) ≠ INV

/-- a node of a chain other than its head has a child in the chain -/
theorem pchain_child {n s : Nat} {ps : Array Nat} {u : Nat} {lu : List Nat} (h : PChain n s ps u lu) :
    ∀ y, y ∈ lu → y ≠ u → ∃ x, x ∈ lu ∧ x < n ∧ x ≠ y ∧ gt ps x = y := by
  induction h with
  | base => intro y hy hne; rw [List.mem_singleton] at hy; exact absurd hy hne
  | @step u l h1 h2 h3 h4 h5 ih =>
    intro y hy hne
    rcases List.mem_cons.mp hy with rfl | hy'
    · exact absurd rfl hne
    · by_cases hyp : y = gt ps u
      · exact ⟨u, List.mem_cons_self, h2, fun e => hne e.symm, hyp.symm⟩
      · obtain ⟨x, a, b, c, d⟩ := ih y hy' hyp
        exact ⟨x, List.mem_cons_of_mem _ a, b, c, d⟩

theorem chainMin_pos (g : Graph) (n s : Nat) (ps : Array Nat) (hps : gt ps s = s) (fuel : Nat) :
    ∀ (w : Nat) (l : List Nat) (flow fl : ℤ), PChain n s ps w l → (∀ ab, ab ∈ windows l → PosW g ab) →
    0 < flow → chainMin g ps fuel w flow = some fl → 0 < fl := by
  induction fuel with
  | zero => intro w l flow fl _ _ _ h; simp [chainMin] at h
  | succ fuel ih =>
    intro w l flow fl hc hp h0 h
    simp only [chainMin] at h
    cases hc with
    | base =>
      rw [hps] at h
      simp only [if_true, Option.some.injEq] at h
      omega
    | @step _ l' h1 h2 h3 h4 h5 =>
      obtain ⟨tl, rfl⟩ := pchain_head h4
      have hne : gt ps w ≠ w := fun e => h5 (by rw [e]; exact List.mem_cons_self)
      rw [if_neg hne] at h
      obtain ⟨e', he', hpe'⟩ := hp (w, gt ps w) (by simp [windows])
      simp only at he'
      simp only [he'] at h
      apply ih _ _ _ fl h4 (fun ab hab => hp ab (by simp only [windows, List.mem_cons]; exact Or.inr hab)) _ h
      exact lt_min h0 hpe'

/-- the DFS invariant `DP` survives the push of a newly discovered node -/
theorem dp_push {n : Nat} {c : Fin n → Fin n → ℤ} {s t : Fin n} (hN : n ≤ INV)
    (d : Dinic) (F : ℤ) (hi : DI c s t d F) (hp : DP n s.val d.g d.parents (d.stack.map Prod.fst))
    (u e : Nat) (lu : List Nat) (hcu : PChain n s.val d.parents u lu) (hun : u < n)
    (hposu : ∀ ab, ab ∈ windows lu → PosW d.g ab) (hunot : u ∉ d.stack.map Prod.fst)
    (hpar : ∀ y, y ∈ d.stack.map Prod.fst → gt d.parents y ∈ lu)
    (hre : InRange d.g u e) (hvI : gt d.parents (gt d.g.tgt e) = INV) (hvt : gt d.g.tgt e ≠ t.val)
    (hav : gt d.g.cap e ≠ 0) :
    DP n s.val d.g (st d.parents (gt d.g.tgt e) u) (gt d.g.tgt e :: d.stack.map Prod.fst) ∧
    u ∉ (gt d.g.tgt e :: d.stack.map Prod.fst) ∧
    (∀ y, y ∈ (gt d.g.tgt e :: d.stack.map Prod.fst) → gt (st d.parents (gt d.g.tgt e) u) y ∈ lu) := by
  obtain ⟨_, hcu', hvn, hvlu, hvs⟩ := di_push hN d F hi u e lu hcu hun hre hvI hvt 0
  have hgn := hi.fi.hn
  have hsn : s.val < n := s.isLt
  obtain ⟨tlu, rfl⟩ := pchain_head hcu
  have humark : gt d.parents u ≠ INV := ((pchain_props hsn hi.hs hN hcu).1 u List.mem_cons_self).2
  have huv : u ≠ gt d.g.tgt e := fun e' => humark (e' ▸ hvI)
  have hgv : gt (st d.parents (gt d.g.tgt e) u) (gt d.g.tgt e) = u :=
    gt_st_eq _ _ _ (by rw [hi.psz]; exact hvn)
  have hgne : ∀ x, x ≠ gt d.g.tgt e → gt (st d.parents (gt d.g.tgt e) u) x = gt d.parents x :=
    fun x hx => gt_st_ne _ _ _ _ (fun e' => hx e'.symm)
  -- stack nodes are marked, hence different from v
  have hstk_ne : ∀ y, y ∈ d.stack.map Prod.fst → y ≠ gt d.g.tgt e := by
    intro y hy e'
    obtain ⟨l, hl⟩ := hi.stk y hy
    obtain ⟨tl, rfl⟩ := pchain_head hl
    exact ((pchain_props hsn hi.hs hN hl).1 y List.mem_cons_self).2 (e' ▸ hvI)
  -- chains that avoid v are the same under both parent arrays
  have hto : ∀ y l, PChain n s.val d.parents y l → PChain n s.val (st d.parents (gt d.g.tgt e) u) y l := by
    intro y l hl
    apply pchain_congr hl
    intro x hx
    exact hgne x (fun e' => ((pchain_props hsn hi.hs hN hl).1 x hx).2 (e' ▸ hvI))
  have hvINV : gt d.g.tgt e ≠ INV := by omega
  have hfe : d.g.findEdge u (gt d.g.tgt e) = some e :=
    findEdge_eq_of_uniq hi.uq u _ e (by rw [hgn]; exact hun) hre rfl
  have hcappos : 0 < gt d.g.cap e := by have := hi.fi.nn e; omega
  refine ⟨⟨?_, ?_, ?_, ?_, ?_⟩, ?_, ?_⟩
  · -- pos
    intro y hy l hl ab hab
    rcases List.mem_cons.mp hy with rfl | hy'
    · have hch : PChain n s.val (st d.parents (gt d.g.tgt e) u) (gt d.g.tgt e) (gt d.g.tgt e :: u :: tlu) :=
        PChain.step hvs hvn (by rw [hgv]; exact hun) (by rw [hgv]; exact hcu') hvlu
      rw [pchain_unique hl hch] at hab
      simp only [windows, List.mem_cons] at hab
      rcases hab with rfl | hab
      · exact ⟨e, hfe, hcappos⟩
      · exact hposu ab hab
    · obtain ⟨l0, hl0⟩ := hi.stk y hy'
      rw [pchain_unique hl (hto y l0 hl0)] at hab
      exact hp.pos y hy' l0 hl0 ab hab
  · -- leaf
    intro y hy w hw hwy
    rcases List.mem_cons.mp hy with rfl | hy'
    · rw [hgne w hwy]
      intro hh
      have hwm : gt d.parents w ≠ INV := by rw [hh]; exact hvINV
      exact hp.pm w hw hwm (by rw [hh]; exact hvI)
    · by_cases hwv : w = gt d.g.tgt e
      · rw [hwv, hgv]; intro hh; exact hunot (hh ▸ hy')
      · rw [hgne w hwv]; exact hp.leaf y hy' w hw hwy
  · -- nodup
    exact List.nodup_cons.mpr ⟨fun hm => hstk_ne _ hm rfl, hp.nd⟩
  · -- order
    rw [List.pairwise_cons]
    refine ⟨?_, ?_⟩
    · intro y' hy'
      refine ⟨u :: tlu, by rw [hgv]; exact hcu', ?_⟩
      rw [hgne y' (hstk_ne y' hy')]; exact hpar y' hy'
    · apply List.Pairwise.imp_of_mem _ hp.ord
      intro a b ha hb ⟨l, hl, hm⟩
      refine ⟨l, ?_, ?_⟩
      · rw [hgne a (hstk_ne a ha)]; exact hto _ l hl
      · rw [hgne b (hstk_ne b hb)]; exact hm
  · -- parents of marked nodes are marked
    intro w hw hwm
    by_cases hwv : w = gt d.g.tgt e
    · rw [hwv, hgv, hgne u huv]; exact humark
    · rw [hgne w hwv] at hwm ⊢
      have hne : gt d.parents w ≠ gt d.g.tgt e := fun e' => hp.pm w hw hwm (by rw [e']; exact hvI)
      rw [hgne _ hne]; exact hp.pm w hw hwm
  · intro hm
    rcases List.mem_cons.mp hm with h | h
    · exact huv h
    · exact hunot h
  · intro y hy
    rcases List.mem_cons.mp hy with rfl | hy'
    · rw [hgv]; exact List.mem_cons_self
    · rw [hgne y (hstk_ne y hy')]; exact hpar y hy'

/-- popping the top entry `u`: the rest of the stack keeps `DP`, and `u`'s chain has what the edge loop needs -/
theorem dp_pop {n : Nat} {s : Nat} {g : Graph} {ps : Array Nat} (hps : gt ps s = s) (u : Nat) (rest : List Nat)
    (hp : DP n s g ps (u :: rest)) (lu : List Nat) (hcu : PChain n s ps u lu) :
    DP n s g ps rest ∧ (∀ ab, ab ∈ windows lu → PosW g ab) ∧ u ∉ rest ∧ (∀ y, y ∈ rest → gt ps y ∈ lu) := by
  have hord := List.pairwise_cons.mp hp.ord
  refine ⟨⟨fun y hy => hp.pos y (List.mem_cons_of_mem _ hy), fun y hy => hp.leaf y (List.mem_cons_of_mem _ hy),
    (List.nodup_cons.mp hp.nd).2, hord.2, hp.pm⟩, hp.pos u List.mem_cons_self lu hcu,
    (List.nodup_cons.mp hp.nd).1, ?_⟩
  intro y hy
  obtain ⟨l, hl, hm⟩ := hord.1 y hy
  exact pchain_parent_sub hps hcu hl _ hm

/-- **the unwinding invariant**: after an augmentation through the edge `e : u → t`, the amount pushed
    is positive and the entries that survive `unwind` satisfy `DP` in the new graph -/
theorem dp_target {n : Nat} {c : Fin n → Fin n → ℤ} {s t : Fin n} (hst : s ≠ t) (hN : n ≤ INV)
    (d : Dinic) (F : ℤ) (hi : DI c s t d F) (hp : DP n s.val d.g d.parents (d.stack.map Prod.fst))
    (u e : Nat) (lu : List Nat) (hcu : PChain n s.val d.parents u lu) (hun : u < n)
    (hposu : ∀ ab, ab ∈ windows lu → PosW d.g ab) (hunot : u ∉ d.stack.map Prod.fst)
    (hre : InRange d.g u e) (hte : gt d.g.tgt e = t.val) (hav : gt d.g.cap e ≠ 0) (fl : ℤ)
    (hcm : chainMin d.g (st d.parents t.val u) (d.g.numNodes + 1) u (gt d.g.cap e) = some fl)
    (g' : Graph) (ct : Nat)
    (hau : augChain (st d.parents t.val u) fl (d.g.numNodes + 1) t.val u d.g = some (g', ct)) :
    0 < fl ∧
    DP n s.val g' (st (st d.parents t.val u) t.val INV)
      ((unwind (st d.parents t.val u) ct d.stack).map Prod.fst) := by
  have hsn : s.val < n := s.isLt
  have htn : t.val < n := t.isLt
  have hgn := hi.fi.hn
  obtain ⟨pa, pb, pc⟩ := pchain_props hsn hi.hs hN hcu
  have htlu : t.val ∉ lu := fun hm => (pa _ hm).2 hi.ht
  have hstv : t.val ≠ s.val := fun e => hst (Fin.ext e.symm)
  have hcu1 : PChain n s.val (st d.parents t.val u) u lu :=
    pchain_congr hcu (fun x hx => gt_st_ne _ _ _ _ (fun e => htlu (e ▸ hx)))
  have hps1 : gt (st d.parents t.val u) s.val = s.val := by
    rw [gt_st_ne _ _ _ _ hstv]; exact hi.hs
  have hct : PChain n s.val (st d.parents t.val u) t.val (t.val :: lu) := by
    have hgt : gt (st d.parents t.val u) t.val = u := gt_st_eq _ _ _ (by rw [hi.psz]; exact htn)
    exact PChain.step hstv htn (by rw [hgt]; exact hun) (by rw [hgt]; exact hcu1) htlu
  obtain ⟨hPnd, _, hfl0, hcap, hpush, hfi', hfirst, htgt⟩ :=
    aug_valid hst hN d F hi u e lu hcu hun hre hte fl hcm g' ct hau
  have hcappos : 0 < gt d.g.cap e := by have := hi.fi.nn e; omega
  have hflpos : 0 < fl := chainMin_pos d.g n s.val _ hps1 _ u lu _ fl hcu1 hposu hcappos hcm
  refine ⟨hflpos, ?_⟩
  obtain ⟨_, _, _, p4⟩ := pushPath_spec fl (t.val :: lu) d.g g' hi.fi.wf hpush
  have huq' : Uniq g' := uniq_of_eq hi.uq hfirst htgt
  have hctS : ct = ctSpec (rOf d.g) fl u (t.val :: lu) :=
    augChain_ct n s.val _ hps1 (rOf d.g) fl _ t.val (t.val :: lu) u d.g g' ct hct hPnd hi.fi.wf hi.uq
      (fun _ _ => rfl) hau
  obtain ⟨tlu, rfl⟩ := pchain_head hcu
  -- closest_tail lies on the chain of u and the part of the chain from it to the source is unsaturated
  have hstar : ∃ l1 l2, u :: tlu = l1 ++ ct :: l2 ∧
      ∀ ab, ab ∈ windows (ct :: l2) → rOf d.g ab.2 ab.1 ≠ fl := by
    rcases ctSpec_char (rOf d.g) fl (t.val :: u :: tlu) u with ⟨h1, h2⟩ | ⟨l1, l2, h1, h2, h3⟩
    · rw [← hctS] at h1
      refine ⟨[], tlu, by rw [h1]; rfl, ?_⟩
      intro ab hab
      rw [h1] at hab
      exact h2 ab (by simp only [windows, List.mem_cons]; exact Or.inr hab)
    · rw [← hctS] at h1 h3
      cases l1 with
      | nil => exact absurd rfl h2
      | cons a l1' =>
        simp only [List.cons_append, List.cons.injEq] at h1
        exact ⟨l1', l2, h1.2, h3⟩
  obtain ⟨l1, l2, hsplit, hunsat⟩ := hstar
  have hchct : PChain n s.val d.parents ct (ct :: l2) := pchain_suffix hcu l1 ct l2 hsplit
  -- windows of the chain of closest_tail stay positive
  have hposct : ∀ ab, ab ∈ windows (ct :: l2) → PosW g' ab := by
    intro ab hab
    have habP : ab ∈ windows (t.val :: u :: tlu) := by
      have : ab ∈ windows (u :: tlu) := by rw [hsplit]; exact windows_suffix l1 ct l2 ab hab
      simp only [windows, List.mem_cons]; exact Or.inr this
    obtain ⟨e', he', hle⟩ := hcap ab habP
    have he'' : g'.findEdge ab.2 ab.1 = some e' := by rw [findEdge_of_eq hfirst htgt]; exact he'
    rw [posW_iff huq' ab e' he'', p4]
    obtain ⟨_, hr', ht'⟩ := findEdge_spec d.g _ _ e' he'
    have hro : rOf d.g ab.2 ab.1 = gt d.g.cap e' := rOf_eq_cap hi.uq _ _ e' hr' ht'
    have hchi : chiN (t.val :: u :: tlu) ab.2 ab.1 = -1 := by
      rw [chiN_anti, (chiN_window _ hPnd ab.1 ab.2).1 habP]
    have := hunsat ab hab
    rw [hchi]; omega
  -- parents after the reset are those before the step
  have hgeq : ∀ x, gt (st (st d.parents t.val u) t.val INV) x = gt d.parents x := by
    intro x
    by_cases hx : x = t.val
    · rw [hx, gt_st_eq _ _ _ (by simp [hi.psz]), hi.ht]
    · rw [gt_st_ne _ _ _ _ (fun e => hx e.symm), gt_st_ne _ _ _ _ (fun e => hx e.symm)]
  have hfrom : ∀ y l, PChain n s.val (st (st d.parents t.val u) t.val INV) y l → PChain n s.val d.parents y l :=
    fun y l hl => pchain_congr hl (fun x _ => (hgeq x).symm)
  have hto : ∀ y l, PChain n s.val d.parents y l → PChain n s.val (st (st d.parents t.val u) t.val INV) y l :=
    fun y l hl => pchain_congr hl (fun x _ => hgeq x)
  have hpm' : ∀ w, w < n → gt (st (st d.parents t.val u) t.val INV) w ≠ INV →
      gt (st (st d.parents t.val u) t.val INV) (gt (st (st d.parents t.val u) t.val INV) w) ≠ INV := by
    intro w hw hm; rw [hgeq] at hm; rw [hgeq w, hgeq]; exact hp.pm w hw hm
  rcases unwind_char (st d.parents t.val u) ct d.stack with hnil | ⟨pre, y0, post, hs1, hs2, hs3⟩
  · rw [hnil]
    exact ⟨fun y hy => by simp at hy, fun y hy => by simp at hy, List.nodup_nil, List.Pairwise.nil, hpm'⟩
  · rw [hs3]
    have hstk : d.stack.map Prod.fst = pre.map Prod.fst ++ y0.1 :: post.map Prod.fst := by
      rw [hs1]; simp
    have hsub : (post.map Prod.fst).Sublist (d.stack.map Prod.fst) := by
      rw [hstk]; exact (List.sublist_cons_self _ _).trans (List.sublist_append_right _ _)
    have hmem : ∀ y, y ∈ post.map Prod.fst → y ∈ d.stack.map Prod.fst := fun y hy => hsub.subset hy
    have hy0mem : y0.1 ∈ d.stack.map Prod.fst := by rw [hstk]; simp
    -- the parent of y0 is closest_tail
    have hy0t : y0.1 ≠ t.val := by
      intro e'
      obtain ⟨l, hl⟩ := hi.stk y0.1 hy0mem
      obtain ⟨tl, rfl⟩ := pchain_head hl
      exact ((pchain_props hsn hi.hs hN hl).1 _ List.mem_cons_self).2 (e' ▸ hi.ht)
    have hy0p : gt d.parents y0.1 = ct := by
      rw [← hs2, gt_st_ne _ _ _ _ (fun e' => hy0t e'.symm)]
    have hordY : ∀ y, y ∈ post.map Prod.fst → gt d.parents y ∈ ct :: l2 := by
      intro y hy
      have h1 : (y0.1 :: post.map Prod.fst).Pairwise
          fun y y' => ∃ l, PChain n s.val d.parents (gt d.parents y) l ∧ gt d.parents y' ∈ l := by
        have := hp.ord; rw [hstk] at this
        exact (List.pairwise_append.mp this).2.1
      obtain ⟨l, hl, hm⟩ := (List.pairwise_cons.mp h1).1 y hy
      rw [hy0p] at hl
      rw [pchain_unique hl hchct] at hm; exact hm
    refine ⟨?_, ?_, hp.nd.sublist hsub, ?_, hpm'⟩
    · -- pos
      intro y hy l hl ab hab
      have hl0 := hfrom y l hl
      have hyS := hmem y hy
      cases hl0 with
      | base => simp [windows] at hab
      | @step _ lp h1 h2 h3 h4 h5 =>
        obtain ⟨tp, rfl⟩ := pchain_head h4
        simp only [windows, List.mem_cons] at hab
        rcases hab with rfl | hab
        · -- the edge parent → y is not on the augmenting path
          obtain ⟨e0, he0, hpos0⟩ := hp.pos y hyS _ (PChain.step h1 h2 h3 h4 h5) (y, gt d.parents y)
            (by simp [windows])
          simp only at he0
          have he0' : g'.findEdge (gt d.parents y) y = some e0 := by rw [findEdge_of_eq hfirst htgt]; exact he0
          rw [posW_iff huq' (y, gt d.parents y) e0 he0', p4]
          obtain ⟨_, hr0, ht0⟩ := findEdge_spec d.g _ _ e0 he0
          have hro : rOf d.g (gt d.parents y) y = gt d.g.cap e0 := rOf_eq_cap hi.uq _ _ e0 hr0 ht0
          have hnotw : (y, gt d.parents y) ∉ windows (t.val :: u :: tlu) := by
            intro hw
            have hyP := (mem_windows hw).1
            simp only at hyP
            rcases List.mem_cons.mp hyP with hyt | hylu
            · obtain ⟨l', hl'⟩ := hi.stk y hyS
              obtain ⟨tl', rfl⟩ := pchain_head hl'
              exact ((pchain_props hsn hi.hs hN hl').1 _ List.mem_cons_self).2 (hyt ▸ hi.ht)
            · by_cases hyu : y = u
              · exact hunot (hyu ▸ hyS)
              · obtain ⟨x, _, hxn, hxy, hxp⟩ := pchain_child hcu y hylu hyu
                exact hp.leaf y hyS x hxn hxy hxp
          have hchi : 0 ≤ chiN (t.val :: u :: tlu) (gt d.parents y) y := by
            rw [chiN_anti]
            have := (chiN_window _ hPnd y (gt d.parents y)).2.1
            have h0 : ¬ 0 < chiN (t.val :: u :: tlu) y (gt d.parents y) := fun hh => hnotw (this hh)
            omega
          have : 0 ≤ fl * chiN (t.val :: u :: tlu) (gt d.parents y) y := mul_nonneg hfl0 hchi
          simp only; omega
        · -- the rest of the chain lies between closest_tail and the source
          have hpin := hordY y hy
          obtain ⟨m1, m2, hm⟩ := List.append_of_mem hpin
          have hsuf : PChain n s.val d.parents (gt d.parents y) (gt d.parents y :: m2) :=
            pchain_suffix hchct m1 _ m2 hm
          have heq := pchain_unique h4 hsuf
          rw [heq] at hab
          exact hposct ab (by rw [hm]; exact windows_suffix m1 _ m2 ab hab)
    · -- leaf
      intro y hy w hw hwy
      rw [hgeq]; exact hp.leaf y (hmem y hy) w hw hwy
    · -- order
      apply List.Pairwise.imp_of_mem _ (hp.ord.sublist hsub)
      intro a b _ _ ⟨l, hl, hm⟩
      exact ⟨l, by rw [hgeq]; exact hto _ l hl, by rw [hgeq]; exact hm⟩

/-- every recorded augmentation pushed a positive amount -/
def TrPos (d : Dinic) : Prop := ∀ tr, tr ∈ d.trace → 0 < tr.2.2

theorem dfsEdges_pos {n : Nat} {c : Fin n → Fin n → ℤ} {s t : Fin n} (hst : s ≠ t) (hN : n ≤ INV)
    (u : Nat) (flow : ℤ) (hun : u < n) (k : Nat) :
    ∀ (e : Nat) (d : Dinic) (bf : ℤ) (F : ℤ) (lu : List Nat) (d' : Dinic) (bf' : ℤ),
    DI c s t d F → DP n s.val d.g d.parents (d.stack.map Prod.fst) → TrPos d →
    PChain n s.val d.parents u lu → (∀ ab, ab ∈ windows lu → PosW d.g ab) →
    u ∉ d.stack.map Prod.fst → (∀ y, y ∈ d.stack.map Prod.fst → gt d.parents y ∈ lu) →
    d.g.beginEdges u ≤ e → e + k ≤ d.g.beginEdges u + d.g.deg u →
    dfsEdges u flow e k d bf = some (d', bf') →
    DI c s t d' (F + (bf' - bf)) ∧ DP n s.val d'.g d'.parents (d'.stack.map Prod.fst) ∧ TrPos d' := by
  induction k with
  | zero =>
    intro e d bf F lu d' bf' hi hp htr _ _ _ _ _ _ h
    simp only [dfsEdges, Option.some.injEq, Prod.mk.injEq] at h
    obtain ⟨rfl, rfl⟩ := h
    have : F + (bf - bf) = F := by omega
    rw [this]; exact ⟨hi, hp, htr⟩
  | succ k ih =>
    intro e d bf F lu d' bf' hi hp htr hcu hposu hunot hpar hr1 hr2 h
    have hspec := h
    simp only [dfsEdges] at h
    split at h
    · exact ih (e + 1) d bf F lu d' bf' hi hp htr hcu hposu hunot hpar (by omega) (by omega) h
    · rename_i hunm
      split at h
      · exact ih (e + 1) d bf F lu d' bf' hi hp htr hcu hposu hunot hpar (by omega) (by omega) h
      · split at h
        · exact ih (e + 1) d bf F lu d' bf' hi hp htr hcu hposu hunot hpar (by omega) (by omega) h
        · rename_i hav
          have hre : InRange d.g u e := ⟨hr1, by omega⟩
          have hvI : gt d.parents (gt d.g.tgt e) = INV := by
            cases Nat.decEq (gt d.parents (gt d.g.tgt e)) INV with
            | isTrue h => exact h
            | isFalse h => exact absurd h hunm
          split at h
          · rename_i hvt
            rw [hi.tgt] at hvt
            rw [hvt] at h
            have hdi := (reachTarget_spec hst hN d F hi u e lu hcu hun hre hvt bf d' bf' h).1
            refine ⟨hdi, ?_⟩
            unfold reachTarget at h
            cases hcm : chainMin d.g (st d.parents t.val u) (d.g.numNodes + 1) u (gt d.g.cap e) with
            | none => simp [hcm] at h
            | some fl =>
              simp only [hcm] at h
              cases hau : augChain (st d.parents t.val u) fl (d.g.numNodes + 1) t.val u d.g with
              | none => simp [hau] at h
              | some r =>
                obtain ⟨g', ct⟩ := r
                simp only [hau, Option.some.injEq, Prod.mk.injEq] at h
                obtain ⟨rfl, rfl⟩ := h
                obtain ⟨hflpos, hdp⟩ := dp_target hst hN d F hi hp u e lu hcu hun hposu hunot hre hvt hav
                  fl hcm g' ct hau
                refine ⟨?_, ?_⟩
                · show DP n s.val g' (st (st d.parents t.val u) d.target INV)
                    ((unwind (st d.parents t.val u) ct d.stack).map Prod.fst)
                  rw [hi.tgt]; exact hdp
                · intro tr htr'
                  rcases List.mem_cons.mp htr' with rfl | h'
                  · exact hflpos
                  · exact htr tr h'
          · rename_i hvt
            rw [hi.tgt] at hvt
            obtain ⟨hi2, hcu', _, _, _⟩ := di_push hN d F hi u e lu hcu hun hre hvI hvt (min flow (gt d.g.cap e))
            obtain ⟨hp2, hunot2, hpar2⟩ := dp_push hN d F hi hp u e lu hcu hun hposu hunot hpar hre hvI hvt hav
            exact ih (e + 1) _ bf F lu d' bf' hi2 hp2 htr hcu' hposu hunot2 hpar2
              (show d.g.beginEdges u ≤ e + 1 by omega)
              (show e + 1 + k ≤ d.g.beginEdges u + d.g.deg u by omega) h

theorem dfsLoop_pos {n : Nat} {c : Fin n → Fin n → ℤ} {s t : Fin n} (hst : s ≠ t) (hN : n ≤ INV)
    (fuel : Nat) : ∀ (d : Dinic) (bf F : ℤ) (d' : Dinic) (bf' : ℤ), DI c s t d F →
    DP n s.val d.g d.parents (d.stack.map Prod.fst) → TrPos d →
    dfsLoop fuel d bf = some (d', bf') →
    DI c s t d' (F + (bf' - bf)) ∧ DP n s.val d'.g d'.parents (d'.stack.map Prod.fst) ∧ TrPos d' := by
  induction fuel with
  | zero => intro d bf F d' bf' _ _ _ h; simp [dfsLoop] at h
  | succ fuel ih =>
    intro d bf F d' bf' hi hp htr h
    simp only [dfsLoop] at h
    split at h
    · simp only [Option.some.injEq, Prod.mk.injEq] at h
      obtain ⟨rfl, rfl⟩ := h
      have : F + (bf - bf) = F := by omega
      rw [this]; exact ⟨hi, hp, htr⟩
    · rename_i u flow rest hstack
      obtain ⟨lu, hlu⟩ := hi.stk u (by rw [hstack]; simp)
      have hun : u < n := by
        obtain ⟨tl, rfl⟩ := pchain_head hlu
        exact ((pchain_props s.isLt hi.hs hN hlu).1 u List.mem_cons_self).1
      have hi1 : DI c s t { d with stack := rest } F :=
        ⟨hi.fi, hi.uq, hi.rc, hi.src, hi.tgt, hi.psz, hi.hs, hi.ht,
          fun y hy => hi.stk y (by rw [hstack]; exact List.mem_cons_of_mem _ hy)⟩
      have hp0 : DP n s.val d.g d.parents (u :: rest.map Prod.fst) := by
        have := hp; rw [hstack] at this; simpa using this
      obtain ⟨hp1, hposu, hunot, hpar⟩ := dp_pop hi.hs u (rest.map Prod.fst) hp0 lu hlu
      cases he : dfsEdges u flow (d.g.beginEdges u) (d.g.deg u) { d with stack := rest } bf with
      | none => simp [he] at h
      | some r =>
        obtain ⟨d1, bf1⟩ := r
        simp only [he] at h
        obtain ⟨a, b, c'⟩ := dfsEdges_pos hst hN u flow hun (d.g.deg u) (d.g.beginEdges u) _ bf F lu d1 bf1
          hi1 hp1 htr hlu hposu hunot hpar (Nat.le_refl _) (Nat.le_refl _) he
        obtain ⟨a2, b2, c2⟩ := ih d1 bf1 (F + (bf1 - bf)) d' bf' a b c' h
        have : F + (bf1 - bf) + (bf' - bf1) = F + (bf' - bf) := by omega
        rw [this] at a2
        exact ⟨a2, b2, c2⟩

/-- the state `dfs()` starts its loop in satisfies `DI` and `DP` -/
theorem dfs_init {n : Nat} {c : Fin n → Fin n → ℤ} {s t : Fin n} (hst : s ≠ t) (hN : n ≤ INV)
    (d : Dinic) (F : ℤ) (hi : DL c s t d F) :
    DI c s t { d with dfsCount := d.dfsCount + 1, stack := [(d.source, I32MAX)], parents := st (Array.replicate d.parents.size INV) d.source d.source } F ∧
    DP n s.val d.g (st (Array.replicate d.parents.size INV) d.source d.source) [d.source] := by
  have hstv : t.val ≠ s.val := fun e => hst (Fin.ext e.symm)
  have hsn : s.val < n := s.isLt
  have hrep : ∀ x, x < n → gt (Array.replicate d.parents.size INV) x = INV := by
    intro x hx; unfold gt; simp [Array.getD_eq_getD_getElem?, hi.psz, hx]
  have hgs : gt (st (Array.replicate d.parents.size INV) s.val s.val) s.val = s.val :=
    gt_st_eq _ _ _ (by simp [hi.psz])
  have hgo : ∀ x, x < n → x ≠ s.val → gt (st (Array.replicate d.parents.size INV) s.val s.val) x = INV := by
    intro x hx hxs; rw [gt_st_ne _ _ _ _ (fun e => hxs e.symm)]; exact hrep x hx
  constructor
  · refine ⟨hi.fi, hi.uq, hi.rc, hi.src, hi.tgt, by simp [hi.psz], ?_, ?_, ?_⟩
    · show gt (st (Array.replicate d.parents.size INV) d.source d.source) s.val = s.val
      rw [hi.src]; exact hgs
    · show gt (st (Array.replicate d.parents.size INV) d.source d.source) t.val = INV
      rw [hi.src]; exact hgo _ t.isLt hstv
    · intro y hy
      simp only [List.map_cons, List.map_nil, List.mem_singleton] at hy
      rw [hy, hi.src]; exact ⟨[s.val], PChain.base⟩
  · rw [hi.src]
    refine ⟨?_, ?_, by simp, by simp, ?_⟩
    · intro y hy l hl ab hab
      rw [List.mem_singleton] at hy; subst hy
      rw [pchain_unique hl PChain.base] at hab
      simp [windows] at hab
    · intro y hy w hw hwy
      rw [List.mem_singleton] at hy; subst hy
      rw [hgo w hw hwy]; omega
    · intro w hw hm
      by_cases hws : w = s.val
      · rw [hws, hgs, hgs]; omega
      · exact absurd (hgo w hw hws) hm

theorem dfs_pos {n : Nat} {c : Fin n → Fin n → ℤ} {s t : Fin n} (hst : s ≠ t) (hN : n ≤ INV)
    (d : Dinic) (F : ℤ) (hi : DL c s t d F) (htr : TrPos d) (d' : Dinic) (bf : ℤ)
    (h : d.dfs = some (d', bf)) : TrPos d' := by
  unfold Dinic.dfs at h
  simp only at h
  obtain ⟨hi0, hp0⟩ := dfs_init hst hN d F hi
  exact (dfsLoop_pos hst hN _ _ 0 F d' bf hi0 hp0 htr h).2.2

theorem bfs_trace (d d' : Dinic) (b : Bool) (h : d.bfs = some (d', b)) : d'.trace = d.trace := by
  unfold Dinic.bfs at h
  simp only at h
  split at h
  · cases h
  · simp only [Option.some.injEq, Prod.mk.injEq] at h
    rw [← h.1]

theorem dinicLoop_pos {n : Nat} {c : Fin n → Fin n → ℤ} {s t : Fin n} (hst : s ≠ t) (hN : n + 2 < INV)
    (fuel : Nat) : ∀ (d : Dinic) (flow F : ℤ) (d' : Dinic) (flow' : ℤ), DL c s t d F → TrPos d →
    dinicLoop fuel d flow = some (d', flow') → TrPos d' := by
  induction fuel with
  | zero => intro d flow F d' flow' _ _ h; simp [dinicLoop] at h
  | succ fuel ih =>
    intro d flow F d' flow' hi htr h
    simp only [dinicLoop] at h
    cases hb : d.bfs with
    | none => simp [hb] at h
    | some r =>
      obtain ⟨d1, b⟩ := r
      have hgn := hi.fi.hn
      obtain ⟨b1, b2, b3, b4, b5, _⟩ := bfs_spec d hi.fi.wf hi.uq hi.rc (by rw [hgn]; exact hN)
        (by rw [hi.lsz, hgn]) (by rw [hi.tgt, hgn]; exact t.isLt)
        (by rw [hi.src, hi.tgt]; exact fun e => hst (Fin.ext e)) d1 b hb
      have hi1 : DL c s t d1 F :=
        ⟨b1 ▸ hi.fi, b1 ▸ hi.uq, b1 ▸ hi.rc, b3 ▸ hi.src, b4 ▸ hi.tgt, b2 ▸ hi.psz, by rw [b5, hgn]⟩
      have htr1 : TrPos d1 := by unfold TrPos; rw [bfs_trace d d1 b hb]; exact htr
      cases b with
      | false =>
        simp only [hb, Option.some.injEq, Prod.mk.injEq] at h
        rw [← h.1]; exact htr1
      | true =>
        simp only [hb] at h
        cases hd : d1.dfs with
        | none => simp [hd] at h
        | some r2 =>
          obtain ⟨d2, bf⟩ := r2
          simp only [hd] at h
          obtain ⟨c1, _⟩ := dfs_spec hst (by omega) d1 F hi1 d2 bf hd
          exact ih d2 (flow + bf) (F + bf) d' flow' c1 (dfs_pos hst (by omega) d1 F hi1 htr1 d2 bf hd) h

/-- **dinic_aug_positive**: every augmentation performed by a `run` of the Dinic model pushes ≥ 1 -/
theorem dinic_aug_positive (es : List Edge) (s t : Nat) (hnn : ∀ e, e ∈ es → 0 ≤ e.cap) (hst : s ≠ t)
    (hN : nNodes (es.map toE) + 2 < INV) (d : Dinic) (hd : Dinic.fromEdgeList es s t = some d)
    (fuel : Nat) (d' : Dinic) (h : d.run fuel = some d') : ∀ tr, tr ∈ d'.trace → 0 < tr.2.2 := by
  unfold Dinic.fromEdgeList at hd
  split at hd
  · cases hd
  · simp only [Option.some.injEq] at hd
    subst hd
    have hm := merge_cap_dinic es hnn
    have hnum : (residualDinic es).numNodes = nNodes (es.map toE) := by rw [hm.2.1, maxId_eq_spec]; rfl
    unfold Dinic.run at h
    simp only at h
    split at h
    · cases h
    · rename_i hg
      have hguard : s < nNodes (es.map toE) ∧ t < nNodes (es.map toE) := by
        have : ¬ (s ≥ (residualDinic es).numNodes ∨ t ≥ (residualDinic es).numNodes) := hg
        rw [hnum] at this; omega
      have hfi := init_finv (residualDinic es) es ⟨s, hguard.1⟩ ⟨t, hguard.2⟩ hm
      obtain ⟨huq, hrc⟩ := residualDinic_uniq_rev es
      split at h
      · cases h
      · rename_i d1 flow hloop
        simp only [Option.some.injEq] at h
        subst h
        have hdl : DL (cF (es.map toE) (nNodes (es.map toE))) ⟨s, hguard.1⟩ ⟨t, hguard.2⟩
            { g := residualDinic es, maxFlow := 0, finished := false,
              level := Array.replicate (residualDinic es).numNodes INV,
              parents := Array.replicate (residualDinic es).numNodes 0, stack := [], dfsCount := 0,
              bfsCount := 0, source := s, target := t } 0 :=
          ⟨hfi, huq, hrc, rfl, rfl, by simp [hnum], by simp [hnum]⟩
        exact dinicLoop_pos (fun e => hst (Fin.mk.inj e)) hN fuel _ 0 0 d1 flow hdl
          (fun tr htr => by simp at htr) hloop

end Tbx.Flow
