import Tbx.Model.GraphFiles
import Tbx.Spec.GraphText
import Tbx.Proofs.PlierGlue
import Tbx.Proofs.PlierRender
/-
Character-level rendering of abstract files in CANONICAL spelling (tokens separated by one blank,
numbers as `Nat.toDigits 10`, '-' for negative numbers, bare `c` comment lines) and the proof that the
glue (`mkLineC`: tokenizer + decimal parsers) turns each such text line into a `Line` that the
`*LineOf` relation of Proofs/PlierRender accepts.  Together with the token-level theorems this gives
`parse (text of F) = edges F` down to characters for this spelling.
-/
namespace Tbx.PlierText
open Tbx.Bincode Tbx.GraphFiles Tbx.GraphSpec Tbx.PlierRender

def natC (n : Nat) : List Char := Nat.toDigits 10 n

theorem okChar_of_isDigit (c : Char) (h : c.isDigit = true) : okChar c = true := by
  simp only [Char.isDigit, Bool.and_eq_true, decide_eq_true_eq, UInt32.le_iff_toNat_le, ge_iff_le] at h
  have h1 : 48 ≤ c.toNat := h.1
  have h2 : c.toNat ≤ 57 := h.2
  have e1 : ¬ (c.toNat ≥ 127) := by omega
  have e2 : ¬ (c.toNat < 32) := by omega
  simp [okChar, e1, e2]

theorem all_ok_natC (n : Nat) : (natC n).all okChar = true := by
  simp only [List.all_eq_true]
  intro c hc
  exact okChar_of_isDigit c (Nat.isDigit_of_mem_toDigits (by decide) (by decide) hc)

theorem all_ok_intChars (i : Int) : (intChars i).all okChar = true := by
  unfold intChars
  split
  · simp only [List.all_cons, Bool.and_eq_true]
    exact ⟨by decide, all_ok_natC _⟩
  · exact all_ok_natC _

theorem all_ok_joinBlank (ts : List (List Char)) (h : ∀ t ∈ ts, t.all okChar = true) :
    (joinBlank ts).all okChar = true := by
  induction ts with
  | nil => rfl
  | cons t ts ih =>
    have ht := h t (by simp)
    have ih' := ih (fun u hu => h u (List.mem_cons_of_mem _ hu))
    cases ts with
    | nil => simpa [joinBlank] using ht
    | cons t' ts =>
      simp only [joinBlank, List.all_append, List.all_cons, Bool.and_eq_true]
      exact ⟨ht, by decide, ih'⟩

theorem isToken_natC (n : Nat) : IsToken (natC n) := isToken_toDigits n

theorem isToken_intChars (i : Int) : IsToken (intChars i) := by
  unfold intChars
  split
  · refine ⟨by simp, ?_⟩
    intro c hc
    simp only [List.mem_cons] at hc
    rcases hc with rfl | hc
    · decide
    · exact (isToken_toDigits _).2 c hc
  · exact isToken_toDigits _

theorem mkTok_natC (n : Nat) (h : n < 18446744073709551616) : (mkTok (natC n)).nat? = some n := by
  simp [mkTok, natC, parseUsize_toDigits n h]

theorem mkTok_intChars (i : Int) (h : I32 i) : (mkTok (intChars i)).i32? = some i := by
  simp [mkTok, parseI32_intChars i h]

theorem intChars_ofNat (n : Nat) : intChars (Int.ofNat n) = natC n := by
  unfold intChars natC
  have : ¬ (Int.ofNat n < 0) := by simp
  rw [if_neg this]
  simp

theorem mkLineC_ok (cs : List Char) (h : cs.all okChar = true) : mkLineC cs = some (viewsOf cs) := by
  simp [mkLineC, h]

/-- the views of a line that consists of single-blank separated tokens -/
theorem mkLineC_joinBlank (ts : List (List Char)) (hok : ∀ t ∈ ts, t.all okChar = true)
    (htok : ∀ t ∈ ts, IsToken t) :
    ∃ l, mkLineC (joinBlank ts) = some l ∧ l.toks = ts.map mkTok ∧ l.first = (joinBlank ts).head? ∧
      l.rest2 = (splitWs ((joinBlank ts).drop 2)).map mkTok ∧
      l.tail12 = parseUsize ((joinBlank ts).drop 12) ∧ l.whole = parseUsize (joinBlank ts) ∧
      l.isD = ((joinBlank ts) == ['d']) := by
  refine ⟨viewsOf (joinBlank ts), ?_, ?_, rfl, rfl, rfl, rfl, rfl⟩
  · exact mkLineC_ok _ (all_ok_joinBlank ts hok)
  · simp [viewsOf, splitWs_joinBlank ts htok]

/-! ### DIMACS graph -/

def dimacsText : DimacsItem → List Char
  | .comment => ['c']
  | .problem n m => joinBlank [['p'], ['s', 'p'], natC n, natC m]
  | .arc u v w => joinBlank [['a'], natC u, natC v, natC w]

def DimacsFits : DimacsItem → Prop
  | .comment => True
  | .problem n m => n < 18446744073709551616 ∧ m < 18446744073709551616
  | .arc u v w => u < 18446744073709551616 ∧ v < 18446744073709551616 ∧ w < 18446744073709551616

theorem isToken_lit (t : List Char) (h1 : t ≠ []) (h2 : t.all (fun c => !isWs c) = true) : IsToken t :=
  ⟨h1, fun c hc => by
    have := List.all_eq_true.mp h2 c hc
    simpa using this⟩

theorem dimacsText_line (it : DimacsItem) (hf : DimacsFits it) :
    ∃ l, mkLineC (dimacsText it) = some l ∧ DimacsLineOf it l := by
  cases it with
  | comment =>
    refine ⟨viewsOf ['c'], ?_, ?_⟩
    · exact mkLineC_ok ['c'] (by decide)
    · simp [DimacsLineOf, viewsOf]
  | problem n m =>
    obtain ⟨hn, hm⟩ := hf
    have hok : ∀ t ∈ [['p'], ['s', 'p'], natC n, natC m], t.all okChar = true := by
      intro t ht
      simp only [List.mem_cons, List.not_mem_nil, or_false] at ht
      rcases ht with rfl | rfl | rfl | rfl
      · decide
      · decide
      · exact all_ok_natC n
      · exact all_ok_natC m
    have htok : ∀ t ∈ [['p'], ['s', 'p'], natC n, natC m], IsToken t := by
      intro t ht
      simp only [List.mem_cons, List.not_mem_nil, or_false] at ht
      rcases ht with rfl | rfl | rfl | rfl
      · exact isToken_lit _ (by simp) (by decide)
      · exact isToken_lit _ (by simp) (by decide)
      · exact isToken_natC n
      · exact isToken_natC m
    obtain ⟨l, hl, htoks, hfirst, _⟩ := mkLineC_joinBlank _ hok htok
    refine ⟨l, hl, ?_, ?_⟩
    · rw [hfirst]; simp [joinBlank]
    · exact ⟨_, _, _, _, [], htoks, mkTok_natC n hn⟩
  | arc u v w =>
    obtain ⟨hu, hv, hw⟩ := hf
    have hok : ∀ t ∈ [['a'], natC u, natC v, natC w], t.all okChar = true := by
      intro t ht
      simp only [List.mem_cons, List.not_mem_nil, or_false] at ht
      rcases ht with rfl | rfl | rfl | rfl
      · decide
      · exact all_ok_natC u
      · exact all_ok_natC v
      · exact all_ok_natC w
    have htok : ∀ t ∈ [['a'], natC u, natC v, natC w], IsToken t := by
      intro t ht
      simp only [List.mem_cons, List.not_mem_nil, or_false] at ht
      rcases ht with rfl | rfl | rfl | rfl
      · exact isToken_lit _ (by simp) (by decide)
      · exact isToken_natC u
      · exact isToken_natC v
      · exact isToken_natC w
    obtain ⟨l, hl, _, hfirst, hrest, _⟩ := mkLineC_joinBlank _ hok htok
    have htok3 : ∀ t ∈ [natC u, natC v, natC w], IsToken t :=
      fun t ht => htok t (List.mem_cons_of_mem _ ht)
    have hdrop : (joinBlank [['a'], natC u, natC v, natC w]).drop 2 = joinBlank [natC u, natC v, natC w] := by
      simp [joinBlank]
    refine ⟨l, hl, ?_, ?_⟩
    · rw [hfirst]; simp [joinBlank]
    · refine ⟨mkTok (natC u), mkTok (natC v), mkTok (natC w), ?_, mkTok_natC u hu, mkTok_natC v hv, mkTok_natC w hw⟩
      rw [hrest, hdrop, splitWs_joinBlank _ htok3]
      rfl

/-- a whole file, line by line -/
theorem mkLinesC_map {α : Type} (R : α → Line → Prop) (text : α → List Char) (F : List α)
    (h : ∀ it ∈ F, ∃ l, mkLineC (text it) = some l ∧ R it l) :
    ∃ ls, mkLinesC (F.map text) = some ls ∧ Forall2 R F ls := by
  induction F with
  | nil => exact ⟨[], rfl, trivial⟩
  | cons it F ih =>
    obtain ⟨l, hl, hr⟩ := h it (by simp)
    obtain ⟨ls, hls, hrs⟩ := ih (fun x hx => h x (List.mem_cons_of_mem _ hx))
    exact ⟨l :: ls, by simp [mkLinesC, hl, hls], hr, hrs⟩

theorem dimacs_text (F : List DimacsItem) (hf : ∀ it ∈ F, DimacsFits it) (hwf : DimacsWF F) :
    ∃ ls, mkLinesC (F.map dimacsText) = some ls ∧ dimacsGraph ls = some (dimacsEdges F) := by
  obtain ⟨ls, h1, h2⟩ := mkLinesC_map DimacsLineOf dimacsText F (fun it hit => dimacsText_line it (hf it hit))
  exact ⟨ls, h1, dimacsGraph_render F ls h2 hwf⟩

/-! ### DIMACS coordinates -/

def dimacsCoText : DimacsCoItem → List Char
  | .comment => ['c']
  | .problem n => 'p' :: ' ' :: 'a' :: 'u' :: 'x' :: ' ' :: 's' :: 'p' :: ' ' :: 'c' :: 'o' :: ' ' :: natC n
  | .vertex id lon lat => joinBlank [['v'], natC id, intChars lon, intChars lat]

def DimacsCoFits : DimacsCoItem → Prop
  | .comment => True
  | .problem n => n < 18446744073709551616
  | .vertex id lon lat => id < 18446744073709551616 ∧ I32 lon ∧ I32 lat

theorem dimacsCoText_line (it : DimacsCoItem) (hf : DimacsCoFits it) :
    ∃ l, mkLineC (dimacsCoText it) = some l ∧ DimacsCoLineOf it l := by
  cases it with
  | comment =>
    refine ⟨viewsOf ['c'], ?_, ?_⟩
    · exact mkLineC_ok ['c'] (by decide)
    · simp [DimacsCoLineOf, viewsOf]
  | problem n =>
    have hall : (dimacsCoText (.problem n)).all okChar = true := by
      simp only [dimacsCoText, List.all_cons, Bool.and_eq_true]
      refine ⟨by decide, by decide, by decide, by decide, by decide, by decide, by decide, by decide,
        by decide, by decide, by decide, by decide, all_ok_natC n⟩
    refine ⟨viewsOf (dimacsCoText (.problem n)), ?_, ?_, ?_⟩
    · exact mkLineC_ok _ hall
    · simp [dimacsCoText, viewsOf]
    · simp only [dimacsCoText, viewsOf, List.drop_succ_cons, List.drop_zero]
      exact parseUsize_toDigits n hf
  | vertex id lon lat =>
    obtain ⟨hid, hlon, hlat⟩ := hf
    have hok : ∀ t ∈ [['v'], natC id, intChars lon, intChars lat], t.all okChar = true := by
      intro t ht
      simp only [List.mem_cons, List.not_mem_nil, or_false] at ht
      rcases ht with rfl | rfl | rfl | rfl
      · decide
      · exact all_ok_natC id
      · exact all_ok_intChars lon
      · exact all_ok_intChars lat
    have htok : ∀ t ∈ [['v'], natC id, intChars lon, intChars lat], IsToken t := by
      intro t ht
      simp only [List.mem_cons, List.not_mem_nil, or_false] at ht
      rcases ht with rfl | rfl | rfl | rfl
      · exact isToken_lit _ (by simp) (by decide)
      · exact isToken_natC id
      · exact isToken_intChars lon
      · exact isToken_intChars lat
    obtain ⟨l, hl, _, hfirst, hrest, _⟩ := mkLineC_joinBlank _ hok htok
    have htok3 : ∀ t ∈ [natC id, intChars lon, intChars lat], IsToken t :=
      fun t ht => htok t (List.mem_cons_of_mem _ ht)
    have hdrop : (joinBlank [['v'], natC id, intChars lon, intChars lat]).drop 2 =
        joinBlank [natC id, intChars lon, intChars lat] := by
      simp [joinBlank]
    refine ⟨l, hl, ?_, ?_⟩
    · rw [hfirst]; simp [joinBlank]
    · refine ⟨mkTok (natC id), mkTok (intChars lon), mkTok (intChars lat), [], ?_, mkTok_natC id hid,
        mkTok_intChars lon hlon, mkTok_intChars lat hlat⟩
      rw [hrest, hdrop, splitWs_joinBlank _ htok3]
      rfl

theorem dimacsCo_text (G : List DimacsCoItem) (hf : ∀ it ∈ G, DimacsCoFits it) :
    ∃ ls, mkLinesC (G.map dimacsCoText) = some ls ∧
      GraphFiles.dimacsCoords ls = some (GraphSpec.dimacsCoords G) := by
  obtain ⟨ls, h1, h2⟩ := mkLinesC_map DimacsCoLineOf dimacsCoText G (fun it hit => dimacsCoText_line it (hf it hit))
  exact ⟨ls, h1, dimacsCoords_render G ls h2⟩

/-! ### METIS -/

def metisHeaderText (n m : Nat) : List Char := joinBlank [natC n, natC m]
def metisAdjText (nbrs : List Nat) : List Char := joinBlank (nbrs.map natC)

theorem forall2_natTok (nbrs : List Nat) (h : ∀ t ∈ nbrs, t < 18446744073709551616) :
    Forall2 NatTok nbrs ((nbrs.map natC).map mkTok) := by
  induction nbrs with
  | nil => trivial
  | cons t nbrs ih =>
    exact ⟨mkTok_natC t (h t (by simp)), ih (fun u hu => h u (List.mem_cons_of_mem _ hu))⟩

theorem metisAdjText_line (nbrs : List Nat) (h : ∀ t ∈ nbrs, t < 18446744073709551616) :
    ∃ l, mkLineC (metisAdjText nbrs) = some l ∧ AdjLineOf nbrs l := by
  have hok : ∀ t ∈ nbrs.map natC, t.all okChar = true := by
    intro t ht
    obtain ⟨x, _, rfl⟩ := List.mem_map.mp ht
    exact all_ok_natC x
  have htok : ∀ t ∈ nbrs.map natC, IsToken t := by
    intro t ht
    obtain ⟨x, _, rfl⟩ := List.mem_map.mp ht
    exact isToken_natC x
  obtain ⟨l, hl, htoks, _⟩ := mkLineC_joinBlank _ hok htok
  refine ⟨l, hl, ?_⟩
  unfold AdjLineOf
  rw [htoks]
  exact forall2_natTok nbrs h

theorem metis_text (n m : Nat) (adj : List (List Nat)) (hn : n < 18446744073709551616)
    (hwf : MetisWF n adj) :
    ∃ ls, mkLinesC (metisHeaderText n m :: adj.map metisAdjText) = some ls ∧
      metisGraph ls = some (metisEdges adj) := by
  have hfit : ∀ nbrs ∈ adj, ∀ t ∈ nbrs, t < 18446744073709551616 := by
    intro nbrs hn' t ht
    have := hwf.2 nbrs hn' t ht
    omega
  obtain ⟨ls, h1, h2⟩ := mkLinesC_map AdjLineOf metisAdjText adj
    (fun nbrs hnb => metisAdjText_line nbrs (hfit nbrs hnb))
  have hok : ∀ t ∈ [natC n, natC m], t.all okChar = true := by
    intro t ht
    simp only [List.mem_cons, List.not_mem_nil, or_false] at ht
    rcases ht with rfl | rfl
    · exact all_ok_natC n
    · exact all_ok_natC m
  have htok : ∀ t ∈ [natC n, natC m], IsToken t := by
    intro t ht
    simp only [List.mem_cons, List.not_mem_nil, or_false] at ht
    rcases ht with rfl | rfl
    · exact isToken_natC n
    · exact isToken_natC m
  obtain ⟨l0, hl0, htoks, _⟩ := mkLineC_joinBlank _ hok htok
  refine ⟨l0 :: ls, ?_, ?_⟩
  · simp only [mkLinesC, metisHeaderText, hl0, h1]
  · exact metisGraph_render n adj l0 ls ⟨_, _, htoks, mkTok_natC n hn⟩ h2 hwf

/-! ### DDSG -/

def ddsgArcText (a : DdsgArc) : List Char := joinBlank [natC a.u, natC a.v, natC a.w, natC a.dir]

theorem ddsgArcText_line (a : DdsgArc)
    (hf : a.u < 18446744073709551616 ∧ a.v < 18446744073709551616 ∧ a.w < 18446744073709551616) (hd : a.dir ≤ 3) :
    ∃ l, mkLineC (ddsgArcText a) = some l ∧ DdsgArcOf a l := by
  obtain ⟨hu, hv, hw⟩ := hf
  have hok : ∀ t ∈ [natC a.u, natC a.v, natC a.w, natC a.dir], t.all okChar = true := by
    intro t ht
    simp only [List.mem_cons, List.not_mem_nil, or_false] at ht
    rcases ht with rfl | rfl | rfl | rfl <;> exact all_ok_natC _
  have htok : ∀ t ∈ [natC a.u, natC a.v, natC a.w, natC a.dir], IsToken t := by
    intro t ht
    simp only [List.mem_cons, List.not_mem_nil, or_false] at ht
    rcases ht with rfl | rfl | rfl | rfl <;> exact isToken_natC _
  obtain ⟨l, hl, htoks, _⟩ := mkLineC_joinBlank _ hok htok
  refine ⟨l, hl, mkTok (natC a.u), mkTok (natC a.v), mkTok (natC a.w), mkTok (natC a.dir), htoks,
    mkTok_natC _ hu, mkTok_natC _ hv, mkTok_natC _ hw, ?_⟩
  rw [← intChars_ofNat]
  exact mkTok_intChars _ (by unfold I32; simp only [Int.ofNat_eq_natCast]; omega)

theorem ddsg_text (n m : Nat) (arcs : List DdsgArc)
    (hf : ∀ a ∈ arcs, a.u < 18446744073709551616 ∧ a.v < 18446744073709551616 ∧ a.w < 18446744073709551616)
    (hwf : DdsgWF arcs) :
    ∃ ls, mkLinesC (['d'] :: metisHeaderText n m :: arcs.map ddsgArcText) = some ls ∧
      ddsgGraph ls = some (ddsgEdges arcs) := by
  obtain ⟨ls, h1, h2⟩ := mkLinesC_map DdsgArcOf ddsgArcText arcs
    (fun a ha => ddsgArcText_line a (hf a ha) (hwf a ha))
  have hok : ∀ t ∈ [natC n, natC m], t.all okChar = true := by
    intro t ht
    simp only [List.mem_cons, List.not_mem_nil, or_false] at ht
    rcases ht with rfl | rfl
    · exact all_ok_natC n
    · exact all_ok_natC m
  have htok : ∀ t ∈ [natC n, natC m], IsToken t := by
    intro t ht
    simp only [List.mem_cons, List.not_mem_nil, or_false] at ht
    rcases ht with rfl | rfl
    · exact isToken_natC n
    · exact isToken_natC m
  obtain ⟨l1, hl1, htoks, _⟩ := mkLineC_joinBlank _ hok htok
  have hd : ∃ l0, mkLineC ['d'] = some l0 ∧ l0.isD = true := by
    refine ⟨viewsOf ['d'], ?_, ?_⟩
    · exact mkLineC_ok ['d'] (by decide)
    · rfl
  obtain ⟨l0, hl0, hisd⟩ := hd
  refine ⟨l0 :: l1 :: ls, ?_, ?_⟩
  · simp only [mkLinesC, metisHeaderText, hl0, hl1, h1]
  · exact ddsgGraph_render arcs l0 l1 ls hisd (by rw [htoks]; simp) h2 hwf

end Tbx.PlierText
