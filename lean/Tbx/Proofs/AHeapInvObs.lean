import Tbx.Proofs.AHeapInvDefs
/-
C10: every observer of the model agrees with the reference queue on `abs s`, under `Inv s`.
-/
namespace Tbx.AHeap
open Tbx

theorem abs_length (s : Heap) : (abs s).length = s.nodes.size := by simp [abs]

theorem abs_getElem (s : Heap) (j : Nat) (h : j < (abs s).length) : (abs s)[j] = ent (gt s.nodes j) := by
  have h' : j < s.nodes.size := by rw [abs_length] at h; exact h
  simp [abs, gt_eq_getElem _ _ h']

theorem mem_abs (s : Heap) (e : PQ.Entry) : e ∈ abs s ↔ ∃ i, i < s.nodes.size ∧ e = ent (gt s.nodes i) := by
  rw [List.mem_iff_getElem]
  constructor
  · rintro ⟨i, h, rfl⟩
    exact ⟨i, by rw [abs_length] at h; exact h, abs_getElem s i h⟩
  · rintro ⟨i, h, rfl⟩
    exact ⟨i, by rw [abs_length]; exact h, abs_getElem s i _⟩

/-- lookup in the reference queue = lookup through the id map -/
theorem find_abs (s : Heap) (M : IdMap s.idx s.nodes) (id : Int) :
    PQ.find? (abs s) id = (lookup s.idx id).map (fun i => ent (gt s.nodes i)) := by
  unfold PQ.find?
  cases hl : lookup s.idx id with
  | none =>
    simp only [Option.map_none]
    rw [List.find?_eq_none]
    intro x hx
    obtain ⟨i, i1, rfl⟩ := (mem_abs s x).1 hx
    intro hp
    have : (gt s.nodes i).id = id := by simpa [ent] using hp
    have := (M id i).2 ⟨i1, this⟩
    rw [hl] at this; cases this
  | some i =>
    obtain ⟨i1, i2⟩ := (M id i).1 hl
    simp only [Option.map_some]
    rw [List.find?_eq_some_iff_getElem]
    refine ⟨by simp [ent, i2], i, by rw [abs_length]; exact i1, abs_getElem s i _, ?_⟩
    intro j hj
    rw [abs_getElem s j (by rw [abs_length]; omega)]
    have : ¬ (gt s.nodes j).id = id := by
      intro e
      have := (M id j).2 ⟨by omega, e⟩
      rw [hl] at this
      have := Option.some.inj this
      omega
    simp [ent, this]

theorem weight_eq (s : Heap) (I : Inv s) (id : Int) : weight s id = PQ.weight (abs s) s.wmax id := by
  unfold weight PQ.weight
  rw [find_abs s I.idmap]
  cases lookup s.idx id <;> rfl

theorem contains_eq (s : Heap) (I : Inv s) (id : Int) : contains s id = PQ.contains (abs s) id := by
  unfold contains PQ.contains
  rw [find_abs s I.idmap]
  cases lookup s.idx id with
  | none => rfl
  | some i =>
    simp only [Option.map_some, ent]
    by_cases e : (gt s.nodes i).key = 0 <;> simp [e]

theorem removed_eq (s : Heap) (I : Inv s) (id : Int) : removed s id = PQ.removed (abs s) id := by
  unfold removed PQ.removed
  rw [find_abs s I.idmap]
  cases lookup s.idx id with
  | none => rfl
  | some i =>
    simp only [Option.map_some, ent]
    by_cases e : (gt s.nodes i).key = 0 <;> simp [e]

theorem inserted_eq (s : Heap) (I : Inv s) (id : Int) : inserted s id = PQ.inserted (abs s) id := by
  unfold inserted PQ.inserted
  rw [find_abs s I.idmap]
  cases hl : lookup s.idx id with
  | none => rfl
  | some i =>
    obtain ⟨_, i2⟩ := (I.idmap id i).1 hl
    simp [i2]

theorem data_eq (s : Heap) (I : Inv s) (id : Int) : data? s id = PQ.data? (abs s) id := by
  unfold data? PQ.data?
  rw [find_abs s I.idmap]
  cases lookup s.idx id <;> rfl

theorem insertedLen_eq (s : Heap) : insertedLen s = PQ.insertedLen (abs s) := by
  simp [insertedLen, PQ.insertedLen, abs]

/-! ### len: the heap slots 1.. are in bijection with the live nodes -/

theorem len_eq (s : Heap) (I : Inv s) : len s = PQ.len (abs s) := by
  have hp := I.size_pos
  -- the slots' node indices, and the live node indices
  let L := (List.range' 1 (s.heap.size - 1)).map (fun k => (gt s.heap k).index)
  let R := (List.range s.nodes.size).filter (fun i => (gt s.nodes i).key != 0)
  have hL : L.Nodup := by
    show List.Pairwise _ _
    rw [List.pairwise_map]
    refine List.Pairwise.imp_of_mem ?_ (List.nodup_range' (s := 1) (n := s.heap.size - 1))
    intro a b ha hb hab
    rw [List.mem_range'_1] at ha hb
    intro e
    have ka := (I.back a ha.1 (by omega)).2.1
    have kb := (I.back b hb.1 (by omega)).2.1
    rw [e] at ka; omega
  have hR : R.Nodup := List.Pairwise.filter _ List.nodup_range
  have hperm : L.Perm R := by
    rw [List.perm_ext_iff_of_nodup hL hR]
    intro a
    simp only [L, R, List.mem_map, List.mem_range'_1, List.mem_filter, List.mem_range, bne_iff_ne]
    constructor
    · rintro ⟨k, ⟨k1, k2⟩, rfl⟩
      obtain ⟨c1, c2, _⟩ := I.back k k1 (by omega)
      exact ⟨c1, by omega⟩
    · rintro ⟨a1, a2⟩
      obtain ⟨c1, c2⟩ := I.fwd a a1 a2
      exact ⟨_, ⟨by omega, by omega⟩, c2⟩
  have h1 : L.length = s.heap.size - 1 := by simp [L]
  have h2 : PQ.len (abs s) = R.length := by
    unfold PQ.len abs
    rw [toList_eq_map_range, List.map_map, List.filter_map, List.length_map]
    congr 1
    apply List.filter_congr
    intro i _
    simp only [Function.comp, ent]
    by_cases e : (gt s.nodes i).key = 0 <;> simp [e]
  unfold len
  rw [h2, ← hperm.length_eq, h1]

theorem isEmpty_eq (s : Heap) (I : Inv s) : isEmpty s = (PQ.len (abs s) == 0) := by
  unfold isEmpty; rw [len_eq s I]

/-! ### min -/

theorem root_min (h : Array Elem) (ho : Ord h) (k : Nat) (h1 : 1 ≤ k) (h2 : k < h.size) :
    (gt h 1).weight ≤ (gt h k).weight := by
  induction k using Nat.strongRecOn with
  | _ k ih =>
    by_cases e : k = 1
    · subst e; exact Int.le_refl _
    · have a := ho k (by omega) h2
      have b := ih (k / 2) (by omega) (by omega) (by omega)
      omega

theorem root_isMin (s : Heap) (I : Inv s) (h : 1 < s.heap.size) :
    PQ.IsMin (abs s) (gt s.nodes (gt s.heap 1).index).id := by
  obtain ⟨x1, x2, x3⟩ := I.back 1 (by omega) h
  refine ⟨ent (gt s.nodes (gt s.heap 1).index), (mem_abs s _).2 ⟨_, x1, rfl⟩, rfl, ?_, ?_⟩
  · simp [ent, x2]
  · intro e' he' hl
    obtain ⟨j, j1, rfl⟩ := (mem_abs s e').1 he'
    have hk : (gt s.nodes j).key ≠ 0 := by simpa [ent] using hl
    obtain ⟨c1, c2⟩ := I.fwd j j1 hk
    obtain ⟨d1, d2, d3⟩ := I.back _ (by omega) c1
    rw [c2] at d3
    show (gt s.nodes (gt s.heap 1).index).weight ≤ (gt s.nodes j).weight
    rw [x3, d3]
    exact root_min s.heap I.ord _ (by omega) c1

theorem min_is_minimum (s : Heap) (I : Inv s) (id : Int) (h : min? s = some id) : PQ.IsMin (abs s) id := by
  unfold min? at h
  split at h
  · cases h
  · rename_i hs
    cases h
    exact root_isMin s I (by omega)

theorem min_none_iff (s : Heap) (I : Inv s) : min? s = none ↔ PQ.len (abs s) = 0 := by
  rw [← len_eq s I]
  unfold min? len
  split
  · rename_i h; simp; omega
  · rename_i h; simp; omega

end Tbx.AHeap
