import Tbx.Proofs.C16Gabow
/-
Path-based SCC (`Model/Gabow.lean`): on a well-formed graph `run` never reaches a panic branch
and the fuel passed to the DFS loop suffices.

Extra invariants on top of `GS`:
  * the node at position i of stack `S` has `scc = i` (so `S` has no duplicates)
  * `bounds` is strictly increasing and below the height of `S`
  * (components emitted) + (height of S) ≤ visited nodes  — so `component -= 1` cannot underflow
  * the nodes of the pending `ProcessNeighbors/Finalize` records are on `S`, deeper records lower
Potential of the DFS loop: remaining edge slots + 3·unvisited + 2·#Process + 1·#Finalize.
Core Lean only.
-/
namespace Tbx.Gabow
open Tbx Tbx.Csr

structure GF (n : Nat) (s : State) : Prop where
  base : GS n s
  pos : ∀ i, i < s.stack.size → gt s.scc (gt s.stack i) = i
  bnd_lt : ∀ j, j < s.bounds.size → gt s.bounds j < s.stack.size
  bnd_mono : ∀ j j', j < j' → j' < s.bounds.size → gt s.bounds j < gt s.bounds j'
  comp_cnt : (n - s.component) + s.stack.size ≤ visited s.scc n

def nodeOf : Dfs → Option Nat
  | .visit _ => none
  | .process v => some v
  | .finalize v => some v

/-- `v` sits on stack `S` at the position recorded in `scc[v]` -/
def OnStack (s : State) (v : Nat) : Prop := gt s.scc v < s.stack.size ∧ gt s.stack (gt s.scc v) = v

/-- pending records belong to nodes on `S`; records further down belong to nodes lower on `S` -/
def WP (s : State) : List Dfs → Prop
  | [] => True
  | d :: rest =>
    (∀ v, nodeOf d = some v → OnStack s v ∧ ∀ d', d' ∈ rest → ∀ u, nodeOf d' = some u → gt s.scc u < gt s.scc v) ∧
    WP s rest

def cost : Dfs → Nat
  | .visit _ => 0
  | .process _ => 2
  | .finalize _ => 1

def workCost (work : List Dfs) : Nat := (work.map cost).sum

/-- edge slots not yet looked at -/
def remE (g : Graph) (ei : Array Nat) : Nat := sumTo (fun v => outDegree g v - gt ei v) (numNodes g)

def phi (g : Graph) (s : State) (ei : Array Nat) (work : List Dfs) : Nat :=
  remE g ei + 3 * (numNodes g - visited s.scc (numNodes g)) + workCost work

theorem WP_onStack {s : State} : ∀ (work : List Dfs), WP s work → ∀ d, d ∈ work → ∀ v, nodeOf d = some v → OnStack s v := by
  intro work
  induction work with
  | nil => intro _ d hd; cases hd
  | cons x rest ih =>
    intro hw d hd v hv
    rcases List.mem_cons.mp hd with rfl | hd
    · exact (hw.1 v hv).1
    · exact ih hw.2 d hd v hv

theorem WP_tail {s : State} {d : Dfs} {rest : List Dfs} (h : WP s (d :: rest)) : WP s rest := h.2

theorem WP_mono {s s' : State} :
    ∀ (work : List Dfs), (∀ d, d ∈ work → ∀ v, nodeOf d = some v → OnStack s v → OnStack s' v ∧ gt s'.scc v = gt s.scc v) →
      WP s work → WP s' work := by
  intro work
  induction work with
  | nil => intro _ _; trivial
  | cons d rest ih =>
    intro h hw
    have hall := WP_onStack _ hw
    obtain ⟨h1, h2⟩ := hw
    refine ⟨?_, ih (fun d' hd' => h d' (List.mem_cons_of_mem _ hd')) h2⟩
    intro v hv
    obtain ⟨a, b⟩ := h1 v hv
    obtain ⟨c1, c2⟩ := h d List.mem_cons_self v hv a
    refine ⟨c1, ?_⟩
    intro d' hd' u hu
    have hu' := hall d' (List.mem_cons_of_mem _ hd') u hu
    rw [c2, (h d' (List.mem_cons_of_mem _ hd') u hu hu').2]
    exact b d' hd' u hu

/-- the pop loop of `Finalize(v)` when `v` is on the stack: never panics, cuts the stack back to `v`'s position -/
theorem popComp_total (n : Nat) (v p : Nat) :
    ∀ (f : Nat) (s : State), s.scc.size = n → (∀ i, i < s.stack.size → gt s.stack i < n) →
      (∀ i, i < s.stack.size → gt s.scc (gt s.stack i) = i) → p < s.stack.size → gt s.stack p = v →
      s.stack.size - p ≤ f →
      ∃ s', popComp v f s = some s' ∧ s'.stack.size = p ∧ (∀ i, i < p → gt s'.stack i = gt s.stack i) ∧
        s'.scc.size = n ∧ s'.bounds = s.bounds ∧ s'.component = s.component ∧
        (∀ u, (∃ i, p ≤ i ∧ i < s.stack.size ∧ gt s.stack i = u) → gt s'.scc u = s.component) ∧
        (∀ u, ¬ (∃ i, p ≤ i ∧ i < s.stack.size ∧ gt s.stack i = u) → gt s'.scc u = gt s.scc u) := by
  intro f
  induction f with
  | zero => intro s _ _ _ hp _ hf; omega
  | succ f ih =>
    intro s hsz hlt hpos hp hv hf
    simp only [popComp]
    rw [if_neg (by omega)]
    have hu := hlt (s.stack.size - 1) (by omega)
    rw [if_neg (by omega)]
    by_cases he : gt s.stack (s.stack.size - 1) = v
    · rw [if_pos he]
      have hpe : p = s.stack.size - 1 := by
        have h1 := hpos p hp
        have h2 := hpos (s.stack.size - 1) (by omega)
        rw [hv] at h1; rw [he] at h2
        omega
      refine ⟨_, rfl, by simp only [Array.size_pop]; omega, ?_, by simp only [size_st]; exact hsz, rfl, rfl, ?_, ?_⟩
      · intro i hi; exact gt_pop_lt _ _ (by omega)
      · rintro u ⟨i, hi1, hi2, hi3⟩
        have : i = s.stack.size - 1 := by omega
        subst this
        simp only
        rw [← hi3, gt_st_eq _ _ _ (by omega)]
      · intro u hnu
        simp only
        have : u ≠ gt s.stack (s.stack.size - 1) := by
          intro hh
          exact hnu ⟨s.stack.size - 1, by omega, by omega, hh.symm⟩
        rw [gt_st_ne _ _ _ _ (Ne.symm this)]
    · rw [if_neg he]
      have hpl : p < s.stack.size - 1 := by
        apply Decidable.byContradiction
        intro hh
        have : p = s.stack.size - 1 := by omega
        rw [this] at hv
        exact he hv
      -- distinct positions hold distinct nodes
      have hdist : ∀ i, i < s.stack.size - 1 → gt s.stack i ≠ gt s.stack (s.stack.size - 1) := by
        intro i hi hh
        have h1 := hpos i (by omega)
        have h2 := hpos (s.stack.size - 1) (by omega)
        rw [hh] at h1
        omega
      obtain ⟨s', h1, h2, h3, h4, h5, h6, h7, h8⟩ := ih
        { s with stack := s.stack.pop, scc := st s.scc (gt s.stack (s.stack.size - 1)) s.component }
        (by simp only [size_st]; exact hsz)
        (by intro i hi; simp only [Array.size_pop] at hi; simp only; rw [gt_pop_lt _ _ hi]; exact hlt i (by omega))
        (by
          intro i hi
          simp only [Array.size_pop] at hi
          simp only
          rw [gt_pop_lt _ _ hi, gt_st_ne _ _ _ _ (Ne.symm (hdist i hi))]
          exact hpos i (by omega))
        (by simp only [Array.size_pop]; exact hpl)
        (by simp only; rw [gt_pop_lt _ _ hpl]; exact hv)
        (by simp only [Array.size_pop]; omega)
      simp only [Array.size_pop] at h7 h8
      refine ⟨s', h1, h2, ?_, h4, h5, h6, ?_, ?_⟩
      · intro i hi
        rw [h3 i hi]
        exact gt_pop_lt _ _ (by omega)
      · rintro u ⟨i, hi1, hi2, hi3⟩
        by_cases hil : i = s.stack.size - 1
        · subst hil
          by_cases hpop : ∃ j, p ≤ j ∧ j < s.stack.size - 1 ∧ gt s.stack.pop j = u
          · exact h7 u hpop
          · rw [h8 u hpop]
            rw [← hi3, gt_st_eq _ _ _ (by omega)]
        · exact h7 u ⟨i, hi1, by omega, by rw [gt_pop_lt _ _ (by omega)]; exact hi3⟩
      · intro u hnu
        have h9 : ¬ ∃ j, p ≤ j ∧ j < s.stack.size - 1 ∧ gt s.stack.pop j = u := by
          rintro ⟨j, hj1, hj2, hj3⟩
          rw [gt_pop_lt _ _ hj2] at hj3
          exact hnu ⟨j, hj1, by omega, hj3⟩
        rw [h8 u h9]
        have : u ≠ gt s.stack (s.stack.size - 1) := by
          intro hh
          exact hnu ⟨s.stack.size - 1, by omega, by omega, hh.symm⟩
        rw [gt_st_ne _ _ _ _ (Ne.symm this)]

/-- `contract` only pops: the result is a prefix of `bounds` -/
theorem contract_prefix (x : Nat) : ∀ (f : Nat) (b : Array Nat),
    (contract x f b).size ≤ b.size ∧ ∀ j, j < (contract x f b).size → gt (contract x f b) j = gt b j := by
  intro f
  induction f with
  | zero => intro b; exact ⟨Nat.le_refl _, fun _ _ => rfl⟩
  | succ f ih =>
    intro b
    simp only [contract]
    split
    · exact ⟨Nat.le_refl _, fun _ _ => rfl⟩
    · split
      · obtain ⟨h1, h2⟩ := ih b.pop
        rw [Array.size_pop] at h1
        refine ⟨by omega, fun j hj => ?_⟩
        rw [h2 j hj]
        exact gt_pop_lt _ _ (by omega)
      · exact ⟨Nat.le_refl _, fun _ _ => rfl⟩

theorem remE_step (g : Graph) (ei : Array Nat) (v : Nat) (hv : v < numNodes g) (hvs : v < ei.size)
    (hlt : gt ei v < outDegree g v) : remE g (st ei v (gt ei v + 1)) + 1 = remE g ei := by
  have h := sumTo_update (fun u => outDegree g u - gt ei u) (fun u => outDegree g u - gt (st ei v (gt ei v + 1)) u) v
    (by intro i hi; simp only [gt_st_ne _ _ _ _ (Ne.symm hi)]) (numNodes g) hv
  have e1 : outDegree g v - gt (st ei v (gt ei v + 1)) v = outDegree g v - (gt ei v + 1) := by
    rw [gt_st_eq _ _ _ hvs]
  rw [e1] at h
  simp only [remE]
  omega

/-- the state after `Visit(v)` -/
def pushState (s : State) (v : Nat) : State :=
  { s with stack := s.stack.push v, scc := st s.scc v s.stack.size, bounds := s.bounds.push s.stack.size }

theorem pushState_scc (s : State) (v : Nat) : (pushState s v).scc = st s.scc v s.stack.size := rfl
theorem pushState_stack (s : State) (v : Nat) : (pushState s v).stack = s.stack.push v := rfl
theorem pushState_bounds (s : State) (v : Nat) : (pushState s v).bounds = s.bounds.push s.stack.size := rfl
theorem pushState_component (s : State) (v : Nat) : (pushState s v).component = s.component := rfl

theorem step_total (g : Graph) (hwf : WF g) (hn : numNodes g < maxU) (s : State) (ei : Array Nat)
    (rest : List Dfs) (top : Dfs) (hf : GF (numNodes g) s) (hw : WorkOK s.scc (top :: rest)) (hp : WP s (top :: rest))
    (hei : ei.size = numNodes g) (htop : ∀ w, top = .visit w → w < numNodes g) :
    ∃ s' ei' work', step g s ei rest top = some (s', ei', work') ∧ GF (numNodes g) s' ∧ WorkOK s'.scc work' ∧
      WP s' work' ∧ ei'.size = numNodes g ∧ (∀ w rest', work' = .visit w :: rest' → w < numNodes g) ∧
      phi g s' ei' work' + 1 ≤ phi g s ei (top :: rest) := by
  have hb := hf.base
  have hVle := visited_le s.scc (numNodes g)
  -- whatever `step` returns keeps GS and WorkOK (C16Gabow.step_inv)
  have hinv : ∀ s' ei' work', step g s ei rest top = some (s', ei', work') →
      GS (numNodes g) s' ∧ WorkOK s'.scc work' ∧ (∀ u, gt s.scc u ≠ maxU → gt s'.scc u ≠ maxU) :=
    fun s' ei' work' h => by
      obtain ⟨a, b, c, _⟩ := step_inv g _ hn s ei rest top s' ei' work' hb hw h
      exact ⟨a, b, c⟩
  cases top with
  | visit v =>
    have hvn := htop v rfl
    obtain ⟨hm, _⟩ := hw
    have hrest : WP s rest := WP_tail hp
    have hstep : step g s ei rest (.visit v) = some
        (pushState s v, ei, .process v :: rest) := by
      simp only [step, pushState, Array.size_push, Nat.add_sub_cancel]
      rw [if_neg (by rw [hb.size]; omega)]
    obtain ⟨hgs, hwo, _⟩ := hinv _ _ _ hstep
    refine ⟨_, _, _, hstep, ?_, hwo, ?_, hei, (fun w rest' h => by cases h), ?_⟩
    · -- GF
      have hV := visited_st s.scc (numNodes g) v s.stack.size hvn hb.size hm (by have := hb.cnt; omega)
      have hne : ∀ i, i < s.stack.size → gt s.stack i ≠ v := fun i hi he => (hb.stk i hi).2 (he ▸ hm)
      constructor
      · exact hgs
      · intro i hi
        rw [pushState_stack, Array.size_push] at hi
        rw [pushState_stack, pushState_scc]
        by_cases hil : i < s.stack.size
        · rw [gt_push_lt _ _ _ hil, gt_st_ne _ _ _ _ (Ne.symm (hne i hil))]; exact hf.pos i hil
        · have : i = s.stack.size := by omega
          subst this
          rw [gt_push_eq, gt_st_eq _ _ _ (by rw [hb.size]; exact hvn)]
      · intro j hj
        rw [pushState_bounds, Array.size_push] at hj
        rw [pushState_bounds, pushState_stack, Array.size_push]
        by_cases hjl : j < s.bounds.size
        · rw [gt_push_lt _ _ _ hjl]; have := hf.bnd_lt j hjl; omega
        · have : j = s.bounds.size := by omega
          subst this; rw [gt_push_eq]; omega
      · intro j j' hjj hj'
        rw [pushState_bounds, Array.size_push] at hj'
        rw [pushState_bounds]
        by_cases hjl : j' < s.bounds.size
        · rw [gt_push_lt _ _ _ hjl, gt_push_lt _ _ _ (by omega)]; exact hf.bnd_mono j j' hjj hjl
        · have : j' = s.bounds.size := by omega
          subst this
          rw [gt_push_eq, gt_push_lt _ _ _ hjj]; exact hf.bnd_lt j hjj
      · rw [pushState_stack, pushState_scc, pushState_component, Array.size_push]
        have := hf.comp_cnt
        omega
    · -- WP
      have hon : ∀ u, OnStack s u → OnStack (pushState s v) u ∧
          gt (pushState s v).scc u = gt s.scc u := by
        intro u hu
        have huv : u ≠ v := by
          intro he; subst he
          have := hu.1; rw [hm] at this
          have := hb.cnt; omega
        have e : gt (pushState s v).scc u = gt s.scc u := gt_st_ne _ _ _ _ (Ne.symm huv)
        refine ⟨⟨?_, ?_⟩, e⟩
        · rw [e, pushState_stack, Array.size_push]; have := hu.1; omega
        · rw [e, pushState_stack, gt_push_lt _ _ _ hu.1]; exact hu.2
      refine ⟨?_, WP_mono rest (fun d _ u _ hu => hon u hu) hrest⟩
      intro v' hv'
      simp only [nodeOf, Option.some.injEq] at hv'
      subst hv'
      have hsv : gt (pushState s v).scc v = s.stack.size := by
        rw [pushState_scc, gt_st_eq _ _ _ (by rw [hb.size]; exact hvn)]
      refine ⟨⟨?_, ?_⟩, ?_⟩
      · rw [hsv, pushState_stack, Array.size_push]; omega
      · rw [hsv, pushState_stack, gt_push_eq]
      · intro d' hd' u hu
        have huo := WP_onStack rest hrest d' hd' u hu
        rw [(hon u huo).2, hsv]
        exact huo.1
    · -- the measure
      have hV := visited_st s.scc (numNodes g) v s.stack.size hvn hb.size hm (by have := hb.cnt; omega)
      have := visited_le (st s.scc v s.stack.size) (numNodes g)
      simp only [phi, workCost, List.map_cons, List.sum_cons, cost, pushState_scc]
      omega
  | process v =>
    obtain ⟨hon, _⟩ := hp.1 v rfl
    have hvn : v < numNodes g := by have := (hb.stk _ hon.1).1; rw [hon.2] at this; exact this
    simp only [step]
    rw [if_neg (by omega)]
    by_cases hlt : gt ei v < endEdges g v - beginEdges g v
    · rw [if_pos hlt]
      have hw' : target g (beginEdges g v + gt ei v) < numNodes g := hwf.target_lt v _ hvn (by omega)
      rw [if_neg (by rw [hb.size]; omega)]
      have hrem := remE_step g ei v hvn (by omega) hlt
      by_cases hm : gt s.scc (target g (beginEdges g v + gt ei v)) = maxU
      · rw [if_pos hm]
        refine ⟨_, _, _, rfl, hf, ⟨hm, ?_⟩, ⟨(fun _ h => by cases h), hp⟩, by rw [size_st]; exact hei,
          (fun w rest' h => by cases h; exact hw'), ?_⟩
        · intro d hd w
          rcases List.mem_cons.mp hd with rfl | hd
          · intro h; cases h
          · exact hw d hd w
        · simp only [phi, workCost, List.map_cons, List.sum_cons, cost]
          omega
      · rw [if_neg hm]
        obtain ⟨c1, c2⟩ := contract_prefix (gt s.scc (target g (beginEdges g v + gt ei v))) s.bounds.size s.bounds
        refine ⟨_, _, _, rfl, ⟨⟨hb.size, hb.range, hb.comp, hb.stk, hb.cnt⟩, hf.pos, ?_, ?_, hf.comp_cnt⟩, hw,
          WP_mono (s := s) _ (fun _ _ _ _ hu => ⟨hu, rfl⟩) hp, by rw [size_st]; exact hei, (fun w rest' h => by cases h), ?_⟩
        · intro j hj
          simp only at hj ⊢
          rw [c2 j hj]; exact hf.bnd_lt j (by omega)
        · intro j j' hjj hj'
          simp only at hj' ⊢
          rw [c2 j (by omega), c2 j' hj']; exact hf.bnd_mono j j' hjj (by omega)
        · simp only [phi, workCost, List.map_cons, List.sum_cons, cost]
          omega
    · rw [if_neg hlt]
      refine ⟨_, _, _, rfl, hf, hw, ⟨fun u hu => ?_, hp.2⟩, hei, (fun w rest' h => by cases h), ?_⟩
      · simp only [nodeOf, Option.some.injEq] at hu
        subst hu
        exact hp.1 _ rfl
      · simp only [phi, workCost, List.map_cons, List.sum_cons, cost]
        omega
  | finalize v =>
    obtain ⟨hon, hbelow⟩ := hp.1 v rfl
    have hrest : WP s rest := hp.2
    have hvn : v < numNodes g := by have := (hb.stk _ hon.1).1; rw [hon.2] at this; exact this
    have hnv : ∀ scc, WorkOK scc rest := by
      intro scc
      have hnv : NoVisit rest := hw
      cases rest with
      | nil => trivial
      | cons d ds =>
        have hd := hnv d List.mem_cons_self
        have hds : NoVisit ds := fun x hx => hnv x (List.mem_cons_of_mem _ hx)
        cases d with
        | visit w => exact absurd rfl (hd w)
        | process w => exact hds
        | finalize w => exact hds
    have hnotop : ∀ w rest', rest = .visit w :: rest' → w < numNodes g := by
      intro w rest' h
      have hnv : NoVisit rest := hw
      exact absurd rfl (hnv (.visit w) (by rw [h]; exact List.mem_cons_self) w)
    simp only [step]
    rw [if_neg (by rw [hb.size]; omega)]
    by_cases hc : s.bounds.size ≠ 0 ∧ gt s.bounds (s.bounds.size - 1) = gt s.scc v
    · rw [if_pos hc]
      have hcomp : s.component ≠ 0 := by
        intro h0
        have := hf.comp_cnt
        have := hon.1
        rw [h0] at *
        omega
      rw [if_neg hcomp]
      obtain ⟨s1, h1, h2, h3, h4, h5, h6, h7, h8⟩ := popComp_total (numNodes g) v (gt s.scc v) s.stack.size
        { s with bounds := s.bounds.pop, component := s.component - 1 } hb.size (fun i hi => (hb.stk i hi).1)
        hf.pos hon.1 hon.2 (by simp only; omega)
      simp only at h5 h6 h7 h8
      simp only [h1]
      have hstep : step g s ei rest (.finalize v) = some (s1, ei, rest) := by
        simp only [step]
        rw [if_neg (by rw [hb.size]; omega), if_pos hc, if_neg hcomp]
        simp only [h1]
      obtain ⟨hgs, _, hmono⟩ := hinv _ _ _ hstep
      -- nodes below position scc[v] are untouched
      have hkeep : ∀ u, OnStack s u → gt s.scc u < gt s.scc v → OnStack s1 u ∧ gt s1.scc u = gt s.scc u := by
        intro u hu hlt
        have hnp : ¬ ∃ i, gt s.scc v ≤ i ∧ i < s.stack.size ∧ gt s.stack i = u := by
          rintro ⟨i, hi1, hi2, hi3⟩
          have := hf.pos i hi2
          rw [hi3] at this
          omega
        have e := h8 u hnp
        refine ⟨⟨by rw [e, h2]; exact hlt, ?_⟩, e⟩
        rw [e, h3 _ hlt]; exact hu.2
      have hVm := visited_mono s.scc s1.scc (numNodes g) hmono
      refine ⟨s1, ei, rest, rfl, ⟨hgs, ?_, ?_, ?_, ?_⟩, hnv _, ?_, hei, hnotop, ?_⟩
      · intro i hi
        rw [h2] at hi
        rw [h3 i hi]
        have hiS : i < s.stack.size := by have := hon.1; omega
        have hu : OnStack s (gt s.stack i) := ⟨by rw [hf.pos i hiS]; exact hiS, by rw [hf.pos i hiS]⟩
        rw [(hkeep _ hu (by rw [hf.pos i hiS]; exact hi)).2]
        exact hf.pos i hiS
      · intro j hj
        rw [h5, Array.size_pop] at hj
        rw [h5, gt_pop_lt _ _ hj, h2, ← hc.2]
        exact hf.bnd_mono j (s.bounds.size - 1) (by omega) (by omega)
      · intro j j' hjj hj'
        rw [h5, Array.size_pop] at hj'
        rw [h5, gt_pop_lt _ _ hj', gt_pop_lt _ _ (by omega)]
        exact hf.bnd_mono j j' hjj (by omega)
      · rw [h6, h2]
        have := hf.comp_cnt
        have := hon.1
        have := hb.comp
        omega
      · apply WP_mono rest _ hrest
        intro d hd u hu huo
        exact hkeep u huo (hbelow d hd u hu)
      · simp only [phi, workCost, List.map_cons, List.sum_cons, cost]
        omega
    · rw [if_neg hc]
      refine ⟨s, ei, rest, rfl, hf, hnv _, hrest, hei, hnotop, ?_⟩
      simp only [phi, workCost, List.map_cons, List.sum_cons, cost]
      omega

theorem loop_total (g : Graph) (hwf : WF g) (hn : numNodes g < maxU) :
    ∀ (f : Nat) (s : State) (ei : Array Nat) (work : List Dfs), GF (numNodes g) s → WorkOK s.scc work → WP s work →
      ei.size = numNodes g → (∀ w rest, work = .visit w :: rest → w < numNodes g) → phi g s ei work < f →
      ∃ s', loop g f s ei work = some s' ∧ GF (numNodes g) s' := by
  intro f
  induction f with
  | zero => intro _ _ _ _ _ _ _ _ h; omega
  | succ f ih =>
    intro s ei work hf hw hp hei htop hphi
    cases work with
    | nil => exact ⟨s, rfl, hf⟩
    | cons top rest =>
      obtain ⟨s1, ei1, work1, hstep, h1, h2, h3, h4, h5, h6⟩ :=
        step_total g hwf hn s ei rest top hf hw hp hei (fun w hw' => htop w rest (by rw [hw']))
      simp only [loop, hstep]
      exact ih s1 ei1 work1 h1 h2 h3 h4 h5 (by omega)

theorem remE_zero_le (g : Graph) (hwf : WF g) : remE g (Array.replicate (numNodes g) 0) ≤ numEdges g :=
  Nat.le_trans (sumTo_le _ _ _ (fun i _ => Nat.sub_le _ _)) hwf.sum_outDegree

theorem outer_total (g : Graph) (hwf : WF g) (hn : numNodes g < maxU) :
    ∀ (k v : Nat) (s : State), GF (numNodes g) s → v + k = numNodes g → ∃ s', outer g k v s = some s' := by
  intro k
  induction k with
  | zero => intro v s _ _; exact ⟨s, rfl⟩
  | succ k ih =>
    intro v s hf hk
    simp only [outer]
    split
    · rename_i hm
      have hphi : phi g s (Array.replicate (numNodes g) 0) [.visit v] < dfsFuel g := by
        have := remE_zero_le g hwf
        simp only [phi, workCost, List.map_cons, List.map_nil, List.sum_cons, List.sum_nil, cost, dfsFuel]
        omega
      obtain ⟨s1, h1, h2⟩ := loop_total g hwf hn (dfsFuel g) s (Array.replicate (numNodes g) 0) [.visit v] hf
        (show WorkOK s.scc [.visit v] from ⟨hm, (fun d hd => by cases hd)⟩)
        ⟨(fun u hu => by cases hu), trivial⟩ (by simp)
        (fun w rest h => by cases h; omega) hphi
      simp only [dfsIterative, h1]
      exact ih (v + 1) s1 h2 (by omega)
    · exact ih (v + 1) s hf (by omega)

/-- on a well-formed graph `PathBasedScc::run` returns (no panic, fuel suffices) and labels every node below n -/
theorem run_total (s : State) (g : Graph) (hwf : WF g) (hn : numNodes g < maxU) :
    ∃ s' a, run s g = some (s', a) ∧ a.size = numNodes g ∧ ∀ v, v < numNodes g → gt a v < numNodes g := by
  have hinit : GF (numNodes g) (prepare true s g) := by
    have hbase : GS (numNodes g) (prepare true s g) := by
      simp only [prepare, if_true, Tarjan.clear, Tarjan.resize_empty]
      constructor
      · simp
      · intro v hv; left; exact gt_replicate _ _ _ hv
      · exact Nat.le_refl _
      · intro i hi; simp at hi
      · simp
    refine ⟨hbase, ?_, ?_, ?_, ?_⟩
    · intro i hi; simp [prepare] at hi
    · intro j hj; simp [prepare] at hj
    · intro j j' _ hj'; simp [prepare] at hj'
    · simp [prepare]
  obtain ⟨s1, h1⟩ := outer_total g hwf hn (numNodes g) 0 _ hinit (by omega)
  have hrun : run s g = some (s1, s1.scc) := by simp only [run, runWith, h1]
  obtain ⟨a1, a2⟩ := run_labels s g hn s1 s1.scc hrun
  exact ⟨s1, s1.scc, hrun, a1, a2⟩

end Tbx.Gabow
