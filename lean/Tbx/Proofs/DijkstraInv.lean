import Tbx.Proofs.DijkstraLaws
/-
Invariants of a Dijkstra search from `s` over the queue observers, and their preservation by one
relaxation (`RInv.step`).  Everything is relative to `HeapLaws Inv`.

  Core  : holds at every program point (label soundness, exactness of settled labels, monotone
          settle order, parent pointers with a strictly decreasing rank)
  LInv  : Core + every settled node has all its out-edges relaxed           (outer loop head)
  RInv  : Core + the same for all settled nodes but the current one `u`, for which the edges in `D`
          are done                                                           (inside the for loop)
-/
namespace Tbx.Dijkstra
open Tbx Tbx.AHeap

variable {Inv : Heap → Prop}

/-! ### invariants of the search -/

/-- popped: inserted and no longer in the queue -/
def Settled (q : Heap) (x : Int) : Prop := inserted q x = true ∧ contains q x = false

/-- all out-edges of `x` have been relaxed (and nothing was raised since) -/
def ClosedAt (adj : Adj) (q : Heap) (x : Nat) : Prop :=
  ∀ v w, (v, w) ∈ adj x → inserted q (v : Int) = true ∧ weight q (v : Int) ≤ weight q (x : Int) + (w : Int)

/-- invariant that holds at every point of a search from `s` -/
structure Core (Inv : Heap → Prop) (adj : Adj) (s : Nat) (q : Heap) : Prop where
  inv : Inv q
  wf : WFq q
  src : inserted q (s : Int) = true ∧ weight q (s : Int) = 0 ∧ data? q (s : Int) = some (s : Int)
  sound : ∀ x, inserted q x = true → ∃ v d : Nat, x = (v : Int) ∧ weight q x = (d : Int) ∧ SP.Walk adj s v d
  exact : ∀ v : Nat, Settled q (v : Int) → ∀ d', SP.Walk adj s v d' → weight q (v : Int) ≤ (d' : Int)
  mono : ∀ x y, Settled q x → contains q y = true → weight q x ≤ weight q y
  par : ∀ x : Int, inserted q x = true → x ≠ (s : Int) →
    ∃ p w : Nat, data? q x = some (p : Int) ∧ Settled q (p : Int) ∧ (x.toNat, w) ∈ adj p ∧
      weight q x = weight q (p : Int) + (w : Int)
  rank : ∃ rank : Int → Nat, ∀ x, inserted q x = true → x ≠ (s : Int) → ∀ p, data? q x = some p → rank p < rank x

/-- between two iterations of the outer loop -/
structure LInv (Inv : Heap → Prop) (adj : Adj) (s : Nat) (q : Heap) : Prop extends Core Inv adj s q where
  closed : ∀ x : Nat, Settled q (x : Int) → ClosedAt adj q x

/-- while the out-edges of the popped node `u` (label `dist`) are relaxed; `D` = edges already done -/
structure RInv (Inv : Heap → Prop) (adj : Adj) (s : Nat) (u : Nat) (dist : Int) (D : Nat → Nat → Prop) (q : Heap) : Prop
    extends Core Inv adj s q where
  cur : Settled q (u : Int) ∧ weight q (u : Int) = dist
  closed : ∀ x : Nat, Settled q (x : Int) → x ≠ u → ClosedAt adj q x
  done : ∀ v w, D v w → inserted q (v : Int) = true ∧ weight q (v : Int) ≤ dist + (w : Int)
  le_cur : ∀ x, Settled q x → weight q x ≤ dist
  par_cur : ∀ x : Int, inserted q x = true → x ≠ (s : Int) → data? q x = some (u : Int) → ∃ w, D x.toNat w

theorem RInv.step (L : HeapLaws Inv) {adj : Adj} {s u : Nat} {dist : Int} {D : Nat → Nat → Prop} {q : Heap}
    (R : RInv Inv adj s u dist D q) (v w : Nat) (he : (v, w) ∈ adj u) :
    ∃ q', relax q u dist v w = some q' ∧ RInv Inv adj s u dist (fun a b => D a b ∨ (a = v ∧ b = w)) q' ∧
      ∀ x, Settled q' x ↔ Settled q x := by
  obtain ⟨cu, cd, hcu, hcw, cwalk⟩ := R.sound u R.cur.1.1
  have hcu' : u = cu := by omega
  rw [← hcu'] at cwalk
  have hdist : dist = (cd : Int) := by rw [← R.cur.2]; exact hcw
  have hd0 : 0 ≤ dist := by omega
  obtain ⟨q', e, i1, o1, o2, o3, o4⟩ := relax_spec L q u dist v w R.inv R.wf.1 hd0
  refine ⟨q', e, ?_, ?_⟩
  rotate_left
  · intro x
    have F1 : ∀ x, Settled q x → Settled q' x := by
      intro x hx
      refine ⟨?_, ?_⟩
      · rw [o1, hx.1]; simp
      · rw [o2, hx.2]
        by_cases hxv : x = (v : Int)
        · subst hxv; simp [hx.1]
        · simp [hxv]
    refine ⟨?_, F1 x⟩
    intro hx
    have h2 := hx.2
    rw [o2] at h2
    simp only [Bool.or_eq_false_iff, Bool.and_eq_false_imp, beq_iff_eq, Bool.not_eq_eq_eq_not, Bool.not_false] at h2
    have h1 := hx.1
    rw [o1] at h1
    refine ⟨?_, h2.1⟩
    by_cases hxv : x = (v : Int)
    · subst hxv; exact h2.2 rfl
    · simpa [hxv] using h1
  -- frame facts
  have F1 : ∀ x, Settled q x → Settled q' x ∧ weight q' x = weight q x ∧ data? q' x = data? q x := by
    intro x hx
    have hni : ¬ (x = (v : Int) ∧ Improves q v (dist + w)) := by
      rintro ⟨rfl, h⟩
      rcases h with h | h
      · rw [hx.1] at h; cases h
      · rw [hx.2] at h; cases h.1
    refine ⟨⟨?_, ?_⟩, ?_, ?_⟩
    · rw [o1, hx.1]; simp
    · rw [o2, hx.2]
      by_cases hxv : x = (v : Int)
      · subst hxv; simp [hx.1]
      · simp [hxv]
    · rw [o3, if_neg hni]
    · rw [o4, if_neg hni]
  have F2 : ∀ x, Settled q' x → Settled q x := by
    intro x hx
    have h2 := hx.2
    rw [o2] at h2
    simp only [Bool.or_eq_false_iff, Bool.and_eq_false_imp, beq_iff_eq, Bool.not_eq_eq_eq_not, Bool.not_false] at h2
    have h1 := hx.1
    rw [o1] at h1
    refine ⟨?_, h2.1⟩
    by_cases hxv : x = (v : Int)
    · subst hxv; exact h2.2 rfl
    · simpa [hxv] using h1
  have F3 : ∀ x, inserted q x = true → weight q' x ≤ weight q x := by
    intro x hx
    rw [o3]
    split
    · rename_i h
      obtain ⟨rfl, h⟩ := h
      rcases h with h | h
      · rw [hx] at h; cases h
      · omega
    · exact Int.le_refl _
  have F4 : weight q' (v : Int) ≤ dist + (w : Int) := by
    rw [o3]
    by_cases himp : Improves q v (dist + w)
    · rw [if_pos ⟨rfl, himp⟩]; exact Int.le_refl _
    · rw [if_neg (fun h => himp h.2)]
      unfold Improves at himp
      have hins : inserted q (v : Int) = true := by
        cases h : inserted q (v : Int)
        · exact absurd (Or.inl h) himp
        · rfl
      cases hc : contains q (v : Int)
      · have := R.le_cur v ⟨hins, hc⟩; omega
      · have : ¬ weight q (v : Int) > dist + w := fun h => himp (Or.inr ⟨hc, h⟩)
        omega
  have F5 : ∀ x, inserted q x = true → inserted q' x = true := by intro x hx; rw [o1, hx]; simp
  have hsrc_ni : ¬ ((s : Int) = (v : Int) ∧ Improves q v (dist + w)) := by
    rintro ⟨hsv, h⟩
    rw [← hsv] at h
    rcases h with h | h
    · rw [R.src.1] at h; cases h
    · rw [R.src.2.1] at h; omega
  have core : Core Inv adj s q' := by
    refine ⟨i1, ?_, ?_, ?_, ?_, ?_, ?_, ?_⟩
    · have := relax_params e; exact ⟨this.1.trans R.wf.1, this.2.trans R.wf.2⟩
    · refine ⟨F5 _ R.src.1, ?_, ?_⟩
      · rw [o3, if_neg hsrc_ni]; exact R.src.2.1
      · rw [o4, if_neg hsrc_ni]; exact R.src.2.2
    · intro x hx
      by_cases himp : x = (v : Int) ∧ Improves q v (dist + w)
      · refine ⟨v, cd + w, himp.1, ?_, SP.Walk.snoc cwalk he⟩
        rw [o3, if_pos himp, hdist]; omega
      · have hxi : inserted q x = true := by
          rw [o1] at hx
          by_cases hxv : x = (v : Int)
          · subst hxv
            cases h : inserted q (v : Int)
            · exact absurd ⟨rfl, Or.inl h⟩ himp
            · rfl
          · simpa [hxv] using hx
        obtain ⟨a, b, h1, h2, h3⟩ := R.sound x hxi
        exact ⟨a, b, h1, by rw [o3, if_neg himp]; exact h2, h3⟩
    · intro x hx d' hw'
      have := F2 _ hx
      rw [(F1 _ this).2.1]; exact R.exact x this d' hw'
    · intro x y hx hy
      have hx0 := F2 _ hx
      rw [(F1 _ hx0).2.1]
      by_cases himp : y = (v : Int) ∧ Improves q v (dist + w)
      · rw [o3, if_pos himp]
        have := R.le_cur x hx0; omega
      · rw [o3, if_neg himp]
        apply R.mono x y hx0
        rw [o2] at hy
        by_cases hyv : y = (v : Int)
        · subst hyv
          cases hc : contains q (v : Int)
          · rw [hc] at hy
            simp only [beq_self_eq_true, Bool.true_and, Bool.false_or, Bool.not_eq_eq_eq_not, Bool.not_true] at hy
            exact absurd ⟨rfl, Or.inl hy⟩ himp
          · rfl
        · simpa [hyv] using hy
    · intro x hx hxs
      by_cases himp : x = (v : Int) ∧ Improves q v (dist + w)
      · refine ⟨u, w, ?_, (F1 _ R.cur.1).1, ?_, ?_⟩
        · rw [o4, if_pos himp]
        · rw [himp.1]; simpa using he
        · rw [o3, if_pos himp, (F1 _ R.cur.1).2.1, R.cur.2]
      · have hxi : inserted q x = true := by
          rw [o1] at hx
          by_cases hxv : x = (v : Int)
          · subst hxv
            cases h : inserted q (v : Int)
            · exact absurd ⟨rfl, Or.inl h⟩ himp
            · rfl
          · simpa [hxv] using hx
        obtain ⟨p, w', h1, h2, h3, h4⟩ := R.par x hxi hxs
        refine ⟨p, w', by rw [o4, if_neg himp]; exact h1, (F1 _ h2).1, h3, ?_⟩
        rw [o3, if_neg himp, (F1 _ h2).2.1]; exact h4
    · obtain ⟨rank, hr⟩ := R.rank
      by_cases himp : Improves q v (dist + w)
      · refine ⟨fun y => if y = (v : Int) then rank (u : Int) + 1 else rank y, ?_⟩
        intro x hx hxs p hp
        have huv : (u : Int) ≠ (v : Int) := by
          intro h
          rcases himp with h' | h'
          · rw [← h, R.cur.1.1] at h'; cases h'
          · rw [← h, R.cur.1.2] at h'; cases h'.1
        by_cases hxv : x = (v : Int)
        · rw [o4, if_pos ⟨hxv, himp⟩] at hp
          cases hp
          simp only [hxv, if_true, if_neg huv]; omega
        · rw [o4, if_neg (fun h => hxv h.1)] at hp
          have hxi : inserted q x = true := by rw [o1] at hx; simpa [hxv] using hx
          obtain ⟨p0, w', h1, h2, _, _⟩ := R.par x hxi hxs
          rw [h1] at hp; cases hp
          have hpv : (p0 : Int) ≠ (v : Int) := by
            intro h
            rcases himp with h' | h'
            · rw [← h, h2.1] at h'; cases h'
            · rw [← h, h2.2] at h'; cases h'.1
          simp only [if_neg hxv, if_neg hpv]
          exact hr x hxi hxs _ h1
      · refine ⟨rank, ?_⟩
        intro x hx hxs p hp
        rw [o4, if_neg (fun h => himp h.2)] at hp
        have hxi : inserted q x = true := by
          rw [o1] at hx
          by_cases hxv : x = (v : Int)
          · subst hxv
            cases h : inserted q (v : Int)
            · exact absurd (Or.inl h) himp
            · rfl
          · simpa [hxv] using hx
        exact hr x hxi hxs p hp
  refine { toCore := core, cur := ?_, closed := ?_, done := ?_, le_cur := ?_, par_cur := ?_ }
  · exact ⟨(F1 _ R.cur.1).1, by rw [(F1 _ R.cur.1).2.1]; exact R.cur.2⟩
  · intro x hx hxu y w' hy
    have hx0 := F2 _ hx
    obtain ⟨a, b⟩ := R.closed x hx0 hxu y w' hy
    refine ⟨F5 _ a, ?_⟩
    rw [(F1 _ hx0).2.1]
    have := F3 _ a; omega
  · intro a b hab
    rcases hab with hab | ⟨rfl, rfl⟩
    · obtain ⟨h1, h2⟩ := R.done a b hab
      refine ⟨F5 _ h1, ?_⟩
      have := F3 _ h1; omega
    · refine ⟨by rw [o1]; simp, F4⟩
  · intro x hx
    have hx0 := F2 _ hx
    rw [(F1 _ hx0).2.1]; exact R.le_cur x hx0
  · intro x hx hxs hp
    by_cases himp : x = (v : Int) ∧ Improves q v (dist + w)
    · refine ⟨w, Or.inr ⟨?_, rfl⟩⟩
      rw [himp.1]; simp
    · rw [o4, if_neg himp] at hp
      have hxi : inserted q x = true := by
        rw [o1] at hx
        by_cases hxv : x = (v : Int)
        · subst hxv
          cases h : inserted q (v : Int)
          · exact absurd ⟨rfl, Or.inl h⟩ himp
          · rfl
        · simpa [hxv] using hx
      obtain ⟨w', hw'⟩ := R.par_cur x hxi hxs hp
      exact ⟨w', Or.inl hw'⟩
end Tbx.Dijkstra
