import Tbx.Model.AHeap
/-
Heap-order part of the sift-up argument (DESIGN.md Appendix A.3), about the model's `upLoop`.
`OrdW`: imagine `w` in the hole; the completed array is heap ordered except possibly on the
edge (hole/2, hole).  `Below`: the hole's children dominate the hole's parent.
-/
namespace Tbx.AHeap
open Tbx

/-- weight at position k when `w` is imagined in the hole -/
def wt (h : Array Elem) (hole : Nat) (w : Int) (k : Nat) : Int := if k = hole then w else (gt h k).weight

/-- heap order of the completed array, except possibly on the edge (hole/2, hole) -/
def OrdW (h : Array Elem) (hole : Nat) (w : Int) : Prop :=
  ∀ k, 2 ≤ k → k < h.size → k ≠ hole → wt h hole w (k/2) ≤ wt h hole w k

/-- children of the hole dominate the hole's parent -/
def Below (h : Array Elem) (hole : Nat) : Prop :=
  ∀ k, 2 ≤ k → k < h.size → k / 2 = hole → (gt h (hole/2)).weight ≤ (gt h k).weight

def Ord (h : Array Elem) : Prop :=
  ∀ k, 2 ≤ k → k < h.size → (gt h (k/2)).weight ≤ (gt h k).weight

theorem upLoop_spec (fuel : Nat) (h : Array Elem) (ns : Array Node) (key : Nat) (w : Int)
    (hk : key < h.size) (hf : key ≤ fuel)
    (hs0 : (gt h 0).weight ≤ w)
    (ho : OrdW h key w) (hb : 2 ≤ key → Below h key) :
    (upLoop fuel h ns key w).1.size = h.size ∧ (upLoop fuel h ns key w).2.2 < h.size ∧
    OrdW (upLoop fuel h ns key w).1 (upLoop fuel h ns key w).2.2 w ∧
    (2 ≤ (upLoop fuel h ns key w).2.2 →
       (gt (upLoop fuel h ns key w).1 ((upLoop fuel h ns key w).2.2/2)).weight ≤ w) ∧
    (1 ≤ key → 1 ≤ (upLoop fuel h ns key w).2.2) := by
  induction fuel generalizing h ns key with
  | zero =>
    have : key = 0 := by omega
    subst this
    simp only [upLoop]
    exact ⟨trivial, hk, ho, by omega, by omega⟩
  | succ fuel ih =>
    simp only [upLoop]
    split
    · rename_i hgt
      have hk2 : 2 ≤ key := by
        rcases Nat.lt_or_ge key 2 with h1 | h1
        · exfalso
          have : key / 2 = 0 := by omega
          rw [this] at hgt; omega
        · exact h1
      have hnext : key / 2 < key := by omega
      have hn1 : 1 ≤ key / 2 := by omega
      have hB := hb hk2
      have key_ih := ih (st h key (gt h (key/2))) (setKey ns (gt (st h key (gt h (key/2))) key).index key) (key/2) (by simp; omega) (by omega)
        (by rw [gt_st_ne _ _ _ _ (by omega)]; exact hs0)
        (by
          intro k h2 hk' hne
          simp at hk'
          unfold wt
          simp only [hne, if_false]
          by_cases e1 : k = key
          · -- the old hole now holds the old parent's element and its parent is the new hole
            subst e1
            simp only [if_true]
            rw [gt_st_eq _ _ _ hk]; omega
          · rw [gt_st_ne _ _ _ _ (Ne.symm e1)]
            by_cases e2 : k / 2 = key
            · -- child of the old hole: its parent slot now holds gt h (key/2)
              simp only [show k / 2 ≠ key / 2 by omega, if_false]
              rw [e2, gt_st_eq _ _ _ hk]
              exact hB k h2 hk' e2
            · have o := ho k h2 hk' e1
              unfold wt at o
              simp only [e1, e2, if_false] at o
              by_cases e3 : k / 2 = key / 2
              · -- sibling of the old hole: parent is the new hole, imagined weight w < old parent weight
                simp only [e3, if_true]
                rw [e3] at o; omega
              · simp only [e3, if_false]
                rw [gt_st_ne _ _ _ _ (Ne.symm e2)]
                exact o)
        (by
          intro h22 k h2 hk' e
          simp at hk'
          -- children of new hole key/2: either the old hole (holding old parent elem) or its sibling
          by_cases e1 : k = key
          · subst e1
            rw [gt_st_eq _ _ _ hk, gt_st_ne _ _ _ _ (by omega)]
            have o := ho (k/2) h22 (by omega) (by omega)
            unfold wt at o
            simp only [show k / 2 ≠ k by omega, show k / 2 / 2 ≠ k by omega, if_false] at o
            exact o
          · rw [gt_st_ne _ _ _ _ (Ne.symm e1), gt_st_ne _ _ _ _ (by omega)]
            have o1 := ho k h2 hk' e1
            have o2 := ho (key/2) h22 (by omega) (by omega)
            unfold wt at o1 o2
            simp only [e1, show k / 2 ≠ key by omega, show key / 2 ≠ key by omega,
              show key / 2 / 2 ≠ key by omega, if_false] at o1 o2
            rw [e] at o1; omega)
      simp at key_ih
      obtain ⟨a, b, c, d, e⟩ := key_ih
      exact ⟨a, b, c, d, fun _ => e hn1⟩
    · rename_i hle
      refine ⟨rfl, hk, ho, ?_, fun h => h⟩
      intro _; show (gt h (key/2)).weight ≤ w; omega

/-- closing the hole: writing (idx, w) at the final hole yields a fully ordered heap -/
theorem close_hole (h : Array Elem) (hole : Nat) (w : Int) (i : Nat) (hk : hole < h.size)
    (ho : OrdW h hole w) (hp : 2 ≤ hole → (gt h (hole/2)).weight ≤ w) :
    Ord (st h hole ⟨i, w⟩) := by
  intro k h2 hk'
  simp at hk'
  by_cases e1 : k = hole
  · subst e1
    rw [gt_st_eq _ _ _ hk, gt_st_ne _ _ _ _ (by omega)]
    exact hp h2
  · have o := ho k h2 hk' e1
    unfold wt at o
    simp only [e1, if_false] at o
    rw [gt_st_ne _ _ _ _ (Ne.symm e1)]
    by_cases e2 : k / 2 = hole
    · simp only [e2, if_true] at o
      rw [e2, gt_st_eq _ _ _ hk]; exact o
    · simp only [e2, if_false] at o
      rw [gt_st_ne _ _ _ _ (Ne.symm e2)]; exact o


end Tbx.AHeap
