import Tbx.Model.Tarjan
/-
Array helper lemmas shared by the C16 proofs (core Lean only).
-/
namespace Tbx

theorem gt_pop_lt {α : Type} [Inhabited α] (a : Array α) (i : Nat) (h : i < a.size - 1) : gt a.pop i = gt a i := by
  simp only [gt, Array.getD_eq_getD_getElem?, Array.getElem?_pop, if_pos h]

theorem gt_replicate {α : Type} [Inhabited α] (n : Nat) (v : α) (i : Nat) (h : i < n) : gt (Array.replicate n v) i = v := by
  simp [gt, h]

theorem Tarjan.resize_empty {α : Type} (n : Nat) (v : α) : Tarjan.resize #[] n v = Array.replicate n v := by
  unfold Tarjan.resize
  split
  · rename_i h
    have : n = 0 := by simpa using h
    subst this
    simp
  · simp

/-! ### CSR facts and finite sums -/

open Tbx.Csr in
theorem Csr.WF.mono_le {g : Csr.Graph} (h : Csr.WF g) : ∀ j i, i ≤ j → j ≤ Csr.numNodes g → gt g.nodes i ≤ gt g.nodes j := by
  intro j
  induction j with
  | zero => intro i hi _; have : i = 0 := by omega
            subst this; exact Nat.le_refl _
  | succ j ih =>
    intro i hi hj
    by_cases hij : i = j + 1
    · subst hij; exact Nat.le_refl _
    · exact Nat.le_trans (ih i (by omega) (by omega)) (h.mono j (by omega))

open Tbx.Csr in
/-- every edge id in the range of a node is an edge, and its target is a node -/
theorem Csr.WF.target_lt {g : Csr.Graph} (h : Csr.WF g) (v e : Nat) (hv : v < Csr.numNodes g)
    (he : e < Csr.endEdges g v) : Csr.target g e < Csr.numNodes g := by
  have h1 : Csr.endEdges g v ≤ g.targets.size := by
    have := h.mono_le (Csr.numNodes g) (v + 1) (by omega) (Nat.le_refl _)
    rw [h.last] at this
    exact this
  exact h.tgt e (by omega)

def sumTo (f : Nat → Nat) : Nat → Nat
  | 0 => 0
  | k + 1 => sumTo f k + f k

theorem sumTo_le (f h : Nat → Nat) : ∀ k, (∀ i, i < k → f i ≤ h i) → sumTo f k ≤ sumTo h k := by
  intro k
  induction k with
  | zero => intro _; exact Nat.le_refl _
  | succ k ih =>
    intro hh
    have := ih (fun i hi => hh i (by omega))
    have := hh k (by omega)
    simp only [sumTo]
    omega

theorem sumTo_update (f f' : Nat → Nat) (t : Nat) (hne : ∀ i, i ≠ t → f' i = f i) :
    ∀ k, t < k → sumTo f' k + f t = sumTo f k + f' t := by
  intro k
  induction k with
  | zero => intro h; omega
  | succ k ih =>
    intro hk
    simp only [sumTo]
    by_cases htk : t = k
    · subst htk
      have : sumTo f' t = sumTo f t := by
        apply Nat.le_antisymm
        · exact sumTo_le _ _ _ (fun i hi => by rw [hne i (by omega)]; exact Nat.le_refl _)
        · exact sumTo_le _ _ _ (fun i hi => by rw [hne i (by omega)]; exact Nat.le_refl _)
      omega
    · have := ih (by omega)
      rw [hne k (Ne.symm htk)]
      omega

open Tbx.Csr in
/-- the out-degrees add up to at most the number of edges -/
theorem Csr.WF.sum_outDegree {g : Csr.Graph} (h : Csr.WF g) :
    sumTo (Csr.outDegree g) (Csr.numNodes g) ≤ Csr.numEdges g := by
  have key : ∀ k, k ≤ Csr.numNodes g → sumTo (Csr.outDegree g) k + gt g.nodes 0 = gt g.nodes k := by
    intro k
    induction k with
    | zero => intro _; simp [sumTo]
    | succ k ih =>
      intro hk
      have := ih (by omega)
      have hm := h.mono k (by omega)
      simp only [sumTo, Csr.outDegree, Csr.endEdges, Csr.beginEdges]
      omega
  have := key (Csr.numNodes g) (Nat.le_refl _)
  rw [h.last] at this
  simp only [Csr.numEdges]
  omega

end Tbx
