import Tbx.Proofs.ChipperPar
import Tbx.Props.C03
/-
The step model `Tbx.InertialFlow.subStep` satisfies what C05/C06 assume of a bisection step (`StepSpec`),
by C03's theorems `sides_nodup_subset`, `sides_cover`, `sides_nonempty`.
-/
namespace Tbx.Chipper
open Tbx Tbx.InertialFlow

theorem subStep_stepSpec (coord : Nat → Coord) (n : Nat) (kOf : Nat → Nat)
    (hk : ∀ s, 2 ≤ s → 1 ≤ kOf s ∧ 2 * kOf s ≤ s) :
    StepSpec n (fun e ids a k β => subStep e ids coord a k β) kOf where
  res := by
    intro job a β r hjob h
    have h' : subStep job.edges job.ids coord a (kOf job.ids.length) β = .ok r := h
    obtain ⟨hk1, hk2⟩ := hk job.ids.length hjob.two
    obtain ⟨hnd, hsub⟩ := Tbx.Props.C03.sides_nodup_subset job.edges job.ids coord a _ β r hjob.nodup h'
    have hcov := Tbx.Props.C03.sides_cover job.edges job.ids coord a _ β r hjob.nodup hjob.two hk1 hk2
      (fun e he => hjob.src e he) hjob.small h'
    refine ⟨⟨hnd, hsub, ?_⟩, Tbx.Props.C03.sides_nonempty job.edges job.ids coord a _ β r h'⟩
    intro e he
    rw [hcov]
    refine ⟨hjob.src e he, Or.inr (Or.inr ?_)⟩
    unfold Tbx.Bisection.touched
    rw [List.any_eq_true]
    exact ⟨e, he, by simp⟩

end Tbx.Chipper

namespace Tbx.Chipper
open Tbx Tbx.InertialFlow

/-- a step that, on well-formed jobs, (A) reports only flows within the bound, (B) reports the same result
    under every bound that is at least the flow, (T) completes under some bound, and (D) never panics, obeys
    `BoundMono` -/
theorem boundMono_of (n : Nat) (step : Step) (kOf : Nat → Nat)
    (hA : ∀ job a (β : Int) r, JobOK n job → a < 4 → 0 ≤ β →
      step job.edges job.ids a (kOf job.ids.length) β = .ok r → r.flow ≤ β)
    (hB : ∀ job a (β β' : Int) r, JobOK n job → a < 4 →
      step job.edges job.ids a (kOf job.ids.length) β = .ok r → r.flow ≤ β' →
      step job.edges job.ids a (kOf job.ids.length) β' = .ok r)
    (hT : ∀ job a, JobOK n job → a < 4 → ∃ (β : Int) (r : FlowRes), 0 ≤ β ∧ 0 ≤ r.flow ∧
      step job.edges job.ids a (kOf job.ids.length) β = .ok r)
    (hD : ∀ job a (β : Int), JobOK n job → a < 4 → 0 ≤ β →
      step job.edges job.ids a (kOf job.ids.length) β ≠ .panic) :
    BoundMono n step kOf := by
  intro job hjob
  have axis : ∀ a, a < 4 → ∃ r : FlowRes, 0 ≤ r.flow ∧ ∀ β : Int, 0 ≤ β →
      step job.edges job.ids a (kOf job.ids.length) β = if r.flow ≤ β then .ok r else .aborted := by
    intro a ha
    obtain ⟨β0, r, hβ0, hnn, hok⟩ := hT job a hjob ha
    refine ⟨r, hnn, ?_⟩
    intro β hβ
    cases hs : step job.edges job.ids a (kOf job.ids.length) β with
    | panic => exact absurd hs (hD job a β hjob ha hβ)
    | aborted =>
      have : ¬ r.flow ≤ β := by
        intro hle
        have := hB job a β0 β r hjob ha hok hle
        rw [hs] at this; cases this
      rw [if_neg this]
    | ok r' =>
      have h1 : r'.flow ≤ β := hA job a β r' hjob ha hβ hs
      have h0 : r.flow ≤ β0 := hA job a β0 r hjob ha hβ0 hok
      have e1 := hB job a β (max β β0) r' hjob ha hs (by omega)
      have e2 := hB job a β0 (max β β0) r hjob ha hok (by omega)
      rw [e1] at e2
      cases e2
      rw [if_pos h1]
  obtain ⟨r0, h0⟩ := axis 0 (by omega)
  obtain ⟨r1, h1⟩ := axis 1 (by omega)
  obtain ⟨r2, h2⟩ := axis 2 (by omega)
  obtain ⟨r3, h3⟩ := axis 3 (by omega)
  refine ⟨fun a => match a with | 0 => r0 | 1 => r1 | 2 => r2 | _ => r3, ?_⟩
  intro a ha
  have : a = 0 ∨ a = 1 ∨ a = 2 ∨ a = 3 := by omega
  rcases this with rfl | rfl | rfl | rfl
  · exact h0
  · exact h1
  · exact h2
  · exact h3

/-- totality of a step on well-formed jobs: it completes under some bound and never reaches a
    panic / out-of-fuel branch (for the real step model: `subStep_total`, from C03's `sub_step_total`) -/
def StepTotal (n : Nat) (step : Step) (kOf : Nat → Nat) : Prop :=
  (∀ job a, JobOK n job → a < 4 → ∃ (β : Int) (r : FlowRes), 0 ≤ β ∧ 0 ≤ r.flow ∧
      step job.edges job.ids a (kOf job.ids.length) β = .ok r) ∧
  (∀ job a (β : Int), JobOK n job → a < 4 → 0 ≤ β →
      step job.edges job.ids a (kOf job.ids.length) β ≠ .panic)

/-- `BoundMono` for the real step model, from C03's `ok_flow_le_bound` and `ok_bound_irrelevant`, given totality -/
theorem subStep_boundMono (coord : Nat → Coord) (n : Nat) (kOf : Nat → Nat)
    (hk : ∀ s, 2 ≤ s → 1 ≤ kOf s ∧ 2 * kOf s ≤ s)
    (htotal : StepTotal n (fun e ids a k β => subStep e ids coord a k β) kOf) :
    BoundMono n (fun e ids a k β => subStep e ids coord a k β) kOf := by
  apply boundMono_of n _ kOf
  · intro job a β r _ _ hβ h
    exact Tbx.Props.C03.ok_flow_le_bound job.edges job.ids coord a _ β hβ r h
  · intro job a β β' r hjob _ h hle
    obtain ⟨hk1, hk2⟩ := hk job.ids.length hjob.two
    have hpre := Tbx.Props.C03.preOK_sortIds job.edges job.ids coord a (kOf job.ids.length) hjob.nodup hjob.two
      hk1 hk2 (fun e he => hjob.src e he)
    exact (Tbx.Props.C03.ok_bound_irrelevant job.edges _ _ hpre hjob.small β β' r h hle).1
  · exact htotal.1
  · exact htotal.2

/-- totality of the real step model (C03 `sub_step_total`, which lifts C01/C02's total correctness of the
    Dinic model to the bounded phase loop) -/
theorem subStep_total (coord : Nat → Coord) (n : Nat) (kOf : Nat → Nat)
    (hk : ∀ s, 2 ≤ s → 1 ≤ kOf s ∧ 2 * kOf s ≤ s) :
    StepTotal n (fun e ids a k β => subStep e ids coord a k β) kOf := by
  constructor
  · intro job a hjob _
    obtain ⟨hk1, hk2⟩ := hk job.ids.length hjob.two
    exact (Tbx.Props.C03.sub_step_total job.edges job.ids coord a _ hjob.nodup hjob.two hk1 hk2
      (fun e he => hjob.src e he) hjob.small).1
  · intro job a β hjob _ _
    obtain ⟨hk1, hk2⟩ := hk job.ids.length hjob.two
    exact (Tbx.Props.C03.sub_step_total job.edges job.ids coord a _ hjob.nodup hjob.two hk1 hk2
      (fun e he => hjob.src e he) hjob.small).2 β

/-- hence `BoundMono` for the real step model, with no assumption left -/
theorem subStep_boundMono' (coord : Nat → Coord) (n : Nat) (kOf : Nat → Nat)
    (hk : ∀ s, 2 ≤ s → 1 ≤ kOf s ∧ 2 * kOf s ≤ s) :
    BoundMono n (fun e ids a k β => subStep e ids coord a k β) kOf :=
  subStep_boundMono coord n kOf hk (subStep_total coord n kOf hk)

end Tbx.Chipper
