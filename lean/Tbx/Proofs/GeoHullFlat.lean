import Tbx.Proofs.GeoHull
/-
Degenerate inputs of the monotone chain: no strict turn among the input points.
-/
namespace Tbx.Geo

theorem monotoneChain_flat (pts : List Coord) (hn : 3 < pts.length)
    (hflat : ∀ o ∈ pts, ∀ a ∈ pts, ∀ p ∈ pts, cross o a p = 0) :
    ∃ lo hi, monotoneChain pts = [lo, hi] ∧ lo ∈ pts ∧ hi ∈ pts ∧
      (sortLonLat pts).head? = some lo ∧ (sortLonLat pts).getLast? = some hi ∧
      (∀ q ∈ pts, lonLatLe lo q = true ∧ lonLatLe q hi = true) ∧
      ((∀ q ∈ pts, ∀ q' ∈ pts, q = q') → lo = hi) := by
  have hS : ∀ o ∈ sortLonLat pts, ∀ a ∈ sortLonLat pts, ∀ p ∈ sortLonLat pts, isCW o a p = false := by
    intro o ho a ha p hp
    have := hflat o (mem_sortLonLat.mp ho) a (mem_sortLonLat.mp ha) p (mem_sortLonLat.mp hp)
    cases h : isCW o a p
    · rfl
    · have := (isCW_iff o a p).mp h
      omega
  have hlen : (sortLonLat pts).length = pts.length := length_sortLonLat _
  have hsorted := sortLonLat_sorted pts
  rw [monotoneChain_eq pts hn]
  match hcs : sortLonLat pts, hlen, hS, hsorted with
  | [], hlen, _, _ => simp at hlen; omega
  | [_], hlen, _, _ => simp at hlen; omega
  | c0 :: c1 :: ps, _, hS, hsorted =>
    have hmem : ∀ v ∈ c0 :: c1 :: ps, v ∈ pts := fun v hv => mem_sortLonLat.mp (hcs ▸ hv)
    -- lower pass
    have hlow := lowerStack_flat (c0 :: c1 :: ps) hS c0 (c1 :: ps) (by simp) (fun v hv => hv)
    -- upper pass: the reversed list starts with the last point and ends with c0
    have hrev : (c0 :: c1 :: ps).reverse = (c1 :: ps).reverse ++ [c0] := by simp
    have hSr : ∀ o ∈ (c0 :: c1 :: ps).reverse, ∀ a ∈ (c0 :: c1 :: ps).reverse, ∀ p ∈ (c0 :: c1 :: ps).reverse,
        isCW o a p = false := by
      intro o ho a ha p hp
      exact hS o (List.mem_reverse.mp ho) a (List.mem_reverse.mp ha) p (List.mem_reverse.mp hp)
    obtain ⟨r0, rs, hr⟩ : ∃ r0 rs, (c1 :: ps).reverse = r0 :: rs := by
      cases h : (c1 :: ps).reverse with
      | nil => simp at h
      | cons r0 rs => exact ⟨r0, rs, rfl⟩
    have hr0 : r0 = lastD c0 (c1 :: ps) := by
      have h1 : (c0 :: c1 :: ps).getLast? = some r0 := by
        have h2 : (c0 :: c1 :: ps).reverse.head? = some r0 := by rw [hrev, hr]; rfl
        rw [List.head?_reverse] at h2
        exact h2
      rw [getLast?_cons_lastD] at h1
      exact (Option.some.inj h1).symm
    have hup : lowerStack (c0 :: c1 :: ps).reverse = [c0, r0] := by
      rw [hrev, hr]
      have := lowerStack_flat (c0 :: c1 :: ps).reverse hSr r0 (rs ++ [c0]) (by simp)
        (by intro v hv; rw [hrev, hr]; exact hv)
      rw [List.cons_append, this, lastD_append_single]
    rw [hlow, hup, ← hr0]
    have hr0mem : r0 ∈ c0 :: c1 :: ps := by
      have : r0 ∈ (c1 :: ps).reverse := by rw [hr]; exact List.mem_cons_self
      exact List.mem_cons_of_mem _ (List.mem_reverse.mp this)
    refine ⟨c0, r0, by simp, hmem c0 List.mem_cons_self, hmem r0 hr0mem, rfl, ?_, ?_, ?_⟩
    · rw [getLast?_cons_lastD, hr0]
    · intro q hq
      have hq' : q ∈ c0 :: c1 :: ps := hcs ▸ mem_sortLonLat.mpr hq
      constructor
      · rcases List.mem_cons.mp hq' with rfl | hq''
        · exact lonLatLe_refl _
        · exact (List.pairwise_cons.mp hsorted).1 q hq''
      · rw [hr0]; exact pairwise_le_lastD c0 (c1 :: ps) hsorted q hq'
    · intro hall
      exact hall c0 (hmem c0 List.mem_cons_self) r0 (hmem r0 hr0mem)

end Tbx.Geo
