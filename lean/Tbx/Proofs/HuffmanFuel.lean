import Tbx.Model.Huffman
/-
Fuel of the heap's sift loops (Tbx.Huffman.siftUp / siftDownLoop): once the fuel is at least the number of
iterations the position allows, the result does not depend on it — the models never stop early.
(The other fuelled loops of C20 answer `none` when the fuel runs out and are shown to answer `some`.)
-/
namespace Tbx.Huffman

theorem siftUp_fuel (start : Nat) : ∀ (f1 f2 : Nat) (a : Array Tree) (pos : Nat), pos ≤ f1 → pos ≤ f2 →
    siftUp start f1 a pos = siftUp start f2 a pos := by
  intro f1
  induction f1 with
  | zero =>
    intro f2 a pos h1 _
    have hp : pos = 0 := by omega
    subst hp
    cases f2 with
    | zero => rfl
    | succ f2 => simp [siftUp]
  | succ f1 ih =>
    intro f2 a pos h1 h2
    cases f2 with
    | zero =>
      have hp : pos = 0 := by omega
      subst hp
      simp [siftUp]
    | succ f2 =>
      simp only [siftUp]
      split
      · split
        · rfl
        · exact ih f2 _ _ (by omega) (by omega)
      · rfl

theorem siftDownLoop_fuel (e : Nat) : ∀ (f1 f2 : Nat) (a : Array Tree) (pos : Nat), e ≤ pos + f1 → e ≤ pos + f2 →
    siftDownLoop e f1 a pos = siftDownLoop e f2 a pos := by
  intro f1
  induction f1 with
  | zero =>
    intro f2 a pos h1 _
    cases f2 with
    | zero => rfl
    | succ f2 =>
      simp only [siftDownLoop]
      rw [if_neg (by omega), if_neg (by omega)]
  | succ f1 ih =>
    intro f2 a pos h1 h2
    cases f2 with
    | zero =>
      simp only [siftDownLoop]
      rw [if_neg (by omega), if_neg (by omega)]
    | succ f2 =>
      simp only [siftDownLoop]
      split
      · split
        · exact ih f2 _ _ (by omega) (by omega)
        · exact ih f2 _ _ (by omega) (by omega)
      · rfl

/-- the final hole position of the descent stays inside the array -/
theorem siftDownLoop_pos (e : Nat) : ∀ (f : Nat) (a : Array Tree) (pos : Nat), pos < e →
    (siftDownLoop e f a pos).2 < e := by
  intro f
  induction f with
  | zero => intro a pos h; simpa [siftDownLoop] using h
  | succ f ih =>
    intro a pos h
    simp only [siftDownLoop]
    split
    · split
      · exact ih _ _ (by omega)
      · exact ih _ _ (by omega)
    · split
      · show 2 * pos + 1 < e
        omega
      · exact h

end Tbx.Huffman
