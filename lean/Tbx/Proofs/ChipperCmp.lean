import Tbx.Model.Chipper
/-
`flow_cmp` is a strict weak order on results with non-empty sides, and `min_by` (as the left fold, or as any
reduction tree) returns its LEFTMOST minimum.  Core Lean only.

  Lt a b          a is strictly better than b: smaller flow, or equal flow and strictly larger balance
                  (balance compared as the exact rational min(|L|,|R|)/(|L|+|R|) by cross multiplication)
  flowCmp_gt_iff  `flowCmp a b = .gt ↔ Lt b a`
  Split xs x      xs = l ++ x :: r, every element of l strictly worse than x, no element of r strictly better
  minBy_of_split / split_of_minBy / exists_split      `minBy xs = some x ↔ Split xs x`
  minBy_filter    removing elements that are not flow-minimal does not change the winner (used for C06)
  RTree.reduce_eq rayon's `reduce_with` over any tree shape = the left fold
-/
namespace Tbx.Chipper
open Tbx.InertialFlow

/-- balance of `a` strictly below balance of `b` -/
def BalLt (a b : FlowRes) : Prop := balanceNum a * balanceDen b < balanceNum b * balanceDen a

/-- `a` strictly better than `b` -/
def Lt (a b : FlowRes) : Prop := a.flow < b.flow ∨ (a.flow = b.flow ∧ BalLt b a)

instance (a b : FlowRes) : Decidable (BalLt a b) := by unfold BalLt; exact inferInstance
instance (a b : FlowRes) : Decidable (Lt a b) := by unfold Lt; exact inferInstance

theorem flowCmp_gt_iff (a b : FlowRes) : flowCmp a b = .gt ↔ Lt b a := by
  unfold flowCmp Lt BalLt
  by_cases h : a.flow = b.flow
  · rw [if_pos h, Nat.compare_eq_gt]
    constructor
    · intro hh; exact Or.inr ⟨h.symm, hh⟩
    · intro hh
      rcases hh with hh | ⟨_, hh⟩
      · omega
      · exact hh
  · rw [if_neg h, Int.compare_eq_gt]
    constructor
    · intro hh; exact Or.inl hh
    · intro hh
      rcases hh with hh | ⟨h2, _⟩
      · exact hh
      · exact absurd h2.symm h

theorem minOp_eq (a b : FlowRes) : minOp a b = if Lt b a then b else a := by
  unfold minOp
  by_cases h : Lt b a
  · rw [if_pos h, if_pos ((flowCmp_gt_iff a b).mpr h)]
  · rw [if_neg h, if_neg (fun hh => h ((flowCmp_gt_iff a b).mp hh))]

/-! ### cross-multiplication arithmetic -/

private theorem cross_lt_lt {pa qa pb qb pc qc : Nat}
    (h1 : pa * qb < pb * qa) (h2 : pb * qc < pc * qb) : pa * qc < pc * qa := by
  have hqa : 0 < qa := by
    rcases Nat.eq_zero_or_pos qa with h | h
    · subst h; simp at h1
    · exact h
  have hqb : 0 < qb := by
    rcases Nat.eq_zero_or_pos qb with h | h
    · subst h; simp at h2
    · exact h
  have e1 : pa * qc * qb = pa * qb * qc := Nat.mul_right_comm _ _ _
  have e2 : pb * qa * qc = pb * qc * qa := Nat.mul_right_comm _ _ _
  have e3 : pc * qb * qa = pc * qa * qb := Nat.mul_right_comm _ _ _
  have s1 : pa * qb * qc ≤ pb * qa * qc := Nat.mul_le_mul_right _ (Nat.le_of_lt h1)
  have s2 : pb * qc * qa < pc * qb * qa := Nat.mul_lt_mul_of_pos_right h2 hqa
  have : pa * qc * qb < pc * qa * qb := by omega
  exact Nat.lt_of_mul_lt_mul_right this

private theorem cross_lt_le {pa qa pb qb pc qc : Nat} (hqc : 0 < qc)
    (h1 : pa * qb < pb * qa) (h2 : pb * qc ≤ pc * qb) : pa * qc < pc * qa := by
  have e1 : pa * qc * qb = pa * qb * qc := Nat.mul_right_comm _ _ _
  have e2 : pb * qa * qc = pb * qc * qa := Nat.mul_right_comm _ _ _
  have e3 : pc * qb * qa = pc * qa * qb := Nat.mul_right_comm _ _ _
  have s1 : pa * qb * qc < pb * qa * qc := Nat.mul_lt_mul_of_pos_right h1 hqc
  have s2 : pb * qc * qa ≤ pc * qb * qa := Nat.mul_le_mul_right _ h2
  have : pa * qc * qb < pc * qa * qb := by omega
  exact Nat.lt_of_mul_lt_mul_right this

private theorem cross_le_lt {pa qa pb qb pc qc : Nat} (hqa : 0 < qa)
    (h1 : pa * qb ≤ pb * qa) (h2 : pb * qc < pc * qb) : pa * qc < pc * qa := by
  have e1 : pa * qc * qb = pa * qb * qc := Nat.mul_right_comm _ _ _
  have e2 : pb * qa * qc = pb * qc * qa := Nat.mul_right_comm _ _ _
  have e3 : pc * qb * qa = pc * qa * qb := Nat.mul_right_comm _ _ _
  have s1 : pa * qb * qc ≤ pb * qa * qc := Nat.mul_le_mul_right _ h1
  have s2 : pb * qc * qa < pc * qb * qa := Nat.mul_lt_mul_of_pos_right h2 hqa
  have : pa * qc * qb < pc * qa * qb := by omega
  exact Nat.lt_of_mul_lt_mul_right this

/-! ### order facts -/

theorem Lt.trans {a b c : FlowRes} (h1 : Lt a b) (h2 : Lt b c) : Lt a c := by
  unfold Lt at *
  rcases h1 with h1 | ⟨e1, b1⟩ <;> rcases h2 with h2 | ⟨e2, b2⟩
  · left; omega
  · left; omega
  · left; omega
  · right; exact ⟨by omega, cross_lt_lt b2 b1⟩

/-- a ≤ b < c -/
theorem lt_of_not_lt_of_lt {a b c : FlowRes} (ha : 0 < balanceDen a)
    (h1 : ¬ Lt b a) (h2 : Lt b c) : Lt a c := by
  unfold Lt at *
  have hf : a.flow ≤ b.flow := by
    rcases (show b.flow < a.flow ∨ a.flow ≤ b.flow by omega) with h | h
    · exact absurd (Or.inl h) h1
    · exact h
  rcases h2 with h2 | ⟨e2, b2⟩
  · left; omega
  · rcases (show a.flow < b.flow ∨ b.flow ≤ a.flow by omega) with h | h
    · left; omega
    · have e1 : b.flow = a.flow := by omega
      have nb : ¬ BalLt a b := fun hb => h1 (Or.inr ⟨e1, hb⟩)
      right
      refine ⟨by omega, ?_⟩
      unfold BalLt at *
      exact cross_lt_le ha b2 (by omega)

/-- a < b ≤ c -/
theorem lt_of_lt_of_not_lt {a b c : FlowRes} (hc : 0 < balanceDen c)
    (h1 : Lt a b) (h2 : ¬ Lt c b) : Lt a c := by
  unfold Lt at *
  have hf : b.flow ≤ c.flow := by
    rcases (show c.flow < b.flow ∨ b.flow ≤ c.flow by omega) with h | h
    · exact absurd (Or.inl h) h2
    · exact h
  rcases h1 with h1 | ⟨e1, b1⟩
  · left; omega
  · rcases (show b.flow < c.flow ∨ c.flow ≤ b.flow by omega) with h | h
    · left; omega
    · have e2 : c.flow = b.flow := by omega
      have nb : ¬ BalLt b c := fun hb => h2 (Or.inr ⟨e2, hb⟩)
      right
      refine ⟨by omega, ?_⟩
      unfold BalLt at *
      exact cross_le_lt hc (by omega) b1

theorem Lt.irrefl (a : FlowRes) : ¬ Lt a a := by
  unfold Lt BalLt; intro h; rcases h with h | ⟨_, h⟩ <;> omega

theorem Lt.asymm {a b : FlowRes} (h : Lt a b) : ¬ Lt b a := fun h2 => Lt.irrefl a (Lt.trans h h2)

/-! ### the leftmost minimum -/

/-- `x` sits in `xs` with only strictly worse elements before it and no strictly better element after it -/
def Split (xs : List FlowRes) (x : FlowRes) : Prop :=
  ∃ l r, xs = l ++ x :: r ∧ (∀ y ∈ l, Lt x y) ∧ (∀ y ∈ r, ¬ Lt y x)

theorem foldl_minOp_keep (acc : FlowRes) (r : List FlowRes) (h : ∀ y ∈ r, ¬ Lt y acc) :
    r.foldl minOp acc = acc := by
  induction r with
  | nil => rfl
  | cons y r ih =>
    simp only [List.foldl_cons]
    rw [minOp_eq, if_neg (h y (List.mem_cons_self))]
    exact ih (fun z hz => h z (List.mem_cons_of_mem _ hz))

theorem foldl_minOp_skip (x : FlowRes) (l r : List FlowRes) (acc : FlowRes)
    (hacc : Lt x acc) (hl : ∀ y ∈ l, Lt x y) :
    (l ++ x :: r).foldl minOp acc = r.foldl minOp x := by
  induction l generalizing acc with
  | nil =>
    simp only [List.nil_append, List.foldl_cons]
    rw [minOp_eq, if_pos hacc]
  | cons y l ih =>
    simp only [List.cons_append, List.foldl_cons]
    apply ih
    · rw [minOp_eq]
      split
      · exact hl y (List.mem_cons_self)
      · exact hacc
    · exact fun z hz => hl z (List.mem_cons_of_mem _ hz)

theorem minBy_of_split {xs : List FlowRes} {x : FlowRes} (h : Split xs x) : minBy xs = some x := by
  obtain ⟨l, r, rfl, hl, hr⟩ := h
  cases l with
  | nil =>
    simp only [List.nil_append, minBy]
    rw [foldl_minOp_keep x r hr]
  | cons y l =>
    simp only [List.cons_append, minBy]
    rw [foldl_minOp_skip x l r y (hl y (List.mem_cons_self))
      (fun z hz => hl z (List.mem_cons_of_mem _ hz)), foldl_minOp_keep x r hr]

theorem exists_split (xs : List FlowRes) (hne : xs ≠ []) (hpos : ∀ y ∈ xs, 0 < balanceDen y) :
    ∃ x, Split xs x := by
  induction xs with
  | nil => exact absurd rfl hne
  | cons a xs ih =>
    cases xs with
    | nil => exact ⟨a, ⟨[], [], rfl, (fun _ hy => absurd hy List.not_mem_nil), (fun _ hy => absurd hy List.not_mem_nil)⟩⟩
    | cons b xs =>
      obtain ⟨x, l, r, e, hl, hr⟩ := ih (by simp) (fun y hy => hpos y (List.mem_cons_of_mem _ hy))
      have hxmem : x ∈ b :: xs := by rw [e]; simp
      have hxpos : 0 < balanceDen x := hpos x (List.mem_cons_of_mem _ hxmem)
      have hapos : 0 < balanceDen a := hpos a (List.mem_cons_self)
      by_cases hax : Lt x a
      · refine ⟨x, ⟨a :: l, r, by rw [e]; rfl, ?_, hr⟩⟩
        intro y hy
        rcases List.mem_cons.mp hy with rfl | hy
        · exact hax
        · exact hl y hy
      · refine ⟨a, ⟨[], b :: xs, rfl, (fun _ hy => absurd hy List.not_mem_nil), ?_⟩⟩
        intro y hy
        rw [e] at hy
        rcases List.mem_append.mp hy with hy | hy
        · -- a ≤ x < y
          intro hya
          exact Lt.asymm (lt_of_not_lt_of_lt hapos hax (hl y hy)) hya
        · rcases List.mem_cons.mp hy with rfl | hy
          · exact hax
          · -- a ≤ x ≤ y
            intro hya
            exact hr y hy (lt_of_lt_of_not_lt hxpos hya hax)

theorem split_of_minBy {xs : List FlowRes} {x : FlowRes} (hpos : ∀ y ∈ xs, 0 < balanceDen y)
    (h : minBy xs = some x) : Split xs x := by
  have hne : xs ≠ [] := by intro e; subst e; simp [minBy] at h
  obtain ⟨x', hs⟩ := exists_split xs hne hpos
  have := minBy_of_split hs
  rw [h] at this
  cases this
  exact hs

theorem minBy_mem {xs : List FlowRes} {x : FlowRes} (hpos : ∀ y ∈ xs, 0 < balanceDen y)
    (h : minBy xs = some x) : x ∈ xs := by
  obtain ⟨l, r, e, _, _⟩ := split_of_minBy hpos h
  rw [e]; simp

theorem minBy_eq_none {xs : List FlowRes} : minBy xs = none ↔ xs = [] := by
  cases xs <;> simp [minBy]

/-- dropping elements whose flow is not the smallest one leaves the winner unchanged -/
theorem minBy_filter (xs : List FlowRes) (p : FlowRes → Bool)
    (hpos : ∀ y ∈ xs, 0 < balanceDen y)
    (hkeep : ∀ x ∈ xs, (∀ y ∈ xs, x.flow ≤ y.flow) → p x = true) :
    minBy (xs.filter p) = minBy xs := by
  cases hx : minBy xs with
  | none =>
    have := minBy_eq_none.mp hx
    subst this; rfl
  | some x =>
    obtain ⟨l, r, e, hl, hr⟩ := split_of_minBy hpos hx
    have hmin : ∀ y ∈ xs, x.flow ≤ y.flow := by
      intro y hy
      rw [e] at hy
      rcases List.mem_append.mp hy with hy | hy
      · have := hl y hy
        unfold Lt at this; omega
      · rcases List.mem_cons.mp hy with rfl | hy
        · exact Int.le_refl _
        · have := hr y hy
          unfold Lt at this
          rcases (show y.flow < x.flow ∨ x.flow ≤ y.flow by omega) with h | h
          · exact absurd (Or.inl h) this
          · exact h
    have hpx : p x = true := hkeep x (by rw [e]; simp) hmin
    apply minBy_of_split
    refine ⟨l.filter p, r.filter p, ?_, ?_, ?_⟩
    · rw [e, List.filter_append, List.filter_cons, if_pos hpx]
    · intro y hy; exact hl y (List.mem_filter.mp hy).1
    · intro y hy; exact hr y (List.mem_filter.mp hy).1

/-! ### reduction trees (rayon's `reduce_with`) -/

/-- a way of splitting a non-empty sequence into halves recursively -/
inductive RTree where
  | leaf (x : FlowRes)
  | node (l r : RTree)

def RTree.flatten : RTree → List FlowRes
  | .leaf x => [x]
  | .node l r => l.flatten ++ r.flatten

/-- `reduce_with(minOp)` along the tree: the two halves are reduced independently, then combined -/
def RTree.reduce : RTree → FlowRes
  | .leaf x => x
  | .node l r => minOp l.reduce r.reduce

theorem RTree.flatten_ne_nil (t : RTree) : t.flatten ≠ [] := by
  induction t with
  | leaf x => simp [RTree.flatten]
  | node l r ihl _ => simp [RTree.flatten, ihl]

theorem RTree.reduce_split (t : RTree) (hpos : ∀ y ∈ t.flatten, 0 < balanceDen y) :
    Split t.flatten t.reduce := by
  induction t with
  | leaf x => exact ⟨[], [], rfl, (fun _ hy => absurd hy List.not_mem_nil), (fun _ hy => absurd hy List.not_mem_nil)⟩
  | node l r ihl ihr =>
    have hposl : ∀ y ∈ l.flatten, 0 < balanceDen y := fun y hy => hpos y (by simp [RTree.flatten, hy])
    have hposr : ∀ y ∈ r.flatten, 0 < balanceDen y := fun y hy => hpos y (by simp [RTree.flatten, hy])
    obtain ⟨l1, r1, e1, hl1, hr1⟩ := ihl hposl
    obtain ⟨l2, r2, e2, hl2, hr2⟩ := ihr hposr
    have hxl : 0 < balanceDen l.reduce := hposl _ (by rw [e1]; simp)
    have hxr : 0 < balanceDen r.reduce := hposr _ (by rw [e2]; simp)
    simp only [RTree.flatten, RTree.reduce]
    rw [minOp_eq]
    split
    · rename_i hlt
      -- the right half wins: everything in the left half is strictly worse
      refine ⟨l.flatten ++ l2, r2, by rw [e2]; simp, ?_, hr2⟩
      intro y hy
      rcases List.mem_append.mp hy with hy | hy
      · rw [e1] at hy
        rcases List.mem_append.mp hy with hy | hy
        · exact Lt.trans hlt (hl1 y hy)
        · rcases List.mem_cons.mp hy with rfl | hy
          · exact hlt
          · exact lt_of_lt_of_not_lt (hposl y (by rw [e1]; simp [hy])) hlt (hr1 y hy)
      · exact hl2 y hy
    · rename_i hnlt
      refine ⟨l1, r1 ++ r.flatten, by rw [e1]; simp, hl1, ?_⟩
      intro y hy
      rcases List.mem_append.mp hy with hy | hy
      · exact hr1 y hy
      · rw [e2] at hy
        rcases List.mem_append.mp hy with hy | hy
        · intro hyl
          exact Lt.asymm (lt_of_not_lt_of_lt hxl hnlt (hl2 y hy)) hyl
        · rcases List.mem_cons.mp hy with rfl | hy
          · exact hnlt
          · intro hyl
            exact hr2 y hy (lt_of_lt_of_not_lt hxr hyl hnlt)

theorem RTree.reduce_eq (t : RTree) (hpos : ∀ y ∈ t.flatten, 0 < balanceDen y) :
    minBy t.flatten = some t.reduce :=
  minBy_of_split (t.reduce_split hpos)

end Tbx.Chipper
