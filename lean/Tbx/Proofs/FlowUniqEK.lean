import Tbx.Proofs.FlowUniq
/-
`merge_cap`, second half, for the EdmondsKarp / FordFulkerson constructor (sort by the derived `Ord`,
`dedup_by`, `StaticGraph::new` which sorts once more): unique (source,target) pairs, every edge has its
reverse.  Needed for the termination proofs (the bottleneck edge found by `find_edge_unchecked` is the
positive one; the reverse edge exists).
-/
namespace Tbx.Flow
open Tbx

/-- a comparator that refines the (source,target) order -/
def KeyLe (le : Edge → Edge → Bool) : Prop :=
  ∀ a b, (le a b = true → LeK a b) ∧ (le a b = false → LeK b a)

theorem leST_keyLe : KeyLe leST := by
  intro a b
  constructor
  · exact (leST_iff a b).mp
  · intro h
    have : ¬ LeK a b := fun hh => by rw [(leST_iff a b).mpr hh] at h; cases h
    unfold LeK at *; omega

theorem leOrd_keyLe : KeyLe leOrd := by
  intro a b
  unfold leOrd LeK
  constructor
  · intro h
    split at h
    · left; simpa using h
    · rename_i h1; have hs : a.src = b.src := by simpa using h1
      split at h
      · right; exact ⟨hs, by have : a.tgt < b.tgt := by simpa using h
                             omega⟩
      · rename_i h2; have : a.tgt = b.tgt := by simpa using h2
        right; exact ⟨hs, by omega⟩
  · intro h
    split at h
    · rename_i h1
      have : ¬ a.src < b.src := by simpa using h
      left; omega
    · rename_i h1; have hs : a.src = b.src := by simpa using h1
      split at h
      · rename_i h2
        have : ¬ a.tgt < b.tgt := by simpa using h
        right; exact ⟨hs.symm, by omega⟩
      · rename_i h2; have : a.tgt = b.tgt := by simpa using h2
        right; exact ⟨hs.symm, by omega⟩

theorem insertSorted_leK' (le : Edge → Edge → Bool) (hle : KeyLe le) (x : Edge) (L : List Edge)
    (h : L.Pairwise LeK) : (insertSorted le x L).Pairwise LeK := by
  induction L with
  | nil => simp [insertSorted]
  | cons a L ih =>
    simp only [insertSorted]
    rw [List.pairwise_cons] at h
    split
    · rename_i hc
      have hxa := (hle x a).1 hc
      rw [List.pairwise_cons]
      refine ⟨?_, List.pairwise_cons.mpr h⟩
      intro z hz
      rcases List.mem_cons.mp hz with rfl | h1
      · exact hxa
      · have := h.1 z h1
        unfold LeK at *; omega
    · rename_i hc
      have hax : LeK a x := (hle x a).2 (by simpa using hc)
      rw [List.pairwise_cons]
      refine ⟨?_, ih h.2⟩
      intro z hz
      rcases (mem_insertSorted le x z L).mp hz with rfl | h1
      · exact hax
      · exact h.1 z h1

theorem sortBy_leK' (le : Edge → Edge → Bool) (hle : KeyLe le) (L : List Edge) : (sortBy le L).Pairwise LeK := by
  induction L with
  | nil => simp [sortBy]
  | cons a L ih => simp only [sortBy]; exact insertSorted_leK' le hle a _ ih

/-- inserting an element whose key differs from all keys keeps strict sortedness -/
theorem insertSorted_ltK (le : Edge → Edge → Bool) (hle : KeyLe le) (x : Edge) (L : List Edge)
    (hd : ∀ z, z ∈ L → ¬ (z.src = x.src ∧ z.tgt = x.tgt)) (h : L.Pairwise LtK) :
    (insertSorted le x L).Pairwise LtK := by
  induction L with
  | nil => simp [insertSorted]
  | cons a L ih =>
    simp only [insertSorted]
    rw [List.pairwise_cons] at h
    have hda := hd a List.mem_cons_self
    split
    · rename_i hc
      have hxa := (hle x a).1 hc
      have hlt : LtK x a := by unfold LeK at hxa; unfold LtK; omega
      rw [List.pairwise_cons]
      refine ⟨?_, List.pairwise_cons.mpr h⟩
      intro z hz
      rcases List.mem_cons.mp hz with rfl | h1
      · exact hlt
      · have := h.1 z h1
        unfold LtK at *; omega
    · rename_i hc
      have hax : LeK a x := (hle x a).2 (by simpa using hc)
      have hlt : LtK a x := by unfold LeK at hax; unfold LtK; omega
      rw [List.pairwise_cons]
      refine ⟨?_, ih (fun z hz => hd z (List.mem_cons_of_mem _ hz)) h.2⟩
      intro z hz
      rcases (mem_insertSorted le x z L).mp hz with rfl | h1
      · exact hlt
      · exact h.1 z h1

theorem sortBy_ltK (le : Edge → Edge → Bool) (hle : KeyLe le) (L : List Edge) (h : L.Pairwise LtK) :
    (sortBy le L).Pairwise LtK := by
  induction L with
  | nil => simp [sortBy]
  | cons a L ih =>
    rw [List.pairwise_cons] at h
    simp only [sortBy]
    apply insertSorted_ltK le hle a _ _ (ih h.2)
    intro z hz
    have := h.1 z ((mem_sortBy le z L).mp hz)
    unfold LtK at this; omega

/-- the reversed key of every element is present in the list handed to `csr` -/
theorem mergedList_rev (le : Edge → Edge → Bool) (es : List Edge) :
    ∀ y, y ∈ mergedList le es → ∃ y', y' ∈ mergedList le es ∧ y'.src = y.tgt ∧ y'.tgt = y.src := by
  intro y hy
  unfold mergedList at hy ⊢
  cases hL : sortBy le (extend es) with
  | nil => rw [hL] at hy; simp [dedupMerge] at hy
  | cons a L =>
    rw [hL] at hy
    obtain ⟨d1, d2, _⟩ := dedupInto_mem L a
    obtain ⟨y0, m1, m2, m3⟩ := d1 y hy
    rw [← hL] at m1
    have hin := (mem_sortBy le y0 _).mp m1
    have hrev : ∃ z, z ∈ extend es ∧ z.src = y0.tgt ∧ z.tgt = y0.src := by
      rcases (mem_extend es y0).mp hin with h | ⟨e, he, rfl⟩
      · exact ⟨{ src := y0.tgt, tgt := y0.src, cap := 0 }, (mem_extend es _).mpr (Or.inr ⟨y0, h, rfl⟩), rfl, rfl⟩
      · exact ⟨e, (mem_extend es e).mpr (Or.inl he), rfl, rfl⟩
    obtain ⟨z, hz, z1, z2⟩ := hrev
    have hz' : z ∈ a :: L := by rw [← hL]; exact (mem_sortBy le z _).mpr hz
    obtain ⟨w, w1, w2, w3⟩ := d2 z hz'
    exact ⟨w, w1, by rw [w2, z1, m3], by rw [w3, z2, m2]⟩

/-- **merge_cap, second half** (EdmondsKarp / FordFulkerson constructor) -/
theorem residualEK_uniq_rev (es : List Edge) : Uniq (residualEK es) ∧ RevClosed (residualEK es) := by
  have hs : SrcSorted (sortBy leOrd (mergedList leOrd es)) := sortBy_srcSorted leOrd leOrd_srcLe _
  have hlt : (mergedList leOrd es).Pairwise LtK := dedupMerge_ltK _ (sortBy_leK' leOrd leOrd_keyLe _)
  constructor
  · exact csr_uniq _ hs (sortBy_ltK leOrd leOrd_keyLe _ hlt)
  · apply csr_revClosed _ hs
    intro y hy
    obtain ⟨y', a, b, c⟩ := mergedList_rev leOrd es y ((mem_sortBy leOrd y _).mp hy)
    exact ⟨y', (mem_sortBy leOrd y' _).mpr a, b, c⟩

end Tbx.Flow
