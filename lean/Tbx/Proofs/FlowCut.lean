import Tbx.Proofs.FlowBuild
/-
C02 on the EdmondsKarp / FordFulkerson models end to end: after a `run` that returns, `assignment(s)` is
the canonical minimum cut of the merged input capacities.
-/
namespace Tbx.Flow
open Tbx Tbx.FlowTheory Tbx.FlowSpec

theorem reachG_reach {n : Nat} (g : Graph) (hn : g.numNodes = n) (hwf : WF g) (hnn : NonNeg g) (s : Fin n)
    (v : Nat) (h : ReachG g s.val v) : ∃ hv : v < n, Reach (rF g n) s ⟨v, hv⟩ := by
  induction h with
  | refl => exact ⟨s.isLt, Reach.refl⟩
  | @step u w _ he ih =>
    obtain ⟨hu, hr⟩ := ih
    have hw : w < n := by
      obtain ⟨e, _, _, h3, h4⟩ := he
      rw [← hn, ← h3]; exact hwf.targetsOK e h4
    refine ⟨hw, Reach.step hr ?_⟩
    show 0 < rOf g u w
    exact (rOf_pos_iff g hnn u w).mpr he

theorem reach_reachG {n : Nat} (g : Graph) (hnn : NonNeg g) (s v : Fin n) (h : Reach (rF g n) s v) :
    ReachG g s.val v.val := by
  induction h with
  | refl => exact ReachG.refl
  | @step u w _ hpos ih => exact ReachG.step ih ((rOf_pos_iff g hnn u.val w.val).mp hpos)

/-- C02 for any solver state satisfying the loop invariant in which the target is unreachable -/
theorem assignment_canonical {n : Nat} {c : Fin n → Fin n → ℤ} {s t : Fin n} (g : Graph) (flow : ℤ)
    (hi : FInv c s t g flow) (hun : ¬ ReachG g s.val t.val) (bits : Array Bool)
    (hb : assignmentOut g true s.val = .ok bits) :
    bits.size = n ∧ s ∈ setOf n (fun v => gt bits v) ∧ t ∉ setOf n (fun v => gt bits v) ∧
    cutCap c (setOf n (fun v => gt bits v)) = flow ∧
    (∀ S' : Finset (Fin n), s ∈ S' → t ∉ S' → cutCap c (setOf n (fun v => gt bits v)) ≤ cutCap c S') ∧
    (∀ S' : Finset (Fin n), s ∈ S' → t ∉ S' → cutCap c S' = flow → setOf n (fun v => gt bits v) ⊆ S') := by
  obtain ⟨hsz, hcl⟩ := assignmentOut_closure g s.val hi.wf.targetsOK bits hb
  have hA : ∀ v : Fin n, v ∈ setOf n (fun v => gt bits v) ↔ Reach (rF g n) s v := by
    intro v
    rw [mem_setOf]
    constructor
    · intro hv
      obtain ⟨_, hr⟩ := reachG_reach g hi.hn hi.wf hi.nn s v.val ((hcl v.val).mp hv)
      exact hr
    · intro hr
      exact (hcl v.val).mpr (reach_reachG g hi.nn _ v hr)
  have htA : t ∉ setOf n (fun v => gt bits v) := by
    intro hm'
    exact hun (reach_reachG g hi.nn _ _ ((hA _).mp hm'))
  obtain ⟨a1, a2, a3, _, a5⟩ := closure_is_min_cut hi.inv hi.cons _ hA htA
  refine ⟨by rw [hsz, hi.hn], a1, a2, by rw [a3, hi.val], a5, ?_⟩
  intro S' hs' ht' heq
  exact closure_minimal hi.inv hi.cons _ hA S' hs' ht' (by rw [heq, hi.val])

/-- **C02 for the EK/FF models**: after a run that returns, `assignment(s)` returns one bit per node; the
    set it denotes contains s, not t, is exactly the positive-residual closure, its cut capacity over the
    input edges is the reported flow (= the maximum flow), it is a minimum cut and is contained in every
    minimum cut -/
theorem ek_ff_assignment (es : List Edge) (s t : Nat) (hnn : ∀ e, e ∈ es → 0 ≤ e.cap) (hst : s ≠ t)
    (hN : nNodes (es.map toE) ≤ INV) (pop : List Nat → Option (Nat × List Nat)) (hp : PopOK pop)
    (fuel : Nat) (sv' : Solver) (h : (Solver.fromEdgeList es s t).run pop fuel = some sv')
    (bits : Array Bool) (hb : sv'.assignment? s = .ok bits) :
    ∃ (hs : s < nNodes (es.map toE)) (ht : t < nNodes (es.map toE)),
      let n := nNodes (es.map toE)
      let c := cF (es.map toE) n
      let A := setOf n (fun v => gt bits v)
      bits.size = n ∧ ⟨s, hs⟩ ∈ A ∧ ⟨t, ht⟩ ∉ A ∧ cutCap c A = sv'.maxFlow ∧
      IsMaxFlowValue c ⟨s, hs⟩ ⟨t, ht⟩ sv'.maxFlow ∧
      (∀ S' : Finset (Fin n), ⟨s, hs⟩ ∈ S' → ⟨t, ht⟩ ∉ S' → cutCap c A ≤ cutCap c S') ∧
      (∀ S' : Finset (Fin n), ⟨s, hs⟩ ∈ S' → ⟨t, ht⟩ ∉ S' → cutCap c S' = sv'.maxFlow → A ⊆ S') := by
  have hm := merge_cap_ek es hnn
  have hnum : (residualEK es).numNodes = nNodes (es.map toE) := by rw [hm.2.1, maxId_eq_spec]; rfl
  have hguard : s < nNodes (es.map toE) ∧ t < nNodes (es.map toE) := by
    unfold Solver.run at h
    split at h
    · cases h
    · rename_i hg
      have : ¬ (s ≥ (residualEK es).numNodes ∨ t ≥ (residualEK es).numNodes) := hg
      rw [hnum] at this; omega
  refine ⟨hguard.1, hguard.2, ?_⟩
  have hi := init_finv (residualEK es) es ⟨s, hguard.1⟩ ⟨t, hguard.2⟩ hm
  obtain ⟨hmax, hfi, hfin, hun⟩ := run_correct (fun e => hst (Fin.mk.inj e)) hN pop hp
    (Solver.fromEdgeList es s t) sv' fuel rfl rfl hi h
  intro n c A
  have hb' : assignmentOut sv'.g true s = .ok bits := by
    unfold Solver.assignment? at hb; rw [hfin] at hb; exact hb
  obtain ⟨b1, b2, b3, b4, b5, b6⟩ := assignment_canonical sv'.g sv'.maxFlow hfi hun bits hb'
  exact ⟨b1, b2, b3, b4, hmax, b5, b6⟩

end Tbx.Flow
