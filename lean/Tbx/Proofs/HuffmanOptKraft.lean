import Tbx.Proofs.HuffmanOptDefs
/-
Kraft's inequality for prefix-free binary codes (`prefixFree_kraft`), by induction on the length bound:
the words starting with `false` and the words starting with `true` form, after dropping the first bit,
two prefix-free codes of length bound one less.  Core Lean only.
-/
namespace Tbx.Spec.Huff

/-- a sum over a list splits along a Boolean predicate -/
theorem sum_map_filter_split {α : Type} (p : α → Bool) (f : α → Nat) (l : List α) :
    (l.map f).sum = ((l.filter p).map f).sum + ((l.filter fun x => !p x).map f).sum := by
  induction l with
  | nil => rfl
  | cons a t ih =>
    cases hp : p a <;> simp [hp, ih] <;> omega

/-- the empty word is a prefix of everything: a prefix-free code containing it is `[[]]` -/
theorem prefixFree_nil_mem {cs : List Code} (h : PrefixFree cs) (hm : [] ∈ cs) : cs = [[]] := by
  cases cs with
  | nil => cases hm
  | cons c t =>
    have h' := List.pairwise_cons.mp h
    cases t with
    | nil => simpa using hm
    | cons d t' =>
      exfalso
      rcases List.mem_cons.mp hm with hc | hm'
      · subst hc
        exact (h'.1 d (by simp)).1 (List.nil_prefix)
      · exact (h'.1 [] hm').2 List.nil_prefix

/-- the word starts with bit `b` -/
def headIs (b : Bool) : Code → Bool
  | x :: _ => x == b
  | [] => false

theorem headIs_eq_true {b : Bool} {c : Code} (h : headIs b c = true) : c = b :: c.tail := by
  cases c with
  | nil => simp [headIs] at h
  | cons x t => simp [headIs] at h; simp [h]

theorem headIs_not (c : Code) (hc : c ≠ []) : (!headIs false c) = headIs true c := by
  cases c with
  | nil => exact absurd rfl hc
  | cons x t => cases x <;> rfl

/-- the tails of the words starting with `b` -/
def tailsOf (b : Bool) (cs : List Code) : List Code := (cs.filter (headIs b)).map List.tail

theorem prefixFree_tailsOf (b : Bool) {cs : List Code} (h : PrefixFree cs) : PrefixFree (tailsOf b cs) := by
  unfold tailsOf PrefixFree
  rw [List.pairwise_map]
  have hf : (cs.filter (headIs b)).Pairwise fun a c => ¬ a <+: c ∧ ¬ c <+: a := List.Pairwise.filter _ h
  refine hf.imp_of_mem ?_
  intro a c ha hc hac
  have ea := headIs_eq_true (List.mem_filter.mp ha).2
  have ec := headIs_eq_true (List.mem_filter.mp hc).2
  rw [ea, ec, List.cons_prefix_cons, List.cons_prefix_cons] at hac
  exact ⟨fun hp => hac.1 ⟨rfl, hp⟩, fun hp => hac.2 ⟨rfl, hp⟩⟩

theorem tailsOf_length_le (b : Bool) {cs : List Code} {L : Nat} (hL : ∀ c ∈ cs, c.length ≤ L + 1) :
    ∀ c ∈ tailsOf b cs, c.length ≤ L := by
  intro c hc
  obtain ⟨d, hd, rfl⟩ := List.mem_map.mp hc
  have hd' := List.mem_filter.mp hd
  have e := headIs_eq_true hd'.2
  have := hL d hd'.1
  rw [e] at this
  simpa using this

/-- the part of the Kraft sum carried by the words starting with `b` -/
theorem kraft_filter_eq (b : Bool) (cs : List Code) (L : Nat) :
    ((cs.filter (headIs b)).map fun c => 2 ^ (L + 1 - c.length)).sum
      = ((tailsOf b cs).map fun c => 2 ^ (L - c.length)).sum := by
  unfold tailsOf
  rw [List.map_map]
  congr 1
  apply List.map_congr_left
  intro c hc
  have e := headIs_eq_true (List.mem_filter.mp hc).2
  have e2 : c.length = c.tail.length + 1 := by rw [e]; simp
  simp only [Function.comp]
  rw [e2, Nat.add_sub_add_right]

theorem prefixFree_kraft_sum (L : Nat) : ∀ (cs : List Code), PrefixFree cs → (∀ c ∈ cs, c.length ≤ L) →
    (cs.map fun c => 2 ^ (L - c.length)).sum ≤ 2 ^ L := by
  induction L with
  | zero =>
    intro cs h hL
    cases cs with
    | nil => simp
    | cons c t =>
      have hc : c = [] := List.eq_nil_of_length_eq_zero (Nat.le_zero.mp (hL c (by simp)))
      subst hc
      rw [prefixFree_nil_mem h (by simp)]
      simp
  | succ L ih =>
    intro cs h hL
    by_cases hm : [] ∈ cs
    · rw [prefixFree_nil_mem h hm]
      simp
    · rw [sum_map_filter_split (headIs false)]
      have e : (cs.filter fun x => !headIs false x) = cs.filter (headIs true) := by
        apply List.filter_congr
        intro c hc
        exact headIs_not c (fun h0 => hm (h0 ▸ hc))
      rw [e, kraft_filter_eq, kraft_filter_eq]
      have h0 := ih _ (prefixFree_tailsOf false h) (tailsOf_length_le false hL)
      have h1 := ih _ (prefixFree_tailsOf true h) (tailsOf_length_le true hL)
      rw [Nat.pow_succ]
      omega

/-- Kraft's inequality: the code-word lengths of a prefix-free list of binary words, all of length ≤ L, satisfy
    Σ 2^(L - |c|) ≤ 2^L -/
theorem prefixFree_kraft (cs : List Code) (L : Nat) (h : PrefixFree cs) (hL : ∀ c ∈ cs, c.length ≤ L) :
    KraftLe L (cs.map List.length) := by
  refine ⟨?_, ?_⟩
  · intro l hl
    obtain ⟨c, hc, rfl⟩ := List.mem_map.mp hl
    exact hL c hc
  · rw [List.map_map]
    exact prefixFree_kraft_sum L cs h hL

/-- non-vacuity: a concrete prefix-free code (not complete: `[false]` leaves room) and its Kraft bound -/
example : PrefixFree [[true, true], [true, false, true], [true, false, false], [false]] ∧
    KraftLe 3 [2, 3, 3, 1] := by
  have hp : PrefixFree [[true, true], [true, false, true], [true, false, false], [false]] :=
    (prefixFreeB_iff _).mp (by decide)
  exact ⟨hp, prefixFree_kraft _ 3 hp (by decide)⟩

end Tbx.Spec.Huff
