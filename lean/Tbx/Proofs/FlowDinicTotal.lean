import Tbx.Proofs.FlowDinicBfsTotal
/-
Termination part 2 and total correctness of the Dinic model.

  chainMin / augChain : a parent chain is simple, hence not longer than n; its edges and their reverses exist
  dfsEdges / dfsLoop  : `|stack| + #unmarked` never grows inside the edge loop and drops with every pop;
                        as long as no augmentation has happened the DFS is a plain search over the
                        admissible edges, so if the stack empties without an augmentation the marked set
                        is closed — impossible when `bfs` has just exhibited an admissible path
  dinicLoop           : every phase raises the value by ≥ 1 (`dinic_aug_positive`), the value is bounded by
                        the sum of all capacities
-/
namespace Tbx.Flow
open Tbx Tbx.FlowTheory Tbx.FlowSpec

theorem chainMin_total (g : Graph) {n s : Nat} {ps : Array Nat} (hps : gt ps s = s) {w : Nat} {l : List Nat}
    (h : PChain n s ps w l) : (∀ ab, ab ∈ windows l → ∃ e, g.findEdge ab.2 ab.1 = some e) →
    ∀ fuel flow, l.length ≤ fuel → ∃ fl, chainMin g ps fuel w flow = some fl := by
  induction h with
  | base =>
    intro _ fuel flow hf
    cases fuel with
    | zero => simp at hf
    | succ f => exact ⟨flow, by simp [chainMin, hps]⟩
  | @step y l h1 h2 h3 h4 h5 ih =>
    intro hw fuel flow hf
    cases fuel with
    | zero => simp at hf
    | succ f =>
      obtain ⟨tl, rfl⟩ := pchain_head h4
      have hne : gt ps y ≠ y := fun e => h5 (by rw [e]; exact List.mem_cons_self)
      obtain ⟨e, he⟩ := hw (y, gt ps y) (by simp [windows])
      simp only at he
      simp only [chainMin, if_neg hne, he]
      exact ih (fun ab hab => hw ab (by simp only [windows, List.mem_cons]; exact Or.inr hab)) f _
        (by simpa using hf)

theorem augChain_total {n s : Nat} {ps : Array Nat} (hps : gt ps s = s) (fl : ℤ) {v : Nat} {l : List Nat}
    (h : PChain n s ps v l) : ∀ (g : Graph),
    (∀ ab, ab ∈ windows l → (∃ e, g.findEdge ab.2 ab.1 = some e) ∧ ∃ e, g.findEdge ab.1 ab.2 = some e) →
    ∀ fuel ct, l.length ≤ fuel → ∃ r, augChain ps fl fuel v ct g = some r := by
  induction h with
  | base =>
    intro g _ fuel ct hf
    cases fuel with
    | zero => simp at hf
    | succ f => exact ⟨(g, ct), by simp [augChain, hps]⟩
  | @step y l h1 h2 h3 h4 h5 ih =>
    intro g hw fuel ct hf
    cases fuel with
    | zero => simp at hf
    | succ f =>
      obtain ⟨tl, rfl⟩ := pchain_head h4
      have hne : gt ps y ≠ y := fun e => h5 (by rw [e]; exact List.mem_cons_self)
      obtain ⟨⟨fwd, hfwd⟩, ⟨rev, hrev⟩⟩ := hw (y, gt ps y) (by simp [windows])
      simp only at hfwd hrev
      simp only [augChain, if_neg hne, hfwd, hrev]
      apply ih _ _ f _ (by simpa using hf)
      intro ab hab
      simp only [findEdge_cap_irrel]
      exact hw ab (by simp only [windows, List.mem_cons]; exact Or.inr hab)

theorem unwind_length (ps : Array Nat) (ct : Nat) (stk : List (Nat × ℤ)) :
    (unwind ps ct stk).length ≤ stk.length := by
  induction stk with
  | nil => simp [unwind]
  | cons a rest ih =>
    obtain ⟨node, fl⟩ := a
    simp only [unwind]
    split
    · simp
    · simp only [List.length_cons]; omega

/-- everything `dfsEdges` does, for termination: it returns, the measure does not grow, and either an
    augmentation raised the blocking flow or the call was a plain search step -/
theorem dfsEdges_full {n : Nat} {c : Fin n → Fin n → ℤ} {s t : Fin n} (hst : s ≠ t) (hN : n ≤ INV)
    (u : Nat) (flow : ℤ) (hun : u < n) (k : Nat) :
    ∀ (e : Nat) (d : Dinic) (bf : ℤ) (F : ℤ) (lu : List Nat),
    DI c s t d F → DP n s.val d.g d.parents (d.stack.map Prod.fst) →
    PChain n s.val d.parents u lu → (∀ ab, ab ∈ windows lu → PosW d.g ab) →
    u ∉ d.stack.map Prod.fst → (∀ y, y ∈ d.stack.map Prod.fst → gt d.parents y ∈ lu) →
    d.g.beginEdges u ≤ e → e + k ≤ d.g.beginEdges u + d.g.deg u →
    ∃ d' bf', dfsEdges u flow e k d bf = some (d', bf') ∧
      d'.stack.length + unm d'.parents n ≤ d.stack.length + unm d.parents n ∧
      (bf < bf' ∨ (bf' = bf ∧ d'.g = d.g ∧ d'.level = d.level ∧
        (∀ v, Marked d.parents v → Marked d'.parents v) ∧
        (∀ y, y ∈ d.stack.map Prod.fst → y ∈ d'.stack.map Prod.fst) ∧
        (∀ e', e ≤ e' → e' < e + k → gt d.g.cap e' ≠ 0 → gt d.level (gt d.g.tgt e') ≤ gt d.level u →
            Marked d'.parents (gt d.g.tgt e')) ∧
        (∀ v, v < n → Marked d'.parents v → Marked d.parents v ∨ v ∈ d'.stack.map Prod.fst))) := by
  induction k with
  | zero =>
    intro e d bf F lu _ _ _ _ _ _ _ _
    refine ⟨d, bf, by simp [dfsEdges], Nat.le_refl _, Or.inr ⟨rfl, rfl, rfl, fun _ h => h, fun _ h => h, ?_,
      fun _ _ h => Or.inl h⟩⟩
    intro e' h1 h2; omega
  | succ k ih =>
    intro e d bf F lu hi hp hcu hposu hunot hpar hr1 hr2
    have hre : InRange d.g u e := ⟨hr1, by omega⟩
    have hgn := hi.fi.hn
    -- a skipped edge: not admissible or its head is already marked
    have hskip : (gt d.parents (gt d.g.tgt e) ≠ INV ∨ gt d.level u < gt d.level (gt d.g.tgt e) ∨ gt d.g.cap e = 0) →
        dfsEdges u flow (e + 1) k d bf = dfsEdges u flow (e + 1 - 1 + 1) k d bf →
        ∀ (d' : Dinic) (bf' : ℤ), dfsEdges u flow (e + 1) k d bf = some (d', bf') →
        d'.stack.length + unm d'.parents n ≤ d.stack.length + unm d.parents n →
        (bf < bf' ∨ (bf' = bf ∧ d'.g = d.g ∧ d'.level = d.level ∧
          (∀ v, Marked d.parents v → Marked d'.parents v) ∧
          (∀ y, y ∈ d.stack.map Prod.fst → y ∈ d'.stack.map Prod.fst) ∧
          (∀ e', e + 1 ≤ e' → e' < e + 1 + k → gt d.g.cap e' ≠ 0 →
              gt d.level (gt d.g.tgt e') ≤ gt d.level u → Marked d'.parents (gt d.g.tgt e')) ∧
          (∀ v, v < n → Marked d'.parents v → Marked d.parents v ∨ v ∈ d'.stack.map Prod.fst))) →
        (bf < bf' ∨ (bf' = bf ∧ d'.g = d.g ∧ d'.level = d.level ∧
          (∀ v, Marked d.parents v → Marked d'.parents v) ∧
          (∀ y, y ∈ d.stack.map Prod.fst → y ∈ d'.stack.map Prod.fst) ∧
          (∀ e', e ≤ e' → e' < e + (k + 1) → gt d.g.cap e' ≠ 0 →
              gt d.level (gt d.g.tgt e') ≤ gt d.level u → Marked d'.parents (gt d.g.tgt e')) ∧
          (∀ v, v < n → Marked d'.parents v → Marked d.parents v ∨ v ∈ d'.stack.map Prod.fst))) := by
      intro hwhy _ d' bf' _ _ hres
      rcases hres with h | ⟨a1, a2, a3, a4, a5, a6, a7⟩
      · exact Or.inl h
      · refine Or.inr ⟨a1, a2, a3, a4, a5, ?_, a7⟩
        intro e' h1 h2 h3 h4
        by_cases he : e' = e
        · subst he
          rcases hwhy with w | w | w
          · exact a4 _ w
          · omega
          · exact absurd w h3
        · exact a6 e' (by omega) (by omega) h3 h4
    simp only [dfsEdges]
    split
    · rename_i hmk
      obtain ⟨d', bf', h1, h2, h3⟩ := ih (e + 1) d bf F lu hi hp hcu hposu hunot hpar (by omega) (by omega)
      exact ⟨d', bf', h1, h2, hskip (Or.inl hmk) rfl d' bf' h1 h2 h3⟩
    · rename_i hunm
      split
      · rename_i hlv
        obtain ⟨d', bf', h1, h2, h3⟩ := ih (e + 1) d bf F lu hi hp hcu hposu hunot hpar (by omega) (by omega)
        exact ⟨d', bf', h1, h2, hskip (Or.inr (Or.inl hlv)) rfl d' bf' h1 h2 h3⟩
      · rename_i hlv
        split
        · rename_i hz
          obtain ⟨d', bf', h1, h2, h3⟩ := ih (e + 1) d bf F lu hi hp hcu hposu hunot hpar (by omega) (by omega)
          exact ⟨d', bf', h1, h2, hskip (Or.inr (Or.inr hz)) rfl d' bf' h1 h2 h3⟩
        · rename_i hav
          have hvI : gt d.parents (gt d.g.tgt e) = INV := by
            cases Nat.decEq (gt d.parents (gt d.g.tgt e)) INV with
            | isTrue h => exact h
            | isFalse h => exact absurd h hunm
          have hvn : gt d.g.tgt e < n := by
            rw [← hgn]; exact hi.fi.wf.tgtOK e (hi.fi.wf.inRange_lt (by rw [hgn]; exact hun) hre)
          split
          · -- the target: an augmentation happens
            rename_i hvt
            rw [hi.tgt] at hvt
            rw [hvt]
            have hsn : s.val < n := s.isLt
            have htn : t.val < n := t.isLt
            obtain ⟨pa, pb, pc⟩ := pchain_props hsn hi.hs hN hcu
            have htlu : t.val ∉ lu := fun hm => (pa _ hm).2 hi.ht
            have hstv : t.val ≠ s.val := fun e => hst (Fin.ext e.symm)
            have hcu1 : PChain n s.val (st d.parents t.val u) u lu :=
              pchain_congr hcu (fun x hx => gt_st_ne _ _ _ _ (fun e => htlu (e ▸ hx)))
            have hps1 : gt (st d.parents t.val u) s.val = s.val := by
              rw [gt_st_ne _ _ _ _ hstv]; exact hi.hs
            have hgt : gt (st d.parents t.val u) t.val = u := gt_st_eq _ _ _ (by rw [hi.psz]; exact htn)
            have hct : PChain n s.val (st d.parents t.val u) t.val (t.val :: lu) :=
              PChain.step hstv htn (by rw [hgt]; exact hun) (by rw [hgt]; exact hcu1) htlu
            have hlenlu : lu.length ≤ n := pchain_length_le hsn hi.hs hN hcu
            have hlenP : (t.val :: lu).length ≤ n := pchain_length_le hsn hps1 hN hct
            -- forward and reverse edges of every window exist
            have hfe : d.g.findEdge u t.val = some e :=
              findEdge_eq_of_uniq hi.uq u t.val e (by rw [hgn]; exact hun) hre hvt
            have hwin : ∀ ab, ab ∈ windows (t.val :: lu) →
                (∃ e', d.g.findEdge ab.2 ab.1 = some e') ∧ ∃ e', d.g.findEdge ab.1 ab.2 = some e' := by
              intro ab hab
              have hfw : ∃ e', d.g.findEdge ab.2 ab.1 = some e' := by
                obtain ⟨tlu, rfl⟩ := pchain_head hcu
                simp only [windows, List.mem_cons] at hab
                rcases hab with rfl | hab
                · exact ⟨e, hfe⟩
                · obtain ⟨e', he', _⟩ := hposu ab hab; exact ⟨e', he'⟩
              refine ⟨hfw, ?_⟩
              obtain ⟨e', he'⟩ := hfw
              obtain ⟨hb, hre', hte'⟩ := findEdge_spec d.g _ _ e' he'
              obtain ⟨e'', hr'', ht''⟩ := hi.rc ab.2 e' hb hre'
              rw [hte'] at hr''
              have ha : ab.1 < d.g.numNodes := by
                rw [← hte']; exact hi.fi.wf.tgtOK e' (hi.fi.wf.inRange_lt hb hre')
              exact findEdge_some_of_edge d.g ab.1 ab.2 e'' ha hr'' ht''
            obtain ⟨fl, hcm⟩ := chainMin_total d.g hps1 hcu1
              (fun ab hab => by
                obtain ⟨tlu, rfl⟩ := pchain_head hcu
                exact (hwin ab (by simp only [windows, List.mem_cons]; exact Or.inr hab)).1)
              (d.g.numNodes + 1) (gt d.g.cap e) (by rw [hgn]; omega)
            obtain ⟨r, hau⟩ := augChain_total hps1 fl hct d.g hwin (d.g.numNodes + 1) u (by rw [hgn]; omega)
            obtain ⟨g', ct⟩ := r
            obtain ⟨hflpos, _⟩ := dp_target hst hN d F hi hp u e lu hcu hun hposu hunot hre hvt hav fl hcm g' ct hau
            refine ⟨_, bf + fl, by simp only [reachTarget, hcm, hau]; rfl, ?_, Or.inl (by omega)⟩
            show (unwind (st d.parents t.val u) ct d.stack).length +
              unm (st (st d.parents t.val u) d.target INV) n ≤ d.stack.length + unm d.parents n
            rw [hi.tgt]
            have h1 := unwind_length (st d.parents t.val u) ct d.stack
            have hunI : u ≠ INV := by omega
            have h2 := unm_st_mark d.parents t.val u n htn (by rw [hi.psz]; exact htn) hi.ht hunI
            have h3 := unm_st_reset (st d.parents t.val u) t.val n htn (by simp [hi.psz]) (by rw [hgt]; exact hunI)
            omega
          · -- a new node is pushed
            rename_i hvt
            rw [hi.tgt] at hvt
            obtain ⟨hi2, hcu', _, _, _⟩ := di_push hN d F hi u e lu hcu hun hre hvI hvt (min flow (gt d.g.cap e))
            obtain ⟨hp2, hunot2, hpar2⟩ := dp_push hN d F hi hp u e lu hcu hun hposu hunot hpar hre hvI hvt hav
            obtain ⟨d', bf', h1, h2, h3⟩ := ih (e + 1) _ bf F lu hi2 hp2 hcu' hposu hunot2 hpar2
              (show d.g.beginEdges u ≤ e + 1 by omega)
              (show e + 1 + k ≤ d.g.beginEdges u + d.g.deg u by omega)
            have hunI : u ≠ INV := by omega
            have hmono : ∀ x, Marked d.parents x → Marked (st d.parents (gt d.g.tgt e) u) x :=
              fun x hx => marked_st_mono _ _ _ _ hunI hx
            have hmv : Marked (st d.parents (gt d.g.tgt e) u) (gt d.g.tgt e) := by
              unfold Marked; rw [gt_st_eq _ _ _ (by rw [hi.psz]; exact hvn)]; exact hunI
            refine ⟨d', bf', h1, ?_, ?_⟩
            · have := unm_st_mark d.parents (gt d.g.tgt e) u n hvn (by rw [hi.psz]; exact hvn) hvI hunI
              simp only [List.length_cons] at h2
              omega
            · rcases h3 with h | ⟨a1, a2, a3, a4, a5, a6, a7⟩
              · exact Or.inl h
              · refine Or.inr ⟨a1, a2, a3, fun x hx => a4 x (hmono x hx),
                  fun y hy => a5 y (by simp only [List.map_cons, List.mem_cons]; exact Or.inr hy), ?_, ?_⟩
                · intro e' h1' h2' h3' h4'
                  by_cases he : e' = e
                  · subst he; exact a4 _ hmv
                  · exact a6 e' (by omega) (by omega) h3' h4'
                · intro x hx hmx
                  rcases a7 x hx hmx with h | h
                  · by_cases hxv : x = gt d.g.tgt e
                    · right; rw [hxv]; exact a5 _ (by simp)
                    · left; unfold Marked at h ⊢
                      rw [gt_st_ne _ _ _ _ (fun e' => hxv e'.symm)] at h; exact h
                  · exact Or.inr h

/-- marked nodes are on the stack or have all their admissible out-edges marked -/
def SC (n : Nat) (g : Graph) (lv ps : Array Nat) (stk : List Nat) : Prop :=
  ∀ v, v < n → Marked ps v → v ∈ stk ∨ ∀ w, Adm g lv v w → Marked ps w

theorem dfsLoop_full {n : Nat} {c : Fin n → Fin n → ℤ} {s t : Fin n} (hst : s ≠ t) (hN : n ≤ INV)
    (fuel : Nat) : ∀ (d : Dinic) (bf F : ℤ), DI c s t d F →
    DP n s.val d.g d.parents (d.stack.map Prod.fst) → TrPos d → d.stack.length + unm d.parents n < fuel →
    ∃ d' bf', dfsLoop fuel d bf = some (d', bf') ∧ bf ≤ bf' ∧
      (SC n d.g d.level d.parents (d.stack.map Prod.fst) →
        bf < bf' ∨ (bf' = bf ∧ d'.g = d.g ∧ d'.level = d.level ∧
          (∀ v, Marked d.parents v → Marked d'.parents v) ∧
          ∀ v, v < n → Marked d'.parents v → ∀ w, Adm d.g d.level v w → Marked d'.parents w)) := by
  induction fuel with
  | zero => intro d bf F _ _ _ h; omega
  | succ fuel ih =>
    intro d bf F hi hp htr hm
    cases hstack : d.stack with
    | nil =>
      refine ⟨d, bf, by simp [dfsLoop, hstack], Int.le_refl _, ?_⟩
      intro hsc
      right
      refine ⟨rfl, rfl, rfl, fun _ h => h, ?_⟩
      intro v hv hmk
      rcases hsc v hv hmk with h | h
      · simp at h
      · exact h
    | cons top rest =>
      obtain ⟨u, flow⟩ := top
      obtain ⟨lu, hlu⟩ := hi.stk u (by rw [hstack]; simp)
      have hun : u < n := by
        obtain ⟨tl, rfl⟩ := pchain_head hlu
        exact ((pchain_props s.isLt hi.hs hN hlu).1 u List.mem_cons_self).1
      have hi1 : DI c s t { d with stack := rest } F :=
        ⟨hi.fi, hi.uq, hi.rc, hi.src, hi.tgt, hi.psz, hi.hs, hi.ht,
          fun y hy => hi.stk y (by rw [hstack]; exact List.mem_cons_of_mem _ hy)⟩
      have hp0 : DP n s.val d.g d.parents (u :: rest.map Prod.fst) := by
        have := hp; rw [hstack] at this; simpa using this
      obtain ⟨hp1, hposu, hunot, hpar⟩ := dp_pop hi.hs u (rest.map Prod.fst) hp0 lu hlu
      obtain ⟨d1, bf1, he, hmeas, hdisj⟩ := dfsEdges_full hst hN u flow hun (d.g.deg u) (d.g.beginEdges u)
        { d with stack := rest } bf F lu hi1 hp1 hlu hposu hunot hpar (Nat.le_refl _) (Nat.le_refl _)
      obtain ⟨a, b, c'⟩ := dfsEdges_pos hst hN u flow hun (d.g.deg u) (d.g.beginEdges u) _ bf F lu d1 bf1
        hi1 hp1 htr hlu hposu hunot hpar (Nat.le_refl _) (Nat.le_refl _) he
      have hm1 : d1.stack.length + unm d1.parents n < fuel := by
        rw [hstack] at hm
        simp only [List.length_cons] at hm
        have : ({ d with stack := rest } : Dinic).stack.length = rest.length := rfl
        have h2 : ({ d with stack := rest } : Dinic).parents = d.parents := rfl
        rw [this, h2] at hmeas
        omega
      obtain ⟨d', bf', hl, hle, himp⟩ := ih d1 bf1 (F + (bf1 - bf)) a b c' hm1
      have hbf1 : bf ≤ bf1 := by
        rcases hdisj with h | ⟨h, _⟩
        · omega
        · omega
      refine ⟨d', bf', by simp only [dfsLoop, hstack, he, hl], by omega, ?_⟩
      intro hsc
      rcases hdisj with h | ⟨a1, a2, a3, a4, a5, a6, a7⟩
      · left; omega
      · have a2' : d1.g = d.g := a2
        have a3' : d1.level = d.level := a3
        have hsc1 : SC n d1.g d1.level d1.parents (d1.stack.map Prod.fst) := by
          rw [a2', a3']
          intro v hv hmk
          rcases a7 v hv hmk with h0 | h0
          · have h0' : Marked d.parents v := h0
            rcases hsc v hv h0' with h1 | h1
            · simp only [List.map_cons, List.mem_cons] at h1
              rcases h1 with rfl | h1
              · right
                intro w ⟨e', r1, r2, r3, r4, r5⟩
                rw [← r3]
                exact a6 e' r1 r2 r4 (by rw [r3]; exact r5)
              · left; exact a5 v h1
            · right; intro w hw; exact a4 w (h1 w hw)
          · exact Or.inl h0
        rcases himp hsc1 with h | ⟨b1, b2, b3, b4, b5⟩
        · left; omega
        · right
          refine ⟨by omega, by rw [b2, a2'], by rw [b3, a3'], fun v hv => b4 v (a4 v hv), ?_⟩
          intro v hv hmk w hw
          rw [a2', a3'] at b5
          exact b5 v hv hmk w hw

/-- **progress of a phase**: when the labels allow a path source → target, `dfs()` returns and its
    blocking flow is ≥ 1 -/
theorem dfs_full {n : Nat} {c : Fin n → Fin n → ℤ} {s t : Fin n} (hst : s ≠ t) (hN : n ≤ INV)
    (d : Dinic) (F : ℤ) (hi : DL c s t d F) (htr : TrPos d) (hadm : AdmTo d.g d.level t.val s.val) :
    ∃ d' bf, d.dfs = some (d', bf) ∧ 0 < bf := by
  obtain ⟨hi0, hp0⟩ := dfs_init hst hN d F hi
  have hsn : s.val < n := s.isLt
  have hmeas : ([(d.source, I32MAX)] : List (Nat × ℤ)).length +
      unm (st (Array.replicate d.parents.size INV) d.source d.source) n < 2 * d.g.numNodes + 2 := by
    rw [hi.src, hi.fi.hn]
    have h1 := unm_st_mark (Array.replicate d.parents.size INV) s.val s.val n hsn (by simp [hi.psz])
      (by unfold gt; simp [Array.getD_eq_getD_getElem?, hi.psz, hsn]) (by omega)
    have h2 := unm_replicate d.parents.size n (by rw [hi.psz])
    simp only [List.length_singleton]; omega
  obtain ⟨d', bf, hl, _, himp⟩ := dfsLoop_full hst hN (2 * d.g.numNodes + 2) _ 0 F hi0
    (by simpa using hp0) htr hmeas
  refine ⟨d', bf, by unfold Dinic.dfs; exact hl, ?_⟩
  have hsc : SC n d.g d.level (st (Array.replicate d.parents.size INV) d.source d.source) [d.source] := by
    intro v hv hmk
    left
    rw [hi.src] at hmk ⊢
    by_cases hvs : v = s.val
    · rw [hvs]; exact List.mem_singleton.mpr rfl
    · exfalso; apply hmk
      rw [gt_st_ne _ _ _ _ (fun e => hvs e.symm)]
      unfold gt; simp [Array.getD_eq_getD_getElem?, hi.psz, hv]
  rcases himp (by simpa using hsc) with h | ⟨b1, _, _, b4, b5⟩
  · exact h
  · exfalso
    have hdi := (dfsLoop_pos hst hN _ _ 0 F d' bf hi0 (by simpa using hp0) htr hl).1
    have hms : Marked d'.parents s.val := by
      apply b4
      show Marked (st (Array.replicate d.parents.size INV) d.source d.source) s.val
      unfold Marked; rw [hi.src, gt_st_eq _ _ _ (by simp [hi.psz])]; omega
    have key : ∀ v, AdmTo d.g d.level t.val v → Marked d'.parents v → Marked d'.parents t.val := by
      intro v hv
      induction hv with
      | refl => intro h; exact h
      | @step v w ha _ ih =>
        intro hmv
        have hvn : v < n := by
          obtain ⟨e, r1, r2, _⟩ := ha
          rcases Nat.lt_or_ge v d.g.numNodes with hlt | hge
          · rw [← hi.fi.hn]; exact hlt
          · have := hi.fi.wf.deg_zero_of_ge v hge; omega
        exact ih (b5 v hvn hmv w ha)
    exact key s.val hadm hms hdi.ht

/-- the main loop returns within `(T - F) + 2` iterations -/
theorem dinicLoop_total (es : List E) (hnn : ∀ e, e ∈ es → 0 ≤ e.2.2) (s t : Fin (nNodes es)) (hst : s ≠ t)
    (hN : nNodes es + 2 < INV) (fuel : Nat) : ∀ (d : Dinic) (flow F : ℤ),
    DL (cF es (nNodes es)) s t d F → TrPos d → ((es.map fun e => e.2.2).sum - F).toNat + 2 ≤ fuel →
    ∃ r, dinicLoop fuel d flow = some r := by
  induction fuel with
  | zero => intro d flow F _ _ h; omega
  | succ fuel ih =>
    intro d flow F hi htr hfuel
    have hgn := hi.fi.hn
    obtain ⟨d1, b, hb, hadm⟩ := bfs_total d hi.fi.wf hi.uq hi.rc (by rw [hgn]; exact hN)
      (by rw [hi.lsz, hgn]) (by rw [hi.src, hgn]; exact s.isLt) (by rw [hi.tgt, hgn]; exact t.isLt)
      (by rw [hi.src, hi.tgt]; exact fun e => hst (Fin.ext e))
    obtain ⟨b1, b2, b3, b4, b5, _⟩ := bfs_spec d hi.fi.wf hi.uq hi.rc (by rw [hgn]; exact hN)
      (by rw [hi.lsz, hgn]) (by rw [hi.tgt, hgn]; exact t.isLt)
      (by rw [hi.src, hi.tgt]; exact fun e => hst (Fin.ext e)) d1 b hb
    have hi1 : DL (cF es (nNodes es)) s t d1 F :=
      ⟨b1 ▸ hi.fi, b1 ▸ hi.uq, b1 ▸ hi.rc, b3 ▸ hi.src, b4 ▸ hi.tgt, b2 ▸ hi.psz, by rw [b5, hgn]⟩
    have htr1 : TrPos d1 := by unfold TrPos; rw [bfs_trace d d1 b hb]; exact htr
    simp only [dinicLoop, hb]
    cases b with
    | false => exact ⟨_, rfl⟩
    | true =>
      simp only
      have hadm' : AdmTo d1.g d1.level t.val s.val := by
        have := hadm rfl
        rw [hi1.src, hi1.tgt] at this; exact this
      obtain ⟨d2, bf, hd, hbf⟩ := dfs_full hst (by omega) d1 F hi1 htr1 hadm'
      rw [hd]
      simp only
      obtain ⟨c1, _⟩ := dfs_spec hst (by omega) d1 F hi1 d2 bf hd
      have hbound := finv_flow_le_total es hnn s t hst d2.g (F + bf) c1.fi
      apply ih d2 (flow + bf) (F + bf) c1 (dfs_pos hst (by omega) d1 F hi1 htr1 d2 bf hd)
      omega

/-- **dinic_terminates**: with fuel `2 + Σ capacities` the run of the Dinic model returns -/
theorem dinic_run_total (es : List Edge) (s t : Nat) (hnn : ∀ e, e ∈ es → 0 ≤ e.cap) (hst : s ≠ t)
    (hs : s < nNodes (es.map toE)) (ht : t < nNodes (es.map toE)) (hN : nNodes (es.map toE) + 2 < INV)
    (d : Dinic) (hd : Dinic.fromEdgeList es s t = some d) :
    ∃ d', d.run ((es.map Edge.cap).sum.toNat + 2) = some d' := by
  unfold Dinic.fromEdgeList at hd
  split at hd
  · cases hd
  · simp only [Option.some.injEq] at hd
    subst hd
    have hm := merge_cap_dinic es hnn
    have hnum : (residualDinic es).numNodes = nNodes (es.map toE) := by rw [hm.2.1, maxId_eq_spec]; rfl
    have hfi := init_finv (residualDinic es) es ⟨s, hs⟩ ⟨t, ht⟩ hm
    obtain ⟨huq, hrc⟩ := residualDinic_uniq_rev es
    have hsum : ((es.map toE).map fun e => e.2.2).sum = (es.map Edge.cap).sum := by
      rw [List.map_map]; rfl
    have hnnE : ∀ e, e ∈ es.map toE → 0 ≤ e.2.2 := by
      intro e he
      obtain ⟨x, hx, rfl⟩ := List.mem_map.mp he
      exact hnn x hx
    have hdl : DL (cF (es.map toE) (nNodes (es.map toE))) ⟨s, hs⟩ ⟨t, ht⟩
        { g := residualDinic es, maxFlow := 0, finished := false,
          level := Array.replicate (residualDinic es).numNodes INV,
          parents := Array.replicate (residualDinic es).numNodes 0, stack := [], dfsCount := 0,
          bfsCount := 0, source := s, target := t } 0 :=
      ⟨hfi, huq, hrc, rfl, rfl, by simp [hnum], by simp [hnum]⟩
    obtain ⟨r, hr⟩ := dinicLoop_total (es.map toE) hnnE ⟨s, hs⟩ ⟨t, ht⟩ (fun e => hst (Fin.mk.inj e)) hN
      ((es.map Edge.cap).sum.toNat + 2) _ 0 0 hdl (fun tr htr => by simp at htr) (by rw [hsum]; simp)
    obtain ⟨d1, flow⟩ := r
    unfold Dinic.run
    simp only
    have hguard : ¬ (s ≥ (residualDinic es).numNodes ∨ t ≥ (residualDinic es).numNodes) := by
      rw [hnum]; omega
    rw [if_neg hguard, hr]
    exact ⟨_, rfl⟩

/-- **total correctness** of the Dinic model -/
theorem dinic_total (es : List Edge) (s t : Nat) (hnn : ∀ e, e ∈ es → 0 ≤ e.cap) (hst : s ≠ t)
    (hs : s < nNodes (es.map toE)) (ht : t < nNodes (es.map toE)) (hN : nNodes (es.map toE) + 2 < INV)
    (d : Dinic) (hd : Dinic.fromEdgeList es s t = some d) :
    ∃ d', d.run ((es.map Edge.cap).sum.toNat + 2) = some d' ∧
      IsMaxFlowValue (cF (es.map toE) (nNodes (es.map toE))) ⟨s, hs⟩ ⟨t, ht⟩ d'.maxFlow ∧
      d'.maxFlow? = .ok d'.maxFlow := by
  obtain ⟨d', h⟩ := dinic_run_total es s t hnn hst hs ht hN d hd
  obtain ⟨_, _, a, b⟩ := dinic_correct es s t hnn hst hN d hd _ d' h
  exact ⟨d', h, a, b⟩

end Tbx.Flow
