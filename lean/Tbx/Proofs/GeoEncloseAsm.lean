import Tbx.Proofs.GeoEnclose
/-
Assembly of the enclosure theorem: the upper pass is the lower pass of the point-reflected input
(`neg`), the output polygon's cyclic edges are the consecutive pairs of the two chains.
-/
namespace Tbx.Geo

/-! ### point reflection -/

def neg (c : Coord) : Coord := ⟨-c.lat, -c.lon⟩

theorem neg_neg (c : Coord) : neg (neg c) = c := by
  cases c; simp [neg]

theorem cross_neg (o a b : Coord) : cross (neg o) (neg a) (neg b) = cross o a b := by
  simp only [cross, neg]; ring

theorem isCW_neg (o a p : Coord) : isCW (neg o) (neg a) (neg p) = isCW o a p := by
  have := cross_neg o a p
  cases h1 : isCW (neg o) (neg a) (neg p) <;> cases h2 : isCW o a p <;> try rfl
  · have := (isCW_iff o a p).mp h2
    have h3 : ¬ 0 < cross (neg o) (neg a) (neg p) := fun h => by
      have := (isCW_iff _ _ _).mpr h; rw [h1] at this; cases this
    omega
  · have := (isCW_iff _ _ _).mp h1
    have h3 : ¬ 0 < cross o a p := fun h => by
      have := (isCW_iff _ _ _).mpr h; rw [h2] at this; cases this
    omega

theorem LexLe_neg {a b : Coord} : LexLe (neg a) (neg b) ↔ LexLe b a := by
  simp only [LexLe, Lex0, neg]; omega

theorem popWhile_neg (m : Nat) (p : Coord) (st : List Coord) :
    popWhile m (neg p) (st.map neg) = (popWhile m p st).map neg := by
  induction st with
  | nil => rfl
  | cons a rest ih =>
    cases rest with
    | nil => rfl
    | cons o r =>
      simp only [List.map_cons] at ih ⊢
      rw [popWhile_cons2, popWhile_cons2, isCW_neg]
      simp only [List.length_cons, List.length_map]
      split
      · exact ih
      · rfl

theorem chain_neg (m : Nat) (pts st : List Coord) :
    chain m (st.map neg) (pts.map neg) = (chain m st pts).map neg := by
  induction pts generalizing st with
  | nil => rfl
  | cons p ps ih =>
    simp only [chain, List.map_cons, List.foldl_cons]
    rw [popWhile_neg]
    exact ih (p :: popWhile m p st)

theorem lowerStack_neg (l : List Coord) : lowerStack (l.map neg) = (lowerStack l).map neg := by
  have := chain_neg 2 l []
  simpa [lowerStack] using this

theorem pairs_map_neg (l : List Coord) : pairs (l.map neg) = (pairs l).map (fun e => (neg e.1, neg e.2)) := by
  induction l with
  | nil => rfl
  | cons x t ih =>
    cases t with
    | nil => rfl
    | cons y r =>
      simp only [List.map_cons] at ih ⊢
      rw [pairs_cons2, pairs_cons2, ih]
      rfl

theorem lastD_map_neg (x : Coord) (r : List Coord) : lastD (neg x) (r.map neg) = neg (lastD x r) := by
  induction r generalizing x with
  | nil => rfl
  | cons y ys ih => exact ih y

/-- result for a pass over a list sorted in descending order (the upper pass) -/
theorem upperStack_sup (d0 : Coord) (ds : List Coord)
    (hsorted : List.Pairwise (fun a b => LexLe b a) (d0 :: ds)) :
    ∃ y s, lowerStack (d0 :: ds) = y :: s ∧ Sup (d0 :: ds) (y :: s) ∧ lastD y s = d0 ∧
      (∀ q ∈ d0 :: ds, LexLe y q) ∧ y ∈ d0 :: ds := by
  have hs' : List.Pairwise LexLe ((d0 :: ds).map neg) := by
    rw [List.pairwise_map]
    exact List.Pairwise.imp (fun h => LexLe_neg.mpr h) hsorted
  obtain ⟨x, r, e, hsup, hl, htop, hmem, _⟩ := lowerStack_sup (neg d0) (ds.map neg) (by simpa using hs')
  have e' : (lowerStack (d0 :: ds)).map neg = x :: r := by
    rw [← lowerStack_neg]; simpa using e
  match hL : lowerStack (d0 :: ds), e' with
  | y :: s, e' =>
    simp only [List.map_cons, List.cons.injEq] at e'
    obtain ⟨rfl, rfl⟩ := e'
    refine ⟨y, s, rfl, ?_, ?_, ?_, ?_⟩
    · intro ed hed q hq
      have h1 : (neg ed.1, neg ed.2) ∈ pairs (neg y :: s.map neg) := by
        have := pairs_map_neg (y :: s)
        simp only [List.map_cons] at this
        rw [this]
        exact List.mem_map.mpr ⟨ed, hed, rfl⟩
      have h2 : neg q ∈ neg d0 :: ds.map neg := by
        have : neg q ∈ (d0 :: ds).map neg := List.mem_map.mpr ⟨q, hq, rfl⟩
        simpa using this
      have := hsup _ h1 _ h2
      simpa [cross_neg] using this
    · rw [lastD_map_neg] at hl
      have := congrArg neg hl
      simpa [neg_neg] using this
    · intro q hq
      have h2 : neg q ∈ neg d0 :: ds.map neg := by
        have : neg q ∈ (d0 :: ds).map neg := List.mem_map.mpr ⟨q, hq, rfl⟩
        simpa using this
      exact LexLe_neg.mp (htop _ h2)
    · have : neg y ∈ (d0 :: ds).map neg := by simpa using hmem
      obtain ⟨z, hz, hzy⟩ := List.mem_map.mp this
      have : z = y := by
        have := congrArg neg hzy
        simpa [neg_neg] using this
      rw [← this]; exact hz

/-! ### cyclic edges of the output -/

theorem pairs_append_cons (xs : List Coord) (y : Coord) (ys : List Coord) :
    pairs (xs ++ y :: ys) = pairs (xs ++ [y]) ++ pairs (y :: ys) := by
  induction xs with
  | nil => simp [pairs]
  | cons a t ih =>
    cases t with
    | nil => simp [pairs]
    | cons b t' =>
      simp only [List.cons_append] at ih ⊢
      rw [pairs_cons2, pairs_cons2, ih]
      rfl

theorem edges_eq_pairs_aux : ∀ (t : List Coord) (a b : Coord), (a :: t).zip (t ++ [b]) = pairs (a :: t ++ [b]) := by
  intro t
  induction t with
  | nil => intro a b; rfl
  | cons c t' ih =>
    intro a b
    simp only [List.cons_append, List.zip_cons_cons]
    rw [pairs_cons2]
    have := ih c b
    simp only [List.cons_append] at this
    rw [this]

theorem edges_eq_pairs (a : Coord) (t : List Coord) : edges (a :: t) = pairs (a :: t ++ [a]) :=
  edges_eq_pairs_aux t a a

theorem pairs_reverse (l : List Coord) : pairs l.reverse = ((pairs l).map Prod.swap).reverse := by
  induction l with
  | nil => rfl
  | cons x t ih =>
    cases t with
    | nil => rfl
    | cons y r =>
      have h1 : (x :: y :: r).reverse = (y :: r).reverse ++ [x] := by simp
      have h2 : (y :: r).reverse = r.reverse ++ [y] := by simp
      rw [h1, h2, List.append_assoc, List.singleton_append, pairs_append_cons, ← h2, ih, pairs_cons2]
      simp [pairs]

theorem mem_pairs_reverse {l : List Coord} {e : Coord × Coord} (h : e ∈ pairs l.reverse) : (e.2, e.1) ∈ pairs l := by
  rw [pairs_reverse, List.mem_reverse, List.mem_map] at h
  obtain ⟨e', he', rfl⟩ := h
  exact he'

theorem popWhile_ne_nil (m : Nat) (p : Coord) : ∀ (st : List Coord), st ≠ [] → popWhile m p st ≠ [] := by
  intro st
  induction st with
  | nil => intro h; exact absurd rfl h
  | cons a rest ih =>
    intro _
    cases rest with
    | nil => simp [popWhile]
    | cons o r =>
      rw [popWhile_cons2]
      split
      · exact ih (by simp)
      · simp

theorem chain_length_ge : ∀ (pts st : List Coord), st ≠ [] → pts ≠ [] → 2 ≤ (chain 2 st pts).length := by
  intro pts
  induction pts with
  | nil => intro st _ h; exact absurd rfl h
  | cons p ps ih =>
    intro st hst _
    simp only [chain, List.foldl_cons]
    have h1 : popWhile 2 p st ≠ [] := popWhile_ne_nil 2 p st hst
    cases ps with
    | nil =>
      simp only [List.foldl_nil, List.length_cons]
      have : 0 < (popWhile 2 p st).length := List.length_pos_iff.mpr h1
      omega
    | cons q qs => exact ih (p :: popWhile 2 p st) (by simp) (by simp)

theorem lowerStack_length_ge (c0 c1 : Coord) (cs : List Coord) : 2 ≤ (lowerStack (c0 :: c1 :: cs)).length := by
  have := chain_length_ge (c1 :: cs) [c0] (by simp) (by simp)
  simpa [lowerStack, chain, popWhile] using this

theorem dropLast_cons_concat (a : Coord) (l : List Coord) (b : Coord) : (a :: (l ++ [b])).dropLast = a :: l := by
  rw [← List.cons_append, List.dropLast_concat]

theorem lastD_split (x : Coord) (r : List Coord) (hr : r ≠ []) : ∃ r0, r = r0 ++ [lastD x r] := by
  induction r generalizing x with
  | nil => exact absurd rfl hr
  | cons a t ih =>
    cases t with
    | nil => exact ⟨[], rfl⟩
    | cons b t' =>
      obtain ⟨r0, h⟩ := ih a (by simp)
      refine ⟨a :: r0, ?_⟩
      show a :: b :: t' = a :: r0 ++ [lastD a (b :: t')]
      rw [List.cons_append, ← h]

/-- the shape of the two chains and of the output for more than three points: the lower stack is
`x :: r0 ++ [c0]` (top first: maximum … minimum), the upper stack `c0 :: s0 ++ [x]`, the output is
`c0 :: r0.reverse ++ x :: s0.reverse`, and every input point is on the left of (or on) every chain edge -/
theorem chains_shape (pts : List Coord) (hn : 3 < pts.length) :
    ∃ (c0 x : Coord) (r0 s0 : List Coord),
      lowerStack (sortLonLat pts) = x :: (r0 ++ [c0]) ∧
      lowerStack (sortLonLat pts).reverse = c0 :: (s0 ++ [x]) ∧
      monotoneChain pts = (c0 :: r0.reverse) ++ (x :: s0.reverse) ∧
      Sup (sortLonLat pts) (x :: (r0 ++ [c0])) ∧ Sup (sortLonLat pts) (c0 :: (s0 ++ [x])) ∧
      Desc (x :: (r0 ++ [c0])) ∧
      (∀ q ∈ pts, LexLe c0 q ∧ LexLe q x) := by
  have hlen := length_sortLonLat pts
  have hsorted0 : List.Pairwise LexLe (sortLonLat pts) :=
    List.Pairwise.imp (fun h => (lexLe_iff _ _).mp h) (sortLonLat_sorted pts)
  have hmc := monotoneChain_eq pts hn
  match hcs : sortLonLat pts, hlen, hsorted0, hmc with
  | [], hlen, _, _ => simp at hlen; omega
  | [_], hlen, _, _ => simp at hlen; omega
  | c0 :: c1 :: cs', _, hsorted, hmc =>
    obtain ⟨x, r, eL, supL, botL, topL, memL, descL⟩ := lowerStack_sup c0 (c1 :: cs') hsorted
    -- the reversed list
    have hrevne : (c0 :: c1 :: cs').reverse ≠ [] := by simp
    have hrevsorted : List.Pairwise (fun a b => LexLe b a) (c0 :: c1 :: cs').reverse :=
      List.pairwise_reverse.mpr hsorted
    match hr : (c0 :: c1 :: cs').reverse, hrevne, hrevsorted with
    | d0 :: ds, _, hrevsorted =>
      obtain ⟨y, s, eU, supU, botU, topU, memU⟩ := upperStack_sup d0 ds hrevsorted
      have hmemrev : ∀ q, q ∈ d0 :: ds ↔ q ∈ c0 :: c1 :: cs' := by
        intro q; rw [← hr, List.mem_reverse]
      -- x is the maximum = d0, y the minimum = c0
      have hxd : x = d0 := by
        have h1 : LexLe d0 x := topL d0 ((hmemrev d0).mp List.mem_cons_self)
        have h2 : LexLe x d0 := by
          rcases List.mem_cons.mp ((hmemrev x).mpr memL) with h | h
          · rw [h]; exact LexLe.refl _
          · exact (List.pairwise_cons.mp hrevsorted).1 x h
        exact LexLe.antisymm h2 h1
      have hyc : y = c0 := by
        have h1 : LexLe y c0 := topU c0 ((hmemrev c0).mpr List.mem_cons_self)
        have h2 : LexLe c0 y := by
          rcases List.mem_cons.mp ((hmemrev y).mp memU) with h | h
          · rw [h]; exact LexLe.refl _
          · exact (List.pairwise_cons.mp hsorted).1 y h
        exact LexLe.antisymm h1 h2
      -- both stacks have at least two entries
      have hrne : r ≠ [] := by
        intro h0
        have := lowerStack_length_ge c0 c1 cs'
        rw [eL, h0] at this; simp at this
      have hsne : s ≠ [] := by
        intro h0
        have hdlen : (d0 :: ds).length = (c0 :: c1 :: cs').length := by rw [← hr, List.length_reverse]
        cases ds with
        | nil => simp at hdlen
        | cons d1 ds' =>
          have := lowerStack_length_ge d0 d1 ds'
          rw [eU, h0] at this; simp at this
      obtain ⟨r0, hr0⟩ := lastD_split x r hrne
      obtain ⟨s0, hs0⟩ := lastD_split y s hsne
      rw [botL] at hr0
      rw [botU, ← hxd] at hs0
      subst hyc
      refine ⟨y, x, r0, s0, ?_, ?_, ?_, ?_, ?_, ?_, ?_⟩
      · rw [eL, hr0]
      · rw [eU, hs0]
      · rw [hmc, eL, hr, eU, hr0, hs0]
        simp only [List.reverse_cons, List.reverse_append, List.reverse_nil, List.nil_append, List.cons_append]
        rw [dropLast_cons_concat, dropLast_cons_concat]
        rfl
      · rw [← hr0]; exact supL
      · rw [← hs0]
        intro e he q hq
        exact supU e he q ((hmemrev q).mpr hq)
      · rw [← hr0]; exact descL
      · intro q hq
        have hq' : q ∈ y :: c1 :: cs' := hcs ▸ mem_sortLonLat.mpr hq
        refine ⟨?_, topL q hq'⟩
        rcases List.mem_cons.mp hq' with h | h
        · rw [h]; exact LexLe.refl _
        · exact (List.pairwise_cons.mp hsorted).1 q h

/-- the hull of more than three points encloses every input point (orientation +1) -/
theorem monotoneChain_encloses (pts : List Coord) (hn : 3 < pts.length) :
    Encloses 1 (monotoneChain pts) pts := by
  obtain ⟨c0, x, r0, s0, eL, eU, eH, supL, supU, _, _⟩ := chains_shape pts hn
  intro e he p hp
  rw [eH] at he
  have hp' : p ∈ sortLonLat pts := mem_sortLonLat.mpr hp
  rw [List.cons_append, edges_eq_pairs] at he
  have hsplit : c0 :: (r0.reverse ++ x :: s0.reverse) ++ [c0] =
      (c0 :: r0.reverse) ++ x :: (s0.reverse ++ [c0]) := by simp
  rw [hsplit, pairs_append_cons] at he
  have hL : (c0 :: r0.reverse) ++ [x] = (x :: (r0 ++ [c0])).reverse := by simp
  have hU : x :: (s0.reverse ++ [c0]) = (c0 :: (s0 ++ [x])).reverse := by simp
  rw [hL, hU] at he
  rw [Int.one_mul]
  rcases List.mem_append.mp he with h | h
  · exact supL _ (mem_pairs_reverse h) p hp'
  · exact supU _ (mem_pairs_reverse h) p hp'

end Tbx.Geo
