import Tbx.Proofs.DijkstraExact
/-
The fuel `n + 1` handed to the outer loops by `uniRun` / `o2mRun` suffices on a graph whose edges
stay below `n`: every iteration settles a node `< n` that was not settled before.
-/
namespace Tbx.Dijkstra
open Tbx Tbx.AHeap
variable {Inv : Heap → Prop}

/-- all edges out of nodes `< n` end below `n` -/
def Bounded (adj : Adj) (n : Nat) : Prop := ∀ u, u < n → ∀ v w, (v, w) ∈ adj u → v < n

theorem walk_bounded {adj : Adj} {n s v d : Nat} (hb : Bounded adj n) (hs : s < n) (hw : SP.Walk adj s v d) : v < n := by
  induction hw with
  | nil => exact hs
  | snoc _ he ih => exact hb _ ih _ _ he

/-- number of nodes `< n` that have not been popped -/
def unsettled (q : Heap) (n : Nat) : Nat := ((List.range n).filter fun (v : Nat) => !settledB q (v : Int)).length

theorem filter_length_lt {l : List Nat} {f g : Nat → Bool} (himp : ∀ x ∈ l, f x = true → g x = true)
    (u : Nat) (hu : u ∈ l) (hgu : g u = true) (hfu : f u = false) :
    (l.filter f).length < (l.filter g).length := by
  induction l with
  | nil => cases hu
  | cons a l ih =>
    have hle : ∀ (l : List Nat), (∀ x ∈ l, f x = true → g x = true) → (l.filter f).length ≤ (l.filter g).length := by
      intro l
      induction l with
      | nil => intro _; exact Nat.le_refl _
      | cons b l ih2 =>
        intro h
        have := ih2 (fun x hx => h x (List.mem_cons_of_mem _ hx))
        simp only [List.filter_cons]
        cases hf : f b
        · cases hg : g b <;> simp <;> omega
        · rw [h b List.mem_cons_self hf]; simp; omega
    simp only [List.filter_cons]
    rcases List.mem_cons.mp hu with rfl | hu'
    · rw [hgu, hfu]
      have := hle l (fun x hx => himp x (List.mem_cons_of_mem _ hx))
      simp; omega
    · have := ih (fun x hx => himp x (List.mem_cons_of_mem _ hx)) hu'
      cases hf : f a
      · cases hg : g a <;> simp <;> omega
      · rw [himp a List.mem_cons_self hf]; simp; omega

theorem unsettled_pop {q q2 : Heap} {n u : Nat} (hu : u < n) (hnu : ¬ Settled q (u : Int))
    (hS : ∀ x, Settled q2 x ↔ (Settled q x ∨ x = (u : Int))) : unsettled q2 n < unsettled q n := by
  unfold unsettled
  apply filter_length_lt (u := u)
  · intro x _ hx
    cases h2 : settledB q (x : Int)
    · rfl
    · have := (hS x).mpr (Or.inl ((settledB_iff _ _).mp h2))
      rw [(settledB_iff _ _).mpr this] at hx; cases hx
  · exact List.mem_range.mpr hu
  · cases h : settledB q (u : Int)
    · rfl
    · exact absurd ((settledB_iff _ _).mp h) hnu
  · rw [(settledB_iff _ _).mpr ((hS u).mpr (Or.inr rfl))]; rfl

theorem unsettled_le (q : Heap) (n : Nat) : unsettled q n ≤ n := by
  unfold unsettled
  have := List.length_filter_le (fun (v : Nat) => !settledB q (v : Int)) (List.range n)
  simpa using this

/-- one iteration body shared by both loops: pop + relax everything, with the measure decreasing -/
theorem pop_relax (L : HeapLaws Inv) {adj : Adj} {s n : Nat} (hb : Bounded adj n) (hs : s < n) {q : Heap}
    (I : LInv Inv adj s q) (hne : isEmpty q = false) :
    ∃ (q1 : Heap) (u : Nat) (q2 : Heap), deleteMin q = some (q1, (u : Int)) ∧
      relaxAll q1 (u : Int) (weight q1 (u : Int)) (adj u) = some q2 ∧ LInv Inv adj s q2 ∧
      unsettled q2 n < unsettled q n ∧ unsettled q1 n < unsettled q n := by
  obtain ⟨q1, u, e, hcu, R, S⟩ := I.pop L hne
  obtain ⟨q2, e2, R2, S2⟩ := R.all L (adj u) (fun _ h => h)
  have hnu : ¬ Settled q (u : Int) := fun h => by rw [h.2] at hcu; cases hcu
  obtain ⟨v, d, hv, _, hwalk⟩ := I.sound u (L.contains_inserted _ _ I.inv hcu)
  have hun : u < n := by
    have : u = v := by omega
    rw [this]; exact walk_bounded hb hs hwalk
  refine ⟨q1, u, q2, e, e2, R2.finish (fun v w h => Or.inr h), ?_, unsettled_pop hun hnu S⟩
  exact unsettled_pop hun hnu (fun x => (S2 x).trans (S x))

theorem uniLoop_fuel (L : HeapLaws Inv) {adj : Adj} {s n : Nat} (hb : Bounded adj n) (hs : s < n) (t : Nat)
    (fuel : Nat) (st : Uni) (I : LInv Inv adj s st.queue) (hf : unsettled st.queue n < fuel) :
    uniLoop adj (t : Int) fuel st ≠ .fuel := by
  induction fuel generalizing st with
  | zero => omega
  | succ fuel ih =>
    simp only [uniLoop]
    split
    · obtain ⟨q1, u, q2, e, e2, I2, hlt, _⟩ := pop_relax L hb hs I (by
        rename_i hc
        simp only [Bool.and_eq_true, Bool.not_eq_eq_eq_not, Bool.not_true] at hc
        exact hc.1)
      rw [e]
      simp only
      split
      · intro h; cases h
      · rw [Int.toNat_natCast, e2]
        simp only
        exact ih _ I2 (by simp only; omega)
    · intro h; cases h

theorem o2mLoop_fuel (L : HeapLaws Inv) {adj : Adj} {s n : Nat} (hb : Bounded adj n) (hs : s < n)
    (targets : List Nat) (fuel : Nat) (st : O2M) (I : LInv Inv adj s st.queue) (hf : unsettled st.queue n < fuel) :
    o2mLoop adj targets fuel st ≠ .fuel := by
  induction fuel generalizing st with
  | zero => omega
  | succ fuel ih =>
    simp only [o2mLoop]
    split
    · obtain ⟨q1, u, q2, e, e2, I2, hlt, _⟩ := pop_relax L hb hs I (by
        rename_i hc
        simp only [Bool.and_eq_true, Bool.not_eq_eq_eq_not, Bool.not_true] at hc
        exact hc.1)
      rw [e]
      simp only
      rw [Int.toNat_natCast, e2]
      simp only
      exact ih _ I2 (by simp only; omega)
    · intro h; cases h

/-- **the fuel `n + 1` of `run` suffices** -/
theorem uniRun_fuel (L : HeapLaws Inv) {adj : Adj} {s n : Nat} (hb : Bounded adj n) (hs : s < n) (t : Nat)
    (st : Uni) (hw : WFq st.queue) : uniRun adj n st s t ≠ .fuel := by
  rw [uniRun_reuse adj n st s t hw, uniRun_new]
  exact uniLoop_fuel L hb hs t (n + 1) _ (LInv.start L adj s) (by
    have := unsettled_le (insert (init 0 UMAX) (s : Int) 0 (s : Int)) n
    simp only; omega)

theorem o2mRun_fuel (L : HeapLaws Inv) {adj : Adj} {s n : Nat} (hb : Bounded adj n) (hs : s < n)
    (targets : List Nat) (st : O2M) (hw : WFq st.queue) : o2mRun adj n st s targets ≠ .fuel := by
  rw [o2mRun_reuse adj n st s targets hw, o2mRun_new]
  have := o2mLoop_fuel L hb hs targets (n + 1)
    { queue := insert (init 0 UMAX) (s : Int) 0 (s : Int), reached := 0 } (LInv.start L adj s) (by
      have := unsettled_le (insert (init 0 UMAX) (s : Int) 0 (s : Int)) n
      simp only; omega)
  revert this
  generalize o2mLoop adj targets (n + 1) _ = r
  cases r <;> intro h <;> simp [Res.map] at h ⊢

/-- `run` returns: neither a panic branch nor out of fuel -/
theorem Res.ok_of {α : Type} {r : Res α} {P : α → Prop} (h : r.Holds P) (hf : r ≠ .fuel) : ∃ a, r = .ok a ∧ P a := by
  cases r with
  | ok a => exact ⟨a, rfl, h⟩
  | panic => exact absurd h id
  | fuel => exact absurd rfl hf

end Tbx.Dijkstra
