import Tbx.Proofs.HashProbe
import Tbx.Spec.FinMap
/-
Array-level bridge and refinement of the table model to the finite-map Spec (core Lean only).
-/
namespace Tbx.HashTable
open Tbx

def tmOf (t : Table) : Nat → Nat := fun i => (gt t.cells i).time
def kyOf (t : Table) : Nat → Nat := fun i => (gt t.cells i).key
def vlOf (t : Table) : Nat → Int := fun i => (gt t.cells i).val

/-- the table invariant: `N` cells and the function-level invariant `InvF` (live = stamp equals
generation; live keys distinct; probe-chain contiguity; length = #live < N; stamp hygiene) -/
structure Inv (N : Nat) (h : Nat → Nat) (t : Table) : Prop where
  size : t.cells.size = N
  inv : InvF N h (tmOf t) (kyOf t) t.ts t.length

theorem probe_eq_probeF (N : Nat) (cells : Array Cell) (ts key : Nat) :
    ∀ fuel pos, probe N cells ts key fuel pos =
      probeF N (fun i => (gt cells i).time) (fun i => (gt cells i).key) ts key fuel pos := by
  intro fuel
  induction fuel with
  | zero => intro pos; rfl
  | succ fuel ih => intro pos; simp only [probe, probeF, ih]

theorem gt_st' (a : Array Cell) (p j : Nat) (x : Cell) (hp : p < a.size) :
    gt (st a p x) j = if j = p then x else gt a j := by
  rw [gt_st]
  by_cases h : j = p
  · subst h; simp [hp]
  · have : ¬ p = j := fun e => h e.symm
    simp [h, this]

theorem gt_replicate (N : Nat) (c : Cell) (hc : c = default) (i : Nat) : gt (Array.replicate N c) i = c := by
  by_cases h : i < N
  · simp [gt, Array.getD_eq_getD_getElem?, h]
  · rw [gt_of_ge _ _ (by simpa using h)]; exact hc.symm

theorem gt_map_lt (a : Array Cell) (f : Cell → Cell) (i : Nat) (h : i < a.size) :
    gt (a.map f) i = f (gt a i) := by
  simp [gt, Array.getD_eq_getD_getElem?, h]

/-- the invariant only looks at stamps, keys, generation, length and size -/
theorem Inv_congr {N : Nat} {h : Nat → Nat} {t t' : Table} (I : Inv N h t) (hs : t'.cells.size = t.cells.size)
    (htm : tmOf t' = tmOf t) (hky : kyOf t' = kyOf t) (hts : t'.ts = t.ts) (hl : t'.length = t.length) :
    Inv N h t' := by
  refine ⟨by rw [hs]; exact I.size, ?_⟩
  rw [htm, hky, hts, hl]; exact I.inv

/-! ### abstraction -/

/-- the table maps `k` to `v`: some live cell holds `(k, v)` -/
def Maps (N : Nat) (t : Table) (k : Nat) (v : Int) : Prop :=
  ∃ i, i < N ∧ tmOf t i = t.ts ∧ kyOf t i = k ∧ vlOf t i = v

/-- no live cell holds `k` -/
def Absent (N : Nat) (t : Table) (k : Nat) : Prop := ∀ i, i < N → tmOf t i = t.ts → kyOf t i ≠ k

/-- refinement relation between a table and a reference map -/
structure Rel (N : Nat) (h : Nat → Nat) (t : Table) (m : FinMap.M) : Prop where
  inv : Inv N h t
  nodup : FinMap.NoDup m
  len : t.length = FinMap.len m
  some : ∀ k v, FinMap.get? m k = some v → Maps N t k v
  none : ∀ k, FinMap.get? m k = none → Absent N t k

/-! ### observers -/

theorem find_spec_t {N : Nat} {h : Nat → Nat} {t : Table} (I : Inv N h t) (hh : ∀ k, h k < N) (key : Nat) :
    ∃ p d, probe N t.cells t.ts key N (h key) = some p ∧ p < N ∧ d < N ∧ p = (h key + d) % N ∧
      (∀ e, e < d → tmOf t ((h key + e) % N) = t.ts ∧ kyOf t ((h key + e) % N) ≠ key) ∧
      ((tmOf t p = t.ts ∧ kyOf t p = key) ∨ (tmOf t p ≠ t.ts ∧ Absent N t key)) := by
  rw [probe_eq_probeF]
  exact find_spec I.inv hh key

/-- probing terminates with the fuel `N` every caller passes -/
theorem probe_terminates {N : Nat} {h : Nat → Nat} {t : Table} (I : Inv N h t) (hh : ∀ k, h k < N) (key : Nat) :
    (probe N t.cells t.ts key N (h key)).isSome = true := by
  obtain ⟨p, d, hp, _⟩ := find_spec_t I hh key
  simp [hp]

theorem peek_of_maps {N : Nat} {h : Nat → Nat} {t : Table} (I : Inv N h t) (hh : ∀ k, h k < N)
    (k : Nat) (v : Int) (hm : Maps N t k v) : peek N h t k = some (some v) := by
  obtain ⟨p, d, hp, hpN, _, _, _, hcase⟩ := find_spec_t I hh k
  obtain ⟨i, hi, hli, hki, hvi⟩ := hm
  rcases hcase with ⟨hlp, hkp⟩ | ⟨_, habs⟩
  · have : p = i := I.inv.distinct p i hpN hi hlp hli (by rw [hkp, hki])
    subst this
    simp only [peek, hp]
    have : (gt t.cells p).time = t.ts := hlp
    simp [this]; exact hvi
  · exact absurd hki (habs i hi hli)

theorem peek_of_absent {N : Nat} {h : Nat → Nat} {t : Table} (I : Inv N h t) (hh : ∀ k, h k < N)
    (k : Nat) (ha : Absent N t k) : peek N h t k = some none := by
  obtain ⟨p, d, hp, hpN, _, _, _, hcase⟩ := find_spec_t I hh k
  rcases hcase with ⟨hlp, hkp⟩ | ⟨hdead, _⟩
  · exact absurd hkp (ha p hpN hlp)
  · simp only [peek, hp]
    have : ¬ (gt t.cells p).time = t.ts := hdead
    simp [this]

theorem containsKey_eq_peek (N : Nat) (h : Nat → Nat) (t : Table) (k : Nat) :
    containsKey N h t k = (peek N h t k).map Option.isSome := by
  simp only [containsKey, peek]
  split
  · rfl
  · split <;> rfl

theorem peek_rel {N : Nat} {h : Nat → Nat} {t : Table} {m : FinMap.M} (R : Rel N h t m) (hh : ∀ k, h k < N)
    (k : Nat) : peek N h t k = some (FinMap.get? m k) := by
  cases hg : FinMap.get? m k with
  | none => exact peek_of_absent R.inv hh k (R.none k hg)
  | some v => exact peek_of_maps R.inv hh k v (R.some k v hg)

theorem containsKey_rel {N : Nat} {h : Nat → Nat} {t : Table} {m : FinMap.M} (R : Rel N h t m)
    (hh : ∀ k, h k < N) (k : Nat) : containsKey N h t k = some (FinMap.contains m k) := by
  rw [containsKey_eq_peek, peek_rel R hh k]; rfl

/-! ### get_mut -/

theorem getMut_spec {N : Nat} {h : Nat → Nat} {t : Table} (I : Inv N h t) (hh : ∀ k, h k < N) (key : Nat)
    (hroom : (∃ i, i < N ∧ tmOf t i = t.ts ∧ kyOf t i = key) ∨ t.length + 1 < N) :
    ∃ t' p, getMut N h t key = some (t', p) ∧ Inv N h t' ∧ p < N ∧ t'.ts = t.ts ∧
      tmOf t' = wr (tmOf t) p t.ts ∧ kyOf t' = wr (kyOf t) p key ∧
      (∀ j, j ≠ p → vlOf t' j = vlOf t j) ∧
      vlOf t' p = (if tmOf t p = t.ts then vlOf t p else 0) ∧
      t'.length = (if tmOf t p = t.ts then t.length else t.length + 1) ∧
      ((tmOf t p = t.ts ∧ kyOf t p = key) ∨ (tmOf t p ≠ t.ts ∧ Absent N t key)) := by
  obtain ⟨p, d, hp, hpN, hd, hpd, hall, hcase⟩ := find_spec_t I hh key
  have hsz : p < t.cells.size := by rw [I.size]; exact hpN
  -- the two branches of `get_mut` produce the same shape of table
  have key_fact : ∀ (v : Int) (len' : Nat),
      v = (if tmOf t p = t.ts then vlOf t p else 0) →
      len' = (if tmOf t p = t.ts then t.length else t.length + 1) →
      let t' : Table := { cells := st t.cells p ⟨t.ts, key, v⟩, ts := t.ts, length := len' }
      Inv N h t' ∧ tmOf t' = wr (tmOf t) p t.ts ∧ kyOf t' = wr (kyOf t) p key ∧
        (∀ j, j ≠ p → vlOf t' j = vlOf t j) ∧ vlOf t' p = v := by
    intro v len' hv hlen t'
    have htm : tmOf t' = wr (tmOf t) p t.ts := by
      funext j
      show (gt (st t.cells p ⟨t.ts, key, v⟩) j).time = _
      rw [gt_st' _ _ _ _ hsz]; simp only [wr, tmOf]; split <;> rfl
    have hky : kyOf t' = wr (kyOf t) p key := by
      funext j
      show (gt (st t.cells p ⟨t.ts, key, v⟩) j).key = _
      rw [gt_st' _ _ _ _ hsz]; simp only [wr, kyOf]; split <;> rfl
    refine ⟨⟨by show (st t.cells p _).size = N; rw [size_st]; exact I.size, ?_⟩, htm, hky, ?_, ?_⟩
    · rw [htm, hky]
      show InvF N h (wr (tmOf t) p t.ts) (wr (kyOf t) p key) t.ts len'
      refine InvF_write I.inv key p d hpN hd hpd hall ?_ len' hlen ?_
      · rcases hcase with hc | ⟨hc1, hc2⟩
        · exact Or.inl hc
        · exact Or.inr ⟨hc1, hc2⟩
      · rw [hlen]
        rcases hcase with ⟨hlp, hkp⟩ | ⟨hdead, habs⟩
        · simp only [hlp, if_true]; exact I.inv.room
        · simp only [hdead, if_false]
          rcases hroom with ⟨i, hi, hli, hki⟩ | hr
          · exact absurd hki (habs i hi hli)
          · exact hr
    · intro j hj
      show (gt (st t.cells p ⟨t.ts, key, v⟩) j).val = _
      rw [gt_st' _ _ _ _ hsz]; simp [hj, vlOf]
    · show (gt (st t.cells p ⟨t.ts, key, v⟩) p).val = v
      rw [gt_st' _ _ _ _ hsz]; simp
  by_cases hlp : (gt t.cells p).time = t.ts
  · have hlp' : tmOf t p = t.ts := hlp
    obtain ⟨hI, htm, hky, hvo, hvp⟩ := key_fact (gt t.cells p).val t.length (by simp [hlp', vlOf]) (by simp [hlp'])
    refine ⟨_, p, ?_, hI, hpN, rfl, htm, hky, hvo, ?_, ?_, hcase⟩
    · simp only [getMut, hp]; simp [hlp]
    · rw [hvp]; simp [hlp', vlOf]
    · simp [hlp']
  · have hlp' : ¬ tmOf t p = t.ts := hlp
    obtain ⟨hI, htm, hky, hvo, hvp⟩ := key_fact 0 (t.length + 1) (by simp [hlp']) (by simp [hlp'])
    refine ⟨_, p, ?_, hI, hpN, rfl, htm, hky, hvo, ?_, ?_, hcase⟩
    · simp only [getMut, hp]; simp [hlp]
    · rw [hvp]; simp [hlp']
    · simp [hlp']

/-- keys other than `key` are untouched by the write at `p` -/
theorem maps_other {N : Nat} {t t' : Table} {p key : Nat} (hts : t'.ts = t.ts)
    (htm : tmOf t' = wr (tmOf t) p t.ts) (hky : kyOf t' = wr (kyOf t) p key)
    (hvo : ∀ j, j ≠ p → vlOf t' j = vlOf t j)
    (hcase : (tmOf t p = t.ts ∧ kyOf t p = key) ∨ (tmOf t p ≠ t.ts ∧ Absent N t key))
    (k : Nat) (hk : k ≠ key) (v : Int) (hm : Maps N t k v) : Maps N t' k v := by
  obtain ⟨i, hi, hli, hki, hvi⟩ := hm
  have hip : i ≠ p := by
    intro e; subst e
    rcases hcase with ⟨_, hkp⟩ | ⟨hdead, _⟩
    · exact hk (hki.symm.trans hkp)
    · exact hdead hli
  refine ⟨i, hi, ?_, ?_, ?_⟩
  · rw [htm, hts]; simp [wr, hip, hli]
  · rw [hky]; simp [wr, hip, hki]
  · rw [hvo i hip]; exact hvi

theorem absent_other {N : Nat} {t t' : Table} {p key : Nat} (hts : t'.ts = t.ts)
    (htm : tmOf t' = wr (tmOf t) p t.ts) (hky : kyOf t' = wr (kyOf t) p key)
    (k : Nat) (hk : k ≠ key) (ha : Absent N t k) : Absent N t' k := by
  intro i hi hli
  rw [htm, hts] at hli
  rw [hky]
  by_cases hip : i = p
  · simp [wr, hip]; exact fun e => hk e.symm
  · simp only [wr, hip, if_false] at hli ⊢
    exact ha i hi hli

theorem getMut_rel {N : Nat} {h : Nat → Nat} {t : Table} {m : FinMap.M} (R : Rel N h t m) (hh : ∀ k, h k < N)
    (key : Nat) (hdom : FinMap.contains m key = true ∨ FinMap.len m + 1 < N) :
    ∃ t' p, getMut N h t key = some (t', p) ∧ Rel N h t' (FinMap.getOrCreate m key 0).1 ∧
      valAt t' p = (FinMap.getOrCreate m key 0).2 ∧ p < N ∧ tmOf t' p = t'.ts ∧ kyOf t' p = key := by
  have hroom : (∃ i, i < N ∧ tmOf t i = t.ts ∧ kyOf t i = key) ∨ t.length + 1 < N := by
    rcases hdom with hc | hl
    · left
      cases hg : FinMap.get? m key with
      | none => simp [FinMap.contains, hg] at hc
      | some v =>
        obtain ⟨i, hi, hli, hki, _⟩ := R.some key v hg
        exact ⟨i, hi, hli, hki⟩
    · right; rw [R.len]; exact hl
  obtain ⟨t', p, hgm, hI, hpN, hts, htm, hky, hvo, hvp, hlen, hcase⟩ := getMut_spec R.inv hh key hroom
  have hlp' : tmOf t' p = t'.ts := by rw [htm, hts]; simp [wr]
  have hkp' : kyOf t' p = key := by rw [hky]; simp [wr]
  refine ⟨t', p, hgm, ?_, ?_, hpN, hlp', hkp'⟩
  · cases hg : FinMap.get? m key with
    | some v =>
      -- present: the map is unchanged
      obtain ⟨i, hi, hli, hki, hvi⟩ := R.some key v hg
      have hfound : tmOf t p = t.ts ∧ kyOf t p = key := by
        rcases hcase with hc | ⟨_, habs⟩
        · exact hc
        · exact absurd hki (habs i hi hli)
      have hpi : p = i := R.inv.inv.distinct p i hpN hi hfound.1 hli (by rw [hfound.2, hki])
      simp only [FinMap.getOrCreate, hg]
      refine ⟨hI, R.nodup, ?_, ?_, ?_⟩
      · rw [hlen]; simp [hfound.1, R.len]
      · intro k w hk
        by_cases hkk : k = key
        · subst hkk
          rw [hg] at hk; injection hk with hk; subst hk
          refine ⟨p, hpN, hlp', hkp', ?_⟩
          rw [hvp]; simp only [hfound.1, if_true]; rw [hpi]; exact hvi
        · exact maps_other hts htm hky hvo hcase k hkk w (R.some k w hk)
      · intro k hk
        have hkk : k ≠ key := by intro e; subst e; rw [hg] at hk; cases hk
        exact absent_other hts htm hky k hkk (R.none k hk)
    | none =>
      have habs := R.none key hg
      have hdead : tmOf t p ≠ t.ts := by
        rcases hcase with ⟨hlp, hkp⟩ | ⟨hd, _⟩
        · exact absurd hkp (habs p hpN hlp)
        · exact hd
      simp only [FinMap.getOrCreate, hg]
      refine ⟨hI, FinMap.noDup_insert m key 0 R.nodup, ?_, ?_, ?_⟩
      · rw [hlen, FinMap.len_insert m key 0 R.nodup]
        simp [hdead, FinMap.contains, hg, R.len]
      · intro k w hk
        rw [FinMap.get?_insert] at hk
        by_cases hkk : key = k
        · subst hkk
          simp only [if_true] at hk; injection hk with hk; subst hk
          refine ⟨p, hpN, hlp', hkp', ?_⟩
          rw [hvp]; simp [hdead]
        · simp only [hkk, if_false] at hk
          exact maps_other hts htm hky hvo hcase k (fun e => hkk e.symm) w (R.some k w hk)
      · intro k hk
        rw [FinMap.get?_insert] at hk
        by_cases hkk : key = k
        · simp [hkk] at hk
        · simp only [hkk, if_false] at hk
          exact absent_other hts htm hky k (fun e => hkk e.symm) (R.none k hk)
  · show vlOf t' p = _
    rw [hvp]
    cases hg : FinMap.get? m key with
    | some v =>
      obtain ⟨i, hi, hli, hki, hvi⟩ := R.some key v hg
      have hfound : tmOf t p = t.ts ∧ kyOf t p = key := by
        rcases hcase with hc | ⟨_, habs⟩
        · exact hc
        · exact absurd hki (habs i hi hli)
      have hpi : p = i := R.inv.inv.distinct p i hpN hi hfound.1 hli (by rw [hfound.2, hki])
      simp only [FinMap.getOrCreate, hg, hfound.1, if_true]; rw [hpi]; exact hvi
    | none =>
      have habs := R.none key hg
      have hdead : tmOf t p ≠ t.ts := by
        rcases hcase with ⟨hlp, hkp⟩ | ⟨hd, _⟩
        · exact absurd hkp (habs p hpN hlp)
        · exact hd
      simp [FinMap.getOrCreate, hg, hdead]

/-! ### writing through the handed-out reference, insert -/

theorem setVal_rel {N : Nat} {h : Nat → Nat} {t : Table} {m : FinMap.M} (R : Rel N h t m)
    (p key : Nat) (v : Int) (hpN : p < N) (hlp : tmOf t p = t.ts) (hkp : kyOf t p = key) :
    Rel N h (setVal t p v) (FinMap.insert m key v) := by
  have hsz : p < t.cells.size := by rw [R.inv.size]; exact hpN
  have htm : tmOf (setVal t p v) = tmOf t := by
    funext j
    show (gt (st t.cells p _) j).time = _
    rw [gt_st' _ _ _ _ hsz]; simp only [tmOf]; split
    · rename_i e; subst e; rfl
    · rfl
  have hky : kyOf (setVal t p v) = kyOf t := by
    funext j
    show (gt (st t.cells p _) j).key = _
    rw [gt_st' _ _ _ _ hsz]; simp only [kyOf]; split
    · rename_i e; subst e; rfl
    · rfl
  have hvl : ∀ j, vlOf (setVal t p v) j = if j = p then v else vlOf t j := by
    intro j
    show (gt (st t.cells p _) j).val = _
    rw [gt_st' _ _ _ _ hsz]; simp only [vlOf]; split <;> rfl
  have hI : Inv N h (setVal t p v) :=
    Inv_congr R.inv (by show (st t.cells p _).size = _; rw [size_st]) htm hky rfl rfl
  have hcont : FinMap.contains m key = true := by
    cases hg : FinMap.get? m key with
    | some w => simp [FinMap.contains, hg]
    | none => exact absurd hkp (R.none key hg p hpN hlp)
  refine ⟨hI, FinMap.noDup_insert m key v R.nodup, ?_, ?_, ?_⟩
  · rw [FinMap.len_insert m key v R.nodup, hcont]; exact R.len
  · intro k w hk
    rw [FinMap.get?_insert] at hk
    by_cases hkk : key = k
    · subst hkk
      simp only [if_true] at hk; injection hk with hk; subst hk
      exact ⟨p, hpN, by rw [htm]; exact hlp, by rw [hky]; exact hkp, by rw [hvl]; simp⟩
    · simp only [hkk, if_false] at hk
      obtain ⟨i, hi, hli, hki, hvi⟩ := R.some k w hk
      have hip : i ≠ p := by intro e; subst e; exact hkk (hkp.symm.trans hki)
      exact ⟨i, hi, by rw [htm]; exact hli, by rw [hky]; exact hki, by rw [hvl]; simp [hip, hvi]⟩
  · intro k hk
    rw [FinMap.get?_insert] at hk
    by_cases hkk : key = k
    · simp [hkk] at hk
    · simp only [hkk, if_false] at hk
      intro i hi hli
      rw [htm] at hli; rw [hky]
      exact R.none k hk i hi hli

theorem insert_rel {N : Nat} {h : Nat → Nat} {t : Table} {m : FinMap.M} (R : Rel N h t m) (hh : ∀ k, h k < N)
    (key : Nat) (v : Int) (hdom : FinMap.contains m key = true ∨ FinMap.len m + 1 < N) :
    ∃ t', insert N h t key v = some t' ∧ Rel N h t' (FinMap.insert m key v) := by
  obtain ⟨t', p, hgm, R', _, hpN, hlp, hkp⟩ := getMut_rel R hh key hdom
  refine ⟨setVal t' p v, by simp [insert, hgm], ?_⟩
  have := setVal_rel R' p key v hpN hlp hkp
  rwa [FinMap.insert_getOrCreate] at this

/-! ### clear, new, the generation hook -/

theorem rel_empty {N : Nat} {h : Nat → Nat} {t : Table} (I : Inv N h t) (hl : t.length = 0)
    (hdead : ∀ i, i < N → tmOf t i ≠ t.ts) : Rel N h t FinMap.clear :=
  ⟨I, FinMap.noDup_clear, by rw [hl]; rfl, fun k v hk => by simp [FinMap.clear, FinMap.get?] at hk,
   fun k _ i hi hli => absurd hli (hdead i hi)⟩

theorem clear_spec {N : Nat} {h : Nat → Nat} {t : Table} (I : Inv N h t) (hN : 0 < N) :
    Inv N h (clear N t) ∧ (clear N t).length = 0 ∧ (∀ i, i < N → tmOf (clear N t) i ≠ (clear N t).ts) := by
  have hts := I.inv.tsLe
  obtain ⟨c1, c2, c3⟩ := InvF_clear I.inv hN
  by_cases h0 : t.ts = u32Max
  · -- wrap to generation 0: fresh cells
    have e : clear N t = { cells := Array.replicate N default, ts := 0, length := 0 } := by
      simp [clear, h0, u32Max]
    rw [e]
    have htm : tmOf { cells := Array.replicate N (default : Cell), ts := 0, length := 0 } = fun _ => u32Max := by
      funext j; show (gt (Array.replicate N (default : Cell)) j).time = _; rw [gt_replicate N default rfl]; rfl
    refine ⟨⟨by simp, ?_⟩, rfl, ?_⟩
    · rw [htm]; exact c3 h0 _
    · intro i _; rw [htm]; simp [u32Max]
  · have hlt : t.ts + 1 < 4294967296 := by simp only [u32Max] at hts h0; omega
    have hmod : (t.ts + 1) % 4294967296 = t.ts + 1 := Nat.mod_eq_of_lt hlt
    by_cases h1 : t.ts + 1 = u32Max
    · -- restamp at u32::MAX
      have e : clear N t = { cells := t.cells.map (fun c => { c with time := 0 }), ts := u32Max, length := 0 } := by
        simp only [clear, hmod]
        rw [if_neg (by omega), if_pos h1, h1]
      rw [e]
      have hsz : (t.cells.map (fun c : Cell => { c with time := 0 })).size = N := by simp [I.size]
      have htm : ∀ i, i < N → tmOf { cells := t.cells.map (fun c : Cell => { c with time := 0 }), ts := u32Max, length := 0 } i = 0 := by
        intro i hi
        show (gt (t.cells.map (fun c : Cell => { c with time := 0 })) i).time = 0
        rw [gt_map_lt _ _ _ (by rw [I.size]; exact hi)]
      have hky : ∀ i, i < N → kyOf { cells := t.cells.map (fun c : Cell => { c with time := 0 }), ts := u32Max, length := 0 } i = kyOf t i := by
        intro i hi
        show (gt (t.cells.map (fun c : Cell => { c with time := 0 })) i).key = _
        rw [gt_map_lt _ _ _ (by rw [I.size]; exact hi)]; rfl
      refine ⟨⟨hsz, ?_⟩, rfl, ?_⟩
      · apply InvF_empty N h _ _ u32Max hN (Nat.le_refl _)
        · intro i hi; rw [htm i hi]; simp [u32Max]
        · intro i hi; left; rw [htm i hi]; simp
      · intro i hi; rw [htm i hi]; simp [u32Max]
    · have e : clear N t = { cells := t.cells, ts := t.ts + 1, length := 0 } := by
        simp only [clear, hmod]
        rw [if_neg (by omega), if_neg h1]
      rw [e]
      have hlt2 : t.ts + 1 < u32Max := by simp only [u32Max] at hts h0 h1 ⊢; omega
      refine ⟨⟨I.size, c1 hlt2⟩, rfl, ?_⟩
      intro i hi
      show tmOf t i ≠ t.ts + 1
      rcases I.inv.hygiene i hi with hh | hh <;> omega

theorem clear_rel {N : Nat} {h : Nat → Nat} {t : Table} {m : FinMap.M} (R : Rel N h t m) (hN : 0 < N) :
    Rel N h (clear N t) FinMap.clear := by
  obtain ⟨hI, hl, hdead⟩ := clear_spec R.inv hN
  exact rel_empty hI hl hdead

theorem init_rel (N : Nat) (h : Nat → Nat) (hN : 0 < N) : Rel N h (init N) FinMap.clear := by
  have htm : tmOf (init N) = fun _ => u32Max := by
    funext j; show (gt (Array.replicate N (default : Cell)) j).time = _; rw [gt_replicate N default rfl]; rfl
  apply rel_empty
  · refine ⟨by simp [init], ?_⟩
    rw [htm]
    apply InvF_empty N h _ _ 0 hN (by simp [u32Max])
    · intro i _; simp [u32Max]
    · intro i _; right; rfl
  · rfl
  · intro i _; rw [htm]; simp [init, u32Max]

theorem setGeneration_rel {N : Nat} {h : Nat → Nat} {t : Table} {m : FinMap.M} (R : Rel N h t m) (hN : 0 < N)
    (g : Nat) (hg : g ≤ u32Max) (hm : FinMap.len m = 0) :
    ∃ t', setGeneration N t g = some t' ∧ t'.ts = g ∧ Rel N h t' FinMap.clear := by
  have hl : t.length = 0 := by rw [R.len]; exact hm
  by_cases hgm : g = u32Max
  · subst hgm
    refine ⟨{ cells := (Array.replicate N (default : Cell)).map (fun c : Cell => { c with time := 0 }), ts := u32Max, length := 0 },
      by simp only [setGeneration, hl, ↓reduceIte], rfl, ?_⟩
    have hsz : ((Array.replicate N (default : Cell)).map (fun c : Cell => { c with time := 0 })).size = N := by simp
    have htm : ∀ i, i < N → tmOf { cells := (Array.replicate N (default : Cell)).map (fun c : Cell => { c with time := 0 }), ts := u32Max, length := 0 } i = 0 := by
      intro i hi
      show (gt ((Array.replicate N (default : Cell)).map (fun c : Cell => { c with time := 0 })) i).time = 0
      rw [gt_map_lt _ _ _ (by simpa using hi)]
    apply rel_empty
    · refine ⟨hsz, ?_⟩
      apply InvF_empty N h _ _ u32Max hN (Nat.le_refl _)
      · intro i hi; rw [htm i hi]; simp [u32Max]
      · intro i hi; left; rw [htm i hi]; simp
    · rfl
    · intro i hi; rw [htm i hi]; simp [u32Max]
  · refine ⟨{ cells := Array.replicate N (default : Cell), ts := g, length := 0 },
      by simp only [setGeneration, hl, hgm, ↓reduceIte], rfl, ?_⟩
    have htm : tmOf { cells := Array.replicate N (default : Cell), ts := g, length := 0 } = fun _ => u32Max := by
      funext j; show (gt (Array.replicate N (default : Cell)) j).time = _; rw [gt_replicate N default rfl]; rfl
    apply rel_empty
    · refine ⟨by simp, ?_⟩
      rw [htm]
      apply InvF_empty N h _ _ g hN hg
      · intro i _; exact fun e => hgm e.symm
      · intro i _; right; rfl
    · rfl
    · intro i _; rw [htm]; exact fun e => hgm e.symm

end Tbx.HashTable
