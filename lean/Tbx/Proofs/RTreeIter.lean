import Tbx.Model.RTree
/-
C12, the best-first iterator: for every priority queue satisfying the contract, every priority function and
every tree with a cover function (`IsCover`: which elements lie below which search node, by the local
equations the iterator's expansion follows), `collect` yields a permutation of the root's cover with the
true distances; if the priorities are admissible the distances come out nondecreasing.  Core Lean only.
-/
namespace Tbx.RTree

section
variable {α Q : Type} (P : PQOps Q) (B : Nat) (t : Tree α) (dist : α → Nat) (prio : Nat → Nat)
variable (cov : Nat → List α)

/-- the elements of leaves `c, c+1, …, c+k-1` -/
def leafRange (c k : Nat) : List α := (List.range k).flatMap fun i => t.leaves[c + i]?.getD []

/-- the elements a queue entry stands for, following the iterator's expansion of that entry -/
def coverE (e : Entry) : List α :=
  match e.kind with
  | .tree => (List.range (childrenCount B t.ends e.idx)).flatMap fun i => cov (e.idx + i)
  | .leaf => leafRange t e.idx (min (e.idx + B) t.leaves.length - e.idx)
  | .cand off => (t.leaves[e.idx]?.bind (·[off]?)).toList

/-- `cov i` = the elements below search node `i`: it satisfies the expansion equation of every search
node, and the children of a tree node are stored before the node -/
structure IsCover : Prop where
  eq : ∀ (i : Nat) (nd : SNode), t.nodes[i]? = some nd →
    cov i = coverE B t cov ⟨0, nd.first, if nd.kind = 0 then .leaf else .tree⟩
  bound : ∀ (i : Nat) (nd : SNode), t.nodes[i]? = some nd → nd.kind ≠ 0 →
    nd.first + childrenCount B t.ends nd.first ≤ i

/-- the elements below the root (the last search node); nothing if there is no search node -/
def rootCover : List α :=
  match t.nodes.length with
  | 0 => []
  | m + 1 => cov m

/-- admissible priorities: the priority of every search node except the root (the last one, which is
alone in the queue when it is popped) is a lower bound of the distance of every element below it -/
def Admissible : Prop := ∀ i, i + 1 < t.nodes.length → ∀ y ∈ cov i, prio i ≤ dist y

/-- an entry that is not the root's -/
def NonRoot (e : Entry) : Prop :=
  match e.kind with
  | .cand _ => True
  | .leaf => ∃ i, i + 1 < t.nodes.length ∧ nodeEntry prio t.nodes i = some e
  | .tree => ∃ i, i + 1 < t.nodes.length ∧ nodeEntry prio t.nodes i = some e

/-- an entry the iterator may legitimately hold: a search node with its priority, or an element of a
leaf with its distance -/
def Genuine (e : Entry) : Prop :=
  match e.kind with
  | .cand off => ∃ x, t.leaves[e.idx]?.bind (·[off]?) = some x ∧ e.key = dist x
  | .leaf => ∃ i, nodeEntry prio t.nodes i = some e
  | .tree => ∃ i, nodeEntry prio t.nodes i = some e

/-- the elements the queue still stands for -/
def rem (q : Q) : List α := (P.abs q).flatMap (coverE B t cov)

end

section
variable {α Q : Type} {P : PQOps Q} {B : Nat} {t : Tree α} {dist : α → Nat} {prio : Nat → Nat}
variable {cov : Nat → List α}

theorem coverE_key (e : Entry) (k : Nat) : coverE B t cov ⟨k, e.idx, e.kind⟩ = coverE B t cov e := rfl

theorem nodeEntry_some {i : Nat} {e : Entry} (h : nodeEntry prio t.nodes i = some e) :
    ∃ nd, t.nodes[i]? = some nd ∧ e = ⟨prio i, nd.first, if nd.kind = 0 then .leaf else .tree⟩ := by
  unfold nodeEntry at h
  cases hn : t.nodes[i]? with
  | none => rw [hn] at h; cases h
  | some nd => rw [hn] at h; simp at h; exact ⟨nd, rfl, h.symm⟩

theorem nodeEntry_cover (hc : IsCover B t cov) {i : Nat} {e : Entry} (h : nodeEntry prio t.nodes i = some e) :
    coverE B t cov e = cov i := by
  obtain ⟨nd, hn, rfl⟩ := nodeEntry_some h
  exact (hc.eq i nd hn).symm

theorem nodeEntry_genuine {i : Nat} {e : Entry} (h : nodeEntry prio t.nodes i = some e) :
    Genuine t dist prio e := by
  obtain ⟨nd, hn, he⟩ := nodeEntry_some h
  by_cases hk : nd.kind = 0
  · have : e.kind = .leaf := by rw [he]; simp [hk]
    unfold Genuine; rw [this]; exact ⟨i, h⟩
  · have : e.kind = .tree := by rw [he]; simp [hk]
    unfold Genuine; rw [this]; exact ⟨i, h⟩

theorem nodeEntry_nonRoot {i : Nat} {e : Entry} (hi : i + 1 < t.nodes.length)
    (h : nodeEntry prio t.nodes i = some e) : NonRoot t prio e := by
  obtain ⟨nd, hn, he⟩ := nodeEntry_some h
  by_cases hk : nd.kind = 0
  · have : e.kind = .leaf := by rw [he]; simp [hk]
    unfold NonRoot; rw [this]; exact ⟨i, hi, h⟩
  · have : e.kind = .tree := by rw [he]; simp [hk]
    unfold NonRoot; rw [this]; exact ⟨i, hi, h⟩

theorem range_succ_flatMap {β : Type} (f : Nat → List β) (k : Nat) :
    (List.range (k + 1)).flatMap f = f 0 ++ (List.range k).flatMap (fun i => f (i + 1)) := by
  rw [List.range_succ_eq_map, List.flatMap_cons, List.flatMap_map]

/-- pushing the children of a tree node -/
theorem pushNodes_spec (hP : P.Lawful) (hc : IsCover B t cov) : ∀ (k : Nat) (q : Q) (c : Nat),
    c + k < t.nodes.length →
    ∃ q' es, pushNodes P t prio q c k = some q' ∧ (P.abs q').Perm (es ++ P.abs q) ∧
      (∀ e ∈ es, Genuine t dist prio e ∧ NonRoot t prio e) ∧
      es.flatMap (coverE B t cov) = (List.range k).flatMap fun i => cov (c + i) := by
  intro k
  induction k with
  | zero => intro q c _; exact ⟨q, [], rfl, List.Perm.refl _, by simp, by simp⟩
  | succ k ih =>
    intro q c hck
    have hcl : c < t.nodes.length := by omega
    obtain ⟨e0, hne⟩ : ∃ e0, nodeEntry prio t.nodes c = some e0 :=
      ⟨_, by simp [nodeEntry, List.getElem?_eq_getElem hcl]; rfl⟩
    obtain ⟨q', es, hq', hperm, hgen, hcov⟩ := ih (P.push q e0) (c + 1) (by omega)
    refine ⟨q', e0 :: es, ?_, ?_, ?_, ?_⟩
    · simp only [pushNodes, hne]; exact hq'
    · refine hperm.trans ?_
      refine (List.Perm.append_left es (hP.abs_push q _)).trans ?_
      exact List.perm_middle
    · intro e he
      rcases List.mem_cons.mp he with rfl | he
      · exact ⟨nodeEntry_genuine hne, nodeEntry_nonRoot (by omega) hne⟩
      · exact hgen e he
    · rw [List.flatMap_cons, nodeEntry_cover hc hne, hcov, range_succ_flatMap]
      simp only [Nat.add_zero]
      congr 2
      funext i
      rw [Nat.add_assoc, Nat.add_comm 1 i]

/-- pushing the elements of one leaf as candidates -/
theorem pushCands_spec (hP : P.Lawful) (j : Nat) : ∀ (xs : List α) (off : Nat) (q : Q),
    (∀ i x, xs[i]? = some x → t.leaves[j]?.bind (·[off + i]?) = some x) →
    ∃ es, (P.abs (pushCands P dist j q xs off)).Perm (es ++ P.abs q) ∧
      (∀ e ∈ es, Genuine t dist prio e ∧ NonRoot t prio e) ∧ es.flatMap (coverE B t cov) = xs := by
  intro xs
  induction xs with
  | nil => intro off q _; exact ⟨[], List.Perm.refl _, by simp, by simp⟩
  | cons x xs ih =>
    intro off q hx
    have h0 : t.leaves[j]?.bind (·[off]?) = some x := by simpa using hx 0 x (by simp)
    obtain ⟨es, hperm, hgen, hcov⟩ := ih (off + 1) (P.push q ⟨dist x, j, .cand off⟩) (by
      intro i y hy
      have := hx (i + 1) y (by simpa using hy)
      rw [Nat.add_assoc, Nat.add_comm 1 i]; exact this)
    refine ⟨⟨dist x, j, .cand off⟩ :: es, ?_, ?_, ?_⟩
    · simp only [pushCands]
      refine hperm.trans ?_
      refine (List.Perm.append_left es (hP.abs_push q _)).trans ?_
      exact List.perm_middle
    · intro e he
      rcases List.mem_cons.mp he with rfl | he
      · exact ⟨⟨x, h0, rfl⟩, trivial⟩
      · exact hgen e he
    · rw [List.flatMap_cons, hcov]
      simp [coverE, h0]

/-- pushing the elements of the leaves of a leaf group -/
theorem pushLeaves_spec (hP : P.Lawful) : ∀ (k : Nat) (q : Q) (j : Nat), (k ≠ 0 → j + k ≤ t.leaves.length) →
    ∃ q' es, pushLeaves P t dist q j k = some q' ∧ (P.abs q').Perm (es ++ P.abs q) ∧
      (∀ e ∈ es, Genuine t dist prio e ∧ NonRoot t prio e) ∧ es.flatMap (coverE B t cov) = leafRange t j k := by
  intro k
  induction k with
  | zero => intro q j _; exact ⟨q, [], rfl, List.Perm.refl _, by simp, by simp [leafRange]⟩
  | succ k ih =>
    intro q j hjk
    have hjk := hjk (by omega)
    have hjl : j < t.leaves.length := by omega
    have hlf : t.leaves[j]? = some t.leaves[j] := List.getElem?_eq_getElem hjl
    obtain ⟨es1, hp1, hg1, hc1⟩ := pushCands_spec (B := B) (t := t) (prio := prio) (cov := cov) (dist := dist) hP j t.leaves[j] 0 q (by
      intro i x hx
      simp [hlf, hx])
    obtain ⟨q', es2, hq', hp2, hg2, hc2⟩ := ih (pushCands P dist j q t.leaves[j] 0) (j + 1) (by intro _; omega)
    refine ⟨q', es1 ++ es2, ?_, ?_, ?_, ?_⟩
    · simp only [pushLeaves, hlf]; exact hq'
    · refine hp2.trans ?_
      refine (List.Perm.append_left es2 hp1).trans ?_
      rw [← List.append_assoc]
      exact List.Perm.append_right _ List.perm_append_comm
    · intro e he
      rcases List.mem_append.mp he with he | he
      · exact hg1 e he
      · exact hg2 e he
    · rw [List.flatMap_append, hc1, hc2]
      unfold leafRange
      rw [range_succ_flatMap]
      simp only [Nat.add_zero, hlf, Option.getD_some]
      congr 2
      funext i
      rw [Nat.add_assoc, Nat.add_comm 1 i]

/-- a legitimate entry's key is a lower bound for everything it stands for, if the priorities are admissible -/
theorem entry_adm (hc : IsCover B t cov) (ha : Admissible t dist prio cov) {e : Entry}
    (hg : Genuine t dist prio e) (hnr : NonRoot t prio e) : ∀ y ∈ coverE B t cov e, e.key ≤ dist y := by
  intro y hy
  have node_case : ∀ i, i + 1 < t.nodes.length → nodeEntry prio t.nodes i = some e → e.key ≤ dist y := by
    intro i hil hi
    rw [nodeEntry_cover hc hi] at hy
    obtain ⟨nd, hn, he⟩ := nodeEntry_some hi
    rw [he]
    exact ha i hil y hy
  unfold Genuine at hg
  unfold NonRoot at hnr
  cases hk : e.kind with
  | tree => rw [hk] at hnr; obtain ⟨i, hil, hi⟩ := hnr; exact node_case i hil hi
  | leaf => rw [hk] at hnr; obtain ⟨i, hil, hi⟩ := hnr; exact node_case i hil hi
  | cand off =>
    rw [hk] at hg
    obtain ⟨x, hx, hkey⟩ := hg
    unfold coverE at hy
    rw [hk] at hy
    simp only [hx, Option.toList_some, List.mem_singleton] at hy
    rw [hy, hkey]
    exact Nat.le_refl _

/-- every queued entry is legitimate -/
def AllGenuine (P : PQOps Q) (t : Tree α) (dist : α → Nat) (prio : Nat → Nat) (q : Q) : Prop :=
  ∀ e ∈ P.abs q, Genuine t dist prio e

/-- no queued entry is the root's -/
def AllNonRoot (P : PQOps Q) (t : Tree α) (prio : Nat → Nat) (q : Q) : Prop :=
  ∀ e ∈ P.abs q, NonRoot t prio e

/-- the queue holds a single search node entry (the situation right after `new`) -/
def SingleNode (P : PQOps Q) (q : Q) : Prop :=
  ∃ e0 : Entry, (∀ off, e0.kind ≠ .cand off) ∧ (P.abs q).Perm [e0]

/-- what one call of `next` must achieve, relative to the queue `q` it started from -/
def NextOK (P : PQOps Q) (B : Nat) (t : Tree α) (dist : α → Nat) (prio : Nat → Nat) (cov : Nat → List α)
    (q : Q) : Step α Q → Prop
  | .item x d q' => (AllGenuine P t dist prio q' ∧ AllNonRoot P t prio q') ∧
      (rem P B t cov q).Perm (x :: rem P B t cov q') ∧ d = dist x ∧
      (Admissible t dist prio cov → ∀ y ∈ rem P B t cov q, d ≤ dist y)
  | .done => rem P B t cov q = []
  | .panic => False
  | .outOfFuel => True

theorem NextOK.transfer {q q2 : Q} {r : Step α Q} (h : NextOK P B t dist prio cov q2 r)
    (hp : (rem P B t cov q).Perm (rem P B t cov q2)) : NextOK P B t dist prio cov q r := by
  cases r with
  | item x d q' =>
    obtain ⟨h1, h2, h3, h4⟩ := h
    exact ⟨h1, hp.trans h2, h3, fun ha y hy => h4 ha y (hp.mem_iff.mp hy)⟩
  | done =>
    have h' : rem P B t cov q2 = [] := h
    show rem P B t cov q = []
    rw [h'] at hp
    exact hp.eq_nil
  | panic => exact h
  | outOfFuel => trivial

theorem rem_of_perm {q : Q} {l : List Entry} (h : (P.abs q).Perm l) :
    (rem P B t cov q).Perm (l.flatMap (coverE B t cov)) :=
  List.Perm.flatMap_right _ h

theorem next_spec (hP : P.Lawful) (hc : IsCover B t cov) : ∀ (fuel : Nat) (q : Q),
    AllGenuine P t dist prio q → (AllNonRoot P t prio q ∨ SingleNode P q) →
    NextOK P B t dist prio cov q (next P B t dist prio fuel q) := by
  intro fuel
  induction fuel with
  | zero => intro q _ _; exact trivial
  | succ fuel ih =>
    intro q hg hnr
    cases hpop : P.pop q with
    | none =>
      have : P.abs q = [] := hP.pop_none q hpop
      simp only [next, hpop]
      show rem P B t cov q = []
      simp [rem, this]
    | some pr =>
      obtain ⟨e, q1⟩ := pr
      obtain ⟨hperm, hmin⟩ := hP.pop_some q e q1 hpop
      have hge : Genuine t dist prio e := hg e (hperm.mem_iff.mpr (List.mem_cons_self ..))
      have hg1 : AllGenuine P t dist prio q1 := fun e' he' => hg e' (hperm.mem_iff.mpr (List.mem_cons_of_mem _ he'))
      -- what stays in the queue after the pop is not the root: either nothing was, or the root was alone
      have hnr1 : AllNonRoot P t prio q1 := by
        rcases hnr with h | ⟨e0, _, hp0⟩
        · exact fun e' he' => h e' (hperm.mem_iff.mpr (List.mem_cons_of_mem _ he'))
        · have hl := (hperm.symm.trans hp0).length_eq
          simp only [List.length_cons, List.length_nil] at hl
          have : P.abs q1 = [] := List.eq_nil_of_length_eq_zero (by omega)
          intro e' he'; rw [this] at he'; cases he'
      have hrem : (rem P B t cov q).Perm (coverE B t cov e ++ rem P B t cov q1) := by
        have := rem_of_perm (B := B) (t := t) (cov := cov) hperm
        simpa [List.flatMap_cons, rem] using this
      -- after an expansion: the new queue stands for the same elements
      have expand : ∀ (q2 : Q) (es : List Entry), (P.abs q2).Perm (es ++ P.abs q1) →
          (∀ e' ∈ es, Genuine t dist prio e' ∧ NonRoot t prio e') → es.flatMap (coverE B t cov) = coverE B t cov e →
          AllGenuine P t dist prio q2 ∧ AllNonRoot P t prio q2 ∧ (rem P B t cov q).Perm (rem P B t cov q2) := by
        intro q2 es hp2 hg2 hc2
        refine ⟨?_, ?_, ?_⟩
        · intro e' he'
          rcases List.mem_append.mp (hp2.mem_iff.mp he') with h | h
          · exact (hg2 e' h).1
          · exact hg1 e' h
        · intro e' he'
          rcases List.mem_append.mp (hp2.mem_iff.mp he') with h | h
          · exact (hg2 e' h).2
          · exact hnr1 e' h
        · refine hrem.trans ?_
          have := rem_of_perm (B := B) (t := t) (cov := cov) hp2
          rw [List.flatMap_append, hc2] at this
          exact this.symm
      simp only [next, hpop]
      unfold Genuine at hge
      cases hk : e.kind with
      | tree =>
        rw [hk] at hge
        obtain ⟨i, hi⟩ := hge
        obtain ⟨nd, hn, he⟩ := nodeEntry_some hi
        have hidx : e.idx = nd.first := by rw [he]
        have hkind : nd.kind ≠ 0 := by
          intro h0
          rw [he] at hk
          simp [h0] at hk
        have hb := hc.bound i nd hn hkind
        have hil : i < t.nodes.length := by
          rcases Nat.lt_or_ge i t.nodes.length with h | h
          · exact h
          · rw [List.getElem?_eq_none h] at hn; cases hn
        obtain ⟨q2, es, hq2, hp2, hg2, hc2⟩ :=
          pushNodes_spec (dist := dist) (prio := prio) hP hc (childrenCount B t.ends e.idx) q1 e.idx (by rw [hidx]; omega)
        have hcov : es.flatMap (coverE B t cov) = coverE B t cov e := by
          rw [hc2]; unfold coverE; rw [hk]
        obtain ⟨hg2', hnr2, hp⟩ := expand q2 es hp2 hg2 hcov
        simp only [hq2]
        exact (ih q2 hg2' (Or.inl hnr2)).transfer hp
      | leaf =>
        rw [hk] at hge
        obtain ⟨q2, es, hq2, hp2, hg2, hc2⟩ :=
          pushLeaves_spec (B := B) (t := t) (cov := cov) (dist := dist) (prio := prio) hP
            (min (e.idx + B) t.leaves.length - e.idx) q1 e.idx (by omega)
        have hcov : es.flatMap (coverE B t cov) = coverE B t cov e := by
          rw [hc2]; unfold coverE; rw [hk]
        obtain ⟨hg2', hnr2, hp⟩ := expand q2 es hp2 hg2 hcov
        simp only [hq2]
        exact (ih q2 hg2' (Or.inl hnr2)).transfer hp
      | cand off =>
        rw [hk] at hge
        obtain ⟨x, hx, hkey⟩ := hge
        simp only [hx]
        have hce : coverE B t cov e = [x] := by unfold coverE; rw [hk]; simp [hx]
        -- a candidate is in the queue, so the queue is not the lone root
        have hnrq : AllNonRoot P t prio q := by
          rcases hnr with h | ⟨e0, hk0, hp0⟩
          · exact h
          · have : e ∈ [e0] := hp0.mem_iff.mp (hperm.mem_iff.mpr (List.mem_cons_self ..))
            simp only [List.mem_singleton] at this
            subst this
            exact absurd hk (hk0 off)
        refine ⟨⟨hg1, hnr1⟩, ?_, hkey, ?_⟩
        · rw [hce] at hrem; exact hrem
        · intro ha y hy
          -- y is stood for by some queued entry, whose key is at least e's and at most dist y
          have hy' : y ∈ (P.abs q).flatMap (coverE B t cov) := hy
          obtain ⟨e', he', hye'⟩ := List.mem_flatMap.mp hy'
          exact Nat.le_trans (hmin e' he') (entry_adm hc ha (hg e' he') (hnrq e' he') y hye')

/-- the caller's loop: what has been collected beyond `acc` is a nearest-first enumeration of what the
queue stood for -/
theorem collectAux_spec (hP : P.Lawful) (hc : IsCover B t cov) (fn : Nat) :
    ∀ (fuel : Nat) (q : Q) (acc out : List (α × Nat)), AllGenuine P t dist prio q →
      (AllNonRoot P t prio q ∨ SingleNode P q) →
      collectAux P B t dist prio fn fuel q acc = .ok out →
      ∃ out', out = acc.reverse ++ out' ∧ (out'.map Prod.fst).Perm (rem P B t cov q) ∧
        (∀ p ∈ out', p.2 = dist p.1) ∧
        (Admissible t dist prio cov → (out'.map Prod.snd).Pairwise (· ≤ ·)) := by
  intro fuel
  induction fuel with
  | zero => intro q acc out _ _ h; simp [collectAux] at h
  | succ fuel ih =>
    intro q acc out hg hnr h
    have hn := next_spec (dist := dist) (prio := prio) hP hc fn q hg hnr
    simp only [collectAux] at h
    cases hr : next P B t dist prio fn q with
    | item x d q' =>
      rw [hr] at hn h
      obtain ⟨hg', hperm, hd, hadm⟩ := hn
      obtain ⟨out'', ho, hp, hdist, hsorted⟩ := ih q' ((x, d) :: acc) out hg'.1 (Or.inl hg'.2) h
      refine ⟨(x, d) :: out'', ?_, ?_, ?_, ?_⟩
      · rw [ho, List.reverse_cons, List.append_assoc]; rfl
      · simp only [List.map_cons]
        exact (List.Perm.cons x hp).trans hperm.symm
      · intro p hp'
        rcases List.mem_cons.mp hp' with rfl | hp'
        · exact hd
        · exact hdist p hp'
      · intro ha
        simp only [List.map_cons]
        refine List.Pairwise.cons ?_ (hsorted ha)
        intro d' hd'
        obtain ⟨p, hpm, rfl⟩ := List.mem_map.mp hd'
        have h1 : p.1 ∈ rem P B t cov q' := hp.mem_iff.mp (List.mem_map_of_mem hpm)
        have h2 : p.1 ∈ rem P B t cov q := hperm.mem_iff.mpr (List.mem_cons_of_mem _ h1)
        rw [hdist p hpm]
        exact hadm ha p.1 h2
    | done =>
      rw [hr] at hn h
      have hrem : rem P B t cov q = [] := hn
      simp only [Res.ok.injEq] at h
      exact ⟨[], by simp [h], by simp [hrem], by simp, by intro _; simp⟩
    | panic => rw [hr] at hn; exact absurd hn id
    | outOfFuel => rw [hr] at h; cases h

/-- the iterator never indexes out of bounds -/
theorem collectAux_no_panic (hP : P.Lawful) (hc : IsCover B t cov) (fn : Nat) :
    ∀ (fuel : Nat) (q : Q) (acc : List (α × Nat)), AllGenuine P t dist prio q →
      (AllNonRoot P t prio q ∨ SingleNode P q) →
      collectAux P B t dist prio fn fuel q acc ≠ .panic := by
  intro fuel
  induction fuel with
  | zero => intro q acc _ _ h; simp [collectAux] at h
  | succ fuel ih =>
    intro q acc hg hnr h
    have hn := next_spec (dist := dist) (prio := prio) hP hc fn q hg hnr
    simp only [collectAux] at h
    cases hr : next P B t dist prio fn q with
    | item x d q' => rw [hr] at hn h; exact ih q' _ hn.1.1 (Or.inl hn.1.2) h
    | done => rw [hr] at h; cases h
    | panic => rw [hr] at hn; exact hn
    | outOfFuel => rw [hr] at h; cases h

/-- the initial queue holds exactly the root -/
theorem initQ_spec (hP : P.Lawful) (hc : IsCover B t cov) :
    AllGenuine P t dist prio (initQ P t prio) ∧
    (AllNonRoot P t prio (initQ P t prio) ∨ SingleNode P (initQ P t prio)) ∧
    (rem P B t cov (initQ P t prio)).Perm (rootCover t cov) := by
  cases hlen : t.nodes.length with
  | zero =>
    have hq : initQ P t prio = P.empty := by simp only [initQ, hlen]
    have hr : rootCover t cov = [] := by simp only [rootCover, hlen]
    rw [hq, hr]
    refine ⟨?_, Or.inl ?_, ?_⟩
    · intro e he; rw [hP.abs_empty] at he; cases he
    · intro e he; rw [hP.abs_empty] at he; cases he
    · simp [rem, hP.abs_empty]
  | succ m =>
    obtain ⟨e0, hne⟩ : ∃ e0, nodeEntry prio t.nodes m = some e0 :=
      ⟨_, by simp [nodeEntry, List.getElem?_eq_getElem (show m < t.nodes.length by omega)]; rfl⟩
    have hq : initQ P t prio = P.push P.empty e0 := by simp only [initQ, hlen, hne]
    have hr : rootCover t cov = cov m := by simp only [rootCover, hlen]
    have hab : (P.abs (P.push P.empty e0)).Perm [e0] := by
      have := hP.abs_push P.empty e0
      rwa [hP.abs_empty] at this
    rw [hq, hr]
    refine ⟨?_, Or.inr ⟨e0, ?_, hab⟩, ?_⟩
    · intro e he
      have := hab.mem_iff.mp he
      simp only [List.mem_singleton] at this
      subst this
      exact nodeEntry_genuine hne
    · intro off hk
      obtain ⟨nd, _, he⟩ := nodeEntry_some hne
      rw [he] at hk
      by_cases h0 : nd.kind = 0 <;> simp [h0] at hk
    · have := rem_of_perm (B := B) (t := t) (cov := cov) hab
      simpa [nodeEntry_cover hc hne] using this

/-- **completeness**: whatever the priorities are, a finished iteration yields exactly the elements
below the root, each once, each with its distance -/
theorem collect_complete (hP : P.Lawful) (hc : IsCover B t cov) {fn fuel : Nat} {out : List (α × Nat)}
    (h : collect P B t dist prio fn fuel = .ok out) :
    (out.map Prod.fst).Perm (rootCover t cov) ∧ ∀ p ∈ out, p.2 = dist p.1 := by
  obtain ⟨hg, hnr, hroot⟩ := initQ_spec (dist := dist) (prio := prio) hP hc
  obtain ⟨out', ho, hp, hd, _⟩ := collectAux_spec hP hc fn fuel _ [] out hg hnr h
  simp only [List.reverse_nil, List.nil_append] at ho
  subst ho
  exact ⟨hp.trans hroot, hd⟩

/-- **ordering**: with admissible priorities the distances come out nondecreasing -/
theorem collect_sorted (hP : P.Lawful) (hc : IsCover B t cov) (ha : Admissible t dist prio cov)
    {fn fuel : Nat} {out : List (α × Nat)} (h : collect P B t dist prio fn fuel = .ok out) :
    (out.map Prod.snd).Pairwise (· ≤ ·) := by
  obtain ⟨hg, hnr, _⟩ := initQ_spec (dist := dist) (prio := prio) hP hc
  obtain ⟨out', ho, _, _, hs⟩ := collectAux_spec hP hc fn fuel _ [] out hg hnr h
  simp only [List.reverse_nil, List.nil_append] at ho
  subst ho
  exact hs ha

theorem collect_no_panic (hP : P.Lawful) (hc : IsCover B t cov) (fn fuel : Nat) :
    collect P B t dist prio fn fuel ≠ .panic := by
  obtain ⟨hg, hnr, _⟩ := initQ_spec (dist := dist) (prio := prio) hP hc
  exact collectAux_no_panic hP hc fn fuel _ [] hg hnr

end
end Tbx.RTree
