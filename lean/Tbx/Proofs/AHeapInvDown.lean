import Tbx.Proofs.AHeapInvBasic
/-
`down_heap`: the sift-down argument with a hole, symmetric to DESIGN.md Appendix A.3.

Imagine `w` in the hole.  `OrdD`: the completed array is heap ordered except possibly on the edges
from the hole to its children.  `Below` (shared with sift-up): the hole's children dominate the
hole's parent, so the smaller child may be moved up into the hole.
-/
namespace Tbx.AHeap
open Tbx

def OrdD (h : Array Elem) (hole : Nat) (w : Int) : Prop :=
  ∀ k, 2 ≤ k → k < h.size → k / 2 ≠ hole → wt h hole w (k/2) ≤ wt h hole w k

/-- the child `down_heap` compares with: the lighter one (the left one on ties) -/
def minChild (h : Array Elem) (key : Nat) : Nat :=
  if 2 * key + 1 < h.size ∧ (gt h (2 * key)).weight > (gt h (2 * key + 1)).weight then 2 * key + 1
  else 2 * key

theorem downLoop_succ (fuel : Nat) (h : Array Elem) (ns : Array Node) (key : Nat) (w : Int) :
    downLoop (fuel + 1) h ns key w =
      if 2 * key < h.size then
        if w ≤ (gt h (minChild h key)).weight then (h, ns, key)
        else downLoop fuel (st h key (gt h (minChild h key)))
               (setKey ns (gt (st h key (gt h (minChild h key))) key).index key) (minChild h key) w
      else (h, ns, key) := by
  rfl

theorem minChild_spec (h : Array Elem) (key : Nat) (hk : 2 * key < h.size) :
    minChild h key / 2 = key ∧ minChild h key < h.size ∧ 2 * key ≤ minChild h key ∧
    ∀ k, k < h.size → k / 2 = key → (gt h (minChild h key)).weight ≤ (gt h k).weight := by
  unfold minChild
  split
  · rename_i hc
    refine ⟨by omega, hc.1, by omega, ?_⟩
    intro k k1 k2
    have : k = 2 * key ∨ k = 2 * key + 1 := by omega
    rcases this with e | e
    · subst e; omega
    · subst e; omega
  · rename_i hc
    refine ⟨by omega, hk, by omega, ?_⟩
    intro k k1 k2
    have : k = 2 * key ∨ k = 2 * key + 1 := by omega
    rcases this with e | e
    · subst e; omega
    · subst e
      have : ¬ (gt h (2 * key)).weight > (gt h (2 * key + 1)).weight := fun g => hc ⟨k1, g⟩
      omega

/-- one step of sift-down keeps the order invariants -/
theorem down_step_ord (h : Array Elem) (key : Nat) (w : Int) (c : Nat)
    (h1 : 1 ≤ key) (hk : key < h.size) (hc2 : c / 2 = key) (hcs : c < h.size)
    (hmin : ∀ k, k < h.size → k / 2 = key → (gt h c).weight ≤ (gt h k).weight)
    (hlt : (gt h c).weight ≤ w)
    (ho : OrdD h key w) (hb : 2 ≤ key → Below h key) :
    OrdD (st h key (gt h c)) c w ∧ Below (st h key (gt h c)) c := by
  have hck : c ≠ key := by omega
  constructor
  · intro k k1 k2 k3
    simp at k2
    unfold wt
    simp only [k3, if_false]
    by_cases e1 : k = c
    · subst e1
      simp only [if_true]
      rw [hc2, gt_st_eq _ _ _ hk]; exact hlt
    · simp only [e1, if_false]
      by_cases e2 : k / 2 = key
      · rw [e2, gt_st_eq _ _ _ hk, gt_st_ne _ _ _ _ (by omega)]
        exact hmin k k2 e2
      · rw [gt_st_ne _ _ _ _ (Ne.symm e2)]
        by_cases e3 : k = key
        · subst e3
          rw [gt_st_eq _ _ _ hk]
          exact hb k1 c (by omega) hcs hc2
        · rw [gt_st_ne _ _ _ _ (Ne.symm e3)]
          have o := ho k k1 k2 e2
          unfold wt at o
          simp only [e2, e3, if_false] at o
          exact o
  · intro k k1 k2 k3
    simp at k2
    rw [hc2, gt_st_eq _ _ _ hk, gt_st_ne _ _ _ _ (by omega)]
    have o := ho k k1 k2 (by omega)
    unfold wt at o
    simp only [show k / 2 ≠ key by omega, show k ≠ key by omega, if_false] at o
    rw [k3] at o; exact o

/-- closing the hole after sift-down -/
theorem close_hole_down (h : Array Elem) (hole : Nat) (w : Int) (i : Nat) (hk : hole < h.size)
    (h1 : 1 ≤ hole) (ho : OrdD h hole w)
    (hc : ∀ k, 2 ≤ k → k < h.size → k / 2 = hole → w ≤ (gt h k).weight) :
    Ord (st h hole ⟨i, w⟩) := by
  intro k k1 k2
  simp at k2
  by_cases e1 : k = hole
  · subst e1
    rw [gt_st_eq _ _ _ hk, gt_st_ne _ _ _ _ (by omega)]
    have o := ho k k1 k2 (by omega)
    unfold wt at o
    simp only [show k / 2 ≠ k by omega, if_false, if_true] at o
    exact o
  · rw [gt_st_ne _ _ _ _ (Ne.symm e1)]
    by_cases e2 : k / 2 = hole
    · rw [e2, gt_st_eq _ _ _ hk]; exact hc k k1 k2 e2
    · rw [gt_st_ne _ _ _ _ (Ne.symm e2)]
      have o := ho k k1 k2 e2
      unfold wt at o
      simp only [e1, e2, if_false] at o
      exact o

theorem downLoop_spec (fuel : Nat) (h : Array Elem) (ns : Array Node) (key : Nat) (w : Int)
    (r x : Nat) (lo : Int)
    (hf : h.size - key ≤ fuel) (ho : OrdD h key w) (hb : 2 ≤ key → Below h key)
    (P : PInv h ns key r x lo) :
    (downLoop fuel h ns key w).1.size = h.size ∧
    OrdD (downLoop fuel h ns key w).1 (downLoop fuel h ns key w).2.2 w ∧
    (∀ k, 2 ≤ k → k < h.size → k / 2 = (downLoop fuel h ns key w).2.2 →
        w ≤ (gt (downLoop fuel h ns key w).1 k).weight) ∧
    PInv (downLoop fuel h ns key w).1 (downLoop fuel h ns key w).2.1 (downLoop fuel h ns key w).2.2 r x lo ∧
    Frame ns (downLoop fuel h ns key w).2.1 ∧ gt (downLoop fuel h ns key w).1 0 = gt h 0 := by
  induction fuel generalizing h ns key with
  | zero => have := P.hole_lt; omega
  | succ fuel ih =>
    have hpos := P.hole_pos
    have hlt := P.hole_lt
    rw [downLoop_succ]
    split
    · rename_i hnext
      obtain ⟨m1, m2, m3, m4⟩ := minChild_spec h key hnext
      split
      · rename_i hle
        refine ⟨rfl, ho, ?_, P, Frame.refl _, rfl⟩
        intro k k1 k2 k3
        have := m4 k k2 k3
        show w ≤ (gt h k).weight
        omega
      · rename_i hgt
        rw [gt_st_eq _ _ _ hlt]
        have hm := P.move (minChild h key) (by omega) m2 (by omega)
        obtain ⟨so, sb⟩ := down_step_ord h key w (minChild h key) hpos hlt m1 m2 m4 (by omega) ho hb
        obtain ⟨a1, a2, a3, a4, a5, a6⟩ := ih (st h key (gt h (minChild h key))) _ (minChild h key)
          (by simp; omega) so (fun _ => sb) hm.1
        refine ⟨by simpa using a1, a2, ?_, a4, hm.2.trans a5, ?_⟩
        · intro k k1 k2 k3; exact a3 k k1 (by simpa using k2) k3
        · rw [a6, gt_st_ne _ _ _ _ (by omega)]
    · rename_i hnext
      refine ⟨rfl, ho, ?_, P, Frame.refl _, rfl⟩
      intro k k1 k2 k3
      exfalso
      have : (h, ns, key).2.2 = key := rfl
      rw [this] at k3
      omega

/-- the fuel `down_heap` passes (`heap.len()`) is sufficient: more fuel does not change the result -/
theorem downLoop_fuel (fuel : Nat) (h : Array Elem) (ns : Array Node) (key : Nat) (w : Int)
    (h1 : 1 ≤ key) (hf : h.size - key ≤ fuel) :
    downLoop (fuel + 1) h ns key w = downLoop fuel h ns key w := by
  induction fuel generalizing h ns key with
  | zero =>
    rw [downLoop_succ, if_neg (by omega)]
    rfl
  | succ fuel ih =>
    rw [downLoop_succ (fuel + 1) h ns key w, downLoop_succ fuel h ns key w]
    split
    · rename_i hnext
      obtain ⟨m1, m2, m3, _⟩ := minChild_spec h key hnext
      split
      · rfl
      · exact ih _ _ _ (by omega) (by simp; omega)
    · rfl

theorem downHeap_heap (s : Heap) (key : Nat) :
    (downHeap s key).heap =
      st (downLoop s.heap.size s.heap s.nodes key (gt s.heap key).weight).1
         (downLoop s.heap.size s.heap s.nodes key (gt s.heap key).weight).2.2
         ⟨(gt s.heap key).index, (gt s.heap key).weight⟩ := rfl

theorem downHeap_nodes (s : Heap) (key : Nat) :
    (downHeap s key).nodes =
      setKey (downLoop s.heap.size s.heap s.nodes key (gt s.heap key).weight).2.1 (gt s.heap key).index
         (downLoop s.heap.size s.heap s.nodes key (gt s.heap key).weight).2.2 := rfl

@[simp] theorem downHeap_idx (s : Heap) (key : Nat) : (downHeap s key).idx = s.idx := rfl
@[simp] theorem downHeap_wmin (s : Heap) (key : Nat) : (downHeap s key).wmin = s.wmin := rfl
@[simp] theorem downHeap_wmax (s : Heap) (key : Nat) : (downHeap s key).wmax = s.wmax := rfl

/-- combined specification of `down_heap(key)`, started from a state in which the element at `key`
is linked except that its node (`r`) may carry a stale key -/
theorem downHeap_spec (s : Heap) (key x : Nat) (lo : Int)
    (P : PInv s.heap s.nodes key (gt s.heap key).index x lo)
    (hw : (gt s.nodes (gt s.heap key).index).weight = (gt s.heap key).weight)
    (hlo : lo ≤ (gt s.heap key).weight)
    (ho : OrdD s.heap key (gt s.heap key).weight) (hb : 2 ≤ key → Below s.heap key) :
    (downHeap s key).heap.size = s.heap.size ∧ Ord (downHeap s key).heap ∧
    PtrX (downHeap s key).heap (downHeap s key).nodes x ∧ Frame s.nodes (downHeap s key).nodes ∧
    (∀ k, k < s.heap.size → lo ≤ (gt (downHeap s key).heap k).weight) ∧
    gt (downHeap s key).heap 0 = gt s.heap 0 := by
  rw [downHeap_heap, downHeap_nodes]
  obtain ⟨a1, a2, a3, a4, a5, a6⟩ := downLoop_spec s.heap.size s.heap s.nodes key (gt s.heap key).weight
    _ x lo (by omega) ho hb P
  have hw' : (gt (downLoop s.heap.size s.heap s.nodes key (gt s.heap key).weight).2.1
      (gt s.heap key).index).weight = (gt s.heap key).weight := by
    rw [(a5.2 _).2.1]; exact hw
  obtain ⟨c1, c2, c3, c4⟩ := a4.close (gt s.heap key).weight hw' hlo
  refine ⟨by simp [a1], ?_, c1, a5.trans c2, ?_, ?_⟩
  · exact close_hole_down _ _ _ _ a4.hole_lt a4.hole_pos a2
      (fun k k1 k2 k3 => a3 k k1 (by omega) k3)
  · intro k hk; exact c3 k (by omega)
  · rw [c4, a6]

end Tbx.AHeap
