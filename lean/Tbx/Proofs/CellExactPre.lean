import Tbx.Proofs.CellRenumber
import Tbx.Proofs.DijkstraFuel
import Tbx.Proofs.DijkstraHeapInst
/-
Towards `matrix_exact`: walks in the cell's own graph correspond to walks in the renumbered static
graph (the renumbering is injective on all nodes it has seen), a node without out-edge reaches only
itself, and `process`'s loops always return (`processLoop_total`).
-/
namespace Tbx.Dijkstra
open Tbx Tbx.AHeap

/-- the cell's own graph over the original node ids -/
def cellGraph (es : List Edge) : SP.Adj := fun u => es.filterMap fun e => if e.1 = u then some (e.2.1, e.2.2) else none

theorem mem_cellGraph (es : List Edge) (u v w : Nat) : (v, w) ∈ cellGraph es u ↔ (u, v, w) ∈ es := by
  unfold cellGraph
  rw [List.mem_filterMap]
  constructor
  · rintro ⟨e, he, h⟩
    split at h
    · rename_i hu
      cases h
      obtain ⟨a, b, c⟩ := e
      simp only at hu; subst hu; exact he
    · cases h
  · intro h
    exact ⟨(u, v, w), h, by simp⟩

def Known (seenF : List (Nat × Nat)) (k : Nat) : Prop := ∃ i, seenF.lookup k = some i

theorem newId_inj {seenF : List (Nat × Nat)} (M : MapOK seenF) {a b : Nat} (ha : Known seenF a) (hb : Known seenF b)
    (h : newId seenF a = newId seenF b) : a = b := by
  obtain ⟨i, hi⟩ := ha
  obtain ⟨j, hj⟩ := hb
  unfold newId at h
  rw [hi, hj] at h
  simp only [Option.getD_some] at h
  subst h
  exact M.inj a b i hi hj

section transfer
variable {es : List Edge} {seenF : List (Nat × Nat)} (M : MapOK seenF)
  (hK : ∀ e ∈ es, Known seenF e.1 ∧ Known seenF e.2.1)

/-- the renumbered edge list -/
def mapped (es : List Edge) (seenF : List (Nat × Nat)) : List Edge :=
  es.map (fun e => (newId seenF e.1, newId seenF e.2.1, e.2.2))

include hK in
theorem walk_fwd {a b d : Nat} (ha : Known seenF a) (hw : SP.Walk (cellGraph es) a b d) :
    Known seenF b ∧ SP.Walk (staticAdj (mapped es seenF)) (newId seenF a) (newId seenF b) d := by
  induction hw with
  | nil => exact ⟨ha, .nil⟩
  | @snoc u v d w _ he ih =>
    have hmem := (mem_cellGraph es u v w).mp he
    refine ⟨(hK _ hmem).2, .snoc ih.2 ?_⟩
    rw [mem_staticAdj]
    exact List.mem_map.mpr ⟨(u, v, w), hmem, rfl⟩

include M hK in
theorem walk_bwd {a b' d : Nat} (ha : Known seenF a)
    (hw : SP.Walk (staticAdj (mapped es seenF)) (newId seenF a) b' d) :
    ∃ b, Known seenF b ∧ newId seenF b = b' ∧ SP.Walk (cellGraph es) a b d := by
  induction hw with
  | nil => exact ⟨a, ha, rfl, .nil⟩
  | @snoc u' v' d w _ he ih =>
    obtain ⟨u, hu, hfu, hwu⟩ := ih
    rw [mem_staticAdj] at he
    obtain ⟨e, hmem, heq⟩ := List.mem_map.mp he
    simp only [Prod.mk.injEq] at heq
    obtain ⟨h1, h2, h3⟩ := heq
    have : e.1 = u := newId_inj M (hK e hmem).1 hu (by rw [h1, hfu])
    refine ⟨e.2.1, (hK e hmem).2, h2, ?_⟩
    rw [← h3]
    apply SP.Walk.snoc hwu
    rw [mem_cellGraph, ← this]
    exact hmem

include M hK in
theorem isDist_transfer {a b d : Nat} (ha : Known seenF a) (hb : Known seenF b) :
    SP.IsDist (staticAdj (mapped es seenF)) (newId seenF a) (newId seenF b) d ↔ SP.IsDist (cellGraph es) a b d := by
  constructor
  · rintro ⟨h1, h2⟩
    obtain ⟨b0, hb0, hf, hw⟩ := walk_bwd M hK ha h1
    have : b0 = b := newId_inj M hb0 hb hf
    subst this
    exact ⟨hw, fun d' hw' => h2 d' (walk_fwd hK ha hw').2⟩
  · rintro ⟨h1, h2⟩
    refine ⟨(walk_fwd hK ha h1).2, ?_⟩
    intro d' hw'
    obtain ⟨b0, hb0, hf, hw⟩ := walk_bwd M hK ha hw'
    have : b0 = b := newId_inj M hb0 hb hf
    subst this
    exact h2 d' hw

include M hK in
theorem reachable_transfer {a b : Nat} (ha : Known seenF a) (hb : Known seenF b) :
    SP.Reachable (staticAdj (mapped es seenF)) (newId seenF a) (newId seenF b) ↔ SP.Reachable (cellGraph es) a b := by
  constructor
  · rintro ⟨d, h1⟩
    obtain ⟨b0, hb0, hf, hw⟩ := walk_bwd M hK ha h1
    have : b0 = b := newId_inj M hb0 hb hf
    subst this
    exact ⟨d, hw⟩
  · rintro ⟨d, h1⟩
    exact ⟨d, (walk_fwd hK ha h1).2⟩

end transfer

/-- a node that is no endpoint of any edge reaches only itself -/
theorem walk_isolated {es : List Edge} {a b d : Nat} (hiso : ∀ e ∈ es, e.1 ≠ a) (hw : SP.Walk (cellGraph es) a b d) :
    b = a ∧ d = 0 := by
  induction hw with
  | nil => exact ⟨rfl, rfl⟩
  | @snoc u v d w _ he ih =>
    have hmem := (mem_cellGraph es u v w).mp he
    have := hiso _ hmem
    simp only at this
    exact absurd ih.1 this

theorem lookupAll_total (seen : List (Nat × Nat)) (xs : List Nat) (h : ∀ k ∈ xs, Known seen k) :
    lookupAll seen xs = some (xs.map (newId seen)) := by
  induction xs with
  | nil => rfl
  | cons x xs ih =>
    obtain ⟨i, hi⟩ := h x List.mem_cons_self
    simp only [lookupAll, hi, ih (fun k hk => h k (List.mem_cons_of_mem _ hk)), List.map_cons, newId, Option.getD_some]

theorem fillRow_total (dist : Nat → Int) (row : Nat) (ts : List Nat) (ti : Nat) (mx : Array Int)
    (h : row + ti + ts.length ≤ mx.size) : ∃ mx', fillRow dist row ti ts mx = some mx' := by
  induction ts generalizing ti mx with
  | nil => exact ⟨mx, rfl⟩
  | cons t ts ih =>
    simp only [List.length_cons] at h
    simp only [fillRow]
    rw [if_pos (by omega)]
    exact ih (ti + 1) _ (by rw [size_st]; omega)

theorem zeroRow_total (source row : Nat) (ts : List Nat) (ti : Nat) (mx : Array Int)
    (h : row + ti + ts.length ≤ mx.size) : ∃ mx', zeroRow source row ti ts mx = some mx' := by
  induction ts generalizing ti mx with
  | nil => exact ⟨mx, rfl⟩
  | cons t ts ih =>
    simp only [List.length_cons] at h
    simp only [zeroRow]
    split
    · rw [if_pos (by omega)]
      exact ih (ti + 1) _ (by rw [size_st]; omega)
    · exact ih (ti + 1) _ (by omega)

theorem bounded_static (es : List Edge) : Bounded (staticAdj es) (staticNodes es) := by
  intro u _ v w h
  rw [mem_staticAdj] at h
  exact (staticNodes_bound es _ h).2

theorem processLoop_total (adj : Adj) (nn : Nat) (ee : Bool) (targetIds : List Nat) (nOut : Nat)
    (hlen : targetIds.length = nOut) (hnd : targetIds.Nodup) (hb : Bounded adj nn)
    (srcs : List Nat) (si : Nat) (st : O2M) (hw : WFq st.queue) (mx : Array Int)
    (hsz : (si + srcs.length) * nOut ≤ mx.size) :
    ∃ st' mx', processLoop adj nn ee targetIds nOut si srcs st mx = .ok (st', mx') := by
  induction srcs generalizing si st mx with
  | nil => exact ⟨st, mx, rfl⟩
  | cons source rest ih =>
    simp only [List.length_cons] at hsz
    have hrow : si * nOut + 0 + targetIds.length ≤ mx.size := by
      rw [hlen]
      have : (si + 1) * nOut ≤ (si + (rest.length + 1)) * nOut := Nat.mul_le_mul_right _ (by omega)
      rw [Nat.succ_mul] at this; omega
    have hnext : ∀ mx' : Array Int, mx'.size = mx.size → (si + 1 + rest.length) * nOut ≤ mx'.size := by
      intro mx' h
      rw [h]
      have : si + 1 + rest.length = si + (rest.length + 1) := by omega
      rw [this]; exact hsz
    simp only [processLoop]
    split
    · obtain ⟨mx1, h1⟩ := zeroRow_total source (si * nOut) targetIds 0 mx hrow
      rw [h1]
      simp only
      exact ih (si + 1) st hw mx1 (hnext mx1 (zeroRow_spec _ _ _ _ _ _ h1).1)
    · rename_i hcond
      have hs : source < nn := by
        simp only [Bool.or_eq_true, decide_eq_true_eq, not_or] at hcond
        omega
      obtain ⟨a, ha, _⟩ := Res.ok_of (o2mRun_spec heapLaws adj nn st source targetIds hnd hw)
        (o2mRun_fuel heapLaws hb hs targetIds st hw)
      obtain ⟨st1, ok⟩ := a
      rw [ha]
      simp only
      obtain ⟨mx1, h1⟩ := fillRow_total (fun t => st1.distance t) (si * nOut) targetIds 0 mx hrow
      rw [h1]
      simp only
      exact ih (si + 1) st1 (o2mRun_params adj nn st st1 source targetIds ok ha hw) mx1
        (hnext mx1 (fillRow_spec _ _ _ _ _ _ h1).1)

end Tbx.Dijkstra
