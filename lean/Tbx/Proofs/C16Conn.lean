import Tbx.Spec.Components
/-
Spec-level facts about undirected connectivity used by the union-find and Kruskal proofs
(core Lean only): what one more pair adds to `Conn`, and that a pair joining two unconnected
nodes keeps a pair list cycle-free.
-/
namespace Tbx.Comp

/-- adding the pair `(x, y)`: the new connections are exactly those that cross it -/
theorem conn_add {ps qs : Edges} {x y : Nat} (hq : ∀ p, p ∈ qs ↔ p ∈ ps ∨ p = (x, y)) (i j : Nat) :
    Conn qs i j ↔ Conn ps i j ∨ (Conn ps i x ∧ Conn ps y j) ∨ (Conn ps i y ∧ Conn ps x j) := by
  have hsub : ∀ p, p ∈ ps → p ∈ qs := fun p hp => (hq p).mpr (Or.inl hp)
  have hxy : Conn qs x y := Conn.of_mem ((hq _).mpr (Or.inr rfl))
  constructor
  · intro h
    unfold Conn at h
    induction h with
    | refl => exact Or.inl (Conn.refl _ _)
    | @tail v w _ he ih =>
      have hvw : Conn ps v w ∨ (v = x ∧ w = y) ∨ (v = y ∧ w = x) := by
        rcases mem_sym.mp he with h | h
        · rcases (hq _).mp h with h | h
          · exact Or.inl (Conn.of_mem h)
          · simp only [Prod.mk.injEq] at h; exact Or.inr (Or.inl h)
        · rcases (hq _).mp h with h | h
          · exact Or.inl (Conn.of_mem h).symm
          · simp only [Prod.mk.injEq] at h; exact Or.inr (Or.inr ⟨h.2, h.1⟩)
      rcases hvw with hvw | ⟨rfl, rfl⟩ | ⟨rfl, rfl⟩
      · rcases ih with h | ⟨h1, h2⟩ | ⟨h1, h2⟩
        · exact Or.inl (h.trans hvw)
        · exact Or.inr (Or.inl ⟨h1, h2.trans hvw⟩)
        · exact Or.inr (Or.inr ⟨h1, h2.trans hvw⟩)
      · rcases ih with h | ⟨h1, _⟩ | ⟨h1, _⟩
        · exact Or.inr (Or.inl ⟨h, Conn.refl _ _⟩)
        · exact Or.inr (Or.inl ⟨h1, Conn.refl _ _⟩)
        · exact Or.inl h1
      · rcases ih with h | ⟨h1, _⟩ | ⟨h1, _⟩
        · exact Or.inr (Or.inr ⟨h, Conn.refl _ _⟩)
        · exact Or.inl h1
        · exact Or.inr (Or.inr ⟨h1, Conn.refl _ _⟩)
  · rintro (h | ⟨h1, h2⟩ | ⟨h1, h2⟩)
    · exact h.mono hsub
    · exact (h1.mono hsub).trans (hxy.trans (h2.mono hsub))
    · exact (h1.mono hsub).trans (hxy.symm.trans (h2.mono hsub))

theorem conn_snoc (ps : Edges) (x y i j : Nat) :
    Conn (ps ++ [(x, y)]) i j ↔ Conn ps i j ∨ (Conn ps i x ∧ Conn ps y j) ∨ (Conn ps i y ∧ Conn ps x j) :=
  conn_add (by intro p; simp) i j

/-- `Conn` only depends on which pairs occur -/
theorem conn_congr {ps qs : Edges} (h : ∀ p, p ∈ ps ↔ p ∈ qs) (a b : Nat) : Conn ps a b ↔ Conn qs a b :=
  ⟨Conn.mono fun p hp => (h p).mp hp, Conn.mono fun p hp => (h p).mpr hp⟩

/-- a pair joining two nodes that are not yet connected keeps the list cycle-free -/
theorem acyclic_snoc {F : Edges} {a b : Nat} (hF : Acyclic F) (hab : ¬ Conn F a b) : Acyclic (F ++ [(a, b)]) := by
  have hnot : (a, b) ∉ F := fun h => hab (Conn.of_mem h)
  intro e he
  by_cases heF : e ∈ F
  · have hne : e ≠ (a, b) := fun h => hnot (h ▸ heF)
    rw [List.erase_append_left _ heF]
    intro hc
    have hsub : ∀ p, p ∈ F.erase e → p ∈ F := fun p hp => List.mem_of_mem_erase hp
    have hcd : Conn F e.1 e.2 := Conn.of_mem (by simpa using heF)
    rcases (conn_snoc (F.erase e) a b e.1 e.2).mp hc with h | ⟨h1, h2⟩ | ⟨h1, h2⟩
    · exact hF e heF h
    · exact hab ((h1.mono hsub).symm.trans (hcd.trans (h2.mono hsub).symm))
    · exact hab ((h2.mono hsub).trans (hcd.symm.trans (h1.mono hsub)))
  · have : e = (a, b) := by
      rcases List.mem_append.mp he with h | h
      · exact absurd h heF
      · simpa using h
    subst this
    rw [List.erase_append_right _ heF]
    simpa using hab

theorem acyclic_nil : Acyclic [] := by intro e he; cases he

/-- a list in which no element survives its own removal has no duplicates -/
theorem nodup_of_not_mem_erase {α : Type} [BEq α] [LawfulBEq α] : ∀ (l : List α), (∀ e, e ∈ l → e ∉ l.erase e) → l.Nodup := by
  intro l
  induction l with
  | nil => intro _; exact List.nodup_nil
  | cons x xs ih =>
    intro h
    have hx : x ∉ xs := by simpa using h x List.mem_cons_self
    refine List.nodup_cons.mpr ⟨hx, ih ?_⟩
    intro e he
    have hne : e ≠ x := fun hh => hx (hh ▸ he)
    have := h e (List.mem_cons_of_mem _ he)
    rw [List.erase_cons_tail (by simpa using Ne.symm hne)] at this
    exact fun hh => this (List.mem_cons_of_mem _ hh)

/-- a cycle-free pair list has no doubled pair -/
theorem Acyclic.nodup {F : Edges} (h : Acyclic F) : F.Nodup :=
  nodup_of_not_mem_erase F fun e he hm => h e he (Conn.of_mem (by simpa using hm))

/-- cycle-free edges that all occur in the input form a sub-multiset of the input -/
theorem subMulti_of_acyclic {F inp : List WEdge} (hsub : ∀ e, e ∈ F → e ∈ inp) (hac : Acyclic (ends F)) :
    SubMulti F inp := by
  intro e
  have hnd : F.Nodup := List.Pairwise.of_map (S := fun a b => a ≠ b) (fun e : WEdge => (e.1, e.2.1))
    (fun a b hab hh => hab (by rw [hh])) hac.nodup
  by_cases he : e ∈ F
  · have h1 : F.count e = 1 := by rw [hnd.count, if_pos he]
    have h2 : 0 < inp.count e := List.count_pos_iff.mpr (hsub e he)
    omega
  · rw [List.count_eq_zero_of_not_mem he]; exact Nat.zero_le _

end Tbx.Comp
