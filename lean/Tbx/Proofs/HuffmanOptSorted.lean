import Tbx.Proofs.HuffmanOptGreedy
/-
Huffman optimality: the two-queue construction on a frequency-sorted table merges two minimum-weight trees
in every iteration.  Invariant (`SInv`): both queues are sorted by weight, weights are non-negative, and every
already merged node weighs at most the sum of any two different remaining trees — so a new merged node is
appended at the right place of the second queue.  Together with the potential argument of HuffmanOptGreedy
this gives `fromSorted_cost`: the code book's weighted length is the greedy optimum.  Core Lean only.
-/
namespace Tbx.Huffman
open Tbx.Spec.Huff

def SortedF (q : List Tree) : Prop := q.Pairwise fun a b => a.freq ≤ b.freq

structure SInv (q1 q2 : List Tree) : Prop where
  s1 : SortedF q1
  s2 : SortedF q2
  nn : ∀ t ∈ q1 ++ q2, 0 ≤ t.freq
  pw : ∀ z ∈ q2, (q1 ++ q2).Pairwise fun x y => z.freq ≤ x.freq + y.freq

theorem minNode_min (q1 q2 : List Tree) (h1 : SortedF q1) (h2 : SortedF q2) (x : Tree) (q1' q2' : List Tree)
    (hm : minNode q1 q2 = some (x, q1', q2')) :
    SortedF q1' ∧ SortedF q2' ∧ (∀ t ∈ q1' ++ q2', x.freq ≤ t.freq) ∧
      (x :: (q1' ++ q2')).Perm (q1 ++ q2) ∧ (∀ z ∈ q2', z ∈ q2) := by
  cases q1 with
  | nil =>
    cases q2 with
    | nil => simp [minNode] at hm
    | cons y q2t =>
      simp only [minNode, Option.some.injEq, Prod.mk.injEq] at hm
      obtain ⟨rfl, rfl, rfl⟩ := hm
      have := List.pairwise_cons.mp h2
      exact ⟨List.Pairwise.nil, this.2, by simpa using this.1, by simp, fun z hz => by simp [hz]⟩
  | cons a q1t =>
    have p1 := List.pairwise_cons.mp h1
    cases q2 with
    | nil =>
      simp only [minNode, Option.some.injEq, Prod.mk.injEq] at hm
      obtain ⟨rfl, rfl, rfl⟩ := hm
      exact ⟨p1.2, List.Pairwise.nil, by simpa using p1.1, by simp, fun z hz => by cases hz⟩
    | cons y q2t =>
      have p2 := List.pairwise_cons.mp h2
      simp only [minNode] at hm
      split at hm
      · rename_i hlt
        simp only [Option.some.injEq, Prod.mk.injEq] at hm
        obtain ⟨rfl, rfl, rfl⟩ := hm
        refine ⟨p1.2, h2, ?_, by simp, fun z hz => hz⟩
        intro t ht
        rcases List.mem_append.mp ht with ht | ht
        · exact p1.1 t ht
        · rcases List.mem_cons.mp ht with rfl | ht
          · omega
          · have := p2.1 t ht; omega
      · rename_i hlt
        simp only [Option.some.injEq, Prod.mk.injEq] at hm
        obtain ⟨rfl, rfl, rfl⟩ := hm
        refine ⟨h1, p2.2, ?_, ?_, fun z hz => by simp [hz]⟩
        · intro t ht
          rcases List.mem_append.mp ht with ht | ht
          · rcases List.mem_cons.mp ht with rfl | ht
            · omega
            · have := p1.1 t ht; omega
          · exact p2.1 t ht
        · exact (List.perm_middle (l₁ := a :: q1t)).symm

theorem pairwise_of_forall_mem {α : Type} {R : α → α → Prop} (l : List α) (h : ∀ x ∈ l, ∀ y ∈ l, R x y) :
    l.Pairwise R := by
  induction l with
  | nil => exact List.Pairwise.nil
  | cons a l ih =>
    refine List.pairwise_cons.mpr ⟨fun y hy => h a (by simp) y (by simp [hy]), ih ?_⟩
    intro x hx y hy
    exact h x (by simp [hx]) y (by simp [hy])

theorem sortedF_append_single (q : List Tree) (c : Tree) (hq : SortedF q) (hc : ∀ z ∈ q, z.freq ≤ c.freq) :
    SortedF (q ++ [c]) := by
  unfold SortedF
  rw [List.pairwise_append]
  exact ⟨hq, List.pairwise_singleton _ _, fun a ha b hb => by
    have : b = c := by simpa using hb
    subst this; exact hc a ha⟩

/-- one iteration of the two-queue loop keeps the invariant and merges two minima -/
theorem sorted_step (q1 q2 : List Tree) (inv : SInv q1 q2) (left right : Tree) (q1a q2a q1b q2b : List Tree)
    (e1 : minNode q1 q2 = some (left, q1a, q2a)) (e2 : minNode q1a q2a = some (right, q1b, q2b)) :
    let c := Tree.node (left.freq + right.freq) left right
    SInv q1b (q2b ++ [c]) ∧ (q1 ++ q2).Perm (left :: right :: (q1b ++ q2b)) ∧ left.freq ≤ right.freq ∧
      (∀ r ∈ q1b ++ q2b, right.freq ≤ r.freq) ∧ (q1b ++ (q2b ++ [c])).Perm (c :: (q1b ++ q2b)) := by
  intro c
  obtain ⟨sa1, sa2, mina, pa, suba⟩ := minNode_min q1 q2 inv.s1 inv.s2 left q1a q2a e1
  obtain ⟨sb1, sb2, minb, pb, subb⟩ := minNode_min q1a q2a sa1 sa2 right q1b q2b e2
  have hperm : (q1 ++ q2).Perm (left :: right :: (q1b ++ q2b)) := (pa.symm).trans (List.Perm.cons left pb.symm)
  have hlr : left.freq ≤ right.freq := mina right (pb.mem_iff.mp (by simp))
  have hcf : c.freq = left.freq + right.freq := rfl
  have hnn : ∀ t ∈ left :: right :: (q1b ++ q2b), 0 ≤ t.freq := fun t ht => inv.nn t (hperm.mem_iff.mpr ht)
  have hl0 := hnn left (by simp)
  have hr0 := hnn right (by simp)
  have hsym : ∀ (z : Tree) {x y : Tree}, z.freq ≤ x.freq + y.freq → z.freq ≤ y.freq + x.freq := by
    intro z x y h; omega
  -- old pairwise facts, transported along the permutation
  have hold : ∀ z ∈ q2b, (left :: right :: (q1b ++ q2b)).Pairwise fun x y => z.freq ≤ x.freq + y.freq := by
    intro z hz
    exact (hperm.pairwise_iff (fun {x y} h => hsym z h)).mp (inv.pw z (suba z (subb z hz)))
  have hzc : ∀ z ∈ q2b, z.freq ≤ c.freq := by
    intro z hz
    have := (List.pairwise_cons.mp (hold z hz)).1 right (by simp)
    rw [hcf]; exact this
  have pc : (q1b ++ (q2b ++ [c])).Perm (c :: (q1b ++ q2b)) := by
    rw [← List.append_assoc]; exact List.perm_append_comm
  refine ⟨⟨sb1, sortedF_append_single q2b c sb2 hzc, ?_, ?_⟩, hperm, hlr, minb, pc⟩
  · intro t ht
    rcases List.mem_cons.mp (pc.mem_iff.mp ht) with rfl | ht
    · rw [hcf]; omega
    · exact hnn t (by simp [ht])
  · intro z hz
    refine (pc.pairwise_iff (fun {x y} h => hsym z h)).mpr ?_
    rcases List.mem_append.mp hz with hz | hz
    · -- an older merged node
      have h2 := List.pairwise_cons.mp (List.pairwise_cons.mp (hold z hz)).2
      refine List.pairwise_cons.mpr ⟨?_, h2.2⟩
      intro y hy
      have := hzc z hz
      have := hnn y (by simp [hy])
      omega
    · have : z = c := by simpa using hz
      subst this
      refine List.pairwise_cons.mpr ⟨?_, ?_⟩
      · intro y hy
        have := hnn y (by simp [hy]); omega
      · apply pairwise_of_forall_mem
        intro x hx y hy
        have := minb x hx; have := minb y hy
        rw [hcf]; omega

theorem sortedLoop_good (v : List (Nat × Int)) (fuel : Nat) : ∀ (q1 q2 : List Tree), SInv q1 q2 → Good v (q1 ++ q2) →
    ∀ t, sortedLoop fuel q1 q2 = some t → Good v [t] := by
  induction fuel with
  | zero =>
    intro q1 q2 inv g t h
    unfold sortedLoop at h
    split at h
    · simp at h
    · rename_i hc
      simp only [Bool.or_eq_true, Bool.not_eq_eq_eq_not, Bool.not_true, List.isEmpty_eq_false_iff,
        decide_eq_true_eq, not_or, Decidable.not_not] at hc
      obtain ⟨hq1, hq2⟩ := hc
      subst hq1
      cases q2 with
      | nil => simp at h
      | cons y q =>
        cases q with
        | nil => simp at h; subst h; simpa using g
        | cons _ _ => simp at hq2
  | succ fuel ih =>
    intro q1 q2 inv g t h
    unfold sortedLoop at h
    split at h
    · cases hm1 : minNode q1 q2 with
      | none => simp [hm1] at h
      | some r1 =>
        obtain ⟨left, q1a, q2a⟩ := r1
        cases hm2 : minNode q1a q2a with
        | none => simp [hm1, hm2] at h
        | some r2 =>
          obtain ⟨right, q1b, q2b⟩ := r2
          simp only [hm1, hm2] at h
          obtain ⟨inv', hperm, hlr, hmin, pc⟩ := sorted_step q1 q2 inv left right q1a q2a q1b q2b hm1 hm2
          exact ih _ _ inv' ((g.merge left right _ hperm hlr hmin).perm pc.symm) t h
    · rename_i hc
      simp only [Bool.or_eq_true, Bool.not_eq_eq_eq_not, Bool.not_true, List.isEmpty_eq_false_iff,
        decide_eq_true_eq, not_or, Decidable.not_not] at hc
      obtain ⟨hq1, hq2⟩ := hc
      subst hq1
      cases q2 with
      | nil => simp at h
      | cons y q =>
        cases q with
        | nil => simp at h; subst h; simpa using g
        | cons _ _ => simp at hq2

/-- the two-queue construction on a table sorted by frequency (frequencies ≥ 0) reaches the greedy optimum -/
theorem fromSorted_cost (v : List (Nat × Int)) (book : Book) (hpos : ∀ e ∈ v, 0 ≤ e.2)
    (hnd : (v.map (·.1)).Nodup) (hs : v.Pairwise fun a b => a.2 ≤ b.2) (h : fromSorted v = some book) :
    cost v book = optCost (v.map (·.2)) := by
  unfold fromSorted at h
  split at h
  · rename_i he
    have : v = [] := by simpa using he
    subst this
    have : book = [] := by simpa using h.symm
    subst this; rfl
  · split at h
    · simp at h
    · rename_i root hr
      rw [retrieveCodebook_eq] at h
      have hb : book = codesRec root [] := by simpa using h.symm
      subst hb
      have inv : SInv (leaves v) [] := by
        refine ⟨?_, List.Pairwise.nil, ?_, fun z hz => by cases hz⟩
        · unfold SortedF leaves
          rw [List.pairwise_map]
          exact hs.imp (fun {a b} h => h)
        · intro t ht
          simp only [List.append_nil, leaves, List.mem_map] at ht
          obtain ⟨e, he, rfl⟩ := ht
          exact hpos e he
      have g := sortedLoop_good v v.length (leaves v) [] inv (by simpa using Good.init v) root hr
      exact g.final hnd

end Tbx.Huffman
