import Tbx.Model.BBox
/-
Bounding boxes: `contains` is betweenness, `extend_with` only grows (and is the componentwise join),
`from_coordinates` yields the tightest box around a non-empty list of i32 coordinates.
-/
namespace Tbx.Geo

theorem boxContains_iff (b : BoxCorners) (q : Coord) : boxContains b q = true ↔ Between b q := by
  simp only [boxContains, Between, Bool.and_eq_true, decide_eq_true_eq, ge_iff_le]
  constructor
  · rintro ⟨⟨⟨h1, h2⟩, h3⟩, h4⟩; exact ⟨h1, h2, h3, h4⟩
  · rintro ⟨h1, h2, h3, h4⟩; exact ⟨⟨⟨h1, h2⟩, h3⟩, h4⟩

theorem boxExtend_eq_join (b o : BoxCorners) : boxExtend b o = joinCorners b o := rfl

theorem between_extend_left {b o : BoxCorners} {q : Coord} (h : Between b q) : Between (boxExtend b o) q := by
  simp only [Between, boxExtend] at *
  omega

theorem between_extend_right {b o : BoxCorners} {q : Coord} (h : Between o q) : Between (boxExtend b o) q := by
  simp only [Between, boxExtend] at *
  omega

/-- the extended box is the least box containing both: any box `r` whose corners bound both boxes' corners
bounds the extended box's corners -/
theorem extend_least {b o r : BoxCorners}
    (hb : r.minLat ≤ b.minLat ∧ r.minLon ≤ b.minLon ∧ b.maxLat ≤ r.maxLat ∧ b.maxLon ≤ r.maxLon)
    (ho : r.minLat ≤ o.minLat ∧ r.minLon ≤ o.minLon ∧ o.maxLat ≤ r.maxLat ∧ o.maxLon ≤ r.maxLon) :
    r.minLat ≤ (boxExtend b o).minLat ∧ r.minLon ≤ (boxExtend b o).minLon ∧
    (boxExtend b o).maxLat ≤ r.maxLat ∧ (boxExtend b o).maxLon ≤ r.maxLon := by
  simp only [boxExtend]
  omega

theorem boxAdd_minLat (b : BoxCorners) (c : Coord) : (boxAdd b c).minLat = min b.minLat c.lat := rfl
theorem boxAdd_minLon (b : BoxCorners) (c : Coord) : (boxAdd b c).minLon = min b.minLon c.lon := rfl
theorem boxAdd_maxLat (b : BoxCorners) (c : Coord) : (boxAdd b c).maxLat = max b.maxLat c.lat := rfl
theorem boxAdd_maxLon (b : BoxCorners) (c : Coord) : (boxAdd b c).maxLon = max b.maxLon c.lon := rfl

/-- fold invariant of `from_coordinates` started from an arbitrary box -/
theorem foldl_boxAdd_spec (cs : List Coord) (b : BoxCorners) :
    ((cs.foldl boxAdd b).minLat ≤ b.minLat ∧ (cs.foldl boxAdd b).minLon ≤ b.minLon ∧
      b.maxLat ≤ (cs.foldl boxAdd b).maxLat ∧ b.maxLon ≤ (cs.foldl boxAdd b).maxLon) ∧
    (∀ c ∈ cs, Between (cs.foldl boxAdd b) c) ∧
    ((cs.foldl boxAdd b).minLat = b.minLat ∨ ∃ c ∈ cs, c.lat = (cs.foldl boxAdd b).minLat) ∧
    ((cs.foldl boxAdd b).minLon = b.minLon ∨ ∃ c ∈ cs, c.lon = (cs.foldl boxAdd b).minLon) ∧
    ((cs.foldl boxAdd b).maxLat = b.maxLat ∨ ∃ c ∈ cs, c.lat = (cs.foldl boxAdd b).maxLat) ∧
    ((cs.foldl boxAdd b).maxLon = b.maxLon ∨ ∃ c ∈ cs, c.lon = (cs.foldl boxAdd b).maxLon) := by
  induction cs generalizing b with
  | nil => simp
  | cons c cs ih =>
    obtain ⟨hmono, hall, h1, h2, h3, h4⟩ := ih (boxAdd b c)
    simp only [List.foldl_cons]
    generalize cs.foldl boxAdd (boxAdd b c) = r at *
    rw [boxAdd_minLat, boxAdd_minLon, boxAdd_maxLat, boxAdd_maxLon] at hmono
    rw [boxAdd_minLat] at h1
    rw [boxAdd_minLon] at h2
    rw [boxAdd_maxLat] at h3
    rw [boxAdd_maxLon] at h4
    have hm : (r.minLat ≤ b.minLat ∧ r.minLon ≤ b.minLon ∧ b.maxLat ≤ r.maxLat ∧ b.maxLon ≤ r.maxLon) ∧
        (r.minLat ≤ c.lat ∧ c.lat ≤ r.maxLat ∧ r.minLon ≤ c.lon ∧ c.lon ≤ r.maxLon) := by
      clear h1 h2 h3 h4 hall ih; omega
    refine ⟨hm.1, ?_, ?_, ?_, ?_, ?_⟩
    · intro c' hc'
      rcases List.mem_cons.mp hc' with rfl | hc'
      · exact hm.2
      · exact hall c' hc'
    · rcases h1 with h1 | ⟨c', hc', e⟩
      · by_cases hle : b.minLat ≤ c.lat
        · left; clear h2 h3 h4 hall ih; omega
        · right; exact ⟨c, List.mem_cons_self, by clear h2 h3 h4 hall ih; omega⟩
      · right; exact ⟨c', List.mem_cons_of_mem _ hc', e⟩
    · rcases h2 with h2 | ⟨c', hc', e⟩
      · by_cases hle : b.minLon ≤ c.lon
        · left; clear h1 h3 h4 hall ih; omega
        · right; exact ⟨c, List.mem_cons_self, by clear h1 h3 h4 hall ih; omega⟩
      · right; exact ⟨c', List.mem_cons_of_mem _ hc', e⟩
    · rcases h3 with h3 | ⟨c', hc', e⟩
      · by_cases hle : c.lat ≤ b.maxLat
        · left; clear h1 h2 h4 hall ih; omega
        · right; exact ⟨c, List.mem_cons_self, by clear h1 h2 h4 hall ih; omega⟩
      · right; exact ⟨c', List.mem_cons_of_mem _ hc', e⟩
    · rcases h4 with h4 | ⟨c', hc', e⟩
      · by_cases hle : c.lon ≤ b.maxLon
        · left; clear h1 h2 h3 hall ih; omega
        · right; exact ⟨c, List.mem_cons_self, by clear h1 h2 h3 hall ih; omega⟩
      · right; exact ⟨c', List.mem_cons_of_mem _ hc', e⟩

theorem boxAdd_invalid {c : Coord} (hc : CoordI32 c) : boxAdd boxInvalid c = ⟨c.lat, c.lon, c.lat, c.lon⟩ := by
  obtain ⟨⟨h1, h2⟩, h3, h4⟩ := hc
  simp only [boxAdd, boxInvalid, i32Max, i32Min, BoxCorners.mk.injEq]
  omega

/-- `from_coordinates` of a non-empty list of i32 coordinates is the tightest box around the list -/
theorem boxFromCoordinates_isBoxOf (cs : List Coord) (hne : cs ≠ []) (hI : ∀ c ∈ cs, CoordI32 c) :
    IsBoxOf (boxFromCoordinates cs) cs := by
  cases cs with
  | nil => exact absurd rfl hne
  | cons c cs =>
    have hc : CoordI32 c := hI c List.mem_cons_self
    have hf : boxFromCoordinates (c :: cs) = cs.foldl boxAdd ⟨c.lat, c.lon, c.lat, c.lon⟩ := by
      simp only [boxFromCoordinates, List.foldl_cons, boxAdd_invalid hc]
    rw [hf]
    obtain ⟨hmono, hall, h1, h2, h3, h4⟩ := foldl_boxAdd_spec cs ⟨c.lat, c.lon, c.lat, c.lon⟩
    simp only at hmono h1 h2 h3 h4
    refine ⟨?_, ?_, ?_, ?_, ?_⟩
    · intro c' hc'
      rcases List.mem_cons.mp hc' with rfl | hc'
      · simp only [Between]; omega
      · exact hall c' hc'
    · rcases h1 with h | ⟨c', hc', e⟩
      · exact ⟨c, List.mem_cons_self, h.symm⟩
      · exact ⟨c', List.mem_cons_of_mem _ hc', e⟩
    · rcases h2 with h | ⟨c', hc', e⟩
      · exact ⟨c, List.mem_cons_self, h.symm⟩
      · exact ⟨c', List.mem_cons_of_mem _ hc', e⟩
    · rcases h3 with h | ⟨c', hc', e⟩
      · exact ⟨c, List.mem_cons_self, h.symm⟩
      · exact ⟨c', List.mem_cons_of_mem _ hc', e⟩
    · rcases h4 with h | ⟨c', hc', e⟩
      · exact ⟨c, List.mem_cons_self, h.symm⟩
      · exact ⟨c', List.mem_cons_of_mem _ hc', e⟩

/-- the tightest box contains exactly the points between the componentwise minimum and maximum -/
theorem isBoxOf_between_iff {b : BoxCorners} {cs : List Coord} (h : IsBoxOf b cs) (q : Coord) :
    Between b q ↔
      (∃ c ∈ cs, c.lat ≤ q.lat) ∧ (∃ c ∈ cs, q.lat ≤ c.lat) ∧ (∃ c ∈ cs, c.lon ≤ q.lon) ∧ (∃ c ∈ cs, q.lon ≤ c.lon) := by
  obtain ⟨hall, ⟨c1, m1, e1⟩, ⟨c2, m2, e2⟩, ⟨c3, m3, e3⟩, ⟨c4, m4, e4⟩⟩ := h
  constructor
  · intro hb
    simp only [Between] at hb
    exact ⟨⟨c1, m1, by omega⟩, ⟨c3, m3, by omega⟩, ⟨c2, m2, by omega⟩, ⟨c4, m4, by omega⟩⟩
  · rintro ⟨⟨a, ma, ha⟩, ⟨b', mb, hb⟩, ⟨c, mc, hc⟩, ⟨d, md, hd⟩⟩
    have ba := hall a ma
    have bb := hall b' mb
    have bc := hall c mc
    have bd := hall d md
    simp only [Between] at *
    omega

end Tbx.Geo
