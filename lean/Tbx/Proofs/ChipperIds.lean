import Tbx.Props.GenFns
import Mathlib.Tactic.Ring
import Tbx.Spec.Hierarchy
/-
Arithmetic of partition ids read as lists of sides (C05 `id_path`).  Everything is stated for the functions
REGENERATED from src/partition_id.rs (`Tbx.Gen.pid…`), through `Tbx.Props.GenFns`.

  childId_eq            one child step is `2x` / `2x+1`
  idOfSides_eq          idOfSides s = 2^|s| + value of s as a binary numeral
  leftmost_eq/rightmost_eq   `make_leftmost_descendant k` / `make_rightmost_descendant k` append k equal sides
  level_idOfSides       the level of the id is the number of sides (≤ 31: the id fits u32)
  sidesOf_idOfSides     reading the id top-down gives the sides back
-/
namespace Tbx.Hierarchy
open Tbx.Gen Tbx.Props.GenFns

theorem childId_false (x : Nat) : childId false x = 2 * x := by
  simp [childId, pidMakeLeftChild, pidLeftmostDescendant, Nat.shiftLeft_eq]; omega

theorem childId_true (x : Nat) : childId true x = 2 * x + 1 := by
  simp [childId, pidMakeRightChild, pidRightmostDescendant, pidLeftmostDescendant, Nat.shiftLeft_eq]; omega

theorem childId_eq (b : Bool) (x : Nat) : childId b x = 2 * x + (if b then 1 else 0) := by
  cases b
  · simp [childId_false]
  · simp [childId_true]

/-- the sides as a binary numeral -/
def bitsVal : List Bool → Nat
  | [] => 0
  | b :: s => (if b then 2 ^ s.length else 0) + bitsVal s

theorem foldl_child_eq (s : List Bool) (x : Nat) :
    s.foldl (fun acc b => childId b acc) x = x * 2 ^ s.length + bitsVal s := by
  induction s generalizing x with
  | nil => simp [bitsVal]
  | cons b s ih =>
    simp only [List.foldl_cons, List.length_cons, bitsVal]
    rw [ih, childId_eq, Nat.pow_succ]
    cases b <;> simp <;> ring

/-- closed form: leading one, then the sides as binary digits -/
theorem idOfSides_eq (s : List Bool) : idOfSides s = 2 ^ s.length + bitsVal s := by
  have := foldl_child_eq s 1
  simpa [idOfSides] using this

theorem bitsVal_lt (s : List Bool) : bitsVal s < 2 ^ s.length := by
  induction s with
  | nil => simp [bitsVal]
  | cons b s ih =>
    simp only [bitsVal, List.length_cons]
    rw [Nat.pow_succ]
    cases b <;> simp <;> omega

theorem idOfSides_append (s t : List Bool) :
    idOfSides (s ++ t) = t.foldl (fun acc b => childId b acc) (idOfSides s) := by
  simp [idOfSides, List.foldl_append]

theorem idOfSides_snoc (s : List Bool) (b : Bool) : idOfSides (s ++ [b]) = childId b (idOfSides s) := by
  simp [idOfSides_append]

theorem foldl_replicate_iter (f : Nat → Nat) (b : Bool) (g : Nat → Bool → Nat) (hg : ∀ x, g x b = f x)
    (k x : Nat) : (List.replicate k b).foldl g x = f^[k] x := by
  induction k generalizing x with
  | zero => rfl
  | succ k ih =>
    simp only [List.replicate_succ, List.foldl_cons, Function.iterate_succ, Function.comp_apply]
    rw [hg, ih]

/-- `make_leftmost_descendant(k)` appends k left sides -/
theorem leftmost_eq (s : List Bool) (k : Nat) :
    pidLeftmostDescendant (idOfSides s) k = idOfSides (s ++ List.replicate k false) := by
  rw [idOfSides_append, leftmost_descendant_iter]
  symm
  apply foldl_replicate_iter
  intro x
  simp [childId, make_left_child_eq]

/-- `make_rightmost_descendant(k)` appends k right sides -/
theorem rightmost_eq (s : List Bool) (k : Nat) :
    pidRightmostDescendant (idOfSides s) k = idOfSides (s ++ List.replicate k true) := by
  rw [idOfSides_append, rightmost_descendant_iter]
  symm
  apply foldl_replicate_iter
  intro x
  simp [childId, make_right_child_eq]

theorem bitsVal_append (s t : List Bool) : bitsVal (s ++ t) = bitsVal s * 2 ^ t.length + bitsVal t := by
  induction s with
  | nil => simp [bitsVal]
  | cons b s ih =>
    simp only [List.cons_append, bitsVal, List.length_append, ih]
    rw [Nat.pow_add]
    cases b
    · simp
    · simp; ring

theorem bitsVal_replicate_false (k : Nat) : bitsVal (List.replicate k false) = 0 := by
  induction k with
  | zero => rfl
  | succ k ih => simp [List.replicate_succ, bitsVal, ih]

theorem bitsVal_replicate_true (k : Nat) : bitsVal (List.replicate k true) = 2 ^ k - 1 := by
  induction k with
  | zero => rfl
  | succ k ih =>
    simp only [List.replicate_succ, bitsVal, ih, List.length_replicate, if_true]
    have hp : 1 ≤ 2 ^ k := Nat.one_le_two_pow
    rw [Nat.pow_succ]
    omega

theorem idOfSides_pos (s : List Bool) : 1 ≤ idOfSides s := by
  rw [idOfSides_eq]
  have : 1 ≤ 2 ^ s.length := Nat.one_le_two_pow
  omega

theorem idOfSides_lt (s : List Bool) : idOfSides s < 2 ^ (s.length + 1) := by
  rw [idOfSides_eq, Nat.pow_succ]
  have := bitsVal_lt s
  omega

/-- ids of at most 31 sides fit u32 -/
theorem idOfSides_fits (s : List Bool) (h : s.length ≤ 31) : idOfSides s < 2 ^ 32 := by
  have h1 := idOfSides_lt s
  have h2 : 2 ^ (s.length + 1) ≤ 2 ^ 32 := Nat.pow_le_pow_right (by omega) (by omega)
  omega

theorem log2_idOfSides (s : List Bool) : Nat.log2 (idOfSides s) = s.length := by
  have hne : idOfSides s ≠ 0 := by have := idOfSides_pos s; omega
  have h1 : s.length ≤ Nat.log2 (idOfSides s) := by
    rw [Nat.le_log2 hne, idOfSides_eq]; omega
  have h2 : Nat.log2 (idOfSides s) < s.length + 1 := by
    rw [Nat.log2_lt hne]; exact idOfSides_lt s
  omega

/-- the level of an id is the number of its sides -/
theorem level_idOfSides (s : List Bool) (h : s.length ≤ 31) : pidLevel (idOfSides s) = s.length := by
  rw [level_eq_log2 _ (idOfSides_pos s) (idOfSides_fits s h), log2_idOfSides]

/-! ### reading the sides back -/

theorem sidesAux_spec (fuel : Nat) : ∀ (x : Nat) (acc s : List Bool), x = idOfSides s →
    s.length ≤ fuel → sidesAux fuel x acc = s ++ acc := by
  induction fuel with
  | zero =>
    intro x acc s _ hf
    have : s = [] := List.eq_nil_of_length_eq_zero (by omega)
    subst this; rfl
  | succ f ih =>
    intro x acc s hx hf
    by_cases hs : s = []
    · subst hs; subst hx; simp [sidesAux, idOfSides]
    · have hsplit := List.dropLast_concat_getLast hs
      generalize s.dropLast = s' at hsplit
      generalize s.getLast hs = b at hsplit
      subst hsplit
      have hpos := idOfSides_pos s'
      have hx' : x = 2 * idOfSides s' + (if b then 1 else 0) := by
        rw [hx, idOfSides_snoc, childId_eq]
      have hgt : ¬ x ≤ 1 := by cases b <;> simp at hx' <;> omega
      have hdiv : x / 2 = idOfSides s' := by cases b <;> simp at hx' <;> omega
      have hmod : (x % 2 == 1) = b := by
        cases b <;> simp at hx' ⊢ <;> omega
      simp only [sidesAux, if_neg hgt]
      rw [hmod, ih (x / 2) (b :: acc) s' hdiv (by simp at hf; omega)]
      simp

theorem length_le_idOfSides (s : List Bool) : s.length ≤ idOfSides s := by
  rw [idOfSides_eq]
  have : s.length < 2 ^ s.length := Nat.lt_two_pow_self
  omega

/-- reading an id top-down gives exactly the sides it was built from -/
theorem sidesOf_idOfSides (s : List Bool) : sidesOf (idOfSides s) = s := by
  unfold sidesOf
  rw [sidesAux_spec (idOfSides s) (idOfSides s) [] s rfl (length_le_idOfSides s)]
  simp

end Tbx.Hierarchy
