import Tbx.Model.Tarjan
import Tbx.Proofs.C16Arr
import Tbx.Proofs.C16UF
/-
Tarjan (`Model/Tarjan.lean`): whenever `run` returns, every node carries a label in 1..=n.

The state is read through a `View` (index / lowlink / caller / on_stack as functions, the Tarjan
stack, the assignment, the two counters).  `TS` is the invariant that holds at every point of
`run`, `TD` the part that speaks about the root of the DFS in progress.  Together they give:
when the `loop` of a root breaks, the Tarjan stack is empty again, so every visited node is assigned.
Core Lean only.
-/
namespace Tbx.Tarjan
open Tbx Tbx.Csr
open Tbx.UF (countP_range_update)

theorem size_upd (a : Array DFSNode) (i : Nat) (f : DFSNode → DFSNode) : (upd a i f).size = a.size := by
  simp [upd]

theorem gt_upd (a : Array DFSNode) (i j : Nat) (f : DFSNode → DFSNode) :
    gt (upd a i f) j = if i = j ∧ i < a.size then f (gt a i) else gt a j := by
  simp [upd, gt_st]

/-- a projection that `f` does not change is not changed by `upd` -/
theorem gt_upd_proj {α : Type} (P : DFSNode → α) (a : Array DFSNode) (i j : Nat) (f : DFSNode → DFSNode)
    (hP : ∀ d, P (f d) = P d) : P (gt (upd a i f) j) = P (gt a j) := by
  rw [gt_upd]
  split
  · rename_i h; obtain ⟨rfl, _⟩ := h; exact hP _
  · rfl

structure View where
  n : Nat
  I : Nat → Nat
  L : Nat → Nat
  C : Nat → Nat
  O : Nat → Bool
  stack : Array Nat
  asg : Array Nat
  index : Nat
  numScc : Nat

def view (r : Run) : View :=
  { n := r.dfs.size,
    I := fun v => (gt r.dfs v).index, L := fun v => (gt r.dfs v).lowlink,
    C := fun v => (gt r.dfs v).caller, O := fun v => (gt r.dfs v).onStack,
    stack := r.stack, asg := r.asg, index := r.index, numScc := r.numScc }

def InStack (stack : Array Nat) (v : Nat) : Prop := ∃ i, i < stack.size ∧ gt stack i = v

/-- holds at every point of `run` -/
structure TS (n : Nat) (V : View) : Prop where
  sz : V.n = n
  asz : V.asg.size = n
  idx_cnt : V.index = (List.range n).countP (fun v => V.I v != maxU)
  scc_le : V.numScc + V.stack.size ≤ V.index
  K : ∀ v, v < n → V.I v ≠ maxU → InStack V.stack v ∨ (1 ≤ gt V.asg v ∧ gt V.asg v ≤ V.numScc)
  M : ∀ v, v < n → V.O v = true → InStack V.stack v
  stk_lt : ∀ i, i < V.stack.size → gt V.stack i < n
  stk_vis : ∀ i, i < V.stack.size → V.I (gt V.stack i) ≠ maxU
  stk_mono : ∀ i j, i < j → j < V.stack.size → V.I (gt V.stack i) < V.I (gt V.stack j)
  vis_lt : ∀ v, v < n → V.I v ≠ maxU → V.I v < V.index
  L1 : ∀ v, v < n → V.I v ≠ maxU → V.L v ≤ V.I v

/-- holds during the DFS from `root`, whose index is `ri` -/
structure TD (n root ri : Nat) (V : View) : Prop where
  root_lt : root < n
  root_I : V.I root = ri
  root_vis : V.I root ≠ maxU
  root_C : V.C root = maxU
  stk_ge : ∀ i, i < V.stack.size → ri ≤ V.I (gt V.stack i)
  L2 : ∀ v, v < n → V.I v ≠ maxU → ri ≤ V.I v → ri ≤ V.L v
  N : ∀ v, v < n → V.I v ≠ maxU → ri ≤ V.I v → v ≠ root →
    V.C v < n ∧ V.I (V.C v) ≠ maxU ∧ ri ≤ V.I (V.C v)

theorem TS.index_le {n : Nat} {V : View} (h : TS n V) : V.index ≤ n := by
  rw [h.idx_cnt]
  have := @List.countP_le_length _ (fun v => V.I v != maxU) (List.range n)
  simpa using this

/-! ### the elementary updates, seen through the view -/

def View.setL (V : View) (v x : Nat) : View :=
  { V with L := fun u => if u = v then min (V.L v) x else V.L u }

def View.push (V : View) (w c : Nat) : View :=
  { V with I := fun u => if u = w then V.index else V.I u,
           L := fun u => if u = w then V.index else V.L u,
           C := fun u => if u = w then c else V.C u,
           O := fun u => if u = w then true else V.O u,
           stack := V.stack.push w, index := V.index + 1 }

def View.bump (V : View) : View := { V with numScc := V.numScc + 1 }

theorem view_incNeighbor (r : Run) (last : Nat) : view (incNeighbor r last) = view r := by
  simp only [view, incNeighbor, size_upd]
  congr 1
  · funext v; exact gt_upd_proj (·.index) _ _ _ _ (fun _ => rfl)
  · funext v; exact gt_upd_proj (·.lowlink) _ _ _ _ (fun _ => rfl)
  · funext v; exact gt_upd_proj (·.caller) _ _ _ _ (fun _ => rfl)
  · funext v; exact gt_upd_proj (·.onStack) _ _ _ _ (fun _ => rfl)

theorem view_minLow (r : Run) (v x : Nat) (hv : v < r.dfs.size) : view (minLow r v x) = (view r).setL v x := by
  simp only [view, minLow, size_upd, View.setL]
  congr 1
  · funext u; exact gt_upd_proj (·.index) _ _ _ _ (fun _ => rfl)
  · funext u
    rw [gt_upd]
    by_cases huv : u = v
    · subst huv; simp [hv]
    · have : ¬ (v = u ∧ v < r.dfs.size) := fun h => huv h.1.symm
      simp [this, huv]
  · funext u; exact gt_upd_proj (·.caller) _ _ _ _ (fun _ => rfl)
  · funext u; exact gt_upd_proj (·.onStack) _ _ _ _ (fun _ => rfl)

theorem gt_st_proj {α : Type} (P : DFSNode → α) (a : Array DFSNode) (w u : Nat) (d : DFSNode) (hw : w < a.size) :
    P (gt (st a w d) u) = if u = w then P d else P (gt a u) := by
  rw [gt_st]
  by_cases huw : u = w
  · subst huw; simp [hw]
  · have : ¬ (w = u ∧ w < a.size) := fun h => huw h.1.symm
    simp [this, huw]

theorem view_stackPush (r : Run) (w c : Nat) (hw : w < r.dfs.size) : view (stackPush r w c) = (view r).push w c := by
  simp only [view, stackPush, size_st, View.push]
  congr 1
  · funext u; exact gt_st_proj (·.index) _ _ _ _ hw
  · funext u; exact gt_st_proj (·.lowlink) _ _ _ _ hw
  · funext u; exact gt_st_proj (·.caller) _ _ _ _ hw
  · funext u; exact gt_st_proj (·.onStack) _ _ _ _ hw

theorem view_bumpScc (r : Run) : view (bumpScc r) = (view r).bump := rfl

/-! ### preservation by the elementary updates -/

theorem TS_setL {n : Nat} {V : View} (h : TS n V) (v x : Nat) : TS n (V.setL v x) := by
  refine ⟨h.sz, h.asz, h.idx_cnt, h.scc_le, h.K, h.M, h.stk_lt, h.stk_vis, h.stk_mono, h.vis_lt, ?_⟩
  intro u hu hvis
  simp only [View.setL]
  split
  · rename_i huv; subst huv
    have := h.L1 u hu hvis
    exact Nat.le_trans (Nat.min_le_left _ _) this
  · exact h.L1 u hu hvis

theorem TD_setL {n root ri : Nat} {V : View} (h : TD n root ri V) (v x : Nat) (hx : ri ≤ x) :
    TD n root ri (V.setL v x) := by
  refine ⟨h.root_lt, h.root_I, h.root_vis, h.root_C, h.stk_ge, ?_, h.N⟩
  intro u hu hvis hri
  simp only [View.setL]
  split
  · rename_i huv; subst huv
    have := h.L2 u hu hvis hri
    exact Nat.le_min.mpr ⟨this, hx⟩
  · exact h.L2 u hu hvis hri

theorem inStack_push {stack : Array Nat} {v : Nat} (w : Nat) (h : InStack stack v) : InStack (stack.push w) v := by
  obtain ⟨i, hi, he⟩ := h
  exact ⟨i, by rw [Array.size_push]; omega, by rw [gt_push_lt _ _ _ hi]; exact he⟩

theorem TS_push {n : Nat} {V : View} (h : TS n V) (hn : n < maxU) (w c : Nat) (hw : w < n) (hI : V.I w = maxU) :
    TS n (V.push w c) := by
  have hidx := h.index_le
  have hne : ∀ i, i < V.stack.size → gt V.stack i ≠ w := by
    intro i hi he
    exact h.stk_vis i hi (he ▸ hI)
  constructor
  · exact h.sz
  · exact h.asz
  · simp only [View.push]
    have := countP_range_update (fun v => (if v = w then V.index else V.I v) != maxU) (fun v => V.I v != maxU) w
      (by simp; omega) (by simp [hI]) (by intro i hi; simp [hi]) n hw
    have e := h.idx_cnt
    omega
  · simp only [View.push, Array.size_push]
    have := h.scc_le
    omega
  · intro v hv hvis
    simp only [View.push] at hvis ⊢
    by_cases hvw : v = w
    · subst hvw
      exact Or.inl ⟨V.stack.size, by rw [Array.size_push]; omega, gt_push_eq _ _⟩
    · rw [if_neg hvw] at hvis
      rcases h.K v hv hvis with hk | hk
      · exact Or.inl (inStack_push w hk)
      · exact Or.inr hk
  · intro v hv hO
    simp only [View.push] at hO ⊢
    by_cases hvw : v = w
    · subst hvw
      exact ⟨V.stack.size, by rw [Array.size_push]; omega, gt_push_eq _ _⟩
    · rw [if_neg hvw] at hO
      exact inStack_push w (h.M v hv hO)
  · intro i hi
    simp only [View.push, Array.size_push] at hi ⊢
    by_cases hil : i < V.stack.size
    · rw [gt_push_lt _ _ _ hil]; exact h.stk_lt i hil
    · have : i = V.stack.size := by omega
      subst this; rw [gt_push_eq]; exact hw
  · intro i hi
    simp only [View.push, Array.size_push] at hi ⊢
    by_cases hil : i < V.stack.size
    · rw [gt_push_lt _ _ _ hil, if_neg (hne i hil)]; exact h.stk_vis i hil
    · have : i = V.stack.size := by omega
      subst this; rw [gt_push_eq, if_pos rfl]; omega
  · intro i j hij hj
    simp only [View.push, Array.size_push] at hj ⊢
    by_cases hjl : j < V.stack.size
    · rw [gt_push_lt _ _ _ hjl, gt_push_lt _ _ _ (by omega : i < V.stack.size), if_neg (hne j hjl), if_neg (hne i (by omega))]
      exact h.stk_mono i j hij hjl
    · have : j = V.stack.size := by omega
      subst this
      rw [gt_push_eq, if_pos rfl, gt_push_lt _ _ _ hij, if_neg (hne i hij)]
      exact h.vis_lt _ (h.stk_lt i hij) (h.stk_vis i hij)
  · intro v hv hvis
    simp only [View.push] at hvis ⊢
    by_cases hvw : v = w
    · rw [if_pos hvw]; omega
    · rw [if_neg hvw] at hvis ⊢
      have := h.vis_lt v hv hvis; omega
  · intro v hv hvis
    simp only [View.push] at hvis ⊢
    by_cases hvw : v = w
    · rw [if_pos hvw, if_pos hvw]; exact Nat.le_refl _
    · rw [if_neg hvw] at hvis ⊢
      rw [if_neg hvw]
      exact h.L1 v hv hvis

theorem TD_push {n root ri : Nat} {V : View} (hs : TS n V) (h : TD n root ri V) (w c : Nat) (hI : V.I w = maxU)
    (hc : c < n) (hcv : V.I c ≠ maxU) (hcr : ri ≤ V.I c) : TD n root ri (V.push w c) := by
  have hrw : root ≠ w := fun he => h.root_vis (he ▸ hI)
  have hne : ∀ i, i < V.stack.size → gt V.stack i ≠ w := by
    intro i hi he
    exact hs.stk_vis i hi (he ▸ hI)
  have hri : ri < V.index := by
    have := hs.vis_lt root h.root_lt h.root_vis
    rw [h.root_I] at this; exact this
  constructor
  · exact h.root_lt
  · simp only [View.push]; rw [if_neg hrw]; exact h.root_I
  · simp only [View.push]; rw [if_neg hrw]; exact h.root_vis
  · simp only [View.push]; rw [if_neg hrw]; exact h.root_C
  · intro i hi
    simp only [View.push, Array.size_push] at hi ⊢
    by_cases hil : i < V.stack.size
    · rw [gt_push_lt _ _ _ hil, if_neg (hne i hil)]; exact h.stk_ge i hil
    · have : i = V.stack.size := by omega
      subst this; rw [gt_push_eq, if_pos rfl]; omega
  · intro v hv hvis hge
    simp only [View.push] at hvis hge ⊢
    by_cases hvw : v = w
    · rw [if_pos hvw]; omega
    · rw [if_neg hvw] at hvis hge ⊢
      exact h.L2 v hv hvis hge
  · intro v hv hvis hge hvr
    simp only [View.push] at hvis hge ⊢
    have hcw : c ≠ w := fun he => hcv (he ▸ hI)
    by_cases hvw : v = w
    · rw [if_pos hvw, if_neg hcw]
      exact ⟨hc, hcv, hcr⟩
    · rw [if_neg hvw] at hvis hge ⊢
      obtain ⟨h1, h2, h3⟩ := h.N v hv hvis hge hvr
      have : V.C v ≠ w := fun he => h2 (he ▸ hI)
      rw [if_neg this]
      exact ⟨h1, h2, h3⟩

/-- the start of a root's DFS: `stack_push(root, MAX, index)` on an empty Tarjan stack -/
theorem TD_root {n : Nat} {V : View} (hs : TS n V) (hn : n < maxU) (root : Nat) (hr : root < n) (hI : V.I root = maxU)
    (hemp : V.stack.size = 0) : TD n root V.index (V.push root maxU) := by
  have hidx := hs.index_le
  constructor
  · exact hr
  · simp [View.push]
  · simp only [View.push, if_pos]; omega
  · simp [View.push]
  · intro i hi
    simp only [View.push, Array.size_push] at hi ⊢
    have : i = V.stack.size := by omega
    subst this
    rw [gt_push_eq, if_pos rfl]; exact Nat.le_refl _
  · intro v hv hvis hge
    simp only [View.push] at hvis hge ⊢
    by_cases hvw : v = root
    · rw [if_pos hvw]; exact Nat.le_refl _
    · rw [if_neg hvw] at hvis hge
      have := hs.vis_lt v hv hvis
      omega
  · intro v hv hvis hge hvr
    simp only [View.push] at hvis hge
    rw [if_neg hvr] at hvis hge
    have := hs.vis_lt v hv hvis
    omega

/-! ### the SCC pop loop -/

def PoppedAt (stack : Array Nat) (p v : Nat) : Prop := ∃ i, p ≤ i ∧ i < stack.size ∧ gt stack i = v

/-- `V'` is `V` with the stack cut back to its first `p` entries, `stack[p] = last` -/
structure Popped (V V' : View) (p last : Nat) : Prop where
  n_eq : V'.n = V.n
  I_eq : V'.I = V.I
  L_eq : V'.L = V.L
  C_eq : V'.C = V.C
  index_eq : V'.index = V.index
  numScc_eq : V'.numScc = V.numScc
  asz : V'.asg.size = V.asg.size
  p_lt : p < V.stack.size
  at_p : gt V.stack p = last
  size' : V'.stack.size = p
  pre : ∀ i, i < p → gt V'.stack i = gt V.stack i
  O_sub : ∀ v, V'.O v = true → V.O v = true ∧ ¬ PoppedAt V.stack p v
  asg_pop : ∀ v, PoppedAt V.stack p v → gt V'.asg v = V.numScc
  asg_keep : ∀ v, ¬ PoppedAt V.stack p v → gt V'.asg v = gt V.asg v

theorem popLoop_spec (last : Nat) : ∀ (f : Nat) (r r' : Run), r.asg.size = r.dfs.size →
    popLoop last f r = some r' → ∃ p, Popped (view r) (view r') p last := by
  intro f
  induction f with
  | zero => intro r r' _ h; simp [popLoop] at h
  | succ f ih =>
    intro r r' hsz h
    simp only [popLoop] at h
    split at h
    · cases h
    · rename_i hS
      split at h
      · cases h
      · rename_i htop
        have htop' : gt r.stack (r.stack.size - 1) < r.dfs.size := by omega
        have hpos : 0 < r.stack.size := by omega
        -- facts about the one-step state
        have hI : ∀ v, (gt (upd r.dfs (gt r.stack (r.stack.size - 1)) (fun d => { d with onStack := false })) v).index
            = (gt r.dfs v).index := fun v => gt_upd_proj (·.index) _ _ _ _ (fun _ => rfl)
        have hL : ∀ v, (gt (upd r.dfs (gt r.stack (r.stack.size - 1)) (fun d => { d with onStack := false })) v).lowlink
            = (gt r.dfs v).lowlink := fun v => gt_upd_proj (·.lowlink) _ _ _ _ (fun _ => rfl)
        have hC : ∀ v, (gt (upd r.dfs (gt r.stack (r.stack.size - 1)) (fun d => { d with onStack := false })) v).caller
            = (gt r.dfs v).caller := fun v => gt_upd_proj (·.caller) _ _ _ _ (fun _ => rfl)
        have hO : ∀ v, (gt (upd r.dfs (gt r.stack (r.stack.size - 1)) (fun d => { d with onStack := false })) v).onStack = true
            → (gt r.dfs v).onStack = true ∧ v ≠ gt r.stack (r.stack.size - 1) := by
          intro v hv
          rw [gt_upd] at hv
          split at hv
          · simp at hv
          · rename_i hne
            refine ⟨hv, fun he => hne ⟨he.symm, htop'⟩⟩
        split at h
        · rename_i hlast
          cases h
          refine ⟨r.stack.size - 1, ?_⟩
          constructor
          · simp [view, size_upd]
          · funext v; exact hI v
          · funext v; exact hL v
          · funext v; exact hC v
          · rfl
          · rfl
          · simp [view]
          · simp only [view]; omega
          · exact hlast
          · simp [view]
          · intro i hi; simp only [view]; exact gt_pop_lt _ _ hi
          · intro v hv
            obtain ⟨h1, h2⟩ := hO v hv
            refine ⟨h1, ?_⟩
            rintro ⟨i, hi1, hi2, hi3⟩
            simp only [view] at hi1 hi2 hi3
            have : i = r.stack.size - 1 := by omega
            subst this
            exact h2 hi3.symm
          · rintro v ⟨i, hi1, hi2, hi3⟩
            simp only [view] at hi1 hi2 hi3 ⊢
            have : i = r.stack.size - 1 := by omega
            subst this
            rw [← hi3, gt_st_eq _ _ _ (by omega)]
          · intro v hv
            simp only [view] at hv ⊢
            have : v ≠ gt r.stack (r.stack.size - 1) := by
              intro he
              exact hv ⟨r.stack.size - 1, Nat.le_refl _, by omega, he.symm⟩
            rw [gt_st_ne _ _ _ _ (Ne.symm this)]
        · rename_i hlast
          obtain ⟨p, hp⟩ := ih _ r' (by simp only [size_st, size_upd]; exact hsz) h
          have hp_lt : p < r.stack.size - 1 := by have := hp.p_lt; simpa [view] using this
          refine ⟨p, ?_⟩
          constructor
          · rw [hp.n_eq]; simp [view, size_upd]
          · rw [hp.I_eq]; funext v; exact hI v
          · rw [hp.L_eq]; funext v; exact hL v
          · rw [hp.C_eq]; funext v; exact hC v
          · rw [hp.index_eq]; rfl
          · rw [hp.numScc_eq]; rfl
          · rw [hp.asz]; simp [view]
          · simp only [view]; omega
          · have := hp.at_p
            simp only [view] at this ⊢
            rw [gt_pop_lt _ _ hp_lt] at this
            exact this
          · exact hp.size'
          · intro i hi
            have := hp.pre i hi
            simp only [view] at this ⊢
            rw [this, gt_pop_lt _ _ (by omega)]
          · intro v hv
            obtain ⟨h1, h2⟩ := hp.O_sub v hv
            obtain ⟨h3, h4⟩ := hO v h1
            refine ⟨h3, ?_⟩
            rintro ⟨i, hi1, hi2, hi3⟩
            simp only [view] at hi1 hi2 hi3
            by_cases hil : i = r.stack.size - 1
            · subst hil; exact h4 hi3.symm
            · exact h2 ⟨i, hi1, by simp only [view, Array.size_pop]; omega, by
                simp only [view]; rw [gt_pop_lt _ _ (by omega)]; exact hi3⟩
          · rintro v ⟨i, hi1, hi2, hi3⟩
            simp only [view] at hi1 hi2 hi3
            by_cases hpop : PoppedAt r.stack.pop p v
            · exact hp.asg_pop v hpop
            · rw [hp.asg_keep v hpop]
              have hil : i = r.stack.size - 1 := by
                apply Decidable.byContradiction
                intro hil
                exact hpop ⟨i, hi1, by rw [Array.size_pop]; omega, by
                  rw [gt_pop_lt _ _ (by omega)]; exact hi3⟩
              subst hil
              simp only [view]
              rw [← hi3, gt_st_eq _ _ _ (by omega)]
          · intro v hv
            simp only [view] at hv
            have h1 : ¬ PoppedAt r.stack.pop p v := by
              rintro ⟨i, hi1, hi2, hi3⟩
              rw [Array.size_pop] at hi2
              rw [gt_pop_lt _ _ hi2] at hi3
              exact hv ⟨i, hi1, by omega, hi3⟩
            have h2 : v ≠ gt r.stack (r.stack.size - 1) := by
              intro he
              exact hv ⟨r.stack.size - 1, by omega, by omega, he.symm⟩
            rw [hp.asg_keep v h1]
            simp only [view]
            rw [gt_st_ne _ _ _ _ (Ne.symm h2)]

theorem TS_popped {n : Nat} {V0 V' : View} {p last : Nat} (h : TS n V0) (hp : Popped V0.bump V' p last) : TS n V' := by
  have hS : p < V0.stack.size := hp.p_lt
  have hpre : ∀ i, i < p → gt V'.stack i = gt V0.stack i := hp.pre
  have hI : V'.I = V0.I := hp.I_eq
  constructor
  · rw [hp.n_eq]; exact h.sz
  · rw [hp.asz]; exact h.asz
  · rw [hp.index_eq, hI]; exact h.idx_cnt
  · rw [hp.numScc_eq, hp.size', hp.index_eq]
    have := h.scc_le
    simp only [View.bump]
    omega
  · intro v hv hvis
    rw [hI] at hvis
    rw [hp.numScc_eq]
    by_cases hpop : PoppedAt V0.stack p v
    · right
      rw [hp.asg_pop v hpop]
      simp only [View.bump]; omega
    · rcases h.K v hv hvis with ⟨i, hi, he⟩ | hk
      · left
        have hip : i < p := by
          apply Decidable.byContradiction
          intro hip
          exact hpop ⟨i, by omega, hi, he⟩
        exact ⟨i, by rw [hp.size']; exact hip, by rw [hpre i hip]; exact he⟩
      · right
        rw [hp.asg_keep v hpop]
        simp only [View.bump]
        exact ⟨hk.1, by omega⟩
  · intro v hv hO
    obtain ⟨h1, h2⟩ := hp.O_sub v hO
    obtain ⟨i, hi, he⟩ := h.M v hv h1
    have hip : i < p := by
      apply Decidable.byContradiction
      intro hip
      exact h2 ⟨i, by omega, hi, he⟩
    exact ⟨i, by rw [hp.size']; exact hip, by rw [hpre i hip]; exact he⟩
  · intro i hi
    rw [hp.size'] at hi
    rw [hpre i hi]; exact h.stk_lt i (by omega)
  · intro i hi
    rw [hp.size'] at hi
    rw [hpre i hi, hI]; exact h.stk_vis i (by omega)
  · intro i j hij hj
    rw [hp.size'] at hj
    rw [hpre i (by omega), hpre j hj, hI]; exact h.stk_mono i j hij (by omega)
  · intro v hv hvis
    rw [hI] at hvis ⊢
    rw [hp.index_eq]; exact h.vis_lt v hv hvis
  · intro v hv hvis
    rw [hI] at hvis ⊢
    rw [hp.L_eq]; exact h.L1 v hv hvis

theorem TD_popped {n root ri : Nat} {V0 V' : View} {p last : Nat} (h : TD n root ri V0)
    (hp : Popped V0.bump V' p last) : TD n root ri V' := by
  have hI : V'.I = V0.I := hp.I_eq
  have hL : V'.L = V0.L := hp.L_eq
  have hC : V'.C = V0.C := hp.C_eq
  have hS : p < V0.stack.size := hp.p_lt
  refine ⟨h.root_lt, by rw [hI]; exact h.root_I, by rw [hI]; exact h.root_vis, by rw [hC]; exact h.root_C, ?_,
    by rw [hI, hL]; exact h.L2, by rw [hI, hC]; exact h.N⟩
  intro i hi
  rw [hp.size'] at hi
  have := hp.pre i hi
  simp only [View.bump] at this
  rw [this, hI]; exact h.stk_ge i (by omega)

/-! ### one root's `loop` -/

def LastOK (n ri : Nat) (V : View) (last : Nat) : Prop := last < n ∧ V.I last ≠ maxU ∧ ri ≤ V.I last

theorem dfsLoop_inv (g : Graph) (n : Nat) (hn : n < maxU) (root ri : Nat) :
    ∀ (f : Nat) (r : Run) (last : Nat) (r' : Run), TS n (view r) → TD n root ri (view r) →
      LastOK n ri (view r) last → dfsLoop g f r last = some r' →
      TS n (view r') ∧ (view r').stack.size = 0 ∧ ∀ v, (view r).I v ≠ maxU → (view r').I v ≠ maxU := by
  intro f
  induction f with
  | zero => intro r last r' _ _ _ h; simp [dfsLoop] at h
  | succ f ih =>
    intro r last r' hs hd hl h
    obtain ⟨hl1, hl2, hl3⟩ := hl
    have hsz : r.dfs.size = n := hs.sz
    have hidx := hs.index_le
    simp only [dfsLoop] at h
    split at h
    · cases h
    · split at h
      · -- an edge (last, w)
        have hv1 := view_incNeighbor r last
        have hsz1 : (incNeighbor r last).dfs.size = n := by simp only [incNeighbor, size_upd]; exact hsz
        split at h
        · cases h
        · rename_i hw
          have hwn : target g (beginEdges g last + (gt r.dfs last).neighbor) < n := by omega
          generalize target g (beginEdges g last + (gt r.dfs last).neighbor) = w at h hw hwn
          have hIw : (gt (incNeighbor r last).dfs w).index = (view r).I w := by
            have := congrArg (fun V => V.I w) hv1; exact this
          have hOw : (gt (incNeighbor r last).dfs w).onStack = (view r).O w := by
            have := congrArg (fun V => V.O w) hv1; exact this
          split at h
          · -- tree edge: w unvisited
            rename_i hunv
            rw [hIw] at hunv
            have hv2 : view (stackPush (incNeighbor r last) w last) = (view r).push w last := by
              rw [view_stackPush _ _ _ (by omega), hv1]
            obtain ⟨k1, k2, k3⟩ := ih _ w r' (by rw [hv2]; exact TS_push hs hn w last hwn hunv)
              (by rw [hv2]; exact TD_push hs hd w last hunv hl1 hl2 hl3)
              (by
                rw [hv2]
                refine ⟨hwn, ?_, ?_⟩
                · simp only [View.push, if_pos]; omega
                · simp only [View.push, if_pos]
                  have := hs.vis_lt root hd.root_lt hd.root_vis
                  rw [hd.root_I] at this; omega) h
            refine ⟨k1, k2, fun v hv => k3 v ?_⟩
            rw [hv2]
            simp only [View.push]
            split
            · omega
            · exact hv
          · rename_i hvis
            rw [hIw] at hvis
            split at h
            · -- back / cross edge to a node on the Tarjan stack
              rename_i hon
              rw [hOw] at hon
              rw [hIw] at h
              have hv2 : view (minLow (incNeighbor r last) last ((view r).I w)) = (view r).setL last ((view r).I w) := by
                rw [view_minLow _ _ _ (by omega), hv1]
              obtain ⟨i, hi, he⟩ := hs.M w hwn hon
              have hge : ri ≤ (view r).I w := by have := hd.stk_ge i hi; rw [he] at this; exact this
              obtain ⟨k1, k2, k3⟩ := ih _ last r' (by rw [hv2]; exact TS_setL hs _ _)
                (by rw [hv2]; exact TD_setL hd _ _ hge) (by rw [hv2]; exact ⟨hl1, hl2, hl3⟩) h
              exact ⟨k1, k2, fun v hv => k3 v (by rw [hv2]; exact hv)⟩
            · -- edge to a node that already has its component
              obtain ⟨k1, k2, k3⟩ := ih _ last r' (by rw [hv1]; exact hs) (by rw [hv1]; exact hd)
                (by rw [hv1]; exact ⟨hl1, hl2, hl3⟩) h
              exact ⟨k1, k2, fun v hv => k3 v (by rw [hv1]; exact hv)⟩
      · -- all edges of `last` done
        -- the state after the optional SCC pop
        have key : ∀ r2, (if (gt r.dfs last).lowlink = (gt r.dfs last).index then
              popLoop last (r.stack.size + 1) (bumpScc r) else some r) = some r2 →
            TS n (view r2) ∧ TD n root ri (view r2) ∧ (view r2).I = (view r).I ∧ (view r2).C = (view r).C ∧
              (view r2).L = (view r).L ∧
              ((view r).L last = (view r).I last → ∃ p, Popped (view r).bump (view r2) p last) ∧
              ((view r).L last ≠ (view r).I last → r2 = r) := by
          intro r2 hr2
          split at hr2
          · rename_i hc
            obtain ⟨p, hp⟩ := popLoop_spec last _ (bumpScc r) r2 (by have := hs.asz; simp only [bumpScc]; simp only [view] at this; omega) hr2
            rw [view_bumpScc] at hp
            exact ⟨TS_popped hs hp, TD_popped hd hp, hp.I_eq, hp.C_eq, hp.L_eq, fun _ => ⟨p, hp⟩, fun hne => absurd hc hne⟩
          · rename_i hc
            cases hr2
            exact ⟨hs, hd, rfl, rfl, rfl, fun he => absurd he hc, fun _ => rfl⟩
        split at h
        · cases h
        · rename_i r2 hr2
          obtain ⟨hs2, hd2, hI2, hC2, hL2, hpop, _⟩ := key r2 hr2
          have hsz2 : r2.dfs.size = n := hs2.sz
          have hCl : (gt r2.dfs last).caller = (view r).C last := by
            have := congrFun hC2 last; exact this
          have hLl : (gt r2.dfs last).lowlink = (view r).L last := by
            have := congrFun hL2 last; exact this
          rw [hCl] at h
          split at h
          · rename_i hcal
            split at h
            · cases h
            · rename_i hnl
              rw [hLl] at h
              have hroot : last ≠ root := fun he => hcal (he ▸ hd.root_C)
              obtain ⟨n1, n2, n3⟩ := hd.N last hl1 hl2 hl3 hroot
              have hv3 : view (minLow r2 ((view r).C last) ((view r).L last)) = (view r2).setL ((view r).C last) ((view r).L last) :=
                view_minLow _ _ _ (by omega)
              have hLge : ri ≤ (view r).L last := hd.L2 last hl1 hl2 hl3
              obtain ⟨k1, k2, k3⟩ := ih _ _ r' (by rw [hv3]; exact TS_setL hs2 _ _)
                (by rw [hv3]; exact TD_setL hd2 _ _ hLge)
                (by rw [hv3]; exact ⟨n1, by simp only [View.setL]; rw [hI2]; exact n2, by simp only [View.setL]; rw [hI2]; exact n3⟩) h
              refine ⟨k1, k2, fun v hv => k3 v ?_⟩
              rw [hv3]; simp only [View.setL]; rw [hI2]; exact hv
          · -- `break`: last is the root and its component has just been popped
            rename_i hcal
            cases h
            have hcal' : (view r).C last = maxU := Decidable.not_not.mp hcal
            have hroot : last = root := by
              apply Decidable.byContradiction
              intro hne
              have := (hd.N last hl1 hl2 hl3 hne).1
              omega
            subst hroot
            have hLI : (view r).L last = (view r).I last := by
              have h1 := hs.L1 last hl1 hl2
              have h2 := hd.L2 last hl1 hl2 hl3
              have h3 := hd.root_I
              omega
            obtain ⟨p, hp⟩ := hpop hLI
            have hp0 : p = 0 := by
              apply Decidable.byContradiction
              intro hp0
              have hpS : p < (view r).stack.size := hp.p_lt
              have h1 := hd.stk_ge 0 (by omega)
              have h2 := hs.stk_mono 0 p (by omega) hpS
              have h3 : gt (view r).stack p = last := hp.at_p
              rw [h3, hd.root_I] at h2
              omega
            refine ⟨hs2, by rw [hp.size', hp0], fun v hv => by rw [hI2]; exact hv⟩

/-! ### the loop over all roots, and `run` -/

theorem outer_inv (g : Graph) (n : Nat) (hn : n < maxU) :
    ∀ (k v : Nat) (r r' : Run), TS n (view r) → (view r).stack.size = 0 → v + k = n →
      (∀ u, u < v → (view r).I u ≠ maxU) → outer g k v r = some r' →
      TS n (view r') ∧ (view r').stack.size = 0 ∧ ∀ u, u < n → (view r').I u ≠ maxU := by
  intro k
  induction k with
  | zero =>
    intro v r r' hs he hv hall h
    simp only [outer] at h
    cases h
    exact ⟨hs, he, fun u hu => hall u (by omega)⟩
  | succ k ih =>
    intro v r r' hs he hv hall h
    simp only [outer] at h
    split at h
    · rename_i hvis
      refine ih (v + 1) r r' hs he (by omega) ?_ h
      intro u hu
      by_cases huv : u = v
      · subst huv; exact hvis
      · exact hall u (by omega)
    · rename_i hunv
      have hunv' : (view r).I v = maxU := Decidable.not_not.mp hunv
      have hvn : v < n := by omega
      have hidx := hs.index_le
      split at h
      · cases h
      · rename_i r1 hd
        have hv1 : view (stackPush r v maxU) = (view r).push v maxU := view_stackPush _ _ _ (by have := hs.sz; simp only [view] at this; omega)
        obtain ⟨k1, k2, k3⟩ := dfsLoop_inv g n hn v (view r).index _ _ v r1
          (by rw [hv1]; exact TS_push hs hn v maxU hvn hunv')
          (by rw [hv1]; exact TD_root hs hn v hvn hunv' he)
          (by
            rw [hv1]
            refine ⟨hvn, ?_, ?_⟩
            · simp only [View.push, if_pos]; omega
            · simp only [View.push, if_pos]; exact Nat.le_refl _) hd
        refine ih (v + 1) r1 r' k1 k2 (by omega) ?_ h
        intro u hu
        apply k3
        rw [hv1]
        simp only [View.push]
        split
        · omega
        · exact hall u (by omega)

/-- whenever `Tarjan::run` returns, every node has a label in `1..=n` -/
theorem run_labels (s : State) (g : Graph) (hn : numNodes g < maxU) (s' : State) (a : Array Nat)
    (h : run s g = some (s', a)) :
    a.size = numNodes g ∧ ∀ v, v < numNodes g → 1 ≤ gt a v ∧ gt a v ≤ numNodes g := by
  simp only [run, runWith] at h
  split at h
  · cases h
  · rename_i r1 ho
    simp only [Option.some.injEq, Prod.mk.injEq] at h
    obtain ⟨_, rfl⟩ := h
    have hI : ∀ v, (view (prepare true s g)).I v = maxU := by
      intro v
      simp only [view, prepare, if_true, clear, resize_empty]
      by_cases hv : v < numNodes g
      · rw [gt_replicate _ _ _ hv]; rfl
      · rw [gt_of_ge _ _ (by simpa using Nat.le_of_not_lt hv)]; rfl
    have hinit : TS (numNodes g) (view (prepare true s g)) := by
      constructor
      · simp [view, prepare, clear, resize_empty]
      · simp [view, prepare, resize_empty]
      · have : (List.range (numNodes g)).countP (fun v => (view (prepare true s g)).I v != maxU) = 0 :=
          List.countP_eq_zero.mpr (by intro v _; simp [hI v])
        rw [this]; rfl
      · simp [view, prepare, clear]
      · intro v _ hv; exact absurd (hI v) hv
      · intro v hv hO
        simp only [view, prepare, if_true, clear, resize_empty] at hO
        rw [gt_replicate _ _ _ hv] at hO
        cases hO
      · intro i hi; simp [view, prepare, clear] at hi
      · intro i hi; simp [view, prepare, clear] at hi
      · intro i j _ hj; simp [view, prepare, clear] at hj
      · intro v _ hv; exact absurd (hI v) hv
      · intro v _ hv; exact absurd (hI v) hv
    obtain ⟨k1, k2, k3⟩ := outer_inv g _ hn _ 0 _ r1 hinit (by simp [view, prepare, clear]) (by omega)
      (fun u hu => by omega) ho
    refine ⟨k1.asz, fun v hv => ?_⟩
    rcases k1.K v hv (k3 v hv) with ⟨i, hi, _⟩ | hk
    · omega
    · have h1 := k1.scc_le
      have h2 := k1.index_le
      exact ⟨hk.1, by have := hk.2; simp only [view] at *; omega⟩

end Tbx.Tarjan
