import Tbx.Proofs.FlowDinicBfs
import Tbx.Proofs.FlowCut
/-
C01 `dinic_aug_valid` / `dinic_correct` (partial correctness of the Dinic model).

`dfs`: every augmentation goes along the parent chain from the target, which is a simple path to the
source made of existing residual edges, and the amount pushed is the minimum of the CURRENT residual
capacities along it (`chainMin` — the D1 fix; the pre-fix code pushed the stale value carried on the
stack, see Model/FlowLegacy.lean).  Hence the loop invariant `FInv` is preserved whatever the levels and
whatever the unwinding does.  `run`: when `bfs` fails the target is unreachable, so the accumulated flow
is the maximum flow value.
-/
namespace Tbx.Flow
open Tbx Tbx.FlowTheory Tbx.FlowSpec

/-- `l` is the parent chain `y, parents[y], …, s` and it is simple -/
inductive PChain (n s : Nat) (ps : Array Nat) : Nat → List Nat → Prop where
  | base : PChain n s ps s [s]
  | step {y : Nat} {l : List Nat} : y ≠ s → y < n → gt ps y < n → PChain n s ps (gt ps y) l → y ∉ l →
      PChain n s ps y (y :: l)

theorem pchain_head {n s : Nat} {ps : Array Nat} {y : Nat} {l : List Nat} (h : PChain n s ps y l) :
    ∃ tl, l = y :: tl := by
  cases h with
  | base => exact ⟨[], rfl⟩
  | step _ _ _ _ _ => exact ⟨_, rfl⟩

theorem pchain_props {n s : Nat} {ps : Array Nat} (hs : s < n) (hps : gt ps s = s) (hN : n ≤ INV)
    {y : Nat} {l : List Nat} (h : PChain n s ps y l) :
    (∀ x, x ∈ l → x < n ∧ gt ps x ≠ INV) ∧ l.Nodup ∧ l.getLast? = some s := by
  induction h with
  | base =>
    refine ⟨?_, by simp, by simp⟩
    intro x hx; rw [List.mem_singleton] at hx; subst hx
    exact ⟨hs, by rw [hps]; omega⟩
  | @step y l h1 h2 h3 h4 h5 ih =>
    obtain ⟨a, b, c⟩ := ih
    refine ⟨?_, List.nodup_cons.mpr ⟨h5, b⟩, ?_⟩
    · intro x hx
      rcases List.mem_cons.mp hx with rfl | hx'
      · exact ⟨h2, by omega⟩
      · exact a x hx'
    · obtain ⟨tl, rfl⟩ := pchain_head h4
      simpa using c

theorem pchain_congr {n s : Nat} {ps ps' : Array Nat} {y : Nat} {l : List Nat} (h : PChain n s ps y l)
    (heq : ∀ x, x ∈ l → gt ps' x = gt ps x) : PChain n s ps' y l := by
  induction h with
  | base => exact PChain.base
  | @step y l h1 h2 h3 h4 h5 ih =>
    have e := heq y List.mem_cons_self
    have := ih (fun x hx => heq x (List.mem_cons_of_mem _ hx))
    exact PChain.step h1 h2 (by rw [e]; exact h3) (by rw [e]; exact this) h5

theorem chainMin_spec (g : Graph) (n s : Nat) (ps : Array Nat) (hps : gt ps s = s) (fuel : Nat) :
    ∀ (w : Nat) (l : List Nat) (flow fl : ℤ), PChain n s ps w l → chainMin g ps fuel w flow = some fl →
    fl ≤ flow ∧ (∀ ab, ab ∈ windows l → ∃ e, g.findEdge ab.2 ab.1 = some e ∧ fl ≤ gt g.cap e) ∧
    (NonNeg g → 0 ≤ flow → 0 ≤ fl) := by
  induction fuel with
  | zero => intro w l flow fl _ h; simp [chainMin] at h
  | succ fuel ih =>
    intro w l flow fl hc h
    simp only [chainMin] at h
    cases hc with
    | base =>
      rw [hps] at h
      simp only [if_true, Option.some.injEq] at h
      subst h
      exact ⟨Int.le_refl _, fun ab hab => by simp [windows] at hab, fun _ h => h⟩
    | @step _ l' h1 h2 h3 h4 h5 =>
      obtain ⟨tl, rfl⟩ := pchain_head h4
      have hne : gt ps w ≠ w := fun e => h5 (by rw [e]; exact List.mem_cons_self)
      rw [if_neg hne] at h
      cases hf : g.findEdge (gt ps w) w with
      | none => simp [hf] at h
      | some e =>
        simp only [hf] at h
        obtain ⟨a, b, c⟩ := ih _ _ _ fl h4 h
        have hm1 : min flow (gt g.cap e) ≤ flow := Int.min_le_left _ _
        have hm2 : min flow (gt g.cap e) ≤ gt g.cap e := Int.min_le_right _ _
        refine ⟨by omega, ?_, ?_⟩
        · intro ab hab
          simp only [windows, List.mem_cons] at hab
          rcases hab with rfl | hab
          · exact ⟨e, hf, by omega⟩
          · exact b ab hab
        · intro hnn h0
          apply c hnn
          exact Int.le_min.mpr ⟨h0, hnn e⟩

theorem augChain_pushPath (n s : Nat) (ps : Array Nat) (hps : gt ps s = s) (fl : ℤ) (fuel : Nat) :
    ∀ (v : Nat) (l : List Nat) (ct : Nat) (g g' : Graph) (ct' : Nat), PChain n s ps v l →
    augChain ps fl fuel v ct g = some (g', ct') → pushPath g fl (windows l) = some g' := by
  induction fuel with
  | zero => intro v l ct g g' ct' _ h; simp [augChain] at h
  | succ fuel ih =>
    intro v l ct g g' ct' hc h
    simp only [augChain] at h
    cases hc with
    | base =>
      rw [hps] at h
      simp only [if_true, Option.some.injEq, Prod.mk.injEq] at h
      obtain ⟨rfl, _⟩ := h
      simp [windows, pushPath]
    | @step _ l' h1 h2 h3 h4 h5 =>
      obtain ⟨tl, rfl⟩ := pchain_head h4
      have hne : gt ps v ≠ v := fun e => h5 (by rw [e]; exact List.mem_cons_self)
      rw [if_neg hne] at h
      cases hf1 : g.findEdge (gt ps v) v with
      | none => simp [hf1] at h
      | some fwd =>
        cases hf2 : g.findEdge v (gt ps v) with
        | none => simp [hf1, hf2] at h
        | some rev =>
          simp only [hf1, hf2] at h
          simp only [windows, pushPath, hf1, hf2]
          exact ih _ _ _ _ g' ct' h4 h

theorem unwind_sub (ps : Array Nat) (ct : Nat) (stk : List (Nat × ℤ)) :
    ∀ y, y ∈ (unwind ps ct stk).map Prod.fst → y ∈ stk.map Prod.fst := by
  induction stk with
  | nil => intro y h; simp [unwind] at h
  | cons a rest ih =>
    intro y h
    obtain ⟨node, fl⟩ := a
    simp only [unwind] at h
    split at h
    · exact List.mem_cons_of_mem _ h
    · exact List.mem_cons_of_mem _ (ih y h)

/-- invariant of the DFS state -/
structure DI {n : Nat} (c : Fin n → Fin n → ℤ) (s t : Fin n) (d : Dinic) (flow : ℤ) : Prop where
  fi  : FInv c s t d.g flow
  uq  : Uniq d.g
  rc  : RevClosed d.g
  src : d.source = s.val
  tgt : d.target = t.val
  psz : d.parents.size = n
  hs  : gt d.parents s.val = s.val
  ht  : gt d.parents t.val = INV
  stk : ∀ y, y ∈ d.stack.map Prod.fst → ∃ l, PChain n s.val d.parents y l

/-- **dinic_aug_valid**: reaching the target through the edge `e : u → t` from a node `u` whose parent
    chain `lu` is simple: the path `t :: lu` is simple and ends in the source, every window of it is an
    existing residual edge, the amount `fl` computed by `chainMin` (the D1 fix) is non-negative and at most
    every CURRENT residual capacity on the path, the augmentation `augChain` is `pushPath` along that
    path, and the flow invariant holds afterwards with the flow raised by `fl` -/
theorem aug_valid {n : Nat} {c : Fin n → Fin n → ℤ} {s t : Fin n} (hst : s ≠ t) (hN : n ≤ INV)
    (d : Dinic) (F : ℤ) (hi : DI c s t d F) (u e : Nat) (lu : List Nat)
    (hcu : PChain n s.val d.parents u lu) (hun : u < n) (hre : InRange d.g u e)
    (hte : gt d.g.tgt e = t.val) (fl : ℤ)
    (hcm : chainMin d.g (st d.parents t.val u) (d.g.numNodes + 1) u (gt d.g.cap e) = some fl)
    (g' : Graph) (ct : Nat)
    (hau : augChain (st d.parents t.val u) fl (d.g.numNodes + 1) t.val u d.g = some (g', ct)) :
    (t.val :: lu).Nodup ∧ (t.val :: lu).getLast? = some s.val ∧ 0 ≤ fl ∧
    (∀ ab, ab ∈ windows (t.val :: lu) → ∃ e', d.g.findEdge ab.2 ab.1 = some e' ∧ fl ≤ gt d.g.cap e') ∧
    pushPath d.g fl (windows (t.val :: lu)) = some g' ∧
    FInv c s t g' (F + fl) ∧ g'.first = d.g.first ∧ g'.tgt = d.g.tgt := by
  have hsn : s.val < n := s.isLt
  have htn : t.val < n := t.isLt
  have hgn := hi.fi.hn
  obtain ⟨pa, pb, pc⟩ := pchain_props hsn hi.hs hN hcu
  have htlu : t.val ∉ lu := fun hm => (pa _ hm).2 hi.ht
  have hstv : t.val ≠ s.val := fun e => hst (Fin.ext e.symm)
  have hcu' : PChain n s.val (st d.parents t.val u) u lu :=
    pchain_congr hcu (fun x hx => gt_st_ne _ _ _ _ (fun e => htlu (e ▸ hx)))
  have hps' : gt (st d.parents t.val u) s.val = s.val := by
    rw [gt_st_ne _ _ _ _ hstv]; exact hi.hs
  have hct : PChain n s.val (st d.parents t.val u) t.val (t.val :: lu) := by
    have hgt : gt (st d.parents t.val u) t.val = u := gt_st_eq _ _ _ (by rw [hi.psz]; exact htn)
    exact PChain.step hstv htn (by rw [hgt]; exact hun) (by rw [hgt]; exact hcu') htlu
  have havpos : 0 ≤ gt d.g.cap e := hi.fi.nn e
  obtain ⟨m1, m2, m3⟩ := chainMin_spec d.g n s.val _ hps' _ u lu _ fl hcu' hcm
  have hfl0 : 0 ≤ fl := m3 hi.fi.nn havpos
  have hpush := augChain_pushPath n s.val _ hps' fl _ t.val (t.val :: lu) u d.g g' ct hct hau
  obtain ⟨tlu, rfl⟩ := pchain_head hcu
  have hfe : d.g.findEdge u t.val = some e :=
    findEdge_eq_of_uniq hi.uq u t.val e (by rw [hgn]; exact hun) hre hte
  have hcap : ∀ ab, ab ∈ windows (t.val :: u :: tlu) →
      ∃ e', d.g.findEdge ab.2 ab.1 = some e' ∧ fl ≤ gt d.g.cap e' := by
    intro ab hab
    simp only [windows, List.mem_cons] at hab
    rcases hab with rfl | hab
    · exact ⟨e, hfe, m1⟩
    · exact m2 ab hab
  obtain ⟨q1, q2, q3⟩ := pchain_props hsn hps' hN hct
  obtain ⟨hfi', hfirst, htgt⟩ := push_finv hst d.g F hi.fi (t.val :: u :: tlu) (u :: tlu) rfl q2 q3
    (fun y hy => by rw [hgn]; exact (q1 y hy).1) fl hfl0 hcap g' hpush
  exact ⟨q2, q3, hfl0, hcap, hpush, hfi', hfirst, htgt⟩

/-- the whole `v == target` branch of `dfs` keeps the DFS invariant -/
theorem reachTarget_spec {n : Nat} {c : Fin n → Fin n → ℤ} {s t : Fin n} (hst : s ≠ t) (hN : n ≤ INV)
    (d : Dinic) (F : ℤ) (hi : DI c s t d F) (u e : Nat) (lu : List Nat)
    (hcu : PChain n s.val d.parents u lu) (hun : u < n) (hre : InRange d.g u e)
    (hte : gt d.g.tgt e = t.val) (bf : ℤ) (d' : Dinic) (bf' : ℤ)
    (h : reachTarget d (st d.parents t.val u) u t.val (gt d.g.cap e) bf = some (d', bf')) :
    DI c s t d' (F + (bf' - bf)) ∧ 0 ≤ bf' - bf := by
  have hsn : s.val < n := s.isLt
  have hstv : t.val ≠ s.val := fun e => hst (Fin.ext e.symm)
  unfold reachTarget at h
  cases hcm : chainMin d.g (st d.parents t.val u) (d.g.numNodes + 1) u (gt d.g.cap e) with
  | none => simp [hcm] at h
  | some fl =>
    simp only [hcm] at h
    cases hau : augChain (st d.parents t.val u) fl (d.g.numNodes + 1) t.val u d.g with
    | none => simp [hau] at h
    | some r =>
      obtain ⟨g', ct⟩ := r
      simp only [hau, Option.some.injEq, Prod.mk.injEq] at h
      obtain ⟨rfl, rfl⟩ := h
      obtain ⟨_, _, hfl0, _, _, hfi', hfirst, htgt⟩ :=
        aug_valid hst hN d F hi u e lu hcu hun hre hte fl hcm g' ct hau
      have hps' : gt (st d.parents t.val u) s.val = s.val := by
        rw [gt_st_ne _ _ _ _ hstv]; exact hi.hs
      refine ⟨?_, by omega⟩
      have hFeq : F + (bf + fl - bf) = F + fl := by omega
      rw [hFeq]
      refine ⟨hfi', uniq_of_eq hi.uq hfirst htgt, revClosed_of_eq hi.rc hfirst htgt, hi.src, hi.tgt,
        by simp [hi.psz], ?_, ?_, ?_⟩
      · show gt (st (st d.parents t.val u) d.target INV) s.val = s.val
        rw [hi.tgt, gt_st_ne _ _ _ _ hstv]; exact hps'
      · show gt (st (st d.parents t.val u) d.target INV) t.val = INV
        rw [hi.tgt, gt_st_eq _ _ _ (by simp [hi.psz])]
      · intro y hy
        have hy' : y ∈ d.stack.map Prod.fst := unwind_sub _ _ _ y hy
        obtain ⟨l, hl⟩ := hi.stk y hy'
        refine ⟨l, ?_⟩
        obtain ⟨la, _, _⟩ := pchain_props hsn hi.hs hN hl
        apply pchain_congr hl
        intro x hx
        have hxt : x ≠ t.val := fun e => (la x hx).2 (e ▸ hi.ht)
        show gt (st (st d.parents t.val u) d.target INV) x = gt d.parents x
        rw [hi.tgt, gt_st_ne _ _ _ _ (fun e => hxt e.symm), gt_st_ne _ _ _ _ (fun e => hxt e.symm)]

/-- pushing the newly discovered node `v = tgt e` (parent `u`) keeps the DFS invariant -/
theorem di_push {n : Nat} {c : Fin n → Fin n → ℤ} {s t : Fin n} (hN : n ≤ INV)
    (d : Dinic) (F : ℤ) (hi : DI c s t d F) (u e : Nat) (lu : List Nat)
    (hcu : PChain n s.val d.parents u lu) (hun : u < n) (hre : InRange d.g u e)
    (hvI : gt d.parents (gt d.g.tgt e) = INV) (hvt : gt d.g.tgt e ≠ t.val) (fl : ℤ) :
    DI c s t { d with parents := st d.parents (gt d.g.tgt e) u, stack := (gt d.g.tgt e, fl) :: d.stack } F ∧
    PChain n s.val (st d.parents (gt d.g.tgt e) u) u lu ∧ gt d.g.tgt e < n ∧ gt d.g.tgt e ∉ lu ∧
    gt d.g.tgt e ≠ s.val := by
  have hgn := hi.fi.hn
  have hvn : gt d.g.tgt e < n := by
    rw [← hgn]; exact hi.fi.wf.tgtOK e (hi.fi.wf.inRange_lt (by rw [hgn]; exact hun) hre)
  obtain ⟨pa, pb, pc⟩ := pchain_props s.isLt hi.hs hN hcu
  have hvlu : gt d.g.tgt e ∉ lu := fun hm => (pa _ hm).2 hvI
  have hvs : gt d.g.tgt e ≠ s.val := by
    intro hh; rw [hh, hi.hs] at hvI
    have := s.isLt; omega
  have hcu' : PChain n s.val (st d.parents (gt d.g.tgt e) u) u lu :=
    pchain_congr hcu (fun x hx => gt_st_ne _ _ _ _ (fun e' => hvlu (e' ▸ hx)))
  have hgv : gt (st d.parents (gt d.g.tgt e) u) (gt d.g.tgt e) = u :=
    gt_st_eq _ _ _ (by rw [hi.psz]; exact hvn)
  refine ⟨?_, hcu', hvn, hvlu, hvs⟩
  refine ⟨hi.fi, hi.uq, hi.rc, hi.src, hi.tgt, by simp [hi.psz], ?_, ?_, ?_⟩
  · show gt (st d.parents (gt d.g.tgt e) u) s.val = s.val
    rw [gt_st_ne _ _ _ _ hvs]; exact hi.hs
  · show gt (st d.parents (gt d.g.tgt e) u) t.val = INV
    rw [gt_st_ne _ _ _ _ hvt]; exact hi.ht
  · intro y hy
    simp only [List.map_cons, List.mem_cons] at hy
    rcases hy with rfl | hy
    · exact ⟨gt d.g.tgt e :: lu,
        PChain.step hvs hvn (by rw [hgv]; exact hun) (by rw [hgv]; exact hcu') hvlu⟩
    · obtain ⟨l, hl⟩ := hi.stk y hy
      obtain ⟨la, _, _⟩ := pchain_props s.isLt hi.hs hN hl
      refine ⟨l, pchain_congr hl ?_⟩
      intro x hx
      show gt (st d.parents (gt d.g.tgt e) u) x = gt d.parents x
      exact gt_st_ne _ _ _ _ (fun e' => (la x hx).2 (e' ▸ hvI))

theorem dfsEdges_spec {n : Nat} {c : Fin n → Fin n → ℤ} {s t : Fin n} (hst : s ≠ t) (hN : n ≤ INV)
    (u : Nat) (flow : ℤ) (hun : u < n) (k : Nat) :
    ∀ (e : Nat) (d : Dinic) (bf : ℤ) (F : ℤ) (lu : List Nat) (d' : Dinic) (bf' : ℤ),
    DI c s t d F → PChain n s.val d.parents u lu →
    d.g.beginEdges u ≤ e → e + k ≤ d.g.beginEdges u + d.g.deg u →
    dfsEdges u flow e k d bf = some (d', bf') → DI c s t d' (F + (bf' - bf)) ∧ 0 ≤ bf' - bf := by
  induction k with
  | zero =>
    intro e d bf F lu d' bf' hi _ _ _ h
    simp only [dfsEdges, Option.some.injEq, Prod.mk.injEq] at h
    obtain ⟨rfl, rfl⟩ := h
    have : F + (bf - bf) = F := by omega
    rw [this]; exact ⟨hi, by omega⟩
  | succ k ih =>
    intro e d bf F lu d' bf' hi hcu hr1 hr2 h
    simp only [dfsEdges] at h
    split at h
    · exact ih (e + 1) d bf F lu d' bf' hi hcu (by omega) (by omega) h
    · rename_i hunm
      split at h
      · exact ih (e + 1) d bf F lu d' bf' hi hcu (by omega) (by omega) h
      · split at h
        · exact ih (e + 1) d bf F lu d' bf' hi hcu (by omega) (by omega) h
        · have hre : InRange d.g u e := ⟨hr1, by omega⟩
          have hvI : gt d.parents (gt d.g.tgt e) = INV := by
            cases Nat.decEq (gt d.parents (gt d.g.tgt e)) INV with
            | isTrue h => exact h
            | isFalse h => exact absurd h hunm
          split at h
          · rename_i hvt
            rw [hi.tgt] at hvt
            rw [hvt] at h
            exact reachTarget_spec hst hN d F hi u e lu hcu hun hre hvt bf d' bf' h
          · rename_i hvt
            rw [hi.tgt] at hvt
            obtain ⟨hi2, hcu', _, _, _⟩ := di_push hN d F hi u e lu hcu hun hre hvI hvt (min flow (gt d.g.cap e))
            exact ih (e + 1) _ bf F lu d' bf' hi2 hcu' (show d.g.beginEdges u ≤ e + 1 by omega)
              (show e + 1 + k ≤ d.g.beginEdges u + d.g.deg u by omega) h

theorem dfsLoop_spec {n : Nat} {c : Fin n → Fin n → ℤ} {s t : Fin n} (hst : s ≠ t) (hN : n ≤ INV)
    (fuel : Nat) : ∀ (d : Dinic) (bf F : ℤ) (d' : Dinic) (bf' : ℤ), DI c s t d F →
    dfsLoop fuel d bf = some (d', bf') → DI c s t d' (F + (bf' - bf)) ∧ 0 ≤ bf' - bf := by
  induction fuel with
  | zero => intro d bf F d' bf' _ h; simp [dfsLoop] at h
  | succ fuel ih =>
    intro d bf F d' bf' hi h
    simp only [dfsLoop] at h
    split at h
    · simp only [Option.some.injEq, Prod.mk.injEq] at h
      obtain ⟨rfl, rfl⟩ := h
      have : F + (bf - bf) = F := by omega
      rw [this]; exact ⟨hi, by omega⟩
    · rename_i u flow rest hstack
      obtain ⟨lu, hlu⟩ := hi.stk u (by rw [hstack]; simp)
      have hun : u < n := by
        obtain ⟨tl, rfl⟩ := pchain_head hlu
        exact ((pchain_props s.isLt hi.hs hN hlu).1 u List.mem_cons_self).1
      have hi1 : DI c s t { d with stack := rest } F :=
        ⟨hi.fi, hi.uq, hi.rc, hi.src, hi.tgt, hi.psz, hi.hs, hi.ht,
          fun y hy => hi.stk y (by rw [hstack]; exact List.mem_cons_of_mem _ hy)⟩
      cases he : dfsEdges u flow (d.g.beginEdges u) (d.g.deg u) { d with stack := rest } bf with
      | none => simp [he] at h
      | some r =>
        obtain ⟨d1, bf1⟩ := r
        simp only [he] at h
        obtain ⟨a, b⟩ := dfsEdges_spec hst hN u flow hun (d.g.deg u) (d.g.beginEdges u) _ bf F lu d1 bf1
          hi1 hlu (Nat.le_refl _) (Nat.le_refl _) he
        obtain ⟨a2, b2⟩ := ih d1 bf1 (F + (bf1 - bf)) d' bf' a h
        have : F + (bf1 - bf) + (bf' - bf1) = F + (bf' - bf) := by omega
        rw [this] at a2
        exact ⟨a2, by omega⟩

/-- what the main loop keeps between phases -/
structure DL {n : Nat} (c : Fin n → Fin n → ℤ) (s t : Fin n) (d : Dinic) (flow : ℤ) : Prop where
  fi  : FInv c s t d.g flow
  uq  : Uniq d.g
  rc  : RevClosed d.g
  src : d.source = s.val
  tgt : d.target = t.val
  psz : d.parents.size = n
  lsz : d.level.size = n

theorem dfs_spec {n : Nat} {c : Fin n → Fin n → ℤ} {s t : Fin n} (hst : s ≠ t) (hN : n ≤ INV)
    (d : Dinic) (F : ℤ) (hi : DL c s t d F) (d' : Dinic) (bf : ℤ) (h : d.dfs = some (d', bf)) :
    DL c s t d' (F + bf) ∧ 0 ≤ bf := by
  unfold Dinic.dfs at h
  simp only at h
  have hstv : t.val ≠ s.val := fun e => hst (Fin.ext e.symm)
  have hrep : ∀ x, x < n → gt (Array.replicate d.parents.size INV) x = INV := by
    intro x hx; unfold gt; simp [Array.getD_eq_getD_getElem?, hi.psz, hx]
  have hi0 : DI c s t { d with dfsCount := d.dfsCount + 1, stack := [(d.source, I32MAX)], parents := st (Array.replicate d.parents.size INV) d.source d.source } F := by
    refine ⟨hi.fi, hi.uq, hi.rc, hi.src, hi.tgt, by simp [hi.psz], ?_, ?_, ?_⟩
    · show gt (st (Array.replicate d.parents.size INV) d.source d.source) s.val = s.val
      rw [hi.src, gt_st_eq _ _ _ (by simp [hi.psz])]
    · show gt (st (Array.replicate d.parents.size INV) d.source d.source) t.val = INV
      rw [hi.src, gt_st_ne _ _ _ _ (fun e => hstv e.symm)]; exact hrep _ t.isLt
    · intro y hy
      simp only [List.map_cons, List.map_nil, List.mem_singleton] at hy
      rw [hy, hi.src]; exact ⟨[s.val], PChain.base⟩
  obtain ⟨a, b⟩ := dfsLoop_spec hst hN _ _ 0 F d' bf hi0 h
  have : F + (bf - 0) = F + bf := by omega
  rw [this] at a
  have hlsz : d'.level.size = n := by
    -- `dfs` never writes `level`
    have key : ∀ fuel (d1 : Dinic) (b1 : ℤ) (d2 : Dinic) (b2 : ℤ), dfsLoop fuel d1 b1 = some (d2, b2) →
        d2.level = d1.level := by
      intro fuel
      induction fuel with
      | zero => intro d1 b1 d2 b2 h; simp [dfsLoop] at h
      | succ fuel ih =>
        intro d1 b1 d2 b2 h
        simp only [dfsLoop] at h
        split at h
        · simp only [Option.some.injEq, Prod.mk.injEq] at h; rw [← h.1]
        · rename_i u flow rest _
          cases he : dfsEdges u flow (d1.g.beginEdges u) (d1.g.deg u) { d1 with stack := rest } b1 with
          | none => simp [he] at h
          | some r =>
            obtain ⟨d3, b3⟩ := r
            simp only [he] at h
            have h3 : d3.level = d1.level := by
              have kk : ∀ k e (dd : Dinic) (bb : ℤ) (dd' : Dinic) (bb' : ℤ),
                  dfsEdges u flow e k dd bb = some (dd', bb') → dd'.level = dd.level := by
                intro k
                induction k with
                | zero =>
                  intro e dd bb dd' bb' hh
                  simp only [dfsEdges, Option.some.injEq, Prod.mk.injEq] at hh; rw [← hh.1]
                | succ k ihk =>
                  intro e dd bb dd' bb' hh
                  simp only [dfsEdges] at hh
                  split at hh
                  · exact ihk _ _ _ _ _ hh
                  · split at hh
                    · exact ihk _ _ _ _ _ hh
                    · split at hh
                      · exact ihk _ _ _ _ _ hh
                      · split at hh
                        · unfold reachTarget at hh
                          split at hh
                          · cases hh
                          · split at hh
                            · cases hh
                            · simp only [Option.some.injEq, Prod.mk.injEq] at hh; rw [← hh.1]
                        · have h9 := ihk _ _ _ _ _ hh
                          exact h9
              have h9 := kk _ _ _ _ _ _ he
              exact h9
            rw [ih d3 b3 d2 b2 h, h3]
    rw [key _ _ _ _ _ h]; exact hi.lsz
  exact ⟨⟨a.fi, a.uq, a.rc, a.src, a.tgt, a.psz, hlsz⟩, by omega⟩

theorem dinicLoop_spec {n : Nat} {c : Fin n → Fin n → ℤ} {s t : Fin n} (hst : s ≠ t) (hN : n + 2 < INV)
    (fuel : Nat) : ∀ (d : Dinic) (flow F : ℤ) (d' : Dinic) (flow' : ℤ), DL c s t d F →
    dinicLoop fuel d flow = some (d', flow') →
    DL c s t d' (F + (flow' - flow)) ∧ ¬ ReachG d'.g s.val t.val := by
  induction fuel with
  | zero => intro d flow F d' flow' _ h; simp [dinicLoop] at h
  | succ fuel ih =>
    intro d flow F d' flow' hi h
    simp only [dinicLoop] at h
    cases hb : d.bfs with
    | none => simp [hb] at h
    | some r =>
      obtain ⟨d1, b⟩ := r
      have hgn := hi.fi.hn
      obtain ⟨b1, b2, b3, b4, b5, b6⟩ := bfs_spec d hi.fi.wf hi.uq hi.rc (by rw [hgn]; exact hN)
        (by rw [hi.lsz, hgn]) (by rw [hi.tgt, hgn]; exact t.isLt)
        (by rw [hi.src, hi.tgt]; exact fun e => hst (Fin.ext e)) d1 b hb
      have hi1 : DL c s t d1 F :=
        ⟨b1 ▸ hi.fi, b1 ▸ hi.uq, b1 ▸ hi.rc, b3 ▸ hi.src, b4 ▸ hi.tgt, b2 ▸ hi.psz, by rw [b5, hgn]⟩
      cases b with
      | false =>
        simp only [hb, Option.some.injEq, Prod.mk.injEq] at h
        obtain ⟨rfl, rfl⟩ := h
        have : F + (flow - flow) = F := by omega
        rw [this]
        refine ⟨hi1, ?_⟩
        have := b6 rfl
        rw [hi.src, hi.tgt] at this
        rw [b1]; exact this
      | true =>
        simp only [hb] at h
        cases hd : d1.dfs with
        | none => simp [hd] at h
        | some r2 =>
          obtain ⟨d2, bf⟩ := r2
          simp only [hd] at h
          obtain ⟨c1, _⟩ := dfs_spec hst (by omega) d1 F hi1 d2 bf hd
          obtain ⟨e1, e2⟩ := ih d2 (flow + bf) (F + bf) d' flow' c1 h
          have : F + bf + (flow' - (flow + bf)) = F + (flow' - flow) := by omega
          rw [this] at e1
          exact ⟨e1, e2⟩

/-- the state a finished `run` of the Dinic model ends in -/
theorem dinic_run_spec (es : List Edge) (s t : Nat) (hnn : ∀ e, e ∈ es → 0 ≤ e.cap) (hst : s ≠ t)
    (hN : nNodes (es.map toE) + 2 < INV) (d : Dinic) (hd : Dinic.fromEdgeList es s t = some d)
    (fuel : Nat) (d' : Dinic) (h : d.run fuel = some d') :
    ∃ (hs : s < nNodes (es.map toE)) (ht : t < nNodes (es.map toE)),
      FInv (cF (es.map toE) (nNodes (es.map toE))) ⟨s, hs⟩ ⟨t, ht⟩ d'.g d'.maxFlow ∧
      ¬ ReachG d'.g s t ∧ d'.finished = true := by
  unfold Dinic.fromEdgeList at hd
  split at hd
  · cases hd
  · simp only [Option.some.injEq] at hd
    subst hd
    have hm := merge_cap_dinic es hnn
    have hnum : (residualDinic es).numNodes = nNodes (es.map toE) := by rw [hm.2.1, maxId_eq_spec]; rfl
    unfold Dinic.run at h
    simp only at h
    split at h
    · cases h
    · rename_i hg
      have hguard : s < nNodes (es.map toE) ∧ t < nNodes (es.map toE) := by
        have : ¬ (s ≥ (residualDinic es).numNodes ∨ t ≥ (residualDinic es).numNodes) := hg
        rw [hnum] at this; omega
      refine ⟨hguard.1, hguard.2, ?_⟩
      have hfi := init_finv (residualDinic es) es ⟨s, hguard.1⟩ ⟨t, hguard.2⟩ hm
      obtain ⟨huq, hrc⟩ := residualDinic_uniq_rev es
      split at h
      · cases h
      · rename_i d1 flow hloop
        simp only [Option.some.injEq] at h
        subst h
        have hdl : DL (cF (es.map toE) (nNodes (es.map toE))) ⟨s, hguard.1⟩ ⟨t, hguard.2⟩
            { g := residualDinic es, maxFlow := 0, finished := false,
              level := Array.replicate (residualDinic es).numNodes INV,
              parents := Array.replicate (residualDinic es).numNodes 0, stack := [], dfsCount := 0,
              bfsCount := 0, source := s, target := t } 0 :=
          ⟨hfi, huq, hrc, rfl, rfl, by simp [hnum], by simp [hnum]⟩
        obtain ⟨a, b⟩ := dinicLoop_spec (fun e => hst (Fin.mk.inj e)) hN fuel _ 0 0 d1 flow hdl hloop
        have : (0 : ℤ) + (flow - 0) = flow := by omega
        rw [this] at a
        exact ⟨a.fi, b, rfl⟩

/-- **dinic_correct** (partial correctness): on every non-empty edge list with non-negative capacities
    a `run` of the Dinic model that returns has computed the maximum s-t flow value of the merged input
    capacities, and `max_flow()` then returns it -/
theorem dinic_correct (es : List Edge) (s t : Nat) (hnn : ∀ e, e ∈ es → 0 ≤ e.cap) (hst : s ≠ t)
    (hN : nNodes (es.map toE) + 2 < INV) (d : Dinic) (hd : Dinic.fromEdgeList es s t = some d)
    (fuel : Nat) (d' : Dinic) (h : d.run fuel = some d') :
    ∃ (hs : s < nNodes (es.map toE)) (ht : t < nNodes (es.map toE)),
      IsMaxFlowValue (cF (es.map toE) (nNodes (es.map toE))) ⟨s, hs⟩ ⟨t, ht⟩ d'.maxFlow ∧
      d'.maxFlow? = .ok d'.maxFlow := by
  obtain ⟨hs, ht, a, b, c⟩ := dinic_run_spec es s t hnn hst hN d hd fuel d' h
  refine ⟨hs, ht, finv_unreachable_max d'.g d'.maxFlow a b, ?_⟩
  unfold Dinic.maxFlow? maxFlowOut; rw [c]; rfl

/-- C02 for the Dinic model, end to end -/
theorem dinic_assignment (es : List Edge) (s t : Nat) (hnn : ∀ e, e ∈ es → 0 ≤ e.cap) (hst : s ≠ t)
    (hN : nNodes (es.map toE) + 2 < INV) (d : Dinic) (hd : Dinic.fromEdgeList es s t = some d)
    (fuel : Nat) (d' : Dinic) (h : d.run fuel = some d') (bits : Array Bool)
    (hb : d'.assignment? s = .ok bits) :
    ∃ (hs : s < nNodes (es.map toE)) (ht : t < nNodes (es.map toE)),
      let n := nNodes (es.map toE)
      let c := cF (es.map toE) n
      let A := setOf n (fun v => gt bits v)
      bits.size = n ∧ ⟨s, hs⟩ ∈ A ∧ ⟨t, ht⟩ ∉ A ∧ cutCap c A = d'.maxFlow ∧
      IsMaxFlowValue c ⟨s, hs⟩ ⟨t, ht⟩ d'.maxFlow ∧
      (∀ S' : Finset (Fin n), ⟨s, hs⟩ ∈ S' → ⟨t, ht⟩ ∉ S' → cutCap c A ≤ cutCap c S') ∧
      (∀ S' : Finset (Fin n), ⟨s, hs⟩ ∈ S' → ⟨t, ht⟩ ∉ S' → cutCap c S' = d'.maxFlow → A ⊆ S') := by
  obtain ⟨hs, ht, a, b, c⟩ := dinic_run_spec es s t hnn hst hN d hd fuel d' h
  refine ⟨hs, ht, ?_⟩
  intro n cc A
  have hb' : assignmentOut d'.g true s = .ok bits := by
    unfold Dinic.assignment? at hb; rw [c] at hb; exact hb
  obtain ⟨b1, b2, b3, b4, b5, b6⟩ := assignment_canonical d'.g d'.maxFlow a b bits hb'
  exact ⟨b1, b2, b3, b4, finv_unreachable_max d'.g d'.maxFlow a b, b5, b6⟩

end Tbx.Flow
