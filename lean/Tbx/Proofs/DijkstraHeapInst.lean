import Tbx.Proofs.DijkstraLaws
import Tbx.Proofs.AHeapInvRun
/-
Discharges the hypothesis `HeapLaws` of the Dijkstra proofs for the real heap model: the laws are
consequences of C10's representation invariant `AHeap.Inv` and its refinement theorems to the
reference queue `PQ` (`insert_refines`, `decreaseKeyData_refines`, `deleteMin_refines`, observers).
-/
namespace Tbx.Dijkstra
open Tbx Tbx.AHeap

/-! ### reference-queue lemmas: `find?` under the list operations -/

theorem find_mem {q : PQ.Q} {x : Int} {e : PQ.Entry} (h : PQ.find? q x = some e) : e ∈ q ∧ e.id = x := by
  unfold PQ.find? at h
  exact ⟨List.mem_of_find?_eq_some h, by simpa using List.find?_some h⟩

theorem find_append_single (q : PQ.Q) (e : PQ.Entry) (x : Int) :
    PQ.find? (q ++ [e]) x =
      match PQ.find? q x with
      | some e' => some e'
      | none => if e.id = x then some e else none := by
  unfold PQ.find?
  rw [List.find?_append]
  cases h : List.find? (fun e => e.id == x) q with
  | some e' => simp
  | none =>
    simp only [Option.none_or, List.find?_cons, List.find?_nil]
    by_cases hx : e.id = x
    · simp [hx]
    · have : (e.id == x) = false := by simp [hx]
      simp [hx, this]

theorem find_map (q : PQ.Q) (f : PQ.Entry → PQ.Entry) (hf : ∀ e, (f e).id = e.id) (x : Int) :
    PQ.find? (q.map f) x = (PQ.find? q x).map f := by
  unfold PQ.find?
  induction q with
  | nil => rfl
  | cons a q ih =>
    simp only [List.map_cons, List.find?_cons, hf]
    cases h : (a.id == x)
    · simpa using ih
    · rfl

/-- under the invariant every entry of the reference state is the one found for its id -/
theorem find_of_mem (s : Heap) (I : AHeap.Inv s) (e : PQ.Entry) (he : e ∈ abs s) : PQ.find? (abs s) e.id = some e := by
  obtain ⟨i, hi, rfl⟩ := (mem_abs s e).mp he
  rw [find_abs s I.idmap]
  have : lookup s.idx (ent (gt s.nodes i)).id = some i := (I.idmap _ i).mpr ⟨hi, rfl⟩
  rw [this]; rfl

theorem length_le_of_nodup_subset {l m : List Int} (hl : l.Nodup) (h : ∀ x ∈ l, x ∈ m) : l.length ≤ m.length := by
  induction l generalizing m with
  | nil => exact Nat.zero_le _
  | cons a l ih =>
    have hnd := List.nodup_cons.mp hl
    have ha : a ∈ m := h a List.mem_cons_self
    have : l.length ≤ (m.erase a).length := by
      apply ih hnd.2
      intro x hx
      have hxa : x ≠ a := fun e => hnd.1 (e ▸ hx)
      exact (List.mem_erase_of_ne hxa).mpr (h x (List.mem_cons_of_mem _ hx))
    rw [List.length_erase_of_mem ha] at this
    have hpos : 0 < m.length := List.length_pos_of_mem ha
    simp only [List.length_cons]; omega

/-! ### the laws -/

theorem heapLaws : HeapLaws AHeap.Inv where
  inv_init := fun a b => init_inv a b
  contains_inserted := by
    intro q x I h
    rw [contains_eq q I] at h; rw [inserted_eq q I]
    unfold PQ.contains at h; unfold PQ.inserted
    cases hf : PQ.find? (abs q) x with
    | none => rw [hf] at h; cases h
    | some e => rfl
  insert_ok := by
    intro q id w d I hfresh hw
    rw [inserted_eq q I] at hfresh
    obtain ⟨I', habs, _, _⟩ := insert_refines q I id w d hfresh hw
    have hnone : PQ.find? (abs q) id = none := by
      unfold PQ.inserted at hfresh
      cases hf : PQ.find? (abs q) id with
      | none => rfl
      | some e => rw [hf] at hfresh; cases hfresh
    have key : ∀ x, PQ.find? (abs (insert q id w d)) x =
        if x = id then some ⟨id, w, d, true⟩ else PQ.find? (abs q) x := by
      intro x
      rw [habs]; unfold PQ.insert
      rw [find_append_single]
      by_cases hx : x = id
      · subst hx; rw [hnone]
      · rw [if_neg hx]
        cases hf : PQ.find? (abs q) x with
        | some e' => rfl
        | none => simp only; rw [if_neg (fun h => hx h.symm)]
    refine ⟨I', ?_, ?_, ?_, ?_⟩
    · intro x
      rw [inserted_eq _ I', inserted_eq q I]; unfold PQ.inserted; rw [key]
      by_cases hx : x = id <;> simp [hx]
    · intro x
      rw [contains_eq _ I', contains_eq q I]; unfold PQ.contains; rw [key]
      by_cases hx : x = id <;> simp [hx]
    · intro x
      rw [weight_eq _ I', weight_eq q I]; unfold PQ.weight; rw [key]
      by_cases hx : x = id
      · simp [hx]
      · simp only [if_neg hx]; rfl
    · intro x
      rw [data_eq _ I', data_eq q I]; unfold PQ.data?; rw [key]
      by_cases hx : x = id <;> simp [hx]
  decd_ok := by
    intro q id w d I hc hw1 hw2
    rw [contains_eq q I] at hc
    rw [weight_eq q I] at hw2
    obtain ⟨q', e, I', habs, hmin, hmax⟩ := decreaseKeyData_refines q I id w d hc hw1 hw2
    have key : ∀ x, PQ.find? (abs q') x =
        (PQ.find? (abs q) x).map (fun e => if e.id == id then { e with weight := w, data := d } else e) := by
      intro x
      rw [habs]; unfold PQ.setData PQ.decreaseKey
      rw [find_map _ _ (by intro e; split <;> rfl), find_map _ _ (by intro e; split <;> rfl), Option.map_map]
      congr 1
      funext e
      simp only [Function.comp]
      by_cases he : (e.id == id) = true
      · simp [he]
      · simp [he]
    refine ⟨q', e, I', ?_, ?_, ?_, ?_⟩
    · intro x
      rw [inserted_eq _ I', inserted_eq q I]; unfold PQ.inserted; rw [key]; simp
    · intro x
      rw [contains_eq _ I', contains_eq q I]; unfold PQ.contains; rw [key]
      cases hf : PQ.find? (abs q) x with
      | none => rfl
      | some e0 => simp only [Option.map_some]; split <;> rfl
    · intro x
      rw [weight_eq _ I', weight_eq q I, hmax]; unfold PQ.weight; rw [key]
      cases hf : PQ.find? (abs q) x with
      | none =>
        simp only [Option.map_none]
        split
        · rename_i hx; subst hx
          unfold PQ.contains at hc; rw [hf] at hc; cases hc
        · rfl
      | some e0 =>
        have hid := (find_mem hf).2
        simp only [Option.map_some]
        by_cases hx : x = id
        · subst hx; simp [hid]
        · have : ¬ e0.id = id := by rw [hid]; exact hx
          simp [this, hx]
    · intro x
      rw [data_eq _ I', data_eq q I]; unfold PQ.data?; rw [key]
      cases hf : PQ.find? (abs q) x with
      | none =>
        simp only [Option.map_none]
        split
        · rename_i hx; subst hx
          unfold PQ.contains at hc; rw [hf] at hc; cases hc
        · rfl
      | some e0 =>
        have hid := (find_mem hf).2
        simp only [Option.map_some]
        by_cases hx : x = id
        · subst hx; simp [hid]
        · have : ¬ e0.id = id := by rw [hid]; exact hx
          simp [this, hx]
  delmin_ok := by
    intro q I hne
    have hlen : PQ.len (abs q) ≠ 0 := by
      rw [isEmpty_eq q I] at hne
      simpa using hne
    obtain ⟨q', u, e, I', hmin, habs, _, _, _⟩ := deleteMin_refines q I hlen
    obtain ⟨eu, heu, hid, hlive, hle⟩ := hmin
    have hfu : PQ.find? (abs q) u = some eu := by rw [← hid]; exact find_of_mem q I eu heu
    have key : ∀ x, PQ.find? (abs q') x =
        (PQ.find? (abs q) x).map (fun e => if e.id == u then { e with live := false } else e) := by
      intro x
      rw [habs]; unfold PQ.remove
      rw [find_map _ _ (by intro e; split <;> rfl)]
    refine ⟨q', u, e, I', ?_, ?_, ?_, ?_, ?_, ?_⟩
    · rw [contains_eq q I]; unfold PQ.contains; rw [hfu]; exact hlive
    · intro x hx
      rw [contains_eq q I] at hx
      rw [weight_eq q I, weight_eq q I]
      unfold PQ.weight; unfold PQ.contains at hx
      rw [hfu]
      cases hf : PQ.find? (abs q) x with
      | none => rw [hf] at hx; cases hx
      | some e0 =>
        rw [hf] at hx
        exact hle e0 (find_mem hf).1 hx
    · intro x
      rw [contains_eq _ I', contains_eq q I]; unfold PQ.contains; rw [key]
      cases hf : PQ.find? (abs q) x with
      | none => rfl
      | some e0 =>
        have hid0 := (find_mem hf).2
        simp only [Option.map_some]
        by_cases hx : x = u
        · subst hx; simp [hid0]
        · have : ¬ e0.id = u := by rw [hid0]; exact hx
          simp [this, hx]
    · intro x
      rw [inserted_eq _ I', inserted_eq q I]; unfold PQ.inserted; rw [key]; simp
    · intro x
      rw [weight_eq _ I', weight_eq q I]
      have : q'.wmax = q.wmax := by assumption
      rw [this]; unfold PQ.weight; rw [key]
      cases hf : PQ.find? (abs q) x with
      | none => rfl
      | some e0 => simp only [Option.map_some]; split <;> rfl
    · intro x
      rw [data_eq _ I', data_eq q I]; unfold PQ.data?; rw [key]
      cases hf : PQ.find? (abs q) x with
      | none => rfl
      | some e0 => simp only [Option.map_some]; split <;> rfl
  empty_iff := by
    intro q I
    rw [isEmpty_eq q I]
    simp only [beq_iff_eq]
    unfold PQ.len
    constructor
    · intro h x
      rw [contains_eq q I]; unfold PQ.contains
      cases hf : PQ.find? (abs q) x with
      | none => rfl
      | some e0 =>
        simp only
        cases hl : e0.live
        · rfl
        · have : e0 ∈ (abs q).filter (·.live) := List.mem_filter.mpr ⟨(find_mem hf).1, hl⟩
          rw [List.length_eq_zero_iff.mp h] at this; cases this
    · intro h
      rw [List.length_eq_zero_iff, List.filter_eq_nil_iff]
      intro e0 he0 hl
      have := h e0.id
      rw [contains_eq q I] at this; unfold PQ.contains at this
      rw [find_of_mem q I e0 he0] at this
      simp only at this
      rw [this] at hl; cases hl
  data_some := by
    intro q x I h
    rw [inserted_eq q I] at h; rw [data_eq q I]
    unfold PQ.inserted at h; unfold PQ.data?
    cases hf : PQ.find? (abs q) x with
    | none => rw [hf] at h; cases h
    | some e0 => exact ⟨e0.data, rfl⟩
  weight_wmax := by
    intro q x I h
    rw [inserted_eq q I] at h; rw [weight_eq q I]
    unfold PQ.inserted at h; unfold PQ.weight
    cases hf : PQ.find? (abs q) x with
    | none => rfl
    | some e0 => rw [hf] at h; cases h
  inserted_bound := by
    intro q l I hnd hall
    rw [insertedLen_eq q]; unfold PQ.insertedLen
    have : l.length ≤ ((abs q).map (·.id)).length := by
      apply length_le_of_nodup_subset hnd
      intro x hx
      have := hall x hx
      rw [inserted_eq q I] at this; unfold PQ.inserted at this
      cases hf : PQ.find? (abs q) x with
      | none => rw [hf] at this; cases this
      | some e0 =>
        obtain ⟨hm, hid⟩ := find_mem hf
        exact List.mem_map.mpr ⟨e0, hm, hid⟩
    simpa using this

end Tbx.Dijkstra
