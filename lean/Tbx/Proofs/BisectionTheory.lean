import Tbx.Proofs.FlowTheory
import Tbx.Proofs.BisectionCore
/-
C03: bridge from the Finset-level max-flow/min-cut facts (C01/C02: `Tbx.FlowTheory`) about a contracted
unit-capacity graph to the list-level `BisectionCore.MinCut`, and soundness of the judge's checker
(`Bisection.cutCertOK`, `Bisection.checkerOK`).
-/
open Finset
namespace Tbx.BisectionTheory
open Tbx Tbx.FlowSpec Tbx.FlowTheory Tbx.Bisection Tbx.BisectionCore

/-- the contracted unit-capacity graph of a renumbering: loops dropped -/
def contractBy (ρ : Nat → Nat) (edges : List (Nat × Nat)) : List E :=
  (edges.filter fun e => ρ e.1 != ρ e.2).map fun e => (ρ e.1, ρ e.2, 1)

theorem contract_eq (S T : List Nat) (edges : List (Nat × Nat)) :
    contract S T edges = contractBy (rho S T) edges := rfl

/-- the capacity of the input edges leaving a side of the contracted graph, counted on the input edges -/
theorem cutCapL_contractBy (ρ : Nat → Nat) (edges : List (Nat × Nat)) (inS : Nat → Bool) :
    cutCapL (contractBy ρ edges) inS = (cutE ρ edges inS : Int) := by
  unfold contractBy cutCapL cutE
  induction edges with
  | nil => simp
  | cons e es ih =>
    rw [List.countP_cons, List.filter_cons]
    by_cases h : ρ e.1 = ρ e.2
    · have hb : (ρ e.1 != ρ e.2) = false := by simp [h]
      rw [hb]
      simp only [Bool.false_eq_true, ↓reduceIte]
      rw [ih]
      have : (inS (ρ e.1) && !inS (ρ e.2)) = false := by rw [h]; cases inS (ρ e.2) <;> rfl
      simp [this]
    · have hb : (ρ e.1 != ρ e.2) = true := by simp [h]
      rw [hb]
      simp only [↓reduceIte, List.map_cons, List.sum_cons]
      rw [ih]
      by_cases hc : (inS (ρ e.1) && !inS (ρ e.2)) = true
      · simp [hc]; omega
      · have : (inS (ρ e.1) && !inS (ρ e.2)) = false := by
          cases h' : (inS (ρ e.1) && !inS (ρ e.2)) <;> simp_all
        simp [this]

theorem ids_lt_nNodes (es : List E) : ∀ e ∈ es, e.1 < nNodes es ∧ e.2.1 < nNodes es := by
  intro e he
  have := le_maxId es e he
  unfold nNodes; omega

/-- **Finset → list level**: the conclusion of the C02 theorems (`dinic_assignment_canonical`,
    `minCutOK_sound`, `cutCertOK_sound`) about the contracted graph `contractBy ρ edges` is exactly what
    `BisectionCore.valid_of_mincut` needs -/
theorem mincut_of_finset' (ρ : Nat → Nat) (edges : List (Nat × Nat)) (cell : List Nat) (dom : Nat → Bool)
    (flow : ℤ) (inB : Nat → Bool) (es : List E) (hes : contractBy ρ edges = es)
    (hs : 0 < nNodes es) (ht : 1 < nNodes es)
    (h0 : (⟨0, hs⟩ : Fin _) ∈ setOf (nNodes es) inB)
    (h1 : (⟨1, ht⟩ : Fin _) ∉ setOf (nNodes es) inB)
    (hval : cutCap (cF es (nNodes es)) (setOf (nNodes es) inB) = flow)
    (hmin : ∀ S' : Finset (Fin (nNodes es)), ⟨0, hs⟩ ∈ S' → ⟨1, ht⟩ ∉ S' →
        cutCap (cF es (nNodes es)) (setOf (nNodes es) inB) ≤ cutCap (cF es (nNodes es)) S')
    (hcan : ∀ S' : Finset (Fin (nNodes es)), ⟨0, hs⟩ ∈ S' → ⟨1, ht⟩ ∉ S' →
        cutCap (cF es (nNodes es)) S' = flow → setOf (nNodes es) inB ⊆ S') :
    MinCut edges cell ρ dom flow (fun p => decide (p < nNodes es) && inB p) := by
  generalize hn : nNodes es = n at *
  have hids : ∀ e ∈ es, e.1 < n ∧ e.2.1 < n := by rw [← hn]; exact ids_lt_nNodes es
  have hcut : ∀ inS : Nat → Bool, cutCap (cF es n) (setOf n inS) = (cutE ρ edges inS : Int) := by
    intro inS
    rw [← cutCapL_eq es n hids inS, ← hes, cutCapL_contractBy]
  have hset : setOf n (fun p => decide (p < n) && inB p) = setOf n inB := by
    ext v; simp [mem_setOf, v.isLt]
  refine ⟨?_, ?_, ?_, ?_, ?_⟩
  · have := (mem_setOf n inB _).mp h0
    simp only [Bool.and_eq_true, decide_eq_true_eq]; exact ⟨hs, this⟩
  · have : inB 1 = false := by
      cases hb : inB 1 with
      | false => rfl
      | true => exact absurd ((mem_setOf n inB ⟨1, ht⟩).mpr hb) h1
    simp [this]
  · rw [← hcut, hset, hval]
  · intro inS a b
    have := hmin (setOf n inS) ((mem_setOf n inS _).mpr a) (by rw [mem_setOf]; simp [b])
    rw [hval, hcut] at this; exact this
  · intro inS a b heq x _ _ hx
    simp only [Bool.and_eq_true, decide_eq_true_eq] at hx
    have hsub := hcan (setOf n inS) ((mem_setOf n inS _).mpr a) (by rw [mem_setOf]; simp [b])
      (by rw [hcut]; exact heq)
    have : (⟨ρ x, hx.1⟩ : Fin n) ∈ setOf n inB := (mem_setOf n inB _).mpr hx.2
    exact (mem_setOf n inS _).mp (hsub this)

theorem mincut_of_finset (ρ : Nat → Nat) (edges : List (Nat × Nat)) (cell : List Nat) (dom : Nat → Bool)
    (flow : ℤ) (inB : Nat → Bool)
    (hs : 0 < nNodes (contractBy ρ edges)) (ht : 1 < nNodes (contractBy ρ edges))
    (h0 : (⟨0, hs⟩ : Fin _) ∈ setOf (nNodes (contractBy ρ edges)) inB)
    (h1 : (⟨1, ht⟩ : Fin _) ∉ setOf (nNodes (contractBy ρ edges)) inB)
    (hval : cutCap (cF (contractBy ρ edges) (nNodes (contractBy ρ edges)))
        (setOf (nNodes (contractBy ρ edges)) inB) = flow)
    (hmin : ∀ S' : Finset (Fin (nNodes (contractBy ρ edges))), ⟨0, hs⟩ ∈ S' → ⟨1, ht⟩ ∉ S' →
        cutCap (cF (contractBy ρ edges) (nNodes (contractBy ρ edges)))
          (setOf (nNodes (contractBy ρ edges)) inB) ≤
        cutCap (cF (contractBy ρ edges) (nNodes (contractBy ρ edges))) S')
    (hcan : ∀ S' : Finset (Fin (nNodes (contractBy ρ edges))), ⟨0, hs⟩ ∈ S' → ⟨1, ht⟩ ∉ S' →
        cutCap (cF (contractBy ρ edges) (nNodes (contractBy ρ edges))) S' = flow →
        setOf (nNodes (contractBy ρ edges)) inB ⊆ S') :
    MinCut edges cell ρ dom flow (fun p => decide (p < nNodes (contractBy ρ edges)) && inB p) :=
  mincut_of_finset' ρ edges cell dom flow inB _ rfl hs ht h0 h1 hval hmin hcan

/-! ### soundness of the judge's certificate check -/

/-- every node the tree check has seen is reachable through positive residual entries -/
theorem treeOK_reach (res : List E) (n : Nat) (s : Nat) (hs : s < n) (hnn : nonnegAll res = true) :
    ∀ (tree : List (Nat × Nat)) (seen : List Nat),
      (∀ u ∈ seen, ∃ h : u < n, Reach (cF res n) ⟨s, hs⟩ ⟨u, h⟩) → treeOK res n seen tree = true →
      ∀ v ∈ seen ++ tree.map (·.2), ∃ h : v < n, Reach (cF res n) ⟨s, hs⟩ ⟨v, h⟩ := by
  intro tree
  induction tree with
  | nil => intro seen hseen _ v hv; simp at hv; exact hseen v hv
  | cons pv rest ih =>
    intro seen hseen hok v hv
    obtain ⟨p, w⟩ := pv
    simp only [treeOK, Bool.and_eq_true, decide_eq_true_eq, List.contains_iff_mem, List.any_eq_true,
      beq_iff_eq] at hok
    obtain ⟨⟨⟨hp, hw⟩, ⟨e, he, ⟨he1, he2⟩, hpos⟩⟩, hrest⟩ := hok
    obtain ⟨hpn, hpr⟩ := hseen p hp
    have hwr : Reach (cF res n) ⟨s, hs⟩ ⟨w, hw⟩ := by
      refine Reach.step hpr ?_
      have := capOf_pos res hnn e he hpos
      rw [he1, he2] at this
      exact this
    have hseen' : ∀ u ∈ w :: seen, ∃ h : u < n, Reach (cF res n) ⟨s, hs⟩ ⟨u, h⟩ := by
      intro u hu
      rcases List.mem_cons.mp hu with rfl | hu
      · exact ⟨hw, hwr⟩
      · exact hseen u hu
    apply ih (w :: seen) hseen' hrest v
    simp only [List.map_cons, List.mem_append, List.mem_cons, List.mem_map] at hv ⊢
    rcases hv with hv | hv | hv
    · exact Or.inl (Or.inr hv)
    · exact Or.inl (Or.inl hv)
    · exact Or.inr hv

/-- **the certificate check is sound**: the reported value is the maximum flow of the merged input
    capacities, the claimed side contains s, not t, is a minimum cut and is contained in every minimum cut -/
theorem cutCertOK_sound (es : List E) (s t : Nat) (res : List E) (x : ℤ) (inA : Nat → Bool)
    (tree : List (Nat × Nat)) (h : cutCertOK es s t res x inA tree = true) :
    ∃ (hs : s < nNodes es) (ht : t < nNodes es),
      IsMaxFlowValue (cF es (nNodes es)) ⟨s, hs⟩ ⟨t, ht⟩ x ∧
      ⟨s, hs⟩ ∈ setOf (nNodes es) inA ∧ ⟨t, ht⟩ ∉ setOf (nNodes es) inA ∧
      cutCap (cF es (nNodes es)) (setOf (nNodes es) inA) = x ∧
      (∀ S' : Finset (Fin (nNodes es)), ⟨s, hs⟩ ∈ S' → ⟨t, ht⟩ ∉ S' →
        cutCap (cF es (nNodes es)) (setOf (nNodes es) inA) ≤ cutCap (cF es (nNodes es)) S') ∧
      (∀ S' : Finset (Fin (nNodes es)), ⟨s, hs⟩ ∈ S' → ⟨t, ht⟩ ∉ S' →
        cutCap (cF es (nNodes es)) S' = x → setOf (nNodes es) inA ⊆ S') := by
  simp only [cutCertOK, cutCertCore, Bool.and_eq_true, decide_eq_true_eq, Bool.not_eq_eq_eq_not,
    Bool.not_true] at h
  obtain ⟨⟨⟨⟨⟨⟨⟨⟨⟨⟨⟨hs, ht⟩, _hne⟩, hnn⟩, hp⟩, hcons⟩, hval⟩, hAs⟩, hAt⟩, hcl⟩, htree⟩, hcov⟩ := h
  refine ⟨hs, ht, ?_⟩
  obtain ⟨hinv, hc, hv⟩ := cert_parts es res s t (nNodes es) hs ht hnn hp hcons
  have hsA : (⟨s, hs⟩ : Fin (nNodes es)) ∈ setOf (nNodes es) inA := (mem_setOf _ _ _).mpr hAs
  have htA : (⟨t, ht⟩ : Fin (nNodes es)) ∉ setOf (nNodes es) inA := by
    rw [mem_setOf]; simp [hAt]
  have hclosed := closedUnder_closed (nNodes es) res inA (setOf (nNodes es) inA)
    (fun v => mem_setOf _ _ v) hcl
  obtain ⟨a, b, d⟩ := closed_certificate hinv hc (setOf (nNodes es) inA) hsA htA hclosed
  have hx : value (resFlow (cF es (nNodes es)) (cF res (nNodes es))) ⟨s, hs⟩ = x := by rw [hval, ← hv]
  refine ⟨hx ▸ a, hsA, htA, by rw [← b, hx], d, ?_⟩
  intro S' hs' ht' heq
  have hf := resFlow_isFlow hinv hc
  have hsat := min_cut_saturated hf S' hs' ht' (by rw [heq, hx])
  have hcl' : Closed (cF res (nNodes es)) S' := by
    intro u hu v hv'
    have h1 := hsat u hu v (Finset.mem_compl.mpr hv')
    unfold resFlow at h1; omega
  intro v hv'
  have hin := (mem_setOf _ _ v).mp hv'
  have hmem := (allTo_iff _ _).mp hcov v.val v.isLt
  simp only [hin, Bool.not_true, Bool.false_or, List.contains_iff_mem] at hmem
  have hall := treeOK_reach res (nNodes es) s hs hnn tree [s]
    (by intro u hu; simp at hu; subst hu; exact ⟨hs, Reach.refl⟩) htree v.val
    (by simpa using hmem)
  obtain ⟨_, hr⟩ := hall
  exact reach_subset_closed S' hs' hcl' hr

theorem cutCertCore_congr (n : Nat) (c c' r r' : Nat → Nat → ℤ) (s t : Nat) (res : List E) (x : ℤ)
    (inA : Nat → Bool) (tree : List (Nat × Nat))
    (hc : ∀ u v, u < n → v < n → c u v = c' u v) (hr : ∀ u v, u < n → v < n → r u v = r' u v) :
    cutCertCore n c r s t res x inA tree = cutCertCore n c' r' s t res x inA tree := by
  by_cases hs : s < n
  · have h1 : pairOK n c r = pairOK n c' r' := by
      unfold pairOK
      apply allTo_congr; intro u hu; apply allTo_congr; intro v hv
      rw [hc u v hu hv, hc v u hv hu, hr u v hu hv, hr v u hv hu]
    have h2 : conservedOK n c r s t = conservedOK n c' r' s t := by
      unfold conservedOK
      apply allTo_congr; intro u hu
      rw [sumTo_congr n (fun v => c u v - r u v) (fun v => c' u v - r' u v)
        (fun v hv => by rw [hc u v hu hv, hr u v hu hv])]
    have h3 : valueOf n c r s = valueOf n c' r' s := by
      unfold valueOf
      exact sumTo_congr n _ _ (fun v hv => by rw [hc s v hs hv, hr s v hs hv])
    simp only [cutCertCore, h1, h2, h3]
  · simp [cutCertCore, hs]

/-- the tabulated check the judge executes is the reference check -/
theorem cutCertFast_eq (es : List E) (s t : Nat) (res : List E) (x : ℤ) (inA : Nat → Bool)
    (tree : List (Nat × Nat)) : cutCertFast es s t res x inA tree = cutCertOK es s t res x inA tree := by
  unfold cutCertFast cutCertOK
  exact cutCertCore_congr _ _ _ _ _ s t res x inA tree (fun u v hu hv => look_matOf _ es u v hu hv)
    (fun u v hu hv => look_matOf _ res u v hu hv)

/-! ### soundness of the whole checker -/

theorem take_drop_disjoint (l : List Nat) (k : Nat) (hnd : l.Nodup) (hk : 2 * k ≤ l.length) :
    ∀ x, x ∈ firstK l k → x ∉ lastK l k := by
  intro x hx hy
  unfold firstK at hx; unfold lastK at hy
  have hsub : x ∈ l.drop k := by
    have : l.drop (l.length - k) = (l.drop k).drop (l.length - k - k) := by
      rw [List.drop_drop]; congr 1; omega
    rw [this] at hy
    exact List.mem_of_mem_drop hy
  have hnd' : (l.take k ++ l.drop k).Nodup := by rw [List.take_append_drop]; exact hnd
  exact (List.nodup_append.mp hnd').2.2 x hx x hsub rfl

theorem firstK_sub (l : List Nat) (k : Nat) : ∀ x, x ∈ firstK l k → x ∈ l :=
  fun _ h => List.mem_of_mem_take h
theorem lastK_sub (l : List Nat) (k : Nat) : ∀ x, x ∈ lastK l k → x ∈ l :=
  fun _ h => List.mem_of_mem_drop h

theorem firstK_ne_nil (l : List Nat) (k : Nat) (hk : 1 ≤ k) (hl : 1 ≤ l.length) : firstK l k ≠ [] := by
  unfold firstK
  intro h
  have := congrArg List.length h
  rw [List.length_take] at this
  simp only [List.length_nil] at this
  omega

/-- the renumbering of the Spec (x ↦ x + 2 outside the two ends) is a `Contr` -/
theorem contr_rho (edges : List (Nat × Nat)) (sorted : List Nat) (k : Nat) (hpre : preOK edges sorted k = true) :
    Contr edges sorted (firstK sorted k) (lastK sorted k) (rho (firstK sorted k) (lastK sorted k))
      (fun x => (firstK sorted k).contains x || (lastK sorted k).contains x || touched edges x) := by
  simp only [preOK, Bool.and_eq_true, decide_eq_true_eq, List.all_eq_true, List.contains_iff_mem] at hpre
  obtain ⟨⟨⟨⟨hnd, hn⟩, hk1⟩, hk2⟩, hsrc⟩ := hpre
  have hdisj := take_drop_disjoint sorted k hnd hk2
  refine ⟨?_, ?_, ?_, ?_, ?_, firstK_sub sorted k, lastK_sub sorted k, hdisj,
    firstK_ne_nil sorted k hk1 (by omega)⟩
  · intro x _
    unfold rho
    simp only [List.contains_iff_mem]
    constructor
    · intro h
      by_cases hs : x ∈ firstK sorted k
      · exact hs
      · rw [if_neg hs] at h; split at h <;> omega
    · intro h; rw [if_pos h]
  · intro x _
    unfold rho
    simp only [List.contains_iff_mem]
    constructor
    · intro h
      by_cases hs : x ∈ firstK sorted k
      · rw [if_pos hs] at h; omega
      · rw [if_neg hs] at h
        by_cases ht : x ∈ lastK sorted k
        · exact ht
        · rw [if_neg ht] at h; omega
    · intro h
      rw [if_neg (fun hs => hdisj x hs h), if_pos h]
  · intro x y _ _ h2 heq
    unfold rho at h2 heq
    simp only [List.contains_iff_mem] at h2 heq
    by_cases hs : x ∈ firstK sorted k
    · rw [if_pos hs] at h2; omega
    · rw [if_neg hs] at h2 heq
      by_cases ht : x ∈ lastK sorted k
      · rw [if_pos ht] at h2; omega
      · rw [if_neg ht] at heq
        by_cases hs' : y ∈ firstK sorted k
        · rw [if_pos hs'] at heq; omega
        · rw [if_neg hs'] at heq
          by_cases ht' : y ∈ lastK sorted k
          · rw [if_pos ht'] at heq; omega
          · rw [if_neg ht'] at heq; omega
  · intro x
    simp only [Bool.or_eq_true, List.contains_iff_mem]
    constructor
    · rintro ((h | h) | h)
      · exact Or.inl h
      · exact Or.inr (Or.inl h)
      · exact Or.inr (Or.inr h)
    · rintro (h | h | h)
      · exact Or.inl (Or.inl h)
      · exact Or.inl (Or.inr h)
      · exact Or.inr h
  · intro e he; exact hsrc e he

/-- when no edge connects two different contracted nodes every side has cut 0 -/
theorem cutE_zero_of_empty (ρ : Nat → Nat) (edges : List (Nat × Nat)) (h : contractBy ρ edges = [])
    (inS : Nat → Bool) : cutE ρ edges inS = 0 := by
  have := cutCapL_contractBy ρ edges inS
  rw [h] at this
  simp [cutCapL] at this
  omega

/-- **checker_sound**: what the judge accepts satisfies the property's statement -/
theorem checker_sound (edges : List (Nat × Nat)) (sorted : List Nat) (k : Nat) (flow : ℤ)
    (left right : List Nat) (res : List E) (tree : List (Nat × Nat))
    (h : checkerOK edges sorted k flow left right res tree = true) :
    Valid edges sorted k flow left right := by
  unfold checkerOK at h
  simp only [Bool.and_eq_true] at h
  obtain ⟨⟨⟨hpre, hst⟩, hlt⟩, hcert⟩ := h
  have hc := contr_rho edges sorted k hpre
  simp only [structOK, Bool.and_eq_true, List.all_eq_true, decide_eq_true_eq, Bool.not_eq_eq_eq_not,
    Bool.not_true, List.contains_iff_mem, Bool.or_eq_true, List.mem_append] at hst
  obtain ⟨⟨⟨⟨⟨⟨⟨hdis, hlc⟩, hrc⟩, hdom⟩, hcov⟩, hendL⟩, hendR⟩, _hflow⟩ := hst
  simp only [List.all_eq_true, decide_eq_true_eq] at hlt
  let S := firstK sorted k
  let T := lastK sorted k
  let ρ := rho S T
  let n := nNodes (contract S T edges)
  let inA : Nat → Bool := fun p => decide (p < n) && sideOf edges sorted k left p
  -- the side `inA` restricted to cell nodes is exactly `left`
  have hleft_in : ∀ x, x ∈ left → inA (ρ x) = true := by
    intro x hx
    simp only [inA, Bool.and_eq_true, decide_eq_true_eq]
    refine ⟨hlt x hx, ?_⟩
    by_cases hs : x ∈ S
    · have : ρ x = 0 := by show rho S T x = 0; unfold rho; simp [hs]
      rw [this]; simp [sideOf]
    · have ht : x ∉ T := by
        intro ht
        have := hendR x ht
        have := hdis x hx
        simp_all
      have : ρ x = x + 2 := by show rho S T x = x + 2; unfold rho; simp [hs, ht]
      rw [this]
      simp only [sideOf, Bool.or_eq_true, beq_iff_eq, Bool.and_eq_true, decide_eq_true_eq,
        Bool.not_eq_eq_eq_not, Bool.not_true, List.contains_iff_mem]
      right
      refine ⟨⟨⟨by omega, ?_⟩, ?_⟩, Or.inl (by simpa using hx)⟩
      · simpa [S] using hs
      · simpa [T] using ht
  have hin_left : ∀ x, x ∈ sorted → inA (ρ x) = true → x ∈ left := by
    intro x hxc hin
    simp only [inA, Bool.and_eq_true, decide_eq_true_eq] at hin
    by_cases hs : x ∈ S
    · exact hendL x hs
    · by_cases ht : x ∈ T
      · have : ρ x = 1 := by
          show rho S T x = 1; unfold rho; simp [hs, ht]
        rw [this] at hin
        simp [sideOf] at hin
      · have : ρ x = x + 2 := by show rho S T x = x + 2; unfold rho; simp [hs, ht]
        rw [this] at hin
        have h2 := hin.2
        simp only [sideOf, Bool.or_eq_true, beq_iff_eq, Bool.and_eq_true, decide_eq_true_eq,
          Bool.not_eq_eq_eq_not, Bool.not_true, List.contains_iff_mem, Nat.add_sub_cancel] at h2
        rcases h2 with h2 | ⟨_, h2 | ⟨h2, _⟩⟩
        · omega
        · exact h2
        · have : sorted.contains x = true := by simpa using hxc
          rw [this] at h2; cases h2
  have hl : ∀ x, x ∈ left ↔ (x ∈ sorted ∧
      ((firstK sorted k).contains x || (lastK sorted k).contains x || touched edges x) = true ∧
      inA (ρ x) = true) := by
    intro x
    constructor
    · intro hx
      refine ⟨hlc x hx, ?_, hleft_in x hx⟩
      have := hdom x (Or.inl hx)
      simpa [Bool.or_eq_true, List.contains_iff_mem] using this
    · rintro ⟨a, _, b⟩; exact hin_left x a b
  have hr : ∀ x, x ∈ right ↔ (x ∈ sorted ∧
      ((firstK sorted k).contains x || (lastK sorted k).contains x || touched edges x) = true ∧
      inA (ρ x) = false) := by
    intro x
    constructor
    · intro hx
      refine ⟨hrc x hx, ?_, ?_⟩
      · have := hdom x (Or.inr hx)
        simpa [Bool.or_eq_true, List.contains_iff_mem] using this
      · cases hb : inA (ρ x) with
        | false => rfl
        | true =>
          have := hin_left x (hrc x hx) hb
          have := hdis x this
          simp_all
    · rintro ⟨a, b, c⟩
      have hb : (x ∈ firstK sorted k ∨ x ∈ lastK sorted k) ∨ touched edges x = true := by
        simpa [Bool.or_eq_true, List.contains_iff_mem] using b
      rcases hcov x a with h | h
      · rcases h with h | h
        · rw [b] at h; cases h
        · have := hleft_in x h
          rw [c] at this; cases this
      · exact h
  -- the solver facts
  have hm : MinCut edges sorted ρ
      (fun x => (firstK sorted k).contains x || (lastK sorted k).contains x || touched edges x) flow inA := by
    by_cases hempty : (contract S T edges).isEmpty = true
    · rw [if_pos hempty] at hcert
      have hflow : flow = 0 := by simpa using hcert
      have he : contractBy ρ edges = [] := by
        have : contract S T edges = [] := by simpa using hempty
        exact this
      have hn : n = 1 := by
        show nNodes (contract S T edges) = 1
        have : contract S T edges = [] := he
        rw [this]; rfl
      refine ⟨?_, ?_, ?_, ?_, ?_⟩
      · simp [inA, hn, sideOf]
      · simp [inA, hn]
      · rw [cutE_zero_of_empty ρ edges he]; simp [hflow]
      · intro inS _ _; rw [cutE_zero_of_empty ρ edges he]; simp [hflow]
      · intro inS a _ _ x _ _ hx
        simp only [inA, hn, Bool.and_eq_true, decide_eq_true_eq] at hx
        have : ρ x = 0 := by omega
        rw [this]; exact a
    · rw [if_neg hempty] at hcert
      obtain ⟨hs, ht, _, h0, h1, hval, hmin, hcan⟩ :=
        cutCertOK_sound (contract S T edges) 0 1 res flow (sideOf edges sorted k left) tree hcert
      exact mincut_of_finset ρ edges sorted _ flow (sideOf edges sorted k left) hs ht h0 h1 hval hmin hcan
  exact valid_of_mincut hc hm k rfl rfl left right hl hr

/-- the check the judge executes is the reference check -/
theorem checkerFast_eq (edges : List (Nat × Nat)) (sorted : List Nat) (k : Nat) (flow : ℤ)
    (left right : List Nat) (res : List E) (tree : List (Nat × Nat)) :
    checkerFast edges sorted k flow left right res tree = checkerOK edges sorted k flow left right res tree := by
  unfold checkerFast checkerOK
  simp only [cutCertFast_eq]

end Tbx.BisectionTheory
