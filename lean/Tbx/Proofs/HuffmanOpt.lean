import Tbx.Proofs.HuffmanOptGreedy
import Tbx.Proofs.HuffmanOptSorted
import Tbx.Proofs.HuffmanOptKraft
import Tbx.Proofs.HuffmanOptLower
import Tbx.Proofs.HuffmanOptHeap
/-
Huffman optimality, assembly.
* lower bound: a prefix-free code book satisfies Kraft's inequality (HuffmanOptKraft), and every assignment of
  lengths satisfying it costs at least the judge's greedy optimum (HuffmanOptLower: exchange + merge induction);
* the heap construction pops two minimum-weight trees per iteration (HuffmanOptHeap: std's sift algorithm keeps
  the heap order), the two-queue construction does so on sorted input (HuffmanOptSorted), hence both reach the
  greedy optimum (potential argument of HuffmanOptGreedy).
-/
namespace Tbx.Huffman
open Tbx.Spec.Huff

theorem le_sum_of_mem (ls : List Nat) (l : Nat) (h : l ∈ ls) : l ≤ ls.sum := by
  induction ls with
  | nil => cases h
  | cons a as ih =>
    rcases List.mem_cons.mp h with rfl | h
    · simp
    · have := ih h; simp; omega

/-- every prefix-free code for the table costs at least the greedy optimum, provided every (weight, length)
    assignment satisfying Kraft's inequality does (`hlow`, proved in HuffmanOptLower) -/
theorem cost_lower_bound_of
    (hlow : ∀ (L : Nat) (ps : List (Int × Nat)), ps ≠ [] → (∀ p ∈ ps, 0 ≤ p.1) → KraftLe L (ps.map (·.2)) →
      optCost (ps.map (·.1)) ≤ wsum ps)
    (v : List (Nat × Int)) (hv : v ≠ []) (hpos : ∀ e ∈ v, 0 ≤ e.2) (hnd : (v.map (·.1)).Nodup)
    (book' : Book) (hperm : (book'.map (·.1)).Perm (v.map (·.1))) (hpf : PrefixFree (book'.map (·.2))) :
    optCost (v.map (·.2)) ≤ cost v book' := by
  let ps : List (Int × Nat) := book'.map fun e => (freqOf v e.1, e.2.length)
  have hsnd : ps.map (·.2) = (book'.map (·.2)).map List.length := by
    simp only [ps, List.map_map]; rfl
  have hfst : ps.map (·.1) = (book'.map (·.1)).map (freqOf v) := by
    simp only [ps, List.map_map]; rfl
  have hv2 : (v.map (·.1)).map (freqOf v) = v.map (·.2) := by
    rw [List.map_map]
    apply List.map_congr_left
    intro e he
    exact freqOf_mem v hnd e he
  have hw : (ps.map (·.1)).Perm (v.map (·.2)) := by
    rw [hfst, ← hv2]; exact hperm.map _
  have hne : ps ≠ [] := by
    intro h0
    have : (ps.map (·.1)).length = (v.map (·.2)).length := hw.length_eq
    rw [h0] at this
    simp at this
    exact hv (List.length_eq_zero_iff.mp this.symm)
  have hnn : ∀ p ∈ ps, 0 ≤ p.1 := by
    intro p hp
    have : p.1 ∈ v.map (·.2) := hw.mem_iff.mp (List.mem_map_of_mem hp)
    obtain ⟨e, he, h2⟩ := List.mem_map.mp this
    rw [← h2]; exact hpos e he
  let L := ((book'.map (·.2)).map List.length).sum
  have hk : KraftLe L (ps.map (·.2)) := by
    rw [hsnd]
    apply prefixFree_kraft _ L hpf
    intro c hc
    exact le_sum_of_mem _ _ (List.mem_map_of_mem hc)
  have hcost : wsum ps = cost v book' := by
    simp only [wsum, cost, ps, List.map_map]; rfl
  rw [← hcost, ← optCost_perm hw]
  exact hlow L ps hne hnn hk

/-- the heap construction merges two minimum-weight trees in every iteration; the facts about the heap
    (`hpush`, `hpop`, proved in HuffmanOptHeap) are hypotheses here -/
theorem unsortedLoop_good_of
    (hpush : ∀ (a : Array Tree) (x : Tree), HeapOrd a → HeapOrd (heapPush a x))
    (hpop : ∀ (a : Array Tree) (x : Tree) (a' : Array Tree), HeapOrd a → heapPop a = some (x, a') →
      HeapOrd a' ∧ (∀ i, i < a.size → x.freq ≤ fr a i) ∧ (∀ y ∈ a'.toList, x.freq ≤ y.freq))
    (v : List (Nat × Int)) (fuel : Nat) : ∀ (a : Array Tree), HeapOrd a → Good v a.toList →
      ∀ b, unsortedLoop fuel a = some b → Good v b.toList := by
  induction fuel with
  | zero =>
    intro a ho g b h
    unfold unsortedLoop at h
    split at h
    · simp at h
    · have : b = a := by simpa using h.symm
      subst this; exact g
  | succ fuel ih =>
    intro a ho g b h
    unfold unsortedLoop at h
    split at h
    · rename_i hsz
      obtain ⟨x, a1, e1, p1, s1⟩ := heapPop_some a (by omega)
      obtain ⟨y, a2, e2, p2, s2⟩ := heapPop_some a1 (by omega)
      simp only [e1, e2] at h
      obtain ⟨ho1, _, hx⟩ := hpop a x a1 ho e1
      obtain ⟨ho2, _, hy⟩ := hpop a1 y a2 ho1 e2
      have hxy : x.freq ≤ y.freq := hx y (p2.mem_iff.mp (by simp))
      have p3 : a.toList.Perm (x :: y :: a2.toList) := ((List.Perm.cons x p2).trans p1).symm
      have g' := g.merge x y a2.toList p3 hxy hy
      exact ih _ (hpush _ _ ho2) (g'.perm (heapPush_perm a2 _).symm) b h
    · have : b = a := by simpa using h.symm
      subst this; exact g

theorem buildHeap_ord_of (hpush : ∀ (a : Array Tree) (x : Tree), HeapOrd a → HeapOrd (heapPush a x))
    (hempty : HeapOrd #[]) (v : List (Nat × Int)) : HeapOrd (buildHeap v) := by
  unfold buildHeap
  generalize leaves v = l
  suffices ∀ a, HeapOrd a → HeapOrd (l.foldl heapPush a) from this _ hempty
  induction l with
  | nil => intro a h; exact h
  | cons x l ih => intro a h; exact ih _ (hpush a x h)

theorem fromUnsorted_cost_of
    (hempty : HeapOrd #[])
    (hpush : ∀ (a : Array Tree) (x : Tree), HeapOrd a → HeapOrd (heapPush a x))
    (hpop : ∀ (a : Array Tree) (x : Tree) (a' : Array Tree), HeapOrd a → heapPop a = some (x, a') →
      HeapOrd a' ∧ (∀ i, i < a.size → x.freq ≤ fr a i) ∧ (∀ y ∈ a'.toList, x.freq ≤ y.freq))
    (v : List (Nat × Int)) (book : Book) (hnd : (v.map (·.1)).Nodup) (h : fromUnsorted v = some book) :
    cost v book = optCost (v.map (·.2)) := by
  unfold fromUnsorted at h
  split at h
  · rename_i he
    have : v = [] := by simpa using he
    subst this
    have : book = [] := by simpa using h.symm
    subst this; rfl
  · rename_i he
    have h0 : v ≠ [] := by simpa using he
    split at h
    · simp at h
    · rename_i root hr
      rw [retrieveCodebook_eq] at h
      have hb : book = codesRec root [] := by simpa using h.symm
      subst hb
      have hl : (buildHeap v).size = v.length := by
        have := (buildHeap_perm v).length_eq
        simpa [leaves] using this
      have hposl : 0 < v.length := List.length_pos_iff.mpr h0
      obtain ⟨b, eb, sb, _⟩ := unsortedLoop_some v.length (buildHeap v) (by omega) (by omega)
      have gb := unsortedLoop_good_of hpush hpop v v.length (buildHeap v) (buildHeap_ord_of hpush hempty v)
        ((Good.init v).perm (buildHeap_perm v).symm) b eb
      obtain ⟨x, b', ex, px, sx⟩ := heapPop_some b (by omega)
      have hroot : root = x := by
        simp only [unsortedTree, eb, ex, Option.map_some, Option.some.injEq] at hr
        exact hr.symm
      subst hroot
      have hb' : b'.toList = [] := by
        have : b'.size = 0 := by omega
        simpa using this
      rw [hb'] at px
      exact (gb.perm px.symm).final hnd


/-- lower bound, instantiated -/
theorem cost_lower_bound (v : List (Nat × Int)) (hv : v ≠ []) (hpos : ∀ e ∈ v, 0 ≤ e.2) (hnd : (v.map (·.1)).Nodup)
    (book' : Book) (hperm : (book'.map (·.1)).Perm (v.map (·.1))) (hpf : PrefixFree (book'.map (·.2))) :
    optCost (v.map (·.2)) ≤ cost v book' :=
  cost_lower_bound_of kraft_lower_bound v hv hpos hnd book' hperm hpf

/-- the heap construction reaches the greedy optimum (any table with distinct symbols) -/
theorem fromUnsorted_cost (v : List (Nat × Int)) (book : Book) (hnd : (v.map (·.1)).Nodup)
    (h : fromUnsorted v = some book) : cost v book = optCost (v.map (·.2)) :=
  fromUnsorted_cost_of heapOrd_empty heapPush_ord heapPop_ord v book hnd h

end Tbx.Huffman
