import Tbx.Proofs.ChipperLevel
import Tbx.Spec.Hierarchy
/-
The level-by-level run of the model computes the depth-first hierarchy of the Spec:
`levels_hier` (induction over the levels, queues annotated with the sides chosen so far) and its corollary
`run_hier` for the whole run.
-/
namespace Tbx.Chipper
open Tbx Tbx.Gen Tbx.InertialFlow Tbx.Hierarchy

/-- the Spec's cell of a job -/
def cellOf (job : Job) : Cell := { edges := job.edges, ids := job.ids }

/-- the Spec's `best` induced by the model's four-axis search -/
def specBest (B : Job → Best) : Cell → Option (List Nat × List Nat) := fun c =>
  match B { edges := c.edges, ids := c.ids } with
  | .some r => some (r.left, r.right)
  | _ => none

theorem restrict_cellOf (job : Job) (side : List Nat) : restrict (cellOf job) side = cellOf (subJob job side) := rfl

/-- the next level's annotated jobs created by one annotated job -/
def kidsP (cfg : Cfg) (B : Job → Best) (pj : List Bool × Job) : List (List Bool × Job) :=
  match B pj.2 with
  | .some res =>
    (if res.left.length > cfg.m then [(pj.1 ++ [false], subJob pj.2 res.left)] else []) ++
    (if res.right.length > cfg.m then [(pj.1 ++ [true], subJob pj.2 res.right)] else [])
  | _ => []

theorem kidsP_snd (cfg : Cfg) (B : Job → Best) (pj : List Bool × Job) :
    (kidsP cfg B pj).map (·.2) = (match B pj.2 with | .some res => children cfg pj.2 res | _ => []) := by
  unfold kidsP children
  cases B pj.2 with
  | panic => rfl
  | none => rfl
  | some res =>
    by_cases hl : res.left.length > cfg.m <;> by_cases hr : res.right.length > cfg.m <;> simp [hl, hr]

theorem stepNext_eq_kids (cfg : Cfg) (B : Job → Best) (lvl : Nat) :
    ∀ (PQ : List (List Bool × Job)) (idx : Nat),
      stepNext cfg (fun _ _ => B) lvl idx (PQ.map (·.2)) = (PQ.flatMap (kidsP cfg B)).map (·.2) := by
  intro PQ
  induction PQ with
  | nil => intro idx; rfl
  | cons pj rest ih =>
    intro idx
    simp only [List.map_cons, stepNext, List.flatMap_cons, List.map_append, ih (idx + 1)]
    rw [kidsP_snd]
    cases B pj.2 <;> rfl

theorem mem_kidsP {cfg : Cfg} {B : Job → Best} {pj pj' : List Bool × Job} (h : pj' ∈ kidsP cfg B pj) :
    ∃ res, B pj.2 = .some res ∧
      ((pj' = (pj.1 ++ [false], subJob pj.2 res.left) ∧ res.left.length > cfg.m) ∨
       (pj' = (pj.1 ++ [true], subJob pj.2 res.right) ∧ res.right.length > cfg.m)) := by
  unfold kidsP at h
  cases hb : B pj.2 with
  | panic => rw [hb] at h; simp at h
  | none => rw [hb] at h; simp at h
  | some res =>
    rw [hb] at h
    refine ⟨res, rfl, ?_⟩
    simp only [] at h
    rcases List.mem_append.mp h with h | h
    · by_cases hl : res.left.length > cfg.m
      · simp only [hl, if_true, List.mem_singleton] at h; exact Or.inl ⟨h, hl⟩
      · simp [hl] at h
    · by_cases hr : res.right.length > cfg.m
      · simp only [hr, if_true, List.mem_singleton] at h; exact Or.inr ⟨h, hr⟩
      · simp [hr] at h

theorem pairwise_disj_unique {Q : List Job} (hd : Q.Pairwise Disj) {j1 j2 : Job} {x : Nat}
    (h1 : j1 ∈ Q) (h2 : j2 ∈ Q) (hx1 : x ∈ j1.ids) (hx2 : x ∈ j2.ids) : j1 = j2 := by
  induction Q with
  | nil => cases h1
  | cons a rest ih =>
    obtain ⟨hhead, htail⟩ := List.pairwise_cons.mp hd
    rcases List.mem_cons.mp h1 with e1 | h1'
    · rcases List.mem_cons.mp h2 with e2 | h2'
      · rw [e1, e2]
      · subst e1; exact absurd hx2 (hhead j2 h2' x hx1)
    · rcases List.mem_cons.mp h2 with e2 | h2'
      · subst e2; exact absurd hx1 (hhead j1 h1' x hx2)
      · exact ih htail h1' h2'

/-! ### the effect of one level on one node -/

theorem stepId_not_mem (cfg : Cfg) (B : Job → Best) (lvl n : Nat) (hbest : BestOK n (fun _ _ => B)) (x : Nat) :
    ∀ (Q : List Job) (idx old : Nat), (∀ job ∈ Q, JobOK n job) → (∀ job ∈ Q, x ∉ job.ids) →
      stepId cfg (fun _ _ => B) lvl idx Q x old = old := by
  intro Q
  induction Q with
  | nil => intro idx old _ _; rfl
  | cons job rest ih =>
    intro idx old hjobs hx
    have hjob := hjobs job List.mem_cons_self
    unfold stepId
    cases hb : B job with
    | panic => simp only []; exact ih _ _ (fun j hj => hjobs j (List.mem_cons_of_mem _ hj)) (fun j hj => hx j (List.mem_cons_of_mem _ hj))
    | none => simp only []; exact ih _ _ (fun j hj => hjobs j (List.mem_cons_of_mem _ hj)) (fun j hj => hx j (List.mem_cons_of_mem _ hj))
    | some res =>
      simp only []
      have hres := hbest lvl idx job res hjob hb
      rw [newId_of_not_mem _ _ _ _ _ (fun h => hx job List.mem_cons_self (hres.sub x h))]
      exact ih _ _ (fun j hj => hjobs j (List.mem_cons_of_mem _ hj)) (fun j hj => hx j (List.mem_cons_of_mem _ hj))

theorem stepId_mem (cfg : Cfg) (B : Job → Best) (lvl n : Nat) (hbest : BestOK n (fun _ _ => B)) (x : Nat) (job : Job) :
    ∀ (Q : List Job) (idx old : Nat), (∀ j ∈ Q, JobOK n j) → Q.Pairwise Disj → job ∈ Q → x ∈ job.ids →
      stepId cfg (fun _ _ => B) lvl idx Q x old =
        (match B job with | .some res => newId cfg lvl res x old | _ => old) := by
  intro Q
  induction Q with
  | nil => intro idx old _ _ h; cases h
  | cons a rest ih =>
    intro idx old hjobs hd hmem hx
    obtain ⟨hhead, htail⟩ := List.pairwise_cons.mp hd
    have hrest : ∀ j ∈ rest, JobOK n j := fun j hj => hjobs j (List.mem_cons_of_mem _ hj)
    rcases List.mem_cons.mp hmem with rfl | hmem
    · -- the job itself: later jobs do not contain x
      have hno : ∀ j ∈ rest, x ∉ j.ids := fun j hj => hhead j hj x hx
      unfold stepId
      cases hb : B job with
      | panic => simp only []; exact stepId_not_mem cfg B lvl n hbest x rest _ _ hrest hno
      | none => simp only []; exact stepId_not_mem cfg B lvl n hbest x rest _ _ hrest hno
      | some res => simp only []; exact stepId_not_mem cfg B lvl n hbest x rest _ _ hrest hno
    · have hxa : x ∉ a.ids := fun h => hhead job hmem x h hx
      have ha := hjobs a List.mem_cons_self
      unfold stepId
      cases hb : B a with
      | panic => simp only []; exact ih _ _ hrest htail hmem hx
      | none => simp only []; exact ih _ _ hrest htail hmem hx
      | some res =>
        simp only []
        have hres := hbest lvl idx a res ha hb
        rw [newId_of_not_mem _ _ _ _ _ (fun h => hxa (hres.sub x h))]
        exact ih _ _ hrest htail hmem hx

/-! ### the main induction -/

theorem specSides_succ (B : Job → Best) (m d : Nat) (job : Job) (x : Nat) :
    specSides (specBest B) m (d + 1) (cellOf job) x =
      (match B job with
       | .some res =>
         if res.left.contains x then
           false :: (if res.left.length > m then specSides (specBest B) m d (cellOf (subJob job res.left)) x
                     else List.replicate d false)
         else if res.right.contains x then
           true :: (if res.right.length > m then specSides (specBest B) m d (cellOf (subJob job res.right)) x
                    else List.replicate d true)
         else []
       | _ => []) := by
  conv => lhs; unfold specSides
  have : specBest B (cellOf job) = (match B job with | .some r => some (r.left, r.right) | _ => none) := rfl
  rw [this]
  cases B job with
  | panic => rfl
  | none => rfl
  | some res => simp only [restrict_cellOf]

theorem levels_hier (cfg : Cfg) (B : Job → Best) (n : Nat) (hm : 1 ≤ cfg.m)
    (hbest : BestOK n (fun _ _ => B)) :
    ∀ (fuel lvl : Nat) (pid : Array Nat) (PQ : List (List Bool × Job)) (out : Array Nat × List (List Job)),
      lvl + fuel = cfg.r → pid.size = n → QueueOK n (PQ.map (·.2)) →
      (∀ pj ∈ PQ, ∀ x ∈ pj.2.ids, gt pid x = idOfSides pj.1) →
      levels cfg (fun _ _ => B) fuel lvl pid (PQ.map (·.2)) = some out →
      (∀ pj ∈ PQ, ∀ x ∈ pj.2.ids,
        gt out.1 x = idOfSides (pj.1 ++ specSides (specBest B) cfg.m fuel (cellOf pj.2) x)) ∧
      (∀ x, (∀ pj ∈ PQ, x ∉ pj.2.ids) → gt out.1 x = gt pid x) := by
  intro fuel
  induction fuel with
  | zero =>
    intro lvl pid PQ out _ _ _ hid h
    simp only [levels, Option.some.injEq] at h
    subst h
    refine ⟨?_, fun _ _ => rfl⟩
    intro pj hpj x hx
    simp [specSides, hid pj hpj x hx]
  | succ fuel ih =>
    intro lvl pid PQ out hr hsz hQ hid h
    unfold levels at h
    by_cases he : (PQ.map (·.2)).isEmpty
    · have : PQ = [] := by simpa using he
      subst this
      rw [if_pos he] at h
      simp only [Option.some.injEq] at h
      subst h
      exact ⟨(fun pj hpj => absurd hpj List.not_mem_nil), fun _ _ => rfl⟩
    · rw [if_neg he] at h
      cases hp : levelStep cfg (fun _ _ => B) lvl 0 pid (PQ.map (·.2)) with
      | none => rw [hp] at h; cases h
      | some p =>
        rw [hp] at h
        simp only [] at h
        obtain ⟨s1, s2, s3⟩ := levelStep_spec cfg _ lvl n hbest _ 0 pid p hsz hQ.jobs hp
        cases hq : levels cfg (fun _ _ => B) fuel (lvl + 1) p.1 p.2 with
        | none => rw [hq] at h; cases h
        | some q =>
          rw [hq] at h
          simp only [Option.some.injEq] at h
          subst h
          simp only []
          -- the annotated next queue
          have hnext : p.2 = ((PQ.flatMap (kidsP cfg B)).map (·.2)) := by
            rw [s2, stepNext_eq_kids]
          have hQ' : QueueOK n ((PQ.flatMap (kidsP cfg B)).map (·.2)) := by
            rw [← hnext, s2]; exact (stepNext_queueOK cfg _ lvl n hm hbest _ 0 hQ).1
          -- the id of a node of an annotated job after this level
          have hstep : ∀ pj ∈ PQ, ∀ x ∈ pj.2.ids,
              gt p.1 x = (match B pj.2 with
                          | .some res => newId cfg lvl res x (idOfSides pj.1) | _ => idOfSides pj.1) := by
            intro pj hpj x hx
            rw [s3 x, stepId_mem cfg B lvl n hbest x pj.2 _ 0 _ hQ.jobs hQ.disj
              (List.mem_map.mpr ⟨pj, hpj, rfl⟩) hx, hid pj hpj x hx]
          have hstepN : ∀ x, (∀ pj ∈ PQ, x ∉ pj.2.ids) → gt p.1 x = gt pid x := by
            intro x hx
            rw [s3 x]
            apply stepId_not_mem cfg B lvl n hbest x _ 0 _ hQ.jobs
            intro job hj
            obtain ⟨pj, hpj, rfl⟩ := List.mem_map.mp hj
            exact hx pj hpj
          -- a node of a kid
          have hkid : ∀ pj' ∈ PQ.flatMap (kidsP cfg B), ∀ x ∈ pj'.2.ids, gt p.1 x = idOfSides pj'.1 := by
            intro pj' hpj' x hx
            obtain ⟨pj, hpj, hk⟩ := List.mem_flatMap.mp hpj'
            obtain ⟨res, hb, hcase⟩ := mem_kidsP hk
            have hjob := hQ.jobs pj.2 (List.mem_map.mpr ⟨pj, hpj, rfl⟩)
            have hres := hbest lvl 0 pj.2 res hjob hb
            obtain ⟨_, _, hdisj⟩ := List.nodup_append.mp hres.nodup
            rcases hcase with ⟨rfl, hl⟩ | ⟨rfl, hrr⟩
            · have hxL : x ∈ res.left := hx
              have hxj : x ∈ pj.2.ids := hres.sub x (List.mem_append_left _ hxL)
              rw [hstep pj hpj x hxj, hb]
              simp only [newId, hxL, if_true, hl]
              rw [idOfSides_snoc]; rfl
            · have hxR : x ∈ res.right := hx
              have hxL : x ∉ res.left := fun h => hdisj x h x hxR rfl
              have hxj : x ∈ pj.2.ids := hres.sub x (List.mem_append_right _ hxR)
              rw [hstep pj hpj x hxj, hb]
              simp only [newId, hxL, hxR, if_true, if_false, hrr]
              rw [idOfSides_snoc]; rfl
          obtain ⟨c1, c2⟩ := ih (lvl + 1) p.1 (PQ.flatMap (kidsP cfg B)) q (by omega) s1 hQ' hkid
            (by rw [← hnext]; exact hq)
          -- which kid (if any) contains a node of an annotated job
          have hwhich : ∀ pj ∈ PQ, ∀ x ∈ pj.2.ids, ∀ pj' ∈ PQ.flatMap (kidsP cfg B), x ∈ pj'.2.ids →
              ∃ res, B pj.2 = .some res ∧
                ((pj'.2 = subJob pj.2 res.left ∧ x ∈ res.left ∧ res.left.length > cfg.m) ∨
                 (pj'.2 = subJob pj.2 res.right ∧ x ∈ res.right ∧ res.right.length > cfg.m)) := by
            intro pj hpj x hx pj' hpj' hx'
            obtain ⟨pj2, hpj2, hk⟩ := List.mem_flatMap.mp hpj'
            obtain ⟨res, hb, hcase⟩ := mem_kidsP hk
            have hjob2 := hQ.jobs pj2.2 (List.mem_map.mpr ⟨pj2, hpj2, rfl⟩)
            have hres := hbest lvl 0 pj2.2 res hjob2 hb
            have hx2 : x ∈ pj2.2.ids := by
              rcases hcase with ⟨rfl, _⟩ | ⟨rfl, _⟩
              · exact hres.sub x (List.mem_append_left _ hx')
              · exact hres.sub x (List.mem_append_right _ hx')
            have heq : pj2.2 = pj.2 := pairwise_disj_unique hQ.disj
              (List.mem_map.mpr ⟨pj2, hpj2, rfl⟩) (List.mem_map.mpr ⟨pj, hpj, rfl⟩) hx2 hx
            rw [heq] at hb
            refine ⟨res, hb, ?_⟩
            rcases hcase with ⟨rfl, hl⟩ | ⟨rfl, hrr⟩
            · exact Or.inl ⟨by rw [heq], hx', hl⟩
            · exact Or.inr ⟨by rw [heq], hx', hrr⟩
          have hdiff : cfg.r - lvl - 1 = fuel := by omega
          refine ⟨?_, ?_⟩
          · intro pj hpj x hx
            have hjob := hQ.jobs pj.2 (List.mem_map.mpr ⟨pj, hpj, rfl⟩)
            rw [specSides_succ]
            cases hb : B pj.2 with
            | panic =>
              simp only [List.append_nil]
              have hno : ∀ pj' ∈ PQ.flatMap (kidsP cfg B), x ∉ pj'.2.ids := by
                intro pj' hpj' hx'
                obtain ⟨res, hb', _⟩ := hwhich pj hpj x hx pj' hpj' hx'
                rw [hb] at hb'; cases hb'
              rw [c2 x hno, hstep pj hpj x hx, hb]
            | none =>
              simp only [List.append_nil]
              have hno : ∀ pj' ∈ PQ.flatMap (kidsP cfg B), x ∉ pj'.2.ids := by
                intro pj' hpj' hx'
                obtain ⟨res, hb', _⟩ := hwhich pj hpj x hx pj' hpj' hx'
                rw [hb] at hb'; cases hb'
              rw [c2 x hno, hstep pj hpj x hx, hb]
            | some res =>
              simp only []
              have hres := hbest lvl 0 pj.2 res hjob hb
              obtain ⟨_, _, hdisj⟩ := List.nodup_append.mp hres.nodup
              by_cases hxL : x ∈ res.left
              · have hcL : res.left.contains x = true := List.contains_iff_mem.mpr hxL
                simp only [hcL, if_true]
                by_cases hl : res.left.length > cfg.m
                · simp only [hl, if_true]
                  have hmem : (pj.1 ++ [false], subJob pj.2 res.left) ∈ PQ.flatMap (kidsP cfg B) := by
                    refine List.mem_flatMap.mpr ⟨pj, hpj, ?_⟩
                    unfold kidsP; rw [hb]; simp [hl]
                  have := c1 _ hmem x hxL
                  simpa using this
                · simp only [hl, if_false]
                  have hno : ∀ pj' ∈ PQ.flatMap (kidsP cfg B), x ∉ pj'.2.ids := by
                    intro pj' hpj' hx'
                    obtain ⟨res', hb', hc⟩ := hwhich pj hpj x hx pj' hpj' hx'
                    rw [hb] at hb'; cases hb'
                    rcases hc with ⟨_, _, hl'⟩ | ⟨_, hxR, _⟩
                    · exact hl hl'
                    · exact hdisj x hxL x hxR rfl
                  rw [c2 x hno, hstep pj hpj x hx, hb]
                  simp only [newId, hxL, if_true, hl, if_false, hdiff]
                  have e1 : pidMakeLeftChild (idOfSides pj.1) = idOfSides (pj.1 ++ [false]) := by
                    rw [idOfSides_snoc]; rfl
                  rw [e1, leftmost_eq]
                  simp
              · have hcL : res.left.contains x = false := by
                  cases hc : res.left.contains x with
                  | false => rfl
                  | true => exact absurd (List.contains_iff_mem.mp hc) hxL
                simp only [hcL]
                by_cases hxR : x ∈ res.right
                · have hcR : res.right.contains x = true := List.contains_iff_mem.mpr hxR
                  simp only [hcR, if_true]
                  by_cases hrr : res.right.length > cfg.m
                  · simp only [hrr, if_true]
                    have hmem : (pj.1 ++ [true], subJob pj.2 res.right) ∈ PQ.flatMap (kidsP cfg B) := by
                      refine List.mem_flatMap.mpr ⟨pj, hpj, ?_⟩
                      unfold kidsP; rw [hb]; simp [hrr]
                    have := c1 _ hmem x hxR
                    simpa using this
                  · simp only [hrr, if_false]
                    have hno : ∀ pj' ∈ PQ.flatMap (kidsP cfg B), x ∉ pj'.2.ids := by
                      intro pj' hpj' hx'
                      obtain ⟨res', hb', hc⟩ := hwhich pj hpj x hx pj' hpj' hx'
                      rw [hb] at hb'; cases hb'
                      rcases hc with ⟨_, hxL', _⟩ | ⟨_, _, hr'⟩
                      · exact hxL hxL'
                      · exact hrr hr'
                    rw [c2 x hno, hstep pj hpj x hx, hb]
                    simp only [newId, hxL, hxR, if_true, if_false, hrr, hdiff]
                    have e1 : pidMakeRightChild (idOfSides pj.1) = idOfSides (pj.1 ++ [true]) := by
                      rw [idOfSides_snoc]; rfl
                    rw [e1, rightmost_eq]
                    simp
                · have hcR : res.right.contains x = false := by
                    cases hc : res.right.contains x with
                    | false => rfl
                    | true => exact absurd (List.contains_iff_mem.mp hc) hxR
                  simp only [hcR]
                  have hno : ∀ pj' ∈ PQ.flatMap (kidsP cfg B), x ∉ pj'.2.ids := by
                    intro pj' hpj' hx'
                    obtain ⟨res', hb', hc⟩ := hwhich pj hpj x hx pj' hpj' hx'
                    rw [hb] at hb'; cases hb'
                    rcases hc with ⟨_, hxL', _⟩ | ⟨_, hxR', _⟩
                    · exact hxL hxL'
                    · exact hxR hxR'
                  rw [c2 x hno, hstep pj hpj x hx, hb]
                  simp [newId, hxL, hxR]
          · intro x hx
            have hno : ∀ pj' ∈ PQ.flatMap (kidsP cfg B), x ∉ pj'.2.ids := by
              intro pj' hpj' hx'
              obtain ⟨pj2, hpj2, hk⟩ := List.mem_flatMap.mp hpj'
              obtain ⟨res, hb, hcase⟩ := mem_kidsP hk
              have hjob2 := hQ.jobs pj2.2 (List.mem_map.mpr ⟨pj2, hpj2, rfl⟩)
              have hres := hbest lvl 0 pj2.2 res hjob2 hb
              rcases hcase with ⟨rfl, _⟩ | ⟨rfl, _⟩
              · exact hx pj2 hpj2 (hres.sub x (List.mem_append_left _ hx'))
              · exact hx pj2 hpj2 (hres.sub x (List.mem_append_right _ hx'))
            rw [c2 x hno, hstepN x hx]

/-- the whole run: every node's id reads as the sides the Spec's recursion chooses -/
theorem run_hier (cfg : Cfg) (B : Job → Best) (edges : List Edge) (n : Nat) (hm : 1 ≤ cfg.m) (hn : 2 ≤ n)
    (hsrc : ∀ e ∈ edges, e.1 < n) (hsmall : 2 * edges.length + 6 < Tbx.Flow.INV)
    (hbest : BestOK n (fun _ _ => B))
    (out : Array Nat × List (List Job)) (h : runWith cfg (fun _ _ => B) edges n = some out) :
    ∀ x, x < n → gt out.1 x =
      specId (specBest B) cfg.m cfg.r { edges := edges, ids := List.range n } x := by
  intro x hx
  unfold runWith at h
  have hroot := root_queueOK edges n hn hsrc hsmall
  have := (levels_hier cfg B n hm hbest cfg.r 0 (Array.replicate n 1)
    [([], { edges := edges, ids := List.range n })] out (by omega) (by simp) (by simpa using hroot)
    (by
      intro pj hpj y hy
      simp only [List.mem_singleton] at hpj
      subst hpj
      have hy' : y < n := List.mem_range.mp hy
      simp [gt, idOfSides, hy'])
    (by simpa using h)).1 _ (List.mem_singleton.mpr rfl) x (List.mem_range.mpr hx)
  simpa [specId, cellOf] using this

end Tbx.Chipper
