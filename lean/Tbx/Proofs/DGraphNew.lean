import Tbx.Proofs.DGraphBasic
import Tbx.Proofs.SGraphSpec
/-
The dynamic graph's constructor establishes the invariant and represents its (sorted) input.
-/
namespace Tbx.DG
open Tbx
open Tbx.SG (InEdge EEntry maxId skipLoop cntLt SortedBySrc)

/-! ### the constructor -/

theorem cntLt_mono' (inp : List InEdge) (i j : Nat) (h : i ≤ j) : cntLt inp i ≤ cntLt inp j := by
  induction j with
  | zero => have : i = 0 := by omega
            subst this; exact Nat.le_refl _
  | succ j ih =>
    by_cases c : i = j + 1
    · subst c; exact Nat.le_refl _
    · exact Nat.le_trans (ih (by omega)) (SG.cntLt_mono inp j)

/-- the constructor's `for` loop: entry `j < i` is `(offset j, offset (j+1) - offset j)`, the last
    entry pushed so far is `(offset i, 0)` -/
theorem offsetsLoop_spec (inp : List InEdge) (hs : SortedBySrc inp) (k i off : Nat) (acc : Array NEntry)
    (hoff : off = cntLt inp i) (hsz : acc.size = i + 1)
    (hacc : ∀ j, j < i → gt acc j = ⟨cntLt inp j, cntLt inp (j + 1) - cntLt inp j⟩)
    (hlast : gt acc i = ⟨cntLt inp i, 0⟩) :
    (offsetsLoop inp k i off off acc).size = i + 1 + k ∧
    (∀ j, j < i + k → gt (offsetsLoop inp k i off off acc) j = ⟨cntLt inp j, cntLt inp (j + 1) - cntLt inp j⟩) ∧
    gt (offsetsLoop inp k i off off acc) (i + k) = ⟨cntLt inp (i + k), 0⟩ := by
  induction k generalizing i off acc with
  | zero => simp only [offsetsLoop]; exact ⟨by omega, fun j hj => hacc j (by omega), hlast⟩
  | succ k ih =>
    simp only [offsetsLoop]
    have hsk : skipLoop inp i (inp.length - off) off = cntLt inp (i + 1) :=
      SG.skipLoop_eq inp hs i _ off (by omega) (by rw [hoff]; exact SG.cntLt_mono inp i) (Nat.le_refl _)
    rw [hsk]
    have hidx : acc.size - 1 = i := by omega
    have hst : st acc (acc.size - 1) { gt acc (acc.size - 1) with count := cntLt inp (i + 1) - off } =
        st acc i { first := cntLt inp i, count := cntLt inp (i + 1) - off } := by rw [hidx, hlast]
    rw [hst]
    have := ih (i + 1) (cntLt inp (i + 1))
      ((st acc i { first := cntLt inp i, count := cntLt inp (i + 1) - off }).push ⟨cntLt inp (i + 1), 0⟩)
      rfl (by simp [hsz])
      (by
        intro j hj
        rw [gt_push_lt (st acc i { first := cntLt inp i, count := cntLt inp (i + 1) - off }) _ _ (by simp; omega)]
        by_cases e : j = i
        · subst e; rw [gt_st_eq _ _ _ (by omega), hoff]
        · rw [gt_st_ne _ _ _ _ (fun h => e h.symm)]; exact hacc j (by omega))
      (by
        have e := gt_push_eq (st acc i { first := cntLt inp i, count := cntLt inp (i + 1) - off })
          (⟨cntLt inp (i + 1), 0⟩ : NEntry)
        rw [size_st, hsz] at e; exact e)
    refine ⟨by omega, ?_, ?_⟩
    · intro j hj; exact this.2.1 j (by omega)
    · have e : i + (k + 1) = i + 1 + k := by omega
      rw [e]; exact this.2.2

theorem nfsl_nodes (n : Nat) (inp : List InEdge) (hs : SortedBySrc inp) (hsrc : ∀ x ∈ inp, x.src < n) :
    (newFromSortedList n inp).nodes.size = n + 2 ∧
    (∀ j, j < n → gt (newFromSortedList n inp).nodes j = ⟨cntLt inp j, cntLt inp (j + 1) - cntLt inp j⟩) ∧
    (∀ j, n ≤ j → (gt (newFromSortedList n inp).nodes j).count = 0) ∧
    (∀ j, n ≤ j → j < n + 2 → (gt (newFromSortedList n inp).nodes j).first = inp.length) := by
  have h := offsetsLoop_spec inp hs n 0 0 #[⟨0, 0⟩] (SG.cntLt_zero inp).symm (by simp)
    (fun j hj => by omega) (by simp [gt, SG.cntLt_zero])
  have hall : cntLt inp n = inp.length := SG.cntLt_all inp n hsrc
  simp only [Nat.zero_add] at h
  have hnodes : (newFromSortedList n inp).nodes = (offsetsLoop inp n 0 0 0 #[⟨0, 0⟩]).push ⟨inp.length, 0⟩ := rfl
  rw [hnodes]
  refine ⟨by simp [h.1]; omega, ?_, ?_, ?_⟩
  · intro j hj
    rw [gt_push_lt _ _ _ (by rw [h.1]; omega)]
    exact h.2.1 j hj
  · intro j hj
    by_cases c1 : j = n
    · subst c1; rw [gt_push_lt _ _ _ (by rw [h.1]; omega), h.2.2]
    · by_cases c2 : j = n + 1
      · have : j = (offsetsLoop inp n 0 0 0 #[⟨0, 0⟩]).size := by rw [h.1]; omega
        rw [this, gt_push_eq]
      · rw [gt_of_ge _ _ (by simp [h.1]; omega)]; rfl
  · intro j hj hj2
    by_cases c1 : j = n
    · subst c1; rw [gt_push_lt _ _ _ (by rw [h.1]; omega), h.2.2]; exact hall
    · have : j = (offsetsLoop inp n 0 0 0 #[⟨0, 0⟩]).size := by rw [h.1]; omega
      rw [this, gt_push_eq]

theorem sumCounts_telescope (inp : List InEdge) (nodes : Array NEntry) (n : Nat)
    (h : ∀ j, j < n → gt nodes j = ⟨cntLt inp j, cntLt inp (j + 1) - cntLt inp j⟩) :
    sumCounts nodes n = cntLt inp n := by
  induction n with
  | zero => simp [sumCounts, SG.cntLt_zero]
  | succ n ih =>
    simp only [sumCounts]
    rw [ih (fun j hj => h j (by omega)), h n (by omega)]
    have := SG.cntLt_mono inp n
    simp only; omega

/-- `new_from_sorted_list(n, input)` establishes the invariant and represents the input
    (domain: sorted by source, sources below `n`, targets not `usize::MAX`) -/
theorem nfsl_inv (n : Nat) (inp : List InEdge) (hs : SortedBySrc inp)
    (hsrc : ∀ x ∈ inp, x.src < n) (htgt : ∀ x ∈ inp, x.tgt ≠ maxId) :
    Inv (newFromSortedList n inp) ∧
    ∀ v, adjM (newFromSortedList n inp) v = (inp.filter fun e => e.src == v).map fun e => (e.tgt, e.data) := by
  obtain ⟨hsz, hlt, hge, hfirst⟩ := nfsl_nodes n inp hs hsrc
  have hall : cntLt inp n = inp.length := SG.cntLt_all inp n hsrc
  have hnn : (newFromSortedList n inp).numNodes = n := rfl
  have hne : (newFromSortedList n inp).numEdges = inp.length := rfl
  have hed : (newFromSortedList n inp).edges = (inp.map fun e => (⟨e.tgt, e.data⟩ : EEntry)).toArray := rfl
  have hesz : (newFromSortedList n inp).edges.size = inp.length := by rw [hed]; simp
  have ow : ∀ v e, owns (newFromSortedList n inp) v e → v < n ∧ cntLt inp v ≤ e ∧ e < cntLt inp (v + 1) := by
    intro v e ho
    unfold owns at ho
    by_cases c : v < n
    · rw [hlt v c] at ho
      have := SG.cntLt_mono inp v
      simp only at ho
      exact ⟨c, ho.1, by omega⟩
    · have := hge v (by omega); omega
  have getE : ∀ e, e < inp.length → (gt (newFromSortedList n inp).edges e).tgt = (inp.getD e default).tgt := by
    intro e he
    rw [hed, SG.gt_toArray]
    rw [SG.getD_eq _ _ _ (by simpa using he), SG.getD_eq _ _ _ he]
    simp
  refine ⟨⟨?_, ?_, ?_, ?_, ?_, ?_, ?_⟩, ?_⟩
  · rw [hsz, hnn]
  · intro v hv
    rw [hesz]
    by_cases c : v < n
    · rw [hlt v c]
      have := SG.cntLt_mono inp v
      have := SG.cntLt_le_length inp (v + 1)
      simp only; omega
    · rw [hsz] at hv
      rw [hge v (by omega), hfirst v (by omega) hv]; omega
  · intro v hv; exact hge v hv
  · intro u v e h1 h2
    have a := ow u e h1
    have b := ow v e h2
    rcases Nat.lt_trichotomy u v with c | c | c
    · have := cntLt_mono' inp (u + 1) v (by omega); omega
    · exact c
    · have := cntLt_mono' inp (v + 1) u (by omega); omega
  · intro v e ho
    have a := ow v e ho
    have hlen : e < inp.length := by have := SG.cntLt_le_length inp (v + 1); omega
    rw [getE e hlen]
    apply htgt
    rw [SG.getD_eq _ _ _ hlen]; exact List.getElem_mem hlen
  · intro e he _
    rw [hesz] at he
    have hm : inp.getD e default ∈ inp := by rw [SG.getD_eq _ _ _ he]; exact List.getElem_mem he
    have hv := hsrc _ hm
    refine ⟨(inp.getD e default).src, hv, ?_⟩
    unfold owns
    rw [hlt _ hv]
    have p1 := SG.pos_lt_iff inp hs (inp.getD e default).src e he
    have p2 := SG.pos_lt_iff inp hs ((inp.getD e default).src + 1) e he
    have := SG.cntLt_mono inp (inp.getD e default).src
    simp only
    constructor
    · rcases Nat.lt_or_ge e (cntLt inp (inp.getD e default).src) with c | c
      · have := p1.mpr c; omega
      · exact c
    · have := p2.mp (by omega); omega
  · rw [hne, hnn, sumCounts_telescope inp _ n hlt, hall]
  · intro v
    unfold adjM
    rw [hnn]
    by_cases c : v < n
    · rw [if_pos c]
      unfold adjList edgeRange beginEdges outDegree target data
      rw [hlt v c, hed]
      exact SG.slice_adj inp hs v
    · rw [if_neg c]
      have : inp.filter (fun e => e.src == v) = [] := by
        rw [List.filter_eq_nil_iff]
        intro x hx
        have := hsrc x hx
        simp; omega
      rw [this]; rfl

end Tbx.DG
