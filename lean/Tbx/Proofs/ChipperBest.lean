import Tbx.Proofs.ChipperCmp
/-
`bestOf` over the four axes, at the level of axes (C05 `flowCmp_lex`): the winner is reported by an axis `a`,
no axis reports a strictly better result, and every lower axis that reports a result reports a strictly worse
one — i.e. the minimum of (flow, −balance, axis) in lexicographic order.
-/
namespace Tbx.Chipper
open Tbx Tbx.InertialFlow

theorem range_split_lt {n a : Nat} {l1 l2 : List Nat} (h : List.range n = l1 ++ a :: l2) :
    (∀ b ∈ l1, b < a) ∧ (∀ b ∈ l2, a < b) := by
  have hp : (l1 ++ a :: l2).Pairwise (· < ·) := h ▸ List.pairwise_lt_range
  obtain ⟨_, h2, h3⟩ := List.pairwise_append.mp hp
  exact ⟨fun b hb => h3 b hb a List.mem_cons_self, fun b hb => (List.pairwise_cons.mp h2).1 b hb⟩

theorem bestOf_axis_lex (n : Nat) (g : Nat → StepOut) (x : FlowRes)
    (hpos : ∀ a, a < n → ∀ y, g a = .ok y → 0 < balanceDen y)
    (h : bestOf ((List.range n).map g) = .some x) :
    ∃ a, a < n ∧ g a = .ok x ∧
      (∀ a', a' < n → ∀ y, g a' = .ok y → ¬ Lt y x) ∧
      (∀ a', a' < a → ∀ y, g a' = .ok y → Lt x y) := by
  unfold bestOf at h
  split at h
  · cases h
  · cases hm : minBy (((List.range n).map g).filterMap okOf) with
    | none => rw [hm] at h; cases h
    | some x' =>
      rw [hm] at h
      simp only [Best.some.injEq] at h
      subst h
      rw [List.filterMap_map] at hm
      have hposl : ∀ y ∈ (List.range n).filterMap (okOf ∘ g), 0 < balanceDen y := by
        intro y hy
        obtain ⟨a, ha, hy⟩ := List.mem_filterMap.mp hy
        simp only [Function.comp] at hy
        cases hg : g a with
        | panic => rw [hg] at hy; simp [okOf] at hy
        | aborted => rw [hg] at hy; simp [okOf] at hy
        | ok r =>
          rw [hg] at hy
          simp only [okOf, Option.some.injEq] at hy
          subst hy
          exact hpos a (List.mem_range.mp ha) r hg
      obtain ⟨l, r, e, hl, hr⟩ := split_of_minBy hposl hm
      obtain ⟨i1, i2, e1, f1, f2⟩ := List.filterMap_eq_append_iff.mp e
      obtain ⟨j1, a, j2, e2, fj1, fa, fj2⟩ := List.filterMap_eq_cons_iff.mp f2
      have hrange : List.range n = (i1 ++ j1) ++ a :: j2 := by rw [e1, e2]; simp
      obtain ⟨hbefore, hafter⟩ := range_split_lt hrange
      have ha : a < n := List.mem_range.mp (by rw [hrange]; simp)
      have hga : g a = .ok x' := by
        simp only [Function.comp] at fa
        cases hg : g a with
        | panic => rw [hg] at fa; simp [okOf] at fa
        | aborted => rw [hg] at fa; simp [okOf] at fa
        | ok r' => rw [hg] at fa; simp only [okOf, Option.some.injEq] at fa; rw [fa]
      have hlow : ∀ a', a' < a → ∀ y, g a' = .ok y → Lt x' y := by
        intro a' ha' y hy
        have hmem : a' ∈ List.range n := List.mem_range.mpr (by omega)
        rw [hrange] at hmem
        rcases List.mem_append.mp hmem with hmem | hmem
        · rcases List.mem_append.mp hmem with hmem | hmem
          · apply hl
            rw [← f1]
            exact List.mem_filterMap.mpr ⟨a', hmem, by simp [Function.comp, hy, okOf]⟩
          · have := fj1 a' hmem
            simp [Function.comp, hy, okOf] at this
        · rcases List.mem_cons.mp hmem with rfl | hmem
          · omega
          · have := hafter a' hmem; omega
      refine ⟨a, ha, hga, ?_, hlow⟩
      intro a' ha' y hy
      rcases Nat.lt_trichotomy a' a with hlt | heq | hgt
      · exact Lt.asymm (hlow a' hlt y hy)
      · subst heq
        rw [hga] at hy
        cases hy
        exact Lt.irrefl _
      · have hmem : a' ∈ List.range n := List.mem_range.mpr ha'
        rw [hrange] at hmem
        rcases List.mem_append.mp hmem with hmem | hmem
        · have := hbefore a' hmem; omega
        · rcases List.mem_cons.mp hmem with rfl | hmem
          · omega
          · apply hr
            rw [← fj2]
            exact List.mem_filterMap.mpr ⟨a', hmem, by simp [Function.comp, hy, okOf]⟩

end Tbx.Chipper
