import Tbx.Proofs.InertialFlowStep
import Tbx.Proofs.FlowDinicRerun
/-
Resuming a Dinic object that a bound aborted (`InertialFlow.runBoundedAgain`, the repaired loop that continues
from the stored flow counter):

  boundedLoop_inv      : the bounded phase loop keeps the loop invariant `DL` for (stored counter + what it
                         pushed), whether it is aborted or not; when it is not aborted no augmenting path is left
  runBoundedAgain_dl   : hence every run - aborted or completed, first or repeated - ends in a state whose stored
                         counter is the value of the flow its residual graph carries
  runBoundedAgain_done : and an unfinished object (fresh, or aborted any number of times) that a later run
                         completes reports the maximum flow value
-/
namespace Tbx.InertialFlow
open Tbx Tbx.Flow Tbx.FlowSpec Tbx.FlowTheory

theorem boundedLoop_inv {n : Nat} {c : Fin n → Fin n → ℤ} {s t : Fin n} (hst : s ≠ t) (hN : n + 2 < INV)
    (bound : Int) (fuel : Nat) : ∀ (d : Dinic) (flow F : ℤ) (d' : Dinic) (flow' : ℤ) (ab : Bool), DL c s t d F →
    boundedLoop bound fuel d flow = some (d', flow', ab) →
    DL c s t d' (F + (flow' - flow)) ∧ (ab = false → ¬ ReachG d'.g s.val t.val) := by
  induction fuel with
  | zero => intro d flow F d' flow' ab _ h; simp [boundedLoop] at h
  | succ fuel ih =>
    intro d flow F d' flow' ab hi h
    simp only [boundedLoop] at h
    cases hb : d.bfs with
    | none => simp [hb] at h
    | some r =>
      obtain ⟨d1, b⟩ := r
      have hgn := hi.fi.hn
      obtain ⟨b1, b2, b3, b4, b5, b6⟩ := bfs_spec d hi.fi.wf hi.uq hi.rc (by rw [hgn]; exact hN)
        (by rw [hi.lsz, hgn]) (by rw [hi.tgt, hgn]; exact t.isLt)
        (by rw [hi.src, hi.tgt]; exact fun e => hst (Fin.ext e)) d1 b hb
      have hi1 : DL c s t d1 F :=
        ⟨b1 ▸ hi.fi, b1 ▸ hi.uq, b1 ▸ hi.rc, b3 ▸ hi.src, b4 ▸ hi.tgt, b2 ▸ hi.psz, by rw [b5, hgn]⟩
      cases b with
      | false =>
        simp only [hb, Option.some.injEq, Prod.mk.injEq] at h
        obtain ⟨rfl, rfl, rfl⟩ := h
        have : F + (flow - flow) = F := by omega
        rw [this]
        refine ⟨hi1, fun _ => ?_⟩
        have := b6 rfl
        rw [hi.src, hi.tgt] at this
        rw [b1]; exact this
      | true =>
        simp only [hb] at h
        cases hd : d1.dfs with
        | none => simp [hd] at h
        | some r2 =>
          obtain ⟨d2, bf⟩ := r2
          simp only [hd] at h
          obtain ⟨c1, _⟩ := dfs_spec hst (by omega) d1 F hi1 d2 bf hd
          split at h
          · simp only [Option.some.injEq, Prod.mk.injEq] at h
            obtain ⟨rfl, rfl, rfl⟩ := h
            have : F + (flow + bf - flow) = F + bf := by omega
            rw [this]
            exact ⟨c1, fun hab => by cases hab⟩
          · obtain ⟨e1, e2⟩ := ih d2 (flow + bf) (F + bf) d' flow' ab c1 h
            have : F + bf + (flow' - (flow + bf)) = F + (flow' - flow) := by omega
            rw [this] at e1
            exact ⟨e1, e2⟩

/-- the state predicate of a (possibly interrupted) computation: the stored counter is the value of the flow
    the residual graph carries -/
structure Carried {n : Nat} (c : Fin n → Fin n → ℤ) (s t : Fin n) (d : Dinic) : Prop where
  fi  : FInv c s t d.g d.maxFlow
  uq  : Uniq d.g
  rc  : RevClosed d.g
  src : d.source = s.val
  tgt : d.target = t.val

theorem runBoundedAgain_dl {n : Nat} {c : Fin n → Fin n → ℤ} {s t : Fin n} (hst : s ≠ t) (hN : n + 2 < INV)
    (d : Dinic) (fuel : Nat) (bound : Int) (d' : Dinic) (b' : Int) (hc : Carried c s t d)
    (h : runBoundedAgain d fuel bound = some (d', b')) :
    Carried c s t d' ∧ (d.finished = false → d'.finished = true →
      IsMaxFlowValue c s t d'.maxFlow ∧ ¬ ReachG d'.g s.val t.val ∧ b' = min bound d'.maxFlow) := by
  unfold runBoundedAgain at h
  simp only at h
  split at h
  · cases h
  · have hgn := hc.fi.hn
    have hd0 : DL c s t
        { d with parents := Array.replicate d.g.numNodes 0, level := Array.replicate d.g.numNodes INV } d.maxFlow :=
      ⟨hc.fi, hc.uq, hc.rc, hc.src, hc.tgt, by simp [hgn], by simp [hgn]⟩
    split at h
    · cases h
    · rename_i dl fl hloop
      simp only [Option.some.injEq, Prod.mk.injEq] at h
      obtain ⟨rfl, rfl⟩ := h
      obtain ⟨a, _⟩ := boundedLoop_inv hst hN bound fuel _ d.maxFlow d.maxFlow dl fl true hd0 hloop
      have hfl : d.maxFlow + (fl - d.maxFlow) = fl := by omega
      rw [hfl] at a
      refine ⟨⟨a.fi, a.uq, a.rc, a.src, a.tgt⟩, fun hf hf' => ?_⟩
      exfalso
      have := boundedLoop_fin bound fuel _ d.maxFlow dl fl true hloop
      have hf2 : dl.finished = true := hf'
      rw [this] at hf2
      have hf3 : d.finished = true := hf2
      rw [hf] at hf3; cases hf3
    · rename_i dl fl hloop
      simp only [Option.some.injEq, Prod.mk.injEq] at h
      obtain ⟨rfl, rfl⟩ := h
      obtain ⟨a, b⟩ := boundedLoop_inv hst hN bound fuel _ d.maxFlow d.maxFlow dl fl false hd0 hloop
      have hfl : d.maxFlow + (fl - d.maxFlow) = fl := by omega
      rw [hfl] at a
      have hnr := b rfl
      refine ⟨⟨a.fi, a.uq, a.rc, a.src, a.tgt⟩, fun _ _ => ⟨?_, hnr, rfl⟩⟩
      exact finv_unreachable_max dl.g fl a.fi hnr

/-- a fresh object carries the zero flow -/
theorem fresh_carried (es : List Edge) (s t : Nat) (hnn : ∀ e, e ∈ es → 0 ≤ e.cap)
    (hs : s < nNodes (es.map toE)) (ht : t < nNodes (es.map toE)) (d : Dinic)
    (hd : Dinic.fromEdgeList es s t = some d) :
    Carried (cF (es.map toE) (nNodes (es.map toE))) ⟨s, hs⟩ ⟨t, ht⟩ d ∧ d.finished = false := by
  unfold Dinic.fromEdgeList at hd
  split at hd
  · cases hd
  · simp only [Option.some.injEq] at hd
    subst hd
    have hm := merge_cap_dinic es hnn
    have hfi := init_finv (residualDinic es) es ⟨s, hs⟩ ⟨t, ht⟩ hm
    obtain ⟨huq, hrc⟩ := residualDinic_uniq_rev es
    exact ⟨⟨hfi, huq, hrc, rfl, rfl⟩, rfl⟩

/-- any history of `run()` / `run_with_upper_bound(b)` calls on one object, given by the values the consulted
    bound has at each call -/
def runsBounded (fuel : Nat) : List Int → Dinic → Option Dinic
  | [], d => some d
  | b :: bs, d => match runBoundedAgain d fuel b with
    | none => none
    | some (d', _) => runsBounded fuel bs d'

/-- the invariant of every such history: the stored counter is the value of the carried flow, and a finished
    object has no augmenting path left (so its counter is the maximum flow value) -/
theorem runsBounded_spec {n : Nat} {c : Fin n → Fin n → ℤ} {s t : Fin n} (hst : s ≠ t) (hN : n + 2 < INV)
    (fuel : Nat) (bs : List Int) : ∀ (d d' : Dinic), Carried c s t d →
    (d.finished = true → ¬ ReachG d.g s.val t.val) → runsBounded fuel bs d = some d' →
    Carried c s t d' ∧ (d'.finished = true → IsMaxFlowValue c s t d'.maxFlow ∧ ¬ ReachG d'.g s.val t.val) := by
  induction bs with
  | nil =>
    intro d d' hc hq h
    simp only [runsBounded, Option.some.injEq] at h
    subst h
    exact ⟨hc, fun hf => ⟨finv_unreachable_max d.g d.maxFlow hc.fi (hq hf), hq hf⟩⟩
  | cons b bs ih =>
    intro d d' hc hq h
    simp only [runsBounded] at h
    cases hr : runBoundedAgain d fuel b with
    | none => simp [hr] at h
    | some r =>
      obtain ⟨d1, b1⟩ := r
      simp only [hr] at h
      obtain ⟨c1, hdone⟩ := runBoundedAgain_dl hst hN d fuel b d1 b1 hc hr
      refine ih d1 d' c1 ?_ h
      intro hf1
      cases hfd : d.finished with
      | false => exact (hdone hfd hf1).2.1
      | true =>
        -- a finished object: one more run performs a single BFS that answers false and touches nothing
        have hq' := hq hfd
        have hgn := hc.fi.hn
        have hquiet : Quiet c s t
            { d with parents := Array.replicate d.g.numNodes 0, level := Array.replicate d.g.numNodes INV } :=
          ⟨⟨hc.fi, hc.uq, hc.rc, hc.src, hc.tgt, by simp [hgn], by simp [hgn]⟩, hq', hfd⟩
        -- the residual graph of d1 is d's: from `boundedLoop_inv` we only know ¬Reach after completion;
        -- for the aborted case use that `finished` is preserved and the loop invariant still holds
        unfold runBoundedAgain at hr
        simp only at hr
        split at hr
        · cases hr
        · split at hr
          · cases hr
          · rename_i dl fl hloop
            -- aborted: impossible from a quiescent state (the first BFS answers false)
            exfalso
            have hs' : d.source < d.g.numNodes := by rw [hc.src, hgn]; exact s.isLt
            have ht' : d.target < d.g.numNodes := by rw [hc.tgt, hgn]; exact t.isLt
            have hne : d.source ≠ d.target := by rw [hc.src, hc.tgt]; exact fun e => hst (Fin.ext e)
            obtain ⟨dd, bb, hb, _⟩ := bfs_total
              { d with parents := Array.replicate d.g.numNodes 0, level := Array.replicate d.g.numNodes INV }
              hc.fi.wf hc.uq hc.rc (by show d.g.numNodes + 2 < INV; rw [hgn]; exact hN) (by simp) hs' ht' hne
            have hex := bfs_exact
              { d with parents := Array.replicate d.g.numNodes 0, level := Array.replicate d.g.numNodes INV }
              hc.fi.wf hc.uq hc.rc (by show d.g.numNodes + 2 < INV; rw [hgn]; exact hN) (by simp) hs' ht' hne dd bb hb
            have hbf : bb = false := by
              cases bb with
              | false => rfl
              | true =>
                exfalso
                have h2 : ReachG d.g d.source d.target := hex.1 rfl
                rw [hc.src, hc.tgt] at h2; exact hq' h2
            subst hbf
            cases fuel with
            | zero => simp [boundedLoop] at hloop
            | succ f => simp [boundedLoop, hb] at hloop
          · rename_i dl fl hloop
            simp only [Option.some.injEq, Prod.mk.injEq] at hr
            obtain ⟨rfl, _⟩ := hr
            have hd0 : DL c s t
                { d with parents := Array.replicate d.g.numNodes 0, level := Array.replicate d.g.numNodes INV } d.maxFlow :=
              hquiet.dl
            exact (boundedLoop_inv hst hN b fuel _ d.maxFlow d.maxFlow dl fl false hd0 hloop).2 rfl

/-- the driver's `rerunHistory` (bound values chosen as the harness chooses them) is one of these histories -/
theorem rerunHistory_runsBounded (fuel : Nat) (k : Nat) : ∀ (i : Nat) (d : Dinic) (b : Int) (r : Dinic × Int),
    rerunHistory fuel k i d b = some r → ∃ bs, bs.length = k ∧ runsBounded fuel bs d = some r.1 := by
  induction k with
  | zero =>
    intro i d b r h
    simp only [rerunHistory, Option.some.injEq] at h
    subst h
    exact ⟨[], rfl, rfl⟩
  | succ k ih =>
    intro i d b r h
    simp only [rerunHistory] at h
    cases hr : runBoundedAgain d fuel (if i % 2 = 0 then b else I32MAX) with
    | none => simp [hr] at h
    | some r1 =>
      obtain ⟨d1, b1⟩ := r1
      simp [hr] at h
      obtain ⟨bs, hl, hbs⟩ := ih (i + 1) d1 b1 r h
      refine ⟨(if i % 2 = 0 then b else I32MAX) :: bs, by simp [hl], ?_⟩
      simp only [runsBounded, hr]
      exact hbs

/-- on a fresh object (flow counter 0) `runBounded` - the function C03/C04 and the driver's first bounded run use -
    is `runBoundedAgain` -/
theorem runBounded_eq_again (d : Dinic) (fuel : Nat) (bound : Int) (h0 : d.maxFlow = 0) :
    runBounded d fuel bound = runBoundedAgain d fuel bound := by
  unfold runBounded runBoundedAgain
  rw [h0]

end Tbx.InertialFlow
