import Tbx.Model.Scaffold
/-
Grouping of scaffold: one feature per distinct id.
-/
namespace Tbx.Geo

theorem nodup_eraseDups_aux : ∀ (n : Nat) (l : List Nat), l.length ≤ n → l.eraseDups.Nodup := by
  intro n
  induction n with
  | zero =>
    intro l h
    have : l = [] := List.length_eq_zero_iff.mp (by omega)
    subst this; simp
  | succ n ih =>
    intro l h
    cases l with
    | nil => simp
    | cons a as =>
      rw [List.eraseDups_cons]
      have hl : (as.filter fun b => !b == a).length ≤ n := by
        have := List.length_filter_le (fun b => !b == a) as
        simp only [List.length_cons] at h
        omega
      refine List.nodup_cons.mpr ⟨?_, ih _ hl⟩
      intro hm
      have := List.mem_eraseDups.mp hm
      simp at this

theorem nodup_eraseDups (l : List Nat) : l.eraseDups.Nodup := nodup_eraseDups_aux l.length l (Nat.le_refl _)

theorem insertNat_perm (x : Nat) (l : List Nat) : (insertNat x l).Perm (x :: l) := by
  induction l with
  | nil => exact List.Perm.refl _
  | cons y ys ih =>
    unfold insertNat
    split
    · exact List.Perm.refl _
    · exact ((List.Perm.cons y ih).trans (List.Perm.swap x y ys))

theorem sortNat_perm (l : List Nat) : (sortNat l).Perm l := by
  induction l with
  | nil => exact List.Perm.refl _
  | cons x xs ih => exact (insertNat_perm x _).trans (List.Perm.cons x ih)

theorem cellIds_nodup (ns : List SNode) : (cellIds ns).Nodup := by
  unfold cellIds
  exact (sortNat_perm _).nodup_iff.mpr (nodup_eraseDups _)

theorem mem_cellIds (ns : List SNode) (id : Nat) : id ∈ cellIds ns ↔ ∃ n ∈ ns, n.pid = id := by
  unfold cellIds
  rw [(sortNat_perm _).mem_iff, List.mem_eraseDups, List.mem_map]

theorem mem_cellOf (ns : List SNode) (id : Nat) (c : Coord) : c ∈ cellOf ns id ↔ ∃ n ∈ ns, n.pid = id ∧ n.p = c := by
  unfold cellOf
  simp only [List.mem_map, List.mem_filter, beq_iff_eq]
  constructor
  · rintro ⟨n, ⟨h1, h2⟩, h3⟩; exact ⟨n, h1, h2, h3⟩
  · rintro ⟨n, h1, h2, h3⟩; exact ⟨n, ⟨h1, h2⟩, h3⟩

end Tbx.Geo
