import Tbx.Proofs.CellIndex
/-
Renumbering in `BaseCell::process` and `StaticGraph::new`, as far as the searches see them:
the renumbering map is injective with values below its size (`MapOK`), `renumber` always succeeds
and maps every edge through the final map, the adjacency lists of the static graph contain exactly
the given edges, and every endpoint is below the node count.
-/
namespace Tbx.Dijkstra
open Tbx Tbx.AHeap

/-! ### the renumbering map -/

/-- contract of the renumbering map: values are positions `< length`, distinct keys have distinct values -/
structure MapOK (m : List (Nat × Nat)) : Prop where
  rng : ∀ k i, m.lookup k = some i → i < m.length
  inj : ∀ k k' i, m.lookup k = some i → m.lookup k' = some i → k = k'

theorem MapOK.nil : MapOK [] := ⟨by intro k i h; simp at h, by intro k k' i h; simp at h⟩

theorem lookup_cons_self (m : List (Nat × Nat)) (k v : Nat) : ((k, v) :: m).lookup k = some v := by
  simp [List.lookup]

theorem lookup_cons_ne (m : List (Nat × Nat)) (k k' v : Nat) (h : k' ≠ k) : ((k, v) :: m).lookup k' = m.lookup k' := by
  simp only [List.lookup]
  have : (k' == k) = false := by simp [h]
  rw [this]

theorem orInsert_lookup_self (m : List (Nat × Nat)) (k : Nat) : ∃ i, (orInsert m k).lookup k = some i := by
  unfold orInsert
  cases h : m.lookup k with
  | some i => exact ⟨i, h⟩
  | none => exact ⟨m.length, lookup_cons_self m k _⟩

theorem orInsert_extends (m : List (Nat × Nat)) (k k' i : Nat) (h : m.lookup k' = some i) :
    (orInsert m k).lookup k' = some i := by
  unfold orInsert
  cases hk : m.lookup k with
  | some _ => exact h
  | none =>
    simp only
    have : k' ≠ k := by intro e; subst e; rw [hk] at h; cases h
    rw [lookup_cons_ne _ _ _ _ this]; exact h

theorem orInsert_ok (m : List (Nat × Nat)) (k : Nat) (M : MapOK m) : MapOK (orInsert m k) := by
  unfold orInsert
  cases hk : m.lookup k with
  | some _ => exact M
  | none =>
    simp only
    constructor
    · intro k' i h
      by_cases e : k' = k
      · subst e; rw [lookup_cons_self] at h; cases h; simp
      · rw [lookup_cons_ne _ _ _ _ e] at h
        have := M.rng k' i h; simp; omega
    · intro k1 k2 i h1 h2
      by_cases e1 : k1 = k
      · by_cases e2 : k2 = k
        · rw [e1, e2]
        · subst e1
          rw [lookup_cons_self] at h1; cases h1
          rw [lookup_cons_ne _ _ _ _ e2] at h2
          have := M.rng k2 _ h2; omega
      · by_cases e2 : k2 = k
        · subst e2
          rw [lookup_cons_self] at h2; cases h2
          rw [lookup_cons_ne _ _ _ _ e1] at h1
          have := M.rng k1 _ h1; omega
        · rw [lookup_cons_ne _ _ _ _ e1] at h1
          rw [lookup_cons_ne _ _ _ _ e2] at h2
          exact M.inj k1 k2 i h1 h2

theorem foldl_orInsert_ok (l : List Nat) (m : List (Nat × Nat)) (M : MapOK m) :
    MapOK (l.foldl orInsert m) ∧ (∀ k i, m.lookup k = some i → (l.foldl orInsert m).lookup k = some i) ∧
    (∀ k ∈ l, ∃ i, (l.foldl orInsert m).lookup k = some i) := by
  induction l generalizing m with
  | nil => exact ⟨M, fun _ _ h => h, fun k hk => by cases hk⟩
  | cons a l ih =>
    simp only [List.foldl_cons]
    obtain ⟨h1, h2, h3⟩ := ih (orInsert m a) (orInsert_ok m a M)
    refine ⟨h1, fun k i h => h2 k i (orInsert_extends m a k i h), ?_⟩
    intro k hk
    rcases List.mem_cons.mp hk with rfl | hk
    · obtain ⟨i, hi⟩ := orInsert_lookup_self m k
      exact ⟨i, h2 k i hi⟩
    · exact h3 k hk

/-- the node id assigned by the (final) map -/
def newId (seenF : List (Nat × Nat)) (k : Nat) : Nat := (seenF.lookup k).getD 0

/-- `renumber` always succeeds, extends the map, and maps every edge through the final map -/
theorem renumber_spec (es : List Edge) (seen : List (Nat × Nat)) (M : MapOK seen) :
    ∃ es' seenF, renumber es seen = some (es', seenF) ∧ MapOK seenF ∧
      (∀ k i, seen.lookup k = some i → seenF.lookup k = some i) ∧
      es' = es.map (fun e => (newId seenF e.1, newId seenF e.2.1, e.2.2)) ∧
      (∀ e ∈ es, (∃ i, seenF.lookup e.1 = some i) ∧ (∃ i, seenF.lookup e.2.1 = some i)) := by
  induction es generalizing seen with
  | nil => exact ⟨[], seen, rfl, M, fun _ _ h => h, rfl, fun e he => by cases he⟩
  | cons e es ih =>
    obtain ⟨src, hsrc⟩ := orInsert_lookup_self seen e.1
    have M1 := orInsert_ok seen e.1 M
    obtain ⟨tgt, htgt⟩ := orInsert_lookup_self (orInsert seen e.1) e.2.1
    have M2 := orInsert_ok _ e.2.1 M1
    obtain ⟨es', seenF, h1, h2, h3, h4, h5⟩ := ih (orInsert (orInsert seen e.1) e.2.1) M2
    have hsrcF : seenF.lookup e.1 = some src := h3 _ _ (orInsert_extends _ _ _ _ hsrc)
    have htgtF : seenF.lookup e.2.1 = some tgt := h3 _ _ htgt
    refine ⟨(src, tgt, e.2.2) :: es', seenF, ?_, h2, ?_, ?_, ?_⟩
    · simp only [renumber, hsrc, htgt, h1]
    · intro k i h
      exact h3 k i (orInsert_extends _ _ _ _ (orInsert_extends _ _ _ _ h))
    · simp only [List.map_cons, newId, hsrcF, htgtF, Option.getD_some, h4]
    · intro e' he'
      rcases List.mem_cons.mp he' with rfl | he'
      · exact ⟨⟨src, hsrcF⟩, ⟨tgt, htgtF⟩⟩
      · exact h5 e' he'

/-! ### `StaticGraph::new`: adjacency = the edges, all endpoints below the node count -/

theorem mem_insertSorted (e x : Edge) (l : List Edge) : x ∈ insertSorted e l ↔ x = e ∨ x ∈ l := by
  induction l with
  | nil => simp [insertSorted]
  | cons a l ih =>
    simp only [insertSorted]
    split
    · simp
    · simp only [List.mem_cons, ih]
      constructor
      · rintro (h | h | h)
        · exact Or.inr (Or.inl h)
        · exact Or.inl h
        · exact Or.inr (Or.inr h)
      · rintro (h | h | h)
        · exact Or.inr (Or.inl h)
        · exact Or.inl h
        · exact Or.inr (Or.inr h)

theorem mem_sortEdges (x : Edge) (es : List Edge) : x ∈ sortEdges es ↔ x ∈ es := by
  unfold sortEdges
  induction es with
  | nil => simp
  | cons a l ih => simp only [List.foldr_cons, mem_insertSorted, ih, List.mem_cons]

theorem mem_staticAdj (es : List Edge) (u v w : Nat) : (v, w) ∈ staticAdj es u ↔ (u, v, w) ∈ es := by
  unfold staticAdj
  rw [List.mem_filterMap]
  constructor
  · rintro ⟨e, he, h⟩
    split at h
    · rename_i hu
      cases h
      rw [mem_sortEdges] at he
      obtain ⟨a, b, c⟩ := e
      simp only at hu; subst hu; exact he
    · cases h
  · intro h
    exact ⟨(u, v, w), (mem_sortEdges _ _).mpr h, by simp⟩

theorem foldl_max_ge (es : List Edge) (m0 : Nat) :
    m0 ≤ es.foldl (fun m e => max (max m e.1) e.2.1) m0 ∧
    ∀ e ∈ es, e.1 ≤ es.foldl (fun m e => max (max m e.1) e.2.1) m0 ∧ e.2.1 ≤ es.foldl (fun m e => max (max m e.1) e.2.1) m0 := by
  induction es generalizing m0 with
  | nil => exact ⟨Nat.le_refl _, fun e he => by cases he⟩
  | cons a l ih =>
    simp only [List.foldl_cons]
    obtain ⟨h1, h2⟩ := ih (max (max m0 a.1) a.2.1)
    refine ⟨by omega, ?_⟩
    intro e he
    rcases List.mem_cons.mp he with rfl | he
    · constructor <;> omega
    · exact h2 e he

theorem staticNodes_bound (es : List Edge) (e : Edge) (he : e ∈ es) : e.1 < staticNodes es ∧ e.2.1 < staticNodes es := by
  unfold staticNodes
  have := (foldl_max_ge es 0).2 e he
  omega

end Tbx.Dijkstra
