import Tbx.Model.GraphFiles
/-
Facts about the text -> token glue for the CANONICAL spelling of numbers (`Nat.toDigits 10`, a leading
'-' for negative numbers) and single-blank separated tokens.  Other spellings the generator uses (leading
'+', leading zeros, tabs, runs of blanks, trailing blanks) are covered by the correspondence run only.
-/
namespace Tbx.GraphFiles

def digitStep (acc : Option Nat) (c : Char) : Option Nat :=
  match acc, digitVal c with
  | some a, some d => some (10 * a + d)
  | _, _ => none

theorem digitsVal_eq_foldl (c : Char) (cs : List Char) :
    digitsVal (c :: cs) = (c :: cs).foldl digitStep (some 0) := rfl

theorem foldl_digitStep (cs : List Char) (a : Nat) (h : ∀ c ∈ cs, c.isDigit = true) :
    cs.foldl digitStep (some a) = some (Nat.ofDigitChars 10 cs a) := by
  induction cs generalizing a with
  | nil => simp
  | cons c cs ih =>
    have hc := h c (by simp)
    simp only [List.foldl_cons, Nat.ofDigitChars_cons]
    have : digitStep (some a) c = some (10 * a + (c.toNat - '0'.toNat)) := by
      simp [digitStep, digitVal, hc]
    rw [this]
    exact ih _ (fun d hd => h d (List.mem_cons_of_mem _ hd))

theorem digitsVal_toDigits (n : Nat) : digitsVal (Nat.toDigits 10 n) = some n := by
  have hne : Nat.toDigits 10 n ≠ [] := Nat.toDigits_ne_nil
  match hcs : Nat.toDigits 10 n with
  | [] => exact absurd hcs hne
  | c :: cs =>
    rw [digitsVal_eq_foldl, foldl_digitStep]
    · rw [← hcs, Nat.ofDigitChars_ten_toDigits]
    · intro d hd
      exact Nat.isDigit_of_mem_toDigits (by decide) (by decide) (hcs ▸ hd)

theorem head_toDigits_isDigit (n : Nat) :
    ∃ c cs, Nat.toDigits 10 n = c :: cs ∧ c.isDigit = true := by
  match hcs : Nat.toDigits 10 n with
  | [] => exact absurd hcs Nat.toDigits_ne_nil
  | c :: cs =>
    exact ⟨c, cs, rfl, Nat.isDigit_of_mem_toDigits (by decide) (by decide) (hcs ▸ List.mem_cons_self)⟩

theorem stripPlus_cons_ne (c : Char) (cs : List Char) (h : c ≠ '+') : stripPlus (c :: cs) = c :: cs := by
  unfold stripPlus
  split
  · rename_i r heq
    injection heq with h1 _
    exact absurd h1 h
  · rfl

/-- `usize::from_str` on the canonical decimal spelling -/
theorem parseUsize_toDigits (n : Nat) (h : n < 18446744073709551616) :
    parseUsize (Nat.toDigits 10 n) = some n := by
  obtain ⟨c, cs, hcs, hd⟩ := head_toDigits_isDigit n
  have hne : c ≠ '+' := by
    intro he; subst he; simp [Char.isDigit] at hd
  have hv := digitsVal_toDigits n
  rw [hcs] at hv ⊢
  simp [parseUsize, stripPlus_cons_ne c cs hne, hv, h]

/-- canonical spelling of an integer -/
def intChars (i : Int) : List Char :=
  if i < 0 then '-' :: Nat.toDigits 10 (-i).toNat else Nat.toDigits 10 i.toNat

/-- `i32::from_str` on the canonical decimal spelling -/
theorem parseI32_intChars (i : Int) (h : Bincode.I32 i) : parseI32 (intChars i) = some i := by
  unfold Bincode.I32 at h
  unfold intChars
  split
  · rename_i hneg
    have hv := digitsVal_toDigits (-i).toNat
    have hle : (-i).toNat ≤ 2147483648 := by omega
    simp only [parseI32, hv, hle, if_true, Int.ofNat_eq_natCast]
    congr 1; omega
  · rename_i hpos
    obtain ⟨c, cs, hcs, hd⟩ := head_toDigits_isDigit i.toNat
    have hne1 : c ≠ '-' := by
      intro he; subst he; simp [Char.isDigit] at hd
    have hne2 : c ≠ '+' := by
      intro he; subst he; simp [Char.isDigit] at hd
    have hv := digitsVal_toDigits i.toNat
    rw [hcs] at hv ⊢
    have hle : i.toNat ≤ 2147483647 := by omega
    unfold parseI32
    split
    · rename_i r heq
      injection heq with h1 _
      exact absurd h1 hne1
    · simp only [stripPlus_cons_ne c cs hne2, hv, hle, if_true, Int.ofNat_eq_natCast]
      congr 1; omega

/-! ### tokenizer -/

/-- a token: non-empty, no whitespace -/
def IsToken (t : List Char) : Prop := t ≠ [] ∧ ∀ c ∈ t, isWs c = false

theorem splitAux_token (p : Char → Bool) (t rest cur : List Char) (h : ∀ c ∈ t, p c = false) :
    splitAux p (t ++ rest) cur = splitAux p rest (t.reverse ++ cur) := by
  induction t generalizing cur with
  | nil => simp
  | cons c t ih =>
    have hc := h c (by simp)
    simp only [List.cons_append, splitAux, hc, Bool.false_eq_true, if_false]
    rw [ih _ (fun d hd => h d (List.mem_cons_of_mem _ hd))]
    simp

/-- tokens joined by single blanks -/
def joinBlank : List (List Char) → List Char
  | [] => []
  | [t] => t
  | t :: t' :: ts => t ++ ' ' :: joinBlank (t' :: ts)

theorem splitWs_joinBlank (ts : List (List Char)) (h : ∀ t ∈ ts, IsToken t) :
    splitWs (joinBlank ts) = ts := by
  unfold splitWs
  induction ts with
  | nil => simp [joinBlank, splitAux]
  | cons t ts ih =>
    obtain ⟨hne, hws⟩ := h t (by simp)
    have ih' := ih (fun u hu => h u (List.mem_cons_of_mem _ hu))
    cases ts with
    | nil =>
      have := splitAux_token isWs t [] [] hws
      simp only [List.append_nil] at this
      simp only [joinBlank, this, splitAux]
      simp [hne]
    | cons t' ts =>
      simp only [joinBlank]
      rw [splitAux_token isWs t _ [] hws]
      have hb : isWs ' ' = true := by decide
      simp only [List.append_nil, splitAux, hb, if_true]
      simp [hne, ih']

theorem isToken_toDigits (n : Nat) : IsToken (Nat.toDigits 10 n) := by
  refine ⟨Nat.toDigits_ne_nil, ?_⟩
  intro c hc
  have hd := Nat.isDigit_of_mem_toDigits (b := 10) (by decide) (by decide) hc
  by_cases hw : isWs c = true
  · exfalso
    unfold isWs isAsciiWs at hw
    simp only [Bool.or_eq_true, beq_iff_eq] at hw
    rcases hw with ((((hw | hw) | hw) | hw) | hw) | hw <;> (subst hw; simp [Char.isDigit] at hd)
  · simpa using hw

end Tbx.GraphFiles
