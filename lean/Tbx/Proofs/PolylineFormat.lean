import Tbx.Proofs.PolylineRoundtrip
import Tbx.Spec.Codes
/-
The polyline encoder conforms to the format's own description (`Tbx.Spec.polylineMeaning`: 5-bit chunks,
little endian, continuation flag, zigzag sign, running sums) — independent of the model's decoder.  This is
the function the judge applies to the REAL encoder's output.  Core Lean only.
-/
namespace Tbx.Proofs.Polyline
open Tbx.Polyline Tbx.Spec

theorem takeNumber_encU (fuel : Nat) : ∀ (v : Nat) (rest : List Nat), v ≤ fuel →
    ∃ cs, takeNumber (encU fuel v ++ rest) = some (cs, rest) ∧ chunksValue cs = v := by
  induction fuel with
  | zero =>
    intro v rest hf
    have : v = 0 := by omega
    subst this
    exact ⟨[0], by simp [encU, takeNumber], by simp [chunksValue]⟩
  | succ fuel ih =>
    intro v rest hf
    by_cases hv : v ≥ 0x20
    · simp only [encU, if_pos hv, chunk_byte, List.cons_append, Nat.shiftRight_eq_div_pow]
      obtain ⟨cs, h1, h2⟩ := ih (v / 2 ^ 5) rest (by have : v / 2^5 = v / 32 := rfl; omega)
      refine ⟨(v % 32 + 95 - 63) :: cs, ?_, ?_⟩
      · simp only [takeNumber]
        rw [if_neg (by omega), if_pos (by omega), h1]; rfl
      · simp only [chunksValue, h2]
        have : v / 2^5 = v / 32 := rfl
        omega
    · simp only [encU, if_neg hv, List.cons_append, List.nil_append]
      refine ⟨[v], ?_, ?_⟩
      · simp only [takeNumber]
        rw [if_neg (by omega), if_neg (by omega)]; simp
      · simp only [chunksValue]; omega

/-- the deltas `encodeLine` writes -/
def deltas : List (Int × Int) → Int × Int → List Int
  | [], _ => []
  | e :: rest, start => (e.1 - start.1) :: (e.2 - start.2) :: deltas rest e

theorem signed_number (value : Int) (hlo : -1073741823 ≤ value) (hhi : value ≤ 1073741823) :
    ∃ bs, encodeSigned value = some bs ∧ bs ≠ [] ∧
      ∀ rest, ∃ cs, takeNumber (bs ++ rest) = some (cs, rest) ∧ unzigzagNat (chunksValue cs) = value := by
  have hchk : chk32 (value * 2) = some (value * 2) :=
    chk32_some (by simp only [I32_MIN]; omega) (by simp only [I32_MAX]; omega)
  simp only [encodeSigned, hchk]
  refine ⟨_, rfl, encU_ne_nil _ _, ?_⟩
  intro rest
  obtain ⟨cs, h1, h2⟩ := takeNumber_encU _ (if value < 0 then -(value * 2) - 1 else value * 2).toNat rest (Nat.le_refl _)
  refine ⟨cs, h1, ?_⟩
  rw [h2]
  simp only [unzigzagNat]
  by_cases hneg : value < 0
  · simp only [if_pos hneg]
    have : (-(value * 2) - 1).toNat % 2 = 1 := by omega
    rw [if_neg (by omega)]; omega
  · simp only [if_neg hneg]
    have : (value * 2).toNat % 2 = 0 := by omega
    rw [if_pos this]; omega

theorem numbers_encodeLine (xs : List (Int × Int)) : ∀ (start : Int × Int), InRange start → (∀ p ∈ xs, InRange p) →
    ∃ cs, encodeLine xs start = some cs ∧ 2 * xs.length ≤ cs.length ∧
      ∀ fuel, 2 * xs.length ≤ fuel → numbers fuel cs = some (deltas xs start) := by
  induction xs with
  | nil =>
    intro start _ _
    exact ⟨[], rfl, Nat.le_refl _, fun fuel _ => by cases fuel <;> simp [numbers, deltas]⟩
  | cons e rest ih =>
    intro start hs hall
    have he : InRange e := hall e (by simp)
    obtain ⟨c, hc1, hc2, hc3⟩ := ih e he (fun p hp => hall p (by simp [hp]))
    simp only [InRange] at hs he
    have hd0 : chk32 (e.1 - start.1) = some (e.1 - start.1) :=
      chk32_some (by simp only [I32_MIN]; omega) (by simp only [I32_MAX]; omega)
    have hd1 : chk32 (e.2 - start.2) = some (e.2 - start.2) :=
      chk32_some (by simp only [I32_MIN]; omega) (by simp only [I32_MAX]; omega)
    obtain ⟨a, ha1, ha2, ha3⟩ := signed_number (e.1 - start.1) (by omega) (by omega)
    obtain ⟨b, hb1, hb2, hb3⟩ := signed_number (e.2 - start.2) (by omega) (by omega)
    have hal : 1 ≤ a.length := by cases a with | nil => exact absurd rfl ha2 | cons _ _ => simp
    have hbl : 1 ≤ b.length := by cases b with | nil => exact absurd rfl hb2 | cons _ _ => simp
    refine ⟨a ++ b ++ c, ?_, ?_, ?_⟩
    · simp only [encodeLine, hd0, hd1, ha1, hb1, hc1]
    · simp only [List.length_cons, List.length_append]; omega
    · intro fuel hf
      simp only [List.length_cons] at hf
      obtain ⟨ca, hca, hza⟩ := ha3 (b ++ c)
      obtain ⟨cb, hcb, hzb⟩ := hb3 c
      match fuel, hf with
      | fuel + 2, hf =>
        cases a with
        | nil => exact absurd rfl ha2
        | cons hd tl =>
          cases b with
          | nil => exact absurd rfl hb2
          | cons hd2 tl2 =>
            simp only [List.cons_append, List.append_assoc] at hca hcb ⊢
            simp only [numbers, hca, hcb, hza, hzb, Option.map, deltas]
            rw [hc3 fuel (by omega)]

theorem accumulate_deltas (xs : List (Int × Int)) : ∀ start : Int × Int,
    accumulate (deltas xs start) start.1 start.2 = some xs := by
  induction xs with
  | nil => intro _; rfl
  | cons e rest ih =>
    intro start
    simp only [deltas, accumulate]
    have e1 : start.1 + (e.1 - start.1) = e.1 := by omega
    have e2 : start.2 + (e.2 - start.2) = e.2 := by omega
    rw [e1, e2, ih e]; rfl

/-- what `encode` emits MEANS the input sequence under the format's own description (`Spec.polylineMeaning`):
    conformance of the encoder, independent of `decode` -/
theorem encode_means (xs : List (Int × Int)) (h : ∀ p ∈ xs, InRange p) :
    ∃ cs, encodeInts xs = some cs ∧ polylineMeaning cs = some xs := by
  obtain ⟨cs, h1, h2, h3⟩ := numbers_encodeLine xs (0, 0) (by simp [InRange]) h
  refine ⟨cs, h1, ?_⟩
  simp only [polylineMeaning, h3 cs.length h2, Option.bind]
  exact accumulate_deltas xs (0, 0)

end Tbx.Proofs.Polyline
