import Tbx.Proofs.Fenwick
/-
`update` preserves the Fenwick invariant, `from_values` (the linear-time construction) and
`with_size` establish it.
-/
namespace Tbx.Fenwick
open Tbx
open Tbx.PrefixSum (pre)

/-- the upward walk adds x to exactly the nodes whose interval contains q -/
theorem upLoop_spec (t0 : Array Int) (x : Int) (q : Nat) (hq : 0 < q) (fuel c : Nat) (t : Array Int)
    (hsz : t.size = t0.size) (hc : q ≤ c) (hf : t0.size ≤ fuel + c)
    (J2 : ∀ p, p < c → gt t p = gt t0 p + (if p - lsb p < q ∧ q ≤ p then x else 0))
    (J3 : ∀ p, c ≤ p → gt t p = gt t0 p)
    (J4 : ∀ r, c ≤ r → ((r - lsb r < q ∧ q ≤ r) ↔ (r - lsb r < c ∧ c ≤ r))) :
    (upLoop x fuel c t).size = t0.size ∧
    ∀ p, p < t0.size → gt (upLoop x fuel c t) p = gt t0 p + (if p - lsb p < q ∧ q ≤ p then x else 0) := by
  induction fuel generalizing c t with
  | zero => exact ⟨hsz, fun p hp => J2 p (by omega)⟩
  | succ fuel ih =>
    unfold upLoop
    by_cases hlt : c < t.size
    · rw [if_pos hlt]
      have hl := lsb_pos c (by omega)
      apply ih
      · simp [hsz]
      · omega
      · omega
      · intro p hp
        by_cases hpc : p < c
        · rw [gt_st_ne _ _ _ _ (by omega)]; exact J2 p hpc
        · by_cases hpe : p = c
          · subst hpe
            rw [gt_st_eq _ _ _ hlt, J3 p (Nat.le_refl _)]
            have : p - lsb p < q ∧ q ≤ p := (J4 p (Nat.le_refl _)).mpr ⟨by omega, Nat.le_refl _⟩
            rw [if_pos this]
          · rw [gt_st_ne _ _ _ _ (by omega), J3 p (by omega)]
            have hnc : ¬ (p - lsb p < q ∧ q ≤ p) := by
              intro h
              have h1 := (J4 p (by omega)).mp h
              have h2 := (cover_step c p (by omega) (by omega)).mp h1.1
              omega
            rw [if_neg hnc]; omega
      · intro p hp
        rw [gt_st_ne _ _ _ _ (by omega)]; exact J3 p (by omega)
      · intro r hr
        rw [J4 r (by omega)]
        have hcs := cover_step c r (by omega) (by omega)
        constructor
        · intro h; exact ⟨(hcs.mp h.1).2, hr⟩
        · intro h; exact ⟨hcs.mpr ⟨hr, h.1⟩, by omega⟩
    · rw [if_neg hlt]
      exact ⟨hsz, fun p hp => J2 p (by omega)⟩

/-- `update(index, value)`: `Err` iff out of range; otherwise the invariant holds for the array with
    `value` added at `index` -/
theorem update_spec (t : Array Int) (v : List Int) (hI : FwInv t v) (index : Nat) (x : Int) :
    (index ≥ v.length → Fenwick.update ⟨t⟩ index x = none) ∧
    (index < v.length → ∃ t', Fenwick.update ⟨t⟩ index x = some ⟨t'⟩ ∧ FwInv t' (PrefixSum.update v index x)) := by
  unfold Fenwick.update len
  simp only [hI.size, Nat.add_sub_cancel]
  constructor
  · intro h; rw [if_pos h]
  · intro h
    have hn : ¬ (index ≥ v.length) := by omega
    rw [if_neg hn]
    refine ⟨_, rfl, ?_⟩
    obtain ⟨h1, h2⟩ := upLoop_spec t x (index + 1) (by omega) (v.length + 1) (index + 1) t rfl (Nat.le_refl _)
      (by rw [hI.size]; omega)
      (fun p hp => by
        have : ¬ (p - lsb p < index + 1 ∧ index + 1 ≤ p) := by omega
        rw [if_neg this]; omega)
      (fun _ _ => rfl) (fun _ _ => Iff.rfl)
    rw [hI.size] at h1 h2
    refine ⟨by rw [h1, length_update], ?_⟩
    intro p hp1 hp2
    rw [length_update] at hp2
    rw [h2 p (by omega), hI.node p hp1 hp2, pre_update v index x p h, pre_update v index x (p - lsb p) h]
    have hl := lsb_pos p (by omega)
    by_cases ha : index < p
    · by_cases hb : index < p - lsb p
      · have : ¬ (p - lsb p < index + 1 ∧ index + 1 ≤ p) := by omega
        rw [if_neg this, if_pos ha, if_pos hb]; omega
      · have : p - lsb p < index + 1 ∧ index + 1 ≤ p := by omega
        rw [if_pos this, if_pos ha, if_neg hb]; omega
    · have hb : ¬ (index < p - lsb p) := by omega
      have : ¬ (p - lsb p < index + 1 ∧ index + 1 ≤ p) := by omega
      rw [if_neg this, if_neg ha, if_neg hb]; omega

/-! ### `from_values` -/

/-- `bd p k`: the largest child c < k of p (c + lsb c = p), or the left end p − lsb p if there is none;
    after the first k−1 rounds of the construction, tree[p] covers (p − lsb p, bd p k] and {p} -/
def bd (p : Nat) : Nat → Nat
  | 0 => p - lsb p
  | k + 1 => if k + lsb k = p then k else bd p k

theorem bd_skip (p m k : Nat) (hmk : m ≤ k) (h : ∀ c, m ≤ c → c < k → c + lsb c ≠ p) : bd p k = bd p m := by
  induction k with
  | zero => have : m = 0 := by omega
            subst this; rfl
  | succ k ih =>
    by_cases hm : m = k + 1
    · subst hm; rfl
    · have hne := h k (by omega) (by omega)
      simp only [bd, if_neg hne]
      exact ih (by omega) (fun c h1 h2 => h c h1 (by omega))

theorem bd_child (k : Nat) (hk : 0 < k) : bd (k + lsb k) k = k - lsb k := by
  have hl := lsb_pos k hk
  have hl2 := lsb_le k
  rw [bd_skip (k + lsb k) (k - lsb k + 1) k (by omega)
    (fun c h1 h2 heq => by
      have := child_gap k c (by omega) h2 heq
      omega)]
  simp only [bd]
  split
  · rfl
  · rename_i hne
    rcases child_prev k hk with h | h
    · exact absurd h hne
    · rw [bd_skip (k + lsb k) 0 (k - lsb k) (by omega)
        (fun c _ h2 heq => by
          by_cases hc0 : c = 0
          · subst hc0; rw [lsb_zero] at heq; omega
          · have := child_above c (by omega)
            rw [heq] at this
            omega)]
      simp only [bd]
      exact h.symm

theorem bd_full (p k : Nat) (hp : 0 < p) (hpk : p ≤ k) : bd p k = p - 1 := by
  rw [bd_skip p p k hpk (fun c h1 _ heq => by
    have := lsb_pos c (by omega)
    omega)]
  have hp1 : p = (p - 1) + 1 := by omega
  rw [hp1]
  simp only [bd]
  split
  · simp
  · rename_i hne
    simp only [Nat.add_sub_cancel] at hne ⊢
    rw [← hp1] at hne ⊢
    -- p − 1 is not a child of p, so p is odd and its left end is p − 1
    have hodd : p % 2 = 1 := by
      apply Classical.byContradiction
      intro h
      have := lsb_odd (p - 1) (by omega)
      omega
    have hl := lsb_odd p hodd
    rw [bd_skip p 0 (p - 1) (by omega)
      (fun c _ h2 heq => by
        by_cases hc0 : c = 0
        · subst hc0; rw [lsb_zero] at heq; omega
        · have := child_above c (by omega)
          rw [heq, hl] at this
          omega)]
    simp only [bd, hl]

theorem gt_cons_values (v : List Int) (p : Nat) (hp : 1 ≤ p) :
    gt ((#[0] : Array Int) ++ v.toArray) p = v.getD (p - 1) 0 := by
  simp only [gt, Array.getD_eq_getD_getElem?, Array.getElem?_append, List.getElem?_toArray,
    List.getD_eq_getElem?_getD]
  have : ¬ (p < (#[0] : Array Int).size) := by simp; omega
  rw [if_neg this]
  simp

/-- the construction loop: after the rounds for indices < k, tree[p] = v[p−1] + Σ v (p − lsb p, bd p k] -/
theorem fvLoop_spec (v : List Int) (fuel k : Nat) (t : Array Int) (hk : 1 ≤ k)
    (hsz : t.size = v.length + 1) (hf : v.length + 1 ≤ fuel + k)
    (K : ∀ p, 1 ≤ p → p ≤ v.length → gt t p = v.getD (p - 1) 0 + (pre v (bd p k) - pre v (p - lsb p))) :
    FwInv (fvLoop fuel k t) v := by
  have finish : ∀ (t : Array Int) (k : Nat), t.size = v.length + 1 → v.length + 1 ≤ k →
      (∀ p, 1 ≤ p → p ≤ v.length → gt t p = v.getD (p - 1) 0 + (pre v (bd p k) - pre v (p - lsb p))) →
      FwInv t v := by
    intro t k hsz hk K
    refine ⟨hsz, ?_⟩
    intro p hp1 hp2
    rw [K p hp1 hp2, bd_full p k (by omega) (by omega)]
    have := pre_succ v (p - 1)
    have e : p - 1 + 1 = p := by omega
    rw [e] at this
    omega
  induction fuel generalizing k t with
  | zero => exact finish t k hsz (by omega) K
  | succ fuel ih =>
    unfold fvLoop
    by_cases hlt : k < t.size
    · rw [if_pos hlt]
      have hkn : k ≤ v.length := by omega
      have hl := lsb_pos k (by omega)
      -- tree[k] is final when its round starts
      have hfin : gt t k = pre v k - pre v (k - lsb k) := by
        rw [K k hk hkn, bd_full k k (by omega) (Nat.le_refl _)]
        have := pre_succ v (k - 1)
        have e : k - 1 + 1 = k := by omega
        rw [e] at this
        omega
      show FwInv (fvLoop fuel (k + 1)
        (if k + lsb k < t.size then st t (k + lsb k) (gt t (k + lsb k) + gt t k) else t)) v
      by_cases hpar : k + lsb k < t.size
      · rw [if_pos hpar]
        apply ih
        · omega
        · simp [hsz]
        · omega
        · intro p hp1 hp2
          by_cases hpp : p = k + lsb k
          · subst hpp
            rw [gt_st_eq _ _ _ hpar, K _ hp1 hp2, hfin, bd_child k (by omega)]
            simp only [bd, if_true]
            omega
          · rw [gt_st_ne _ _ _ _ (fun h => hpp h.symm), K p hp1 hp2]
            have : ¬ (k + lsb k = p) := fun h => hpp h.symm
            simp only [bd, if_neg this]
      · rw [if_neg hpar]
        apply ih
        · omega
        · exact hsz
        · omega
        · intro p hp1 hp2
          rw [K p hp1 hp2]
          have : ¬ (k + lsb k = p) := by omega
          simp only [bd, if_neg this]
    · rw [if_neg hlt]
      exact finish t k hsz (by omega) K

/-- `from_values(values)` establishes the invariant -/
theorem fromValues_spec (v : List Int) : FwInv (fromValues v).tree v := by
  unfold fromValues
  have hsz : ((#[0] : Array Int) ++ v.toArray).size = v.length + 1 := by simp
  apply fvLoop_spec v _ 1 _ (Nat.le_refl _) hsz (by rw [hsz]; omega)
  intro p hp1 _
  rw [gt_cons_values v p hp1]
  have : bd p 1 = p - lsb p := by
    simp only [bd]
    have : ¬ (0 + lsb 0 = p) := by rw [lsb_zero]; omega
    rw [if_neg this]
  rw [this]
  omega

/-- `with_size(n)` is the tree of n zeros -/
theorem withSize_spec (n : Nat) : FwInv (withSize n).tree (List.replicate n 0) := by
  refine ⟨by simp [withSize], ?_⟩
  intro p _ _
  have h0 : ∀ k, pre (List.replicate n (0 : Int)) k = 0 := by
    intro k
    induction k with
    | zero => exact pre_zero _
    | succ k ih =>
      rw [pre_succ, ih, List.getD_eq_getElem?_getD]
      by_cases hk : k < n
      · simp [hk]
      · simp [hk]
  rw [h0, h0]
  simp only [withSize, gt, Array.getD_eq_getD_getElem?]
  by_cases hp : p < n + 1
  · simp [hp]
  · simp [hp]

end Tbx.Fenwick
