import Tbx.Proofs.ChipperLevel
import Tbx.Spec.Hierarchy
/-
Soundness of the Spec's checker `Tbx.Hierarchy.disjointAll` (what the C06 judge runs on the logged job sets):
it accepts exactly the pairwise disjoint families.
-/
namespace Tbx.Hierarchy

theorem disjointFrom_iff (xs : List Nat) (rest : List (List Nat)) :
    disjointFrom xs rest = true ↔ ∀ ys ∈ rest, ∀ x ∈ xs, x ∉ ys := by
  induction rest with
  | nil => simp [disjointFrom]
  | cons ys rest ih =>
    simp only [disjointFrom, Bool.and_eq_true, ih, List.all_eq_true, List.mem_cons, forall_eq_or_imp]
    constructor
    · rintro ⟨h1, h2⟩
      refine ⟨?_, h2⟩
      intro x hx hy
      have := h1 x hx
      simp at this
      exact this hy
    · rintro ⟨h1, h2⟩
      refine ⟨?_, h2⟩
      intro x hx
      have := h1 x hx
      cases hc : ys.contains x with
      | false => rfl
      | true => exact absurd (List.contains_iff_mem.mp hc) this

/-- `disjointAll` decides pairwise disjointness -/
theorem disjointAll_iff (ls : List (List Nat)) :
    disjointAll ls = true ↔ ls.Pairwise (fun xs ys => ∀ x ∈ xs, x ∉ ys) := by
  induction ls with
  | nil => simp [disjointAll]
  | cons xs rest ih =>
    simp only [disjointAll, Bool.and_eq_true, ih, disjointFrom_iff, List.pairwise_cons]

end Tbx.Hierarchy

namespace Tbx.Chipper

/-- a queue of pairwise disjoint jobs passes the checker -/
theorem queue_disjointAll {Q : List Job} (h : Q.Pairwise Disj) :
    Tbx.Hierarchy.disjointAll (Q.map (·.ids)) = true := by
  rw [Tbx.Hierarchy.disjointAll_iff, List.pairwise_map]
  exact h

end Tbx.Chipper
