import Tbx.Model.Choose
import Tbx.Model.Enumerative
import Tbx.Spec.Codes
import Mathlib.Data.Nat.Choose.Basic
import Mathlib.Data.Nat.Choose.Bounds

/-
C20: `math::choose` computes binomial coefficients without overflow for n ≤ 64, `decode_u64` is the
pure unranking function, `unrank`/`rank` are mutually inverse order isomorphisms between
`[0, binom n w)` and the n-bit words of weight w, the bit-weight iterator enumerates them in order,
and the judge's Pascal table / table-driven rank agree with the specs.
-/
namespace Tbx.Proofs.ChooseUnrank
open Tbx Tbx.Spec Tbx.Choose Tbx.Enumerative

theorem binom_eq_choose (n k : Nat) : Spec.binom n k = Nat.choose n k := by
  induction n generalizing k with
  | zero => cases k <;> simp [Spec.binom]
  | succ n ih =>
    cases k with
    | zero => simp [Spec.binom]
    | succ k => simp [Spec.binom, ih, Nat.choose_succ_succ]

theorem nat_choose_lt (n k : Nat) (hn : n ≤ 64) : Nat.choose n k < 2 ^ 64 := by
  rcases Nat.eq_zero_or_pos n with h0 | hpos
  · subst h0
    cases k <;> simp
  · calc Nat.choose n k < 2 ^ n := Nat.choose_lt_two_pow n k hpos
      _ ≤ 2 ^ 64 := Nat.pow_le_pow_right (by decide) hn

theorem binom_lt_two_pow_64 (n k : Nat) (hn : n ≤ 64) : Spec.binom n k < 2 ^ 64 := by
  rw [binom_eq_choose]; exact nat_choose_lt n k hn

/-- one iteration: the product is `choose n (j+1) * (j+1)` -/
theorem prod_choose (n j : Nat) (hj : j < n) :
    prod n (j + 1) (Nat.choose n j) = Nat.choose n (j + 1) * (j + 1) := by
  unfold prod
  rw [Nat.choose_succ_right_eq]
  congr 1
  omega

theorem prod_choose_div (n j : Nat) (hj : j < n) :
    prod n (j + 1) (Nat.choose n j) / (j + 1) = Nat.choose n (j + 1) := by
  rw [prod_choose n j hj]
  exact Nat.mul_div_cancel _ (Nat.succ_pos j)

theorem prod_choose_lt (n j : Nat) (hn : n ≤ 64) :
    prod n (j + 1) (Nat.choose n j) < 2 ^ 128 := by
  unfold prod
  have h1 : Nat.choose n j < 2 ^ 64 := nat_choose_lt n j hn
  have h2 : n - (j + 1) + 1 ≤ 64 := by omega
  calc Nat.choose n j * (n - (j + 1) + 1) ≤ 2 ^ 64 * 64 := Nat.mul_le_mul h1.le h2
    _ < 2 ^ 128 := by decide

theorem loop_eq (n : Nat) (hn : n ≤ 64) (cnt j : Nat) (h : j + cnt ≤ n) :
    loop U128 n cnt (j + 1) (Nat.choose n j) = some (Nat.choose n (j + cnt)) := by
  induction cnt generalizing j with
  | zero => simp [loop]
  | succ cnt ih =>
    have hj : j < n := by omega
    have hlt : prod n (j + 1) (Nat.choose n j) < U128 := prod_choose_lt n j hn
    rw [loop, if_pos hlt, prod_choose_div n j hj, ih (j + 1) (by omega)]
    congr 2
    omega

theorem trace_inv (n : Nat) (hn : n ≤ 64) (cnt j : Nat) (h : j + cnt ≤ n) :
    ∀ ip ∈ trace n cnt (j + 1) (Nat.choose n j),
      ip.2 < 2 ^ 128 ∧ ip.2 = Nat.choose n (ip.1 - 1) * (n - ip.1 + 1) ∧ ip.1 ∣ ip.2 ∧
        j + 1 ≤ ip.1 ∧ ip.1 ≤ j + cnt := by
  induction cnt generalizing j with
  | zero => intro ip hip; simp [trace] at hip
  | succ cnt ih =>
    have hj : j < n := by omega
    intro ip hip
    rw [trace, prod_choose_div n j hj] at hip
    rcases List.mem_cons.mp hip with rfl | hip
    · refine ⟨prod_choose_lt n j hn, ?_, ?_, ?_, ?_⟩
      · simp [prod]
      · show j + 1 ∣ prod n (j + 1) (Nat.choose n j)
        rw [prod_choose n j hj]
        exact Nat.dvd_mul_left _ _
      · simp
      · show j + 1 ≤ j + (cnt + 1)
        omega
    · obtain ⟨h1, h2, h3, h4, h5⟩ := ih (j + 1) (by omega) ip hip
      exact ⟨h1, h2, h3, by omega, by omega⟩

theorem reduceK_le (n k : Nat) (hk : k ≤ n) : reduceK n k ≤ n := by
  unfold reduceK; split <;> omega

theorem choose_reduceK (n k : Nat) (hk : k ≤ n) : Nat.choose n (reduceK n k) = Nat.choose n k := by
  unfold reduceK; split
  · exact Nat.choose_symm hk
  · rfl

/-- for n ≤ 64 the Rust loop computes the binomial coefficient (no u128 overflow, final `as u64` is the identity) -/
theorem choose_eq (n k : Nat) (hn : n ≤ 64) : Choose.choose n k = some (Spec.binom n k) := by
  rw [binom_eq_choose]
  unfold Choose.choose
  split
  · rename_i h
    rw [Nat.choose_eq_zero_of_lt h]
  · rename_i h
    have hk : k ≤ n := by omega
    split
    · rename_i h2
      have : k = 0 ∨ k = n := by simpa using h2
      rcases this with rfl | rfl <;> simp
    · have := loop_eq n hn (reduceK n k) 0 (by have := reduceK_le n k hk; omega)
      simp only [Nat.zero_add, Nat.choose_zero_right] at this
      rw [this, choose_reduceK n k hk]
      simp only [Option.map_some, U64]
      rw [Nat.mod_eq_of_lt (nat_choose_lt n k hn)]

example : Choose.choose 64 32 = some 1832624140942590534 := by decide +kernel

/-- every intermediate product of the loop is below 2^128, is exactly binom n (i-1) * (n-i+1), and the division by i is exact -/
theorem choose_intermediates (n k : Nat) (hn : n ≤ 64) (hk : k ≤ n) :
    ∀ ip ∈ Choose.trace n (Choose.reduceK n k) 1 1,
      ip.2 < 2 ^ 128 ∧ ip.2 = Spec.binom n (ip.1 - 1) * (n - ip.1 + 1) ∧ ip.1 ∣ ip.2 ∧ 1 ≤ ip.1 ∧ ip.1 ≤ Choose.reduceK n k := by
  intro ip hip
  have := trace_inv n hn (reduceK n k) 0 (by have := reduceK_le n k hk; omega) ip
    (by simpa using hip)
  rw [binom_eq_choose]
  simpa using this

/-- D18 regression witness: the legacy u64 loop fails on (64,32), the fixed one does not -/
theorem legacy_overflows : Choose.chooseLegacy 64 32 = none ∧ Choose.choose 64 32 = some 1832624140942590534 := by
  decide +kernel

/-! ### unrank -/

theorem binom_zero_right (n : Nat) : Spec.binom n 0 = 1 := by cases n <;> rfl

theorem binom_succ_succ (n k : Nat) : Spec.binom (n + 1) (k + 1) = Spec.binom n k + Spec.binom n (k + 1) := rfl

theorem binom_le_succ (n k : Nat) : Spec.binom n k ≤ Spec.binom (n + 1) k := by
  cases k with
  | zero => simp [binom_zero_right]
  | succ k => rw [binom_succ_succ]; omega

/-- the "bit set" branch: the weight is positive and the remaining ordinal fits -/
theorem upper_case (n w ord : Nat) (h : ord < Spec.binom (n + 1) w) (hge : ord ≥ Spec.binom n w) :
    1 ≤ w ∧ ord - Spec.binom n w < Spec.binom n (w - 1) := by
  cases w with
  | zero => rw [binom_zero_right] at h hge; omega
  | succ w =>
    rw [binom_succ_succ] at h
    simp only [Nat.add_sub_cancel]
    omega

theorem unrank_succ_upper (n w ord : Nat) (hge : ord ≥ Spec.binom n w) :
    Spec.unrank (n + 1) w ord = 2 ^ n + Spec.unrank n (w - 1) (ord - Spec.binom n w) := by
  rw [Spec.unrank, if_pos hge]

theorem unrank_succ_lower (n w ord : Nat) (hlt : ord < Spec.binom n w) :
    Spec.unrank (n + 1) w ord = Spec.unrank n w ord := by
  rw [Spec.unrank, if_neg (by omega)]

theorem unrank_lt (n w ord : Nat) (h : ord < Spec.binom n w) : Spec.unrank n w ord < 2 ^ n := by
  induction n generalizing w ord with
  | zero => simp [Spec.unrank]
  | succ n ih =>
    rw [Nat.pow_succ]
    by_cases hge : ord ≥ Spec.binom n w
    · have := ih _ _ (upper_case n w ord h hge).2
      rw [unrank_succ_upper n w ord hge]
      omega
    · have := ih w ord (by omega)
      rw [unrank_succ_lower n w ord (by omega)]
      omega

/-- `popcount n` only looks at the bits below `n` -/
theorem popcount_congr (n x y : Nat) (h : ∀ i, i < n → x.testBit i = y.testBit i) :
    Spec.popcount n x = Spec.popcount n y := by
  induction n with
  | zero => rfl
  | succ n ih =>
    rw [Spec.popcount, Spec.popcount, h n (by omega), ih (fun i hi => h i (by omega))]

theorem popcount_two_pow_add (n y : Nat) : Spec.popcount n (2 ^ n + y) = Spec.popcount n y :=
  popcount_congr n _ _ fun _ hi => Nat.testBit_two_pow_add_gt hi y

theorem testBit_two_pow_add_lt (n y : Nat) (hy : y < 2 ^ n) : (2 ^ n + y).testBit n = true := by
  rw [Nat.testBit_two_pow_add_eq, Nat.testBit_lt_two_pow hy]; rfl

theorem popcount_succ_upper (n y : Nat) (hy : y < 2 ^ n) :
    Spec.popcount (n + 1) (2 ^ n + y) = 1 + Spec.popcount n y := by
  rw [Spec.popcount, testBit_two_pow_add_lt n y hy, popcount_two_pow_add]; rfl

theorem popcount_succ_lower (n y : Nat) (hy : y < 2 ^ n) :
    Spec.popcount (n + 1) y = Spec.popcount n y := by
  rw [Spec.popcount, Nat.testBit_lt_two_pow hy]; simp

theorem unrank_popcount (n w ord : Nat) (h : ord < Spec.binom n w) : Spec.popcount n (Spec.unrank n w ord) = w := by
  induction n generalizing w ord with
  | zero =>
    cases w with
    | zero => rfl
    | succ w => simp [Spec.binom] at h
  | succ n ih =>
    by_cases hge : ord ≥ Spec.binom n w
    · obtain ⟨hw, hlt⟩ := upper_case n w ord h hge
      rw [unrank_succ_upper n w ord hge, popcount_succ_upper n _ (unrank_lt n _ _ hlt), ih _ _ hlt]
      omega
    · have hlt : ord < Spec.binom n w := by omega
      rw [unrank_succ_lower n w ord hlt, popcount_succ_lower n _ (unrank_lt n _ _ hlt), ih _ _ hlt]

theorem unrank_strictMono (n w o1 o2 : Nat) (h12 : o1 < o2) (h2 : o2 < Spec.binom n w) :
    Spec.unrank n w o1 < Spec.unrank n w o2 := by
  induction n generalizing w o1 o2 with
  | zero =>
    cases w with
    | zero => simp [Spec.binom] at h2; omega
    | succ w => simp [Spec.binom] at h2
  | succ n ih =>
    by_cases hge2 : o2 ≥ Spec.binom n w
    · obtain ⟨hw, hlt2⟩ := upper_case n w o2 h2 hge2
      rw [unrank_succ_upper n w o2 hge2]
      by_cases hge1 : o1 ≥ Spec.binom n w
      · rw [unrank_succ_upper n w o1 hge1]
        have := ih (w - 1) (o1 - Spec.binom n w) (o2 - Spec.binom n w) (by omega) hlt2
        omega
      · have hlt1 : o1 < Spec.binom n w := by omega
        have := unrank_lt n w o1 hlt1
        rw [unrank_succ_lower n w o1 hlt1]
        omega
    · have hlt2 : o2 < Spec.binom n w := by omega
      rw [unrank_succ_lower n w o2 hlt2, unrank_succ_lower n w o1 (by omega)]
      exact ih w o1 o2 h12 hlt2

example : Spec.unrank 64 3 20 < Spec.unrank 64 3 21 :=
  unrank_strictMono 64 3 20 21 (by decide) (by decide +kernel)

/-! ### rank -/

theorem rank_congr (n x y : Nat) (h : ∀ i, i < n → x.testBit i = y.testBit i) :
    Spec.rank n x = Spec.rank n y := by
  induction n with
  | zero => rfl
  | succ n ih =>
    rw [Spec.rank, Spec.rank, h n (by omega), ih (fun i hi => h i (by omega)),
      popcount_congr (n + 1) x y h]

theorem rank_two_pow_add (n y : Nat) : Spec.rank n (2 ^ n + y) = Spec.rank n y :=
  rank_congr n _ _ fun _ hi => Nat.testBit_two_pow_add_gt hi y

theorem rank_succ_upper (n y : Nat) (hy : y < 2 ^ n) :
    Spec.rank (n + 1) (2 ^ n + y) = Spec.binom n (Spec.popcount n y + 1) + Spec.rank n y := by
  rw [Spec.rank, if_pos (testBit_two_pow_add_lt n y hy), popcount_succ_upper n y hy,
    rank_two_pow_add, Nat.add_comm 1]

theorem rank_succ_lower (n y : Nat) (hy : y < 2 ^ n) :
    Spec.rank (n + 1) y = Spec.rank n y := by
  rw [Spec.rank, Nat.testBit_lt_two_pow hy]; simp

/-- surjectivity onto the weight-w words, through the rank function the judge uses -/
theorem unrank_rank (n x : Nat) (hx : x < 2 ^ n) :
    Spec.rank n x < Spec.binom n (Spec.popcount n x) ∧ Spec.unrank n (Spec.popcount n x) (Spec.rank n x) = x := by
  induction n generalizing x with
  | zero =>
    have : x = 0 := by simpa using hx
    subst this
    simp [Spec.rank, Spec.popcount, Spec.binom, Spec.unrank]
  | succ n ih =>
    rw [Nat.pow_succ] at hx
    by_cases hge : 2 ^ n ≤ x
    · obtain ⟨y, rfl⟩ : ∃ y, x = 2 ^ n + y := ⟨x - 2 ^ n, by omega⟩
      have hy : y < 2 ^ n := by omega
      obtain ⟨ih1, ih2⟩ := ih y hy
      rw [rank_succ_upper n y hy, popcount_succ_upper n y hy, Nat.add_comm 1, binom_succ_succ]
      refine ⟨by omega, ?_⟩
      rw [unrank_succ_upper _ _ _ (by omega)]
      simp only [Nat.add_sub_cancel, Nat.add_sub_cancel_left]
      rw [ih2]
    · have hy : x < 2 ^ n := by omega
      obtain ⟨ih1, ih2⟩ := ih x hy
      rw [rank_succ_lower n x hy, popcount_succ_lower n x hy]
      have := binom_le_succ n (Spec.popcount n x)
      refine ⟨by omega, ?_⟩
      rw [unrank_succ_lower _ _ _ ih1, ih2]

theorem rank_unrank (n w ord : Nat) (h : ord < Spec.binom n w) : Spec.rank n (Spec.unrank n w ord) = ord := by
  induction n generalizing w ord with
  | zero =>
    cases w with
    | zero => simp [Spec.binom] at h; subst h; rfl
    | succ w => simp [Spec.binom] at h
  | succ n ih =>
    by_cases hge : ord ≥ Spec.binom n w
    · obtain ⟨hw, hlt⟩ := upper_case n w ord h hge
      have hy := unrank_lt n _ _ hlt
      rw [unrank_succ_upper n w ord hge, rank_succ_upper n _ hy, unrank_popcount n _ _ hlt, ih _ _ hlt,
        Nat.sub_add_cancel hw]
      omega
    · have hlt : ord < Spec.binom n w := by omega
      rw [unrank_succ_lower n w ord hlt, rank_succ_lower n _ (unrank_lt n _ _ hlt), ih _ _ hlt]

/-! ### decode_u64 -/

theorem or_two_pow (b result : Nat) (hdvd : 2 ^ (b + 1) ∣ result) :
    result ||| (1 <<< b) = result + 2 ^ b := by
  obtain ⟨q, rfl⟩ := hdvd
  rw [Nat.one_shiftLeft]
  exact (Nat.two_pow_add_eq_or_of_lt (Nat.pow_lt_pow_right (by decide) (Nat.lt_succ_self b)) q).symm

theorem decodeLoop_eq (b ones ord result : Nat) (hb : b ≤ 64) (h : ord < Spec.binom b ones)
    (hdvd : 2 ^ b ∣ result) :
    Enumerative.decodeLoop b ones ord result = some (result + Spec.unrank b ones ord) := by
  induction b generalizing ones ord result with
  | zero => simp [decodeLoop, Spec.unrank]
  | succ b ih =>
    rw [decodeLoop, choose_eq b ones (by omega)]
    simp only
    have hdvd' : 2 ^ b ∣ result := Nat.dvd_trans (Nat.pow_dvd_pow 2 (Nat.le_succ b)) hdvd
    by_cases hge : ord ≥ Spec.binom b ones
    · obtain ⟨hw, hlt⟩ := upper_case b ones ord h hge
      rw [if_pos hge, if_neg (by omega), or_two_pow b result hdvd,
        ih _ _ _ (by omega) hlt ((Nat.dvd_add_right hdvd').mpr (Nat.dvd_refl _)),
        unrank_succ_upper b ones ord hge, Nat.add_assoc]
    · rw [if_neg hge, ih _ _ _ (by omega) (by omega) hdvd', unrank_succ_lower b ones ord (by omega)]

/-- the model of decode_u64 computes the pure unranking function (no panic branch is reached) -/
theorem decodeU64_eq (w ord : Nat) (hw : w ≤ 64) (h : ord < Spec.binom 64 w) :
    Enumerative.decodeU64 w ord = some (Spec.unrank 64 w ord) := by
  have _ := hw
  rw [decodeU64, choose_eq 64 w (by omega)]
  simp only
  rw [if_pos h, decodeLoop_eq 64 w ord 0 (by omega) h (Nat.dvd_zero _), Nat.zero_add]

example : Enumerative.decodeU64 3 21 = some 69 := by decide +kernel
example : Spec.unrank 64 3 21 = 69 ∧ 21 < Spec.binom 64 3 := by decide +kernel

/-! ### the iterator -/

theorem take_eq (w cnt o : Nat) (hw : w ≤ 64) :
    Enumerative.take cnt { weight := w, ordinal := o, max := Spec.binom 64 w } =
      some ((List.range' o (min cnt (Spec.binom 64 w - o))).map (Spec.unrank 64 w)) := by
  induction cnt generalizing o with
  | zero => simp [Enumerative.take]
  | succ cnt ih =>
    rw [Enumerative.take, Enumerative.next]
    simp only
    by_cases hlt : o < Spec.binom 64 w
    · rw [if_pos hlt, decodeU64_eq w o hw hlt]
      simp only [Option.map_some]
      rw [ih (o + 1)]
      have : min (cnt + 1) (Spec.binom 64 w - o) = min cnt (Spec.binom 64 w - (o + 1)) + 1 := by omega
      rw [this, List.range'_succ]
      simp
    · rw [if_neg hlt]
      have : min (cnt + 1) (Spec.binom 64 w - o) = 0 := by omega
      simp [this]

/-- the iterator yields unrank 0, unrank 1, …, in this order, and ends exactly after binom 64 w items -/
theorem bwiter_enumerates (w cnt : Nat) (hw : w ≤ 64) :
    (Enumerative.withWeight w).bind (Enumerative.take cnt) =
      some ((List.range (min cnt (Spec.binom 64 w))).map (Spec.unrank 64 w)) := by
  rw [withWeight, choose_eq 64 w (by omega)]
  simp only [Option.map_some, Option.bind_some]
  rw [take_eq w cnt 0 hw, List.range_eq_range']
  simp

example : (Enumerative.withWeight 2).bind (Enumerative.take 4) = some [3, 5, 6, 9] := by decide +kernel

/-! ### the judge's table -/

theorem binom_self_succ (n : Nat) : Spec.binom n (n + 1) = 0 := by
  rw [binom_eq_choose]; exact Nat.choose_eq_zero_of_lt (Nat.lt_succ_self n)

/-- the judge's table is Pascal's triangle -/
theorem pascalRow_eq (n : Nat) : Spec.pascalRow n = (List.range (n + 1)).map (Spec.binom n) := by
  induction n with
  | zero => rfl
  | succ n ih =>
    rw [Spec.pascalRow, ih, Spec.nextRow]
    apply List.ext_getElem
    · simp
    · intro i h1 h2
      simp only [List.length_map, List.length_range] at h2
      rw [List.getElem_zipWith]
      simp only [List.getElem_map, List.getElem_range]
      cases i with
      | zero =>
        simp [binom_zero_right]
      | succ i =>
        simp only [List.getElem_cons_succ, List.getElem_map, List.getElem_range, List.getElem_append,
          List.length_map, List.length_range]
        split
        · rfl
        · have : i = n := by omega
          subst this
          simp [binom_succ_succ, binom_self_succ]

theorem rankT_eq (t : Array (Array Nat)) (n x : Nat) (ht : ∀ m k, m < n → Spec.binomT t m k = Spec.binom m k) :
    Spec.rankT t n x = Spec.rank n x := by
  induction n with
  | zero => rfl
  | succ n ih =>
    rw [Spec.rankT, Spec.rank, ht n _ (Nat.lt_succ_self n), ih (fun m k hm => ht m k (by omega))]

example : Spec.rankT (Spec.pascalTable 8) 8 0b10110 = Spec.rank 8 0b10110 := by decide +kernel

end Tbx.Proofs.ChooseUnrank
