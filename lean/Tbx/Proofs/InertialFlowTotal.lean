import Tbx.Proofs.InertialFlowStep
import Tbx.Proofs.FlowSweepTotal
/-
C03: totality of the model of `sub_step` on the property's quantifier (`Bisection.preOK`), from the total
correctness of the Dinic model (C01/C02: `Tbx.Flow.solvers_return_canonical_cut`, i.e. `dinic_total` +
`assignmentOut_total`), lifted to the bounded phase loop:

  `boundedLoop_total`    wherever the unbounded loop returns within the fuel, the bounded one does too
  `solve_mincut`         whatever `(flow, bits)` the solver call yields is a canonical minimum cut
  `subStepSorted_total`  no panic branch / no out-of-fuel for ANY bound; and there is one result `r` with
                         `0 ≤ r.flow` that is returned for EVERY bound ≥ r.flow
-/
namespace Tbx.InertialFlow
open Tbx Tbx.Flow Tbx.FlowSpec Tbx.FlowTheory Tbx.Bisection Tbx.BisectionCore Tbx.BisectionTheory

/-- the bounded loop follows the unbounded one until it aborts or ends: it returns whenever that does -/
theorem boundedLoop_total (bound : Int) : ∀ (fuel : Nat) (d : Dinic) (flow : Int) (r : Dinic × Int),
    dinicLoop fuel d flow = some r → ∃ r', boundedLoop bound fuel d flow = some r' := by
  intro fuel
  induction fuel with
  | zero => intro d flow r h; simp [dinicLoop] at h
  | succ f ih =>
    intro d flow r h
    unfold dinicLoop at h
    unfold boundedLoop
    split at h
    · cases h
    · rename_i d1 hb; rw [hb]; exact ⟨_, rfl⟩
    · rename_i d1 hb
      rw [hb]
      simp only
      split at h
      · cases h
      · rename_i d2 bf hd
        rw [hd]
        simp only
        by_cases hgt : flow + bf > bound
        · rw [if_pos hgt]; exact ⟨_, rfl⟩
        · rw [if_neg hgt]; exact ih _ _ _ h

theorem runBounded_total (d : Dinic) (fuel : Nat) (bound : Int) (d' : Dinic) (h : d.run fuel = some d') :
    ∃ r, runBounded d fuel bound = some r := by
  unfold Dinic.run at h
  unfold runBounded
  simp only at h ⊢
  split at h
  · cases h
  · rename_i hg
    rw [if_neg hg]
    split at h
    · cases h
    · rename_i d1 flow hl
      obtain ⟨⟨d2, F, ab⟩, hr⟩ := boundedLoop_total bound _ _ _ _ hl
      rw [hr]
      cases ab <;> exact ⟨_, rfl⟩

theorem unit_caps_sum : ∀ (es : List Edge), (∀ e, e ∈ es → e.cap = 1) →
    (es.map Edge.cap).sum.toNat + 2 = es.length + 2 := by
  intro es h
  have : (es.map Edge.cap).sum = (es.length : Int) := by
    induction es with
    | nil => rfl
    | cons a l ih =>
      simp only [List.map_cons, List.sum_cons, List.length_cons]
      rw [ih (fun e he => h e (List.mem_cons_of_mem _ he)), h a List.mem_cons_self]
      omega
  rw [this]; simp

/-- a non-empty loop-free edge list has a node with id ≥ 1 -/
theorem nNodes_ge2 (es : List E) (hne : es ≠ []) (hl : ∀ e, e ∈ es → e.1 ≠ e.2.1) : 1 < nNodes es := by
  obtain ⟨e, he⟩ := List.exists_mem_of_ne_nil es hne
  have := le_maxId es e he
  have := hl e he
  unfold nNodes; omega

/-- unit capacities and loop-freeness of the edge list handed to the solver -/
theorem prep_edges_unit (edges : List (Nat × Nat)) (sorted : List Nat) (k : Nat)
    (hdisj : ∀ x, x ∈ firstK sorted k → x ∉ lastK sorted k) :
    (∀ e, e ∈ (prep edges sorted k).edges → e.cap = 1) ∧
    (∀ e, e ∈ (prep edges sorted k).edges.map toE → e.1 ≠ e.2.1) := by
  have hedges := prep_edges edges sorted k hdisj
  constructor
  · intro e he
    have : toE e ∈ (prep edges sorted k).edges.map toE := List.mem_map_of_mem he
    rw [hedges] at this
    unfold contractBy at this
    simp only [List.mem_map] at this
    obtain ⟨e0, _, he0⟩ := this
    have := congrArg (·.2.2) he0
    simpa [toE] using this.symm
  · intro e he
    rw [hedges] at he
    unfold contractBy at he
    simp only [List.mem_map, List.mem_filter] at he
    obtain ⟨e0, ⟨_, hne⟩, rfl⟩ := he
    simpa using hne

/-- whatever `(flow, bits)` the solver call yields: `sideBit bits` is the canonical minimum cut of the
    contracted cell graph (the core of `subStepSorted_valid`, reusable) -/
theorem solve_mincut (edges : List (Nat × Nat)) (sorted : List Nat) (k : Nat) (bound : Int)
    (hpre : preOK edges sorted k = true) (hsz : 2 * edges.length + 6 < INV) (flow : Int)
    (bits : Array Bool) (b' : Int)
    (hs : solve (prep edges sorted k) bound = some (some (flow, bits), b')) :
    MinCut edges sorted (prep edges sorted k).table.get (prep edges sorted k).table.containsKey
      flow (sideBit bits) := by
  have hpre' := hpre
  simp only [preOK, Bool.and_eq_true, decide_eq_true_eq, List.all_eq_true, List.contains_iff_mem] at hpre'
  obtain ⟨⟨⟨⟨hnd, _⟩, _⟩, hk2⟩, _⟩ := hpre'
  have hdisj := take_drop_disjoint sorted k hnd hk2
  have hedges := prep_edges edges sorted k hdisj
  obtain ⟨hcap, hN⟩ := prep_solver_pre edges sorted k hpre hsz
  rcases solve_ok _ _ _ _ _ hs with ⟨he, rfl, rfl, _⟩ | ⟨hne, d, d', hd, hrun, hflow, hbits, _, _⟩
  · apply mincut_of_empty
    · rw [← hedges, he]; rfl
    · decide
    · intro p hp
      simp only [sideBit, Bool.and_eq_true, decide_eq_true_eq] at hp
      have : (#[true] : Array Bool).size = 1 := rfl
      omega
  · obtain ⟨hs0, ht1, hsize, h0, h1, hval, _, hmin, hcan⟩ :=
      dinic_assignment (prep edges sorted k).edges 0 1 hcap (by omega) hN d hd _ d' hrun bits hbits
    rw [hflow] at hval hcan
    have hm := mincut_of_finset' (prep edges sorted k).table.get edges sorted
      (prep edges sorted k).table.containsKey flow (fun v => gt bits v)
      ((prep edges sorted k).edges.map toE) hedges.symm hs0 ht1 h0 h1 hval hmin hcan
    have hsb : sideBit bits = fun p =>
        decide (p < nNodes ((prep edges sorted k).edges.map toE)) && gt bits p := by
      funext p; unfold sideBit; rw [hsize]
    rw [hsb]; exact hm

/-- once the solver call has yielded `(flow, bits)` the step returns `Ok`: both sides are non-empty
    (the first end is left, the last end is right), and the flow is non-negative -/
theorem sides_of_solve (edges : List (Nat × Nat)) (sorted : List Nat) (k : Nat) (bound : Int)
    (hpre : preOK edges sorted k = true) (hsz : 2 * edges.length + 6 < INV) (flow : Int)
    (bits : Array Bool) (b' : Int)
    (hs : solve (prep edges sorted k) bound = some (some (flow, bits), b')) :
    0 ≤ flow ∧
    subStepSortedB edges sorted k bound =
      (.ok { flow := flow, left := (partitionIds (prep edges sorted k).table bits sorted).1,
             right := (partitionIds (prep edges sorted k).table bits sorted).2 }, b') := by
  have hm := solve_mincut edges sorted k bound hpre hsz flow bits b' hs
  have hc := prep_contr edges sorted k hpre
  have hpre' := hpre
  simp only [preOK, Bool.and_eq_true, decide_eq_true_eq, List.all_eq_true, List.contains_iff_mem] at hpre'
  obtain ⟨⟨⟨⟨_, hn⟩, hk1⟩, hk2⟩, _⟩ := hpre'
  have hl := partitionIds_left (prep edges sorted k).table bits sorted
  have hr := partitionIds_right (prep edges sorted k).table bits sorted
  have hv := valid_of_mincut hc hm k rfl rfl _ _ hl hr
  refine ⟨by rw [hm.val]; omega, ?_⟩
  unfold subStepSortedB
  have hk : ¬ (k = 0 ∨ sorted.length < k) := by omega
  rw [if_neg hk]
  simp only [hs]
  have hS : firstK sorted k ≠ [] := firstK_ne_nil sorted k hk1 (by omega)
  have hT : lastK sorted k ≠ [] := by
    unfold lastK
    intro h
    have := congrArg List.length h
    rw [List.length_drop] at this
    simp only [List.length_nil] at this
    omega
  obtain ⟨x, hx⟩ := List.exists_mem_of_ne_nil _ hS
  obtain ⟨y, hy⟩ := List.exists_mem_of_ne_nil _ hT
  have hxl := hv.endsL x hx
  have hyr := hv.endsR y hy
  have hne : ¬ ((partitionIds (prep edges sorted k).table bits sorted).1.isEmpty = true ∨
      (partitionIds (prep edges sorted k).table bits sorted).2.isEmpty = true) := by
    rintro (h | h)
    · rw [List.isEmpty_iff] at h; rw [h] at hxl; cases hxl
    · rw [List.isEmpty_iff] at h; rw [h] at hyr; cases hyr
  rw [if_neg hne]

/-- **totality of the step on the property's quantifier**: for no bound does the model reach a panic
    branch or run out of fuel, and there is one result `r`, `0 ≤ r.flow`, that the step returns for EVERY
    bound ≥ r.flow (publishing min(bound, flow)) -/
theorem subStepSorted_total (edges : List (Nat × Nat)) (sorted : List Nat) (k : Nat)
    (hpre : preOK edges sorted k = true) (hsz : 2 * edges.length + 6 < INV) :
    (∀ b : Int, subStepSorted edges sorted k b ≠ .panic) ∧
    ∃ r : FlowRes, 0 ≤ r.flow ∧ ∀ b : Int, r.flow ≤ b →
      subStepSorted edges sorted k b = .ok r ∧ boundAfter edges sorted k b = min b r.flow := by
  have hpre' := hpre
  simp only [preOK, Bool.and_eq_true, decide_eq_true_eq, List.all_eq_true, List.contains_iff_mem] at hpre'
  obtain ⟨⟨⟨⟨hnd, hn⟩, hk1⟩, hk2⟩, _⟩ := hpre'
  have hdisj := take_drop_disjoint sorted k hnd hk2
  obtain ⟨hcap, hN⟩ := prep_solver_pre edges sorted k hpre hsz
  obtain ⟨hunit, hloop⟩ := prep_edges_unit edges sorted k hdisj
  by_cases hemp : (prep edges sorted k).edges = []
  · -- no solver runs
    have hsolve : ∀ b : Int, solve (prep edges sorted k) b = some (some (0, #[true]), min b 0) := by
      intro b; unfold solve; simp [hemp]
    constructor
    · intro b hp
      obtain ⟨_, h⟩ := sides_of_solve edges sorted k b hpre hsz 0 #[true] _ (hsolve b)
      unfold subStepSorted at hp; rw [h] at hp; cases hp
    · refine ⟨{ flow := 0, left := (partitionIds (prep edges sorted k).table #[true] sorted).1,
                right := (partitionIds (prep edges sorted k).table #[true] sorted).2 }, Int.le_refl _, ?_⟩
      intro b _
      obtain ⟨_, h⟩ := sides_of_solve edges sorted k b hpre hsz 0 #[true] _ (hsolve b)
      unfold subStepSorted boundAfter; rw [h]; exact ⟨rfl, rfl⟩
  · -- Dinic runs: total by C01/C02
    have hn2 := nNodes_ge2 _ (by simpa using hemp) hloop
    obtain ⟨bits, x, d, d', _, _, hd, hrun, _, _, hmf, _, _, hbits, _, _, _, _⟩ :=
      solvers_return_canonical_cut (prep edges sorted k).edges 0 1 hcap (by omega) (by omega) hn2 hN
    rw [unit_caps_sum _ hunit] at hrun
    have hrun' : d.run (phaseFuel (prep edges sorted k)) = some d' := hrun
    have hfin : d'.finished = true := by
      unfold Dinic.maxFlow? maxFlowOut at hmf
      cases hf : d'.finished with
      | true => rfl
      | false => rw [hf] at hmf; simp at hmf
    have hx : d'.maxFlow = x := by
      unfold Dinic.maxFlow? maxFlowOut at hmf
      rw [hfin] at hmf
      simpa using hmf
    have hne' : (prep edges sorted k).edges.isEmpty = false := by
      cases h' : (prep edges sorted k).edges with
      | nil => exact absurd h' hemp
      | cons _ _ => rfl
    have hmf' : d'.maxFlow? = .ok d'.maxFlow := by unfold Dinic.maxFlow? maxFlowOut; simp [hfin]
    -- the solver call for a bound at least the flow
    have hsolve : ∀ b : Int, x ≤ b →
        solve (prep edges sorted k) b = some (some (x, bits), min b x) := by
      intro b hb
      have hrb := runBounded_of_run _ 0 1 hcap (by omega) hN d hd _ d' hrun' b (by rw [hx]; exact hb)
      unfold solve
      simp only [hne', Bool.false_eq_true, ↓reduceIte, hd, hrb, hmf']
      simp only [hbits, hx]
    constructor
    · intro b hp
      obtain ⟨⟨d2, b2⟩, hrb⟩ := runBounded_total d (phaseFuel (prep edges sorted k)) b d' hrun'
      rcases runBounded_spec d (fromEdgeList_fin _ _ _ _ hd) _ _ _ _ hrb with ⟨hf, _⟩ | ⟨hf, hr2, hb2, _⟩
      · -- aborted
        have herr : d2.maxFlow? = .err := by unfold Dinic.maxFlow? maxFlowOut; simp [hf]
        have hs : solve (prep edges sorted k) b = some (none, b2) := by
          unfold solve
          simp only [hne', Bool.false_eq_true, ↓reduceIte, hd, hrb, herr]
        unfold subStepSorted subStepSortedB at hp
        have hk : ¬ (k = 0 ∨ sorted.length < k) := by omega
        rw [if_neg hk] at hp
        simp only [hs] at hp
        cases hp
      · -- completed: it is the unbounded run
        have hdd : d2 = d' := by rw [hrun'] at hr2; exact (Option.some.inj hr2).symm
        subst hdd
        have hs : solve (prep edges sorted k) b = some (some (x, bits), b2) := by
          unfold solve
          simp only [hne', Bool.false_eq_true, ↓reduceIte, hd, hrb, hmf']
          simp only [hbits, hx]
        obtain ⟨_, h⟩ := sides_of_solve edges sorted k b hpre hsz x bits _ hs
        unfold subStepSorted at hp; rw [h] at hp; cases hp
    · have h0 := (sides_of_solve edges sorted k x hpre hsz x bits _ (hsolve x (Int.le_refl _))).1
      refine ⟨{ flow := x, left := (partitionIds (prep edges sorted k).table bits sorted).1,
                right := (partitionIds (prep edges sorted k).table bits sorted).2 }, h0, ?_⟩
      intro b hb
      obtain ⟨_, h⟩ := sides_of_solve edges sorted k b hpre hsz x bits _ (hsolve b hb)
      unfold subStepSorted boundAfter; rw [h]; exact ⟨rfl, rfl⟩

end Tbx.InertialFlow
