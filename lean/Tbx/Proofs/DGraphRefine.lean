import Tbx.Proofs.DGraphOps
import Tbx.Proofs.DGraphNew
/-
Refinement: every operation of the dynamic graph model refines the adjacency-multiset
specification `Tbx.Adj`, and so does every history.
-/
namespace Tbx.DG
open Tbx
open Tbx.SG (InEdge EEntry maxId toSpec)
open Tbx.Adj (adjOf)

/-- the model state `g` represents the abstract state `σ` -/
structure Refines (g : Graph) (σ : Adj.S) : Prop where
  inv : Inv g
  nodes : g.numNodes = σ.n
  edges : g.numEdges = σ.es.length
  adj : ∀ v, (adjM g v).Perm (adjOf σ.es v)

/-! ### the Spec's operations on adjacency lists -/

theorem adjOf_append_single (es : List Adj.Edge) (s t : Nat) (d : Int) (v : Nat) :
    adjOf (es ++ [⟨s, t, d⟩]) v = adjOf es v ++ (if v = s then [(t, d)] else []) := by
  unfold adjOf
  rw [List.filter_append, List.map_append]
  congr 1
  by_cases c : v = s
  · subst c; simp
  · have : ¬ s = v := fun h => c h.symm
    simp [c, this]

theorem adjOf_perm (es es' : List Adj.Edge) (h : es.Perm es') (v : Nat) : (adjOf es v).Perm (adjOf es' v) :=
  (h.filter _).map _

theorem adjOf_cons (x : Adj.Edge) (es : List Adj.Edge) (v : Nat) :
    adjOf (x :: es) v = if x.src = v then (x.tgt, x.data) :: adjOf es v else adjOf es v := by
  unfold adjOf
  by_cases c : x.src = v
  · simp [c]
  · simp [c]

theorem mem_adjOf (es : List Adj.Edge) (v t : Nat) (d : Int) :
    (t, d) ∈ adjOf es v ↔ (⟨v, t, d⟩ : Adj.Edge) ∈ es := by
  unfold adjOf
  simp only [List.mem_map, List.mem_filter, beq_iff_eq, Prod.mk.injEq]
  constructor
  · rintro ⟨x, ⟨hx, hs⟩, ht, hd⟩
    have : x = ⟨v, t, d⟩ := by cases x; simp_all
    exact this ▸ hx
  · intro h; exact ⟨_, ⟨h, rfl⟩, rfl, rfl⟩

theorem replaceFirst_perm (a b : Adj.Edge) (es : List Adj.Edge) (h : a ∈ es) :
    (a :: Adj.replaceFirst a b es).Perm (b :: es) := by
  induction es with
  | nil => cases h
  | cons x xs ih =>
    simp only [Adj.replaceFirst]
    by_cases c : x = a
    · subst c; rw [if_pos rfl]; exact List.Perm.swap _ _ _
    · rw [if_neg c]
      have hm : a ∈ xs := by
        rcases List.mem_cons.mp h with h | h
        · exact absurd h.symm c
        · exact h
      exact ((List.Perm.swap _ _ _).trans (List.Perm.cons _ (ih hm))).trans (List.Perm.swap _ _ _)

theorem replaceFirst_length (a b : Adj.Edge) (es : List Adj.Edge) : (Adj.replaceFirst a b es).length = es.length := by
  induction es with
  | nil => rfl
  | cons x xs ih =>
    simp only [Adj.replaceFirst]
    split <;> simp [ih]

/-- a slot owned by `s` shows up in `s`'s adjacency -/
theorem mem_adjM_of_owns (g : Graph) (s e : Nat) (hs : s < g.numNodes) (ho : owns g s e) :
    (target g e, data g e) ∈ adjM g s := by
  unfold adjM
  rw [if_pos hs]
  unfold adjList edgeRange beginEdges outDegree
  exact List.mem_map.mpr ⟨e, List.mem_range'_1.mpr ho, rfl⟩

theorem owns_of_mem_adjM (g : Graph) (s : Nat) (p : Nat × Int) (h : p ∈ adjM g s) :
    s < g.numNodes ∧ ∃ e, owns g s e ∧ (target g e, data g e) = p := by
  unfold adjM at h
  split at h
  · rename_i hs
    unfold adjList edgeRange beginEdges outDegree at h
    obtain ⟨e, he, hp⟩ := List.mem_map.mp h
    exact ⟨hs, e, List.mem_range'_1.mp he, hp⟩
  · cases h

/-! ### every operation refines the Spec -/

theorem refines_new (n : Nat) (inp : List InEdge) (hn : n ≤ maxId)
    (hids : Adj.idsBelow n (toSpec inp) = true) : Refines (DG.new n inp) (Adj.init n (toSpec inp)) := by
  have hb : ∀ x ∈ inp, x.src < n ∧ x.tgt < n := by
    intro x hx
    have := List.all_eq_true.mp hids ⟨x.src, x.tgt, x.data⟩ (List.mem_map.mpr ⟨x, hx, rfl⟩)
    simpa using this
  have hp := SG.sorted_perm inp
  have hs := SG.sorted_sortedBySrc inp
  have hI := nfsl_inv n (SG.sorted inp) hs
    (fun x hx => (hb x (hp.mem_iff.mp hx)).1)
    (fun x hx => by have := (hb x (hp.mem_iff.mp hx)).2; omega)
  refine ⟨hI.1, rfl, ?_, ?_⟩
  · show (SG.sorted inp).length = (toSpec inp).length
    rw [hp.length_eq]; simp [toSpec]
  · intro v
    show (adjM (newFromSortedList n (SG.sorted inp)) v).Perm _
    rw [hI.2 v, show (Adj.init n (toSpec inp)).es = toSpec inp from rfl, SG.adjOf_toSpec]
    exact (hp.filter _).map _

theorem refines_insertNode (g : Graph) (σ : Adj.S) (h : Refines g σ) :
    ∃ g', insertNode g = some g' ∧ Refines g' (Adj.insertNode σ) := by
  obtain ⟨g', hg'⟩ := Option.isSome_iff_exists.mp (insertNode_isSome g h.inv)
  obtain ⟨hI, hn, hm, _, _, ha⟩ := insertNode_inv g g' h.inv hg'
  refine ⟨g', hg', hI, ?_, ?_, ?_⟩
  · rw [hn, h.nodes]; rfl
  · rw [hm, h.edges]; rfl
  · intro v; rw [ha v]; exact h.adj v

theorem refines_insertEdge (g : Graph) (σ : Adj.S) (s t : Nat) (d : Int) (h : Refines g σ) (ht : t ≠ maxId) :
    ∃ g', insertEdge g s t d = some g' ∧ Refines g' (Adj.insertEdge σ s t d) := by
  obtain ⟨g', hg', hI, hn, hm, hs, ha⟩ := insertEdge_inv g s t d h.inv ht
  refine ⟨g', hg', hI, ?_, ?_, ?_⟩
  · rw [hn, h.nodes]; rfl
  · rw [hm, h.edges]; simp [Adj.insertEdge]
  · intro v
    show (adjM g' v).Perm (adjOf (σ.es ++ [⟨s, t, d⟩]) v)
    rw [adjOf_append_single]
    by_cases c : v = s
    · subst c; rw [if_pos rfl]
      exact hs.trans (List.Perm.append_right _ (h.adj v))
    · rw [if_neg c, ha v c, List.append_nil]; exact h.adj v

theorem refines_removeEdge (g : Graph) (σ : Adj.S) (s e : Nat) (h : Refines g σ) (hs : s < g.numNodes)
    (ho : owns g s e) :
    ∃ g', removeEdge g s e = some g' ∧ Refines g' (Adj.removeEdge σ s (target g e) (data g e)) ∧
      (⟨s, target g e, data g e⟩ : Adj.Edge) ∈ σ.es := by
  obtain ⟨g', hg', hI, hn, hm, hp, ha⟩ := removeEdge_inv g s e h.inv hs ho
  have hmem : (⟨s, target g e, data g e⟩ : Adj.Edge) ∈ σ.es :=
    (mem_adjOf σ.es s _ _).mp ((h.adj s).mem_iff.mp (mem_adjM_of_owns g s e hs ho))
  have hpe := List.perm_cons_erase hmem
  refine ⟨g', hg', ⟨hI, ?_, ?_, ?_⟩, hmem⟩
  · rw [hn, h.nodes]; rfl
  · show g'.numEdges = (σ.es.erase _).length
    rw [List.length_erase_of_mem hmem, ← h.edges]; omega
  · intro v
    show (adjM g' v).Perm (adjOf (σ.es.erase _) v)
    have hv := adjOf_perm _ _ hpe v
    rw [adjOf_cons] at hv
    by_cases c : v = s
    · subst c
      rw [if_pos rfl] at hv
      -- (t,d) :: adjM g' v ~ adjM g v ~ adjOf es v ~ (t,d) :: adjOf (erase) v
      exact List.Perm.cons_inv ((hp.symm.trans (h.adj v)).trans hv)
    · rw [if_neg (fun h' => c h'.symm)] at hv
      rw [ha v c]
      exact (h.adj v).trans hv

theorem refines_setData (g : Graph) (σ : Adj.S) (s e : Nat) (d' : Int) (h : Refines g σ) (hs : s < g.numNodes)
    (ho : owns g s e) :
    Refines (setData g e d') (Adj.setData σ s (target g e) (data g e) d') ∧ data (setData g e d') e = d' ∧
      (⟨s, target g e, data g e⟩ : Adj.Edge) ∈ σ.es := by
  obtain ⟨hI, hn, hm, hrb, _, hp, ha⟩ := setData_inv g s e d' h.inv hs ho
  have hmem : (⟨s, target g e, data g e⟩ : Adj.Edge) ∈ σ.es :=
    (mem_adjOf σ.es s _ _).mp ((h.adj s).mem_iff.mp (mem_adjM_of_owns g s e hs ho))
  have hr := replaceFirst_perm ⟨s, target g e, data g e⟩ ⟨s, target g e, d'⟩ σ.es hmem
  refine ⟨⟨hI, ?_, ?_, ?_⟩, hrb, hmem⟩
  · rw [hn, h.nodes]; rfl
  · show (setData g e d').numEdges = (Adj.replaceFirst _ _ σ.es).length
    rw [replaceFirst_length, hm, h.edges]
  · intro v
    show (adjM (setData g e d') v).Perm (adjOf (Adj.replaceFirst _ _ σ.es) v)
    have hv := adjOf_perm _ _ hr v
    rw [adjOf_cons, adjOf_cons] at hv
    by_cases c : v = s
    · subst c
      rw [if_pos rfl, if_pos rfl] at hv
      -- (t,d) :: adjM g' ~ (t,d') :: adjM g ~ (t,d') :: adjOf es ~ (t,d) :: adjOf rf
      exact List.Perm.cons_inv ((hp.trans (List.Perm.cons _ (h.adj v))).trans hv.symm)
    · rw [if_neg (fun h' => c h'.symm), if_neg (fun h' => c h'.symm)] at hv
      rw [ha v c]
      exact (h.adj v).trans hv.symm

/-! ### what the API shows of a state that refines `σ` -/

theorem refines_observers (g : Graph) (σ : Adj.S) (h : Refines g σ) :
    numberOfNodes g = Adj.numNodes σ ∧ numberOfEdges g = Adj.numEdges σ ∧
    (∀ v, v < g.numNodes → outDegree g v = Adj.degree σ v ∧ (adjList g v).Perm (adjOf σ.es v)) ∧
    (∀ v, g.numNodes ≤ v → adjOf σ.es v = []) := by
  refine ⟨h.nodes, h.edges, ?_, ?_⟩
  · intro v hv
    have := h.adj v
    unfold adjM at this
    rw [if_pos hv] at this
    refine ⟨?_, this⟩
    have hl := this.length_eq
    simpa [adjList, edgeRange, Adj.degree] using hl
  · intro v hv
    have := h.adj v
    unfold adjM at this
    rw [if_neg (by omega)] at this
    exact this.symm.eq_nil

theorem refines_findEdge (g : Graph) (σ : Adj.S) (h : Refines g σ) (s t : Nat) :
    ∃ r, findEdge g s t = some r ∧ (r.isSome ↔ Adj.HasEdge σ s t) ∧
      (g.numNodes ≤ s → r = none) ∧
      (∀ e, r = some e → owns g s e ∧ target g e = t) := by
  obtain ⟨r, hr, h1, h2, h3⟩ := findEdge_spec g h.inv s t
  refine ⟨r, hr, ?_, h1, fun e he => ⟨(h2 e he).2.1, (h2 e he).2.2.1⟩⟩
  constructor
  · intro hsome
    obtain ⟨e, he⟩ := Option.isSome_iff_exists.mp hsome
    obtain ⟨hs, ho, ht, _⟩ := h2 e he
    refine ⟨by rw [← h.nodes]; exact hs, ⟨s, t, data g e⟩, ?_, rfl, rfl⟩
    have := mem_adjM_of_owns g s e hs ho
    rw [ht] at this
    exact (mem_adjOf σ.es s t _).mp ((h.adj s).mem_iff.mp this)
  · rintro ⟨hs, x, hx, hxs, hxt⟩
    cases hr' : r with
    | some e => rfl
    | none =>
      exfalso
      have hm : (x.tgt, x.data) ∈ adjOf σ.es s := by
        rw [← hxs]; exact (mem_adjOf σ.es x.src x.tgt x.data).mpr (by cases x; exact hx)
      obtain ⟨_, e, ho, hp⟩ := owns_of_mem_adjM g s _ ((h.adj s).mem_iff.mpr hm)
      have := h3 hr' e ho
      have : target g e = x.tgt := congrArg Prod.fst hp
      omega

/-! ### histories -/

inductive DOp where
  | ins (s t : Nat) (d : Int)
  | node
  | rem (s e : Nat)
  | setd (s e : Nat) (d : Int)

/-- one operation on the model -/
def stepM (g : Graph) : DOp → Option Graph
  | .ins s t d => insertEdge g s t d
  | .node => insertNode g
  | .rem s e => removeEdge g s e
  | .setd _ e d => some (setData g e d)

/-- the same operation on the Spec (edge ids are translated through what the API shows of them) -/
def stepS (g : Graph) (σ : Adj.S) : DOp → Adj.S
  | .ins s t d => Adj.insertEdge σ s t d
  | .node => Adj.insertNode σ
  | .rem s e => Adj.removeEdge σ s (target g e) (data g e)
  | .setd s e d => Adj.setData σ s (target g e) (data g e) d

/-- domain of an operation: targets are not `usize::MAX`; edge ids belong to the named source -/
def okOp (g : Graph) : DOp → Prop
  | .ins _ t _ => t ≠ maxId
  | .node => True
  | .rem s e => s < g.numNodes ∧ owns g s e
  | .setd s e _ => s < g.numNodes ∧ owns g s e

def runM (g : Graph) : List DOp → Option Graph
  | [] => some g
  | o :: os => (stepM g o).bind fun g' => runM g' os

def runS (g : Graph) (σ : Adj.S) : List DOp → Adj.S
  | [] => σ
  | o :: os => match stepM g o with
    | some g' => runS g' (stepS g σ o) os
    | none => σ

def ValidHistory (g : Graph) : List DOp → Prop
  | [] => True
  | o :: os => okOp g o ∧ ∀ g', stepM g o = some g' → ValidHistory g' os

theorem step_refines (g : Graph) (σ : Adj.S) (o : DOp) (h : Refines g σ) (hok : okOp g o) :
    ∃ g', stepM g o = some g' ∧ Refines g' (stepS g σ o) := by
  cases o with
  | ins s t d => exact refines_insertEdge g σ s t d h hok
  | node => exact refines_insertNode g σ h
  | rem s e =>
    obtain ⟨g', hg', hr, _⟩ := refines_removeEdge g σ s e h hok.1 hok.2
    exact ⟨g', hg', hr⟩
  | setd s e d => exact ⟨_, rfl, (refines_setData g σ s e d h hok.1 hok.2).1⟩

theorem history_refines (ops : List DOp) (g : Graph) (σ : Adj.S) (h : Refines g σ) (hv : ValidHistory g ops) :
    ∃ g', runM g ops = some g' ∧ Refines g' (runS g σ ops) := by
  induction ops generalizing g σ with
  | nil => exact ⟨g, rfl, h⟩
  | cons o os ih =>
    obtain ⟨g1, hg1, hr1⟩ := step_refines g σ o h hv.1
    obtain ⟨g', hg', hr'⟩ := ih g1 _ hr1 (hv.2 g1 hg1)
    refine ⟨g', ?_, ?_⟩
    · simp only [runM, hg1, Option.bind_some]; exact hg'
    · simp only [runS, hg1]; exact hr'

end Tbx.DG
