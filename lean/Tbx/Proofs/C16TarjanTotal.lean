import Tbx.Proofs.C16Tarjan
/-
Tarjan (`Model/Tarjan.lean`): on a well-formed graph `run` never reaches a panic branch and the
fuel passed to each root's `loop` suffices.

  Chain V root v d   the caller chain v, caller(v), …, root has d nodes, all on the Tarjan stack,
                     with strictly decreasing indices (so `last` is found by the SCC pop loop, and
                     popping at `last` leaves its callers on the stack)
  measure            remaining edge slots + unvisited nodes + length of the caller chain
Core Lean only.
-/
namespace Tbx.Tarjan
open Tbx Tbx.Csr

/-- callers were visited earlier -/
def TA (n root ri : Nat) (V : View) : Prop :=
  ∀ v, v < n → V.I v ≠ maxU → ri ≤ V.I v → v ≠ root → V.I (V.C v) < V.I v

inductive Chain (V : View) (root : Nat) : Nat → Nat → Prop where
  | base : InStack V.stack root → Chain V root root 1
  | step {v d : Nat} : v ≠ root → InStack V.stack v → V.I (V.C v) < V.I v → Chain V root (V.C v) d →
      Chain V root v (d + 1)

theorem Chain.inStack {V : View} {root v d : Nat} (h : Chain V root v d) : InStack V.stack v := by
  cases h with
  | base h => exact h
  | step _ h _ _ => exact h

theorem Chain_of_eq {V V' : View} {root : Nat} (hs : V'.stack = V.stack) (hI : V'.I = V.I) (hC : V'.C = V.C) :
    ∀ {v d : Nat}, Chain V root v d → Chain V' root v d := by
  intro v d h
  induction h with
  | base h => exact .base (by rw [hs]; exact h)
  | step h1 h2 h3 _ ih =>
    refine .step h1 (by rw [hs]; exact h2) (by rw [hI, hC]; exact h3) ?_
    rw [hC]; exact ih

theorem Chain_setL {V : View} {root : Nat} (x y : Nat) {v d : Nat} (h : Chain V root v d) :
    Chain (V.setL x y) root v d :=
  Chain_of_eq (V := V) (V' := V.setL x y) rfl rfl rfl h

theorem Chain_push {n : Nat} {V : View} {root : Nat} (hs : TS n V) (w c : Nat) (hI : V.I w = maxU) :
    ∀ {v d : Nat}, Chain V root v d → Chain (V.push w c) root v d := by
  intro v d h
  have hne : ∀ u, InStack V.stack u → u ≠ w := by
    rintro u ⟨i, hi, he⟩ huw
    exact hs.stk_vis i hi (by rw [he, huw]; exact hI)
  induction h with
  | base h => exact .base (inStack_push w h)
  | @step v d h1 h2 h3 h4 ih =>
    have hv := hne v h2
    have hcv := hne _ h4.inStack
    refine .step h1 (inStack_push w h2) ?_ ?_
    · simp only [View.push, if_neg hv, if_neg hcv]; exact h3
    · have : (V.push w c).C v = V.C v := by simp only [View.push, if_neg hv]
      rw [this]; exact ih

theorem Chain_popped {n : Nat} {V0 V' : View} {p last root : Nat} (hs : TS n V0) (hp : Popped V0.bump V' p last) :
    ∀ {v d : Nat}, Chain V0 root v d → V0.I v < V0.I last → Chain V' root v d := by
  intro v d h
  have hkeep : ∀ u, InStack V0.stack u → V0.I u < V0.I last → InStack V'.stack u := by
    rintro u ⟨i, hi, he⟩ hlt
    have hpl : p < V0.stack.size := hp.p_lt
    have hat : gt V0.stack p = last := hp.at_p
    have hip : i < p := by
      apply Decidable.byContradiction
      intro hh
      by_cases hie : i = p
      · subst hie; rw [he] at hat; rw [hat] at hlt; omega
      · have := hs.stk_mono p i (by omega) hi
        rw [hat, he] at this; omega
    exact ⟨i, by rw [hp.size']; exact hip, by rw [hp.pre i hip]; exact he⟩
  induction h with
  | base h => intro hlt; exact .base (hkeep _ h hlt)
  | @step v d h1 h2 h3 h4 ih =>
    intro hlt
    refine .step h1 (hkeep v h2 hlt) (by rw [hp.I_eq, hp.C_eq]; exact h3) ?_
    rw [hp.C_eq]
    exact ih (by simp only [View.bump] at *; omega)

theorem TA_push {n root ri : Nat} {V : View} (hs : TS n V) (hd : TD n root ri V) (ha : TA n root ri V) (w c : Nat)
    (hI : V.I w = maxU) (hc : c < n) (hcv : V.I c ≠ maxU) : TA n root ri (V.push w c) := by
  intro v hv hvis hge hvr
  simp only [View.push] at hvis hge ⊢
  have hcw : c ≠ w := fun he => hcv (he ▸ hI)
  by_cases hvw : v = w
  · rw [if_pos hvw, if_pos hvw, if_neg hcw]
    exact hs.vis_lt c hc hcv
  · rw [if_neg hvw] at hvis hge
    rw [if_neg hvw, if_neg hvw]
    obtain ⟨_, h2, _⟩ := hd.N v hv hvis hge hvr
    have : V.C v ≠ w := fun he => h2 (he ▸ hI)
    rw [if_neg this]
    exact ha v hv hvis hge hvr

theorem TA_root {n : Nat} {V : View} (hs : TS n V) (root : Nat) : TA n root V.index (V.push root maxU) := by
  intro v hv hvis hge hvr
  simp only [View.push] at hvis hge
  rw [if_neg hvr] at hvis hge
  have := hs.vis_lt v hv hvis
  omega

/-! ### the edge-slot measure -/

def remSum (g : Graph) (r : Run) : Nat :=
  sumTo (fun v => if (gt r.dfs v).index = maxU then outDegree g v else outDegree g v - (gt r.dfs v).neighbor) (numNodes g)

theorem remSum_congr (g : Graph) (r r' : Run)
    (h : ∀ v, (gt r'.dfs v).index = (gt r.dfs v).index ∧ (gt r'.dfs v).neighbor = (gt r.dfs v).neighbor) :
    remSum g r' = remSum g r := by
  simp only [remSum]
  congr 1
  funext v
  rw [(h v).1, (h v).2]

theorem remSum_le (g : Graph) (hwf : WF g) (r : Run) : remSum g r ≤ numEdges g :=
  Nat.le_trans (sumTo_le _ _ _ (fun i _ => by split <;> omega)) hwf.sum_outDegree

theorem remSum_incNeighbor (g : Graph) (r : Run) (last : Nat) (hl : last < numNodes g) (hls : last < r.dfs.size)
    (hvis : (gt r.dfs last).index ≠ maxU) (hlt : (gt r.dfs last).neighbor < outDegree g last) :
    remSum g (incNeighbor r last) + 1 = remSum g r := by
  have hidx : ∀ v, (gt (incNeighbor r last).dfs v).index = (gt r.dfs v).index :=
    fun v => gt_upd_proj (·.index) _ _ _ _ (fun _ => rfl)
  have hnb : ∀ v, v ≠ last → (gt (incNeighbor r last).dfs v).neighbor = (gt r.dfs v).neighbor := by
    intro v hv
    simp only [incNeighbor]
    rw [gt_upd, if_neg (fun h => hv h.1.symm)]
  have hnl : (gt (incNeighbor r last).dfs last).neighbor = (gt r.dfs last).neighbor + 1 := by
    simp only [incNeighbor]
    rw [gt_upd, if_pos ⟨rfl, hls⟩]
  have h := sumTo_update
    (fun v => if (gt r.dfs v).index = maxU then outDegree g v else outDegree g v - (gt r.dfs v).neighbor)
    (fun v => if (gt (incNeighbor r last).dfs v).index = maxU then outDegree g v
      else outDegree g v - (gt (incNeighbor r last).dfs v).neighbor) last
    (by intro i hi; simp only [hidx, hnb i hi]) (numNodes g) hl
  simp only [hidx, hnl, if_neg hvis] at h
  simp only [remSum, hidx]
  omega

theorem remSum_stackPush (g : Graph) (r : Run) (w c : Nat) (hw : w < numNodes g) (hws : w < r.dfs.size)
    (hunv : (gt r.dfs w).index = maxU) (hidx : r.index ≠ maxU) : remSum g (stackPush r w c) = remSum g r := by
  have h := sumTo_update
    (fun v => if (gt r.dfs v).index = maxU then outDegree g v else outDegree g v - (gt r.dfs v).neighbor)
    (fun v => if (gt (stackPush r w c).dfs v).index = maxU then outDegree g v
      else outDegree g v - (gt (stackPush r w c).dfs v).neighbor) w
    (by intro i hi; simp only [stackPush, gt_st_ne _ _ _ _ (Ne.symm hi)]) (numNodes g) hw
  have e1 : (gt (stackPush r w c).dfs w) = ⟨c, r.index, r.index, 0, true⟩ := by
    simp only [stackPush]; rw [gt_st_eq _ _ _ hws]
  simp only [e1, if_pos hunv, if_neg hidx, Nat.sub_zero] at h
  simp only [remSum]
  omega

theorem remSum_minLow (g : Graph) (r : Run) (v x : Nat) : remSum g (minLow r v x) = remSum g r :=
  remSum_congr g _ _ fun _ => ⟨gt_upd_proj (·.index) _ _ _ _ (fun _ => rfl), gt_upd_proj (·.neighbor) _ _ _ _ (fun _ => rfl)⟩

/-- the SCC pop loop changes no index and no neighbor counter -/
theorem popLoop_fields (last : Nat) : ∀ (f : Nat) (r r' : Run), popLoop last f r = some r' →
    r'.index = r.index ∧
    ∀ v, (gt r'.dfs v).index = (gt r.dfs v).index ∧ (gt r'.dfs v).neighbor = (gt r.dfs v).neighbor := by
  intro f
  induction f with
  | zero => intro r r' h; simp [popLoop] at h
  | succ f ih =>
    intro r r' h
    simp only [popLoop] at h
    split at h
    · cases h
    · split at h
      · cases h
      · have hstep : ∀ v, (gt (upd r.dfs (gt r.stack (r.stack.size - 1)) (fun d => { d with onStack := false })) v).index
              = (gt r.dfs v).index ∧
            (gt (upd r.dfs (gt r.stack (r.stack.size - 1)) (fun d => { d with onStack := false })) v).neighbor
              = (gt r.dfs v).neighbor :=
          fun v => ⟨gt_upd_proj (·.index) _ _ _ _ (fun _ => rfl), gt_upd_proj (·.neighbor) _ _ _ _ (fun _ => rfl)⟩
        split at h
        · cases h
          exact ⟨rfl, hstep⟩
        · obtain ⟨h1, h2⟩ := ih _ r' h
          refine ⟨h1, fun v => ?_⟩
          obtain ⟨a, b⟩ := h2 v
          obtain ⟨c, d⟩ := hstep v
          exact ⟨a.trans c, b.trans d⟩

/-- the SCC pop loop finds `last` when it is on the stack -/
theorem popLoop_total (last : Nat) : ∀ (f : Nat) (r : Run), (∀ i, i < r.stack.size → gt r.stack i < r.dfs.size) →
    InStack r.stack last → r.stack.size < f → ∃ r', popLoop last f r = some r' := by
  intro f
  induction f with
  | zero => intro r _ _ h; omega
  | succ f ih =>
    intro r hlt hin hf
    obtain ⟨i, hi, he⟩ := hin
    simp only [popLoop]
    rw [if_neg (by omega)]
    have := hlt (r.stack.size - 1) (by omega)
    rw [if_neg (by omega)]
    by_cases htop : gt r.stack (r.stack.size - 1) = last
    · rw [if_pos htop]; exact ⟨_, rfl⟩
    · rw [if_neg htop]
      have hil : i < r.stack.size - 1 := by
        apply Decidable.byContradiction
        intro hh
        have : i = r.stack.size - 1 := by omega
        rw [this] at he; exact htop he
      apply ih
      · intro j hj
        simp only [Array.size_pop] at hj
        simp only [size_upd]
        rw [gt_pop_lt _ _ hj]
        exact hlt j (by omega)
      · exact ⟨i, by simp only [Array.size_pop]; exact hil, by simp only; rw [gt_pop_lt _ _ hil]; exact he⟩
      · simp only [Array.size_pop]; omega

/-! ### one root's `loop` terminates without panic -/

theorem dfsLoop_total (g : Graph) (hwf : WF g) (hn : numNodes g < maxU) (root ri : Nat) :
    ∀ (f : Nat) (r : Run) (last d : Nat), TS (numNodes g) (view r) → TD (numNodes g) root ri (view r) →
      TA (numNodes g) root ri (view r) → LastOK (numNodes g) ri (view r) last → Chain (view r) root last d →
      remSum g r + (numNodes g - r.index) + d < f → ∃ r', dfsLoop g f r last = some r' := by
  intro f
  induction f with
  | zero => intro _ _ _ _ _ _ _ _ h; omega
  | succ f ih =>
    intro r last d hs hd ha hl hch hm
    obtain ⟨hl1, hl2, hl3⟩ := hl
    have hsz : r.dfs.size = numNodes g := hs.sz
    have hidx : r.index ≤ numNodes g := hs.index_le
    have hvi : (view r).index = r.index := rfl
    simp only [dfsLoop]
    rw [if_neg (by omega)]
    by_cases hedge : (gt r.dfs last).neighbor < outDegree g last
    · rw [if_pos hedge]
      have hv1 := view_incNeighbor r last
      have hsz1 : (incNeighbor r last).dfs.size = numNodes g := by simp only [incNeighbor, size_upd]; exact hsz
      have hidx1 : (incNeighbor r last).index = r.index := rfl
      have hrem1 := remSum_incNeighbor g r last hl1 (by omega) hl2 hedge
      have hwn : target g (beginEdges g last + (gt r.dfs last).neighbor) < numNodes g :=
        hwf.target_lt last _ hl1 (by simp only [outDegree] at hedge; omega)
      rw [if_neg (by omega)]
      generalize target g (beginEdges g last + (gt r.dfs last).neighbor) = w at hwn
      have hIw : (gt (incNeighbor r last).dfs w).index = (view r).I w := by
        have := congrArg (fun V => V.I w) hv1; exact this
      have hOw : (gt (incNeighbor r last).dfs w).onStack = (view r).O w := by
        have := congrArg (fun V => V.O w) hv1; exact this
      by_cases hunv : (gt (incNeighbor r last).dfs w).index = maxU
      · rw [if_pos hunv]
        have hunv' : (view r).I w = maxU := by rw [← hIw]; exact hunv
        have hv2 : view (stackPush (incNeighbor r last) w last) = (view r).push w last := by
          rw [view_stackPush _ _ _ (by omega), hv1]
        have hrem2 := remSum_stackPush g (incNeighbor r last) w last hwn (by omega) hunv (by rw [hidx1]; omega)
        have hlw : last ≠ w := fun he => hl2 (he ▸ hunv')
        apply ih _ w (d + 1)
        · rw [hv2]; exact TS_push hs hn w last hwn hunv'
        · rw [hv2]; exact TD_push hs hd w last hunv' hl1 hl2 hl3
        · rw [hv2]; exact TA_push hs hd ha w last hunv' hl1 hl2
        · rw [hv2]
          refine ⟨hwn, ?_, ?_⟩
          · simp only [View.push, if_pos]; omega
          · simp only [View.push, if_pos]
            have := hs.vis_lt root hd.root_lt hd.root_vis
            rw [hd.root_I] at this; omega
        · rw [hv2]
          refine .step (fun he => hd.root_vis (he ▸ hunv')) ?_ ?_ ?_
          · exact ⟨(view r).stack.size, by simp only [View.push, Array.size_push]; omega, by simp only [View.push]; exact gt_push_eq _ _⟩
          · simp only [View.push, if_pos, if_neg hlw]
            exact hs.vis_lt last hl1 hl2
          · have : ((view r).push w last).C w = last := by simp only [View.push, if_pos]
            rw [this]
            exact Chain_push hs w last hunv' hch
        · have : (stackPush (incNeighbor r last) w last).index = r.index + 1 := rfl
          rw [this, hrem2]
          have hpi := (TS_push hs hn w last hwn hunv').index_le
          have : ((view r).push w last).index = r.index + 1 := rfl
          omega
      · rw [if_neg hunv]
        by_cases hon : (gt (incNeighbor r last).dfs w).onStack = true
        · rw [if_pos hon]
          rw [hOw] at hon
          rw [hIw]
          have hv2 : view (minLow (incNeighbor r last) last ((view r).I w)) = (view r).setL last ((view r).I w) := by
            rw [view_minLow _ _ _ (by omega), hv1]
          obtain ⟨i, hi, he⟩ := hs.M w hwn hon
          have hge : ri ≤ (view r).I w := by have := hd.stk_ge i hi; rw [he] at this; exact this
          apply ih _ last d
          · rw [hv2]; exact TS_setL hs _ _
          · rw [hv2]; exact TD_setL hd _ _ hge
          · rw [hv2]; exact ha
          · rw [hv2]; exact ⟨hl1, hl2, hl3⟩
          · rw [hv2]; exact Chain_setL _ _ hch
          · rw [remSum_minLow]
            have : (minLow (incNeighbor r last) last ((view r).I w)).index = r.index := rfl
            rw [this]; omega
        · rw [if_neg hon]
          apply ih _ last d
          · rw [hv1]; exact hs
          · rw [hv1]; exact hd
          · rw [hv1]; exact ha
          · rw [hv1]; exact ⟨hl1, hl2, hl3⟩
          · rw [hv1]; exact hch
          · rw [hidx1]; omega
    · rw [if_neg hedge]
      -- the optional SCC pop never panics
      have hpop : ∃ r2, (if (gt r.dfs last).lowlink = (gt r.dfs last).index then
            popLoop last (r.stack.size + 1) (bumpScc r) else some r) = some r2 := by
        split
        · exact popLoop_total last _ (bumpScc r)
            (by intro i hi; simp only [bumpScc]; rw [hsz]; exact hs.stk_lt i hi) hch.inStack (by simp [bumpScc])
        · exact ⟨r, rfl⟩
      obtain ⟨r2, hr2⟩ := hpop
      rw [hr2]
      simp only
      -- facts about r2 (as in C16Tarjan.dfsLoop_inv)
      have key : TS (numNodes g) (view r2) ∧ TD (numNodes g) root ri (view r2) ∧ TA (numNodes g) root ri (view r2) ∧
          (view r2).I = (view r).I ∧ (view r2).C = (view r).C ∧ (view r2).L = (view r).L ∧
          remSum g r2 = remSum g r ∧ r2.index = r.index ∧
          (∀ v e, Chain (view r) root v e → (view r).I v < (view r).I last → Chain (view r2) root v e) := by
        split at hr2
        · obtain ⟨p, hp⟩ := popLoop_spec last _ (bumpScc r) r2
            (by have := hs.asz; simp only [bumpScc]; simp only [view] at this; omega) hr2
          rw [view_bumpScc] at hp
          obtain ⟨f1, f2⟩ := popLoop_fields last _ (bumpScc r) r2 hr2
          refine ⟨TS_popped hs hp, TD_popped hd hp, ?_, hp.I_eq, hp.C_eq, hp.L_eq, remSum_congr g _ _ f2, f1, ?_⟩
          · intro v hv hvis hge hvr
            rw [hp.I_eq, hp.C_eq] at *
            exact ha v hv hvis hge hvr
          · intro v e hc hlt; exact Chain_popped hs hp hc hlt
        · cases hr2
          exact ⟨hs, hd, ha, rfl, rfl, rfl, rfl, rfl, fun _ _ hc _ => hc⟩
      obtain ⟨hs2, hd2, ha2, hI2, hC2, hL2, hrem2, hidx2, hchain2⟩ := key
      have hsz2 : r2.dfs.size = numNodes g := hs2.sz
      have hCl : (gt r2.dfs last).caller = (view r).C last := by
        have := congrFun hC2 last; exact this
      have hLl : (gt r2.dfs last).lowlink = (view r).L last := by
        have := congrFun hL2 last; exact this
      rw [hCl]
      by_cases hcal : (view r).C last ≠ maxU
      · rw [if_pos hcal]
        have hroot : last ≠ root := fun he => hcal (he ▸ hd.root_C)
        obtain ⟨n1, n2, n3⟩ := hd.N last hl1 hl2 hl3 hroot
        rw [if_neg (by omega), hLl]
        have hv3 : view (minLow r2 ((view r).C last) ((view r).L last)) = (view r2).setL ((view r).C last) ((view r).L last) :=
          view_minLow _ _ _ (by omega)
        have hLge : ri ≤ (view r).L last := hd.L2 last hl1 hl2 hl3
        -- the chain from the caller
        cases hch with
        | base _ => exact absurd rfl hroot
        | @step _ d' _ _ h3 h4 =>
          apply ih _ _ d'
          · rw [hv3]; exact TS_setL hs2 _ _
          · rw [hv3]; exact TD_setL hd2 _ _ hLge
          · rw [hv3]; exact ha2
          · rw [hv3]; exact ⟨n1, by simp only [View.setL]; rw [hI2]; exact n2, by simp only [View.setL]; rw [hI2]; exact n3⟩
          · rw [hv3]
            exact Chain_setL _ _ (hchain2 _ _ h4 h3)
          · rw [remSum_minLow, hrem2]
            have : (minLow r2 ((view r).C last) ((view r).L last)).index = r2.index := rfl
            rw [this, hidx2]; omega
      · rw [if_neg hcal]
        exact ⟨r2, rfl⟩

theorem outer_total (g : Graph) (hwf : WF g) (hn : numNodes g < maxU) :
    ∀ (k v : Nat) (r : Run), TS (numNodes g) (view r) → (view r).stack.size = 0 → v + k = numNodes g →
      ∃ r', outer g k v r = some r' := by
  intro k
  induction k with
  | zero => intro v r _ _ _; exact ⟨r, rfl⟩
  | succ k ih =>
    intro v r hs he hv
    simp only [outer]
    split
    · exact ih (v + 1) r hs he (by omega)
    · rename_i hunv
      have hunv' : (view r).I v = maxU := Decidable.not_not.mp hunv
      have hvn : v < numNodes g := by omega
      have hidx := hs.index_le
      have hvi : (view r).index = r.index := rfl
      have hv1 : view (stackPush r v maxU) = (view r).push v maxU :=
        view_stackPush _ _ _ (by have := hs.sz; simp only [view] at this; omega)
      have hs1 : TS (numNodes g) (view (stackPush r v maxU)) := by rw [hv1]; exact TS_push hs hn v maxU hvn hunv'
      have hd1 : TD (numNodes g) v (view r).index (view (stackPush r v maxU)) := by
        rw [hv1]; exact TD_root hs hn v hvn hunv' he
      have hl1 : LastOK (numNodes g) (view r).index (view (stackPush r v maxU)) v := by
        rw [hv1]
        refine ⟨hvn, ?_, ?_⟩
        · simp only [View.push, if_pos]; omega
        · simp only [View.push, if_pos]; exact Nat.le_refl _
      have hrem := remSum_le g hwf (stackPush r v maxU)
      have hpi := hs1.index_le
      have hpe : (view (stackPush r v maxU)).index = r.index + 1 := rfl
      obtain ⟨r1, hr1⟩ := dfsLoop_total g hwf hn v (view r).index (dfsFuel g) (stackPush r v maxU) v 1 hs1 hd1
        (by rw [hv1]; exact TA_root hs v) hl1
        (by
          rw [hv1]
          exact .base ⟨(view r).stack.size, by simp only [View.push, Array.size_push]; omega, by
            simp only [View.push]; exact gt_push_eq _ _⟩)
        (by
          have : (stackPush r v maxU).index = r.index + 1 := rfl
          simp only [dfsFuel]
          omega)
      rw [hr1]
      obtain ⟨k1, k2, _⟩ := dfsLoop_inv g _ hn v (view r).index _ _ v r1 hs1 hd1 hl1 hr1
      exact ih (v + 1) r1 k1 k2 (by omega)

/-- on a well-formed graph `Tarjan::run` returns (no panic, fuel suffices) and labels every node in `1..=n` -/
theorem run_total (s : State) (g : Graph) (hwf : WF g) (hn : numNodes g < maxU) :
    ∃ s' a, run s g = some (s', a) ∧ a.size = numNodes g ∧
      ∀ v, v < numNodes g → 1 ≤ gt a v ∧ gt a v ≤ numNodes g := by
  have hI : ∀ v, (view (prepare true s g)).I v = maxU := by
    intro v
    simp only [view, prepare, if_true, clear, resize_empty]
    by_cases hv : v < numNodes g
    · rw [gt_replicate _ _ _ hv]; rfl
    · rw [gt_of_ge _ _ (by simpa using Nat.le_of_not_lt hv)]; rfl
  have hinit : TS (numNodes g) (view (prepare true s g)) := by
    constructor
    · simp [view, prepare, clear, resize_empty]
    · simp [view, prepare, resize_empty]
    · have : (List.range (numNodes g)).countP (fun v => (view (prepare true s g)).I v != maxU) = 0 :=
        List.countP_eq_zero.mpr (by intro v _; simp [hI v])
      rw [this]; rfl
    · simp [view, prepare, clear]
    · intro v _ hv; exact absurd (hI v) hv
    · intro v hv hO
      simp only [view, prepare, if_true, clear, resize_empty] at hO
      rw [gt_replicate _ _ _ hv] at hO
      cases hO
    · intro i hi; simp [view, prepare, clear] at hi
    · intro i hi; simp [view, prepare, clear] at hi
    · intro i j _ hj; simp [view, prepare, clear] at hj
    · intro v _ hv; exact absurd (hI v) hv
    · intro v _ hv; exact absurd (hI v) hv
  obtain ⟨r1, h1⟩ := outer_total g hwf hn (numNodes g) 0 _ hinit (by simp [view, prepare, clear]) (by omega)
  have hrun : run s g = some (⟨r1.dfs, r1.stack⟩, r1.asg) := by simp only [run, runWith, h1]
  obtain ⟨a1, a2⟩ := run_labels s g hn _ _ hrun
  exact ⟨_, _, hrun, a1, a2⟩

end Tbx.Tarjan
