import Tbx.Model.DynGraph
/-
Array toolkit and the representation invariant of the dynamic graph model.
-/
namespace Tbx.DG
open Tbx
open Tbx.SG (InEdge EEntry maxId)

@[simp] theorem size_swapE (a : Array EEntry) (i j : Nat) : (swapE a i j).size = a.size := by
  simp [swapE]

theorem gt_swapE (a : Array EEntry) (i j k : Nat) (hi : i < a.size) (hj : j < a.size) :
    gt (swapE a i j) k = if k = j then gt a i else if k = i then gt a j else gt a k := by
  unfold swapE
  rw [gt_st, gt_st]
  simp only [size_st]
  by_cases h1 : k = j
  · subst h1; simp [hj]
  · by_cases h2 : k = i
    · subst h2
      have : ¬ j = k := fun h => h1 h.symm
      simp [this, hi, h1]
    · have a1 : ¬ j = k := fun h => h1 h.symm
      have a2 : ¬ i = k := fun h => h2 h.symm
      simp [a1, a2, h1, h2]

theorem gt_append_replicate (a : Array EEntry) (n : Nat) (x : EEntry) (k : Nat) :
    gt (a ++ Array.replicate n x) k = if k < a.size then gt a k else if k < a.size + n then x else default := by
  simp only [gt, Array.getD_eq_getD_getElem?]
  by_cases h1 : k < a.size
  · simp [h1, Array.getElem?_append_left]
  · have h1' : a.size ≤ k := by omega
    rw [Array.getElem?_append_right h1']
    by_cases h2 : k < a.size + n
    · have : k - a.size < n := by omega
      simp [h1, h2, this]
    · have : ¬ k - a.size < n := by omega
      simp [h1, h2, this]

@[simp] theorem size_moveLoop (nf f k : Nat) (a : Array EEntry) : (moveLoop nf f k a).size = a.size := by
  induction k with
  | zero => rfl
  | succ k ih => simp [moveLoop, ih]

theorem gt_moveLoop (nf f k : Nat) (a : Array EEntry) (hd : f + k ≤ nf) (hb : nf + k ≤ a.size) :
    ∀ j, gt (moveLoop nf f k a) j =
      if nf ≤ j ∧ j < nf + k then gt a (f + (j - nf))
      else if f ≤ j ∧ j < f + k then gt a (nf + (j - f))
      else gt a j := by
  induction k with
  | zero =>
    intro j
    simp only [moveLoop]
    have h1 : ¬ (nf ≤ j ∧ j < nf + 0) := by omega
    have h2 : ¬ (f ≤ j ∧ j < f + 0) := by omega
    rw [if_neg h1, if_neg h2]
  | succ k ih =>
    intro j
    have ih := ih (by omega) (by omega)
    simp only [moveLoop]
    rw [gt_swapE _ _ _ _ (by simp; omega) (by simp; omega)]
    rw [ih (nf + k), ih (f + k), ih j]
    grind

/-! ### the representation invariant -/

/-- slot `e` lies in the slice of node `v` -/
def owns (g : Graph) (v e : Nat) : Prop :=
  (gt g.nodes v).first ≤ e ∧ e < (gt g.nodes v).first + (gt g.nodes v).count

/-- `Σ_{v < n} edge_count(v)` -/
def sumCounts (nodes : Array NEntry) : Nat → Nat
  | 0 => 0
  | n + 1 => sumCounts nodes n + (gt nodes n).count

structure Inv (g : Graph) : Prop where
  /-- two entries past the last node -/
  size : g.nodes.size = g.numNodes + 2
  /-- every slice ends inside the edge array -/
  bound : ∀ v, v < g.nodes.size → (gt g.nodes v).first + (gt g.nodes v).count ≤ g.edges.size
  /-- the two extra entries are empty -/
  extra : ∀ v, g.numNodes ≤ v → (gt g.nodes v).count = 0
  /-- slices of different nodes are disjoint (slices with count 0 own nothing) -/
  disj : ∀ u v e, owns g u e → owns g v e → u = v
  /-- slots inside a slice are not spare -/
  used : ∀ v e, owns g v e → (gt g.edges e).tgt ≠ maxId
  /-- every non-spare slot belongs to a slice: slots outside all slices have target MAX -/
  spare : ∀ e, e < g.edges.size → (gt g.edges e).tgt ≠ maxId → ∃ v, v < g.numNodes ∧ owns g v e
  /-- number_of_edges is the sum of the counts -/
  edges : g.numEdges = sumCounts g.nodes g.numNodes

theorem sumCounts_congr (a b : Array NEntry) (n : Nat) (h : ∀ v, v < n → (gt b v).count = (gt a v).count) :
    sumCounts b n = sumCounts a n := by
  induction n with
  | zero => rfl
  | succ n ih =>
    simp only [sumCounts]
    rw [ih (fun v hv => h v (by omega)), h n (by omega)]

theorem sumCounts_update (a b : Array NEntry) (n s : Nat) (hs : s < n)
    (h : ∀ v, v < n → v ≠ s → (gt b v).count = (gt a v).count) :
    sumCounts b n + (gt a s).count = sumCounts a n + (gt b s).count := by
  induction n with
  | zero => omega
  | succ n ih =>
    simp only [sumCounts]
    by_cases e : s = n
    · subst e
      have := sumCounts_congr a b s (fun v hv => h v (by omega) (by omega))
      omega
    · have := ih (by omega) (fun v hv hne => h v (by omega) hne)
      have := h n (by omega) (fun h' => e h'.symm)
      omega

/-- the (target,data) list of a node only depends on its node entry and on the slots it owns -/
theorem adjList_congr (g g' : Graph) (v : Nat) (hn : gt g'.nodes v = gt g.nodes v)
    (he : ∀ e, owns g v e → gt g'.edges e = gt g.edges e) : adjList g' v = adjList g v := by
  unfold adjList edgeRange beginEdges outDegree target data
  rw [hn]
  apply List.map_congr_left
  intro e hm
  have := List.mem_range'_1.mp hm
  rw [he e ⟨this.1, this.2⟩]

/-- abstraction function: adjacency of `v` as the API shows it -/
def adjM (g : Graph) (v : Nat) : List (Nat × Int) := if v < g.numNodes then adjList g v else []

theorem adjList_nil_of_count_zero (g : Graph) (v : Nat) (h : (gt g.nodes v).count = 0) : adjList g v = [] := by
  simp [adjList, edgeRange, outDegree, h]

end Tbx.DG
