import Tbx.Proofs.RTreeIter
/-
C12, termination of the iterator: a weight function on search nodes (1 + weights of the children, resp.
1 + number of elements of a leaf group) bounds the number of queue pops; every `next` call strictly
lowers the total weight of the queue.  Generic part (any tree with a weight function).  Core Lean only.
-/
namespace Tbx.RTree

/-- `Σ_{i<k} f i` -/
def sumRange (k : Nat) (f : Nat → Nat) : Nat := ((List.range k).map f).sum

theorem sumRange_zero (f : Nat → Nat) : sumRange 0 f = 0 := rfl

theorem sumRange_succ_left (k : Nat) (f : Nat → Nat) : sumRange (k + 1) f = f 0 + sumRange k (fun i => f (i + 1)) := by
  unfold sumRange
  rw [List.range_succ_eq_map, List.map_cons, List.sum_cons, List.map_map]
  rfl

theorem sumRange_succ_right (k : Nat) (f : Nat → Nat) : sumRange (k + 1) f = sumRange k f + f k := by
  unfold sumRange
  rw [List.range_succ, List.map_append, List.sum_append]
  simp

theorem sumRange_congr {k : Nat} {f g : Nat → Nat} (h : ∀ i, i < k → f i = g i) : sumRange k f = sumRange k g := by
  induction k with
  | zero => rfl
  | succ k ih =>
    rw [sumRange_succ_right, sumRange_succ_right, ih (fun i hi => h i (by omega)), h k (by omega)]

theorem sumRange_add (a b : Nat) (f : Nat → Nat) :
    sumRange (a + b) f = sumRange a f + sumRange b (fun i => f (a + i)) := by
  induction b with
  | zero => simp [sumRange_zero]
  | succ b ih =>
    rw [← Nat.add_assoc, sumRange_succ_right, ih, sumRange_succ_right]
    omega

section
variable {α Q : Type} (P : PQOps Q) (B : Nat) (t : Tree α) (W : Nat → Nat)

/-- weight of a queue entry: the number of pops it will cause -/
def wE (e : Entry) : Nat :=
  match e.kind with
  | .tree => 1 + sumRange (childrenCount B t.ends e.idx) (fun m => W (e.idx + m))
  | .leaf => 1 + (leafRange t e.idx (min (e.idx + B) t.leaves.length - e.idx)).length
  | .cand _ => 1

/-- `W i` is the weight of search node `i`'s queue entry -/
def IsWeight : Prop :=
  ∀ (i : Nat) (nd : SNode), t.nodes[i]? = some nd → W i = wE B t W ⟨0, nd.first, if nd.kind = 0 then .leaf else .tree⟩

/-- total weight of the queue -/
def phi (q : Q) : Nat := ((P.abs q).map (wE B t W)).sum

end

section
variable {α Q : Type} {P : PQOps Q} {B : Nat} {t : Tree α} {dist : α → Nat} {prio : Nat → Nat} {W : Nat → Nat}

theorem wE_pos (e : Entry) : 1 ≤ wE B t W e := by
  unfold wE; cases e.kind <;> simp <;> omega

theorem phi_push (hP : P.Lawful) (q : Q) (e : Entry) : phi P B t W (P.push q e) = wE B t W e + phi P B t W q := by
  unfold phi
  rw [((hP.abs_push q e).map _).sum_nat, List.map_cons, List.sum_cons]

theorem nodeEntry_weight (hw : IsWeight B t W) {i : Nat} {e : Entry} (h : nodeEntry prio t.nodes i = some e) :
    wE B t W e = W i := by
  obtain ⟨nd, hn, rfl⟩ := nodeEntry_some h
  exact (hw i nd hn).symm

theorem pushNodes_phi (hP : P.Lawful) (hw : IsWeight B t W) : ∀ (k : Nat) (q q' : Q) (c : Nat),
    pushNodes P t prio q c k = some q' → phi P B t W q' = phi P B t W q + sumRange k (fun m => W (c + m)) := by
  intro k
  induction k with
  | zero => intro q q' c h; simp only [pushNodes, Option.some.injEq] at h; subst h; simp [sumRange_zero]
  | succ k ih =>
    intro q q' c h
    simp only [pushNodes] at h
    cases hne : nodeEntry prio t.nodes c with
    | none => rw [hne] at h; cases h
    | some e =>
      rw [hne] at h
      rw [ih _ _ _ h, phi_push hP, nodeEntry_weight hw hne, sumRange_succ_left]
      have : (fun m => W (c + 1 + m)) = fun i => W (c + (i + 1)) := by
        funext i; rw [Nat.add_assoc, Nat.add_comm 1 i]
      rw [this]
      simp only [Nat.add_zero]
      omega

theorem pushCands_phi (hP : P.Lawful) (j : Nat) : ∀ (xs : List α) (off : Nat) (q : Q),
    phi P B t W (pushCands P dist j q xs off) = phi P B t W q + xs.length := by
  intro xs
  induction xs with
  | nil => intro off q; rfl
  | cons x xs ih =>
    intro off q
    simp only [pushCands]
    rw [ih, phi_push hP]
    simp [wE]
    omega

theorem pushLeaves_phi (hP : P.Lawful) : ∀ (k : Nat) (q q' : Q) (j : Nat),
    pushLeaves P t dist q j k = some q' → phi P B t W q' = phi P B t W q + (leafRange t j k).length := by
  intro k
  induction k with
  | zero => intro q q' j h; simp only [pushLeaves, Option.some.injEq] at h; subst h; simp [leafRange]
  | succ k ih =>
    intro q q' j h
    simp only [pushLeaves] at h
    cases hl : t.leaves[j]? with
    | none => rw [hl] at h; cases h
    | some lf =>
      rw [hl] at h
      rw [ih _ _ _ h, pushCands_phi hP]
      unfold leafRange
      rw [range_succ_flatMap]
      simp only [Nat.add_zero, hl, Option.getD_some, List.length_append]
      have : (fun i => t.leaves[j + 1 + i]?.getD []) = fun i => t.leaves[j + (i + 1)]?.getD [] := by
        funext i; rw [Nat.add_assoc, Nat.add_comm 1 i]
      rw [this]
      omega

/-- with more fuel than the queue's weight, `next` does not run out of fuel, and a yielded item leaves a
strictly lighter queue -/
theorem next_fuel (hP : P.Lawful) (hw : IsWeight B t W) : ∀ (fuel : Nat) (q : Q), phi P B t W q < fuel →
    match next P B t dist prio fuel q with
    | .outOfFuel => False
    | .item _ _ q' => phi P B t W q' < phi P B t W q
    | _ => True := by
  intro fuel
  induction fuel with
  | zero => intro q h; omega
  | succ fuel ih =>
    intro q hlt
    simp only [next]
    cases hpop : P.pop q with
    | none => simp
    | some pr =>
      obtain ⟨e, q1⟩ := pr
      have hperm := (hP.pop_some q e q1 hpop).1
      have hphi : phi P B t W q = wE B t W e + phi P B t W q1 := by
        unfold phi
        rw [(hperm.map _).sum_nat, List.map_cons, List.sum_cons]
      simp only []
      cases hk : e.kind with
      | tree =>
        simp only []
        cases hpn : pushNodes P t prio q1 e.idx (childrenCount B t.ends e.idx) with
        | none => simp
        | some q2 =>
          have h2 := pushNodes_phi hP hw _ _ _ _ hpn
          have hwe : wE B t W e = 1 + sumRange (childrenCount B t.ends e.idx) (fun m => W (e.idx + m)) := by
            unfold wE; rw [hk]
          have hq2 : phi P B t W q2 < fuel := by omega
          have := ih q2 hq2
          simp only []
          revert this
          cases next P B t dist prio fuel q2 with
          | item x d q' => simp only []; intro h; omega
          | done => intro _; trivial
          | panic => intro _; trivial
          | outOfFuel => simp
      | leaf =>
        simp only []
        cases hpn : pushLeaves P t dist q1 e.idx (min (e.idx + B) t.leaves.length - e.idx) with
        | none => simp
        | some q2 =>
          have h2 := pushLeaves_phi (B := B) (W := W) hP _ _ _ _ hpn
          have hwe : wE B t W e = 1 + (leafRange t e.idx (min (e.idx + B) t.leaves.length - e.idx)).length := by
            unfold wE; rw [hk]
          have hq2 : phi P B t W q2 < fuel := by omega
          have := ih q2 hq2
          simp only []
          revert this
          cases next P B t dist prio fuel q2 with
          | item x d q' => simp only []; intro h; omega
          | done => intro _; trivial
          | panic => intro _; trivial
          | outOfFuel => simp
      | cand off =>
        simp only []
        cases t.leaves[e.idx]?.bind (·[off]?) with
        | none => simp
        | some x =>
          simp only []
          have := wE_pos (B := B) (t := t) (W := W) e
          omega

/-- with both fuels above the queue's weight the caller's loop does not run out of fuel -/
theorem collectAux_fuel (hP : P.Lawful) (hw : IsWeight B t W) (fn : Nat) : ∀ (fuel : Nat) (q : Q)
    (acc : List (α × Nat)), phi P B t W q < fuel → phi P B t W q < fn →
    collectAux P B t dist prio fn fuel q acc ≠ .outOfFuel := by
  intro fuel
  induction fuel with
  | zero => intro q acc h; omega
  | succ fuel ih =>
    intro q acc h1 h2
    have hn := next_fuel (dist := dist) (prio := prio) hP hw fn q h2
    simp only [collectAux]
    revert hn
    cases next P B t dist prio fn q with
    | item x d q' =>
      simp only []
      intro hlt
      exact ih q' _ (by omega) (by omega)
    | done => intro _ h; cases h
    | panic => intro _ h; cases h
    | outOfFuel => simp

/-- the weight of the initial queue is the root's weight -/
theorem phi_initQ (hP : P.Lawful) (hw : IsWeight B t W) :
    phi P B t W (initQ P t prio) = match t.nodes.length with | 0 => 0 | m + 1 => W m := by
  cases hlen : t.nodes.length with
  | zero =>
    have hq : initQ P t prio = P.empty := by simp only [initQ, hlen]
    rw [hq]
    simp [phi, hP.abs_empty]
  | succ m =>
    obtain ⟨e0, hne⟩ : ∃ e0, nodeEntry prio t.nodes m = some e0 :=
      ⟨_, by simp [nodeEntry, List.getElem?_eq_getElem (show m < t.nodes.length by omega)]; rfl⟩
    have hq : initQ P t prio = P.push P.empty e0 := by simp only [initQ, hlen, hne]
    rw [hq, phi_push hP, nodeEntry_weight hw hne]
    simp [phi, hP.abs_empty]

end
end Tbx.RTree
