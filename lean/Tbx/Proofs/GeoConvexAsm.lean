import Tbx.Proofs.GeoConvex
import Mathlib.Data.List.Nodup
/-
Assembly: the output of the monotone chain is globally strictly convex when the input is not collinear.
-/
namespace Tbx.Geo

theorem neg_inj {a b : Coord} (h : neg a = neg b) : a = b := by
  have := congrArg neg h
  rwa [neg_neg, neg_neg] at this

/-- both chains as `Good` chains: the lower one over the sorted input, the upper one (reflected) over the
reflected, reversed sorted input -/
theorem chains_good (pts : List Coord) (hn : 3 < pts.length)
    (hnd : ∃ o ∈ pts, ∃ a ∈ pts, ∃ p ∈ pts, cross o a p ≠ 0) :
    ∃ (c0 x : Coord) (r0 s0 : List Coord),
      monotoneChain pts = (c0 :: r0.reverse) ++ (x :: s0.reverse) ∧
      Good (sortLonLat pts) x (r0 ++ [c0]) ∧
      Good ((sortLonLat pts).reverse.map neg) (neg c0) ((s0 ++ [x]).map neg) ∧
      Sup (sortLonLat pts) (c0 :: (s0 ++ [x])) := by
  obtain ⟨c0, x, r0, s0, eL, eU, eH, supL, supU, _, hext⟩ := chains_shape pts hn
  refine ⟨c0, x, r0, s0, eH, ?_, ?_, supU⟩
  all_goals
    have hlen := length_sortLonLat pts
    have hsorted0 : List.Pairwise LexLe (sortLonLat pts) :=
      List.Pairwise.imp (fun h => (lexLe_iff _ _).mp h) (sortLonLat_sorted pts)
    -- not all points are equal
    have hneq : ∀ z : Coord, ∃ q ∈ pts, q ≠ z := by
      intro z
      by_contra hall
      simp only [not_exists, not_and, not_not] at hall
      obtain ⟨o, ho, a, ha, p, hp, hc⟩ := hnd
      apply hc
      rw [hall o ho, hall a ha, hall p hp, cross_self_left]
  · match hcs : sortLonLat pts, hlen, hsorted0, eL with
    | [], hlen, _, _ => simp at hlen; omega
    | [_], hlen, _, _ => simp at hlen; omega
    | d0 :: d1 :: ds, _, hsorted, eL =>
      obtain ⟨q, hq, hqne⟩ := hneq d0
      obtain ⟨x2, r2, e2, g, _⟩ := lowerStack_good d0 d1 ds hsorted
        ⟨q, hcs ▸ mem_sortLonLat.mpr hq, hqne⟩
      rw [eL] at e2
      simp only [List.cons.injEq] at e2
      obtain ⟨rfl, rfl⟩ := e2
      exact g
  · have hrs : List.Pairwise LexLe ((sortLonLat pts).reverse.map neg) := by
      rw [List.pairwise_map]
      exact List.Pairwise.imp (fun h => LexLe_neg.mpr h) (List.pairwise_reverse.mpr hsorted0)
    have hrl : ((sortLonLat pts).reverse.map neg).length = pts.length := by simp [hlen]
    have eU' : lowerStack ((sortLonLat pts).reverse.map neg) = neg c0 :: (s0 ++ [x]).map neg := by
      rw [lowerStack_neg, eU]; rfl
    match hD : (sortLonLat pts).reverse.map neg, hrl, hrs, eU' with
    | [], hrl, _, _ => simp at hrl; omega
    | [_], hrl, _, _ => simp at hrl; omega
    | d0 :: d1 :: ds, _, hrs, eU' =>
      obtain ⟨q, hq, hqne⟩ := hneq (neg d0)
      have hqm : neg q ∈ d0 :: d1 :: ds := by
        rw [← hD]
        exact List.mem_map.mpr ⟨q, List.mem_reverse.mpr (mem_sortLonLat.mpr hq), rfl⟩
      obtain ⟨x2, r2, e2, g, _⟩ := lowerStack_good d0 d1 ds hrs
        ⟨neg q, hqm, fun h => hqne (by rw [← h, neg_neg])⟩
      rw [eU'] at e2
      simp only [List.cons.injEq] at e2
      obtain ⟨rfl, rfl⟩ := e2
      exact g

theorem monotoneChain_strictlyConvex (pts : List Coord) (hn : 3 < pts.length)
    (hnd : ∃ o ∈ pts, ∃ a ∈ pts, ∃ p ∈ pts, cross o a p ≠ 0) :
    StrictlyConvex 1 (monotoneChain pts) := by
  obtain ⟨c0, x, r0, s0, eH, gL, gU, supU⟩ := chains_good pts hn hnd
  -- links between the two point sets
  have h1 : ∀ q ∈ sortLonLat pts, neg q ∈ (sortLonLat pts).reverse.map neg := fun q hq =>
    List.mem_map.mpr ⟨q, List.mem_reverse.mpr hq, rfl⟩
  have h2 : ∀ q' ∈ (sortLonLat pts).reverse.map neg, neg q' ∈ sortLonLat pts := by
    intro q' hq'
    obtain ⟨q, hq, rfl⟩ := List.mem_map.mp hq'
    rw [neg_neg]; exact List.mem_reverse.mp hq
  have hLn := gL.nodup
  have hUn' := gU.nodup
  have hUn : (c0 :: (s0 ++ [x])).Nodup := by
    have : (neg c0 :: (s0 ++ [x]).map neg) = (c0 :: (s0 ++ [x])).map neg := rfl
    rw [this] at hUn'
    exact List.Nodup.of_map _ hUn'
  have hc0x : x ≠ c0 := by
    have := gL.ne
    rwa [lastD_append_single] at this
  -- membership of the output's vertices in the chains
  have hmemL : ∀ p ∈ c0 :: r0.reverse, p ∈ x :: (r0 ++ [c0]) := by
    intro p hp
    rcases List.mem_cons.mp hp with rfl | hp
    · simp
    · simp [List.mem_reverse.mp hp]
  have hmemU : ∀ p ∈ x :: s0.reverse, p ∈ c0 :: (s0 ++ [x]) := by
    intro p hp
    rcases List.mem_cons.mp hp with rfl | hp
    · simp
    · simp [List.mem_reverse.mp hp]
  have hmapU : ∀ p, p ∈ c0 :: (s0 ++ [x]) → neg p ∈ neg c0 :: (s0 ++ [x]).map neg := by
    intro p hp
    have : neg p ∈ (c0 :: (s0 ++ [x])).map neg := List.mem_map.mpr ⟨p, hp, rfl⟩
    exact this
  rw [eH]
  refine ⟨?_, ?_, ?_⟩
  · -- at least three vertices
    by_contra hlt
    have hr0 : r0 = [] := by
      cases r0 with
      | nil => rfl
      | cons a t => exfalso; apply hlt; simp; omega
    have hs0 : s0 = [] := by
      cases s0 with
      | nil => rfl
      | cons a t => exfalso; apply hlt; simp; omega
    subst hr0; subst hs0
    have hline : ∀ q ∈ pts, cross c0 x q = 0 := by
      intro q hq
      have hq' := mem_sortLonLat.mpr hq
      have s1 : 0 ≤ cross c0 x q := gL.sup (x, c0) (by simp [pairs]) q hq'
      have s2 : 0 ≤ cross x c0 q := supU (c0, x) (by simp [pairs]) q hq'
      rw [cross_flip] at s2
      omega
    obtain ⟨o, ho, a, ha, p, hp, hc⟩ := hnd
    exact hc (collinear_of_line (fun h => hc0x h.symm) (hline o ho) (hline a ha) (hline p hp))
  · -- no repeated vertex
    rw [List.nodup_append]
    refine ⟨?_, ?_, ?_⟩
    · have : (r0 ++ [c0]).Nodup := (List.nodup_cons.mp hLn).2
      have h : c0 :: r0.reverse = (r0 ++ [c0]).reverse := by simp
      rw [h]; exact List.nodup_reverse.mpr this
    · have : (s0 ++ [x]).Nodup := (List.nodup_cons.mp hUn).2
      have h : x :: s0.reverse = (s0 ++ [x]).reverse := by simp
      rw [h]; exact List.nodup_reverse.mpr this
    · intro p hpA q hqB hpq
      subst hpq
      have hxr : x ∉ r0 ++ [c0] := (List.nodup_cons.mp hLn).1
      have hcs : c0 ∉ s0 ++ [x] := (List.nodup_cons.mp hUn).1
      rcases List.mem_cons.mp hpA with rfl | hpA
      · rcases List.mem_cons.mp hqB with h | hqB
        · exact hc0x h.symm
        · exact hcs (by simp [List.mem_reverse.mp hqB])
      · have hpr : p ∈ r0 := List.mem_reverse.mp hpA
        rcases List.mem_cons.mp hqB with rfl | hqB
        · exact hxr (by simp [hpr])
        · have hps : p ∈ s0 := List.mem_reverse.mp hqB
          -- p is an interior vertex of both chains
          have hpx : p ≠ x := fun h => hxr (by simp [← h, hpr])
          have hpc : p ≠ c0 := fun h => hcs (by simp [← h, hps])
          obtain ⟨pre, a, o, post, hC⟩ := Good.interior_split (l := x :: (r0 ++ [c0])) (p := p) (by simp [hpr])
            (by simp; exact fun h => hpx h.symm)
            (by intro x' r' hx; simp only [List.cons.injEq] at hx; obtain ⟨rfl, rfl⟩ := hx
                rw [lastD_append_single]; exact fun h => hpc h.symm)
          obtain ⟨pre2, a2, o2, post2, hD⟩ := Good.interior_split (l := neg c0 :: (s0 ++ [x]).map neg) (p := neg p)
            (hmapU p (by simp [hps]))
            (by simp; exact fun h => hpc (neg_inj h).symm)
            (by intro x' r' hx; simp only [List.cons.injEq] at hx; obtain ⟨rfl, rfl⟩ := hx
                rw [List.map_append, List.map_cons, List.map_nil, lastD_append_single]
                exact fun h => hpx (neg_inj h).symm)
          exact gL.not_interior_both gU h1 h2 hC hD
  · -- every other vertex is strictly inside every edge
    intro e he p hp hpe1 hpe2
    rw [List.cons_append, edges_eq_pairs] at he
    have hsplit : c0 :: (r0.reverse ++ x :: s0.reverse) ++ [c0] =
        (c0 :: r0.reverse) ++ x :: (s0.reverse ++ [c0]) := by simp
    rw [hsplit, pairs_append_cons] at he
    have hL : (c0 :: r0.reverse) ++ [x] = (x :: (r0 ++ [c0])).reverse := by simp
    have hU : x :: (s0.reverse ++ [c0]) = (c0 :: (s0 ++ [x])).reverse := by simp
    rw [hL, hU] at he
    rw [Int.one_mul]
    have hpP : p ∈ sortLonLat pts := by
      rcases List.mem_append.mp hp with h | h
      · exact gL.sub p (hmemL p h)
      · have := h2 _ (gU.sub _ (hmapU p (hmemU p h)))
        rwa [neg_neg] at this
    rcases List.mem_append.mp he with h | h
    · -- an edge of the lower chain
      have hpair := mem_pairs_reverse h
      have hge : 0 ≤ cross e.1 e.2 p := gL.sup _ hpair p hpP
      have hne : cross e.1 e.2 p ≠ 0 := by
        rcases List.mem_append.mp hp with hp' | hp'
        · exact gL.strict_same hpair (hmemL p hp') hpe2 hpe1
        · have := gL.strict_other gU h1 h2 hpair (hmapU p (hmemU p hp'))
            (by rw [neg_neg]; exact hpe2) (by rw [neg_neg]; exact hpe1)
          rwa [neg_neg] at this
      omega
    · -- an edge of the upper chain
      have hpair := mem_pairs_reverse h
      have hge : 0 ≤ cross e.1 e.2 p := supU _ hpair p hpP
      have hpairN : (neg e.2, neg e.1) ∈ pairs (neg c0 :: (s0 ++ [x]).map neg) := by
        have := pairs_map_neg (c0 :: (s0 ++ [x]))
        simp only [List.map_cons] at this
        rw [this]
        exact List.mem_map.mpr ⟨(e.2, e.1), hpair, rfl⟩
      have h1' : ∀ q ∈ (sortLonLat pts).reverse.map neg, neg q ∈ sortLonLat pts := h2
      have hne : cross e.1 e.2 p ≠ 0 := by
        rcases List.mem_append.mp hp with hp' | hp'
        · have := gU.strict_other gL h2 h1 hpairN (hmemL p hp')
            (fun hh => hpe2 (neg_inj hh)) (fun hh => hpe1 (neg_inj hh))
          rwa [cross_neg] at this
        · have := gU.strict_same hpairN (hmapU p (hmemU p hp'))
            (fun hh => hpe2 (neg_inj hh)) (fun hh => hpe1 (neg_inj hh))
          rwa [cross_neg] at this
      omega

end Tbx.Geo
