import Tbx.Proofs.C16TarjanTotal
import Tbx.Proofs.C16GabowExact
/-
Tarjan (`Model/Tarjan.lean`) is exact: two nodes get the same label iff they are mutually reachable.

Semantic invariants during the DFS of one root (on top of TS / TD):
  * earlier nodes of the Tarjan stack reach later ones
  * `lowlink[u]` is the index of a stack node reachable from `u`
  * every explored edge from a stack node `u` leads to an assigned node or to a stack node of index ≥ lowlink[u]
  * stack nodes off the caller chain are finished, with lowlink < index
  * along the caller chain `last = p_1, p_2 = caller(p_1), …, root`: p_{k+1} → p_k is an edge, indices decrease,
    and the lowlink of p_{k+1} is below the lowlinks of all stack nodes between p_{k+1} and p_k;
    the lowlink of `last` is below the lowlinks of all stack nodes above it
  * assigned nodes (visited, not on the stack) form complete components closed under edges
When `lowlink[last] = index[last]`, the nodes from `last` upwards are closed under edges together
with the assigned nodes, and each of them reaches `last`.  Core Lean only.
-/
namespace Tbx.Tarjan
open Tbx Tbx.Csr Tbx.Comp
open Tbx.CycleCheck (E)
open Tbx.Gabow (E_iff)

abbrev R (g : Graph) := Reach (edgesOf g)

/-- visited and no longer on the Tarjan stack -/
def AsgT (g : Graph) (V : View) (v : Nat) : Prop := v < numNodes g ∧ V.I v ≠ maxU ∧ ¬ InStack V.stack v

/-- the edge `u → x` has been looked at by the loop while `last = u` -/
def ExplT (g : Graph) (r : Run) (u x : Nat) : Prop :=
  ∃ k, k < (gt r.dfs u).neighbor ∧ k < outDegree g u ∧ target g (beginEdges g u + k) = x

/-- the caller chain, deepest node first -/
def IsPath (g : Graph) (V : View) (root : Nat) : List Nat → Prop
  | [] => False
  | [x] => x = root
  | x :: y :: rest => x ≠ root ∧ V.C x = y ∧ V.I y < V.I x ∧ E g y x ∧
      (∀ u, InStack V.stack u → V.I y ≤ V.I u → V.I u < V.I x → V.L y ≤ V.L u) ∧ IsPath g V root (y :: rest)

structure TX (g : Graph) (r : Run) (root last : Nat) (tl : List Nat) : Prop where
  o_iff : ∀ v, v < numNodes g → (view r).I v ≠ maxU → ((view r).O v = true ↔ InStack r.stack v)
  path_ok : IsPath g (view r) root (last :: tl)
  path_in : ∀ x, x ∈ last :: tl → InStack r.stack x
  fwd : ∀ i i', i ≤ i' → i' < r.stack.size → R g (gt r.stack i) (gt r.stack i')
  low : ∀ u, InStack r.stack u → ∃ x, InStack r.stack x ∧ (view r).I x = (view r).L u ∧ R g u x
  expl : ∀ u x, InStack r.stack u → ExplT g r u x →
    AsgT g (view r) x ∨ (InStack r.stack x ∧ (view r).L u ≤ (view r).I x)
  fin : ∀ u, InStack r.stack u → u ∉ last :: tl →
    outDegree g u ≤ (gt r.dfs u).neighbor ∧ (view r).L u < (view r).I u
  top_seg : ∀ u, InStack r.stack u → (view r).I last ≤ (view r).I u → (view r).L last ≤ (view r).L u
  a_closed : ∀ v x, AsgT g (view r) v → E g v x → AsgT g (view r) x
  a_exact : ∀ v v', AsgT g (view r) v → AsgT g (view r) v' → (gt r.asg v = gt r.asg v' ↔ SameSCC (edgesOf g) v v')

/-- indices strictly decrease along the caller chain -/
theorem IsPath.lt {g : Graph} {V : View} {root : Nat} : ∀ {x : Nat} {tl : List Nat}, IsPath g V root (x :: tl) →
    ∀ y, y ∈ tl → V.I y < V.I x := by
  intro x tl
  induction tl generalizing x with
  | nil => intro _ y hy; cases hy
  | cons z rest ih =>
    intro h y hy
    obtain ⟨_, _, h3, _, _, h6⟩ := h
    rcases List.mem_cons.mp hy with rfl | hy
    · exact h3
    · exact Nat.lt_trans (ih h6 y hy) h3

/-- the chain below its head only depends on the lowlinks of nodes with a smaller index -/
theorem IsPath.congr {g : Graph} {V V' : View} {root : Nat} (hI : V'.I = V.I) (hC : V'.C = V.C)
    (hS : ∀ u, InStack V'.stack u → InStack V.stack u) :
    ∀ {x : Nat} {tl : List Nat}, (∀ u, V.I u < V.I x → V'.L u = V.L u) → IsPath g V root (x :: tl) →
      IsPath g V' root (x :: tl) := by
  intro x tl
  induction tl generalizing x with
  | nil => intro _ h; exact h
  | cons z rest ih =>
    intro hL h
    obtain ⟨h1, h2, h3, h4, h5, h6⟩ := h
    refine ⟨h1, by rw [hC]; exact h2, by rw [hI]; exact h3, h4, ?_, ?_⟩
    · intro u hu hle hlt
      rw [hI] at hle hlt
      rw [hL z h3, hL u hlt]
      exact h5 u (hS u hu) hle hlt
    · exact ih (fun u hu => hL u (Nat.lt_trans hu h3)) h6

/-- position order and index order agree on the Tarjan stack -/
theorem pos_le_of_I_le {n : Nat} {V : View} (hs : TS n V) {i j : Nat} (hi : i < V.stack.size) (hj : j < V.stack.size)
    (h : V.I (gt V.stack i) ≤ V.I (gt V.stack j)) : i ≤ j := by
  apply Decidable.byContradiction
  intro hh
  have := hs.stk_mono j i (by omega) hi
  omega

/-- every node of the Tarjan stack reaches `last` -/
theorem reach_last {g : Graph} {r : Run} {root last : Nat} {tl : List Nat} (hs : TS (numNodes g) (view r))
    (hx : TX g r root last tl) : ∀ u, InStack r.stack u → R g u last := by
  have key : ∀ m u, InStack r.stack u → (view r).I u ≤ m → R g u last := by
    intro m
    induction m with
    | zero =>
      intro u hu hm
      obtain ⟨i, hi, he⟩ := hu
      obtain ⟨j, hj, hej⟩ := hx.path_in last List.mem_cons_self
      have hij : i ≤ j := pos_le_of_I_le hs hi hj (by
        show (view r).I (gt r.stack i) ≤ _
        rw [he]; omega)
      have := hx.fwd i j hij hj
      rw [he, hej] at this; exact this
    | succ m ih =>
      intro u hu hm
      by_cases hle : (view r).I u ≤ (view r).I last
      · obtain ⟨i, hi, he⟩ := hu
        obtain ⟨j, hj, hej⟩ := hx.path_in last List.mem_cons_self
        have hij : i ≤ j := pos_le_of_I_le hs hi hj (by
          show (view r).I (gt r.stack i) ≤ (view r).I (gt r.stack j)
          rw [he, hej]; exact hle)
        have := hx.fwd i j hij hj
        rw [he, hej] at this; exact this
      · have hnp : u ∉ last :: tl := by
          intro hmem
          rcases List.mem_cons.mp hmem with rfl | hmem
          · omega
          · have := hx.path_ok.lt u hmem; omega
        obtain ⟨_, hlt⟩ := hx.fin u hu hnp
        obtain ⟨x, hxs, hxe, hr⟩ := hx.low u hu
        exact hr.trans (ih x hxs (by omega))
  intro u hu
  exact key _ u hu (Nat.le_refl _)

/-! ### explored edges under the elementary updates -/

theorem nb_incNeighbor (r : Run) (last : Nat) (hl : last < r.dfs.size) (u : Nat) :
    (gt (incNeighbor r last).dfs u).neighbor = if u = last then (gt r.dfs last).neighbor + 1 else (gt r.dfs u).neighbor := by
  simp only [incNeighbor]
  rw [gt_upd]
  by_cases hu : u = last
  · subst hu; simp [hl]
  · have : ¬ (last = u ∧ last < r.dfs.size) := fun h => hu h.1.symm
    simp [this, hu]

theorem explT_inc {g : Graph} {r : Run} {last : Nat} (hl : last < r.dfs.size) {u x : Nat}
    (h : ExplT g (incNeighbor r last) u x) :
    ExplT g r u x ∨ (u = last ∧ (gt r.dfs last).neighbor < outDegree g last ∧
      x = target g (beginEdges g last + (gt r.dfs last).neighbor)) := by
  obtain ⟨k, hk, hd, ht⟩ := h
  rw [nb_incNeighbor r last hl] at hk
  by_cases hu : u = last
  · subst hu
    rw [if_pos rfl] at hk
    by_cases hke : k = (gt r.dfs u).neighbor
    · subst hke; exact Or.inr ⟨rfl, hd, ht.symm⟩
    · exact Or.inl ⟨k, by omega, hd, ht⟩
  · rw [if_neg hu] at hk
    exact Or.inl ⟨k, hk, hd, ht⟩

theorem explT_minLow {g : Graph} {r : Run} {v y u x : Nat} : ExplT g (minLow r v y) u x ↔ ExplT g r u x := by
  have : (gt (minLow r v y).dfs u).neighbor = (gt r.dfs u).neighbor := gt_upd_proj (·.neighbor) _ _ _ _ (fun _ => rfl)
  simp only [ExplT, this]

theorem nb_minLow (r : Run) (v y u : Nat) : (gt (minLow r v y).dfs u).neighbor = (gt r.dfs u).neighbor :=
  gt_upd_proj (·.neighbor) _ _ _ _ (fun _ => rfl)

theorem nb_stackPush (r : Run) (w c : Nat) (hw : w < r.dfs.size) (u : Nat) :
    (gt (stackPush r w c).dfs u).neighbor = if u = w then 0 else (gt r.dfs u).neighbor :=
  gt_st_proj (·.neighbor) _ _ _ _ hw

theorem inStack_push_iff {stack : Array Nat} {w u : Nat} : InStack (stack.push w) u ↔ InStack stack u ∨ u = w := by
  constructor
  · rintro ⟨i, hi, he⟩
    rw [Array.size_push] at hi
    by_cases hil : i < stack.size
    · rw [gt_push_lt _ _ _ hil] at he; exact Or.inl ⟨i, hil, he⟩
    · have : i = stack.size := by omega
      subst this; rw [gt_push_eq] at he; exact Or.inr he.symm
  · rintro (h | rfl)
    · exact inStack_push _ h
    · exact ⟨stack.size, by rw [Array.size_push]; omega, gt_push_eq _ _⟩

/-! ### edge steps -/

/-- an edge to a node that already has its component -/
theorem tx_cross (g : Graph) (r : Run) (root last : Nat) (tl : List Nat) (hs : TS (numNodes g) (view r))
    (hl : last < numNodes g) (hx : TX g r root last tl) (w : Nat) (hwn : w < numNodes g)
    (hw : w = target g (beginEdges g last + (gt r.dfs last).neighbor))
    (hvis : (view r).I w ≠ maxU) (hoff : (view r).O w ≠ true) : TX g (incNeighbor r last) root last tl := by
  have hv := view_incNeighbor r last
  have hsz : last < r.dfs.size := by have := hs.sz; simp only [view] at this; omega
  have hstk : (incNeighbor r last).stack = r.stack := rfl
  have hasg : (incNeighbor r last).asg = r.asg := rfl
  constructor
  · rw [hv, hstk]; exact hx.o_iff
  · rw [hv]; exact hx.path_ok
  · rw [hstk]; exact hx.path_in
  · rw [hstk]; exact hx.fwd
  · rw [hv, hstk]; exact hx.low
  · intro u x hu hex
    rw [hv]
    rw [hstk] at hu ⊢
    rcases explT_inc hsz hex with h | ⟨rfl, _, hxw⟩
    · exact hx.expl u x hu h
    · rw [← hw] at hxw; subst hxw
      left
      exact ⟨hwn, hvis, fun hin => hoff ((hx.o_iff x hwn hvis).mpr hin)⟩
  · intro u hu hnp
    rw [hv]
    rw [hstk] at hu
    obtain ⟨h1, h2⟩ := hx.fin u hu hnp
    refine ⟨?_, h2⟩
    have hul : u ≠ last := fun h => hnp (h ▸ List.mem_cons_self)
    rw [nb_incNeighbor r last hsz, if_neg hul]; exact h1
  · rw [hv, hstk]; exact hx.top_seg
  · rw [hv]; exact hx.a_closed
  · rw [hv, hasg]; exact hx.a_exact

/-- a back or cross edge to a node on the Tarjan stack -/
theorem tx_back (g : Graph) (r : Run) (root last : Nat) (tl : List Nat) (hs : TS (numNodes g) (view r))
    (hl : last < numNodes g) (hx : TX g r root last tl) (w : Nat) (hwn : w < numNodes g)
    (hw : w = target g (beginEdges g last + (gt r.dfs last).neighbor))
    (hlt : (gt r.dfs last).neighbor < outDegree g last)
    (hvis : (view r).I w ≠ maxU) (hon : (view r).O w = true) :
    TX g (minLow (incNeighbor r last) last ((view r).I w)) root last tl := by
  have hsz : last < r.dfs.size := by have := hs.sz; simp only [view] at this; omega
  have hv : view (minLow (incNeighbor r last) last ((view r).I w)) = (view r).setL last ((view r).I w) := by
    rw [view_minLow _ _ _ (by simp only [incNeighbor, size_upd]; exact hsz), view_incNeighbor]
  have hstk : (minLow (incNeighbor r last) last ((view r).I w)).stack = r.stack := rfl
  have hasg : (minLow (incNeighbor r last) last ((view r).I w)).asg = r.asg := rfl
  have hwin : InStack r.stack w := (hx.o_iff w hwn hvis).mp hon
  have hE : E g last w := (E_iff g last w).mpr ⟨hl, _, hlt, hw.symm⟩
  have hL : ∀ u, ((view r).setL last ((view r).I w)).L u = if u = last then min ((view r).L last) ((view r).I w) else (view r).L u :=
    fun u => rfl
  have hLle : ∀ u, ((view r).setL last ((view r).I w)).L u ≤ (view r).L u := by
    intro u; rw [hL]; split
    · rename_i h; subst h; exact Nat.min_le_left _ _
    · exact Nat.le_refl _
  constructor
  · rw [hv, hstk]; exact hx.o_iff
  · rw [hv]
    exact IsPath.congr (V := view r) (V' := (view r).setL last ((view r).I w)) rfl rfl (fun _ h => h) (fun u hu => by
      rw [hL, if_neg (fun h => by subst h; omega)]) hx.path_ok
  · rw [hstk]; exact hx.path_in
  · rw [hstk]; exact hx.fwd
  · intro u hu
    rw [hv]; rw [hstk] at hu ⊢
    by_cases hul : u = last
    · subst hul
      rw [hL, if_pos rfl]
      by_cases hmin : (view r).I w < (view r).L u
      · exact ⟨w, hwin, by rw [Nat.min_eq_right (Nat.le_of_lt hmin)]; rfl, Reach.single hE⟩
      · obtain ⟨x, h1, h2, h3⟩ := hx.low u hu
        exact ⟨x, h1, by rw [Nat.min_eq_left (by omega)]; exact h2, h3⟩
    · rw [hL, if_neg hul]; exact hx.low u hu
  · intro u x hu hex
    rw [hv]; rw [hstk] at hu ⊢
    rw [explT_minLow] at hex
    rcases explT_inc hsz hex with h | ⟨rfl, _, hxw⟩
    · rcases hx.expl u x hu h with h | ⟨h1, h2⟩
      · exact Or.inl h
      · exact Or.inr ⟨h1, Nat.le_trans (hLle u) h2⟩
    · rw [← hw] at hxw; subst hxw
      right
      refine ⟨hwin, ?_⟩
      rw [hL, if_pos rfl]; exact Nat.min_le_right _ _
  · intro u hu hnp
    rw [hv]; rw [hstk] at hu
    obtain ⟨h1, h2⟩ := hx.fin u hu hnp
    have hul : u ≠ last := fun h => hnp (h ▸ List.mem_cons_self)
    refine ⟨?_, ?_⟩
    · rw [nb_minLow, nb_incNeighbor r last hsz, if_neg hul]; exact h1
    · rw [hL, if_neg hul]; exact h2
  · intro u hu hle
    rw [hv] at hle ⊢; rw [hstk] at hu
    have := hx.top_seg u hu hle
    by_cases hul : u = last
    · subst hul; exact Nat.le_refl _
    · rw [hL, hL, if_pos rfl, if_neg hul]
      exact Nat.le_trans (Nat.min_le_left _ _) this
  · rw [hv]; exact hx.a_closed
  · rw [hv, hasg]; exact hx.a_exact

theorem IsPath.push {g : Graph} {n : Nat} {V : View} {root : Nat} (hs : TS n V) (w c : Nat) (hI : V.I w = maxU) :
    ∀ {x : Nat} {tl : List Nat}, (∀ y, y ∈ x :: tl → InStack V.stack y) → IsPath g V root (x :: tl) →
      IsPath g (V.push w c) root (x :: tl) := by
  have hne : ∀ u, InStack V.stack u → u ≠ w := by
    rintro u ⟨i, hi, he⟩ huw
    exact hs.stk_vis i hi (by rw [he, huw]; exact hI)
  have hlt : ∀ u, InStack V.stack u → V.I u < V.index := by
    rintro u ⟨i, hi, he⟩
    have := hs.vis_lt _ (hs.stk_lt i hi) (hs.stk_vis i hi)
    rw [he] at this; exact this
  intro x tl
  induction tl generalizing x with
  | nil => intro _ h; exact h
  | cons z rest ih =>
    intro hin h
    obtain ⟨h1, h2, h3, h4, h5, h6⟩ := h
    have hx := hin x List.mem_cons_self
    have hz := hin z (List.mem_cons_of_mem _ List.mem_cons_self)
    refine ⟨h1, ?_, ?_, h4, ?_, ih (fun y hy => hin y (List.mem_cons_of_mem _ hy)) h6⟩
    · simp only [View.push, if_neg (hne x hx)]; exact h2
    · simp only [View.push, if_neg (hne x hx), if_neg (hne z hz)]; exact h3
    · intro u hu hle hlt'
      simp only [View.push, if_neg (hne x hx), if_neg (hne z hz)] at hle hlt' ⊢
      rcases inStack_push_iff.mp hu with hu | rfl
      · rw [if_neg (hne u hu)] at hle hlt' ⊢
        exact h5 u hu hle hlt'
      · rw [if_pos rfl] at hlt'
        have := hlt x hx; omega

/-- a tree edge: `w` is unvisited and becomes the new `last` -/
theorem tx_push (g : Graph) (hn : numNodes g < maxU) (r : Run) (root ri last : Nat) (tl : List Nat)
    (hs : TS (numNodes g) (view r)) (hd : TD (numNodes g) root ri (view r)) (hl : last < numNodes g)
    (hlv : (view r).I last ≠ maxU) (hx : TX g r root last tl) (w : Nat) (hwn : w < numNodes g)
    (hw : w = target g (beginEdges g last + (gt r.dfs last).neighbor))
    (hlt : (gt r.dfs last).neighbor < outDegree g last) (hunv : (view r).I w = maxU) :
    TX g (stackPush (incNeighbor r last) w last) root w (last :: tl) := by
  have hszr : r.dfs.size = numNodes g := hs.sz
  have hsz : last < r.dfs.size := by omega
  have hsz1 : (incNeighbor r last).dfs.size = r.dfs.size := by simp only [incNeighbor, size_upd]
  have hv : view (stackPush (incNeighbor r last) w last) = (view r).push w last := by
    rw [view_stackPush _ _ _ (by omega), view_incNeighbor]
  have hstk : (stackPush (incNeighbor r last) w last).stack = r.stack.push w := rfl
  have hasg : (stackPush (incNeighbor r last) w last).asg = r.asg := rfl
  have hE : E g last w := (E_iff g last w).mpr ⟨hl, _, hlt, hw.symm⟩
  have hidx := hs.index_le
  have hne : ∀ u, InStack r.stack u → u ≠ w := by
    rintro u ⟨i, hi, he⟩ huw
    exact hs.stk_vis i hi (by show (view r).I (gt r.stack i) = maxU; rw [he, huw]; exact hunv)
  have hIlt : ∀ u, InStack r.stack u → (view r).I u < (view r).index := by
    rintro u ⟨i, hi, he⟩
    have := hs.vis_lt _ (hs.stk_lt i hi) (hs.stk_vis i hi)
    show (view r).I u < _
    rw [← he]; exact this
  have hlw : last ≠ w := fun h => hlv (h ▸ hunv)
  have hlin : InStack r.stack last := hx.path_in last List.mem_cons_self
  have hIp : ∀ u, u ≠ w → ((view r).push w last).I u = (view r).I u := fun u hu => by simp only [View.push, if_neg hu]
  have hLp : ∀ u, u ≠ w → ((view r).push w last).L u = (view r).L u := fun u hu => by simp only [View.push, if_neg hu]
  have hIw : ((view r).push w last).I w = (view r).index := by simp only [View.push, if_pos]
  have hLw : ((view r).push w last).L w = (view r).index := by simp only [View.push, if_pos]
  have hasgT : ∀ x, AsgT g (view r) x → AsgT g ((view r).push w last) x := by
    rintro x ⟨h1, h2, h3⟩
    have hxw : x ≠ w := fun h => h2 (h ▸ hunv)
    refine ⟨h1, by rw [hIp x hxw]; exact h2, ?_⟩
    intro hin
    rcases inStack_push_iff.mp hin with h | h
    · exact h3 h
    · exact hxw h
  have hasgT' : ∀ x, AsgT g ((view r).push w last) x → AsgT g (view r) x := by
    rintro x ⟨h1, h2, h3⟩
    have hxw : x ≠ w := fun h => h3 (inStack_push_iff.mpr (Or.inr h))
    rw [hIp x hxw] at h2
    exact ⟨h1, h2, fun hin => h3 (inStack_push_iff.mpr (Or.inl hin))⟩
  constructor
  · -- o_iff
    intro v hvn hvis
    rw [hv] at hvis ⊢; rw [hstk]
    by_cases hvw : v = w
    · subst hvw
      simp only [View.push, if_pos]
      exact ⟨fun _ => inStack_push_iff.mpr (Or.inr rfl), fun _ => trivial⟩
    · rw [hIp v hvw] at hvis
      have : ((view r).push w last).O v = (view r).O v := by simp only [View.push, if_neg hvw]
      rw [this, hx.o_iff v hvn hvis, inStack_push_iff]
      exact ⟨Or.inl, fun h => h.elim id (fun h => absurd h hvw)⟩
  · -- path_ok
    rw [hv]
    refine ⟨fun h => hd.root_vis (h ▸ hunv), by simp only [View.push, if_pos], ?_, hE, ?_, ?_⟩
    · rw [hIp last hlw, hIw]; exact hIlt last hlin
    · intro u hu hle hlt'
      rw [hIw] at hlt'
      rcases inStack_push_iff.mp hu with hu | rfl
      · have huw := hne u hu
        rw [hIp last hlw, hIp u huw] at hle
        rw [hLp last hlw, hLp u huw]
        exact hx.top_seg u hu hle
      · rw [hIw] at hlt'; omega
    · exact IsPath.push hs w last hunv hx.path_in hx.path_ok
  · -- path_in
    intro x hxm
    rw [hstk]
    rcases List.mem_cons.mp hxm with rfl | hxm
    · exact inStack_push_iff.mpr (Or.inr rfl)
    · exact inStack_push_iff.mpr (Or.inl (hx.path_in x hxm))
  · -- fwd
    intro i i' hii hi'
    rw [hstk] at hi' ⊢
    rw [Array.size_push] at hi'
    by_cases hil : i' < r.stack.size
    · rw [gt_push_lt _ _ _ hil, gt_push_lt _ _ _ (by omega)]; exact hx.fwd i i' hii hil
    · have hi'S : i' = r.stack.size := by omega
      subst hi'S
      rw [gt_push_eq]
      by_cases hiS : i = r.stack.size
      · subst hiS; rw [gt_push_eq]; exact .refl _
      · rw [gt_push_lt _ _ _ (by omega)]
        exact (reach_last hs hx _ ⟨i, by omega, rfl⟩).trans (Reach.single hE)
  · -- low
    intro u hu
    rw [hv]; rw [hstk] at hu ⊢
    rcases inStack_push_iff.mp hu with hu | rfl
    · obtain ⟨x, h1, h2, h3⟩ := hx.low u hu
      exact ⟨x, inStack_push_iff.mpr (Or.inl h1), by rw [hIp x (hne x h1), hLp u (hne u hu)]; exact h2, h3⟩
    · exact ⟨u, inStack_push_iff.mpr (Or.inr rfl), by rw [hIw, hLw], .refl _⟩
  · -- expl
    intro u x hu hex
    rw [hv]; rw [hstk] at hu ⊢
    obtain ⟨k, hk, hdg, ht⟩ := hex
    rw [nb_stackPush _ _ _ (by omega)] at hk
    by_cases huw : u = w
    · rw [if_pos huw] at hk; omega
    · rw [if_neg huw] at hk
      have huo : InStack r.stack u := (inStack_push_iff.mp hu).elim id (fun h => absurd h huw)
      rcases explT_inc hsz ⟨k, hk, hdg, ht⟩ with h | ⟨rfl, _, hxw⟩
      · rcases hx.expl u x huo h with h | ⟨h1, h2⟩
        · exact Or.inl (hasgT x h)
        · exact Or.inr ⟨inStack_push_iff.mpr (Or.inl h1), by rw [hLp u huw, hIp x (hne x h1)]; exact h2⟩
      · rw [← hw] at hxw; subst hxw
        right
        refine ⟨inStack_push_iff.mpr (Or.inr rfl), ?_⟩
        rw [hLp u huw, hIw]
        have h1 := hs.L1 u hl hlv
        have h2 := hIlt u huo
        omega
  · -- fin
    intro u hu hnp
    rw [hv]; rw [hstk] at hu
    have huw : u ≠ w := fun h => hnp (h ▸ List.mem_cons_self)
    have huo : InStack r.stack u := (inStack_push_iff.mp hu).elim id (fun h => absurd h huw)
    have hul : u ≠ last := fun h => hnp (h ▸ List.mem_cons_of_mem _ List.mem_cons_self)
    obtain ⟨h1, h2⟩ := hx.fin u huo (fun hm => hnp (List.mem_cons_of_mem _ hm))
    refine ⟨?_, by rw [hLp u huw, hIp u huw]; exact h2⟩
    rw [nb_stackPush _ _ _ (by omega), if_neg huw, nb_incNeighbor r last hsz, if_neg hul]; exact h1
  · -- top_seg
    intro u hu hle
    rw [hv] at hle ⊢; rw [hstk] at hu
    rcases inStack_push_iff.mp hu with hu | rfl
    · rw [hIw, hIp u (hne u hu)] at hle
      have := hIlt u hu; omega
    · exact Nat.le_refl _
  · -- a_closed
    intro a x ha he
    rw [hv] at ha ⊢
    exact hasgT x (hx.a_closed a x (hasgT' a ha) he)
  · intro a a' ha ha'
    rw [hv] at ha ha'; rw [hasg]
    exact hx.a_exact a a' (hasgT' a ha) (hasgT' a' ha')

/-! ### returning to the caller -/

/-- `last` is finished and is not the root of a component: propagate its lowlink to the caller `q` -/
theorem tx_ret_nopop (g : Graph) (r : Run) (root last q : Nat) (tl : List Nat) (hs : TS (numNodes g) (view r))
    (hl : last < numNodes g) (hlv : (view r).I last ≠ maxU) (hq : q < numNodes g)
    (hx : TX g r root last (q :: tl)) (hfin : outDegree g last ≤ (gt r.dfs last).neighbor)
    (hne : (view r).L last ≠ (view r).I last) :
    TX g (minLow r q ((view r).L last)) root q tl := by
  obtain ⟨p1, p2, p3, p4, p5, p6⟩ := hx.path_ok
  have hqs : q < r.dfs.size := by have := hs.sz; simp only [view] at this; omega
  have hv : view (minLow r q ((view r).L last)) = (view r).setL q ((view r).L last) := view_minLow _ _ _ hqs
  have hstk : (minLow r q ((view r).L last)).stack = r.stack := rfl
  have hasg : (minLow r q ((view r).L last)).asg = r.asg := rfl
  have hL : ∀ u, ((view r).setL q ((view r).L last)).L u =
      if u = q then min ((view r).L q) ((view r).L last) else (view r).L u := fun u => rfl
  have hLle : ∀ u, ((view r).setL q ((view r).L last)).L u ≤ (view r).L u := by
    intro u; rw [hL]; split
    · rename_i h; subst h; exact Nat.min_le_left _ _
    · exact Nat.le_refl _
  have hlq : last ≠ q := fun h => by rw [h] at p3; omega
  have hlin : InStack r.stack last := hx.path_in last List.mem_cons_self
  constructor
  · rw [hv, hstk]; exact hx.o_iff
  · rw [hv]
    exact IsPath.congr (V := view r) (V' := (view r).setL q ((view r).L last)) rfl rfl (fun _ h => h) (fun u hu => by
      rw [hL, if_neg (fun h => by subst h; omega)]) p6
  · rw [hstk]; exact fun x hxm => hx.path_in x (List.mem_cons_of_mem _ hxm)
  · rw [hstk]; exact hx.fwd
  · intro u hu
    rw [hv]; rw [hstk] at hu ⊢
    by_cases huq : u = q
    · subst huq
      rw [hL, if_pos rfl]
      by_cases hmin : (view r).L last < (view r).L u
      · obtain ⟨x, h1, h2, h3⟩ := hx.low last hlin
        exact ⟨x, h1, by rw [Nat.min_eq_right (Nat.le_of_lt hmin)]; exact h2, (Reach.single p4).trans h3⟩
      · obtain ⟨x, h1, h2, h3⟩ := hx.low u hu
        exact ⟨x, h1, by rw [Nat.min_eq_left (by omega)]; exact h2, h3⟩
    · rw [hL, if_neg huq]; exact hx.low u hu
  · intro u x hu hex
    rw [hv]; rw [hstk] at hu ⊢
    rw [explT_minLow] at hex
    rcases hx.expl u x hu hex with h | ⟨h1, h2⟩
    · exact Or.inl h
    · exact Or.inr ⟨h1, Nat.le_trans (hLle u) h2⟩
  · intro u hu hnp
    rw [hv]; rw [hstk] at hu
    have huq : u ≠ q := fun h => hnp (h ▸ List.mem_cons_self)
    rw [nb_minLow, hL, if_neg huq]
    by_cases hul : u = last
    · subst hul
      have := hs.L1 u hl hlv
      refine ⟨hfin, ?_⟩
      show (view r).L u < (view r).I u
      omega
    · apply hx.fin u hu
      intro hm
      rcases List.mem_cons.mp hm with h | h
      · exact hul h
      · exact hnp h
  · intro u hu hle
    rw [hv] at hle ⊢; rw [hstk] at hu
    by_cases huq : u = q
    · subst huq; exact Nat.le_refl _
    · rw [hL, hL, if_pos rfl, if_neg huq]
      have hle' : (view r).I q ≤ (view r).I u := hle
      by_cases hlt : (view r).I u < (view r).I last
      · exact Nat.le_trans (Nat.min_le_left _ _) (p5 u hu hle' hlt)
      · exact Nat.le_trans (Nat.min_le_right _ _) (hx.top_seg u hu (by omega))
  · rw [hv]; exact hx.a_closed
  · rw [hv, hasg]; exact hx.a_exact

/-- lowering nothing: `min(lowlink[q], y)` with `lowlink[q] ≤ y` -/
theorem tx_setL_noop (g : Graph) (r : Run) (root q : Nat) (tl : List Nat) (hs : TS (numNodes g) (view r))
    (hq : q < numNodes g) (y : Nat) (hy : (view r).L q ≤ y) (hx : TX g r root q tl) : TX g (minLow r q y) root q tl := by
  have hqs : q < r.dfs.size := by have := hs.sz; simp only [view] at this; omega
  have hv : view (minLow r q y) = view r := by
    rw [view_minLow _ _ _ hqs]
    simp only [View.setL]
    have : (fun u => if u = q then min ((view r).L q) y else (view r).L u) = (view r).L := by
      funext u
      split
      · rename_i h; subst h; exact Nat.min_eq_left hy
      · rfl
    rw [this]
  have hstk : (minLow r q y).stack = r.stack := rfl
  have hasg : (minLow r q y).asg = r.asg := rfl
  constructor
  · rw [hv, hstk]; exact hx.o_iff
  · rw [hv]; exact hx.path_ok
  · rw [hstk]; exact hx.path_in
  · rw [hstk]; exact hx.fwd
  · rw [hv, hstk]; exact hx.low
  · intro u x hu hex
    rw [hv]; rw [hstk] at hu ⊢
    exact hx.expl u x hu (explT_minLow.mp hex)
  · intro u hu hnp
    rw [hv, nb_minLow]; rw [hstk] at hu
    exact hx.fin u hu hnp
  · rw [hv, hstk]; exact hx.top_seg
  · rw [hv]; exact hx.a_closed
  · rw [hv, hasg]; exact hx.a_exact

/-! ### popping a component -/

/-- the pop loop clears the `on_stack` flag of popped nodes only -/
theorem popLoop_O_keep (last : Nat) : ∀ (f : Nat) (r r' : Run), popLoop last f r = some r' →
    r'.stack.size ≤ r.stack.size ∧
    ∀ v, (gt r.dfs v).onStack = true → (gt r'.dfs v).onStack = true ∨
      (∃ i, r'.stack.size ≤ i ∧ i < r.stack.size ∧ gt r.stack i = v) := by
  intro f
  induction f with
  | zero => intro r r' h; simp [popLoop] at h
  | succ f ih =>
    intro r r' h
    simp only [popLoop] at h
    split at h
    · cases h
    · rename_i hS
      split at h
      · cases h
      · rename_i htop
        have hkeep : ∀ v, v ≠ gt r.stack (r.stack.size - 1) →
            (gt (upd r.dfs (gt r.stack (r.stack.size - 1)) (fun d => { d with onStack := false })) v).onStack
              = (gt r.dfs v).onStack := by
          intro v hv
          rw [gt_upd, if_neg (fun hh => hv hh.1.symm)]
        split at h
        · cases h
          refine ⟨by simp only [Array.size_pop]; omega, ?_⟩
          intro v hv
          by_cases hvt : v = gt r.stack (r.stack.size - 1)
          · right; exact ⟨r.stack.size - 1, by simp only [Array.size_pop]; omega, by omega, hvt.symm⟩
          · left; simp only; rw [hkeep v hvt]; exact hv
        · obtain ⟨h1, h2⟩ := ih _ r' h
          simp only [Array.size_pop] at h1 h2
          refine ⟨by omega, ?_⟩
          intro v hv
          by_cases hvt : v = gt r.stack (r.stack.size - 1)
          · right; exact ⟨r.stack.size - 1, by omega, by omega, hvt.symm⟩
          · rcases h2 v (by rw [hkeep v hvt]; exact hv) with h3 | ⟨i, hi1, hi2, hi3⟩
            · exact Or.inl h3
            · right
              exact ⟨i, hi1, by omega, by rw [gt_pop_lt _ _ hi2] at hi3; exact hi3⟩

/-- what holds right after the component of `last` has been popped -/
structure PostPop (g : Graph) (r r2 : Run) (last : Nat) : Prop where
  in2 : ∀ u, InStack r2.stack u ↔ (InStack r.stack u ∧ (view r).I u < (view r).I last)
  o_iff : ∀ v, v < numNodes g → (view r2).I v ≠ maxU → ((view r2).O v = true ↔ InStack r2.stack v)
  fwd : ∀ i i', i ≤ i' → i' < r2.stack.size → R g (gt r2.stack i) (gt r2.stack i')
  low : ∀ u, InStack r2.stack u → ∃ x, InStack r2.stack x ∧ (view r2).I x = (view r2).L u ∧ R g u x
  expl : ∀ u x, InStack r2.stack u → ExplT g r2 u x →
    AsgT g (view r2) x ∨ (InStack r2.stack x ∧ (view r2).L u ≤ (view r2).I x)
  a_closed : ∀ v x, AsgT g (view r2) v → E g v x → AsgT g (view r2) x
  a_exact : ∀ v v', AsgT g (view r2) v → AsgT g (view r2) v' → (gt r2.asg v = gt r2.asg v' ↔ SameSCC (edgesOf g) v v')

theorem tx_pop (g : Graph) (hn : numNodes g < maxU) (r r2 : Run) (root last : Nat) (tl : List Nat)
    (hs : TS (numNodes g) (view r)) (hl : last < numNodes g) (hlv : (view r).I last ≠ maxU)
    (hx : TX g r root last tl) (hfin : outDegree g last ≤ (gt r.dfs last).neighbor)
    (hLI : (view r).L last = (view r).I last) (p : Nat) (hp : Popped (view r).bump (view r2) p last)
    (hnb : ∀ v, (gt r2.dfs v).neighbor = (gt r.dfs v).neighbor)
    (hOk : ∀ v, (view r).O v = true → (view r2).O v = true ∨ PoppedAt r.stack p v) : PostPop g r r2 last := by
  have hI : (view r2).I = (view r).I := hp.I_eq
  have hL : (view r2).L = (view r).L := hp.L_eq
  have hpS : p < r.stack.size := hp.p_lt
  have hat : gt r.stack p = last := hp.at_p
  have hsz2 : r2.stack.size = p := hp.size'
  have hpre : ∀ i, i < p → gt r2.stack i = gt r.stack i := hp.pre
  have hIp : (view r).I (gt r.stack p) = (view r).I last := by rw [hat]
  have hmono : ∀ i j, i < j → j < r.stack.size → (view r).I (gt r.stack i) < (view r).I (gt r.stack j) := hs.stk_mono
  have hstkn : ∀ u, InStack r.stack u → u < numNodes g ∧ (view r).I u ≠ maxU := by
    rintro u ⟨i, hi, he⟩
    exact ⟨he ▸ hs.stk_lt i hi, he ▸ hs.stk_vis i hi⟩
  have hin2 : ∀ u, InStack r2.stack u ↔ (InStack r.stack u ∧ (view r).I u < (view r).I last) := by
    intro u
    constructor
    · rintro ⟨i, hi, he⟩
      rw [hsz2] at hi
      rw [hpre i hi] at he
      refine ⟨⟨i, by omega, he⟩, ?_⟩
      have := hmono i p hi hpS
      rw [he, hIp] at this; exact this
    · rintro ⟨⟨i, hi, he⟩, hlt⟩
      have hip : i < p := by
        apply Decidable.byContradiction
        intro hh
        by_cases hie : i = p
        · subst hie; rw [he] at hat; subst hat; omega
        · have := hmono p i (by omega) hi
          rw [he, hIp] at this; omega
      exact ⟨i, by rw [hsz2]; exact hip, by rw [hpre i hip]; exact he⟩
  have hpopd : ∀ u, PoppedAt r.stack p u ↔ (InStack r.stack u ∧ (view r).I last ≤ (view r).I u) := by
    intro u
    constructor
    · rintro ⟨i, hi1, hi2, he⟩
      refine ⟨⟨i, hi2, he⟩, ?_⟩
      by_cases hie : i = p
      · subst hie; rw [he] at hat; subst hat; exact Nat.le_refl _
      · have := hmono p i (by omega) hi2
        rw [he, hIp] at this; omega
    · rintro ⟨⟨i, hi, he⟩, hle⟩
      refine ⟨i, ?_, hi, he⟩
      apply Decidable.byContradiction
      intro hh
      have := hmono i p (by omega) hpS
      rw [he, hIp] at this; omega
  have hasg2 : ∀ x, AsgT g (view r2) x ↔ (AsgT g (view r) x ∨ PoppedAt r.stack p x) := by
    intro x
    constructor
    · rintro ⟨h1, h2, h3⟩
      rw [hI] at h2
      by_cases hin : InStack r.stack x
      · right
        refine (hpopd x).mpr ⟨hin, ?_⟩
        apply Decidable.byContradiction
        intro hh
        exact h3 ((hin2 x).mpr ⟨hin, by omega⟩)
      · exact Or.inl ⟨h1, h2, hin⟩
    · rintro (⟨h1, h2, h3⟩ | hpo)
      · exact ⟨h1, by rw [hI]; exact h2, fun hin => h3 ((hin2 x).mp hin).1⟩
      · obtain ⟨hin, hle⟩ := (hpopd x).mp hpo
        obtain ⟨a, b⟩ := hstkn x hin
        exact ⟨a, by rw [hI]; exact b, fun hin' => by have := ((hin2 x).mp hin').2; omega⟩
  have hexpl2 : ∀ u x, ExplT g r2 u x ↔ ExplT g r u x := by
    intro u x; simp only [ExplT, hnb]
  -- popped nodes: all their edges are explored and lead to popped or assigned nodes
  have hpop_edges : ∀ a x, PoppedAt r.stack p a → E g a x → AsgT g (view r) x ∨ PoppedAt r.stack p x := by
    intro a x hpa he
    obtain ⟨hain, hale⟩ := (hpopd a).mp hpa
    obtain ⟨_, k, hk, ht⟩ := (E_iff g a x).mp he
    have hfull : outDegree g a ≤ (gt r.dfs a).neighbor := by
      by_cases hal : a = last
      · subst hal; exact hfin
      · refine (hx.fin a hain ?_).1
        intro hm
        rcases List.mem_cons.mp hm with h | h
        · exact hal h
        · have h1 := hx.path_ok.lt a h
          have hne : (view r).I a ≠ (view r).I last := by
            intro heq
            obtain ⟨i, hi, hei⟩ := hain
            have h2 : i ≤ p := pos_le_of_I_le hs hi hpS (by
              show (view r).I (gt r.stack i) ≤ (view r).I (gt r.stack p)
              rw [hei, hIp, heq]; exact Nat.le_refl _)
            have h3 : p ≤ i := pos_le_of_I_le hs hpS hi (by
              show (view r).I (gt r.stack p) ≤ (view r).I (gt r.stack i)
              rw [hei, hIp, heq]; exact Nat.le_refl _)
            have : i = p := by omega
            subst this; rw [hei] at hat; exact hal hat
          omega
    rcases hx.expl a x hain ⟨k, by omega, hk, ht⟩ with h | ⟨h1, h2⟩
    · exact Or.inl h
    · right
      refine (hpopd x).mpr ⟨h1, ?_⟩
      have := hx.top_seg a hain hale
      omega
  constructor
  · exact hin2
  · -- o_iff
    intro v hvn hvis
    rw [hI] at hvis
    constructor
    · intro hO
      obtain ⟨h1, h2⟩ := hp.O_sub v hO
      have hin := (hx.o_iff v hvn hvis).mp h1
      refine (hin2 v).mpr ⟨hin, ?_⟩
      apply Decidable.byContradiction
      intro hh
      exact h2 ((hpopd v).mpr ⟨hin, by omega⟩)
    · intro hin
      obtain ⟨h1, h2⟩ := (hin2 v).mp hin
      rcases hOk v ((hx.o_iff v hvn hvis).mpr h1) with h | h
      · exact h
      · have := ((hpopd v).mp h).2; omega
  · intro i i' hii hi'
    rw [hsz2] at hi'
    rw [hpre i (by omega), hpre i' hi']
    exact hx.fwd i i' hii (by omega)
  · intro u hu
    obtain ⟨h1, h2⟩ := (hin2 u).mp hu
    obtain ⟨x, a, b, c⟩ := hx.low u h1
    obtain ⟨un, uv⟩ := hstkn u h1
    have := hs.L1 u un uv
    exact ⟨x, (hin2 x).mpr ⟨a, by omega⟩, by rw [hI, hL]; exact b, c⟩
  · intro u x hu hex
    obtain ⟨h1, h2⟩ := (hin2 u).mp hu
    rcases hx.expl u x h1 ((hexpl2 u x).mp hex) with h | ⟨a, b⟩
    · exact Or.inl ((hasg2 x).mpr (Or.inl h))
    · by_cases hlt : (view r).I x < (view r).I last
      · exact Or.inr ⟨(hin2 x).mpr ⟨a, hlt⟩, by rw [hI, hL]; exact b⟩
      · exact Or.inl ((hasg2 x).mpr (Or.inr ((hpopd x).mpr ⟨a, by omega⟩)))
  · intro a x ha he
    rcases (hasg2 a).mp ha with h | h
    · exact (hasg2 x).mpr (Or.inl (hx.a_closed a x h he))
    · exact (hasg2 x).mpr (hpop_edges a x h he)
  · intro a a' ha ha'
    have hlast_in : InStack r.stack last := hx.path_in last List.mem_cons_self
    -- labels
    have hlab_pop : ∀ u, PoppedAt r.stack p u → gt r2.asg u = (view r).numScc + 1 := fun u hu => hp.asg_pop u hu
    have hlab_old : ∀ u, AsgT g (view r) u → gt r2.asg u = gt r.asg u ∧ gt r.asg u ≤ (view r).numScc := by
      intro u hu
      have hnp : ¬ PoppedAt r.stack p u := fun hh => hu.2.2 ((hpopd u).mp hh).1
      refine ⟨hp.asg_keep u hnp, ?_⟩
      rcases hs.K u hu.1 hu.2.1 with h | h
      · exact absurd h hu.2.2
      · exact h.2
    have hmut : ∀ u u', PoppedAt r.stack p u → PoppedAt r.stack p u' → R g u u' := by
      rintro u u' hu ⟨i', hi1, hi2, he'⟩
      have h1 := reach_last hs hx u ((hpopd u).mp hu).1
      have h2 := hx.fwd p i' hi1 hi2
      rw [hat, he'] at h2
      exact h1.trans h2
    have hsep : ∀ u o, PoppedAt r.stack p u → AsgT g (view r) o → ¬ R g o u := by
      intro u o hu ho hr
      have hclosed : ∀ y, R g o y → AsgT g (view r) y := by
        intro y hy
        induction hy with
        | refl => exact ho
        | tail _ hedge ih => exact hx.a_closed _ _ ih hedge
      exact (hclosed u hr).2.2 ((hpopd u).mp hu).1
    rcases (hasg2 a).mp ha with h | h <;> rcases (hasg2 a').mp ha' with h' | h'
    · rw [(hlab_old a h).1, (hlab_old a' h').1]; exact hx.a_exact a a' h h'
    · rw [(hlab_old a h).1, hlab_pop a' h']
      constructor
      · intro heq; have := (hlab_old a h).2; omega
      · intro hs'; exact absurd hs'.1 (hsep a' a h' h)
    · rw [hlab_pop a h, (hlab_old a' h').1]
      constructor
      · intro heq; have := (hlab_old a' h').2; omega
      · intro hs'; exact absurd hs'.2 (hsep a a' h h')
    · rw [hlab_pop a h, hlab_pop a' h']
      exact ⟨fun _ => ⟨hmut a a' h h', hmut a' a h' h⟩, fun _ => rfl⟩

/-- after the pop, the caller `q` of `last` is the new end of the chain -/
theorem tx_pop_ret (g : Graph) (r r2 : Run) (root last q : Nat) (tl : List Nat)
    (hx : TX g r root last (q :: tl)) (p : Nat) (hp : Popped (view r).bump (view r2) p last)
    (hnb : ∀ v, (gt r2.dfs v).neighbor = (gt r.dfs v).neighbor) (hpp : PostPop g r r2 last) :
    TX g r2 root q tl := by
  obtain ⟨p1, p2, p3, p4, p5, p6⟩ := hx.path_ok
  have hI : (view r2).I = (view r).I := hp.I_eq
  have hL : (view r2).L = (view r).L := hp.L_eq
  have hC : (view r2).C = (view r).C := hp.C_eq
  constructor
  · exact hpp.o_iff
  · exact IsPath.congr (V := view r) (V' := view r2) hI hC (fun u hu => ((hpp.in2 u).mp hu).1)
      (fun u _ => by rw [hL]) p6
  · intro x hxm
    refine (hpp.in2 x).mpr ⟨hx.path_in x (List.mem_cons_of_mem _ hxm), ?_⟩
    exact hx.path_ok.lt x hxm
  · exact hpp.fwd
  · exact hpp.low
  · exact hpp.expl
  · intro u hu hnp
    obtain ⟨h1, h2⟩ := (hpp.in2 u).mp hu
    rw [hI, hL, hnb]
    apply hx.fin u h1
    intro hm
    rcases List.mem_cons.mp hm with h | h
    · subst h; omega
    · exact hnp h
  · intro u hu hle
    obtain ⟨h1, h2⟩ := (hpp.in2 u).mp hu
    rw [hI] at hle
    rw [hL]
    exact p5 u h1 hle h2
  · exact hpp.a_closed
  · exact hpp.a_exact

/-! ### one root's `loop`, all roots, `run` -/

/-- between two roots: the Tarjan stack is empty -/
structure OXT (g : Graph) (r : Run) : Prop where
  o_iff : ∀ v, v < numNodes g → (view r).I v ≠ maxU → ((view r).O v = true ↔ InStack r.stack v)
  a_closed : ∀ v x, AsgT g (view r) v → E g v x → AsgT g (view r) x
  a_exact : ∀ v v', AsgT g (view r) v → AsgT g (view r) v' → (gt r.asg v = gt r.asg v' ↔ SameSCC (edgesOf g) v v')

theorem dfsLoop_exact (g : Graph) (hn : numNodes g < maxU) (root ri : Nat) :
    ∀ (f : Nat) (r : Run) (last : Nat) (tl : List Nat) (r' : Run), TS (numNodes g) (view r) →
      TD (numNodes g) root ri (view r) → LastOK (numNodes g) ri (view r) last → TX g r root last tl →
      dfsLoop g f r last = some r' → OXT g r' := by
  intro f
  induction f with
  | zero => intro r last tl r' _ _ _ _ h; simp [dfsLoop] at h
  | succ f ih =>
    intro r last tl r' hs hd hl hx h
    obtain ⟨hl1, hl2, hl3⟩ := hl
    have hsz : r.dfs.size = numNodes g := hs.sz
    have hidx := hs.index_le
    simp only [dfsLoop] at h
    split at h
    · cases h
    · split at h
      · -- an edge (last, w)
        rename_i hedge
        have hv1 := view_incNeighbor r last
        have hsz1 : (incNeighbor r last).dfs.size = numNodes g := by simp only [incNeighbor, size_upd]; exact hsz
        split at h
        · cases h
        · rename_i hw
          have hwn : target g (beginEdges g last + (gt r.dfs last).neighbor) < numNodes g := by omega
          generalize hwe : target g (beginEdges g last + (gt r.dfs last).neighbor) = w at h hw hwn
          have hIw : (gt (incNeighbor r last).dfs w).index = (view r).I w := by
            have := congrArg (fun V => V.I w) hv1; exact this
          have hOw : (gt (incNeighbor r last).dfs w).onStack = (view r).O w := by
            have := congrArg (fun V => V.O w) hv1; exact this
          split at h
          · rename_i hunv
            rw [hIw] at hunv
            have hv2 : view (stackPush (incNeighbor r last) w last) = (view r).push w last := by
              rw [view_stackPush _ _ _ (by omega), hv1]
            refine ih _ w (last :: tl) r' (by rw [hv2]; exact TS_push hs hn w last hwn hunv)
              (by rw [hv2]; exact TD_push hs hd w last hunv hl1 hl2 hl3) ?_
              (tx_push g hn r root ri last tl hs hd hl1 hl2 hx w hwn hwe.symm hedge hunv) h
            rw [hv2]
            refine ⟨hwn, ?_, ?_⟩
            · simp only [View.push, if_pos]; omega
            · simp only [View.push, if_pos]
              have := hs.vis_lt root hd.root_lt hd.root_vis
              rw [hd.root_I] at this; omega
          · rename_i hvis
            rw [hIw] at hvis
            split at h
            · rename_i hon
              rw [hOw] at hon
              rw [hIw] at h
              have hv2 : view (minLow (incNeighbor r last) last ((view r).I w)) = (view r).setL last ((view r).I w) := by
                rw [view_minLow _ _ _ (by omega), hv1]
              obtain ⟨i, hi, he⟩ := hs.M w hwn hon
              have hge : ri ≤ (view r).I w := by have := hd.stk_ge i hi; rw [he] at this; exact this
              exact ih _ last tl r' (by rw [hv2]; exact TS_setL hs _ _) (by rw [hv2]; exact TD_setL hd _ _ hge)
                (by rw [hv2]; exact ⟨hl1, hl2, hl3⟩)
                (tx_back g r root last tl hs hl1 hx w hwn hwe.symm hedge hvis hon) h
            · rename_i hoff
              rw [hOw] at hoff
              exact ih _ last tl r' (by rw [hv1]; exact hs) (by rw [hv1]; exact hd) (by rw [hv1]; exact ⟨hl1, hl2, hl3⟩)
                (tx_cross g r root last tl hs hl1 hx w hwn hwe.symm hvis hoff) h
      · -- all edges of `last` done
        rename_i hedge
        have hfin : outDegree g last ≤ (gt r.dfs last).neighbor := by omega
        split at h
        · cases h
        · rename_i r2 hr2
          by_cases hLI : (gt r.dfs last).lowlink = (gt r.dfs last).index
          · -- the component of `last` is popped
            rw [if_pos hLI] at hr2
            obtain ⟨p, hp⟩ := popLoop_spec last _ (bumpScc r) r2
              (by have := hs.asz; simp only [bumpScc]; simp only [view] at this; omega) hr2
            rw [view_bumpScc] at hp
            obtain ⟨_, hnbf⟩ := popLoop_fields last _ (bumpScc r) r2 hr2
            have hnb : ∀ v, (gt r2.dfs v).neighbor = (gt r.dfs v).neighbor := fun v => (hnbf v).2
            obtain ⟨_, hOk0⟩ := popLoop_O_keep last _ (bumpScc r) r2 hr2
            have hOk : ∀ v, (view r).O v = true → (view r2).O v = true ∨ PoppedAt r.stack p v := by
              intro v hv
              rcases hOk0 v hv with h1 | ⟨i, hi1, hi2, hi3⟩
              · exact Or.inl h1
              · exact Or.inr ⟨i, by have := hp.size'; simp only [view] at this; omega, hi2, hi3⟩
            have hpp := tx_pop g hn r r2 root last tl hs hl1 hl2 hx hfin hLI p hp hnb hOk
            have hs2 := TS_popped hs hp
            have hd2 := TD_popped hd hp
            have hCl : (gt r2.dfs last).caller = (view r).C last := by
              have := congrFun hp.C_eq last; exact this
            have hLl : (gt r2.dfs last).lowlink = (view r).L last := by
              have := congrFun hp.L_eq last; exact this
            rw [hCl] at h
            split at h
            · rename_i hcal
              split at h
              · cases h
              · rw [hLl] at h
                have hroot : last ≠ root := fun he => hcal (he ▸ hd.root_C)
                obtain ⟨n1, n2, n3⟩ := hd.N last hl1 hl2 hl3 hroot
                -- the chain continues with the caller
                cases tl with
                | nil => exact absurd hx.path_ok hroot
                | cons q tl' =>
                  have hq : (view r).C last = q := hx.path_ok.2.1
                  rw [hq] at h n1 n2 n3
                  have hx2 := tx_pop_ret g r r2 root last q tl' hx p hp hnb hpp
                  have hIq : (view r2).I q = (view r).I q := congrFun hp.I_eq q
                  have hLq : (view r2).L q = (view r).L q := congrFun hp.L_eq q
                  have hqlt : (view r).I q < (view r).I last := hx.path_ok.2.2.1
                  have hLle : (view r2).L q ≤ (view r).L last := by
                    have h1 := hs.L1 q n1 n2
                    have h2 : (view r).L last = (view r).I last := hLI
                    rw [hLq]; omega
                  have hv3 : view (minLow r2 q ((view r).L last)) = (view r2).setL q ((view r).L last) :=
                    view_minLow _ _ _ (by have := hs2.sz; simp only [view] at this; omega)
                  have hLge : ri ≤ (view r).L last := hd.L2 last hl1 hl2 hl3
                  exact ih _ q tl' r' (by rw [hv3]; exact TS_setL hs2 _ _) (by rw [hv3]; exact TD_setL hd2 _ _ hLge)
                    (by rw [hv3]; exact ⟨n1, by simp only [View.setL]; rw [hIq]; exact n2,
                      by simp only [View.setL]; rw [hIq]; exact n3⟩)
                    (tx_setL_noop g r2 root q tl' hs2 n1 _ hLle hx2) h
            · cases h
              exact ⟨hpp.o_iff, hpp.a_closed, hpp.a_exact⟩
          · -- no pop
            rw [if_neg hLI] at hr2
            cases hr2
            split at h
            · rename_i hcal
              split at h
              · cases h
              · have hroot : last ≠ root := fun he => hcal (he ▸ hd.root_C)
                obtain ⟨n1, n2, n3⟩ := hd.N last hl1 hl2 hl3 hroot
                cases tl with
                | nil => exact absurd hx.path_ok hroot
                | cons q tl' =>
                  have hq : (gt r.dfs last).caller = q := hx.path_ok.2.1
                  rw [hq] at h
                  have hq' : (view r).C last = q := hq
                  rw [hq'] at n1 n2 n3
                  have hv3 : view (minLow r q ((view r).L last)) = (view r).setL q ((view r).L last) :=
                    view_minLow _ _ _ (by omega)
                  have hLge : ri ≤ (view r).L last := hd.L2 last hl1 hl2 hl3
                  exact ih _ q tl' r' (by rw [hv3]; exact TS_setL hs _ _) (by rw [hv3]; exact TD_setL hd _ _ hLge)
                    (by rw [hv3]; exact ⟨n1, n2, n3⟩)
                    (tx_ret_nopop g r root last q tl' hs hl1 hl2 n1 hx hfin hLI) h
            · -- `break` without a pop cannot happen: the root always closes its component
              rename_i hcal
              exfalso
              have hcal' : (view r).C last = maxU := Decidable.not_not.mp hcal
              have hroot : last = root := by
                apply Decidable.byContradiction
                intro hne
                have := (hd.N last hl1 hl2 hl3 hne).1
                omega
              subst hroot
              have h1 := hs.L1 last hl1 hl2
              have h2 := hd.L2 last hl1 hl2 hl3
              have h3 := hd.root_I
              exact hLI (by show (view r).L last = (view r).I last; omega)

/-- the start of a root's DFS -/
theorem tx_root (g : Graph) (hn : numNodes g < maxU) (r : Run) (v : Nat) (hs : TS (numNodes g) (view r))
    (hemp : r.stack.size = 0) (hvn : v < numNodes g) (hunv : (view r).I v = maxU) (ho : OXT g r) :
    TX g (stackPush r v maxU) v v [] := by
  have hsz : v < r.dfs.size := by have := hs.sz; simp only [view] at this; omega
  have hv : view (stackPush r v maxU) = (view r).push v maxU := view_stackPush _ _ _ hsz
  have hstk : (stackPush r v maxU).stack = r.stack.push v := rfl
  have hasg : (stackPush r v maxU).asg = r.asg := rfl
  have hidx := hs.index_le
  have hnone : ∀ u, ¬ InStack r.stack u := fun u ⟨i, hi, _⟩ => by omega
  have hin : ∀ u, InStack (r.stack.push v) u ↔ u = v := by
    intro u
    rw [inStack_push_iff]
    exact ⟨fun h => h.elim (fun h => absurd h (hnone u)) id, Or.inr⟩
  have hIp : ∀ u, u ≠ v → ((view r).push v maxU).I u = (view r).I u := fun u hu => by simp only [View.push, if_neg hu]
  have hasgT : ∀ x, AsgT g (view r) x → AsgT g ((view r).push v maxU) x := by
    rintro x ⟨h1, h2, h3⟩
    have hxv : x ≠ v := fun h => h2 (h ▸ hunv)
    exact ⟨h1, by rw [hIp x hxv]; exact h2, fun hh => hxv ((hin x).mp hh)⟩
  have hasgT' : ∀ x, AsgT g ((view r).push v maxU) x → AsgT g (view r) x := by
    rintro x ⟨h1, h2, h3⟩
    have hxv : x ≠ v := fun h => h3 ((hin x).mpr h)
    rw [hIp x hxv] at h2
    exact ⟨h1, h2, hnone x⟩
  constructor
  · intro u hun hvis
    rw [hv] at hvis ⊢; rw [hstk, hin]
    by_cases huv : u = v
    · subst huv; simp only [View.push, if_pos]
    · rw [hIp u huv] at hvis
      have : ((view r).push v maxU).O u = (view r).O u := by simp only [View.push, if_neg huv]
      rw [this, ho.o_iff u hun hvis]
      exact ⟨fun h => absurd h (hnone u), fun h => absurd h huv⟩
  · rfl
  · intro x hxm
    rw [hstk]
    have : x = v := by simpa using hxm
    exact (hin x).mpr this
  · intro i i' hii hi'
    rw [hstk, Array.size_push] at hi'
    have h1 : i' = 0 := by omega
    have h2 : i = 0 := by omega
    subst h1; subst h2; exact .refl _
  · intro u hu
    rw [hv]; rw [hstk] at hu ⊢
    have := (hin u).mp hu; subst this
    exact ⟨u, hu, by simp only [View.push, if_pos], .refl _⟩
  · intro u x hu hex
    rw [hstk] at hu
    have := (hin u).mp hu; subst this
    obtain ⟨k, hk, _, _⟩ := hex
    rw [nb_stackPush _ _ _ hsz, if_pos rfl] at hk
    omega
  · intro u hu hnp
    rw [hstk] at hu
    exact absurd (by simpa using (hin u).mp hu) hnp
  · intro u hu _
    rw [hstk] at hu
    have := (hin u).mp hu; subst this
    exact Nat.le_refl _
  · intro a x ha he
    rw [hv] at ha ⊢
    exact hasgT x (ho.a_closed a x (hasgT' a ha) he)
  · intro a a' ha ha'
    rw [hv] at ha ha'; rw [hasg]
    exact ho.a_exact a a' (hasgT' a ha) (hasgT' a' ha')

theorem outer_exact (g : Graph) (hn : numNodes g < maxU) :
    ∀ (k v : Nat) (r r' : Run), TS (numNodes g) (view r) → r.stack.size = 0 → OXT g r → v + k = numNodes g →
      (∀ u, u < v → (view r).I u ≠ maxU) → outer g k v r = some r' →
      TS (numNodes g) (view r') ∧ r'.stack.size = 0 ∧ OXT g r' ∧ ∀ u, u < numNodes g → (view r').I u ≠ maxU := by
  intro k
  induction k with
  | zero =>
    intro v r r' hs he ho hv hall h
    simp only [outer] at h
    cases h
    exact ⟨hs, he, ho, fun u hu => hall u (by omega)⟩
  | succ k ih =>
    intro v r r' hs he ho hv hall h
    simp only [outer] at h
    split at h
    · rename_i hvis
      refine ih (v + 1) r r' hs he ho (by omega) ?_ h
      intro u hu
      by_cases huv : u = v
      · subst huv; exact hvis
      · exact hall u (by omega)
    · rename_i hunv
      have hunv' : (view r).I v = maxU := Decidable.not_not.mp hunv
      have hvn : v < numNodes g := by omega
      have hidx := hs.index_le
      split at h
      · cases h
      · rename_i r1 hd
        have hv1 : view (stackPush r v maxU) = (view r).push v maxU :=
          view_stackPush _ _ _ (by have := hs.sz; simp only [view] at this; omega)
        have hs1 : TS (numNodes g) (view (stackPush r v maxU)) := by rw [hv1]; exact TS_push hs hn v maxU hvn hunv'
        have hd1 : TD (numNodes g) v (view r).index (view (stackPush r v maxU)) := by
          rw [hv1]; exact TD_root hs hn v hvn hunv' he
        have hl1 : LastOK (numNodes g) (view r).index (view (stackPush r v maxU)) v := by
          rw [hv1]
          refine ⟨hvn, ?_, ?_⟩
          · simp only [View.push, if_pos]; omega
          · simp only [View.push, if_pos]; exact Nat.le_refl _
        obtain ⟨k1, k2, k3⟩ := dfsLoop_inv g _ hn v (view r).index _ _ v r1 hs1 hd1 hl1 hd
        have ho1 := dfsLoop_exact g hn v (view r).index _ _ v [] r1 hs1 hd1 hl1
          (tx_root g hn r v hs he hvn hunv' ho) hd
        refine ih (v + 1) r1 r' k1 k2 ho1 (by omega) ?_ h
        intro u hu
        apply k3
        rw [hv1]
        simp only [View.push]
        split
        · omega
        · exact hall u (by omega)

/-- `Tarjan::run` is exact: it returns, and two nodes carry the same label iff they are mutually reachable -/
theorem run_exact (s : State) (g : Graph) (hwf : WF g) (hn : numNodes g < maxU) :
    ∃ s' a, run s g = some (s', a) ∧ a.size = numNodes g ∧
      ∀ u v, u < numNodes g → v < numNodes g → (gt a u = gt a v ↔ SameSCC (edgesOf g) u v) := by
  obtain ⟨s1, a, hrun, hsz, _⟩ := run_total s g hwf hn
  refine ⟨s1, a, hrun, hsz, ?_⟩
  simp only [run, runWith] at hrun
  split at hrun
  · cases hrun
  · rename_i r1 ho
    simp only [Option.some.injEq, Prod.mk.injEq] at hrun
    obtain ⟨_, e2⟩ := hrun
    rw [← e2]
    have hI : ∀ v, (view (prepare true s g)).I v = maxU := by
      intro v
      simp only [view, prepare, if_true, clear, resize_empty]
      by_cases hv : v < numNodes g
      · rw [gt_replicate _ _ _ hv]; rfl
      · rw [gt_of_ge _ _ (by simpa using Nat.le_of_not_lt hv)]; rfl
    have hinit : TS (numNodes g) (view (prepare true s g)) := by
      constructor
      · simp [view, prepare, clear, resize_empty]
      · simp [view, prepare, resize_empty]
      · have : (List.range (numNodes g)).countP (fun v => (view (prepare true s g)).I v != maxU) = 0 :=
          List.countP_eq_zero.mpr (by intro v _; simp [hI v])
        rw [this]; rfl
      · simp [view, prepare, clear]
      · intro v _ hv; exact absurd (hI v) hv
      · intro v hv hO
        simp only [view, prepare, if_true, clear, resize_empty] at hO
        rw [gt_replicate _ _ _ hv] at hO
        cases hO
      · intro i hi; simp [view, prepare, clear] at hi
      · intro i hi; simp [view, prepare, clear] at hi
      · intro i j _ hj; simp [view, prepare, clear] at hj
      · intro v _ hv; exact absurd (hI v) hv
      · intro v _ hv; exact absurd (hI v) hv
    have hox : OXT g (prepare true s g) :=
      ⟨fun v _ hv => absurd (hI v) hv, fun v x hv _ => absurd (hI v) hv.2.1, fun v v' hv _ => absurd (hI v) hv.2.1⟩
    obtain ⟨k1, k2, k3, k4⟩ := outer_exact g hn _ 0 _ r1 hinit (by simp [prepare, clear]) hox (by omega)
      (fun u hu => by omega) ho
    intro u v hu hv
    have hnone : ∀ x, ¬ InStack r1.stack x := fun x ⟨i, hi, _⟩ => by omega
    exact k3.a_exact u v ⟨hu, k4 u hu, hnone u⟩ ⟨hv, k4 v hv, hnone v⟩

end Tbx.Tarjan
