import Tbx.Proofs.LruL1Move
import Tbx.Proofs.LruL0
import Tbx.Spec.Lru
/-
The pointer-level cache (L1) refines the recency list (L0): a simulation relation `Refines` that
every operation preserves while returning the same result, and under which no operation reaches
an error branch.  `Refines` contains the validity of the cursors stored in `access_map`.
-/
namespace Tbx.LruL1
open Tbx

set_option linter.unusedSectionVars false
set_option linter.unusedSimpArgs false
variable {K V : Type} [DecidableEq K]

/-- `ch` is the chain (address, (key, value)) front first that ties the two states together -/
structure Refines (s1 : Lru K V) (s0 : LruL0.Cache K V) (ch : List (Nat × (K × V))) : Prop where
  wf : WF s1.list ch
  items : s0.items = ch.map (·.2)
  /-- the map binds exactly the keys of the chain, each to the address of its own (live) node -/
  cursors : ∀ k a, s1.amap.get k = some a ↔ ∃ v, (a, (k, v)) ∈ ch
  maplen : s1.amap.len = ch.length
  cap : s0.cap = s1.cap
  cap_pos : 1 ≤ s1.cap
  inv : LruL0.Inv s0

theorem refines_new (cap : Nat) (hc : 1 ≤ cap) :
    ∃ s1, (Lru.new cap : Except Err (Lru K V)) = .ok s1 ∧ Refines s1 (LruL0.init cap) [] := by
  have : ¬ cap = 0 := by omega
  refine ⟨_, by simp [Lru.new, this]; rfl, wf_new, rfl, ?_, rfl, rfl, hc, LruL0.inv_init cap⟩
  intro k a; simp [AMap.empty]

namespace Refines
variable {s1 : Lru K V} {s0 : LruL0.Cache K V} {ch : List (Nat × (K × V))}

theorem keys_eq (r : Refines s1 s0 ch) : LruL0.keys s0 = ch.map (·.2.1) := by
  simp [LruL0.keys, r.items, List.map_map, Function.comp_def]

theorem contains_eq (r : Refines s1 s0 ch) (k : K) : LruL0.contains s0 k = (s1.amap.get k).isSome := by
  cases hg : s1.amap.get k with
  | some a =>
    obtain ⟨v, hv⟩ := (r.cursors k a).1 hg
    simp only [Option.isSome_some]
    rw [LruL0.contains_iff, r.keys_eq]
    exact List.mem_map.2 ⟨_, hv, rfl⟩
  | none =>
    simp only [Option.isSome_none]
    rw [LruL0.contains_false_iff, r.keys_eq]
    intro hm
    obtain ⟨⟨a, k', v⟩, hp, hk⟩ := List.mem_map.1 hm
    simp only at hk; subst hk
    have := (r.cursors k' a).2 ⟨v, hp⟩
    rw [hg] at this; cases this

theorem len_eq (r : Refines s1 s0 ch) : s1.list.len = s0.items.length := by
  rw [r.wf.len, r.items]; simp

theorem split_of_cursor (r : Refines s1 s0 ch) (k : K) (b : Nat) (h : s1.amap.get k = some b) :
    ∃ l1 l2 v0, ch = l1 ++ (b, (k, v0)) :: l2 := by
  obtain ⟨v0, hv⟩ := (r.cursors k b).1 h
  obtain ⟨l1, l2, e⟩ := List.append_of_mem hv
  exact ⟨l1, l2, v0, e⟩

end Refines

/-- with distinct keys, the entry of `k` is the one `find?` finds, and `remove` drops exactly it -/
theorem find_remove_of_split (m1 m2 : List (K × V)) (k : K) (v0 : V)
    (hn : ((m1 ++ (k, v0) :: m2).map (·.1)).Nodup) :
    (m1 ++ (k, v0) :: m2).find? (fun p => p.1 == k) = some (k, v0) ∧
    LruL0.remove (m1 ++ (k, v0) :: m2) k = m1 ++ m2 := by
  simp only [List.map_append, List.map_cons] at hn
  obtain ⟨_, h2, hd⟩ := List.nodup_append.1 hn
  have hk1 : ∀ p ∈ m1, ¬ p.1 = k := fun p hp e => hd p.1 (List.mem_map_of_mem hp) k (by simp) e
  have hk2 : ∀ p ∈ m2, ¬ p.1 = k := fun p hp e => (List.nodup_cons.1 h2).1 (e ▸ List.mem_map_of_mem hp)
  constructor
  · rw [List.find?_append]
    have : m1.find? (fun p => p.1 == k) = none := by
      rw [List.find?_eq_none]; intro p hp; simpa using hk1 p hp
    simp [this]
  · simp only [LruL0.remove, List.filter_append, List.filter_cons, beq_self_eq_true, Bool.not_true,
      Bool.false_eq_true, if_false]
    congr 1
    · rw [List.filter_eq_self]; intro p hp; simpa using hk1 p hp
    · rw [List.filter_eq_self]; intro p hp; simpa using hk2 p hp

/-- moving the node of `k` to the front and changing its value does not change which (address, key)
    pairs occur -/
theorem mem_swap_value (l1 l2 : List (Nat × (K × V))) (b : Nat) (k : K) (v0 v : V) (a : Nat) (k' : K) :
    (∃ v', (a, (k', v')) ∈ l1 ++ (b, (k, v0)) :: l2) ↔ (∃ v', (a, (k', v')) ∈ (b, (k, v)) :: (l1 ++ l2)) := by
  constructor
  · rintro ⟨v', h⟩
    simp only [List.mem_append, List.mem_cons] at h
    rcases h with h | h | h
    · exact ⟨v', by simp [h]⟩
    · simp only [Prod.mk.injEq] at h
      exact ⟨v, by simp [h.1, h.2.1]⟩
    · exact ⟨v', by simp [h]⟩
  · rintro ⟨v', h⟩
    simp only [List.mem_append, List.mem_cons] at h
    rcases h with h | h | h
    · simp only [Prod.mk.injEq] at h
      exact ⟨v0, by simp [h.1, h.2.1]⟩
    · exact ⟨v', by simp [h]⟩
    · exact ⟨v', by simp [h]⟩

/-- binding a key that is not in the chain to the address of its new front node -/
theorem cursors_insert (g : K → Option Nat) (l : List (Nat × (K × V))) (k : K) (v : V) (new : Nat)
    (hold : ∀ k' a', g k' = some a' ↔ ∃ v', (a', (k', v')) ∈ l)
    (hk : ∀ a' v', (a', (k, v')) ∉ l) (k' : K) (a' : Nat) :
    (if k' = k then some new else g k') = some a' ↔ ∃ v', (a', (k', v')) ∈ (new, (k, v)) :: l := by
  by_cases hk' : k' = k
  · rw [if_pos hk']
    constructor
    · intro e
      have e' : new = a' := Option.some.inj e
      exact ⟨v, by rw [hk', ← e']; exact List.mem_cons_self⟩
    · rintro ⟨v', h⟩
      rcases List.mem_cons.1 h with h | h
      · have : a' = new := (Prod.mk.inj h).1
        rw [this]
      · rw [hk'] at h; exact absurd h (hk a' v')
  · rw [if_neg hk', hold k' a']
    constructor
    · rintro ⟨v', h⟩; exact ⟨v', List.mem_cons_of_mem _ h⟩
    · rintro ⟨v', h⟩
      rcases List.mem_cons.1 h with h | h
      · exact absurd (Prod.mk.inj (Prod.mk.inj h).2).1 hk'
      · exact ⟨v', h⟩

/-- unbinding the key of the evicted back node -/
theorem cursors_remove_last (g : K → Option Nat) (l : List (Nat × (K × V))) (a : Nat) (ek : K) (ev : V)
    (hold : ∀ k' a', g k' = some a' ↔ ∃ v', (a', (k', v')) ∈ l ++ [(a, (ek, ev))])
    (hek : ∀ a' v', (a', (ek, v')) ∉ l) (k' : K) (a' : Nat) :
    (if k' = ek then none else g k') = some a' ↔ ∃ v', (a', (k', v')) ∈ l := by
  by_cases hk' : k' = ek
  · rw [if_pos hk']
    constructor
    · intro e; cases e
    · rintro ⟨v', h⟩; rw [hk'] at h; exact absurd h (hek a' v')
  · rw [if_neg hk', hold k' a']
    constructor
    · rintro ⟨v', h⟩
      rcases List.mem_append.1 h with h | h
      · exact ⟨v', h⟩
      · have := List.mem_singleton.1 h
        exact absurd (Prod.mk.inj (Prod.mk.inj this).2).1 hk'
    · rintro ⟨v', h⟩; exact ⟨v', List.mem_append_left _ h⟩

/-! ### conservation of values -/

/-- the values stored in the chain -/
def vals (ch : List (Nat × (K × V))) : List V := ch.map (·.2.2)

/-- across a step, dropped ∪ stored grows by exactly the values handed over (as multisets) -/
def Conserved (s1 : Lru K V) (ch : List (Nat × (K × V))) (s1' : Lru K V) (ch' : List (Nat × (K × V)))
    (nv : List V) : Prop :=
  (s1'.dropped ++ vals ch').Perm (s1.dropped ++ vals ch ++ nv)

/-- permutation goals between explicit appends: compare element counts -/
macro "perm_count" : tactic =>
  `(tactic| (classical
             rw [List.perm_iff_count]
             intro a
             simp only [vals, List.map_append, List.map_cons, List.map_nil, List.map_reverse, List.map_map,
               Function.comp_def, List.count_append, List.count_cons, List.count_nil, List.count_reverse]
             try omega))

theorem conserved_refl (s1 : Lru K V) (ch : List (Nat × (K × V))) : Conserved s1 ch s1 ch [] := by
  unfold Conserved; simp

/-! ### push -/

theorem push_hit (s1 : Lru K V) (s0 : LruL0.Cache K V) (ch : List (Nat × (K × V)))
    (r : Refines s1 s0 ch) (k : K) (v : V) (b : Nat) (hb : s1.amap.get k = some b) :
    ∃ s1' ch', Lru.push s1 k v = .ok s1' ∧ Refines s1' (LruL0.push s0 k v) ch' ∧
      Conserved s1 ch s1' ch' [v] := by
  obtain ⟨l1, l2, v0, hch⟩ := r.split_of_cursor k b hb
  subst hch
  obtain ⟨sl1, e1, wf1, _, _⟩ := moveToFront_wf s1.list l1 l2 b (k, v0) r.wf
  obtain ⟨sl2, e2, wf2, _, _⟩ := setFront_wf sl1 b (k, v0) (k, v) (l1 ++ l2) wf1
  have hlen : ¬ s1.list.len > s1.cap := by
    rw [r.len_eq, ← r.cap]; exact Nat.not_lt.2 r.inv.le_cap
  have hc : LruL0.contains s0 k = true := by rw [r.contains_eq, hb]; rfl
  have hn : (s0.items.map (·.1)).Nodup := r.inv.nodup
  have hitems : s0.items = l1.map (·.2) ++ (k, v0) :: l2.map (·.2) := by rw [r.items]; simp
  rw [hitems] at hn
  obtain ⟨_, hrem⟩ := find_remove_of_split _ _ k v0 hn
  refine ⟨{ s1 with list := sl2, dropped := s1.dropped ++ [v0] }, (b, (k, v)) :: (l1 ++ l2), ?_, ?_, ?_⟩
  · simp only [Lru.push, if_neg hlen, hb]
    rw [e1]; simp only []
    rw [e2]
  rotate_left
  · unfold Conserved; perm_count
  · refine ⟨wf2, ?_, ?_, ?_, ?_, r.cap_pos, LruL0.inv_push s0 k v (by rw [r.cap]; exact r.cap_pos) r.inv⟩
    · simp only [LruL0.push, hc, if_true]
      rw [hitems, hrem]; simp
    · intro k' a
      rw [r.cursors k' a]
      exact mem_swap_value l1 l2 b k v0 v a k'
    · show s1.amap.len = _
      rw [r.maplen]; simp; omega
    · rw [LruL0.cap_push]; exact r.cap

theorem push_miss (s1 : Lru K V) (s0 : LruL0.Cache K V) (ch : List (Nat × (K × V)))
    (r : Refines s1 s0 ch) (k : K) (v : V) (hb : s1.amap.get k = none) :
    ∃ s1' ch', Lru.push s1 k v = .ok s1' ∧ Refines s1' (LruL0.push s0 k v) ch' ∧
      Conserved s1 ch s1' ch' [v] := by
  have hlen : ¬ s1.list.len > s1.cap := by
    rw [r.len_eq, ← r.cap]; exact Nat.not_lt.2 r.inv.le_cap
  have hc : LruL0.contains s0 k = false := by rw [r.contains_eq, hb]; rfl
  have hknot : ∀ a v', (a, (k, v')) ∉ ch := by
    intro a v' hm
    have := (r.cursors k a).2 ⟨v', hm⟩
    rw [hb] at this; cases this
  have hlenitems : s0.items.length = ch.length := by rw [r.items]; simp
  by_cases hfull : s1.amap.len = s1.cap
  · -- full: evict the back
    have hne : ¬ s1.amap.len = 0 := by have := r.cap_pos; omega
    have hchne : ch ≠ [] := by
      intro e; rw [r.maplen, e] at hne; exact hne rfl
    obtain ⟨l, ⟨a, ek, ev⟩, hch⟩ : ∃ l y, ch = l ++ [y] := by
      rcases eq_nil_or_snoc ch with e | e
      · exact absurd e hchne
      · exact e
    subst hch
    obtain ⟨sl1, e1, wf1, hfr1, hsz1⟩ := popBack_wf_concat s1.list l a (ek, ev) r.wf
    obtain ⟨sl2, e2, wf2, _, _⟩ := pushFront_wf sl1 l (k, v) wf1
    have hfull0 : s0.items.length = s0.cap := by rw [hlenitems, ← r.maplen, hfull, r.cap]
    have hek : s1.amap.get ek = some a := (r.cursors ek a).2 ⟨ev, by simp⟩
    have hnk : (LruL0.keys s0).Nodup := r.inv.nodup
    rw [r.keys_eq] at hnk
    simp only [List.map_append, List.map_cons, List.map_nil] at hnk
    obtain ⟨_, _, hdk⟩ := List.nodup_append.1 hnk
    have hekl : ∀ a' v', (a', (ek, v')) ∉ l := by
      intro a' v' hm
      exact hdk ek (List.mem_map.2 ⟨_, hm, rfl⟩) ek (by simp) rfl
    refine ⟨{ s1 with list := sl2, amap := (s1.amap.remove ek).insert k sl1.mem.cells.size,
                      dropped := s1.dropped ++ [ev] }, (sl1.mem.cells.size, (k, v)) :: l, ?_, ?_, ?_⟩
    · simp only [Lru.push, if_neg hlen, hb, Lru.evictIfFull, if_pos hfull, if_neg hne]
      rw [e1]; simp only []
      rw [e2]
    rotate_left
    · unfold Conserved; perm_count
    · refine ⟨wf2, ?_, ?_, ?_, ?_, r.cap_pos, LruL0.inv_push s0 k v (by rw [r.cap]; exact r.cap_pos) r.inv⟩
      · simp only [LruL0.push, hc, hfull0, if_true, Bool.false_eq_true, if_false]
        rw [r.items]; simp
      · intro k' a'
        show (if k' = k then some sl1.mem.cells.size else (if k' = ek then none else s1.amap.get k')) = some a' ↔ _
        apply cursors_insert (fun k' => if k' = ek then none else s1.amap.get k') l k v _ _ _ k' a'
        · intro k'' a''
          exact cursors_remove_last s1.amap.get l a ek ev r.cursors hekl k'' a''
        · intro a'' v' hm
          exact hknot a'' v' (List.mem_append_left _ hm)
      · have hkr : (s1.amap.remove ek).get k = none := by
          simp only [AMap.remove]
          split
          · rfl
          · exact hb
        simp only [AMap.insert, hkr, Option.isSome_none, Bool.false_eq_true, if_false]
        simp only [AMap.remove, hek, Option.isSome_some, if_true]
        rw [r.maplen]; simp
      · rw [LruL0.cap_push]; exact r.cap
  · -- room left
    obtain ⟨sl2, e2, wf2, _, _⟩ := pushFront_wf s1.list ch (k, v) r.wf
    have hnf0 : ¬ s0.items.length = s0.cap := by rw [hlenitems, ← r.maplen, r.cap]; exact hfull
    refine ⟨{ s1 with list := sl2, amap := s1.amap.insert k s1.list.mem.cells.size },
      (s1.list.mem.cells.size, (k, v)) :: ch, ?_, ?_, ?_⟩
    · simp only [Lru.push, if_neg hlen, hb, Lru.evictIfFull, if_neg hfull]
      rw [e2]
    rotate_left
    · unfold Conserved; perm_count
    · refine ⟨wf2, ?_, ?_, ?_, ?_, r.cap_pos, LruL0.inv_push s0 k v (by rw [r.cap]; exact r.cap_pos) r.inv⟩
      · simp only [LruL0.push, hc, if_neg hnf0, Bool.false_eq_true, if_false]
        rw [r.items]; simp
      · intro k' a'
        show (if k' = k then some s1.list.mem.cells.size else s1.amap.get k') = some a' ↔ _
        exact cursors_insert s1.amap.get ch k v _ r.cursors hknot k' a'
      · simp only [AMap.insert, hb, Option.isSome_none, Bool.false_eq_true, if_false]
        rw [r.maplen]; simp
      · rw [LruL0.cap_push]; exact r.cap

theorem push_refines (s1 : Lru K V) (s0 : LruL0.Cache K V) (ch : List (Nat × (K × V)))
    (r : Refines s1 s0 ch) (k : K) (v : V) :
    ∃ s1' ch', Lru.push s1 k v = .ok s1' ∧ Refines s1' (LruL0.push s0 k v) ch' ∧
      Conserved s1 ch s1' ch' [v] := by
  cases hb : s1.amap.get k with
  | some b => exact push_hit s1 s0 ch r k v b hb
  | none => exact push_miss s1 s0 ch r k v hb

/-! ### get -/

theorem get_refines (s1 : Lru K V) (s0 : LruL0.Cache K V) (ch : List (Nat × (K × V)))
    (r : Refines s1 s0 ch) (k : K) :
    ∃ s1' ch', Lru.get s1 k = .ok (s1', (LruL0.get s0 k).2) ∧ Refines s1' (LruL0.get s0 k).1 ch' ∧
      Conserved s1 ch s1' ch' [] := by
  cases hb : s1.amap.get k with
  | none =>
    have hc : LruL0.contains s0 k = false := by rw [r.contains_eq, hb]; rfl
    have hf : s0.items.find? (fun p => p.1 == k) = none := by
      rw [List.find?_eq_none]
      intro p hp hpk
      rw [LruL0.contains_false_iff] at hc
      exact hc (List.mem_map.2 ⟨p, hp, by simpa using hpk⟩)
    refine ⟨s1, ch, ?_, ?_, conserved_refl s1 ch⟩
    · simp [Lru.get, hb, LruL0.get, hf]
    · simpa [LruL0.get, hf] using r
  | some b =>
    obtain ⟨l1, l2, v0, hch⟩ := r.split_of_cursor k b hb
    subst hch
    obtain ⟨sl1, e1, wf1, _, _⟩ := moveToFront_wf s1.list l1 l2 b (k, v0) r.wf
    have e2 := getFront_wf sl1 b (k, v0) (l1 ++ l2) wf1
    have hn : (s0.items.map (·.1)).Nodup := r.inv.nodup
    have hitems : s0.items = l1.map (·.2) ++ (k, v0) :: l2.map (·.2) := by rw [r.items]; simp
    rw [hitems] at hn
    obtain ⟨hfind, hrem⟩ := find_remove_of_split _ _ k v0 hn
    rw [← hitems] at hfind hrem
    have hget : LruL0.get s0 k = ({ s0 with items := (k, v0) :: LruL0.remove s0.items k }, some v0) := by
      simp [LruL0.get, hfind]
    refine ⟨{ s1 with list := sl1 }, (b, (k, v0)) :: (l1 ++ l2), ?_, ?_, ?_⟩
    · simp only [Lru.get, hb]
      rw [e1]; simp only []
      rw [e2, hget]
    rotate_left
    · unfold Conserved; perm_count
    · rw [hget]
      refine ⟨wf1, ?_, ?_, ?_, r.cap, r.cap_pos, ?_⟩
      · simp only [hrem]; simp
      · intro k' a
        rw [r.cursors k' a]
        exact mem_swap_value l1 l2 b k v0 v0 a k'
      · show s1.amap.len = _
        rw [r.maplen]; simp; omega
      · have := LruL0.inv_get s0 k r.inv
        rw [hget] at this; exact this

/-! ### observers -/

theorem len_refines (s1 : Lru K V) (s0 : LruL0.Cache K V) (ch : List (Nat × (K × V)))
    (r : Refines s1 s0 ch) : Lru.len s1 = .ok (LruL0.len s0) := by
  have : s1.list.len = s1.amap.len := by rw [r.wf.len, r.maplen]
  simp [Lru.len, this, LruL0.len, ← r.len_eq]

theorem isEmpty_refines (s1 : Lru K V) (s0 : LruL0.Cache K V) (ch : List (Nat × (K × V)))
    (r : Refines s1 s0 ch) : Lru.isEmpty s1 = .ok (ch.length == 0) := by
  simp only [Lru.isEmpty, len_refines s1 s0 ch r, LruL0.len, r.items]; simp

theorem getFront_refines (s1 : Lru K V) (s0 : LruL0.Cache K V) (ch : List (Nat × (K × V)))
    (r : Refines s1 s0 ch) : Lru.getFront s1 = .ok (LruL0.getFront s0) := by
  cases ch with
  | nil =>
    simp only [Lru.getFront, isEmpty_refines s1 s0 [] r, LruL0.getFront, r.items]; rfl
  | cons p rest =>
    obtain ⟨f, e⟩ := p
    have := getFront_wf s1.list f e rest r.wf
    simp only [Lru.getFront, isEmpty_refines s1 s0 _ r, LruL0.getFront, r.items]
    simp [this]

theorem contains_refines (s1 : Lru K V) (s0 : LruL0.Cache K V) (ch : List (Nat × (K × V)))
    (r : Refines s1 s0 ch) (k : K) : Lru.contains s1 k = LruL0.contains s0 k := by
  rw [r.contains_eq]; rfl

/-! ### front mutation, clear -/

theorem setFront_refines (s1 : Lru K V) (s0 : LruL0.Cache K V) (ch : List (Nat × (K × V)))
    (r : Refines s1 s0 ch) (v : V) :
    ∃ s1' ch', Lru.setFront s1 v = .ok (s1', (LruL0.setFront s0 v).2) ∧
      Refines s1' (LruL0.setFront s0 v).1 ch' ∧ Conserved s1 ch s1' ch' (LruSpec.newValues s0 (.setFront v)) := by
  cases ch with
  | nil =>
    have hi : s0.items = [] := by rw [r.items]; rfl
    refine ⟨s1, [], ?_, ?_, ?_⟩
    · simp only [Lru.setFront, isEmpty_refines s1 s0 [] r, LruL0.setFront, hi]; rfl
    · simpa [LruL0.setFront, hi] using r
    · simp only [LruSpec.newValues, hi, List.isEmpty_nil, if_true]; exact conserved_refl s1 []
  | cons p rest =>
    obtain ⟨f, k, v0⟩ := p
    have hi : s0.items = (k, v0) :: rest.map (·.2) := by rw [r.items]; rfl
    have e1 := getFront_wf s1.list f (k, v0) rest r.wf
    obtain ⟨sl1, e2, wf1, _, _⟩ := setFront_wf s1.list f (k, v0) (k, v) rest r.wf
    have hset : LruL0.setFront s0 v = ({ s0 with items := (k, v) :: rest.map (·.2) }, some (k, v0)) := by
      simp [LruL0.setFront, hi]
    refine ⟨{ s1 with list := sl1, dropped := s1.dropped ++ [v0] }, (f, (k, v)) :: rest, ?_, ?_, ?_⟩
    rotate_left 2
    · simp only [LruSpec.newValues, hi, List.isEmpty_cons, Bool.false_eq_true, if_false]
      unfold Conserved; perm_count
    · have hie : Lru.isEmpty s1 = .ok false := by rw [isEmpty_refines s1 s0 _ r]; simp
      simp only [Lru.setFront, hie]
      rw [e1]; simp only []
      rw [e2, hset]
    · rw [hset]
      refine ⟨wf1, rfl, ?_, ?_, r.cap, r.cap_pos, ?_⟩
      · intro k' a
        rw [r.cursors k' a]
        exact mem_swap_value [] rest f k v0 v a k'
      · show s1.amap.len = _
        rw [r.maplen]; simp
      · have := LruL0.inv_setFront s0 v r.inv
        rw [hset] at this; exact this

theorem clear_refines (s1 : Lru K V) (s0 : LruL0.Cache K V) (ch : List (Nat × (K × V)))
    (r : Refines s1 s0 ch) :
    ∃ s1', Lru.clear s1 = .ok s1' ∧ Refines s1' (LruL0.clear s0) [] ∧
      s1'.list.mem.cells.size = s1.list.mem.cells.size ∧ Conserved s1 ch s1' [] [] := by
  obtain ⟨sl1, e1, wf1, hsz⟩ := clear_wf s1.list ch r.wf
  refine ⟨{ s1 with list := sl1, amap := AMap.empty,
                    dropped := s1.dropped ++ ((ch.map (·.2)).reverse).map (·.2) }, ?_, ?_, hsz, ?_⟩
  rotate_left 2
  · unfold Conserved; perm_count
  · simp only [Lru.clear]; rw [e1]
  · refine ⟨wf1, rfl, ?_, rfl, r.cap, r.cap_pos, ⟨by simp [LruL0.clear, LruL0.keys], by simp [LruL0.clear]⟩⟩
    intro k a; simp [AMap.empty]

/-! ### histories -/

theorem step_refines (s1 : Lru K V) (s0 : LruL0.Cache K V) (ch : List (Nat × (K × V)))
    (r : Refines s1 s0 ch) (op : LruL0.Op K V) :
    ∃ s1' ch', Lru.step s1 op = .ok (s1', (LruL0.step s0 op).2) ∧ Refines s1' (LruL0.step s0 op).1 ch' ∧
      Conserved s1 ch s1' ch' (LruSpec.newValues s0 op) := by
  cases op with
  | push k v =>
    obtain ⟨s1', ch', e, r', c⟩ := push_refines s1 s0 ch r k v
    exact ⟨s1', ch', by simp [Lru.step, e, LruL0.step], r', c⟩
  | get k =>
    obtain ⟨s1', ch', e, r', c⟩ := get_refines s1 s0 ch r k
    exact ⟨s1', ch', by simp [Lru.step, e, LruL0.step], r', c⟩
  | contains k =>
    exact ⟨s1, ch, by simp [Lru.step, LruL0.step, contains_refines s1 s0 ch r k], r, conserved_refl s1 ch⟩
  | front =>
    exact ⟨s1, ch, by simp [Lru.step, LruL0.step, getFront_refines s1 s0 ch r], r, conserved_refl s1 ch⟩
  | setFront v =>
    obtain ⟨s1', ch', e, r', c⟩ := setFront_refines s1 s0 ch r v
    exact ⟨s1', ch', by simp [Lru.step, e, LruL0.step], r', c⟩
  | clear =>
    obtain ⟨s1', e, r', _, c⟩ := clear_refines s1 s0 ch r
    exact ⟨s1', [], by simp [Lru.step, e, LruL0.step], r', c⟩
  | len =>
    exact ⟨s1, ch, by simp [Lru.step, LruL0.step, len_refines s1 s0 ch r], r, conserved_refl s1 ch⟩

theorem run_refines (s1 : Lru K V) (s0 : LruL0.Cache K V) (ch : List (Nat × (K × V)))
    (r : Refines s1 s0 ch) (ops : List (LruL0.Op K V)) :
    ∃ s1' ch', Lru.run s1 ops = .ok (s1', (LruL0.runOut s0 ops).2) ∧
      Refines s1' (LruL0.runOut s0 ops).1 ch' ∧ Conserved s1 ch s1' ch' (LruSpec.introduced s0 ops) := by
  induction ops generalizing s1 s0 ch with
  | nil => exact ⟨s1, ch, rfl, r, conserved_refl s1 ch⟩
  | cons op ops ih =>
    obtain ⟨s1', ch', e, r', c1⟩ := step_refines s1 s0 ch r op
    obtain ⟨s1'', ch'', e2, r'', c2⟩ := ih s1' _ ch' r'
    refine ⟨s1'', ch'', by simp only [Lru.run, e, e2, LruL0.runOut], r'', ?_⟩
    unfold Conserved at c1 c2 ⊢
    simp only [LruSpec.introduced]
    exact c2.trans (by
      have := c1.append_right (LruSpec.introduced (LruL0.step s0 op).1 ops)
      simpa [List.append_assoc] using this)

theorem runOut_fst (s0 : LruL0.Cache K V) (ops : List (LruL0.Op K V)) :
    (LruL0.runOut s0 ops).1 = LruL0.run s0 ops := by
  induction ops generalizing s0 with
  | nil => rfl
  | cons op ops ih => simp only [LruL0.runOut, LruL0.run_cons, ih]

end Tbx.LruL1
