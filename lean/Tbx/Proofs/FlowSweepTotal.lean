import Tbx.Proofs.FlowDinicTotal
import Tbx.Proofs.FlowEKTotal
/-
The reachability sweep of `assignment` returns within its fuel `n + 1` (each node is marked at most once),
and the C02 headline for the three models without any "if it returns" hypothesis.
-/
namespace Tbx.Flow
open Tbx Tbx.FlowTheory Tbx.FlowSpec

/-- number of indices `i < k` whose bit is `false` -/
def unf (a : Array Bool) : Nat → Nat
  | 0 => 0
  | k + 1 => unf a k + (if gt a k = false then 1 else 0)

theorem unf_st_ge (a : Array Bool) (v : Nat) (x : Bool) (k : Nat) (hv : k ≤ v) : unf (st a v x) k = unf a k := by
  induction k with
  | zero => rfl
  | succ k ih =>
    simp only [unf]
    rw [ih (by omega), gt_st_ne _ _ _ _ (by omega)]

theorem unf_st_mark (a : Array Bool) (v k : Nat) (hv : v < k) (hsz : v < a.size) (hI : gt a v = false) :
    unf (st a v true) k + 1 = unf a k := by
  induction k with
  | zero => omega
  | succ k ih =>
    simp only [unf]
    by_cases hvk : v = k
    · subst hvk
      rw [unf_st_ge _ _ _ _ (Nat.le_refl _), gt_st_eq _ _ _ hsz, if_pos hI]
      simp
    · rw [gt_st_ne _ _ _ _ hvk]
      have := ih (by omega)
      omega

theorem unf_replicate (n k : Nat) (hk : k ≤ n) : unf (Array.replicate n false) k = k := by
  induction k with
  | zero => rfl
  | succ k ih =>
    simp only [unf]
    have : gt (Array.replicate n false) k = false := by
      unfold gt; simp [Array.getD_eq_getD_getElem?, show k < n by omega]
    rw [ih (by omega), if_pos this]

theorem sweepEdges_measure (g : Graph) (n : Nat) (hT : ∀ e, 0 < gt g.cap e → gt g.tgt e < n) (k : Nat) :
    ∀ (e : Nat) (reach : Array Bool) (stack : List Nat), reach.size = n →
    (sweepEdges g e k reach stack).1.size = n ∧
    (sweepEdges g e k reach stack).2.length + unf (sweepEdges g e k reach stack).1 n =
      stack.length + unf reach n := by
  induction k with
  | zero => intro e reach stack hsz; simp only [sweepEdges]; exact ⟨hsz, trivial⟩
  | succ k ih =>
    intro e reach stack hsz
    simp only [sweepEdges]
    split
    · rename_i hc
      simp only [Bool.and_eq_true, Bool.not_eq_eq_eq_not, Bool.not_true, decide_eq_true_eq] at hc
      have hvn := hT e hc.2
      obtain ⟨a, b⟩ := ih (e + 1) (st reach (gt g.tgt e) true) (gt g.tgt e :: stack) (by simp [hsz])
      refine ⟨a, ?_⟩
      rw [b]
      have := unf_st_mark reach (gt g.tgt e) n hvn (by rw [hsz]; exact hvn) hc.1
      simp only [List.length_cons]; omega
    · exact ih (e + 1) reach stack hsz

theorem sweepLoop_total (g : Graph) (hT : TargetsOK g) (fuel : Nat) : ∀ (reach : Array Bool) (stack : List Nat),
    reach.size = g.numNodes → stack.length + unf reach g.numNodes < fuel →
    ∃ r, sweepLoop g fuel reach stack = some r := by
  induction fuel with
  | zero => intro _ _ _ h; omega
  | succ fuel ih =>
    intro reach stack hsz hm
    cases stack with
    | nil => exact ⟨reach, by simp [sweepLoop]⟩
    | cons node rest =>
      simp only [sweepLoop]
      obtain ⟨a, b⟩ := sweepEdges_measure g g.numNodes hT (g.deg node) (g.beginEdges node) reach rest hsz
      apply ih _ _ a
      simp only [List.length_cons] at hm
      omega

/-- on a finished solver `assignment(source)` returns `Ok` for every node `source` -/
theorem assignmentOut_total (g : Graph) (hT : TargetsOK g) (src : Nat) (hs : src < g.numNodes) :
    ∃ r, assignmentOut g true src = .ok r := by
  unfold assignmentOut
  simp only [Bool.not_true, Bool.false_eq_true, if_false]
  rw [if_neg (by omega)]
  have hrep : gt (Array.replicate g.numNodes false) src = false := by
    unfold gt; simp [Array.getD_eq_getD_getElem?, hs]
  obtain ⟨r, hr⟩ := sweepLoop_total g hT (g.numNodes + 1) (st (Array.replicate g.numNodes false) src true) [src]
    (by simp) (by
      have h1 := unf_st_mark (Array.replicate g.numNodes false) src g.numNodes hs (by simp [hs]) hrep
      have h2 := unf_replicate g.numNodes g.numNodes (Nat.le_refl _)
      simp only [List.length_singleton]; omega)
  rw [hr]; exact ⟨r, rfl⟩

/-- two bit vectors of length n that denote the same set are equal -/
theorem bits_eq_of_setOf_eq (n : Nat) (b1 b2 : Array Bool) (h1 : b1.size = n) (h2 : b2.size = n)
    (h : setOf n (fun v => gt b1 v) = setOf n (fun v => gt b2 v)) : b1 = b2 := by
  apply Array.ext (by rw [h1, h2])
  intro i hi1 hi2
  have hi : i < n := by omega
  have := Finset.ext_iff.mp h ⟨i, hi⟩
  simp only [mem_setOf] at this
  have e1 : gt b1 i = b1[i] := by unfold gt; simp [Array.getD_eq_getD_getElem?, hi1]
  have e2 : gt b2 i = b2[i] := by unfold gt; simp [Array.getD_eq_getD_getElem?, hi2]
  rw [e1, e2] at this
  cases hb1 : b1[i] <;> cases hb2 : b2[i] <;> simp_all

/-- **C02 headline for the three models, total**: each model — run with the driver's fuel — returns,
    `assignment(s)` is `Ok bits`, the three bit vectors are equal, and the set they denote contains s,
    excludes t, its cut capacity over the merged input capacities is the reported (= maximum) flow value,
    it is a minimum cut, and it is contained in every minimum cut -/
theorem solvers_return_canonical_cut (es : List Edge) (s t : Nat) (hnn : ∀ e, e ∈ es → 0 ≤ e.cap)
    (hst : s ≠ t) (hs : s < nNodes (es.map toE)) (ht : t < nNodes (es.map toE))
    (hN : nNodes (es.map toE) + 2 < INV) :
    ∃ (bits : Array Bool) (x : ℤ) (d d' : Dinic) (ek ff : Solver),
      Dinic.fromEdgeList es s t = some d ∧ d.run ((es.map Edge.cap).sum.toNat + 2) = some d' ∧
      (Solver.fromEdgeList es s t).runEK ((es.map Edge.cap).sum.toNat + 2) = some ek ∧
      (Solver.fromEdgeList es s t).runFF ((es.map Edge.cap).sum.toNat + 2) = some ff ∧
      d'.maxFlow? = .ok x ∧ ek.maxFlow? = .ok x ∧ ff.maxFlow? = .ok x ∧
      d'.assignment? s = .ok bits ∧ ek.assignment? s = .ok bits ∧ ff.assignment? s = .ok bits ∧
      bits.size = nNodes (es.map toE) ∧
      (let n := nNodes (es.map toE)
       let c := cF (es.map toE) n
       let A := setOf n (fun v => gt bits v)
       ⟨s, hs⟩ ∈ A ∧ ⟨t, ht⟩ ∉ A ∧ cutCap c A = x ∧ IsMaxFlowValue c ⟨s, hs⟩ ⟨t, ht⟩ x ∧
       (∀ S' : Finset (Fin n), ⟨s, hs⟩ ∈ S' → ⟨t, ht⟩ ∉ S' → cutCap c A ≤ cutCap c S') ∧
       (∀ S' : Finset (Fin n), ⟨s, hs⟩ ∈ S' → ⟨t, ht⟩ ∉ S' → cutCap c S' = x → A ⊆ S')) := by
  have hne : es.isEmpty = false := by
    cases es with
    | nil => simp [nNodes, FlowSpec.maxId] at hs ht; omega
    | cons a l => rfl
  have hd : Dinic.fromEdgeList es s t = some
      { g := residualDinic es, maxFlow := 0, finished := false, level := #[], parents := #[],
        stack := [], dfsCount := 0, bfsCount := 0, source := s, target := t } := by
    unfold Dinic.fromEdgeList; rw [hne]; rfl
  obtain ⟨d', h1, m1, o1⟩ := dinic_total es s t hnn hst hs ht hN _ hd
  obtain ⟨ek, h2, m2, o2⟩ := ek_ff_total es s t hnn hst hs ht (by omega) popBack popBack_ok popBack_len
  obtain ⟨ff, h3, m3, o3⟩ := ek_ff_total es s t hnn hst hs ht (by omega) popFront popFront_ok popFront_len
  -- the three assignments exist
  obtain ⟨_, _, fi1, un1, fin1⟩ := dinic_run_spec es s t hnn hst hN _ hd _ d' h1
  have hsn1 : s < d'.g.numNodes := by rw [fi1.hn]; exact hs
  obtain ⟨b1, hb1⟩ := assignmentOut_total d'.g fi1.wf.targetsOK s hsn1
  have ha1 : d'.assignment? s = .ok b1 := by unfold Dinic.assignment?; rw [fin1]; exact hb1
  have hi2 := init_finv (residualEK es) es ⟨s, hs⟩ ⟨t, ht⟩ (merge_cap_ek es hnn)
  obtain ⟨_, fi2, fin2, un2⟩ := run_correct (fun e => hst (Fin.mk.inj e)) (by omega) popBack popBack_ok
    (Solver.fromEdgeList es s t) ek _ rfl rfl hi2 h2
  obtain ⟨_, fi3, fin3, un3⟩ := run_correct (fun e => hst (Fin.mk.inj e)) (by omega) popFront popFront_ok
    (Solver.fromEdgeList es s t) ff _ rfl rfl hi2 h3
  obtain ⟨b2, hb2⟩ := assignmentOut_total ek.g fi2.wf.targetsOK s (by rw [fi2.hn]; exact hs)
  obtain ⟨b3, hb3⟩ := assignmentOut_total ff.g fi3.wf.targetsOK s (by rw [fi3.hn]; exact hs)
  have ha2 : ek.assignment? s = .ok b2 := by unfold Solver.assignment?; rw [fin2]; exact hb2
  have ha3 : ff.assignment? s = .ok b3 := by unfold Solver.assignment?; rw [fin3]; exact hb3
  obtain ⟨s1, p1, q1, c1, mn1, ml1⟩ := assignment_canonical d'.g d'.maxFlow fi1 un1 b1 hb1
  obtain ⟨s2, p2, q2, c2, mn2, ml2⟩ := assignment_canonical ek.g ek.maxFlow fi2 un2 b2 hb2
  obtain ⟨s3, p3, q3, c3, mn3, ml3⟩ := assignment_canonical ff.g ff.maxFlow fi3 un3 b3 hb3
  have e21 : ek.maxFlow = d'.maxFlow := maxFlowValue_unique m2 m1
  have e31 : ff.maxFlow = d'.maxFlow := maxFlowValue_unique m3 m1
  have hb21 : b2 = b1 := by
    apply bits_eq_of_setOf_eq _ b2 b1 s2 s1
    apply Finset.Subset.antisymm
    · exact ml2 _ p1 q1 (by rw [c1, e21])
    · exact ml1 _ p2 q2 (by rw [c2, e21])
  have hb31 : b3 = b1 := by
    apply bits_eq_of_setOf_eq _ b3 b1 s3 s1
    apply Finset.Subset.antisymm
    · exact ml3 _ p1 q1 (by rw [c1, e31])
    · exact ml1 _ p3 q3 (by rw [c3, e31])
  refine ⟨b1, d'.maxFlow, _, d', ek, ff, hd, h1, h2, h3, o1, by rw [o2, e21], by rw [o3, e31], ha1,
    by rw [ha2, hb21], by rw [ha3, hb31], s1, ?_⟩
  exact ⟨p1, q1, c1, m1, mn1, ml1⟩

end Tbx.Flow
