import Tbx.Model.AHeap
import Tbx.Proofs.AHeapOrder
/-
Back-pointer bookkeeping shared by `upLoop` and `downLoop` (C10).

`PtrX h ns x`   : back pointers (heap slot -> node) and forward pointers (node -> heap slot) agree,
                  except for the node slot `x` (the node `delete_min` is about to mark removed;
                  `x = ns.size` means "no exception").
`PInv h ns hole r x lo` : the same while a sift is in progress: position `hole` of the heap array is
                  stale, node `r` (the moving element) has a stale key, everything else is linked.
`Frame ns ns'`  : `ns'` differs from `ns` only in `key` fields and no key changes zero <-> non-zero.
-/
namespace Tbx.AHeap
open Tbx

/-! ### array helpers -/

theorem gt_eq_getElem {α : Type} [Inhabited α] (a : Array α) (i : Nat) (h : i < a.size) :
    gt a i = a[i] := by
  simp [gt, Array.getD_eq_getD_getElem?, h]

theorem gt_pop {α : Type} [Inhabited α] (a : Array α) (i : Nat) (h : i < a.size - 1) :
    gt a.pop i = gt a i := by
  simp only [gt, Array.getD_eq_getD_getElem?]
  rw [Array.getElem?_pop]
  simp [h]

theorem toList_eq_map_range (ns : Array Node) :
    ns.toList = (List.range ns.size).map (fun i => gt ns i) := by
  apply List.ext_getElem
  · simp
  · intro i h1 h2
    simp only [List.getElem_map, List.getElem_range, Array.getElem_toList]
    rw [gt_eq_getElem]

/-! ### setKey -/

@[simp] theorem size_setKey (ns : Array Node) (i k : Nat) : (setKey ns i k).size = ns.size := by
  simp [setKey]

theorem gt_setKey_ne (ns : Array Node) (i j k : Nat) (h : i ≠ j) :
    gt (setKey ns i k) j = gt ns j := by
  unfold setKey; exact gt_st_ne _ _ _ _ h

theorem gt_setKey_eq (ns : Array Node) (i k : Nat) (h : i < ns.size) :
    gt (setKey ns i k) i = { gt ns i with key := k } := by
  unfold setKey; exact gt_st_eq _ _ _ h

theorem setKey_key_eq (ns : Array Node) (i k : Nat) (h : i < ns.size) :
    (gt (setKey ns i k) i).key = k := by
  rw [gt_setKey_eq _ _ _ h]

theorem setKey_id (ns : Array Node) (i k j : Nat) : (gt (setKey ns i k) j).id = (gt ns j).id := by
  unfold setKey; rw [gt_st]; split
  · rename_i h; rw [h.1]
  · rfl

theorem setKey_weight (ns : Array Node) (i k j : Nat) :
    (gt (setKey ns i k) j).weight = (gt ns j).weight := by
  unfold setKey; rw [gt_st]; split
  · rename_i h; rw [h.1]
  · rfl

theorem setKey_data (ns : Array Node) (i k j : Nat) : (gt (setKey ns i k) j).data = (gt ns j).data := by
  unfold setKey; rw [gt_st]; split
  · rename_i h; rw [h.1]
  · rfl

/-! ### Frame -/

def Frame (ns ns' : Array Node) : Prop :=
  ns'.size = ns.size ∧ ∀ i, (gt ns' i).id = (gt ns i).id ∧ (gt ns' i).weight = (gt ns i).weight ∧
    (gt ns' i).data = (gt ns i).data ∧ ((gt ns' i).key = 0 ↔ (gt ns i).key = 0)

theorem Frame.refl (ns : Array Node) : Frame ns ns := ⟨rfl, fun _ => ⟨rfl, rfl, rfl, Iff.rfl⟩⟩

theorem Frame.trans {a b c : Array Node} (h1 : Frame a b) (h2 : Frame b c) : Frame a c := by
  refine ⟨h2.1.trans h1.1, fun i => ?_⟩
  obtain ⟨a1, a2, a3, a4⟩ := h1.2 i
  obtain ⟨b1, b2, b3, b4⟩ := h2.2 i
  exact ⟨b1.trans a1, b2.trans a2, b3.trans a3, b4.trans a4⟩

theorem frame_setKey (ns : Array Node) (i k : Nat) (h1 : (gt ns i).key ≠ 0) (hk : k ≠ 0) :
    Frame ns (setKey ns i k) := by
  refine ⟨size_setKey _ _ _, fun j => ⟨setKey_id _ _ _ _, setKey_weight _ _ _ _, setKey_data _ _ _ _, ?_⟩⟩
  by_cases e : i = j
  · subst e
    by_cases hi : i < ns.size
    · rw [setKey_key_eq _ _ _ hi]
      constructor
      · intro h; exact absurd h hk
      · intro h; exact absurd h h1
    · unfold setKey; rw [gt_st]; simp [hi]
  · rw [gt_setKey_ne _ _ _ _ e]

/-! ### pointer invariants -/

structure PtrX (h : Array Elem) (ns : Array Node) (x : Nat) : Prop where
  back : ∀ k, 1 ≤ k → k < h.size → (gt h k).index < ns.size ∧ (gt h k).index ≠ x ∧
    (gt ns (gt h k).index).key = k ∧ (gt ns (gt h k).index).weight = (gt h k).weight
  fwd : ∀ i, i < ns.size → i ≠ x → (gt ns i).key ≠ 0 →
    (gt ns i).key < h.size ∧ (gt h (gt ns i).key).index = i

structure PInv (h : Array Elem) (ns : Array Node) (hole r x : Nat) (lo : Int) : Prop where
  hole_pos : 1 ≤ hole
  hole_lt : hole < h.size
  r_lt : r < ns.size
  r_ne_x : r ≠ x
  r_key : (gt ns r).key ≠ 0
  wlo : ∀ k, k < h.size → k ≠ hole → lo ≤ (gt h k).weight
  back : ∀ k, 1 ≤ k → k < h.size → k ≠ hole → (gt h k).index < ns.size ∧ (gt h k).index ≠ r ∧
    (gt h k).index ≠ x ∧ (gt ns (gt h k).index).key = k ∧
    (gt ns (gt h k).index).weight = (gt h k).weight
  fwd : ∀ i, i < ns.size → i ≠ r → i ≠ x → (gt ns i).key ≠ 0 →
    (gt ns i).key < h.size ∧ (gt ns i).key ≠ hole ∧ (gt h (gt ns i).key).index = i

/-- start of a sift: take the element at `key` out of a linked heap -/
theorem PInv.start {h : Array Elem} {ns : Array Node} {x : Nat} {lo : Int} (P : PtrX h ns x)
    (key : Nat) (h1 : 1 ≤ key) (h2 : key < h.size) (hlo : ∀ k, k < h.size → lo ≤ (gt h k).weight) :
    PInv h ns key (gt h key).index x lo := by
  obtain ⟨b1, b2, b3, b4⟩ := P.back key h1 h2
  refine ⟨h1, h2, b1, b2, by omega, fun k hk _ => hlo k hk, ?_, ?_⟩
  · intro k k1 k2 kne
    obtain ⟨c1, c2, c3, c4⟩ := P.back k k1 k2
    refine ⟨c1, ?_, c2, c3, c4⟩
    intro e; rw [e] at c3; omega
  · intro i i1 i2 i3 i4
    obtain ⟨c1, c2⟩ := P.fwd i i1 i3 i4
    refine ⟨c1, ?_, c2⟩
    intro e; rw [e] at c2; exact i2 c2.symm

/-- one move of either sift loop: the element at `src` is copied into the hole, its node's back
pointer is redirected, and `src` becomes the hole -/
theorem PInv.move {h : Array Elem} {ns : Array Node} {hole r x : Nat} {lo : Int}
    (P : PInv h ns hole r x lo) (src : Nat) (h1 : 1 ≤ src) (h2 : src < h.size) (hne : src ≠ hole) :
    PInv (st h hole (gt h src)) (setKey ns (gt h src).index hole) src r x lo ∧
    Frame ns (setKey ns (gt h src).index hole) := by
  obtain ⟨s1, s2, s3, s4, s5⟩ := P.back src h1 h2 hne
  have hpos := P.hole_pos
  constructor
  · refine ⟨h1, by simpa using h2, by simpa using P.r_lt, P.r_ne_x, ?_, ?_, ?_, ?_⟩
    · rw [gt_setKey_ne _ _ _ _ s2]; exact P.r_key
    · intro k k1 k2
      simp at k1
      by_cases e : k = hole
      · subst e; rw [gt_st_eq _ _ _ P.hole_lt]; exact P.wlo src h2 hne
      · rw [gt_st_ne _ _ _ _ (Ne.symm e)]; exact P.wlo k k1 e
    · intro k k1 k2 kne
      simp at k2
      by_cases e : k = hole
      · subst e
        rw [gt_st_eq _ _ _ P.hole_lt]
        refine ⟨by simpa using s1, s2, s3, ?_, ?_⟩
        · exact setKey_key_eq _ _ _ s1
        · rw [setKey_weight]; exact s5
      · rw [gt_st_ne _ _ _ _ (Ne.symm e)]
        obtain ⟨c1, c2, c3, c4, c5⟩ := P.back k k1 k2 e
        have hd : (gt h src).index ≠ (gt h k).index := by
          intro e'; rw [e'] at s4; omega
        rw [gt_setKey_ne _ _ _ _ hd]
        exact ⟨by simpa using c1, c2, c3, c4, c5⟩
    · intro i i1 i2 i3 i4
      simp at i1
      by_cases e : (gt h src).index = i
      · subst e
        rw [setKey_key_eq _ _ _ s1]
        refine ⟨by simpa using P.hole_lt, Ne.symm hne, ?_⟩
        rw [gt_st_eq _ _ _ P.hole_lt]
      · rw [gt_setKey_ne _ _ _ _ e] at i4 ⊢
        obtain ⟨c1, c2, c3⟩ := P.fwd i i1 i2 i3 i4
        refine ⟨by simpa using c1, ?_, ?_⟩
        · intro e'; rw [e'] at c3; exact e c3
        · rw [gt_st_ne _ _ _ _ (Ne.symm c2)]; exact c3
  · apply frame_setKey
    · omega
    · omega

/-- end of a sift: the moving element is written into the hole -/
theorem PInv.close {h : Array Elem} {ns : Array Node} {hole r x : Nat} {lo : Int}
    (P : PInv h ns hole r x lo) (w : Int) (hw : (gt ns r).weight = w) (hlo : lo ≤ w) :
    PtrX (st h hole ⟨r, w⟩) (setKey ns r hole) x ∧ Frame ns (setKey ns r hole) ∧
    (∀ k, k < h.size → lo ≤ (gt (st h hole ⟨r, w⟩) k).weight) ∧
    (gt (st h hole ⟨r, w⟩) 0) = gt h 0 := by
  have hpos := P.hole_pos
  refine ⟨⟨?_, ?_⟩, ?_, ?_, ?_⟩
  · intro k k1 k2
    simp at k2
    by_cases e : k = hole
    · subst e
      rw [gt_st_eq _ _ _ P.hole_lt]
      refine ⟨by simpa using P.r_lt, P.r_ne_x, setKey_key_eq _ _ _ P.r_lt, ?_⟩
      rw [setKey_weight]; exact hw
    · rw [gt_st_ne _ _ _ _ (Ne.symm e)]
      obtain ⟨c1, c2, c3, c4, c5⟩ := P.back k k1 k2 e
      rw [gt_setKey_ne _ _ _ _ (Ne.symm c2)]
      exact ⟨by simpa using c1, c3, c4, c5⟩
  · intro i i1 i3 i4
    simp at i1
    by_cases e : r = i
    · subst e
      rw [setKey_key_eq _ _ _ P.r_lt]
      refine ⟨by simpa using P.hole_lt, ?_⟩
      rw [gt_st_eq _ _ _ P.hole_lt]
    · rw [gt_setKey_ne _ _ _ _ e] at i4 ⊢
      obtain ⟨c1, c2, c3⟩ := P.fwd i i1 (Ne.symm e) i3 i4
      refine ⟨by simpa using c1, ?_⟩
      rw [gt_st_ne _ _ _ _ (Ne.symm c2)]; exact c3
  · exact frame_setKey _ _ _ P.r_key (by omega)
  · intro k k1
    by_cases e : k = hole
    · subst e; rw [gt_st_eq _ _ _ P.hole_lt]; exact hlo
    · rw [gt_st_ne _ _ _ _ (Ne.symm e)]; exact P.wlo k k1 e
  · rw [gt_st_ne _ _ _ _ (by omega)]

end Tbx.AHeap
