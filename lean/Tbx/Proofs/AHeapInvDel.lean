import Tbx.Proofs.AHeapInvDefs
/-
C10: `new`, `clear`, `delete_min`, `flush` preserve `Inv` and commute with `abs`.
-/
namespace Tbx.AHeap
open Tbx

/-! ### new / clear -/

theorem init_inv (wmin wmax : Int) : Inv (init wmin wmax) := by
  refine ⟨by simp [init], by simp [init, gt], ?_, ?_, ?_, ?_, ?_⟩
  · intro k hk
    have : k = 0 := by simp [init] at hk; omega
    subst this; simp [init, gt]
  · intro k k1 k2; simp [init] at k2; omega
  · intro k k1 k2; simp [init] at k2; omega
  · intro i i1; simp [init] at i1
  · intro id i; simp [init, lookup]

theorem init_abs (wmin wmax : Int) : abs (init wmin wmax) = [] := by
  simp [abs, init]

/-! ### delete_min -/

/-- heap array of `delete_min` after `swap(1, last); pop()` -/
def delHeap (s : Heap) : Array Elem := (st s.heap 1 (gt s.heap (s.heap.size - 1))).pop

/-- state of `delete_min` after the optional `down_heap(1)` -/
def delMid (s : Heap) : Heap :=
  if (delHeap s).size > 1 then downHeap { s with heap := delHeap s } 1 else { s with heap := delHeap s }

theorem deleteMin_eq (s : Heap) (h : 1 < s.heap.size) :
    deleteMin s = some ({ delMid s with nodes := setKey (delMid s).nodes (gt s.heap 1).index 0 },
      (gt (setKey (delMid s).nodes (gt s.heap 1).index 0) (gt s.heap 1).index).id) := by
  unfold deleteMin
  rw [if_neg (by omega)]
  rfl

theorem size_delHeap (s : Heap) : (delHeap s).size = s.heap.size - 1 := by
  simp [delHeap]

theorem gt_delHeap_ne (s : Heap) (k : Nat) (h1 : k < s.heap.size - 1) (h2 : k ≠ 1) :
    gt (delHeap s) k = gt s.heap k := by
  unfold delHeap
  rw [gt_pop _ _ (by simpa using h1), gt_st_ne _ _ _ _ (Ne.symm h2)]

theorem gt_delHeap_one (s : Heap) (h : 2 < s.heap.size) :
    gt (delHeap s) 1 = gt s.heap (s.heap.size - 1) := by
  unfold delHeap
  rw [gt_pop _ _ (by simp; omega), gt_st_eq _ _ _ (by omega)]

/-- after the sift, everything is linked except the node about to be marked removed -/
theorem delMid_spec (s : Heap) (I : Inv s) (h : 1 < s.heap.size) :
    (delMid s).heap.size = s.heap.size - 1 ∧ Ord (delMid s).heap ∧
    PtrX (delMid s).heap (delMid s).nodes (gt s.heap 1).index ∧ Frame s.nodes (delMid s).nodes ∧
    (∀ k, k < s.heap.size - 1 → s.wmin ≤ (gt (delMid s).heap k).weight) ∧
    gt (delMid s).heap 0 = gt s.heap 0 ∧
    (delMid s).idx = s.idx ∧ (delMid s).wmin = s.wmin ∧ (delMid s).wmax = s.wmax := by
  obtain ⟨x1, x2, x3⟩ := I.back 1 (by omega) h
  unfold delMid
  split
  · rename_i hgt
    rw [size_delHeap] at hgt
    have hsz : ({ s with heap := delHeap s } : Heap).heap.size = s.heap.size - 1 := size_delHeap s
    obtain ⟨l1, l2, l3⟩ := I.back (s.heap.size - 1) (by omega) (by omega)
    have h1e : gt ({ s with heap := delHeap s } : Heap).heap 1 = gt s.heap (s.heap.size - 1) :=
      gt_delHeap_one s (by omega)
    have P : PInv ({ s with heap := delHeap s } : Heap).heap ({ s with heap := delHeap s } : Heap).nodes 1
        (gt ({ s with heap := delHeap s } : Heap).heap 1).index (gt s.heap 1).index s.wmin := by
      rw [h1e]
      show PInv (delHeap s) s.nodes 1 _ _ _
      refine ⟨by omega, by rw [size_delHeap]; omega, l1, ?_, by omega, ?_, ?_, ?_⟩
      · intro e; rw [e, x2] at l2; omega
      · intro k k1 k2
        rw [size_delHeap] at k1
        rw [gt_delHeap_ne s k k1 k2]; exact I.wlo k (by omega)
      · intro k k1 k2 k3
        rw [size_delHeap] at k2
        rw [gt_delHeap_ne s k k2 k3]
        obtain ⟨c1, c2, c3⟩ := I.back k k1 (by omega)
        refine ⟨c1, ?_, ?_, c2, c3⟩
        · intro e; rw [e, l2] at c2; omega
        · intro e; rw [e, x2] at c2; omega
      · intro i i1 i2 i3 i4
        obtain ⟨c1, c2⟩ := I.fwd i i1 i4
        have n1 : (gt s.nodes i).key ≠ s.heap.size - 1 := by
          intro e; rw [e] at c2; exact i2 c2.symm
        have n2 : (gt s.nodes i).key ≠ 1 := by
          intro e; rw [e] at c2; exact i3 c2.symm
        rw [size_delHeap]
        refine ⟨by omega, n2, ?_⟩
        rw [gt_delHeap_ne s _ (by omega) n2]; exact c2
    obtain ⟨d1, d2, d3, d4, d5, d6⟩ := downHeap_spec { s with heap := delHeap s } 1 (gt s.heap 1).index
      s.wmin P (by rw [h1e]; exact l3) (by rw [h1e]; exact I.wlo _ (by omega))
      (by
        rw [h1e]
        intro k k1 k2 k3
        rw [hsz] at k2
        unfold wt
        simp only [k3, show k ≠ 1 by omega, if_false]
        show (gt (delHeap s) (k / 2)).weight ≤ (gt (delHeap s) k).weight
        rw [gt_delHeap_ne s k k2 (by omega), gt_delHeap_ne s (k / 2) (by omega) k3]
        exact I.ord k k1 (by omega))
      (by intro h2; omega)
    refine ⟨by rw [d1, hsz], d2, d3, d4, ?_, ?_, rfl, rfl, rfl⟩
    · intro k hk; exact d5 k (by rw [hsz]; exact hk)
    · rw [d6]; exact gt_delHeap_ne s 0 (by omega) (by omega)
  · rename_i hle
    rw [size_delHeap] at hle
    have hs2 : s.heap.size = 2 := by omega
    show (delHeap s).size = _ ∧ Ord (delHeap s) ∧ PtrX (delHeap s) s.nodes _ ∧ _ ∧
      (∀ k, k < s.heap.size - 1 → s.wmin ≤ (gt (delHeap s) k).weight) ∧ gt (delHeap s) 0 = _ ∧ _
    refine ⟨size_delHeap s, ?_, ⟨?_, ?_⟩, Frame.refl _, ?_, ?_, rfl, rfl, rfl⟩
    · intro k k1 k2; rw [size_delHeap] at k2; omega
    · intro k k1 k2; rw [size_delHeap] at k2; omega
    · intro i i1 i2 i3
      exfalso
      obtain ⟨c1, c2⟩ := I.fwd i i1 i3
      have : (gt s.nodes i).key = 1 := by omega
      rw [this] at c2; exact i2 c2.symm
    · intro k hk
      rw [gt_delHeap_ne s k hk (by omega)]; exact I.wlo k (by omega)
    · exact gt_delHeap_ne s 0 (by omega) (by omega)

/-- marking the exempt node removed closes the pointer invariant -/
theorem PtrX.kill {h : Array Elem} {ns : Array Node} {x : Nat} (P : PtrX h ns x) :
    PtrX h (setKey ns x 0) (setKey ns x 0).size := by
  refine ⟨?_, ?_⟩
  · intro k k1 k2
    obtain ⟨c1, c2, c3, c4⟩ := P.back k k1 k2
    rw [gt_setKey_ne _ _ _ _ (Ne.symm c2), size_setKey]
    exact ⟨c1, by omega, c3, c4⟩
  · intro i i1 _ i3
    rw [size_setKey] at i1
    by_cases e : x = i
    · subst e
      rw [setKey_key_eq _ _ _ i1] at i3
      exact absurd rfl i3
    · rw [gt_setKey_ne _ _ _ _ e] at i3 ⊢
      exact P.fwd i i1 (Ne.symm e) i3

theorem deleteMin_spec (s : Heap) (I : Inv s) (h : 1 < s.heap.size) :
    ∃ s', deleteMin s = some (s', (gt s.nodes (gt s.heap 1).index).id) ∧ Inv s' ∧
      abs s' = PQ.remove (abs s) (gt s.nodes (gt s.heap 1).index).id ∧
      s'.idx = s.idx ∧ s'.wmin = s.wmin ∧ s'.wmax = s.wmax ∧ s'.heap.size = s.heap.size - 1 := by
  obtain ⟨x1, x2, x3⟩ := I.back 1 (by omega) h
  obtain ⟨m1, m2, m3, m4, m5, m6, m7, m8, m9⟩ := delMid_spec s I h
  refine ⟨{ delMid s with nodes := setKey (delMid s).nodes (gt s.heap 1).index 0 }, ?_, ?_, ?_,
    m7, m8, m9, m1⟩
  · rw [deleteMin_eq s h, setKey_id, (m4.2 _).1]
  · apply Inv.of_ptr
    · show 1 ≤ (delMid s).heap.size
      omega
    · show (gt (delMid s).heap 0).weight = (delMid s).wmin
      rw [m6, m8]; exact I.sentinel
    · intro k hk
      show (delMid s).wmin ≤ (gt (delMid s).heap k).weight
      rw [m8]; exact m5 k (by rw [← m1]; exact hk)
    · exact m2
    · exact m3.kill
    · show IdMap (delMid s).idx (setKey (delMid s).nodes _ 0)
      rw [m7]
      exact I.idmap.frame (by rw [size_setKey, m4.1])
        (fun i => by rw [setKey_id, (m4.2 i).1])
  · show (setKey (delMid s).nodes _ 0).toList.map ent = _
    unfold abs PQ.remove
    apply abs_upd s.nodes _ (gt s.heap 1).index _ _ (by rw [size_setKey, m4.1]) rfl
    · intro j j1 j2
      exact I.idmap.uniq x1 j1 j2
    · rw [gt_setKey_eq _ _ _ (by rw [m4.1]; exact x1)]
      obtain ⟨f1, f2, f3, _⟩ := m4.2 (gt s.heap 1).index
      unfold ent
      simp only [f1, f2, f3]
      simp
    · intro j _ jne
      rw [gt_setKey_ne _ _ _ _ (Ne.symm jne)]
      exact m4.ent_eq j

/-! ### flush -/

theorem setKey_zero_of_zero (ns : Array Node) (i j : Nat) (h : (gt ns j).key = 0) :
    (gt (setKey ns i 0) j).key = 0 := by
  unfold setKey; rw [gt_st]; split
  · rfl
  · exact h

theorem flushLoop_spec (n : Nat) (h : Array Elem) (ns : Array Node) :
    (flushLoop n h ns).size = ns.size ∧
    ∀ i, (gt (flushLoop n h ns) i).id = (gt ns i).id ∧ (gt (flushLoop n h ns) i).weight = (gt ns i).weight ∧
      (gt (flushLoop n h ns) i).data = (gt ns i).data ∧
      ((gt ns i).key = 0 → (gt (flushLoop n h ns) i).key = 0) ∧
      (i < ns.size → (∃ k, 1 ≤ k ∧ k ≤ n ∧ (gt h k).index = i) → (gt (flushLoop n h ns) i).key = 0) := by
  induction n generalizing ns with
  | zero =>
    refine ⟨rfl, fun i => ⟨rfl, rfl, rfl, fun h => h, ?_⟩⟩
    rintro _ ⟨k, k1, k2, _⟩; omega
  | succ n ih =>
    have hstep : flushLoop (n + 1) h ns = flushLoop n h (setKey ns (gt h (n + 1)).index 0) := rfl
    rw [hstep]
    obtain ⟨a, b⟩ := ih (setKey ns (gt h (n + 1)).index 0)
    refine ⟨by rw [a, size_setKey], fun i => ?_⟩
    obtain ⟨b1, b2, b3, b4, b5⟩ := b i
    refine ⟨by rw [b1, setKey_id], by rw [b2, setKey_weight], by rw [b3, setKey_data], ?_, ?_⟩
    · intro hz; exact b4 (setKey_zero_of_zero _ _ _ hz)
    · rintro hi ⟨k, k1, k2, k3⟩
      by_cases e : k = n + 1
      · subst e
        apply b4
        rw [k3]; exact setKey_key_eq _ _ _ hi
      · exact b5 (by simpa using hi) ⟨k, k1, by omega, k3⟩

theorem gt_extract01 (a : Array Elem) (h : 1 ≤ a.size) : gt (a.extract 0 1) 0 = gt a 0 := by
  simp only [gt, Array.getD_eq_getD_getElem?]
  rw [Array.getElem?_extract]
  have : 0 < min 1 a.size := by omega
  simp [this]

/-- after the loop of `flush` every node's key is zero -/
theorem flush_keys_zero (s : Heap) (I : Inv s) (i : Nat) (hi : i < s.nodes.size) :
    (gt (flush s).nodes i).key = 0 := by
  have hp := I.size_pos
  obtain ⟨a, b⟩ := flushLoop_spec (s.heap.size - 1) s.heap s.nodes
  show (gt (flushLoop (s.heap.size - 1) s.heap s.nodes) i).key = 0
  by_cases e : (gt s.nodes i).key = 0
  · exact (b i).2.2.2.1 e
  · obtain ⟨c1, c2⟩ := I.fwd i hi e
    exact (b i).2.2.2.2 hi ⟨_, by omega, by omega, c2⟩

theorem flush_spec (s : Heap) (I : Inv s) :
    Inv (flush s) ∧ abs (flush s) = PQ.flush (abs s) ∧ (flush s).heap.size = 1 := by
  have hp := I.size_pos
  obtain ⟨a, b⟩ := flushLoop_spec (s.heap.size - 1) s.heap s.nodes
  have hh : (flush s).heap = s.heap.extract 0 1 := rfl
  have hn : (flush s).nodes = flushLoop (s.heap.size - 1) s.heap s.nodes := rfl
  have hsz : (flush s).heap.size = 1 := by rw [hh]; simp; omega
  have hz : ∀ i, i < s.nodes.size → (gt (flush s).nodes i).key = 0 := flush_keys_zero s I
  refine ⟨⟨by omega, ?_, ?_, ?_, ?_, ?_, ?_⟩, ?_, hsz⟩
  · rw [hh, gt_extract01 _ hp]; exact I.sentinel
  · intro k hk
    have : k = 0 := by omega
    subst this
    rw [hh, gt_extract01 _ hp]; exact I.wlo 0 (by omega)
  · intro k k1 k2; omega
  · intro k k1 k2; omega
  · intro i i1 i3
    rw [hn, a] at i1
    exact absurd (hz i i1) i3
  · show IdMap s.idx (flush s).nodes
    rw [hn]
    exact I.idmap.frame a (fun i => (b i).1)
  · unfold abs PQ.flush
    rw [toList_eq_map_range (flush s).nodes, toList_eq_map_range s.nodes, hn, a, List.map_map,
      List.map_map, List.map_map]
    apply List.map_congr_left
    intro i hi
    simp only [List.mem_range] at hi
    simp only [Function.comp]
    have z := hz i hi
    rw [hn] at z
    obtain ⟨b1, b2, b3, _⟩ := b i
    unfold ent
    simp only [b1, b2, b3, z]
    simp

end Tbx.AHeap
