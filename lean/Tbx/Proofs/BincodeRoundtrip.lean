import Tbx.Model.Bincode
/-
Round-trip lemmas for the bincode model: decode ∘ encode = id on values that fit the Rust types,
with an arbitrary continuation `rest` of the byte stream (so that they compose).
-/
namespace Tbx.Bincode

theorem readLE_leBytes2 (n : Nat) (rest : List Nat) (h : n < 65536) :
    readLE 2 (leBytes 2 n ++ rest) = some (n, rest) := by
  simp only [leBytes, readLE, List.cons_append, List.nil_append]
  congr 2; omega

theorem readLE_leBytes4 (n : Nat) (rest : List Nat) (h : n < 4294967296) :
    readLE 4 (leBytes 4 n ++ rest) = some (n, rest) := by
  simp only [leBytes, readLE, List.cons_append, List.nil_append]
  congr 2; omega

theorem readLE_leBytes8 (n : Nat) (rest : List Nat) (h : n < 18446744073709551616) :
    readLE 8 (leBytes 8 n ++ rest) = some (n, rest) := by
  simp only [leBytes, readLE, List.cons_append, List.nil_append]
  congr 2; omega

theorem decodeVarint_encodeVarint (n : Nat) (rest : List Nat) (h : n < 18446744073709551616) :
    decodeVarint (encodeVarint n ++ rest) = some (n, rest) := by
  unfold encodeVarint
  split
  · rename_i h1; simp [decodeVarint, h1]
  · split
    · rename_i h1 h2
      simp only [List.cons_append, decodeVarint]
      simp [readLE_leBytes2 n rest h2]
    · split
      · rename_i h1 h2 h3
        simp only [List.cons_append, decodeVarint]
        simp [readLE_leBytes4 n rest h3]
      · simp only [List.cons_append, decodeVarint]
        simp [readLE_leBytes8 n rest h]

theorem decodeVarintU32_encodeVarint (n : Nat) (rest : List Nat) (h : n < 4294967296) :
    decodeVarintU32 (encodeVarint n ++ rest) = some (n, rest) := by
  unfold encodeVarint
  split
  · rename_i h1; simp [decodeVarintU32, h1]
  · split
    · rename_i h1 h2
      simp only [List.cons_append, decodeVarintU32]
      simp [readLE_leBytes2 n rest h2]
    · simp only [List.cons_append, decodeVarintU32]
      simp [readLE_leBytes4 n rest h]

theorem leBytes_lt (k n : Nat) : ∀ b ∈ leBytes k n, b < 256 := by
  induction k generalizing n with
  | zero => intro b hb; simp [leBytes] at hb
  | succ k ih =>
    intro b hb
    simp only [leBytes, List.mem_cons] at hb
    rcases hb with hb | hb
    · omega
    · exact ih _ b hb

/-- the encoder emits bytes -/
theorem encodeVarint_lt (n : Nat) : ∀ b ∈ encodeVarint n, b < 256 := by
  intro b hb
  unfold encodeVarint at hb
  split at hb
  · simp at hb; omega
  · split at hb
    · simp only [List.mem_cons] at hb
      rcases hb with hb | hb
      · omega
      · exact leBytes_lt _ _ b hb
    · split at hb
      · simp only [List.mem_cons] at hb
        rcases hb with hb | hb
        · omega
        · exact leBytes_lt _ _ b hb
      · simp only [List.mem_cons] at hb
        rcases hb with hb | hb
        · omega
        · exact leBytes_lt _ _ b hb

/-- encoded length: 1, 3, 5 or 9 bytes -/
theorem encodeVarint_length (n : Nat) :
    (encodeVarint n).length =
      if n < 251 then 1 else if n < 65536 then 3 else if n < 4294967296 then 5 else 9 := by
  unfold encodeVarint
  split
  · rfl
  · split
    · simp [leBytes]
    · split <;> simp [leBytes]

theorem zigzag_lt (i : Int) (h : I32 i) : zigzag i < 4294967296 := by
  unfold I32 at h
  unfold zigzag
  split <;> omega

theorem unzigzag_zigzag (i : Int) : unzigzag (zigzag i) = i := by
  unfold zigzag unzigzag
  split
  · rename_i h
    have : (2 * i.toNat) % 2 = 0 := by omega
    rw [if_pos this]
    simp only [Int.ofNat_eq_natCast]
    omega
  · rename_i h
    have : (2 * (-i).toNat - 1) % 2 ≠ 0 := by omega
    rw [if_neg this]
    simp only [Int.ofNat_eq_natCast]
    omega

theorem zigzag_unzigzag (n : Nat) : zigzag (unzigzag n) = n := by
  unfold zigzag unzigzag
  split
  · rename_i h
    simp only [Int.ofNat_eq_natCast]
    split <;> omega
  · rename_i h
    simp only [Int.ofNat_eq_natCast]
    split <;> omega

theorem decodeI32_encodeI32 (i : Int) (rest : List Nat) (h : I32 i) :
    decodeI32 (encodeI32 i ++ rest) = some (i, rest) := by
  unfold decodeI32 encodeI32
  rw [decodeVarintU32_encodeVarint _ _ (zigzag_lt i h)]
  simp [unzigzag_zigzag]

theorem decodeEdge_encodeEdge (e : InputEdge) (rest : List Nat) (h : EdgeFits e) :
    decodeEdge (encodeEdge e ++ rest) = some (e, rest) := by
  obtain ⟨h1, h2, h3⟩ := h
  unfold decodeEdge encodeEdge
  simp only [List.append_assoc]
  rw [decodeVarint_encodeVarint _ _ h1]
  simp only
  rw [decodeVarint_encodeVarint _ _ h2]
  simp only
  rw [decodeVarint_encodeVarint _ _ h3]

theorem decodeCoord_encodeCoord (c : FPCoordinate) (rest : List Nat) (h : CoordFits c) :
    decodeCoord (encodeCoord c ++ rest) = some (c, rest) := by
  obtain ⟨h1, h2⟩ := h
  unfold decodeCoord encodeCoord
  simp only [List.append_assoc]
  rw [decodeI32_encodeI32 _ _ h1]
  simp only
  rw [decodeI32_encodeI32 _ _ h2]

theorem decodeSeq_encodeSeq {α : Type} (enc : α → List Nat) (dec : List Nat → Option (α × List Nat))
    (xs : List α) (rest : List Nat)
    (h : ∀ x ∈ xs, ∀ r, dec (enc x ++ r) = some (x, r)) :
    decodeSeq dec xs.length (encodeSeq enc xs ++ rest) = some (xs, rest) := by
  induction xs with
  | nil => simp [decodeSeq, encodeSeq]
  | cons x xs ih =>
    simp only [List.length_cons, encodeSeq, decodeSeq, List.append_assoc]
    rw [h x (by simp)]
    simp only
    rw [ih (fun y hy r => h y (by simp [hy]) r)]

theorem decodeVec_encodeVec {α : Type} (enc : α → List Nat) (dec : List Nat → Option (α × List Nat))
    (xs : List α) (rest : List Nat) (hl : xs.length < 18446744073709551616)
    (h : ∀ x ∈ xs, ∀ r, dec (enc x ++ r) = some (x, r)) :
    decodeVec dec (encodeVec enc xs ++ rest) = some (xs, rest) := by
  unfold decodeVec encodeVec
  simp only [List.append_assoc]
  rw [decodeVarint_encodeVarint _ _ hl]
  simp only
  exact decodeSeq_encodeSeq enc dec xs rest h

/-- the element stream of a concatenation is the concatenation of the element streams (justifies encoding a
long vector piece by piece, as the driver does for the `huge` family) -/
theorem encodeSeq_append {α : Type} (enc : α → List Nat) (xs ys : List α) :
    encodeSeq enc (xs ++ ys) = encodeSeq enc xs ++ encodeSeq enc ys := by
  induction xs with
  | nil => rfl
  | cons x xs ih => simp [encodeSeq, ih]

/-- the number of elements decoded is the announced length -/
theorem decodeSeq_length {α : Type} (dec : List Nat → Option (α × List Nat)) (n : Nat) (bs : List Nat)
    (xs : List α) (r : List Nat) (h : decodeSeq dec n bs = some (xs, r)) : xs.length = n := by
  induction n generalizing bs xs r with
  | zero => simp [decodeSeq] at h; simp [h.1.symm]
  | succ n ih =>
    simp only [decodeSeq] at h
    split at h
    · cases h
    · rename_i x r1 _
      split at h
      · cases h
      · rename_i ys r2 h2
        cases h
        simp [ih _ _ _ h2]

end Tbx.Bincode
