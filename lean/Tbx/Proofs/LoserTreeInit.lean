import Tbx.Proofs.LoserTree
import Tbx.Spec.MergeTree
/-
`with_capacity` establishes the invariant for every capacity (0, 1, powers of two and others),
and the loser tree satisfies the `MergeTree` specification used by the k-way merge.
-/
namespace Tbx.LoserTree
open Tbx

theorem leftmostLoop_spec (internal v : Nat) (fuel l : Nat) (ha : Anc v l) (hl : l ≤ 2 * internal)
    (hf : internal ≤ fuel + l) :
    Anc v (leftmostLoop internal fuel l) ∧ internal ≤ leftmostLoop internal fuel l ∧
    leftmostLoop internal fuel l ≤ 2 * internal := by
  induction fuel generalizing l with
  | zero => exact ⟨ha, (by simp only [leftmostLoop]; omega), hl⟩
  | succ fuel ih =>
    unfold leftmostLoop
    by_cases h : l < internal
    · rw [if_pos h]
      apply ih
      · exact Anc.up (by omega) (by have : (2 * l + 1 - 1) / 2 = l := by omega
                                    rw [this]; exact ha)
      · omega
      · omega
    · rw [if_neg h]
      exact ⟨ha, by omega, hl⟩

theorem initLoop_spec (internal : Nat) (cnt node : Nat) (ls : Array Nat) (hs : ls.size = node) :
    (initLoop internal cnt node ls).size = node + cnt ∧
    (∀ v, v < node → gt (initLoop internal cnt node ls) v = gt ls v) ∧
    (∀ v, node ≤ v → v < node + cnt →
      gt (initLoop internal cnt node ls) v = leftmostLoop internal internal v - internal) := by
  induction cnt generalizing node ls with
  | zero => exact ⟨by simpa [initLoop] using hs, fun _ _ => rfl, fun v h1 h2 => by omega⟩
  | succ cnt ih =>
    unfold initLoop
    obtain ⟨h1, h2, h3⟩ := ih (node + 1) (ls.push (leftmostLoop internal internal node - internal))
      (by simp [hs])
    refine ⟨by omega, ?_, ?_⟩
    · intro v hv
      rw [h2 v (by omega), gt_push_lt _ _ _ (by omega)]
    · intro v hv1 hv2
      by_cases hvn : v = node
      · subst hvn
        rw [h2 v (by omega)]
        have := gt_push_eq ls (leftmostLoop internal internal v - internal)
        rw [hs] at this
        exact this
      · exact h3 v (by omega) (by omega)

/-- the fresh tree satisfies the invariant, for every number of leaves -/
theorem withLeaves_inv (n : Nat) (hn : 0 < n) :
    Inv (withLeaves n) ∧ (withLeaves n).leaves.size = n ∧ ∀ j, gt (withLeaves n).leaves j = none := by
  have hnone : ∀ j, gt (withLeaves n).leaves j = none := fun j => gt_replicate_none _ j
  have hsz : (withLeaves n).leaves.size = n := by simp [withLeaves]
  obtain ⟨h1, _, h3⟩ := initLoop_spec (n - 1) (n - 1) 0 #[] rfl
  refine ⟨⟨by rw [hsz]; exact hn, ?_, ?_, ?_, ?_, ?_⟩, hsz, hnone⟩
  · rw [hsz]; simpa [withLeaves] using h1
  · rw [hsz]
    intro v hv
    have hval : nodeVal (withLeaves n).losers (n - 1) v = leftmostLoop (n - 1) (n - 1) v - (n - 1) := by
      unfold nodeVal
      have : ¬ (v ≥ n - 1) := by omega
      rw [if_neg this]
      exact h3 v (by omega) (by omega)
    obtain ⟨ha, hlo, hhi⟩ := leftmostLoop_spec (n - 1) v (n - 1) v (Anc.refl v) (by omega) (by omega)
    unfold Good
    rw [hval]
    refine ⟨by omega, ?_, ?_⟩
    · have : leftmostLoop (n - 1) (n - 1) v - (n - 1) + (n - 1) = leftmostLoop (n - 1) (n - 1) v := by omega
      rw [this]; exact ha
    · intro j e _ _ hj
      rw [hnone j] at hj; cases hj
  · refine ⟨by rw [hsz]; exact hn, ?_⟩
    intro j e hj
    rw [hnone j] at hj; cases hj
  · intro j e hj
    rw [hnone j] at hj; cases hj
  · show 0 = live (withLeaves n).leaves
    unfold live
    rw [cnt_none _ hnone]

theorem le_nextPow2 (c : Nat) : c ≤ nextPow2 c ∧ 0 < nextPow2 c := by
  unfold nextPow2
  split
  · omega
  · have := @Nat.lt_log2_self (c - 1)
    omega

/-- `with_capacity(c)` for EVERY c: invariant, empty, and room for at least c slots -/
theorem withCapacity_inv (c : Nat) :
    Inv (withCapacity c) ∧ c ≤ (withCapacity c).leaves.size ∧ ∀ j, gt (withCapacity c).leaves j = none := by
  obtain ⟨h1, h2⟩ := le_nextPow2 c
  obtain ⟨hI, hs, hn⟩ := withLeaves_inv (nextPow2 c) h2
  exact ⟨hI, by unfold withCapacity; rw [hs]; exact h1, hn⟩

end Tbx.LoserTree

namespace Tbx.KWay
open Tbx Tbx.LoserTree

/-- the loser tree (any tree with the invariant and at least `cap` leaves) is a `MergeTree` in the
    sense of `TreeSpec` -/
def loserSpec (cap : Nat) : TreeSpec loserTree cap where
  ok t := Inv t ∧ cap ≤ t.leaves.size
  slot t j := (gt t.leaves j).map (·.item)
  push_ok := by
    intro s e ⟨hI, hc⟩ hi hfree
    have hfree' : gt s.leaves e.index = none := by
      cases h : gt s.leaves e.index with
      | none => rfl
      | some x => simp [h] at hfree
    obtain ⟨t', hp, hI', hl, _⟩ := push_spec s e hI (by omega) hfree'
    refine ⟨t', hp, ⟨hI', by rw [hl]; simpa using hc⟩, ?_⟩
    intro j
    show (gt t'.leaves j).map (·.item) = _
    rw [hl, gt_st]
    by_cases hj : j = e.index
    · subst hj
      have : e.index < s.leaves.size := by omega
      simp [this]
    · have : ¬ (e.index = j ∧ e.index < s.leaves.size) := fun h => hj h.1.symm
      rw [if_neg this, if_neg hj]
  pop_ok := by
    intro s ⟨hI, hc⟩
    obtain ⟨r, t', hp, hI', hr⟩ := pop_spec s hI
    cases r with
    | none =>
      obtain ⟨hall, ht⟩ := hr
      subst ht
      refine ⟨none, t', hp, ⟨hI, hc⟩, ?_, ?_⟩ <;> intro j <;> simp [hall j]
    | some e =>
      obtain ⟨hlive, hmin, hl, _⟩ := hr
      refine ⟨some e, t', hp, ⟨hI', by rw [hl]; simpa using hc⟩, ?_, ?_, ?_⟩
      · show (gt s.leaves e.index).map (·.item) = some e.item
        rw [hlive]; rfl
      · intro j y hj
        cases hg : gt s.leaves j with
        | none => simp [hg] at hj
        | some e' =>
          simp [hg] at hj
          rw [← hj]
          exact hmin j e' hg
      · intro j
        show (gt t'.leaves j).map (·.item) = _
        rw [hl, gt_st]
        have hlt : e.index < s.leaves.size := by
          apply Classical.byContradiction
          intro h
          rw [gt_of_ge _ _ (by omega)] at hlive
          cases hlive
        by_cases hj : j = e.index
        · subst hj; simp [hlt]
        · have : ¬ (e.index = j ∧ e.index < s.leaves.size) := fun h => hj h.1.symm
          rw [if_neg this, if_neg hj]

end Tbx.KWay
