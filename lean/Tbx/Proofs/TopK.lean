import Tbx.Model.TopK
import Tbx.Proofs.Sorting
/-
`top_k xs k = (sort xs).take k`, for any `select_nth_unstable` / `sort_unstable` that satisfy their
contracts.  The selection may run at any buffer length `limit ≥ k` (the Rust uses 2k, saturated at usize::MAX).
Invariant of the loop (seen = the items consumed so far, buf = the vector, th = threshold):
  (b) the k smallest of buf are the k smallest of seen,
  (c) if a threshold t is set, buf has at least k items and its k smallest are all ≤ t.
-/
namespace Tbx.TopK
open Tbx.Sorting

theorem take_ins_take (x : Int) (s : List Int) (k : Nat) :
    (ins x s).take k = (ins x (s.take k)).take k := by
  induction s generalizing k with
  | nil => simp
  | cons y ys ih =>
    cases k with
    | zero => simp
    | succ k =>
      simp only [List.take_succ_cons, ins]
      split
      · simp only [List.take_succ_cons]
        congr 1
        cases k with
        | zero => simp
        | succ k => simp [List.take_take]
      · simp only [List.take_succ_cons]
        rw [ih k]

theorem take_ins_of_le (x : Int) (s : List Int) (k : Nat) (h : ∀ y ∈ s.take k, y ≤ x) (hk : k ≤ s.length) :
    (ins x s).take k = s.take k := by
  induction s generalizing k with
  | nil => simp at hk; subst hk; simp
  | cons y ys ih =>
    cases k with
    | zero => simp
    | succ k =>
      have hy : y ≤ x := h y (by simp)
      have : ¬ (x < y) := by omega
      simp only [ins, if_neg this, List.take_succ_cons]
      rw [ih k (fun z hz => h z (by simp [hz])) (by simpa using hk)]

theorem isort_snoc (l : List Int) (x : Int) : isort (l ++ [x]) = ins x (isort l) := by
  have : (l ++ [x]).Perm (x :: l) := List.perm_append_comm
  rw [isort_congr this]; rfl

theorem mem_isort {l : List Int} {y : Int} : y ∈ isort l ↔ y ∈ l := (isort_perm l).mem_iff

/-- if everything in `a` is ≤ everything in `c`, sorting `a ++ c` sorts the two parts separately -/
theorem isort_append_of_le (a c : List Int) (h : ∀ x ∈ a, ∀ y ∈ c, x ≤ y) :
    isort (a ++ c) = isort a ++ isort c := by
  symm
  rw [eq_isort_iff]
  constructor
  · unfold Sorted
    rw [List.pairwise_append]
    exact ⟨isort_sorted a, isort_sorted c, fun x hx y hy => h x (mem_isort.mp hx) y (mem_isort.mp hy)⟩
  · exact (isort_perm a).append (isort_perm c)

structure LoopInv (k : Nat) (seen buf : List Int) (th : Option Int) : Prop where
  same : (isort buf).take k = (isort seen).take k
  thr : ∀ t, th = some t → k ≤ buf.length ∧ ∀ y ∈ (isort buf).take k, y ≤ t

/-- the selection step: keep the k smallest, remember the k-th smallest as threshold -/
theorem LoopInv_select (S : Std) (hsel : SelectContract S.selectNth) (k limit : Nat) (hk : 0 < k) (hlim : k ≤ limit)
    (seen buf : List Int) (th : Option Int) (x : Int) (_hI : LoopInv k seen buf th)
    (hfull : (buf ++ [x]).length = limit)
    (hpush : (isort (buf ++ [x])).take k = (isort (seen ++ [x])).take k) :
    LoopInv k (seen ++ [x]) ((S.selectNth (buf ++ [x]) (k - 1)).take k) (S.selectNth (buf ++ [x]) (k - 1))[k - 1]? := by
  obtain ⟨hperm, hc⟩ := hsel (buf ++ [x]) (k - 1) (by omega)
  generalize S.selectNth (buf ++ [x]) (k - 1) = b at hperm hc ⊢
  have hblen : b.length = limit := by rw [hperm.length_eq, hfull]
  have hm : ∃ m, b[k - 1]? = some m := ⟨b[k - 1]'(by omega), List.getElem?_eq_getElem (by omega)⟩
  obtain ⟨m, hm⟩ := hm
  obtain ⟨hlo, hhi⟩ := hc m hm
  have htk : ∀ y ∈ b.take k, y ≤ m := by
    intro y hy
    obtain ⟨j, hj⟩ := List.mem_iff_getElem?.mp hy
    rw [List.getElem?_take] at hj
    split at hj
    · rename_i hjk
      by_cases hj1 : j < k - 1
      · exact hlo j y hj1 hj
      · have : j = k - 1 := by omega
        subst this
        rw [hm] at hj; cases hj; exact Int.le_refl _
    · cases hj
  have hdk : ∀ y ∈ b.drop k, m ≤ y := by
    intro y hy
    obtain ⟨j, hj⟩ := List.mem_iff_getElem?.mp hy
    rw [List.getElem?_drop] at hj
    exact hhi (k + j) y (by omega) hj
  have hlen : (b.take k).length = k := by rw [List.length_take]; omega
  have hsplit : isort b = isort (b.take k) ++ isort (b.drop k) := by
    rw [← isort_append_of_le _ _ (fun x hx y hy => Int.le_trans (htk x hx) (hdk y hy)),
      List.take_append_drop]
  have hsame : (isort (b.take k)).take k = (isort (seen ++ [x])).take k := by
    rw [← hpush, ← isort_congr hperm, hsplit, List.take_left' (by rw [length_isort, hlen])]
    exact List.take_of_length_le (by rw [length_isort, hlen]; exact Nat.le_refl _)
  refine ⟨hsame, ?_⟩
  intro t ht
  rw [hm] at ht; cases ht
  refine ⟨by omega, ?_⟩
  intro y hy
  exact htk y (mem_isort.mp (List.mem_of_mem_take hy))


theorem loop_spec (S : Std) (hsel : SelectContract S.selectNth) (k limit : Nat) (hk : 0 < k) (hlim : k ≤ limit)
    (xs seen buf : List Int) (th : Option Int) (hI : LoopInv k seen buf th) :
    (isort (loop S k limit xs buf th)).take k = (isort (seen ++ xs)).take k := by
  induction xs generalizing seen buf th with
  | nil => simpa [loop] using hI.same
  | cons x xs ih =>
    have hseen : seen ++ x :: xs = (seen ++ [x]) ++ xs := by simp
    rw [hseen]
    -- the k smallest after pushing x into both buf and seen
    have hpush : (isort (buf ++ [x])).take k = (isort (seen ++ [x])).take k := by
      rw [isort_snoc, isort_snoc, take_ins_take x (isort buf), take_ins_take x (isort seen), hI.same]
    unfold loop
    cases hth : th with
    | some t =>
      obtain ⟨hlen, hle⟩ := hI.thr t hth
      by_cases hskip : x ≥ t
      · -- the item is skipped: it cannot be among the k smallest
        simp only [hskip, decide_true, if_true]
        rw [← hth]
        apply ih
        refine ⟨?_, hI.thr⟩
        rw [isort_snoc, hI.same]
        symm
        apply take_ins_of_le
        · intro y hy
          rw [← hI.same] at hy
          have := hle y hy
          omega
        · have h1 : ((isort buf).take k).length = k := by
            rw [List.length_take, length_isort]; omega
          rw [hI.same, List.length_take] at h1
          omega
      · simp only [hskip, decide_false, Bool.false_eq_true, if_false]
        by_cases hfull : (buf ++ [x]).length = limit
        · simp only [hfull, if_true]
          exact ih _ _ _ (LoopInv_select S hsel k limit hk hlim seen buf _ x hI hfull hpush)
        · simp only [hfull, if_false]
          rw [← hth]
          apply ih
          refine ⟨hpush, ?_⟩
          · intro t' ht'
            rw [hth] at ht'; cases ht'
            refine ⟨by simp; omega, ?_⟩
            intro y hy
            rw [isort_snoc, take_ins_take] at hy
            have hy' := List.mem_of_mem_take hy
            rcases mem_ins.mp hy' with rfl | hy'
            · omega
            · exact hle y hy'
    | none =>
      simp only [Bool.false_eq_true, if_false]
      by_cases hfull : (buf ++ [x]).length = limit
      · simp only [hfull, if_true]
        exact ih _ _ _ (LoopInv_select S hsel k limit hk hlim seen buf _ x hI hfull hpush)
      · simp only [hfull, if_false]
        apply ih
        refine ⟨hpush, ?_⟩
        · intro t' ht'; cases ht'
theorem le_limitOf (k : Nat) (hk : k ≤ usizeMax) : k ≤ limitOf k := by
  unfold limitOf; split <;> omega

/-- `top_k` returns the k smallest items in ascending order, for every k that fits a usize -/
theorem topK_eq (S : Std) (hsel : SelectContract S.selectNth) (hsort : SortContract S.sortUnstable)
    (xs : List Int) (k : Nat) (hku : k ≤ usizeMax) : topK S xs k = (isort xs).take k := by
  unfold topK
  by_cases hk : k = 0
  · simp [hk]
  · rw [if_neg hk]
    have hs : S.sortUnstable (loop S k (limitOf k) xs [] none) = isort (loop S k (limitOf k) xs [] none) := by
      obtain ⟨h1, h2⟩ := hsort (loop S k (limitOf k) xs [] none)
      exact (eq_isort_iff _ _).mpr ⟨h1, h2⟩
    rw [hs, loop_spec S hsel k (limitOf k) (by omega) (le_limitOf k hku) xs [] [] none
      ⟨rfl, fun t ht => by cases ht⟩]
    simp

end Tbx.TopK
