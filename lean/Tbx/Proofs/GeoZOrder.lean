import Tbx.Model.ZOrder
import Mathlib.Data.Nat.Bitwise
/-
`zorder_cmp` is the comparison of the interleaved keys (`Tbx.Geo.zkey`).

Nat level: the most significant differing bit (`Nat.log2` of the xor) decides `compare`; the bits of
`interleave` are the bits of its arguments; hence the dimension with the higher differing bit
(latitude on ties) decides the comparison of the keys.  Int level: flipping the sign bit
(`off32`) does not change the xor and turns signed into unsigned comparison.
-/
namespace Tbx.Geo

/-! ### most significant differing bit -/

theorem msb_spec {x y : Nat} (h : x ≠ y) :
    x.testBit (x ^^^ y).log2 ≠ y.testBit (x ^^^ y).log2 ∧
    ∀ j, (x ^^^ y).log2 < j → x.testBit j = y.testBit j := by
  have hne : x ^^^ y ≠ 0 := fun h0 => h (Nat.xor_eq_zero_iff.mp h0)
  constructor
  · have := Nat.testBit_log2 hne
    rw [Nat.testBit_xor] at this
    intro heq
    rw [heq] at this
    simp at this
  · intro j hj
    have hlt : x ^^^ y < 2 ^ j := (Nat.log2_lt hne).mp hj
    have := Nat.testBit_lt_two_pow hlt
    rw [Nat.testBit_xor] at this
    cases hx : x.testBit j <;> cases hy : y.testBit j <;> simp [hx, hy] at this ⊢

theorem cmp_of_diff {x y : Nat} (k : Nat) (hd : x.testBit k ≠ y.testBit k)
    (ha : ∀ j, k < j → x.testBit j = y.testBit j) :
    compare x y = if y.testBit k then Ordering.lt else Ordering.gt := by
  cases hy : y.testBit k
  · have hx : x.testBit k = true := by
      cases hx : x.testBit k
      · exact absurd (hx.trans hy.symm) hd
      · rfl
    have : y < x := Nat.lt_of_testBit k hy hx (fun j hj => (ha j hj).symm)
    simp [Nat.compare_eq_gt.mpr this]
  · have hx : x.testBit k = false := by
      cases hx : x.testBit k
      · rfl
      · exact absurd (hx.trans hy.symm) hd
    have : x < y := Nat.lt_of_testBit k hx hy ha
    simp [Nat.compare_eq_lt.mpr this]

/-! ### bits of the interleaved key -/

theorem testBit_interleave (n : Nat) : ∀ (hi lo i : Nat),
    (interleave n hi lo).testBit (2 * i + 1) = (decide (i < n) && hi.testBit i) ∧
    (interleave n hi lo).testBit (2 * i) = (decide (i < n) && lo.testBit i) := by
  induction n with
  | zero => intro hi lo i; simp [interleave]
  | succ n ih =>
    intro hi lo i
    have hX : interleave (n + 1) hi lo = 4 * interleave n (hi / 2) (lo / 2) + 2 * (hi % 2) + lo % 2 := rfl
    cases i with
    | zero =>
      constructor
      · rw [hX, show 2 * 0 + 1 = 0 + 1 from rfl, Nat.testBit_add_one, Nat.testBit_zero, Nat.testBit_zero]
        have : (4 * interleave n (hi / 2) (lo / 2) + 2 * (hi % 2) + lo % 2) / 2 % 2 = hi % 2 := by omega
        simp [this]
      · rw [hX, show 2 * 0 = 0 from rfl, Nat.testBit_zero, Nat.testBit_zero]
        have : (4 * interleave n (hi / 2) (lo / 2) + 2 * (hi % 2) + lo % 2) % 2 = lo % 2 := by omega
        simp [this]
    | succ i =>
      have hdiv : (4 * interleave n (hi / 2) (lo / 2) + 2 * (hi % 2) + lo % 2) / 2 / 2 = interleave n (hi / 2) (lo / 2) := by
        omega
      obtain ⟨ih1, ih2⟩ := ih (hi / 2) (lo / 2) i
      constructor
      · rw [hX, show 2 * (i + 1) + 1 = (2 * i + 1) + 1 + 1 by omega, Nat.testBit_add_one, Nat.testBit_add_one, hdiv, ih1,
          Nat.testBit_add_one]
        simp
      · rw [hX, show 2 * (i + 1) = (2 * i) + 1 + 1 by omega, Nat.testBit_add_one, Nat.testBit_add_one, hdiv, ih2,
          Nat.testBit_add_one]
        simp

theorem log2_xor_lt {x y : Nat} (hx : x < 2 ^ 32) (hy : y < 2 ^ 32) (h : x ≠ y) : (x ^^^ y).log2 < 32 := by
  have hne : x ^^^ y ≠ 0 := fun h0 => h (Nat.xor_eq_zero_iff.mp h0)
  exact (Nat.log2_lt hne).mpr (Nat.xor_lt_two_pow hx hy)

/-- latitude decides: its highest differing bit is at least as high as the longitude's -/
theorem key_cmp_lat {la na lb nb : Nat} (hla : la < 2 ^ 32) (hlb : lb < 2 ^ 32) (hl : la ≠ lb)
    (hn : na = nb ∨ (na ^^^ nb).log2 ≤ (la ^^^ lb).log2) :
    compare (interleave 32 la na) (interleave 32 lb nb) = compare la lb := by
  obtain ⟨hd, ha⟩ := msb_spec hl
  have hk := log2_xor_lt hla hlb hl
  rw [cmp_of_diff _ hd ha]
  have hbit : ∀ (hi lo : Nat), (interleave 32 hi lo).testBit (2 * (la ^^^ lb).log2 + 1) = hi.testBit (la ^^^ lb).log2 := by
    intro hi lo
    rw [(testBit_interleave 32 hi lo _).1]
    simp [hk]
  rw [cmp_of_diff (2 * (la ^^^ lb).log2 + 1)]
  · rw [hbit]
  · rw [hbit, hbit]; exact hd
  · intro j hj
    rcases Nat.mod_two_eq_zero_or_one j with h0 | h1
    · have hj2 : j = 2 * (j / 2) := by omega
      rw [hj2, (testBit_interleave 32 la na _).2, (testBit_interleave 32 lb nb _).2]
      congr 1
      rcases hn with rfl | hn
      · rfl
      · by_cases hne : na = nb
        · rw [hne]
        · exact (msb_spec hne).2 _ (by omega)
    · have hj2 : j = 2 * (j / 2) + 1 := by omega
      rw [hj2, (testBit_interleave 32 la na _).1, (testBit_interleave 32 lb nb _).1]
      congr 1
      exact ha _ (by omega)

/-- longitude decides: its highest differing bit is strictly higher than the latitude's -/
theorem key_cmp_lon {la na lb nb : Nat} (hna : na < 2 ^ 32) (hnb : nb < 2 ^ 32) (hnn : na ≠ nb)
    (hl : la = lb ∨ (la ^^^ lb).log2 < (na ^^^ nb).log2) :
    compare (interleave 32 la na) (interleave 32 lb nb) = compare na nb := by
  obtain ⟨hd, ha⟩ := msb_spec hnn
  have hk := log2_xor_lt hna hnb hnn
  rw [cmp_of_diff _ hd ha]
  have hbit : ∀ (hi lo : Nat), (interleave 32 hi lo).testBit (2 * (na ^^^ nb).log2) = lo.testBit (na ^^^ nb).log2 := by
    intro hi lo
    rw [(testBit_interleave 32 hi lo _).2]
    simp [hk]
  rw [cmp_of_diff (2 * (na ^^^ nb).log2)]
  · rw [hbit]
  · rw [hbit, hbit]; exact hd
  · intro j hj
    rcases Nat.mod_two_eq_zero_or_one j with h0 | h1
    · have hj2 : j = 2 * (j / 2) := by omega
      rw [hj2, (testBit_interleave 32 la na _).2, (testBit_interleave 32 lb nb _).2]
      congr 1
      exact ha _ (by omega)
    · have hj2 : j = 2 * (j / 2) + 1 := by omega
      rw [hj2, (testBit_interleave 32 la na _).1, (testBit_interleave 32 lb nb _).1]
      congr 1
      rcases hl with rfl | hl
      · rfl
      · by_cases hne : la = lb
        · rw [hne]
        · exact (msb_spec hne).2 _ (by omega)

/-- the key is injective on 32-bit arguments -/
theorem interleave_inj {la na lb nb : Nat} (hla : la < 2 ^ 32) (hna : na < 2 ^ 32) (hlb : lb < 2 ^ 32) (hnb : nb < 2 ^ 32)
    (h : interleave 32 la na = interleave 32 lb nb) : la = lb ∧ na = nb := by
  constructor
  · by_contra hne
    have := key_cmp_lat (na := na) (nb := nb) hla hlb hne
    by_cases hnn : na = nb
    · have h1 := this (Or.inl hnn)
      rw [h, Nat.compare_eq_eq.mpr rfl] at h1
      exact hne (Nat.compare_eq_eq.mp h1.symm)
    · rcases Nat.lt_or_ge (la ^^^ lb).log2 (na ^^^ nb).log2 with hlt | hge
      · have h2 := key_cmp_lon (la := la) (lb := lb) hna hnb hnn (Or.inr hlt)
        rw [h, Nat.compare_eq_eq.mpr rfl] at h2
        exact hnn (Nat.compare_eq_eq.mp h2.symm)
      · have h1 := this (Or.inr hge)
        rw [h, Nat.compare_eq_eq.mpr rfl] at h1
        exact hne (Nat.compare_eq_eq.mp h1.symm)
  · by_contra hnn
    by_cases hne : la = lb
    · have h2 := key_cmp_lon (la := la) (lb := lb) hna hnb hnn (Or.inl hne)
      rw [h, Nat.compare_eq_eq.mpr rfl] at h2
      exact hnn (Nat.compare_eq_eq.mp h2.symm)
    · rcases Nat.lt_or_ge (la ^^^ lb).log2 (na ^^^ nb).log2 with hlt | hge
      · have h2 := key_cmp_lon (la := la) (lb := lb) hna hnb hnn (Or.inr hlt)
        rw [h, Nat.compare_eq_eq.mpr rfl] at h2
        exact hnn (Nat.compare_eq_eq.mp h2.symm)
      · have h1 := key_cmp_lat (na := na) (nb := nb) hla hlb hne (Or.inr hge)
        rw [h, Nat.compare_eq_eq.mpr rfl] at h1
        exact hne (Nat.compare_eq_eq.mp h1.symm)

/-! ### from i32 values to bit patterns -/

theorem add_two_pow_31_eq_xor {n : Nat} (hn : n < 2 ^ 31) : n + 2 ^ 31 = n ^^^ 2 ^ 31 := by
  apply Nat.eq_of_testBit_eq
  intro i
  rw [Nat.testBit_xor, Nat.testBit_two_pow, Nat.add_comm]
  rcases Nat.lt_trichotomy i 31 with hlt | heq | hgt
  · rw [Nat.testBit_two_pow_add_gt hlt]
    have : ¬ (31 = i) := by omega
    simp [this]
  · subst heq
    rw [Nat.testBit_two_pow_add_eq, Nat.testBit_lt_two_pow hn]
    simp
  · have h1 : 2 ^ 31 + n < 2 ^ i := by
      have : 2 ^ 32 ≤ 2 ^ i := Nat.pow_le_pow_right (by decide) (by omega)
      omega
    have h2 : n < 2 ^ i := by omega
    have : ¬ (31 = i) := by omega
    rw [Nat.testBit_lt_two_pow h1, Nat.testBit_lt_two_pow h2]
    simp [this]

theorem xor_xor_cancel (p q c : Nat) : (p ^^^ c) ^^^ (q ^^^ c) = p ^^^ q := by
  apply Nat.eq_of_testBit_eq
  intro i
  simp only [Nat.testBit_xor]
  cases p.testBit i <;> cases q.testBit i <;> cases c.testBit i <;> rfl

/-- flipping the sign bit of the two's complement pattern gives the offset form -/
theorem off32_eq_pat32_xor {x : Int} (hx : InI32 x) : off32 x = pat32 x ^^^ 2 ^ 31 := by
  obtain ⟨h1, h2⟩ := hx
  unfold off32 pat32
  by_cases h0 : 0 ≤ x
  · have hp : (x % 4294967296).toNat = x.toNat := by congr 1; omega
    have ho : (x + 2147483648).toNat = x.toNat + 2 ^ 31 := by omega
    rw [hp, ho]
    exact add_two_pow_31_eq_xor (by omega)
  · have hp : (x % 4294967296).toNat = (x + 2147483648).toNat + 2 ^ 31 := by omega
    rw [hp, add_two_pow_31_eq_xor (by omega), Nat.xor_assoc, Nat.xor_self, Nat.xor_zero]

theorem pat32_xor {x y : Int} (hx : InI32 x) (hy : InI32 y) : pat32 x ^^^ pat32 y = off32 x ^^^ off32 y := by
  rw [off32_eq_pat32_xor hx, off32_eq_pat32_xor hy, xor_xor_cancel]

theorem off32_lt {x : Int} (hx : InI32 x) : off32 x < 2 ^ 32 := by
  obtain ⟨h1, h2⟩ := hx
  unfold off32; omega

theorem pat32_inj {x y : Int} (hx : InI32 x) (hy : InI32 y) (h : pat32 x = pat32 y) : x = y := by
  obtain ⟨h1, h2⟩ := hx
  obtain ⟨h3, h4⟩ := hy
  unfold pat32 at h
  omega

theorem off32_inj {x y : Int} (hx : InI32 x) (hy : InI32 y) (h : off32 x = off32 y) : x = y := by
  obtain ⟨h1, h2⟩ := hx
  obtain ⟨h3, h4⟩ := hy
  unfold off32 at h
  omega

/-- signed comparison is unsigned comparison of the offset forms -/
theorem compare_off32 {x y : Int} (hx : InI32 x) (hy : InI32 y) : compare x y = compare (off32 x) (off32 y) := by
  obtain ⟨h1, h2⟩ := hx
  obtain ⟨h3, h4⟩ := hy
  rcases Int.lt_trichotomy x y with h | h | h
  · rw [Int.compare_eq_lt.mpr h, Nat.compare_eq_lt.mpr (by unfold off32; omega)]
  · subst h
    rw [Int.compare_eq_eq.mpr rfl, Nat.compare_eq_eq.mpr rfl]
  · rw [Int.compare_eq_gt.mpr h, Nat.compare_eq_gt.mpr (by unfold off32; omega)]

/-- `zorder_cmp` compares the interleaved keys -/
theorem zorderCmp_eq_key (a b : Coord) (ha : CoordI32 a) (hb : CoordI32 b) :
    zorderCmp a b = compare (zkey a) (zkey b) := by
  obtain ⟨hal, han⟩ := ha
  obtain ⟨hbl, hbn⟩ := hb
  have xl := pat32_xor hal hbl
  have xn := pat32_xor han hbn
  have cl := compare_off32 hal hbl
  have cn := compare_off32 han hbn
  have bla := off32_lt hal
  have blb := off32_lt hbl
  have bna := off32_lt han
  have bnb := off32_lt hbn
  unfold zorderCmp zkey
  simp only
  rw [xl, xn, cl, cn]
  by_cases hl : off32 a.lat = off32 b.lat
  · by_cases hn : off32 a.lon = off32 b.lon
    · simp [hl, hn]
    · have hx : off32 a.lon ^^^ off32 b.lon ≠ 0 := fun h0 => hn (Nat.xor_eq_zero_iff.mp h0)
      have := key_cmp_lon (la := off32 a.lat) (lb := off32 b.lat) bna bnb hn (Or.inl hl)
      rw [this]
      simp [hl, hx]
  · have hxl : off32 a.lat ^^^ off32 b.lat ≠ 0 := fun h0 => hl (Nat.xor_eq_zero_iff.mp h0)
    by_cases hn : off32 a.lon = off32 b.lon
    · have := key_cmp_lat (na := off32 a.lon) (nb := off32 b.lon) bla blb hl (Or.inl hn)
      rw [this]
      simp [hn, hxl]
    · have hxn : off32 a.lon ^^^ off32 b.lon ≠ 0 := fun h0 => hn (Nat.xor_eq_zero_iff.mp h0)
      simp only [hxl, hxn, false_and, if_false]
      rcases Nat.lt_trichotomy (off32 a.lat ^^^ off32 b.lat).log2 (off32 a.lon ^^^ off32 b.lon).log2 with hlt | heq | hgt
      · rw [Nat.compare_eq_lt.mpr hlt]
        exact (key_cmp_lon (la := off32 a.lat) (lb := off32 b.lat) bna bnb hn (Or.inr hlt)).symm
      · rw [Nat.compare_eq_eq.mpr heq]
        -- the latitude patterns differ at their most significant differing bit
        have hp : pat32 a.lat ≠ pat32 b.lat := fun h => hl (by rw [pat32_inj hal hbl h])
        have hd := (msb_spec hp).1
        rw [xl] at hd
        have hcond : ((pat32 a.lat).testBit (off32 a.lat ^^^ off32 b.lat).log2 !=
            (pat32 b.lat).testBit (off32 a.lat ^^^ off32 b.lat).log2) = true := by
          simpa [bne_iff_ne] using hd
        simp only [hcond, if_true]
        exact (key_cmp_lat (na := off32 a.lon) (nb := off32 b.lon) bla blb hl (Or.inr (by omega))).symm
      · rw [Nat.compare_eq_gt.mpr hgt]
        exact (key_cmp_lat (na := off32 a.lon) (nb := off32 b.lon) bla blb hl (Or.inr (by omega))).symm

/-- the key determines the coordinate -/
theorem zkey_inj (a b : Coord) (ha : CoordI32 a) (hb : CoordI32 b) (h : zkey a = zkey b) : a = b := by
  obtain ⟨hal, han⟩ := ha
  obtain ⟨hbl, hbn⟩ := hb
  obtain ⟨h1, h2⟩ := interleave_inj (off32_lt hal) (off32_lt han) (off32_lt hbl) (off32_lt hbn) h
  have e1 := off32_inj hal hbl h1
  have e2 := off32_inj han hbn h2
  cases a; cases b; simp_all

/-- the order laws, inherited from the natural numbers through the key -/
theorem zorderCmp_strict_total (a b c : Coord) (ha : CoordI32 a) (hb : CoordI32 b) (hc : CoordI32 c) :
    zorderCmp a a = .eq ∧
    (zorderCmp a b = .eq ↔ a = b) ∧
    (zorderCmp a b = .lt ↔ zorderCmp b a = .gt) ∧
    (zorderCmp a b = .lt → zorderCmp b c = .lt → zorderCmp a c = .lt) ∧
    (zorderCmp a b = .lt ∨ a = b ∨ zorderCmp a b = .gt) := by
  rw [zorderCmp_eq_key a a ha ha, zorderCmp_eq_key a b ha hb, zorderCmp_eq_key b a hb ha, zorderCmp_eq_key b c hb hc, zorderCmp_eq_key a c ha hc]
  refine ⟨Nat.compare_eq_eq.mpr rfl, ?_, ?_, ?_, ?_⟩
  · rw [Nat.compare_eq_eq]
    exact ⟨fun h => zkey_inj a b ha hb h, fun h => by rw [h]⟩
  · rw [Nat.compare_eq_lt, Nat.compare_eq_gt]
  · rw [Nat.compare_eq_lt, Nat.compare_eq_lt, Nat.compare_eq_lt]
    exact Nat.lt_trans
  · rw [Nat.compare_eq_lt, Nat.compare_eq_gt]
    rcases Nat.lt_trichotomy (zkey a) (zkey b) with h | h | h
    · exact Or.inl h
    · exact Or.inr (Or.inl (zkey_inj a b ha hb h))
    · exact Or.inr (Or.inr h)

end Tbx.Geo
