import Tbx.Model.Flow
/-
C02 `assign_closure`: the stack sweep of `assignment` marks exactly the nodes reachable from the source
through residual edges of positive capacity (DESIGN.md Appendix A.4 specialised to the array model).
Core Lean only.
-/
namespace Tbx.Flow
open Tbx

/-- `u → v` is an edge of the CSR graph with positive capacity -/
def PosEdge (g : Graph) (u v : Nat) : Prop :=
  ∃ e, g.beginEdges u ≤ e ∧ e < g.beginEdges u + g.deg u ∧ gt g.tgt e = v ∧ 0 < gt g.cap e

/-- reachability through positive-capacity edges of the CSR graph -/
inductive ReachG (g : Graph) (s : Nat) : Nat → Prop where
  | refl : ReachG g s s
  | step {u v : Nat} : ReachG g s u → PosEdge g u v → ReachG g s v

/-- heads of positive edges are nodes (part of `check_integrity`) -/
def TargetsOK (g : Graph) : Prop := ∀ e, 0 < gt g.cap e → gt g.tgt e < g.numNodes

theorem sweepEdges_spec (g : Graph) (k : Nat) : ∀ (e : Nat) (reach : Array Bool) (stack : List Nat),
    (∀ e', 0 < gt g.cap e' → gt g.tgt e' < reach.size) →
    (sweepEdges g e k reach stack).1.size = reach.size ∧
    (∀ v, gt reach v = true → gt (sweepEdges g e k reach stack).1 v = true) ∧
    (∀ v, v ∈ stack → v ∈ (sweepEdges g e k reach stack).2) ∧
    (∀ e', e ≤ e' → e' < e + k → 0 < gt g.cap e' → gt (sweepEdges g e k reach stack).1 (gt g.tgt e') = true) ∧
    (∀ v, gt (sweepEdges g e k reach stack).1 v = true → gt reach v = true ∨
      (v ∈ (sweepEdges g e k reach stack).2 ∧ ∃ e', e ≤ e' ∧ e' < e + k ∧ gt g.tgt e' = v ∧ 0 < gt g.cap e')) := by
  induction k with
  | zero =>
    intro e reach stack _
    simp only [sweepEdges]
    refine ⟨by trivial, fun _ h => h, fun _ h => h, ?_, fun _ h => Or.inl h⟩
    intro e' h1 h2; omega
  | succ k ih =>
    intro e reach stack hT
    simp only [sweepEdges]
    split
    · rename_i hc
      simp only [Bool.and_eq_true, Bool.not_eq_eq_eq_not, Bool.not_true, decide_eq_true_eq] at hc
      obtain ⟨hun, hpos⟩ := hc
      have hlt : gt g.tgt e < reach.size := hT e hpos
      have hT' : ∀ e', 0 < gt g.cap e' → gt g.tgt e' < (st reach (gt g.tgt e) true).size := by
        intro e' h; rw [size_st]; exact hT e' h
      obtain ⟨a, b, c, d, f⟩ := ih (e + 1) (st reach (gt g.tgt e) true) (gt g.tgt e :: stack) hT'
      have mono : ∀ v, gt reach v = true → gt (st reach (gt g.tgt e) true) v = true := by
        intro v hv; rw [gt_st]; split
        · rfl
        · exact hv
      refine ⟨by rw [a, size_st], fun v hv => b v (mono v hv),
        fun v hv => c v (List.mem_cons_of_mem _ hv), ?_, ?_⟩
      · intro e' h1 h2 h3
        by_cases he : e' = e
        · subst he; apply b; rw [gt_st_eq _ _ _ hlt]
        · exact d e' (by omega) (by omega) h3
      · intro v hv
        rcases f v hv with h1 | ⟨h1, e', h2, h3, h4, h5⟩
        · rw [gt_st] at h1
          split at h1
          · rename_i hh
            right; refine ⟨c v ?_, e, Nat.le_refl _, by omega, hh.1, hpos⟩
            rw [← hh.1]; exact List.mem_cons_self
          · exact Or.inl h1
        · right; exact ⟨h1, e', by omega, by omega, h4, h5⟩
    · rename_i hc
      obtain ⟨a, b, c, d, f⟩ := ih (e + 1) reach stack hT
      refine ⟨a, b, c, ?_, ?_⟩
      · intro e' h1 h2 h3
        by_cases he : e' = e
        · subst he
          simp only [Bool.and_eq_true, Bool.not_eq_eq_eq_not, Bool.not_true, decide_eq_true_eq,
            not_and] at hc
          apply b
          cases hm : gt reach (gt g.tgt e')
          · exact absurd h3 (hc hm)
          · rfl
        · exact d e' (by omega) (by omega) h3
      · intro v hv
        rcases f v hv with h1 | ⟨h1, e', h2, h3, h4, h5⟩
        · exact Or.inl h1
        · right; exact ⟨h1, e', by omega, by omega, h4, h5⟩

theorem sweep_stack_marked (g : Graph) (k : Nat) : ∀ (e : Nat) (reach : Array Bool) (stack : List Nat),
    (∀ e', 0 < gt g.cap e' → gt g.tgt e' < reach.size) →
    (∀ v, v ∈ stack → gt reach v = true) →
    ∀ v, v ∈ (sweepEdges g e k reach stack).2 → gt (sweepEdges g e k reach stack).1 v = true := by
  induction k with
  | zero => intro e reach stack _ h v hv; simp only [sweepEdges] at hv ⊢; exact h v hv
  | succ k ih =>
    intro e reach stack hT h v hv
    simp only [sweepEdges] at hv ⊢
    split at hv
    · rename_i hc
      rw [if_pos hc]
      simp only [Bool.and_eq_true, Bool.not_eq_eq_eq_not, Bool.not_true, decide_eq_true_eq] at hc
      apply ih (e + 1) _ _ _ _ v hv
      · intro e' he'; rw [size_st]; exact hT e' he'
      · intro x hx
        rw [gt_st]
        split
        · rfl
        · rcases List.mem_cons.mp hx with rfl | hx'
          · rename_i hne; exact absurd ⟨rfl, hT e hc.2⟩ hne
          · exact h x hx'
    · rename_i hc
      rw [if_neg hc]
      exact ih (e + 1) reach stack hT h v hv


/-- loop invariant of the sweep -/
structure SweepInv (g : Graph) (src : Nat) (reach : Array Bool) (stack : List Nat) : Prop where
  hsize   : reach.size = g.numNodes
  hsrc    : gt reach src = true
  hclosed : ∀ v, gt reach v = true → v ∈ stack ∨ ∀ w, PosEdge g v w → gt reach w = true
  hsound  : ∀ v, gt reach v = true → ReachG g src v
  honStk  : ∀ v, v ∈ stack → gt reach v = true

theorem sweepLoop_spec (g : Graph) (src : Nat) (hT : TargetsOK g) (fuel : Nat) :
    ∀ (reach : Array Bool) (stack : List Nat) (r : Array Bool), SweepInv g src reach stack →
    sweepLoop g fuel reach stack = some r →
    r.size = g.numNodes ∧ gt r src = true ∧
    (∀ v, gt r v = true → ∀ w, PosEdge g v w → gt r w = true) ∧
    (∀ v, gt r v = true → ReachG g src v) := by
  induction fuel with
  | zero => intro reach stack r _ h; simp [sweepLoop] at h
  | succ fuel ih =>
    intro reach stack r hi h
    cases stack with
    | nil =>
      simp only [sweepLoop] at h
      cases h
      refine ⟨hi.hsize, hi.hsrc, ?_, hi.hsound⟩
      intro v hv
      rcases hi.hclosed v hv with h1 | h1
      · cases h1
      · exact h1
    | cons node rest =>
      simp only [sweepLoop] at h
      have hT' : ∀ e', 0 < gt g.cap e' → gt g.tgt e' < reach.size := by
        intro e' he; rw [hi.hsize]; exact hT e' he
      obtain ⟨a, b, c, d, f⟩ := sweepEdges_spec g (g.deg node) (g.beginEdges node) reach rest hT'
      apply ih _ _ r _ h
      have hnode : gt reach node = true := hi.honStk node List.mem_cons_self
      constructor
      · rw [a, hi.hsize]
      · exact b _ hi.hsrc
      · intro v hv
        rcases f v hv with h1 | ⟨h1, _⟩
        · rcases hi.hclosed v h1 with h2 | h2
          · rcases List.mem_cons.mp h2 with rfl | h3
            · right
              intro w ⟨e, h4, h5, h6, h7⟩
              rw [← h6]; exact d e h4 h5 h7
            · left; exact c v h3
          · right; intro w hw; exact b w (h2 w hw)
        · exact Or.inl h1
      · intro v hv
        rcases f v hv with h1 | ⟨_, e, h2, h3, h4, h5⟩
        · exact hi.hsound v h1
        · exact ReachG.step (hi.hsound node hnode) ⟨e, h2, h3, h4, h5⟩
      · intro v hv
        exact sweep_stack_marked g (g.deg node) (g.beginEdges node) reach rest hT'
          (fun x hx => hi.honStk x (List.mem_cons_of_mem _ hx)) v hv

/-- **C02 `assign_closure`**: on a finished solver `assignment(src)` returns the bit vector (one bit per
    node) of exactly the nodes reachable from `src` through positive residual edges -/
theorem assignmentOut_closure (g : Graph) (src : Nat) (hT : TargetsOK g) (r : Array Bool)
    (h : assignmentOut g true src = .ok r) :
    r.size = g.numNodes ∧ ∀ v, gt r v = true ↔ ReachG g src v := by
  unfold assignmentOut at h
  simp only [Bool.not_true, Bool.false_eq_true, if_false] at h
  split at h
  · cases h
  · rename_i hs
    split at h
    · cases h
    · rename_i r' hr
      cases h
      have hs' : src < g.numNodes := by omega
      have hinv : SweepInv g src (st (Array.replicate g.numNodes false) src true) [src] := by
        have hrep : ∀ v, gt (Array.replicate g.numNodes false) v = false := by
          intro v; unfold gt; simp only [Array.getD_eq_getD_getElem?, Array.getElem?_replicate]
          split <;> rfl
        constructor
        · simp
        · rw [gt_st_eq]; simp [hs']
        · intro v hv
          rw [gt_st] at hv
          split at hv
          · rename_i hh; left; rw [← hh.1]; exact List.mem_cons_self
          · rw [hrep] at hv; cases hv
        · intro v hv
          rw [gt_st] at hv
          split at hv
          · rename_i hh; rw [← hh.1]; exact ReachG.refl
          · rw [hrep] at hv; cases hv
        · intro v hv
          rw [List.mem_singleton] at hv; subst hv
          rw [gt_st_eq]; simp [hs']
      obtain ⟨a, b, c, d⟩ := sweepLoop_spec g src hT _ _ _ r hinv hr
      refine ⟨a, fun v => ⟨d v, ?_⟩⟩
      intro hv
      induction hv with
      | refl => exact b
      | step _ he ih => exact c _ ih _ he

end Tbx.Flow
