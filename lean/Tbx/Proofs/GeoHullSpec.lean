import Tbx.Proofs.GeoConvexAsm
/-
The model's hull satisfies the whole hull Spec (`Tbx.Geo.HullSpec`) for every input.
-/
namespace Tbx.Geo

/-- a point collinear with lo ≠ hi and between them in the (lon, lat) order is on the segment -/
theorem onSegment_of_collinear {lo hi p : Coord} (h1 : LexLe lo p) (h2 : LexLe p hi) (hcol : cross lo hi p = 0) :
    OnSegment lo hi p := by
  refine ⟨hcol, ?_⟩
  unfold LexLe Lex0 at h1 h2
  unfold cross at hcol
  -- d = hi - lo, v = p - lo
  have hd1v : (hi.lon - lo.lon) * (p.lat - lo.lat) = (hi.lat - lo.lat) * (p.lon - lo.lon) := by linarith
  rcases lt_or_ge 0 (hi.lon - lo.lon) with hpos | hle
  · have hv1 : 0 ≤ p.lon - lo.lon := by omega
    have hv1' : p.lon - lo.lon ≤ hi.lon - lo.lon := by omega
    rcases le_or_gt 0 (hi.lat - lo.lat) with hd2 | hd2
    · have a1 : 0 ≤ (hi.lon - lo.lon) * (p.lat - lo.lat) := by rw [hd1v]; exact mul_nonneg hd2 hv1
      have a2 : 0 ≤ p.lat - lo.lat := nonneg_of_mul_nonneg_right a1 hpos
      have a3 : (hi.lon - lo.lon) * (p.lat - lo.lat) ≤ (hi.lon - lo.lon) * (hi.lat - lo.lat) := by
        rw [hd1v, mul_comm (hi.lon - lo.lon)]
        exact mul_le_mul_of_nonneg_left hv1' hd2
      have a4 : p.lat - lo.lat ≤ hi.lat - lo.lat := le_of_mul_le_mul_left a3 hpos
      omega
    · have a1 : (hi.lon - lo.lon) * (p.lat - lo.lat) ≤ 0 := by
        rw [hd1v]; exact mul_nonpos_of_nonpos_of_nonneg (by omega) hv1
      have a2 : p.lat - lo.lat ≤ 0 := by
        by_contra hn
        have : 0 < (hi.lon - lo.lon) * (p.lat - lo.lat) := mul_pos hpos (by omega)
        omega
      have a3 : (hi.lon - lo.lon) * (hi.lat - lo.lat) ≤ (hi.lon - lo.lon) * (p.lat - lo.lat) := by
        rw [hd1v, mul_comm (hi.lon - lo.lon)]
        exact mul_le_mul_of_nonpos_left hv1' (by omega)
      have a4 : hi.lat - lo.lat ≤ p.lat - lo.lat := le_of_mul_le_mul_left a3 hpos
      omega
  · omega

/-- the model's output satisfies the whole hull Spec -/
theorem monotoneChain_hullSpec (pts : List Coord) : HullSpec pts (monotoneChain pts) := by
  unfold HullSpec
  split
  · rename_i h; simp [monotoneChain, h]
  · rename_i h
    have hn : 3 < pts.length := by omega
    refine ⟨monotoneChain_subset pts, ?_⟩
    by_cases hnd : ∃ o ∈ pts, ∃ a ∈ pts, ∃ p ∈ pts, cross o a p ≠ 0
    · exact Or.inl ⟨1, Or.inl rfl, monotoneChain_strictlyConvex pts hn hnd, monotoneChain_encloses pts hn⟩
    · -- all collinear
      have hflat : ∀ o ∈ pts, ∀ a ∈ pts, ∀ p ∈ pts, cross o a p = 0 := by
        intro o ho a ha p hp
        by_contra hc
        exact hnd ⟨o, ho, a, ha, p, hp, hc⟩
      -- the flat case: the output is [lo, hi]
      have hS : ∀ o ∈ sortLonLat pts, ∀ a ∈ sortLonLat pts, ∀ p ∈ sortLonLat pts, isCW o a p = false := by
        intro o ho a ha p hp
        have := hflat o (mem_sortLonLat.mp ho) a (mem_sortLonLat.mp ha) p (mem_sortLonLat.mp hp)
        cases h : isCW o a p
        · rfl
        · have := (isCW_iff o a p).mp h
          omega
      obtain ⟨c0, x, r0, s0, eL, eU, eH, _, _, _, hext⟩ := chains_shape pts hn
      -- both stacks are [max, min] / [min, max]
      have hlen := length_sortLonLat pts
      have hr0 : r0 = [] ∧ s0 = [] := by
        match hcs : sortLonLat pts, hlen, hS, eL, eU with
        | [], hlen, _, _, _ => simp at hlen; omega
        | [_], hlen, _, _, _ => simp at hlen; omega
        | d0 :: d1 :: ds, _, hS, eL, eU =>
          have hl := lowerStack_flat (d0 :: d1 :: ds) hS d0 (d1 :: ds) (by simp) (fun v hv => hv)
          rw [eL] at hl
          have hSr : ∀ o ∈ (d0 :: d1 :: ds).reverse, ∀ a ∈ (d0 :: d1 :: ds).reverse, ∀ p ∈ (d0 :: d1 :: ds).reverse,
              isCW o a p = false := by
            intro o ho a ha p hp
            exact hS o (List.mem_reverse.mp ho) a (List.mem_reverse.mp ha) p (List.mem_reverse.mp hp)
          have hrl : (d0 :: d1 :: ds).reverse.length = ds.length + 2 := by simp
          match hrv : (d0 :: d1 :: ds).reverse, hrl, hSr, eU with
          | [], hrl, _, _ => simp at hrl
          | [_], hrl, _, _ => simp at hrl
          | e0 :: e1 :: es, _, hSr, eU =>
            have hu := lowerStack_flat (e0 :: e1 :: es) hSr e0 (e1 :: es) (by simp) (fun v hv => hv)
            rw [eU] at hu
            constructor
            · cases r0 with
              | nil => rfl
              | cons a t => simp at hl
            · cases s0 with
              | nil => rfl
              | cons a t => simp at hu
      obtain ⟨rfl, rfl⟩ := hr0
      have eH' : monotoneChain pts = [c0, x] := by rw [eH]; rfl
      rw [eH']
      have hc0 : c0 ∈ pts := monotoneChain_subset pts c0 (by rw [eH']; simp)
      by_cases hcx : c0 = x
      · right; right
        refine ⟨c0, by simp, ?_, ?_⟩
        · intro v hv
          simp only [List.mem_cons, List.not_mem_nil, or_false] at hv
          rcases hv with rfl | rfl
          · rfl
          · exact hcx.symm
        · intro p hp
          obtain ⟨h1, h2⟩ := hext p hp
          rw [← hcx] at h2
          exact LexLe.antisymm h2 h1
      · right; left
        refine ⟨c0, x, hcx, rfl, ?_⟩
        intro p hp
        obtain ⟨h1, h2⟩ := hext p hp
        have hx : x ∈ pts := monotoneChain_subset pts x (by rw [eH']; simp)
        exact onSegment_of_collinear h1 h2 (hflat c0 hc0 x hx p hp)

end Tbx.Geo
