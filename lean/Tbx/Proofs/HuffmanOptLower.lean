import Tbx.Proofs.HuffmanOptDefs
import Mathlib.Tactic.Ring
import Mathlib.Tactic.Linarith
/-
Lower bound half of the Huffman optimality proof: the judge's greedy optimum `optCost` is at most the
weighted length `wsum` of every assignment of code lengths that satisfies Kraft's inequality
(`kraft_lower_bound`).  Strong induction on the total length: either the unique longest word can be
shortened (Case A) or two longest words carry, after an exchange, the two smallest weights and are
merged into one word that is one bit shorter (Case B).
-/
namespace Tbx.Spec.Huff

/-! ### permutation invariance -/

theorem wsum_cons (p : Int × Nat) (ps : List (Int × Nat)) :
    wsum (p :: ps) = p.1 * (p.2 : Int) + wsum ps := by
  simp [wsum]

theorem wsum_perm {ps ps' : List (Int × Nat)} (h : ps.Perm ps') : wsum ps = wsum ps' :=
  sum_perm (h.map _)

theorem KraftLe_perm {L : Nat} {ls ls' : List Nat} (h : ls.Perm ls') (hk : KraftLe L ls) :
    KraftLe L ls' := by
  refine ⟨fun l hl => hk.1 l (h.mem_iff.mpr hl), ?_⟩
  rw [← sum_perm_nat (h.map fun l => 2 ^ (L - l))]
  exact hk.2

/-! ### extremal elements -/

theorem exists_min_weight (qs : List (Int × Nat)) (hne : qs ≠ []) :
    ∃ p ∈ qs, ∀ q ∈ qs, p.1 ≤ q.1 := by
  induction qs with
  | nil => exact absurd rfl hne
  | cons x xs ih =>
    cases xs with
    | nil => exact ⟨x, by simp, by simp⟩
    | cons y ys =>
      obtain ⟨p, hp, hmin⟩ := ih (by simp)
      by_cases hx : x.1 ≤ p.1
      · refine ⟨x, by simp, ?_⟩
        intro q hq
        rcases List.mem_cons.mp hq with rfl | hq
        · exact Int.le_refl _
        · exact Int.le_trans hx (hmin q hq)
      · refine ⟨p, List.mem_cons_of_mem _ hp, ?_⟩
        intro q hq
        rcases List.mem_cons.mp hq with rfl | hq
        · omega
        · exact hmin q hq

theorem exists_max_len (qs : List (Int × Nat)) (hne : qs ≠ []) :
    ∃ p ∈ qs, ∀ q ∈ qs, q.2 ≤ p.2 := by
  induction qs with
  | nil => exact absurd rfl hne
  | cons x xs ih =>
    cases xs with
    | nil => exact ⟨x, by simp, by simp⟩
    | cons y ys =>
      obtain ⟨p, hp, hmax⟩ := ih (by simp)
      by_cases hx : p.2 ≤ x.2
      · refine ⟨x, by simp, ?_⟩
        intro q hq
        rcases List.mem_cons.mp hq with rfl | hq
        · exact Nat.le_refl _
        · exact Nat.le_trans (hmax q hq) hx
      · refine ⟨p, List.mem_cons_of_mem _ hp, ?_⟩
        intro q hq
        rcases List.mem_cons.mp hq with rfl | hq
        · omega
        · exact hmax q hq

/-! ### the exchange lemma -/

theorem swap_le (a w : Int) (la M : Nat) (haw : a ≤ w) (hl : la ≤ M) :
    a * (M : Int) + w * (la : Int) ≤ a * (la : Int) + w * (M : Int) := by
  have h1 : (la : Int) ≤ (M : Int) := by exact_mod_cast hl
  nlinarith [mul_nonneg (sub_nonneg.mpr haw) (sub_nonneg.mpr h1)]

/-- some longest word can be given the smallest weight without increasing the weighted length -/
theorem exchange (qs : List (Int × Nat)) (M : Nat) (hM : ∀ l ∈ qs.map (·.2), l ≤ M)
    (hmem : M ∈ qs.map (·.2)) :
    ∃ (a : Int) (rest : List (Int × Nat)),
      (∀ x ∈ qs.map (·.1), a ≤ x) ∧
      (a :: rest.map (·.1)).Perm (qs.map (·.1)) ∧
      (M :: rest.map (·.2)).Perm (qs.map (·.2)) ∧
      wsum ((a, M) :: rest) ≤ wsum qs := by
  have hne : qs ≠ [] := by
    intro h; subst h; simp at hmem
  obtain ⟨pm, hpm, hmin⟩ := exists_min_weight qs hne
  have hmin' : ∀ x ∈ qs.map (·.1), pm.1 ≤ x := by
    intro x hx
    obtain ⟨q, hq, rfl⟩ := List.mem_map.mp hx
    exact hmin q hq
  have hperm1 : qs.Perm (pm :: qs.erase pm) := List.perm_cons_erase hpm
  by_cases hla : pm.2 = M
  · refine ⟨pm.1, qs.erase pm, hmin', ?_, ?_, ?_⟩
    · exact (hperm1.map (·.1)).symm
    · have := (hperm1.map (·.2)).symm
      simpa [hla] using this
    · rw [wsum_perm hperm1, wsum_cons, wsum_cons, hla]
  · obtain ⟨pM, hpM, hpM2⟩ := List.mem_map.mp hmem
    have hne2 : pM ≠ pm := by
      intro h; subst h; exact hla hpM2
    have hpM' : pM ∈ qs.erase pm := (List.mem_erase_of_ne hne2).mpr hpM
    have hperm2 : (qs.erase pm).Perm (pM :: (qs.erase pm).erase pM) := List.perm_cons_erase hpM'
    have hperm : qs.Perm (pm :: pM :: (qs.erase pm).erase pM) :=
      hperm1.trans (List.Perm.cons pm hperm2)
    have hlaM : pm.2 ≤ M := hM _ (List.mem_map.mpr ⟨pm, hpm, rfl⟩)
    have hw : pm.1 ≤ pM.1 := hmin pM hpM
    refine ⟨pm.1, (pM.1, pm.2) :: (qs.erase pm).erase pM, hmin', ?_, ?_, ?_⟩
    · exact (hperm.map (·.1)).symm
    · have h1 := (hperm.map (·.2)).symm
      simp only [List.map_cons] at h1 ⊢
      rw [hpM2] at h1
      exact (List.Perm.swap _ _ _).trans h1
    · rw [wsum_perm hperm]
      simp only [wsum_cons]
      have := swap_le pm.1 pM.1 pm.2 M hw hlaM
      rw [hpM2]
      omega

/-! ### Kraft sums -/

theorem pow_le_ksum (L : Nat) (ls : List Nat) (l : Nat) (hl : l ∈ ls) :
    2 ^ (L - l) ≤ (ls.map fun l => 2 ^ (L - l)).sum := by
  induction ls with
  | nil => cases hl
  | cons x xs ih =>
    simp only [List.map_cons, List.sum_cons]
    rcases List.mem_cons.mp hl with rfl | hl
    · exact Nat.le_add_right _ _
    · exact Nat.le_trans (ih hl) (Nat.le_add_left _ _)

theorem ksum_dvd (L m : Nat) (ls : List Nat) (h : ∀ l ∈ ls, l ≤ m) :
    2 ^ (L - m) ∣ (ls.map fun l => 2 ^ (L - l)).sum := by
  induction ls with
  | nil => simp
  | cons x xs ih =>
    simp only [List.map_cons, List.sum_cons]
    have hx : x ≤ m := h x (by simp)
    exact Nat.dvd_add (Nat.pow_dvd_pow 2 (by omega)) (ih fun l hl => h l (List.mem_cons_of_mem _ hl))

theorem shorten_arith (q K P : Nat) (hq : 0 < q) (hK : 2 * q ∣ K) (hP : 2 * q ∣ P)
    (h : q + K ≤ P) : 2 * q + K ≤ P := by
  obtain ⟨A, rfl⟩ := hK
  obtain ⟨B, rfl⟩ := hP
  have hAB : A < B := by
    apply Nat.lt_of_not_le
    intro hc
    have : 2 * q * B ≤ 2 * q * A := Nat.mul_le_mul_left _ hc
    omega
  have h2 : 2 * q * (A + 1) ≤ 2 * q * B := Nat.mul_le_mul_left _ hAB
  rw [Nat.mul_add] at h2
  omega

theorem two_pow_split (L m : Nat) (h : m + 1 ≤ L) : 2 ^ (L - m) = 2 * 2 ^ (L - (m + 1)) := by
  have : L - m = (L - (m + 1)) + 1 := by omega
  rw [this, Nat.pow_succ, Nat.mul_comm]

/-- the only word of maximal length can be shortened by one bit -/
theorem kraft_shorten (L m : Nat) (ls : List Nat) (h : ∀ l ∈ ls, l ≤ m)
    (hk : KraftLe L ((m + 1) :: ls)) : KraftLe L (m :: ls) := by
  have hmL : m + 1 ≤ L := hk.1 (m + 1) (by simp)
  refine ⟨?_, ?_⟩
  · intro l hl
    rcases List.mem_cons.mp hl with rfl | hl
    · omega
    · exact hk.1 l (List.mem_cons_of_mem _ hl)
  · have hs := hk.2
    simp only [List.map_cons, List.sum_cons] at hs ⊢
    have hd := ksum_dvd L m ls h
    have hP : 2 ^ (L - m) ∣ 2 ^ L := Nat.pow_dvd_pow 2 (by omega)
    rw [two_pow_split L m hmL] at hd hP ⊢
    exact shorten_arith _ _ _ (Nat.two_pow_pos _) hd hP hs

/-- two words of maximal length are merged into one word that is one bit shorter -/
theorem kraft_merge (L m : Nat) (ls : List Nat) (hk : KraftLe L ((m + 1) :: (m + 1) :: ls)) :
    KraftLe L (m :: ls) := by
  have hmL : m + 1 ≤ L := hk.1 (m + 1) (by simp)
  refine ⟨?_, ?_⟩
  · intro l hl
    rcases List.mem_cons.mp hl with rfl | hl
    · omega
    · exact hk.1 l (List.mem_cons_of_mem _ (List.mem_cons_of_mem _ hl))
  · have hs := hk.2
    simp only [List.map_cons, List.sum_cons] at hs ⊢
    rw [two_pow_split L m hmL]
    omega

/-! ### the induction step -/

/-- the statement proved by induction, for one list -/
def LowerAt (L : Nat) (ps : List (Int × Nat)) : Prop :=
  ps ≠ [] → (∀ p ∈ ps, 0 ≤ p.1) → KraftLe L (ps.map (·.2)) → optCost (ps.map (·.1)) ≤ wsum ps

theorem wsum_succ (w : Int) (m : Nat) (rest : List (Int × Nat)) :
    wsum ((w, m + 1) :: rest) = wsum ((w, m) :: rest) + w := by
  simp only [wsum_cons]
  push_cast
  ring

/-- Case A: exactly one word has the maximal length `m + 1` -/
theorem step_shorten (L : Nat) (ps : List (Int × Nat)) (w : Int) (m : Nat) (rest : List (Int × Nat))
    (hperm : ps.Perm ((w, m + 1) :: rest)) (hrest : ∀ l ∈ rest.map (·.2), l ≤ m)
    (hw : ∀ p ∈ ps, 0 ≤ p.1) (hk : KraftLe L (ps.map (·.2)))
    (ih : ∀ ps' : List (Int × Nat), (ps'.map (·.2)).sum < (ps.map (·.2)).sum → LowerAt L ps') :
    optCost (ps.map (·.1)) ≤ wsum ps := by
  have hk1 : KraftLe L ((m + 1) :: rest.map (·.2)) := by
    have := KraftLe_perm (hperm.map (·.2)) hk
    simpa using this
  have hk2 : KraftLe L (((w, m) :: rest).map (·.2)) := by
    simpa using kraft_shorten L m _ hrest hk1
  have hsum : (ps.map (·.2)).sum = m + 1 + (rest.map (·.2)).sum := by
    rw [sum_perm_nat (hperm.map (·.2))]; simp
  have hw0 : 0 ≤ w := hw (w, m + 1) (hperm.mem_iff.mpr (by simp))
  have hw' : ∀ p ∈ (w, m) :: rest, 0 ≤ p.1 := by
    intro p hp
    rcases List.mem_cons.mp hp with rfl | hp
    · exact hw0
    · exact hw p (hperm.mem_iff.mpr (List.mem_cons_of_mem _ hp))
  have h := ih ((w, m) :: rest) (by rw [hsum]; simp) (by simp) hw' hk2
  rw [optCost_perm (hperm.map (·.1)), wsum_perm hperm, wsum_succ]
  simp only [List.map_cons] at h ⊢
  omega

/-- Case B: at least two words have the maximal length `m + 1` -/
theorem step_merge (L : Nat) (ps : List (Int × Nat)) (m : Nat)
    (hmax : ∀ l ∈ ps.map (·.2), l ≤ m + 1)
    (ls : List Nat) (hls : (ps.map (·.2)).Perm ((m + 1) :: (m + 1) :: ls))
    (hw : ∀ p ∈ ps, 0 ≤ p.1) (hk : KraftLe L (ps.map (·.2)))
    (ih : ∀ ps' : List (Int × Nat), (ps'.map (·.2)).sum < (ps.map (·.2)).sum → LowerAt L ps') :
    optCost (ps.map (·.1)) ≤ wsum ps := by
  have hw1 : ∀ x ∈ ps.map (·.1), 0 ≤ x := by
    intro x hx
    obtain ⟨p, hp, rfl⟩ := List.mem_map.mp hx
    exact hw p hp
  -- first exchange
  obtain ⟨a, rest1, ha, hwp1, hlp1, hws1⟩ :=
    exchange ps (m + 1) hmax (hls.mem_iff.mpr (by simp))
  have hl1 : (rest1.map (·.2)).Perm ((m + 1) :: ls) := (hlp1.trans hls).cons_inv
  have hmax1 : ∀ l ∈ rest1.map (·.2), l ≤ m + 1 := by
    intro l hl
    exact hmax l (hlp1.mem_iff.mp (List.mem_cons_of_mem _ hl))
  -- second exchange
  obtain ⟨b, rest2, hb, hwp2, hlp2, hws2⟩ :=
    exchange rest1 (m + 1) hmax1 (hl1.mem_iff.mpr (by simp))
  have hl2 : (rest2.map (·.2)).Perm ls := (hlp2.trans hl1).cons_inv
  have hwp : (ps.map (·.1)).Perm (a :: b :: rest2.map (·.1)) :=
    hwp1.symm.trans (List.Perm.cons a hwp2.symm)
  have hab : a ≤ b := by
    apply ha
    exact hwp.mem_iff.mpr (by simp)
  have hbr : ∀ r ∈ rest2.map (·.1), b ≤ r := by
    intro r hr
    exact hb r (hwp2.mem_iff.mp (List.mem_cons_of_mem _ hr))
  have ha0 : 0 ≤ a := hw1 a (hwp.mem_iff.mpr (by simp))
  have hb0 : 0 ≤ b := hw1 b (hwp.mem_iff.mpr (by simp))
  -- the merged list
  have hk2 : KraftLe L (((a + b, m) :: rest2).map (·.2)) := by
    have h1 : KraftLe L ((m + 1) :: (m + 1) :: rest2.map (·.2)) :=
      KraftLe_perm (hls.trans (List.Perm.cons _ (List.Perm.cons _ hl2.symm))) hk
    simpa using kraft_merge L m _ h1
  have hsum : (ps.map (·.2)).sum = (m + 1) + ((m + 1) + (rest2.map (·.2)).sum) := by
    rw [sum_perm_nat (hls.trans (List.Perm.cons _ (List.Perm.cons _ hl2.symm)))]; simp
  have hw' : ∀ p ∈ (a + b, m) :: rest2, 0 ≤ p.1 := by
    intro p hp
    rcases List.mem_cons.mp hp with rfl | hp
    · show 0 ≤ a + b
      omega
    · apply hw1
      apply hwp.mem_iff.mpr
      exact List.mem_cons_of_mem _ (List.mem_cons_of_mem _ (List.mem_map.mpr ⟨p, hp, rfl⟩))
  have h := ih ((a + b, m) :: rest2) (by rw [hsum]; simp; omega) (by simp) hw' hk2
  rw [optCost_perm hwp, optCost_merge a b _ hab hbr]
  have e1 : wsum ((a, m + 1) :: rest1) = a * ((m + 1 : Nat) : Int) + wsum rest1 := wsum_cons _ _
  have e2 : wsum ((b, m + 1) :: rest2) = b * ((m + 1 : Nat) : Int) + wsum rest2 := wsum_cons _ _
  have e3 : wsum ((a + b, m) :: rest2) = (a + b) * (m : Int) + wsum rest2 := wsum_cons _ _
  have e4 : a * ((m + 1 : Nat) : Int) + b * ((m + 1 : Nat) : Int) = (a + b) * (m : Int) + (a + b) := by
    push_cast; ring
  simp only [List.map_cons] at h
  omega

/-! ### the theorem -/

theorem lowerAt_all (L : Nat) (s : Nat) : ∀ ps : List (Int × Nat), (ps.map (·.2)).sum = s → LowerAt L ps := by
  induction s using Nat.strongRecOn with
  | _ s ihs =>
    intro ps hs hne hw hk
    have ih : ∀ ps' : List (Int × Nat), (ps'.map (·.2)).sum < (ps.map (·.2)).sum → LowerAt L ps' :=
      fun ps' hlt => ihs _ (hs ▸ hlt) ps' rfl
    obtain ⟨p, hp, hmax⟩ := exists_max_len ps hne
    have hperm : ps.Perm (p :: ps.erase p) := List.perm_cons_erase hp
    by_cases hrest : ps.erase p = []
    · -- a single word
      rw [hrest] at hperm
      rw [optCost_perm (hperm.map (·.1)), wsum_perm hperm, wsum_cons]
      have h0 : 0 ≤ p.1 := hw p hp
      have h1 : (0 : Int) ≤ (p.2 : Int) := Int.natCast_nonneg _
      have := Int.mul_nonneg h0 h1
      simp only [List.map_cons, List.map_nil, optCost_single]
      show 0 ≤ p.1 * (p.2 : Int) + wsum []
      simp only [wsum, List.map_nil, List.sum_nil]
      omega
    · -- at least two words: the maximal length is positive
      have hpos : 1 ≤ p.2 := by
        apply Nat.le_of_not_lt
        intro hlt
        obtain ⟨r, hr⟩ := List.exists_mem_of_ne_nil _ hrest
        have hr2 : r.2 = 0 := by
          have := hmax r (List.mem_of_mem_erase hr)
          omega
        have hp2 : p.2 = 0 := by omega
        have hk' := (KraftLe_perm (hperm.map (·.2)) hk).2
        simp only [List.map_cons, List.sum_cons, hp2] at hk'
        have := pow_le_ksum L ((ps.erase p).map (·.2)) 0 (hr2 ▸ List.mem_map.mpr ⟨r, hr, rfl⟩)
        have hpow : 0 < 2 ^ L := Nat.two_pow_pos _
        simp only [Nat.sub_zero] at hk' this
        omega
      obtain ⟨w, M⟩ := p
      obtain ⟨m, rfl⟩ : ∃ m, M = m + 1 := ⟨M - 1, by simp only at hpos; omega⟩
      have hmax' : ∀ l ∈ ps.map (·.2), l ≤ m + 1 := by
        intro l hl
        obtain ⟨q, hq, rfl⟩ := List.mem_map.mp hl
        exact hmax q hq
      by_cases hB : (m + 1) ∈ (ps.erase (w, m + 1)).map (·.2)
      · -- Case B
        have hp2 : ((ps.erase (w, m + 1)).map (·.2)).Perm
            ((m + 1) :: ((ps.erase (w, m + 1)).map (·.2)).erase (m + 1)) := List.perm_cons_erase hB
        have h3 := hperm.map (·.2)
        simp only [List.map_cons] at h3
        exact step_merge L ps m hmax' _ (h3.trans (List.Perm.cons _ hp2)) hw hk ih
      · -- Case A
        refine step_shorten L ps w m _ hperm ?_ hw hk ih
        intro l hl
        have h1 : l ≤ m + 1 := by
          apply hmax'
          exact (hperm.map (·.2)).mem_iff.mpr (List.mem_cons_of_mem _ hl)
        have h2 : l ≠ m + 1 := fun h => hB (h ▸ hl)
        omega

/-- the greedy optimum is a lower bound for every assignment of code lengths that satisfies Kraft's inequality -/
theorem kraft_lower_bound (L : Nat) (ps : List (Int × Nat)) (hne : ps ≠ []) (hw : ∀ p ∈ ps, 0 ≤ p.1)
    (hk : KraftLe L (ps.map (·.2))) : optCost (ps.map (·.1)) ≤ wsum ps :=
  lowerAt_all L _ ps rfl hne hw hk

/-- non-vacuity: a concrete code-length assignment satisfying the hypotheses, with equality -/
example : KraftLe 3 ([((1 : Int), 3), (1, 3), (2, 2), (2, 1)].map (·.2)) ∧
    optCost ([((1 : Int), 3), (1, 3), (2, 2), (2, 1)].map (·.1)) = 12 ∧
    wsum [((1 : Int), 3), (1, 3), (2, 2), (2, 1)] = 12 := by
  refine ⟨⟨by decide, by decide⟩, by decide, by decide⟩

/-- the theorem applied to that instance (all hypotheses discharged) -/
example : optCost ([((1 : Int), 3), (1, 3), (2, 2), (2, 1)].map (·.1)) ≤
    wsum [((1 : Int), 3), (1, 3), (2, 2), (2, 1)] :=
  kraft_lower_bound 3 _ (by simp) (by decide) ⟨by decide, by decide⟩

end Tbx.Spec.Huff
