import Tbx.Model.Bound
namespace Tbx.Bound

structure WF {N} (P : Fin N → Proc) : Prop where
  le_F : ∀ i, ∀ x ∈ (P i).phases, x ≤ (P i).F

structure Inv {N} (P : Fin N → Proc) (B0 : Int) (s : St N) : Prop where
  bound_le_B0 : s.bound ≤ B0
  bound_le_fin : ∀ i, s.st i = .finished → s.bound ≤ (P i).F
  bound_attained : s.bound = B0 ∨ ∃ i, s.st i = .finished ∧ s.bound = (P i).F
  hist_ge : ∀ v ∈ s.hist, s.bound ≤ v
  low : ∀ m : Int, m ≤ B0 → (∀ i, m ≤ (P i).F) → m ≤ s.bound

theorem inv_init {N} (P : Fin N → Proc) (B0 : Int) : Inv P B0 (init B0 : St N) := by
  refine ⟨Int.le_refl _, ?_, Or.inl rfl, ?_, ?_⟩
  · intro i h; simp [init] at h
  · intro v hv; simp [init] at hv; simp [init, hv]
  · intro m h _; simpa [init] using h

theorem inv_step {N} (P : Fin N → Proc) (B0 : Int) (s : St N) (i : Fin N) (v : Int)
    (h : Inv P B0 s) : Inv P B0 (step P s i v) := by
  unfold step
  split
  · rename_i pc hst
    split
    · split
      · refine ⟨h.bound_le_B0, ?_, ?_, h.hist_ge, h.low⟩
        · intro j hj; by_cases hji : j = i
          · simp [hji] at hj
          · simp [hji] at hj; exact h.bound_le_fin j hj
        · rcases h.bound_attained with hb | ⟨j, hj, hb⟩
          · exact Or.inl hb
          · refine Or.inr ⟨j, ?_, hb⟩
            have : j ≠ i := by intro e; rw [e, hst] at hj; cases hj
            simp [this, hj]
      · refine ⟨h.bound_le_B0, ?_, ?_, h.hist_ge, h.low⟩
        · intro j hj; by_cases hji : j = i
          · simp [hji] at hj
          · simp [hji] at hj; exact h.bound_le_fin j hj
        · rcases h.bound_attained with hb | ⟨j, hj, hb⟩
          · exact Or.inl hb
          · refine Or.inr ⟨j, ?_, hb⟩
            have : j ≠ i := by intro e; rw [e, hst] at hj; cases hj
            simp [this, hj]
    · refine ⟨?_, ?_, ?_, ?_, ?_⟩
      · exact Int.le_trans (Int.min_le_left _ _) h.bound_le_B0
      · intro j hj; by_cases hji : j = i
        · subst hji; exact Int.min_le_right _ _
        · simp [hji] at hj; exact Int.le_trans (Int.min_le_left _ _) (h.bound_le_fin j hj)
      · by_cases hle : s.bound ≤ (P i).F
        · have hm : min s.bound (P i).F = s.bound := Int.min_eq_left hle
          rcases h.bound_attained with hb | ⟨j, hj, hb⟩
          · left; simp only [hm]; exact hb
          · right; refine ⟨j, ?_, ?_⟩
            · have : j ≠ i := by intro e; rw [e, hst] at hj; cases hj
              simp [this, hj]
            · simp only [hm]; exact hb
        · have hm : min s.bound (P i).F = (P i).F := Int.min_eq_right (by omega)
          right; refine ⟨i, by simp, ?_⟩
          simp only [hm]
      · intro w hw
        simp at hw
        rcases hw with rfl | hw
        · exact Int.le_refl _
        · exact Int.le_trans (Int.min_le_left _ _) (h.hist_ge w hw)
      · intro m hm hall
        exact Int.le_min.mpr ⟨h.low m hm hall, hall i⟩
  · exact h

theorem inv_run {N} (P : Fin N → Proc) (B0 : Int) (s : St N) (sched : List (Fin N × Int))
    (h : Inv P B0 s) : Inv P B0 (run P s sched) := by
  induction sched generalizing s with
  | nil => exact h
  | cons e rest ih => exact ih _ (inv_step P B0 s e.1 e.2 h)

/-- a process whose true flow is minimal and within the initial bound is never aborted -/
theorem minimal_never_aborts {N} (P : Fin N → Proc) (hP : WF P) (B0 : Int) (i : Fin N)
    (hmin : ∀ j, (P i).F ≤ (P j).F) (hB : (P i).F ≤ B0)
    (s : St N) (sched : List (Fin N × Int)) (h : Inv P B0 s) (hadm : Admissible P s sched)
    (hna : s.st i ≠ .aborted) : (run P s sched).st i ≠ .aborted := by
  induction sched generalizing s with
  | nil => exact hna
  | cons e rest ih =>
    obtain ⟨j, v⟩ := e
    obtain ⟨hv, hrest⟩ := hadm
    apply ih _ (inv_step P B0 s j v h) hrest
    -- show step does not abort i
    unfold step
    split
    · rename_i pc hst
      split
      · rename_i hpc
        split
        · rename_i hgt
          by_cases hji : i = j
          · subst hji
            exfalso
            have h1 : (P i).phases[pc] ≤ (P i).F := hP.le_F i _ (List.getElem_mem hpc)
            have h2 : (P i).F ≤ s.bound := h.low _ hB hmin
            have h3 : s.bound ≤ v := h.hist_ge v hv
            omega
          · simp [hji, hna]
        · by_cases hji : i = j
          · simp [hji]
          · simp [hji, hna]
      · by_cases hji : i = j
        · simp [hji]
        · simp [hji, hna]
    · exact hna

/-- a finished process reports its true flow (trivial here: that value is C01's theorem), and the
    final bound is the minimum of the initial bound and all finished flows -/
theorem final_bound {N} (P : Fin N → Proc) (B0 : Int) (sched : List (Fin N × Int)) :
    let s := run P (init B0) sched
    s.bound ≤ B0 ∧ (∀ i, s.st i = .finished → s.bound ≤ (P i).F) ∧
    (s.bound = B0 ∨ ∃ i, s.st i = .finished ∧ s.bound = (P i).F) := by
  have h := inv_run P B0 (init B0) sched (inv_init P B0)
  exact ⟨h.bound_le_B0, h.bound_le_fin, h.bound_attained⟩



end Tbx.Bound
