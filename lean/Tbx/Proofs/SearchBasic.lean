import Tbx.Model.Search
import Tbx.Spec.Reach
/-
Helper lemmas for C15, part 1: pop disciplines, `setAll`, and a complete description of what one pass
over the out-edges of a popped node (`Search.edges`) does to the state.  Core only.
-/
namespace Tbx.Search
open Tbx

/-- a pop discipline only has to return a member and keep the others -/
def PopOK (pop : List Nat → Option (Nat × List Nat)) : Prop :=
  (∀ l, pop l = none → l = []) ∧
  (∀ l u rest, pop l = some (u, rest) → ∀ x, x ∈ l ↔ x = u ∨ x ∈ rest)

theorem popFront_ok : PopOK popFront := by
  constructor
  · intro l h; cases l <;> simp_all [popFront]
  · intro l u rest h x
    cases l with
    | nil => simp [popFront] at h
    | cons a as =>
      simp only [popFront, Option.some.injEq, Prod.mk.injEq] at h
      obtain ⟨rfl, rfl⟩ := h
      simp

theorem popBack_ok : PopOK popBack := by
  constructor
  · intro l h
    unfold popBack at h
    split at h
    · rename_i hl; exact List.getLast?_eq_none_iff.mp hl
    · cases h
  · intro l u rest h x
    unfold popBack at h
    split at h
    · cases h
    · rename_i y hl
      simp only [Option.some.injEq, Prod.mk.injEq] at h
      obtain ⟨rfl, rfl⟩ := h
      have hne : l ≠ [] := by
        intro e; subst e; simp at hl
      have hy : l.getLast hne = y := by
        rw [List.getLast?_eq_some_getLast hne] at hl
        exact Option.some.inj hl
      have hd : l = l.dropLast ++ [y] := by
        rw [← hy]; exact (List.dropLast_concat_getLast hne).symm
      constructor
      · intro hx
        rw [hd] at hx
        rcases List.mem_append.mp hx with h1 | h1
        · exact Or.inr h1
        · left; simpa using h1
      · rintro (rfl | h1)
        · rw [hd]; simp
        · exact List.dropLast_subset l h1

def marked (par : Array (Option Nat)) (v : Nat) : Prop := (gt par v).isSome = true

theorem seen_eq (par : Array (Option Nat)) (b : Bool) (v : Nat) : seen par b v = (gt par v).isSome := by
  unfold seen
  cases h : gt par v <;> simp

theorem marked_lt (par : Array (Option Nat)) (v : Nat) (h : marked par v) : v < par.size := by
  by_cases hv : v < par.size
  · exact hv
  · have : gt par v = default := gt_of_ge par v (by omega)
    unfold marked at h
    rw [this] at h
    cases h

/-! ### `setAll` -/

theorem setAll_spec {α : Type} [Inhabited α] (f : Nat → α) (idx : List Nat) (a a' : Array α)
    (h : setAll a f idx = some a') :
    a'.size = a.size ∧ (∀ i, i ∈ idx → i < a.size) ∧
    (∀ x, gt a' x = if x ∈ idx then f x else gt a x) := by
  induction idx generalizing a with
  | nil =>
    simp only [setAll, Option.some.injEq] at h
    subst h
    refine ⟨rfl, ?_, ?_⟩
    · intro i hi; cases hi
    · intro x; simp
  | cons i is ih =>
    simp only [setAll] at h
    split at h
    · rename_i hi
      obtain ⟨h1, h2, h3⟩ := ih _ h
      rw [size_st] at h1 h2
      refine ⟨h1, ?_, ?_⟩
      · intro j hj
        rcases List.mem_cons.mp hj with rfl | hj
        · exact hi
        · exact h2 j hj
      · intro x
        rw [h3 x]
        by_cases hx : x ∈ is
        · simp [hx]
        · by_cases hxi : x = i
          · subst hxi; simp [hx, gt_st_eq _ _ _ hi]
          · have : i ≠ x := fun e => hxi e.symm
            simp [hx, hxi, gt_st_ne _ _ _ _ this]
    · cases h

theorem setAll_isSome {α : Type} (f : Nat → α) (idx : List Nat) (a : Array α)
    (h : ∀ i, i ∈ idx → i < a.size) : ∃ a', setAll a f idx = some a' := by
  induction idx generalizing a with
  | nil => exact ⟨a, rfl⟩
  | cons i is ih =>
    simp only [setAll]
    have hi : i < a.size := h i (by simp)
    simp only [hi, if_true]
    apply ih
    intro j hj
    rw [size_st]
    exact h j (by simp [hj])

theorem gt_replicate {α : Type} [Inhabited α] (n : Nat) (c : α) (x : Nat) (hc : c = default) :
    gt (Array.replicate n c) x = c := by
  subst hc
  simp only [gt, Array.getD_eq_getD_getElem?]
  by_cases hx : x < n
  · simp [hx]
  · simp [hx]

/-- the parents vector at the start of every run -/
theorem resetParents_spec (sr : Searcher) (par : Array (Option Nat)) (h : resetParents sr = some par) :
    par.size = sr.parents.size ∧ (∀ s, s ∈ sr.sources → s < par.size) ∧
    (∀ x, gt par x = if x ∈ sr.sources then some x else none) := by
  unfold resetParents at h
  obtain ⟨h1, h2, h3⟩ := setAll_spec _ _ _ _ h
  simp only [Array.size_replicate] at h1 h2
  refine ⟨h1, ?_, ?_⟩
  · intro s hs; rw [h1]; exact h2 s hs
  · intro x; rw [h3 x, gt_replicate _ (none : Option Nat) _ rfl]

/-! ### one pass over the out-edges of the popped node -/

/-- `s'` is `s` after discovering the nodes `news` (in this order) from `u` -/
structure Disc (filt : Nat → Bool) (u : Nat) (vs : List (Nat × Nat)) (s s' : S) (news : List Nat) : Prop where
  size  : s'.par.size = s.par.size
  par   : ∀ x, gt s'.par x = if x ∈ news then some u else gt s.par x
  fresh : ∀ v, v ∈ news → gt s.par v = none ∧ v < s.par.size ∧ ∃ e, (v, e) ∈ vs ∧ filt e = false
  nodup : news.Nodup

theorem gt_st_some (par : Array (Option Nat)) (v u x : Nat) (hv : v < par.size) :
    gt (st par v (some u)) x = if x = v then some u else gt par x := by
  rw [gt_st]
  by_cases h : v = x
  · subst h; simp [hv]
  · have : ¬ x = v := fun e => h e.symm
    simp [h, this]

/-- the loop ran to the end of the edge list: everything discovered was pushed and is no target; every
    unfiltered edge in the list now leads to a marked node -/
theorem edges_cont (filt isT : Nat → Bool) (u : Nat) (b : Bool) (vs : List (Nat × Nat)) (s s' : S)
    (h : edges filt isT u b vs s = .cont s') :
    ∃ news, Disc filt u vs s s' news ∧ s'.wl = s.wl ++ news ∧ (∀ v, v ∈ news → isT v = false) ∧
      (∀ v e, (v, e) ∈ vs → filt e = false → marked s'.par v) := by
  induction vs generalizing s with
  | nil =>
    simp only [edges, ER.cont.injEq] at h
    subst h
    refine ⟨[], ⟨rfl, ?_, ?_, List.nodup_nil⟩, by simp, ?_, ?_⟩
    · intro x; simp
    · intro v hv; cases hv
    · intro v hv; cases hv
    · intro v e hm; cases hm
  | cons p vs ih =>
    obtain ⟨v, e⟩ := p
    simp only [edges] at h
    split at h
    · -- filtered
      rename_i hf
      obtain ⟨news, hd, hw, hT, hm⟩ := ih s h
      refine ⟨news, ⟨hd.size, hd.par, ?_, hd.nodup⟩, hw, hT, ?_⟩
      · intro x hx
        obtain ⟨a, b', e', he', hf'⟩ := hd.fresh x hx
        exact ⟨a, b', e', List.mem_cons_of_mem _ he', hf'⟩
      · intro w e' hm' hf'
        rcases List.mem_cons.mp hm' with heq | hm'
        · simp only [Prod.mk.injEq] at heq
          obtain ⟨_, rfl⟩ := heq
          rw [hf'] at hf; cases hf
        · exact hm w e' hm' hf'
    · rename_i hf
      split at h
      · cases h
      · rename_i hv
        have hv : v < s.par.size := by omega
        split at h
        · -- already seen
          rename_i hs
          rw [seen_eq] at hs
          obtain ⟨news, hd, hw, hT, hm⟩ := ih s h
          refine ⟨news, ⟨hd.size, hd.par, ?_, hd.nodup⟩, hw, hT, ?_⟩
          · intro x hx
            obtain ⟨a, b', e', he', hf'⟩ := hd.fresh x hx
            exact ⟨a, b', e', List.mem_cons_of_mem _ he', hf'⟩
          · intro w e' hm' hf'
            rcases List.mem_cons.mp hm' with heq | hm'
            · simp only [Prod.mk.injEq] at heq
              obtain ⟨rfl, _⟩ := heq
              unfold marked
              rw [hd.par w]
              split
              · rfl
              · exact hs
            · exact hm w e' hm' hf'
        · rename_i hs
          rw [seen_eq] at hs
          have hnone : gt s.par v = none := by
            cases hg : gt s.par v with
            | none => rfl
            | some _ => rw [hg] at hs; simp at hs
          split at h
          · cases h
          · rename_i hT
            obtain ⟨news, hd, hw, hTn, hm⟩ := ih _ h
            have hsz : s'.par.size = s.par.size := by rw [hd.size]; simp
            have hvn : v ∉ news := by
              intro hx
              have := (hd.fresh v hx).1
              simp only [gt_st_some _ _ _ _ hv, if_true] at this
              cases this
            refine ⟨v :: news, ⟨hsz, ?_, ?_, List.nodup_cons.mpr ⟨hvn, hd.nodup⟩⟩, ?_, ?_, ?_⟩
            · intro x
              rw [hd.par x]
              simp only [gt_st_some _ _ _ _ hv, List.mem_cons]
              by_cases hx : x ∈ news
              · simp [hx]
              · by_cases hxv : x = v <;> simp [hx, hxv]
            · intro x hx
              rcases List.mem_cons.mp hx with rfl | hx
              · exact ⟨hnone, hv, e, List.mem_cons_self, by simpa using hf⟩
              · obtain ⟨a, b', e', he', hf'⟩ := hd.fresh x hx
                simp only [size_st] at b'
                have hxv : x ≠ v := fun e => hvn (e ▸ hx)
                simp only [gt_st_some _ _ _ _ hv, hxv, if_false] at a
                exact ⟨a, b', e', List.mem_cons_of_mem _ he', hf'⟩
            · rw [hw]; simp
            · intro x hx
              rcases List.mem_cons.mp hx with rfl | hx
              · simpa using hT
              · exact hTn x hx
            · intro w e' hm' hf'
              rcases List.mem_cons.mp hm' with heq | hm'
              · simp only [Prod.mk.injEq] at heq
                obtain ⟨rfl, _⟩ := heq
                unfold marked
                rw [hd.par w]
                split
                · rfl
                · simp [gt_st_some _ _ _ _ hv]
              · exact hm w e' hm' hf'

/-- the loop returned early: `t` is a target discovered from `u`, it was marked but not pushed -/
theorem edges_found (filt isT : Nat → Bool) (u : Nat) (b : Bool) (vs : List (Nat × Nat)) (s s' : S) (t : Nat)
    (h : edges filt isT u b vs s = .found t s') :
    ∃ news, Disc filt u vs s s' (news ++ [t]) ∧ s'.wl = s.wl ++ news ∧ (∀ v, v ∈ news → isT v = false) ∧
      isT t = true := by
  induction vs generalizing s with
  | nil => simp [edges] at h
  | cons p vs ih =>
    obtain ⟨v, e⟩ := p
    simp only [edges] at h
    have lift : ∀ news, Disc filt u vs s s' (news ++ [t]) → Disc filt u ((v, e) :: vs) s s' (news ++ [t]) := by
      intro news hd
      refine ⟨hd.size, hd.par, ?_, hd.nodup⟩
      intro x hx
      obtain ⟨a, b', e', he', hf'⟩ := hd.fresh x hx
      exact ⟨a, b', e', List.mem_cons_of_mem _ he', hf'⟩
    split at h
    · obtain ⟨news, hd, hw, hT, ht⟩ := ih s h
      exact ⟨news, lift news hd, hw, hT, ht⟩
    · rename_i hf
      split at h
      · cases h
      · rename_i hv
        have hv : v < s.par.size := by omega
        split at h
        · obtain ⟨news, hd, hw, hT, ht⟩ := ih s h
          exact ⟨news, lift news hd, hw, hT, ht⟩
        · rename_i hs
          rw [seen_eq] at hs
          have hnone : gt s.par v = none := by
            cases hg : gt s.par v with
            | none => rfl
            | some _ => rw [hg] at hs; simp at hs
          split at h
          · rename_i hT
            simp only [ER.found.injEq] at h
            obtain ⟨rfl, rfl⟩ := h
            refine ⟨[], ⟨by simp, ?_, ?_, by simp⟩, by simp, ?_, hT⟩
            · intro x
              simp only [gt_st_some _ _ _ _ hv, List.nil_append, List.mem_singleton]
            · intro x hx
              simp only [List.nil_append, List.mem_singleton] at hx
              subst hx
              exact ⟨hnone, hv, e, List.mem_cons_self, by simpa using hf⟩
            · intro x hx; cases hx
          · rename_i hT
            obtain ⟨news, hd, hw, hTn, ht⟩ := ih _ h
            have hsz : s'.par.size = s.par.size := by rw [hd.size]; simp
            have hvn : v ∉ news ++ [t] := by
              intro hx
              have := (hd.fresh v hx).1
              simp only [gt_st_some _ _ _ _ hv, if_true] at this
              cases this
            refine ⟨v :: news, ⟨hsz, ?_, ?_, ?_⟩, ?_, ?_, ht⟩
            · intro x
              rw [hd.par x]
              simp only [gt_st_some _ _ _ _ hv, List.cons_append, List.mem_cons]
              by_cases hx : x ∈ news ++ [t]
              · simp [hx]
              · by_cases hxv : x = v <;> simp [hx, hxv]
            · intro x hx
              rw [List.cons_append] at hx
              rcases List.mem_cons.mp hx with rfl | hx
              · exact ⟨hnone, hv, e, List.mem_cons_self, by simpa using hf⟩
              · obtain ⟨a, b', e', he', hf'⟩ := hd.fresh x hx
                simp only [size_st] at b'
                have hxv : x ≠ v := fun e => hvn (e ▸ hx)
                simp only [gt_st_some _ _ _ _ hv, hxv, if_false] at a
                exact ⟨a, b', e', List.mem_cons_of_mem _ he', hf'⟩
            · rw [List.cons_append]
              exact List.nodup_cons.mpr ⟨hvn, hd.nodup⟩
            · rw [hw]; simp
            · intro x hx
              rcases List.mem_cons.mp hx with rfl | hx
              · simpa using hT
              · exact hTn x hx

end Tbx.Search
