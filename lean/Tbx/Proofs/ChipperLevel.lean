import Tbx.Proofs.ChipperJob
/-
One level of chipper and the level loop: queue invariants.

  stepId / stepNext     the effect of `levelStep` on one id / the next queue, as pure functions
  levelStep_spec        `levelStep` = (stepId, stepNext), size kept
  QueueOK n Q           every job well-formed (`JobOK`), jobs pairwise disjoint
  stepNext_queueOK      the next queue is again `QueueOK`, every new job lies inside one job of the queue
  levels_trace_ok       every queue of every level of a run is `QueueOK`      (C06 `jobs_disjoint`)
  levels_congr          two `best` functions that agree on well-formed jobs give the same run  (C06 `par_eq_seq`)
-/
namespace Tbx.Chipper
open Tbx Tbx.Gen Tbx.InertialFlow

/-- every result `best` reports for a well-formed job is usable (`ResOK`) -/
def BestOK (n : Nat) (best : Nat → Nat → Job → Best) : Prop :=
  ∀ lvl idx job res, JobOK n job → best lvl idx job = .some res → ResOK job res

/-- id of node `x` after the jobs `Q` (indices from `idx`) were processed in order, from its id before -/
def stepId (cfg : Cfg) (best : Nat → Nat → Job → Best) (lvl : Nat) : Nat → List Job → Nat → Nat → Nat
  | _, [], _, old => old
  | idx, job :: rest, x, old =>
    match best lvl idx job with
    | .some res => stepId cfg best lvl (idx + 1) rest x (newId cfg lvl res x old)
    | _ => stepId cfg best lvl (idx + 1) rest x old

/-- the queue of the next level -/
def stepNext (cfg : Cfg) (best : Nat → Nat → Job → Best) (lvl : Nat) : Nat → List Job → List Job
  | _, [] => []
  | idx, job :: rest =>
    (match best lvl idx job with
     | .some res => children cfg job res
     | _ => []) ++ stepNext cfg best lvl (idx + 1) rest

theorem levelStep_spec (cfg : Cfg) (best : Nat → Nat → Job → Best) (lvl n : Nat) (hbest : BestOK n best) :
    ∀ (Q : List Job) (idx : Nat) (pid : Array Nat) (out : Array Nat × List Job),
      pid.size = n → (∀ job ∈ Q, JobOK n job) →
      levelStep cfg best lvl idx pid Q = some out →
      out.1.size = n ∧ out.2 = stepNext cfg best lvl idx Q ∧
        ∀ x, gt out.1 x = stepId cfg best lvl idx Q x (gt pid x) := by
  intro Q
  induction Q with
  | nil =>
    intro idx pid out hsz _ h
    simp only [levelStep, Option.some.injEq] at h
    subst h
    exact ⟨hsz, rfl, fun _ => rfl⟩
  | cons job rest ih =>
    intro idx pid out hsz hjobs h
    have hjob := hjobs job List.mem_cons_self
    have hrest : ∀ j ∈ rest, JobOK n j := fun j hj => hjobs j (List.mem_cons_of_mem _ hj)
    unfold levelStep at h
    unfold stepNext stepId
    cases hb : best lvl idx job with
    | panic => rw [hb] at h; cases h
    | none =>
      rw [hb] at h
      simp only [] at h ⊢
      have := ih (idx + 1) pid out hsz hrest h
      simpa using this
    | some res =>
      rw [hb] at h
      simp only [] at h ⊢
      have hres := hbest lvl idx job res hjob hb
      have hlt : ∀ x ∈ res.left ++ res.right, x < pid.size := by
        intro x hx; rw [hsz]; exact hjob.lt x (hres.sub x hx)
      obtain ⟨hs, hid, hch⟩ := processJob_spec cfg lvl pid job res hres hlt
      cases hq : levelStep cfg best lvl (idx + 1) (processJob cfg lvl pid job res).1 rest with
      | none => rw [hq] at h; cases h
      | some q =>
        rw [hq] at h
        simp only [Option.some.injEq] at h
        subst h
        obtain ⟨i1, i2, i3⟩ := ih (idx + 1) _ q (by rw [hs, hsz]) hrest hq
        refine ⟨i1, ?_, ?_⟩
        · simp only [i2, hch]
        · intro x
          simp only [i3 x, hid x]

/-! ### queue invariants -/

structure QueueOK (n : Nat) (Q : List Job) : Prop where
  jobs : ∀ job ∈ Q, JobOK n job
  disj : Q.Pairwise Disj

/-- every job of `Q'` lies inside one job of `Q` -/
def Refines (Q' Q : List Job) : Prop := ∀ c ∈ Q', ∃ job ∈ Q, ∀ x ∈ c.ids, x ∈ job.ids

theorem stepNext_sub (cfg : Cfg) (best : Nat → Nat → Job → Best) (lvl n : Nat) (hm : 1 ≤ cfg.m)
    (hbest : BestOK n best) :
    ∀ (Q : List Job) (idx : Nat), (∀ job ∈ Q, JobOK n job) →
      ∀ c ∈ stepNext cfg best lvl idx Q, JobOK n c ∧ ∃ job ∈ Q, ∀ x ∈ c.ids, x ∈ job.ids := by
  intro Q
  induction Q with
  | nil => intro idx _ c hc; simp [stepNext] at hc
  | cons job rest ih =>
    intro idx hjobs c hc
    have hjob := hjobs job List.mem_cons_self
    unfold stepNext at hc
    rcases List.mem_append.mp hc with h | h
    · cases hb : best lvl idx job with
      | panic => rw [hb] at h; simp at h
      | none => rw [hb] at h; simp at h
      | some res =>
        rw [hb] at h
        simp only [] at h
        have hres := hbest lvl idx job res hjob hb
        obtain ⟨h1, h2, _⟩ := children_ok hm hjob hres c h
        exact ⟨h1, job, List.mem_cons_self, h2⟩
    · obtain ⟨h1, j, hj, h2⟩ := ih (idx + 1) (fun j hj => hjobs j (List.mem_cons_of_mem _ hj)) c h
      exact ⟨h1, j, List.mem_cons_of_mem _ hj, h2⟩

theorem stepNext_queueOK (cfg : Cfg) (best : Nat → Nat → Job → Best) (lvl n : Nat) (hm : 1 ≤ cfg.m)
    (hbest : BestOK n best) :
    ∀ (Q : List Job) (idx : Nat), QueueOK n Q →
      QueueOK n (stepNext cfg best lvl idx Q) ∧ Refines (stepNext cfg best lvl idx Q) Q := by
  intro Q idx hQ
  refine ⟨⟨fun c hc => (stepNext_sub cfg best lvl n hm hbest Q idx hQ.jobs c hc).1, ?_⟩,
    fun c hc => (stepNext_sub cfg best lvl n hm hbest Q idx hQ.jobs c hc).2⟩
  obtain ⟨hjobs, hdisj⟩ := hQ
  induction Q generalizing idx with
  | nil => simp [stepNext]
  | cons job rest ih =>
    have hjob := hjobs job List.mem_cons_self
    have hrest : ∀ j ∈ rest, JobOK n j := fun j hj => hjobs j (List.mem_cons_of_mem _ hj)
    obtain ⟨hhead, htail⟩ := List.pairwise_cons.mp hdisj
    unfold stepNext
    rw [List.pairwise_append]
    refine ⟨?_, ih (idx + 1) hrest htail, ?_⟩
    · cases hb : best lvl idx job with
      | panic => simp
      | none => simp
      | some res => exact children_disj (hbest lvl idx job res hjob hb)
    · intro a ha b hb'
      cases hb : best lvl idx job with
      | panic => rw [hb] at ha; simp at ha
      | none => rw [hb] at ha; simp at ha
      | some res =>
        rw [hb] at ha
        simp only [] at ha
        have hres := hbest lvl idx job res hjob hb
        obtain ⟨_, ha2, _⟩ := children_ok hm hjob hres a ha
        obtain ⟨_, j, hj, hb2⟩ := stepNext_sub cfg best lvl n hm hbest rest (idx + 1) hrest b hb'
        intro x hxa hxb
        exact hhead j hj x (ha2 x hxa) (hb2 x hxb)

/-- every queue of a run is well-formed and pairwise disjoint -/
theorem levels_trace_ok (cfg : Cfg) (best : Nat → Nat → Job → Best) (n : Nat) (hm : 1 ≤ cfg.m)
    (hbest : BestOK n best) :
    ∀ (fuel lvl : Nat) (pid : Array Nat) (Q : List Job) (out : Array Nat × List (List Job)),
      pid.size = n → QueueOK n Q → levels cfg best fuel lvl pid Q = some out →
      out.1.size = n ∧ ∀ q ∈ out.2, QueueOK n q := by
  intro fuel
  induction fuel with
  | zero =>
    intro lvl pid Q out hsz _ h
    simp only [levels, Option.some.injEq] at h
    subst h
    exact ⟨hsz, fun q hq => by cases hq⟩
  | succ fuel ih =>
    intro lvl pid Q out hsz hQ h
    unfold levels at h
    by_cases he : Q.isEmpty
    · rw [if_pos he] at h
      simp only [Option.some.injEq] at h
      subst h
      exact ⟨hsz, fun q hq => by cases hq⟩
    · rw [if_neg he] at h
      cases hp : levelStep cfg best lvl 0 pid Q with
      | none => rw [hp] at h; cases h
      | some p =>
        rw [hp] at h
        simp only [] at h
        obtain ⟨s1, s2, _⟩ := levelStep_spec cfg best lvl n hbest Q 0 pid p hsz hQ.jobs hp
        cases hq : levels cfg best fuel (lvl + 1) p.1 p.2 with
        | none => rw [hq] at h; cases h
        | some q =>
          rw [hq] at h
          simp only [Option.some.injEq] at h
          subst h
          have hQ' : QueueOK n p.2 := by
            rw [s2]; exact (stepNext_queueOK cfg best lvl n hm hbest Q 0 hQ).1
          obtain ⟨i1, i2⟩ := ih (lvl + 1) p.1 p.2 q s1 hQ' hq
          refine ⟨i1, ?_⟩
          intro q' hq'
          rcases List.mem_cons.mp hq' with rfl | hq'
          · exact hQ
          · exact i2 q' hq'

/-! ### congruence in `best` -/

theorem levelStep_congr (cfg : Cfg) (b1 b2 : Nat → Nat → Job → Best) (lvl n : Nat)
    (heq : ∀ lvl idx job, JobOK n job → b1 lvl idx job = b2 lvl idx job) :
    ∀ (Q : List Job) (idx : Nat) (pid : Array Nat), (∀ job ∈ Q, JobOK n job) →
      levelStep cfg b1 lvl idx pid Q = levelStep cfg b2 lvl idx pid Q := by
  intro Q
  induction Q with
  | nil => intro idx pid _; rfl
  | cons job rest ih =>
    intro idx pid hjobs
    have hjob := hjobs job List.mem_cons_self
    have hrest : ∀ j ∈ rest, JobOK n j := fun j hj => hjobs j (List.mem_cons_of_mem _ hj)
    unfold levelStep
    rw [heq lvl idx job hjob]
    cases best2 : b2 lvl idx job with
    | panic => rfl
    | none => simp only []; exact ih (idx + 1) pid hrest
    | some res => simp only []; rw [ih (idx + 1) _ hrest]

theorem levels_congr (cfg : Cfg) (b1 b2 : Nat → Nat → Job → Best) (n : Nat) (hm : 1 ≤ cfg.m)
    (hbest : BestOK n b2)
    (heq : ∀ lvl idx job, JobOK n job → b1 lvl idx job = b2 lvl idx job) :
    ∀ (fuel lvl : Nat) (pid : Array Nat) (Q : List Job), pid.size = n → QueueOK n Q →
      levels cfg b1 fuel lvl pid Q = levels cfg b2 fuel lvl pid Q := by
  intro fuel
  induction fuel with
  | zero => intro lvl pid Q _ _; rfl
  | succ fuel ih =>
    intro lvl pid Q hsz hQ
    unfold levels
    by_cases he : Q.isEmpty
    · rw [if_pos he, if_pos he]
    · rw [if_neg he, if_neg he, levelStep_congr cfg b1 b2 lvl n heq Q 0 pid hQ.jobs]
      cases hp : levelStep cfg b2 lvl 0 pid Q with
      | none => rfl
      | some p =>
        simp only []
        obtain ⟨s1, s2, _⟩ := levelStep_spec cfg b2 lvl n hbest Q 0 pid p hsz hQ.jobs hp
        have hQ' : QueueOK n p.2 := by
          rw [s2]; exact (stepNext_queueOK cfg b2 lvl n hm hbest Q 0 hQ).1
        rw [ih (lvl + 1) p.1 p.2 s1 hQ']

/-- the root job of a graph whose edge sources are node ids -/
theorem root_queueOK (edges : List Edge) (n : Nat) (hn : 2 ≤ n) (hsrc : ∀ e ∈ edges, e.1 < n)
    (hsmall : 2 * edges.length + 6 < Tbx.Flow.INV) :
    QueueOK n [{ edges := edges, ids := List.range n }] where
  jobs := by
    intro job hj
    simp only [List.mem_singleton] at hj
    subst hj
    exact ⟨List.nodup_range, fun x hx => List.mem_range.mp hx, by simpa using hn,
      fun e he => List.mem_range.mpr (hsrc e he), hsmall⟩
  disj := by simp

end Tbx.Chipper
