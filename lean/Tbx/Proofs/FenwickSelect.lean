import Tbx.Proofs.Fenwick
/-
`select(value)` on an array of non-negative entries: the binary descent finds the largest index whose
prefix sum is ≤ value (`None` if even the first prefix sum is larger).
-/
namespace Tbx.Fenwick
open Tbx
open Tbx.PrefixSum (pre)

theorem lsb_two_mul (a : Nat) (ha : 0 < a) : lsb (2 * a) = 2 * lsb a := by
  rw [lsb_even (2 * a) (by omega) (by omega)]
  have : 2 * a / 2 = a := by omega
  rw [this]

theorem lsb_pow_mul (e a : Nat) (ha : 0 < a) : lsb (2 ^ e * a) = 2 ^ e * lsb a := by
  induction e with
  | zero => simp
  | succ e ih =>
    have hp : 0 < 2 ^ e * a := Nat.mul_pos (Nat.two_pow_pos e) ha
    have : 2 ^ (e + 1) * a = 2 * (2 ^ e * a) := by rw [Nat.pow_succ]; ac_rfl
    rw [this, lsb_two_mul _ hp, ih, Nat.pow_succ]
    ac_rfl

theorem getD_nonneg (v : List Int) (hv : ∀ x ∈ v, 0 ≤ x) (i : Nat) : 0 ≤ v.getD i 0 := by
  rw [List.getD_eq_getElem?_getD]
  cases h : v[i]? with
  | none => simp
  | some x => simpa using hv x (List.mem_of_getElem? h)

theorem pre_mono (v : List Int) (hv : ∀ x ∈ v, 0 ≤ x) (a b : Nat) (h : a ≤ b) : pre v a ≤ pre v b := by
  induction b with
  | zero => have : a = 0 := by omega
            subst this; exact Int.le_refl _
  | succ b ih =>
    by_cases hab : a = b + 1
    · subst hab; exact Int.le_refl _
    · have := ih (by omega)
      rw [pre_succ]
      have := getD_nonneg v hv b
      omega

theorem selLoop_step_zero (t : Array Int) (fuel index : Nat) (value : Int) :
    selLoop t fuel index 0 value = index := by
  cases fuel <;> simp [selLoop]

theorem selLoop_spec (t : Array Int) (v : List Int) (hI : FwInv t v) (hv : ∀ x ∈ v, 0 ≤ x) (value0 : Int)
    (e : Nat) : ∀ (fuel index m : Nat), e + 1 ≤ fuel → index = 2 ^ (e + 1) * m → index ≤ v.length →
      (∀ p, index + 2 ^ (e + 1) ≤ p → p ≤ v.length → value0 < pre v p) →
      (selLoop t fuel index (2 ^ e) (value0 - pre v index)) ≤ v.length ∧
      ((selLoop t fuel index (2 ^ e) (value0 - pre v index)) = index ∨
        pre v (selLoop t fuel index (2 ^ e) (value0 - pre v index)) ≤ value0) ∧
      index ≤ (selLoop t fuel index (2 ^ e) (value0 - pre v index)) ∧
      ∀ p, (selLoop t fuel index (2 ^ e) (value0 - pre v index)) < p → p ≤ v.length → value0 < pre v p := by
  induction e with
  | zero =>
    intro fuel index m hf hidx hle hb
    cases fuel with
    | zero => omega
    | succ f =>
      have hl : lsb (index + 1) = 1 := by
        apply lsb_odd; rw [hidx]; omega
      unfold selLoop
      simp only [Nat.pow_zero, Nat.zero_lt_one, if_true, Nat.reduceDiv, selLoop_step_zero]
      by_cases hin : index + 1 ≤ v.length
      · have hnode := hI.node (index + 1) (by omega) hin
        rw [hl] at hnode
        simp only [Nat.add_sub_cancel] at hnode
        by_cases hc : gt t (index + 1) ≤ value0 - pre v index
        · have hcond : index + 1 < t.size ∧ gt t (index + 1) ≤ value0 - pre v index := ⟨by rw [hI.size]; omega, hc⟩
          rw [if_pos hcond]
          refine ⟨hin, Or.inr (by omega), by omega, ?_⟩
          intro p hp1 hp2
          exact hb p (by simp; omega) hp2
        · have hcond : ¬ (index + 1 < t.size ∧ gt t (index + 1) ≤ value0 - pre v index) := fun h => hc h.2
          rw [if_neg hcond]
          refine ⟨hle, Or.inl rfl, Nat.le_refl _, ?_⟩
          intro p hp1 hp2
          by_cases hp : p = index + 1
          · subst hp; omega
          · exact hb p (by simp; omega) hp2
      · have hcond : ¬ (index + 1 < t.size ∧ gt t (index + 1) ≤ value0 - pre v index) := by
          rw [hI.size]; omega
        rw [if_neg hcond]
        refine ⟨hle, Or.inl rfl, Nat.le_refl _, ?_⟩
        intro p hp1 hp2
        omega
  | succ e ih =>
    intro fuel index m hf hidx hle hb
    cases fuel with
    | zero => omega
    | succ f =>
      have hP : 0 < 2 ^ e := Nat.two_pow_pos e
      have h1 : 2 ^ (e + 1) = 2 * 2 ^ e := by rw [Nat.pow_succ]; omega
      have h2 : 2 ^ (e + 1 + 1) = 2 * 2 ^ (e + 1) := by rw [Nat.pow_succ]; omega
      have hform : index + 2 ^ (e + 1) = 2 ^ (e + 1) * (2 * m + 1) := by
        rw [hidx, h2, Nat.mul_add, Nat.mul_one]
        rw [Nat.mul_comm 2 (2 ^ (e + 1)), Nat.mul_assoc]
      have hl : lsb (index + 2 ^ (e + 1)) = 2 ^ (e + 1) := by
        rw [hform, lsb_pow_mul _ _ (by omega), lsb_odd (2 * m + 1) (by omega), Nat.mul_one]
      have hhalf : 2 ^ (e + 1) / 2 = 2 ^ e := by omega
      have hpos : 2 ^ (e + 1) > 0 := by omega
      unfold selLoop
      rw [if_pos hpos, hhalf]
      by_cases hcond : index + 2 ^ (e + 1) < t.size ∧ gt t (index + 2 ^ (e + 1)) ≤ value0 - pre v index
      · rw [if_pos hcond]
        have hin : index + 2 ^ (e + 1) ≤ v.length := by have := hcond.1; rw [hI.size] at this; omega
        have hnode := hI.node (index + 2 ^ (e + 1)) (by omega) hin
        rw [hl, Nat.add_sub_cancel] at hnode
        have hval : value0 - pre v index - gt t (index + 2 ^ (e + 1)) = value0 - pre v (index + 2 ^ (e + 1)) := by
          rw [hnode]; omega
        rw [hval]
        have hc2 := hcond.2
        rw [hnode] at hc2
        obtain ⟨r1, r2, r3, r4⟩ := ih f (index + 2 ^ (e + 1)) (2 * m + 1) (by omega) hform hin
          (fun p hp1 hp2 => hb p (by omega) hp2)
        refine ⟨r1, Or.inr ?_, by omega, r4⟩
        rcases r2 with h | h
        · rw [h]; omega
        · exact h
      · rw [if_neg hcond]
        have hform' : index = 2 ^ (e + 1) * (2 * m) := by
          rw [hidx, h2, Nat.mul_comm 2 (2 ^ (e + 1)), Nat.mul_assoc]
        apply ih f index (2 * m) (by omega) hform' hle
        intro p hp1 hp2
        by_cases hin : index + 2 ^ (e + 1) ≤ v.length
        · have hnode := hI.node (index + 2 ^ (e + 1)) (by omega) hin
          rw [hl, Nat.add_sub_cancel] at hnode
          have hgt : value0 < pre v (index + 2 ^ (e + 1)) := by
            apply Classical.byContradiction
            intro hn
            apply hcond
            refine ⟨by rw [hI.size]; omega, ?_⟩
            rw [hnode]; omega
          have := pre_mono v hv _ _ hp1
          omega
        · omega

/-- `select(x)` on non-negative entries is the plain array's answer -/
theorem select_spec (t : Array Int) (v : List Int) (hI : FwInv t v) (hv : ∀ x ∈ v, 0 ≤ x) (x : Int) :
    PrefixSum.IsSelect v x (Fenwick.select ⟨t⟩ x) := by
  unfold Fenwick.select len prevPow2
  simp only [hI.size, Nat.add_sub_cancel]
  by_cases hn : v.length = 0
  · rw [if_pos hn, selLoop_step_zero]
    simp only [if_true]
    intro i hi; omega
  · rw [if_neg hn]
    have hfuel : v.length.log2 + 1 ≤ 2 ^ v.length.log2 + 1 := by
      have := @Nat.lt_two_pow_self v.length.log2; omega
    have hx : x = x - pre v 0 := by rw [pre_zero]; omega
    have hsp := selLoop_spec t v hI hv x v.length.log2 (2 ^ v.length.log2 + 1) 0 0 hfuel (by simp) (by omega)
      (fun p hp1 hp2 => by
        have := @Nat.lt_log2_self v.length
        omega)
    rw [← hx] at hsp
    obtain ⟨r1, r2, _, r4⟩ := hsp
    generalize selLoop t (2 ^ v.length.log2 + 1) 0 (2 ^ v.length.log2) x = r at r1 r2 r4 ⊢
    by_cases hr : r = 0
    · rw [if_pos hr]
      intro i hi
      exact r4 (i + 1) (by omega) (by omega)
    · rw [if_neg hr]
      have e : r - 1 + 1 = r := by omega
      refine ⟨by omega, ?_, ?_⟩
      · rw [e]
        rcases r2 with h | h
        · exact absurd h hr
        · exact h
      · intro i' hi' hp
        apply Classical.byContradiction
        intro hgt
        have := r4 (i' + 1) (by omega) (by omega)
        omega

end Tbx.Fenwick
