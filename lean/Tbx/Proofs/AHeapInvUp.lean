import Tbx.Proofs.AHeapInvBasic
/-
`up_heap`: pointer bookkeeping through `upLoop`, and the combined specification of `upHeap`
(order part from `Tbx/Proofs/AHeapOrder.lean`).
-/
namespace Tbx.AHeap
open Tbx

theorem upLoop_pinv (fuel : Nat) (h : Array Elem) (ns : Array Node) (key : Nat) (w : Int)
    (r x : Nat) (lo : Int) (P : PInv h ns key r x lo) (hs0 : (gt h 0).weight ≤ w) :
    PInv (upLoop fuel h ns key w).1 (upLoop fuel h ns key w).2.1 (upLoop fuel h ns key w).2.2 r x lo ∧
    Frame ns (upLoop fuel h ns key w).2.1 ∧ gt (upLoop fuel h ns key w).1 0 = gt h 0 := by
  induction fuel generalizing h ns key with
  | zero => simp only [upLoop]; exact ⟨P, Frame.refl _, trivial⟩
  | succ fuel ih =>
    simp only [upLoop]
    split
    · rename_i hgt
      have hpos := P.hole_pos
      have hlt := P.hole_lt
      have hk2 : 1 ≤ key / 2 := by
        rcases Nat.lt_or_ge (key / 2) 1 with h1 | h1
        · exfalso
          have : key / 2 = 0 := by omega
          rw [this] at hgt; omega
        · exact h1
      have hm := P.move (key / 2) hk2 (by omega) (by omega)
      rw [gt_st_eq _ _ _ hlt]
      obtain ⟨a, b, c⟩ := ih _ _ _ hm.1 (by rw [gt_st_ne _ _ _ _ (by omega)]; exact hs0)
      refine ⟨a, hm.2.trans b, ?_⟩
      rw [c, gt_st_ne _ _ _ _ (by omega)]
    · exact ⟨P, Frame.refl _, rfl⟩

theorem upLoop_succ (fuel : Nat) (h : Array Elem) (ns : Array Node) (key : Nat) (w : Int) :
    upLoop (fuel + 1) h ns key w =
      if (gt h (key / 2)).weight > w then
        upLoop fuel (st h key (gt h (key / 2)))
          (setKey ns (gt (st h key (gt h (key / 2))) key).index key) (key / 2) w
      else (h, ns, key) := rfl

/-- the fuel `up_heap` passes (`key`) is sufficient: more fuel does not change the result, i.e. the
loop always leaves through its guard (the sentinel stops it at the root at the latest) -/
theorem upLoop_fuel (fuel : Nat) (h : Array Elem) (ns : Array Node) (key : Nat) (w : Int)
    (hf : key ≤ fuel) (hs0 : (gt h 0).weight ≤ w) :
    upLoop (fuel + 1) h ns key w = upLoop fuel h ns key w := by
  induction fuel generalizing h ns key with
  | zero =>
    have : key = 0 := by omega
    subst this
    rw [upLoop_succ, if_neg (by simpa using hs0)]
    rfl
  | succ fuel ih =>
    rw [upLoop_succ (fuel + 1) h ns key w, upLoop_succ fuel h ns key w]
    split
    · rename_i hgt
      have hk : key ≠ 0 := by
        intro e; subst e; simp at hgt; omega
      exact ih _ _ _ (by omega) (by rw [gt_st_ne _ _ _ _ hk]; exact hs0)
    · rfl

theorem upHeap_heap (s : Heap) (key : Nat) :
    (upHeap s key).heap =
      st (upLoop key s.heap s.nodes key (gt s.heap key).weight).1
         (upLoop key s.heap s.nodes key (gt s.heap key).weight).2.2
         ⟨(gt s.heap key).index, (gt s.heap key).weight⟩ := rfl

theorem upHeap_nodes (s : Heap) (key : Nat) :
    (upHeap s key).nodes =
      setKey (upLoop key s.heap s.nodes key (gt s.heap key).weight).2.1 (gt s.heap key).index
         (upLoop key s.heap s.nodes key (gt s.heap key).weight).2.2 := rfl

@[simp] theorem upHeap_idx (s : Heap) (key : Nat) : (upHeap s key).idx = s.idx := rfl
@[simp] theorem upHeap_wmin (s : Heap) (key : Nat) : (upHeap s key).wmin = s.wmin := rfl
@[simp] theorem upHeap_wmax (s : Heap) (key : Nat) : (upHeap s key).wmax = s.wmax := rfl

/-- combined specification of `up_heap(key)` -/
theorem upHeap_spec (s : Heap) (key x : Nat) (lo : Int)
    (h1 : 1 ≤ key) (h2 : key < s.heap.size)
    (P : PtrX s.heap s.nodes x)
    (hlo : ∀ k, k < s.heap.size → lo ≤ (gt s.heap k).weight)
    (hs0 : (gt s.heap 0).weight ≤ (gt s.heap key).weight)
    (ho : OrdW s.heap key (gt s.heap key).weight) (hb : 2 ≤ key → Below s.heap key) :
    (upHeap s key).heap.size = s.heap.size ∧ Ord (upHeap s key).heap ∧
    PtrX (upHeap s key).heap (upHeap s key).nodes x ∧ Frame s.nodes (upHeap s key).nodes ∧
    (∀ k, k < s.heap.size → lo ≤ (gt (upHeap s key).heap k).weight) ∧
    gt (upHeap s key).heap 0 = gt s.heap 0 := by
  rw [upHeap_heap, upHeap_nodes]
  obtain ⟨o1, o2, o3, o4, _⟩ := upLoop_spec key s.heap s.nodes key (gt s.heap key).weight h2
    (Nat.le_refl _) hs0 ho hb
  have P0 := PInv.start P key h1 h2 hlo
  obtain ⟨p1, p2, p3⟩ := upLoop_pinv key s.heap s.nodes key (gt s.heap key).weight _ x lo P0 hs0
  have hw : (gt (upLoop key s.heap s.nodes key (gt s.heap key).weight).2.1 (gt s.heap key).index).weight
      = (gt s.heap key).weight := by
    rw [(p2.2 _).2.1]; exact (P.back key h1 h2).2.2.2
  obtain ⟨c1, c2, c3, c4⟩ := p1.close (gt s.heap key).weight hw (hlo key h2)
  refine ⟨by simp [o1], ?_, c1, p2.trans c2, ?_, ?_⟩
  · exact close_hole _ _ _ _ (by omega) o3 o4
  · intro k hk; exact c3 k (by omega)
  · rw [c4, p3]

end Tbx.AHeap
