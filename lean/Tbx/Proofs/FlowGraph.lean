import Tbx.Proofs.FlowSweep
/-
Structural facts about the CSR residual graph of the flow models (core Lean only):
well-formedness `WF`, edge ownership (every edge id lies in the range of exactly one node),
`findEdge` specification, the residual function `rOf g u v` (sum of the capacities of the edges u→v)
and how it changes when one capacity is overwritten.
-/
namespace Tbx.Flow
open Tbx

structure WF (g : Graph) : Prop where
  pos   : 0 < g.first.size
  mono  : ∀ i, i < g.numNodes → gt g.first i ≤ gt g.first (i + 1)
  last  : gt g.first g.numNodes = g.tgt.size
  capsz : g.cap.size = g.tgt.size
  tgtOK : ∀ e, e < g.tgt.size → gt g.tgt e < g.numNodes

/-- edge id `e` belongs to the adjacency range of node `u` -/
def InRange (g : Graph) (u e : Nat) : Prop := g.beginEdges u ≤ e ∧ e < g.beginEdges u + g.deg u

theorem WF.mono_le {g : Graph} (h : WF g) : ∀ i j, i ≤ j → j ≤ g.numNodes → gt g.first i ≤ gt g.first j := by
  intro i j hij hj
  induction j with
  | zero => have : i = 0 := by omega
            subst this; exact Nat.le_refl _
  | succ j ih =>
    by_cases e : i = j + 1
    · subst e; exact Nat.le_refl _
    · have := ih (by omega) (by omega)
      have := h.mono j (by omega)
      omega

theorem WF.end_eq {g : Graph} (h : WF g) (u : Nat) (hu : u < g.numNodes) :
    g.beginEdges u + g.deg u = g.endEdges u := by
  have := h.mono u hu
  unfold Graph.deg Graph.beginEdges Graph.endEdges at *; omega

theorem WF.end_le {g : Graph} (h : WF g) (u : Nat) (hu : u < g.numNodes) : g.endEdges u ≤ g.tgt.size := by
  have := h.mono_le (u + 1) g.numNodes (by omega) (Nat.le_refl _)
  rw [h.last] at this; exact this

theorem WF.inRange_lt {g : Graph} (h : WF g) {u e : Nat} (hu : u < g.numNodes) (hr : InRange g u e) :
    e < g.tgt.size := by
  have := h.end_eq u hu; have := h.end_le u hu
  unfold InRange at hr; omega

/-- an edge id lies in the range of at most one node -/
theorem WF.owner_unique {g : Graph} (h : WF g) {u u' e : Nat} (hu : u < g.numNodes) (hu' : u' < g.numNodes)
    (h1 : InRange g u e) (h2 : InRange g u' e) : u = u' := by
  have e1 := h.end_eq u hu; have e2 := h.end_eq u' hu'
  unfold InRange at h1 h2
  rcases Nat.lt_trichotomy u u' with hlt | heq | hlt
  · exfalso
    have := h.mono_le (u + 1) u' (by omega) (by omega)
    unfold Graph.beginEdges Graph.endEdges at *; omega
  · exact heq
  · exfalso
    have := h.mono_le (u' + 1) u (by omega) (by omega)
    unfold Graph.beginEdges Graph.endEdges at *; omega

/-- nodes past the last one have an empty range -/
theorem WF.deg_zero_of_ge {g : Graph} (h : WF g) (u : Nat) (hu : g.numNodes ≤ u) : g.deg u = 0 := by
  unfold Graph.deg Graph.endEdges Graph.beginEdges
  have hsz : g.first.size = g.numNodes + 1 := by have := h.pos; unfold Graph.numNodes; omega
  rw [gt_of_ge g.first (u + 1) (by omega)]
  show (default : Nat) - _ = 0
  simp

theorem findFrom_spec (g : Graph) (t : Nat) (k : Nat) : ∀ (e x : Nat), g.findFrom t e k = some x →
    e ≤ x ∧ x < e + k ∧ gt g.tgt x = t := by
  induction k with
  | zero => intro e x h; simp [Graph.findFrom] at h
  | succ k ih =>
    intro e x h
    simp only [Graph.findFrom] at h
    split at h
    · cases h; rename_i hh; exact ⟨Nat.le_refl _, by omega, hh⟩
    · obtain ⟨a, b, c⟩ := ih (e + 1) x h
      exact ⟨by omega, by omega, c⟩

theorem findFrom_none (g : Graph) (t : Nat) (k : Nat) : ∀ (e : Nat), g.findFrom t e k = none →
    ∀ x, e ≤ x → x < e + k → gt g.tgt x ≠ t := by
  induction k with
  | zero => intro e _ x h1 h2; omega
  | succ k ih =>
    intro e h x h1 h2
    simp only [Graph.findFrom] at h
    split at h
    · cases h
    · rename_i hne
      by_cases hx : x = e
      · subst hx; exact hne
      · exact ih (e + 1) h x (by omega) (by omega)

theorem findEdge_spec (g : Graph) (s t x : Nat) (h : g.findEdge s t = some x) :
    s < g.numNodes ∧ InRange g s x ∧ gt g.tgt x = t := by
  unfold Graph.findEdge at h
  split at h
  · cases h
  · obtain ⟨a, b, c⟩ := findFrom_spec g t _ _ x h
    exact ⟨by omega, ⟨a, b⟩, c⟩

/-- an edge `s → t` in range is found (possibly an earlier parallel one) -/
theorem findEdge_some_of_edge (g : Graph) (s t e : Nat) (hs : s < g.numNodes) (hr : InRange g s e)
    (ht : gt g.tgt e = t) : ∃ x, g.findEdge s t = some x := by
  unfold Graph.findEdge
  rw [if_neg (by omega)]
  cases hf : g.findFrom t (g.beginEdges s) (g.deg s) with
  | some x => exact ⟨x, rfl⟩
  | none => exact absurd ht (findFrom_none g t _ _ hf e hr.1 hr.2)

/-- `findEdge` only looks at `first` and `tgt` -/
theorem findEdge_cap_irrel (g : Graph) (c : Array Int) (s t : Nat) :
    ({ g with cap := c } : Graph).findEdge s t = g.findEdge s t := by
  have hf : ∀ k e, ({ g with cap := c } : Graph).findFrom t e k = g.findFrom t e k := by
    intro k; induction k with
    | zero => intro e; rfl
    | succ k ih => intro e; simp only [Graph.findFrom]; rw [ih]
  unfold Graph.findEdge
  show (if s ≥ g.numNodes then none
        else ({ g with cap := c } : Graph).findFrom t (g.beginEdges s) (g.deg s)) = _
  rw [hf]

/-! ### the residual function of a CSR graph -/

/-- sum of the capacities of the edges with head `v` among the `k` edges starting at `e` -/
def rowSum (g : Graph) (v : Nat) : Nat → Nat → Int
  | _, 0 => 0
  | e, k + 1 => (if gt g.tgt e = v then gt g.cap e else 0) + rowSum g v (e + 1) k

/-- residual capacity on the node pair (u,v): sum over the (parallel) edges u → v -/
def rOf (g : Graph) (u v : Nat) : Int := rowSum g v (g.beginEdges u) (g.deg u)

theorem rowSum_st (g : Graph) (x : Nat) (val : Int) (hx : x < g.cap.size) (v : Nat) (k : Nat) :
    ∀ e, rowSum { g with cap := st g.cap x val } v e k =
      rowSum g v e k + (if e ≤ x ∧ x < e + k ∧ gt g.tgt x = v then val - gt g.cap x else 0) := by
  induction k with
  | zero => intro e; simp only [rowSum]; rw [if_neg (by omega)]; omega
  | succ k ih =>
    intro e
    simp only [rowSum]
    rw [ih (e + 1)]
    by_cases hex : e = x
    · have h1 : gt (st g.cap x val) e = val := by rw [hex]; exact gt_st_eq _ _ _ hx
      have h2 : ¬ (e + 1 ≤ x ∧ x < e + 1 + k ∧ gt g.tgt x = v) := by omega
      rw [h1, if_neg h2]
      by_cases hv : gt g.tgt e = v
      · have h3 : e ≤ x ∧ x < e + (k + 1) ∧ gt g.tgt x = v := ⟨by omega, by omega, hex ▸ hv⟩
        rw [if_pos hv, if_pos hv, if_pos h3, ← hex]; omega
      · have h3 : ¬ (e ≤ x ∧ x < e + (k + 1) ∧ gt g.tgt x = v) := fun h => hv (hex ▸ h.2.2)
        rw [if_neg hv, if_neg hv, if_neg h3]; omega
    · have h1 : gt (st g.cap x val) e = gt g.cap e := gt_st_ne _ _ _ _ (fun h => hex h.symm)
      rw [h1]
      by_cases hc : e + 1 ≤ x ∧ x < e + 1 + k ∧ gt g.tgt x = v
      · have h3 : e ≤ x ∧ x < e + (k + 1) ∧ gt g.tgt x = v := ⟨by omega, by omega, hc.2.2⟩
        rw [if_pos hc, if_pos h3]; omega
      · have h3 : ¬ (e ≤ x ∧ x < e + (k + 1) ∧ gt g.tgt x = v) :=
          fun h => hc ⟨by omega, by omega, h.2.2⟩
        rw [if_neg hc, if_neg h3]; omega

/-- overwriting the capacity of an edge `a → b` changes exactly the residual of the pair (a,b) -/
theorem rOf_st {g : Graph} (h : WF g) (a b x : Nat) (val : Int) (ha : a < g.numNodes) (hr : InRange g a x)
    (hb : gt g.tgt x = b) (u v : Nat) :
    rOf { g with cap := st g.cap x val } u v =
      rOf g u v + (if u = a ∧ v = b then val - gt g.cap x else 0) := by
  have hx : x < g.cap.size := by rw [h.capsz]; exact h.inRange_lt ha hr
  unfold rOf
  show rowSum { g with cap := st g.cap x val } v (g.beginEdges u) (g.deg u) = _
  rw [rowSum_st g x val hx]
  by_cases hu : u < g.numNodes
  · by_cases hua : u = a
    · subst hua
      by_cases hv : v = b
      · subst hv; rw [if_pos ⟨hr.1, hr.2, hb⟩, if_pos ⟨rfl, rfl⟩]
      · have h1 : ¬ (g.beginEdges u ≤ x ∧ x < g.beginEdges u + g.deg u ∧ gt g.tgt x = v) :=
          fun hh => hv (hb ▸ hh.2.2).symm
        have h2 : ¬ (u = u ∧ v = b) := fun hh => hv hh.2
        rw [if_neg h1, if_neg h2]
    · have h1 : ¬ (g.beginEdges u ≤ x ∧ x < g.beginEdges u + g.deg u ∧ gt g.tgt x = v) :=
        fun hh => hua (h.owner_unique hu ha ⟨hh.1, hh.2.1⟩ hr)
      have h2 : ¬ (u = a ∧ v = b) := fun hh => hua hh.1
      rw [if_neg h1, if_neg h2]
  · have hd := h.deg_zero_of_ge u (by omega)
    have h1 : ¬ (g.beginEdges u ≤ x ∧ x < g.beginEdges u + g.deg u ∧ gt g.tgt x = v) := by
      rw [hd]; omega
    have h2 : ¬ (u = a ∧ v = b) := fun hh => hu (hh.1 ▸ ha)
    rw [if_neg h1, if_neg h2]

theorem rowSum_nonneg (g : Graph) (hnn : ∀ e, 0 ≤ gt g.cap e) (v k : Nat) : ∀ e, 0 ≤ rowSum g v e k := by
  induction k with
  | zero => intro e; simp [rowSum]
  | succ k ih =>
    intro e; simp only [rowSum]
    have := ih (e + 1); have := hnn e
    split <;> omega

theorem rowSum_pos_of_edge (g : Graph) (hnn : ∀ e, 0 ≤ gt g.cap e) (v k : Nat) :
    ∀ e x, e ≤ x → x < e + k → gt g.tgt x = v → 0 < gt g.cap x → 0 < rowSum g v e k := by
  induction k with
  | zero => intro e x h1 h2; omega
  | succ k ih =>
    intro e x h1 h2 h3 h4
    simp only [rowSum]
    have h0 := rowSum_nonneg g hnn v k (e + 1)
    by_cases hx : x = e
    · subst hx; rw [if_pos h3]; omega
    · have := ih (e + 1) x (by omega) (by omega) h3 h4
      have := hnn e
      split <;> omega

theorem rowSum_pos_edge (g : Graph) (v k : Nat) :
    ∀ e, 0 < rowSum g v e k → ∃ x, e ≤ x ∧ x < e + k ∧ gt g.tgt x = v ∧ 0 < gt g.cap x := by
  induction k with
  | zero => intro e h; simp [rowSum] at h
  | succ k ih =>
    intro e h
    simp only [rowSum] at h
    by_cases hc : gt g.tgt e = v ∧ 0 < gt g.cap e
    · exact ⟨e, Nat.le_refl _, by omega, hc.1, hc.2⟩
    · have : 0 < rowSum g v (e + 1) k := by
        split at h
        · rename_i hv
          have : ¬ 0 < gt g.cap e := fun hp => hc ⟨hv, hp⟩
          omega
        · omega
      obtain ⟨x, a, b, c, d⟩ := ih (e + 1) this
      exact ⟨x, by omega, by omega, c, d⟩

/-- with non-negative capacities, the pair residual is positive iff some edge u → v is positive -/
theorem rOf_pos_iff (g : Graph) (hnn : ∀ e, 0 ≤ gt g.cap e) (u v : Nat) : 0 < rOf g u v ↔ PosEdge g u v := by
  unfold rOf PosEdge
  constructor
  · intro h; exact rowSum_pos_edge g v _ _ h
  · rintro ⟨x, a, b, c, d⟩; exact rowSum_pos_of_edge g hnn v _ _ x a b c d

theorem rOf_nonneg (g : Graph) (hnn : ∀ e, 0 ≤ gt g.cap e) (u v : Nat) : 0 ≤ rOf g u v :=
  rowSum_nonneg g hnn v _ _

/-- a single edge's capacity is at most the pair residual -/
theorem cap_le_rowSum (g : Graph) (hnn : ∀ e, 0 ≤ gt g.cap e) (v k : Nat) :
    ∀ e x, e ≤ x → x < e + k → gt g.tgt x = v → gt g.cap x ≤ rowSum g v e k := by
  induction k with
  | zero => intro e x h1 h2; omega
  | succ k ih =>
    intro e x h1 h2 h3
    simp only [rowSum]
    have h0 := rowSum_nonneg g hnn v k (e + 1)
    by_cases hx : x = e
    · subst hx; rw [if_pos h3]; omega
    · have := ih (e + 1) x (by omega) (by omega) h3
      have := hnn e
      split <;> omega

end Tbx.Flow
