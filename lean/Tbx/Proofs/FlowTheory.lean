import Mathlib.Algebra.BigOperators.Group.Finset.Basic
import Mathlib.Algebra.Order.BigOperators.Group.Finset
import Mathlib.Algebra.BigOperators.Fin
import Mathlib.Data.Fintype.BigOperators
import Mathlib.Tactic.Ring
import Mathlib.Tactic.Linarith
import Tbx.Spec.Flow
/-
Flow theory for C01 / C02 (DESIGN.md Appendix A.1 ported, plus the bridge from the executable
list-sum checkers of Spec/Flow.lean to Finset sums).

  IsFlow / value / cutCap / IsMaxFlowValue      -- the meaning of the property
  weak_duality, certificate, min_cut_saturated  -- max-flow = min-cut in the direction a checker needs
  ResInv, resFlow, Closed, Reach                -- residual graphs as certificates
  certOK_sound, minCutOK_sound                  -- the executable checkers imply the Prop-level Spec
-/
open Finset
namespace Tbx.FlowTheory
variable {n : Nat}

structure IsFlow (c : Fin n → Fin n → ℤ) (s t : Fin n) (f : Fin n → Fin n → ℤ) : Prop where
  anti : ∀ u v, f u v = - f v u
  cap  : ∀ u v, f u v ≤ c u v
  cons : ∀ u, u ≠ s → u ≠ t → ∑ v, f u v = 0

def value (f : Fin n → Fin n → ℤ) (s : Fin n) : ℤ := ∑ v, f s v
def cutCap (c : Fin n → Fin n → ℤ) (S : Finset (Fin n)) : ℤ := ∑ u ∈ S, ∑ v ∈ Sᶜ, c u v
def cutFlow (f : Fin n → Fin n → ℤ) (S : Finset (Fin n)) : ℤ := ∑ u ∈ S, ∑ v ∈ Sᶜ, f u v

/-- `x` is the maximum s-t flow value: some flow has value `x` and no flow has a larger one -/
def IsMaxFlowValue (c : Fin n → Fin n → ℤ) (s t : Fin n) (x : ℤ) : Prop :=
  (∃ f, IsFlow c s t f ∧ value f s = x) ∧ ∀ f', IsFlow c s t f' → value f' s ≤ x

theorem antisymm_sum_zero (f : Fin n → Fin n → ℤ) (h : ∀ u v, f u v = - f v u) (S : Finset (Fin n)) :
    ∑ u ∈ S, ∑ v ∈ S, f u v = 0 := by
  have h1 : ∑ u ∈ S, ∑ v ∈ S, f u v = ∑ u ∈ S, ∑ v ∈ S, f v u := Finset.sum_comm
  have h2 : ∑ u ∈ S, ∑ v ∈ S, f v u = - ∑ u ∈ S, ∑ v ∈ S, f u v := by
    rw [← Finset.sum_neg_distrib]; apply Finset.sum_congr rfl; intro u _
    rw [← Finset.sum_neg_distrib]; apply Finset.sum_congr rfl; intro v _
    rw [h v u]
  linarith

/-- the value of a flow equals the net flow across any separating cut -/
theorem value_eq_cutFlow {c : Fin n → Fin n → ℤ} {s t : Fin n} {f} (hf : IsFlow c s t f)
    (S : Finset (Fin n)) (hs : s ∈ S) (ht : t ∉ S) : value f s = cutFlow f S := by
  have h1 : ∑ u ∈ S, ∑ v, f u v = value f s := by
    rw [Finset.sum_eq_single_of_mem s hs]
    · rfl
    · intro u hu hne
      exact hf.cons u hne (fun h => ht (h ▸ hu))
  have h2 : ∀ u, ∑ v, f u v = ∑ v ∈ S, f u v + ∑ v ∈ Sᶜ, f u v := by
    intro u; rw [Finset.sum_add_sum_compl]
  have h3 : ∑ u ∈ S, ∑ v, f u v = ∑ u ∈ S, ∑ v ∈ S, f u v + ∑ u ∈ S, ∑ v ∈ Sᶜ, f u v := by
    rw [← Finset.sum_add_distrib]; apply Finset.sum_congr rfl; intro u _; exact h2 u
  rw [antisymm_sum_zero f hf.anti S] at h3
  unfold cutFlow; linarith

theorem weak_duality {c : Fin n → Fin n → ℤ} {s t : Fin n} {f} (hf : IsFlow c s t f)
    (S : Finset (Fin n)) (hs : s ∈ S) (ht : t ∉ S) : value f s ≤ cutCap c S := by
  rw [value_eq_cutFlow hf S hs ht]
  unfold cutFlow cutCap
  apply Finset.sum_le_sum; intro u _; apply Finset.sum_le_sum; intro v _; exact hf.cap u v

/-- max-flow/min-cut certificate: a flow that saturates every edge leaving a separating set -/
theorem certificate {c : Fin n → Fin n → ℤ} {s t : Fin n} {f} (hf : IsFlow c s t f)
    (S : Finset (Fin n)) (hs : s ∈ S) (ht : t ∉ S)
    (hsat : ∀ u ∈ S, ∀ v ∈ Sᶜ, f u v = c u v) :
    value f s = cutCap c S ∧
    (∀ f', IsFlow c s t f' → value f' s ≤ value f s) ∧
    (∀ S' : Finset (Fin n), s ∈ S' → t ∉ S' → cutCap c S ≤ cutCap c S') := by
  have hv : value f s = cutCap c S := by
    rw [value_eq_cutFlow hf S hs ht]; unfold cutFlow cutCap
    apply Finset.sum_congr rfl; intro u hu; apply Finset.sum_congr rfl; intro v hv; exact hsat u hu v hv
  refine ⟨hv, ?_, ?_⟩
  · intro f' hf'; rw [hv]; exact weak_duality hf' S hs ht
  · intro S' hs' ht'; rw [← hv]; exact weak_duality hf S' hs' ht'

/-- if S' is any minimum cut (capacity = value of a flow) then every edge leaving S' is saturated -/
theorem min_cut_saturated {c : Fin n → Fin n → ℤ} {s t : Fin n} {f} (hf : IsFlow c s t f)
    (S' : Finset (Fin n)) (hs : s ∈ S') (ht : t ∉ S') (heq : cutCap c S' = value f s) :
    ∀ u ∈ S', ∀ v ∈ S'ᶜ, f u v = c u v := by
  have hcf : cutFlow f S' = cutCap c S' := by rw [heq, value_eq_cutFlow hf S' hs ht]
  unfold cutFlow cutCap at hcf
  have hle : ∀ u ∈ S', ∑ v ∈ S'ᶜ, f u v ≤ ∑ v ∈ S'ᶜ, c u v :=
    fun u _ => Finset.sum_le_sum (fun v _ => hf.cap u v)
  have h1 := (Finset.sum_eq_sum_iff_of_le hle).mp hcf
  intro u hu v hv
  have h2 := (Finset.sum_eq_sum_iff_of_le (fun v _ => hf.cap u v)).mp (h1 u hu)
  exact h2 v hv

/-! ### residual graphs as certificates -/

/-- state invariant of every solver: residual capacities are non-negative and the two directions of
    a node pair always add up to the two input capacities -/
structure ResInv (c r : Fin n → Fin n → ℤ) : Prop where
  nonneg : ∀ u v, 0 ≤ r u v
  pair   : ∀ u v, r u v + r v u = c u v + c v u

/-- the net flow a residual graph encodes -/
def resFlow (c r : Fin n → Fin n → ℤ) : Fin n → Fin n → ℤ := fun u v => c u v - r u v

def Conserved (c r : Fin n → Fin n → ℤ) (s t : Fin n) : Prop :=
  ∀ u, u ≠ s → u ≠ t → ∑ v, resFlow c r u v = 0

theorem resFlow_isFlow {c r : Fin n → Fin n → ℤ} {s t : Fin n} (h : ResInv c r)
    (hc : Conserved c r s t) : IsFlow c s t (resFlow c r) where
  anti u v := by unfold resFlow; have := h.pair u v; linarith
  cap u v := by unfold resFlow; have := h.nonneg u v; linarith
  cons := hc

/-- no residual edge of positive capacity leaves S -/
def Closed (r : Fin n → Fin n → ℤ) (S : Finset (Fin n)) : Prop :=
  ∀ u ∈ S, ∀ v, v ∉ S → r u v ≤ 0

/-- reachability through residual edges of positive capacity -/
inductive Reach (r : Fin n → Fin n → ℤ) (s : Fin n) : Fin n → Prop where
  | refl : Reach r s s
  | step {u v : Fin n} : Reach r s u → 0 < r u v → Reach r s v

theorem reach_subset_closed {r : Fin n → Fin n → ℤ} {s : Fin n} (S : Finset (Fin n)) (hs : s ∈ S)
    (hcl : Closed r S) {v : Fin n} (hv : Reach r s v) : v ∈ S := by
  induction hv with
  | refl => exact hs
  | @step u v _ hpos ih =>
    by_contra hn
    have := hcl u ih v hn
    omega

/-- a residual graph satisfying the invariant and conservation, together with a separating set that
    no positive residual edge leaves, certifies its value as the maximum and the set as a minimum cut -/
theorem closed_certificate {c r : Fin n → Fin n → ℤ} {s t : Fin n} (h : ResInv c r)
    (hc : Conserved c r s t) (S : Finset (Fin n)) (hs : s ∈ S) (ht : t ∉ S) (hcl : Closed r S) :
    IsMaxFlowValue c s t (value (resFlow c r) s) ∧ value (resFlow c r) s = cutCap c S ∧
    (∀ S' : Finset (Fin n), s ∈ S' → t ∉ S' → cutCap c S ≤ cutCap c S') := by
  have hf := resFlow_isFlow h hc
  have hsat : ∀ u ∈ S, ∀ v ∈ Sᶜ, resFlow c r u v = c u v := by
    intro u hu v hv
    have h1 := hcl u hu v (Finset.mem_compl.mp hv)
    have h2 := h.nonneg u v
    unfold resFlow; omega
  obtain ⟨a, b, d⟩ := certificate hf S hs ht hsat
  exact ⟨⟨⟨_, hf, rfl⟩, b⟩, a, d⟩

/-- the set reachable from s is closed -/
theorem reach_closed {r : Fin n → Fin n → ℤ} {s : Fin n} (A : Finset (Fin n))
    (hA : ∀ v, v ∈ A ↔ Reach r s v) : Closed r A := by
  intro u hu v hv
  by_contra hpos
  exact hv ((hA v).mpr (Reach.step ((hA u).mp hu) (by omega)))

/-- C02: the positive-residual closure of s after a finished run is a minimum cut -/
theorem closure_is_min_cut {c r : Fin n → Fin n → ℤ} {s t : Fin n} (h : ResInv c r)
    (hc : Conserved c r s t) (A : Finset (Fin n)) (hA : ∀ v, v ∈ A ↔ Reach r s v) (ht : t ∉ A) :
    s ∈ A ∧ t ∉ A ∧ cutCap c A = value (resFlow c r) s ∧
    IsMaxFlowValue c s t (value (resFlow c r) s) ∧
    (∀ S' : Finset (Fin n), s ∈ S' → t ∉ S' → cutCap c A ≤ cutCap c S') := by
  have hs : s ∈ A := (hA s).mpr Reach.refl
  obtain ⟨a, b, d⟩ := closed_certificate h hc A hs ht (reach_closed A hA)
  exact ⟨hs, ht, b.symm, a, d⟩

/-- C02: the closure is contained in the source side of every minimum cut -/
theorem closure_minimal {c r : Fin n → Fin n → ℤ} {s t : Fin n} (h : ResInv c r)
    (hc : Conserved c r s t) (A : Finset (Fin n)) (hA : ∀ v, v ∈ A ↔ Reach r s v)
    (S' : Finset (Fin n)) (hs : s ∈ S') (ht : t ∉ S') (heq : cutCap c S' = value (resFlow c r) s) :
    A ⊆ S' := by
  have hf := resFlow_isFlow h hc
  have hsat := min_cut_saturated hf S' hs ht heq
  have hcl : Closed r S' := by
    intro u hu v hv
    have := hsat u hu v (Finset.mem_compl.mpr hv)
    unfold resFlow at this; omega
  intro v hv
  exact reach_subset_closed S' hs hcl ((hA v).mp hv)

/-- C02: the closure depends on (c,s,t) only, not on which maximum flow the solver ended with -/
theorem closure_solver_independent {c r1 r2 : Fin n → Fin n → ℤ} {s t : Fin n}
    (h1 : ResInv c r1) (hc1 : Conserved c r1 s t) (h2 : ResInv c r2) (hc2 : Conserved c r2 s t)
    (A1 A2 : Finset (Fin n)) (hA1 : ∀ v, v ∈ A1 ↔ Reach r1 s v) (hA2 : ∀ v, v ∈ A2 ↔ Reach r2 s v)
    (ht1 : t ∉ A1) (ht2 : t ∉ A2) : A1 = A2 := by
  obtain ⟨s1, _, e1, m1, _⟩ := closure_is_min_cut h1 hc1 A1 hA1 ht1
  obtain ⟨s2, _, e2, m2, _⟩ := closure_is_min_cut h2 hc2 A2 hA2 ht2
  have hv : value (resFlow c r1) s = value (resFlow c r2) s := by
    have a := m1.2 _ (resFlow_isFlow h2 hc2)
    have b := m2.2 _ (resFlow_isFlow h1 hc1)
    omega
  apply Finset.Subset.antisymm
  · exact closure_minimal h1 hc1 A1 hA1 A2 s2 ht2 (by rw [e2, hv])
  · exact closure_minimal h2 hc2 A2 hA2 A1 s1 ht1 (by rw [e1, hv])

/-- the maximum flow value is unique -/
theorem maxFlowValue_unique {c : Fin n → Fin n → ℤ} {s t : Fin n} {x y : ℤ}
    (hx : IsMaxFlowValue c s t x) (hy : IsMaxFlowValue c s t y) : x = y := by
  obtain ⟨⟨f, hf, rfl⟩, mx⟩ := hx
  obtain ⟨⟨g, hg, rfl⟩, my⟩ := hy
  have := mx g hg; have := my f hf; omega

/-! ### bridge: list sums of the executable checker = Finset sums -/
open Tbx.FlowSpec

/-- the function on `Fin n` a list of (u,v,cap) entries denotes -/
def cF (es : List E) (n : Nat) : Fin n → Fin n → ℤ := fun u v => capOf es u.val v.val

theorem list_range_sum (n : Nat) (g : Nat → ℤ) :
    ((List.range n).map g).sum = ∑ i ∈ Finset.range n, g i := by
  induction n with
  | zero => simp
  | succ k ih => rw [List.range_succ, List.map_append, List.sum_append, ih, Finset.sum_range_succ]; simp

theorem sumTo_eq (n : Nat) (g : Nat → ℤ) : sumTo n g = ∑ i : Fin n, g i.val := by
  unfold sumTo; rw [list_range_sum, Fin.sum_univ_eq_sum_range]

theorem allTo_iff (n : Nat) (p : Nat → Bool) : allTo n p = true ↔ ∀ i, i < n → p i = true := by
  unfold allTo; simp [List.all_eq_true, List.mem_range]

theorem capOf_nonneg (res : List E) (h : nonnegAll res = true) (u v : Nat) : 0 ≤ capOf res u v := by
  unfold capOf
  induction res with
  | nil => simp
  | cons e es ih =>
    simp only [nonnegAll, List.all_cons, Bool.and_eq_true, decide_eq_true_eq] at h
    simp only [List.map_cons, List.sum_cons]
    have := ih (by simpa [nonnegAll] using h.2)
    split <;> omega

/-- a positive entry makes the merged capacity positive (given all entries are non-negative) -/
theorem capOf_pos (res : List E) (h : nonnegAll res = true) (e : E) (he : e ∈ res) (hp : 0 < e.2.2) :
    0 < capOf res e.1 e.2.1 := by
  induction res with
  | nil => cases he
  | cons x xs ih =>
    simp only [nonnegAll, List.all_cons, Bool.and_eq_true, decide_eq_true_eq] at h
    have hx : nonnegAll xs = true := by simpa [nonnegAll] using h.2
    have h0 := capOf_nonneg xs hx e.1 e.2.1
    unfold capOf at *
    simp only [List.map_cons, List.sum_cons]
    rcases List.mem_cons.mp he with rfl | hmem
    · simp; omega
    · have := ih hx hmem
      split <;> omega

/-- if every entry u→v has capacity ≤ 0 the merged capacity is ≤ 0 -/
theorem capOf_nonpos (res : List E) (u v : Nat)
    (h : ∀ e ∈ res, e.1 = u → e.2.1 = v → e.2.2 ≤ 0) : capOf res u v ≤ 0 := by
  unfold capOf
  induction res with
  | nil => simp
  | cons x xs ih =>
    simp only [List.map_cons, List.sum_cons]
    have := ih (fun e he => h e (List.mem_cons_of_mem _ he))
    have hx := h x List.mem_cons_self
    split
    · rename_i hc; have := hx hc.1 hc.2; omega
    · omega

theorem mem_closureL_self (n : Nat) (res : List E) (s : Nat) (k : Nat) : s ∈ closureL n res s k := by
  induction k with
  | zero => simp [closureL]
  | succ k ih => simp only [closureL, grow, List.mem_append]; exact Or.inl ih

/-- everything the executable closure lists is reachable -/
theorem closureL_reach (n : Nat) (res : List E) (s : Nat) (hs : s < n) (hnn : nonnegAll res = true)
    (k : Nat) : ∀ v ∈ closureL n res s k, ∃ h : v < n, Reach (cF res n) ⟨s, hs⟩ ⟨v, h⟩ := by
  induction k with
  | zero =>
    intro v hv
    simp only [closureL, List.mem_singleton] at hv
    subst hv; exact ⟨hs, Reach.refl⟩
  | succ k ih =>
    intro v hv
    simp only [closureL, grow, List.mem_append, List.mem_map, List.mem_filter, Bool.and_eq_true,
      decide_eq_true_eq, List.contains_iff_mem] at hv
    rcases hv with hv | ⟨e, ⟨he, ⟨hpos, hin⟩, hlt⟩, rfl⟩
    · exact ih v hv
    · obtain ⟨hu, hr⟩ := ih e.1 hin
      refine ⟨hlt, Reach.step hr ?_⟩
      exact capOf_pos res hnn e he hpos

theorem closedUnder_closed (n : Nat) (res : List E) (inS : Nat → Bool) (S : Finset (Fin n))
    (hS : ∀ v : Fin n, v ∈ S ↔ inS v.val = true) (h : closedUnder res inS = true) :
    Closed (cF res n) S := by
  intro u hu v hv
  apply capOf_nonpos
  intro e he h1 h2
  simp only [closedUnder, List.all_eq_true, Bool.or_eq_true, Bool.not_eq_eq_eq_not, Bool.not_true,
    decide_eq_true_eq] at h
  have hu' := (hS u).mp hu
  have hv' : inS v.val = false := by
    cases hb : inS v.val
    · rfl
    · exact absurd ((hS v).mpr hb) hv
  rcases h e he with (h3 | h3) | h3
  · rw [h1, hu'] at h3; cases h3
  · rw [h2, hv'] at h3; cases h3
  · exact h3

/-- the parts of `certOK` that do not mention a cut give the invariant, conservation and the value -/
theorem cert_parts (es res : List E) (s t : Nat) (n : Nat) (hs : s < n) (ht : t < n)
    (hnn : nonnegAll res = true) (hp : pairOK n (capOf es) (capOf res) = true)
    (hcons : conservedOK n (capOf es) (capOf res) s t = true) :
    ResInv (cF es n) (cF res n) ∧ Conserved (cF es n) (cF res n) ⟨s, hs⟩ ⟨t, ht⟩ ∧
    value (resFlow (cF es n) (cF res n)) ⟨s, hs⟩ = valueOf n (capOf es) (capOf res) s := by
  refine ⟨⟨fun u v => capOf_nonneg res hnn _ _, ?_⟩, ?_, ?_⟩
  · intro u v
    have := (allTo_iff n _).mp hp u.val u.isLt
    have := (allTo_iff n _).mp this v.val v.isLt
    simpa [cF] using this
  · intro u hus hut
    have := (allTo_iff n _).mp hcons u.val u.isLt
    simp only [Bool.or_eq_true, beq_iff_eq, decide_eq_true_eq] at this
    rcases this with (h1 | h1) | h1
    · exact absurd (Fin.ext h1) hus
    · exact absurd (Fin.ext h1) hut
    · rw [sumTo_eq] at h1; exact h1
  · unfold value valueOf; rw [sumTo_eq]; rfl

/-- **C01 P0**: the executable certificate check implies that `value` is the maximum s-t flow value
    of the merged input capacities -/
theorem certOK_sound (es : List E) (s t : Nat) (res : List E) (x : ℤ)
    (h : certOK es s t res x = true) :
    ∃ (hs : s < nNodes es) (ht : t < nNodes es),
      IsMaxFlowValue (cF es (nNodes es)) ⟨s, hs⟩ ⟨t, ht⟩ x := by
  simp only [certOK, certCore, Bool.and_eq_true, decide_eq_true_eq, Bool.not_eq_eq_eq_not,
    Bool.not_true] at h
  obtain ⟨⟨⟨⟨⟨⟨⟨⟨hs, ht⟩, _hne⟩, hnn⟩, hp⟩, hcons⟩, hval⟩, htn⟩, hcl⟩ := h
  refine ⟨hs, ht, ?_⟩
  obtain ⟨hinv, hc, hv⟩ := cert_parts es res s t (nNodes es) hs ht hnn hp hcons
  let S : Finset (Fin (nNodes es)) :=
    Finset.univ.filter fun v => (closure (nNodes es) res s).contains v.val = true
  have hS : ∀ v : Fin (nNodes es), v ∈ S ↔ (closure (nNodes es) res s).contains v.val = true := by
    intro v; simp [S]
  have hsS : (⟨s, hs⟩ : Fin (nNodes es)) ∈ S := by
    rw [hS]; simp only [List.contains_iff_mem]; exact mem_closureL_self _ _ _ _
  have htS : (⟨t, ht⟩ : Fin (nNodes es)) ∉ S := by
    rw [hS]; show ¬ ((closure (nNodes es) res s).contains t = true)
    rw [htn]; simp
  have hclosed := closedUnder_closed (nNodes es) res _ S hS hcl
  obtain ⟨a, _, _⟩ := closed_certificate hinv hc S hsS htS hclosed
  rw [hval, ← hv]; exact a

/-! ### C02 bridge -/

/-- the set of nodes a bit vector denotes -/
def setOf (n : Nat) (inA : Nat → Bool) : Finset (Fin n) := Finset.univ.filter fun v => inA v.val = true

theorem mem_setOf (n : Nat) (inA : Nat → Bool) (v : Fin n) : v ∈ setOf n inA ↔ inA v.val = true := by
  simp [setOf]

theorem le_maxId (es : List E) (e : E) (he : e ∈ es) : e.1 ≤ maxId es ∧ e.2.1 ≤ maxId es := by
  induction es with
  | nil => cases he
  | cons x xs ih =>
    simp only [maxId, List.foldr_cons]
    rcases List.mem_cons.mp he with rfl | h
    · omega
    · have := ih h; unfold maxId at this; omega

/-- capacity of the input edges leaving A, computed edge by edge, is the cut capacity of the merged
    capacities -/
theorem cutCapL_eq (es : List E) (n : Nat) (hn : ∀ e ∈ es, e.1 < n ∧ e.2.1 < n) (inA : Nat → Bool) :
    cutCapL es inA = cutCap (cF es n) (setOf n inA) := by
  induction es with
  | nil => simp [cutCapL, cutCap, cF, capOf]
  | cons e es ih =>
    have ih' := ih (fun x hx => hn x (List.mem_cons_of_mem _ hx))
    obtain ⟨h1, h2⟩ := hn e List.mem_cons_self
    have hsplit : cutCap (cF (e :: es) n) (setOf n inA) =
        (∑ u ∈ setOf n inA, ∑ v ∈ (setOf n inA)ᶜ, (if e.1 = u.val ∧ e.2.1 = v.val then e.2.2 else 0)) +
        cutCap (cF es n) (setOf n inA) := by
      unfold cutCap cF capOf
      simp only [List.map_cons, List.sum_cons, Finset.sum_add_distrib]
    have hone : (∑ u ∈ setOf n inA, ∑ v ∈ (setOf n inA)ᶜ,
        (if e.1 = u.val ∧ e.2.1 = v.val then e.2.2 else (0:ℤ))) =
        if inA e.1 && !inA e.2.1 then e.2.2 else 0 := by
      by_cases ha : inA e.1 = true
      · have hmem : (⟨e.1, h1⟩ : Fin n) ∈ setOf n inA := (mem_setOf n inA _).mpr ha
        rw [Finset.sum_eq_single_of_mem ⟨e.1, h1⟩ hmem]
        · by_cases hb : inA e.2.1 = true
          · have : (⟨e.2.1, h2⟩ : Fin n) ∉ (setOf n inA)ᶜ := by
              simp [mem_setOf, hb]
            rw [Finset.sum_eq_zero]
            · simp [ha, hb]
            · intro v hv
              split
              · rename_i hc
                exfalso; apply this
                have : v = ⟨e.2.1, h2⟩ := Fin.ext hc.2.symm
                rw [← this]; exact hv
              · rfl
          · have hmem2 : (⟨e.2.1, h2⟩ : Fin n) ∈ (setOf n inA)ᶜ := by
              simp [mem_setOf, hb]
            rw [Finset.sum_eq_single_of_mem ⟨e.2.1, h2⟩ hmem2]
            · simp [ha, hb]
            · intro v _ hne
              split
              · rename_i hc; exact absurd (Fin.ext hc.2.symm) hne
              · rfl
        · intro u _ hne
          apply Finset.sum_eq_zero
          intro v _
          split
          · rename_i hc; exact absurd (Fin.ext hc.1.symm) hne
          · rfl
      · have : inA e.1 = false := by cases h : inA e.1 <;> simp_all
        rw [Finset.sum_eq_zero]
        · simp [this]
        · intro u hu
          apply Finset.sum_eq_zero
          intro v _
          split
          · rename_i hc
            have := (mem_setOf n inA u).mp hu
            rw [← hc.1] at this; simp_all
          · rfl
    rw [hsplit, hone, ← ih']
    simp [cutCapL]

/-- **C02**: what `minCutOK` establishes about the bit vector -/
theorem minCutOK_sound (es : List E) (s t : Nat) (res : List E) (x : ℤ) (bits : List Bool)
    (h : minCutOK es s t res x bits = true) :
    ∃ (hs : s < nNodes es) (ht : t < nNodes es),
      let n := nNodes es
      let c := cF es n
      let A := setOf n (fun v => bits.getD v false)
      IsMaxFlowValue c ⟨s, hs⟩ ⟨t, ht⟩ x ∧
      ⟨s, hs⟩ ∈ A ∧ ⟨t, ht⟩ ∉ A ∧ cutCap c A = x ∧ cutCapL es (fun v => bits.getD v false) = x ∧
      (∀ v, v ∈ A ↔ Reach (cF res n) ⟨s, hs⟩ v) ∧
      (∀ S' : Finset (Fin n), ⟨s, hs⟩ ∈ S' → ⟨t, ht⟩ ∉ S' → cutCap c A ≤ cutCap c S') ∧
      (∀ S' : Finset (Fin n), ⟨s, hs⟩ ∈ S' → ⟨t, ht⟩ ∉ S' → cutCap c S' = x → A ⊆ S') := by
  simp only [minCutOK, cutPart, Bool.and_eq_true, decide_eq_true_eq, Bool.not_eq_eq_eq_not,
    Bool.not_true] at h
  obtain ⟨hcert, ⟨⟨⟨⟨⟨_hlen, hsA⟩, htA⟩, hcut⟩, hcl⟩, hreach⟩⟩ := h
  obtain ⟨hs, ht, hmax⟩ := certOK_sound es s t res x hcert
  refine ⟨hs, ht, ?_⟩
  simp only [certOK, certCore, Bool.and_eq_true, decide_eq_true_eq, Bool.not_eq_eq_eq_not,
    Bool.not_true] at hcert
  obtain ⟨⟨⟨⟨⟨⟨⟨⟨_, _⟩, _hne⟩, hnn⟩, hp⟩, hcons⟩, hval⟩, _htn⟩, _hcl'⟩ := hcert
  obtain ⟨hinv, hc, hv⟩ := cert_parts es res s t (nNodes es) hs ht hnn hp hcons
  intro n c A
  have hsM : (⟨s, hs⟩ : Fin n) ∈ A := (mem_setOf _ _ _).mpr hsA
  have htM : (⟨t, ht⟩ : Fin n) ∉ A := by
    intro hm; have := (mem_setOf _ _ _).mp hm; rw [htA] at this; cases this
  have hclosed : Closed (cF res n) A :=
    closedUnder_closed n res _ A (fun v => mem_setOf _ _ v) hcl
  have hA : ∀ v, v ∈ A ↔ Reach (cF res n) ⟨s, hs⟩ v := by
    intro v
    constructor
    · intro hm
      have hb := (mem_setOf _ _ _).mp hm
      have := (allTo_iff _ _).mp hreach v.val v.isLt
      simp only [Bool.or_eq_true, Bool.not_eq_eq_eq_not, Bool.not_true, List.contains_iff_mem] at this
      rcases this with h1 | h1
      · rw [h1] at hb; cases hb
      · obtain ⟨_, hr⟩ := closureL_reach (nNodes es) res s hs hnn _ v.val h1
        exact hr
    · intro hr; exact reach_subset_closed A hsM hclosed hr
  obtain ⟨_, _, e1, _, m1⟩ := closure_is_min_cut hinv hc A hA htM
  have hxv : value (resFlow c (cF res n)) ⟨s, hs⟩ = x := by rw [hval]; exact hv
  refine ⟨hmax, hsM, htM, by rw [e1, hxv], hcut, hA, m1, ?_⟩
  intro S' hs' ht' heq
  exact closure_minimal hinv hc A hA S' hs' ht' (by rw [heq, hxv])

/-! ### the tabulated checker the judge runs equals the reference checker -/

theorem allTo_congr (n : Nat) (p q : Nat → Bool) (h : ∀ i, i < n → p i = q i) : allTo n p = allTo n q := by
  unfold allTo
  rw [Bool.eq_iff_iff]
  simp only [List.all_eq_true, List.mem_range]
  constructor
  · intro a i hi; rw [← h i hi]; exact a i hi
  · intro a i hi; rw [h i hi]; exact a i hi

theorem sumTo_congr (n : Nat) (f g : Nat → ℤ) (h : ∀ i, i < n → f i = g i) : sumTo n f = sumTo n g := by
  unfold sumTo
  congr 1
  apply List.map_congr_left
  intro i hi; exact h i (List.mem_range.mp hi)

theorem certCore_congr (n : Nat) (c c' r r' : Nat → Nat → ℤ) (s t : Nat) (res : List E) (x : ℤ)
    (hc : ∀ u v, u < n → v < n → c u v = c' u v) (hr : ∀ u v, u < n → v < n → r u v = r' u v) :
    certCore n c r s t res x = certCore n c' r' s t res x := by
  by_cases hs : s < n
  · have h1 : pairOK n c r = pairOK n c' r' := by
      unfold pairOK
      apply allTo_congr; intro u hu; apply allTo_congr; intro v hv
      rw [hc u v hu hv, hc v u hv hu, hr u v hu hv, hr v u hv hu]
    have h2 : conservedOK n c r s t = conservedOK n c' r' s t := by
      unfold conservedOK
      apply allTo_congr; intro u hu
      rw [sumTo_congr n (fun v => c u v - r u v) (fun v => c' u v - r' u v)
        (fun v hv => by rw [hc u v hu hv, hr u v hu hv])]
    have h3 : valueOf n c r s = valueOf n c' r' s := by
      unfold valueOf
      exact sumTo_congr n _ _ (fun v hv => by rw [hc s v hs hv, hr s v hs hv])
    simp only [certCore, h1, h2, h3]
  · simp [certCore, hs]

theorem idx_inj (n a b u v : Nat) (hb : b < n) (hv : v < n) (h : a * n + b = u * n + v) : a = u ∧ b = v := by
  have h1 : (a * n + b) / n = a := by
    rw [Nat.mul_comm, Nat.mul_add_div (by omega), Nat.div_eq_of_lt hb]; rfl
  have h2 : (u * n + v) / n = u := by
    rw [Nat.mul_comm, Nat.mul_add_div (by omega), Nat.div_eq_of_lt hv]; rfl
  have hau : a = u := by rw [← h1, ← h2, h]
  subst hau
  exact ⟨rfl, by omega⟩

theorem look_fold (n : Nat) (es : List E) (M : Array ℤ) (hM : M.size = n * n) (u v : Nat)
    (hu : u < n) (hv : v < n) :
    look n (es.foldl (fun M e =>
      if e.1 < n ∧ e.2.1 < n then st M (e.1 * n + e.2.1) (gt M (e.1 * n + e.2.1) + e.2.2) else M) M) u v
    = look n M u v + capOf es u v := by
  induction es generalizing M with
  | nil => simp [capOf]
  | cons e es ih =>
    simp only [List.foldl_cons]
    have hcap : capOf (e :: es) u v = (if e.1 = u ∧ e.2.1 = v then e.2.2 else 0) + capOf es u v := by
      simp [capOf]
    rw [hcap]
    by_cases hin : e.1 < n ∧ e.2.1 < n
    · rw [if_pos hin, ih _ (by simp [hM])]
      have hidx : e.1 * n + e.2.1 < M.size := by
        rw [hM]
        calc e.1 * n + e.2.1 < e.1 * n + n := by omega
          _ = (e.1 + 1) * n := by rw [Nat.add_mul]; omega
          _ ≤ n * n := by rw [Nat.mul_comm]; exact Nat.mul_le_mul_left n (by omega)
      unfold look
      rw [gt_st]
      by_cases heq : e.1 * n + e.2.1 = u * n + v
      · obtain ⟨h1, h2⟩ := idx_inj n _ _ _ _ hin.2 hv heq
        rw [if_pos ⟨heq, hidx⟩, if_pos ⟨h1, h2⟩, heq]; omega
      · have : ¬ (e.1 = u ∧ e.2.1 = v) := by
          rintro ⟨h1, h2⟩; apply heq; rw [h1, h2]
        rw [if_neg (fun h => heq h.1), if_neg this]; omega
    · rw [if_neg hin, ih _ hM]
      have : ¬ (e.1 = u ∧ e.2.1 = v) := by
        rintro ⟨h1, h2⟩; apply hin; rw [h1, h2]; exact ⟨hu, hv⟩
      rw [if_neg this]; omega

theorem look_matOf (n : Nat) (es : List E) (u v : Nat) (hu : u < n) (hv : v < n) :
    look n (matOf n es) u v = capOf es u v := by
  unfold matOf
  rw [look_fold n es _ (by simp) u v hu hv]
  have : look n (Array.replicate (n * n) (0 : ℤ)) u v = 0 := by
    unfold look gt; simp only [Array.getD_eq_getD_getElem?, Array.getElem?_replicate]
    split <;> rfl
  rw [this]; omega

/-- the judge's checker is the reference checker -/
theorem certFast_eq (es : List E) (s t : Nat) (res : List E) (x : ℤ) :
    certFast es s t res x = certOK es s t res x := by
  unfold certFast certOK
  exact certCore_congr _ _ _ _ _ s t res x (fun u v hu hv => look_matOf _ es u v hu hv)
    (fun u v hu hv => look_matOf _ res u v hu hv)

theorem minCutFast_eq (es : List E) (s t : Nat) (res : List E) (x : ℤ) (bits : List Bool) :
    minCutFast es s t res x bits = minCutOK es s t res x bits := by
  unfold minCutFast minCutOK; rw [certFast_eq]

end Tbx.FlowTheory
