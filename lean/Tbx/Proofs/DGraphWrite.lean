import Tbx.Proofs.DGraphBasic
/- Invariant preservation and refinement for the final block of `insert_edge` (`writeEdge`). -/
namespace Tbx.DG
open Tbx
open Tbx.SG (InEdge EEntry maxId)

/-! ### the final block of insert_edge -/

theorem writeEdge_shape (g g' : Graph) (s t : Nat) (d : Int) (h : writeEdge g s t d = some g') :
    s < g.nodes.size ∧ (gt g.nodes s).first + (gt g.nodes s).count < g.edges.size ∧
    g'.nodes = st g.nodes s ⟨(gt g.nodes s).first, (gt g.nodes s).count + 1⟩ ∧
    g'.edges = st g.edges ((gt g.nodes s).first + (gt g.nodes s).count) ⟨t, d⟩ ∧
    g'.numNodes = g.numNodes ∧ g'.numEdges = g.numEdges + 1 := by
  unfold writeEdge at h
  simp only at h
  split at h
  · cases h
  · rename_i hc
    cases h
    exact ⟨by omega, by omega, rfl, rfl, rfl, rfl⟩

theorem writeEdge_isSome (g : Graph) (s t : Nat) (d : Int) (hs : s < g.nodes.size)
    (hfree : (gt g.nodes s).first + (gt g.nodes s).count < g.edges.size) : (writeEdge g s t d).isSome := by
  unfold writeEdge
  simp only
  rw [if_neg (by omega)]; rfl

theorem writeEdge_inv (g g' : Graph) (s t : Nat) (d : Int) (hI : Inv g) (hs : s < g.numNodes) (ht : t ≠ maxId)
    (hsp : (gt g.edges ((gt g.nodes s).first + (gt g.nodes s).count)).tgt = maxId)
    (h : writeEdge g s t d = some g') :
    Inv g' ∧ g'.numNodes = g.numNodes ∧ g'.numEdges = g.numEdges + 1 ∧
    adjM g' s = adjM g s ++ [(t, d)] ∧ (∀ v, v ≠ s → adjM g' v = adjM g v) := by
  obtain ⟨hsn, hfree, hn, he, hnn, hne⟩ := writeEdge_shape g g' s t d h
  generalize hF : (gt g.nodes s).first = F at *
  generalize hC : (gt g.nodes s).count = C at *
  have gn : ∀ v, gt g'.nodes v = if v = s then ⟨F, C + 1⟩ else gt g.nodes v := by
    intro v; rw [hn, gt_st]
    by_cases c : s = v
    · subst c; simp [hsn]
    · have : ¬ v = s := fun h => c h.symm
      simp [c, this]
  have ge : ∀ e, gt g'.edges e = if e = F + C then ⟨t, d⟩ else gt g.edges e := by
    intro e; rw [he, gt_st]
    by_cases c : F + C = e
    · subst c; simp [hfree]
    · have : ¬ e = F + C := fun h => c h.symm
      simp [c, this]
  have ow_ne : ∀ v e, v ≠ s → (owns g' v e ↔ owns g v e) := by
    intro v e hv; unfold owns; rw [gn, if_neg hv]
  have ow_s : ∀ e, owns g' s e ↔ (owns g s e ∨ e = F + C) := by
    intro e; unfold owns; rw [gn, if_pos rfl, hF, hC]; simp only; omega
  have nospare : ∀ v, ¬ owns g v (F + C) := fun v ho => hI.used v _ ho hsp
  refine ⟨⟨?_, ?_, ?_, ?_, ?_, ?_, ?_⟩, hnn, hne, ?_, ?_⟩
  · rw [hn, hnn]; simp; exact hI.size
  · intro v hv
    rw [hn] at hv; simp only [size_st] at hv
    rw [he, size_st, gn]
    by_cases c : v = s
    · rw [if_pos c]; simp only; omega
    · rw [if_neg c]; exact hI.bound v hv
  · intro v hv
    rw [hnn] at hv
    rw [gn, if_neg (by omega)]; exact hI.extra v hv
  · intro u v e h1 h2
    by_cases cu : u = s <;> by_cases cv : v = s
    · omega
    · subst cu
      rw [ow_s] at h1; rw [ow_ne v e cv] at h2
      rcases h1 with h1 | h1
      · exact hI.disj _ _ e h1 h2
      · subst h1; exact absurd h2 (nospare v)
    · subst cv
      rw [ow_s] at h2; rw [ow_ne u e cu] at h1
      rcases h2 with h2 | h2
      · exact hI.disj _ _ e h1 h2
      · subst h2; exact absurd h1 (nospare u)
    · rw [ow_ne u e cu] at h1; rw [ow_ne v e cv] at h2
      exact hI.disj _ _ e h1 h2
  · intro v e ho
    rw [ge]
    by_cases c : e = F + C
    · rw [if_pos c]; exact ht
    · rw [if_neg c]
      by_cases cv : v = s
      · subst cv
        rw [ow_s] at ho
        rcases ho with ho | ho
        · exact hI.used _ e ho
        · exact absurd ho c
      · rw [ow_ne v e cv] at ho; exact hI.used v e ho
  · intro e hlt hne'
    rw [he, size_st] at hlt
    rw [hnn]
    by_cases c : e = F + C
    · exact ⟨s, hs, (ow_s e).mpr (Or.inr c)⟩
    · rw [ge, if_neg c] at hne'
      obtain ⟨v, hv, ho⟩ := hI.spare e hlt hne'
      refine ⟨v, hv, ?_⟩
      by_cases cv : v = s
      · subst cv; exact (ow_s e).mpr (Or.inl ho)
      · exact (ow_ne v e cv).mpr ho
  · rw [hne, hnn, hI.edges]
    have := sumCounts_update g.nodes g'.nodes g.numNodes s hs (fun v _ hv => by rw [gn, if_neg hv])
    rw [gn, if_pos rfl, hC] at this
    simp only at this
    omega
  · unfold adjM
    rw [hnn, if_pos hs, if_pos hs]
    unfold adjList edgeRange beginEdges outDegree target data
    rw [gn, if_pos rfl, hF, hC]
    simp only
    rw [List.range'_concat, List.map_append]
    congr 1
    · apply List.map_congr_left
      intro e hm
      have := List.mem_range'_1.mp hm
      rw [ge, if_neg (by omega)]
    · simp [ge]
  · intro v hv
    unfold adjM
    rw [hnn]
    split
    · apply adjList_congr
      · rw [gn, if_neg hv]
      · intro e ho
        rw [ge, if_neg]
        intro c; subst c; exact nospare v ho
    · rfl

end Tbx.DG
