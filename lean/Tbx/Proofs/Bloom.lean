import Tbx.Model.Bloom
/-
Bits of the Bloom-filter model only ever get set, and `add` sets exactly the indices `contains` reads
(core Lean only).
-/
namespace Tbx.Bloom
open Tbx

theorem setAll_size (len h1 h2 : Nat) (is : List Nat) (bits : Array Bool) :
    (setAll len h1 h2 is bits).size = bits.size := by
  induction is generalizing bits with
  | nil => rfl
  | cons i is ih => simp only [setAll]; rw [ih, size_st]

theorem setAll_mono (len h1 h2 : Nat) (is : List Nat) (bits : Array Bool) (j : Nat)
    (hj : gt bits j = true) : gt (setAll len h1 h2 is bits) j = true := by
  induction is generalizing bits with
  | nil => exact hj
  | cons i is ih =>
    simp only [setAll]
    apply ih
    rw [gt_st]
    split
    · rfl
    · exact hj

theorem setAll_sets (len h1 h2 : Nat) (is : List Nat) (bits : Array Bool) (i : Nat) (hi : i ∈ is)
    (hlt : index len h1 h2 i < bits.size) :
    gt (setAll len h1 h2 is bits) (index len h1 h2 i) = true := by
  induction is generalizing bits with
  | nil => cases hi
  | cons a is ih =>
    simp only [setAll]
    rcases List.mem_cons.mp hi with e | hm
    · subst e
      apply setAll_mono
      exact gt_st_eq _ _ _ hlt
    · exact ih _ hm (by rw [size_st]; exact hlt)

theorem add_size (f : Filter) (h1 h2 : Nat) : (add f h1 h2).bits.size = f.bits.size := by
  simp only [add]; exact setAll_size _ _ _ _ _

theorem add_k (f : Filter) (h1 h2 : Nat) : (add f h1 h2).k = f.k := rfl

theorem index_lt (len h1 h2 i : Nat) (h : 0 < len) : index len h1 h2 i < len := Nat.mod_lt _ h

/-- right after `add`, `contains` answers yes -/
theorem add_contains (f : Filter) (h1 h2 : Nat) (hlen : 0 < f.bits.size) :
    contains (add f h1 h2) h1 h2 = true := by
  simp only [contains, List.all_eq_true, add_size, add_k]
  intro i hi
  simp only [add]
  exact setAll_sets _ _ _ _ _ i hi (index_lt _ _ _ _ hlen)

/-- a later `add` of anything keeps a yes -/
theorem contains_mono (f : Filter) (g1 g2 h1 h2 : Nat) (hc : contains f h1 h2 = true) :
    contains (add f g1 g2) h1 h2 = true := by
  simp only [contains, List.all_eq_true, add_size, add_k] at hc ⊢
  intro i hi
  simp only [add]
  exact setAll_mono _ _ _ _ _ _ (hc i hi)

/-- a sequence of `add`s -/
def addAll (f : Filter) : List (Nat × Nat) → Filter
  | [] => f
  | (g1, g2) :: gs => addAll (add f g1 g2) gs

theorem addAll_size (f : Filter) (gs : List (Nat × Nat)) : (addAll f gs).bits.size = f.bits.size := by
  induction gs generalizing f with
  | nil => rfl
  | cons g gs ih => obtain ⟨g1, g2⟩ := g; simp only [addAll]; rw [ih, add_size]

theorem addAll_mono (f : Filter) (gs : List (Nat × Nat)) (h1 h2 : Nat) (hc : contains f h1 h2 = true) :
    contains (addAll f gs) h1 h2 = true := by
  induction gs generalizing f with
  | nil => exact hc
  | cons g gs ih => obtain ⟨g1, g2⟩ := g; exact ih _ (contains_mono f g1 g2 h1 h2 hc)

theorem init_size (len k : Nat) : (init len k).bits.size = len := by simp [init]

end Tbx.Bloom
