import Tbx.Proofs.FlowCount
import Tbx.Proofs.FlowDinicBfsSound
/-
Termination part 1 for the Dinic model: `bfs()` returns within the fuel `n + 1`, and when it returns
`true` the labels allow a path source → target all of whose edges satisfy the level test of `dfs`
(`level[u] >= level[v]`, capacity ≠ 0).
-/
namespace Tbx.Flow
open Tbx

/-- the edge test of `dfs`: an edge v → w with capacity ≠ 0 and `level[v] >= level[w]` -/
def Adm (g : Graph) (lv : Array Nat) (v w : Nat) : Prop :=
  ∃ e, g.beginEdges v ≤ e ∧ e < g.beginEdges v + g.deg v ∧ gt g.tgt e = w ∧ gt g.cap e ≠ 0 ∧ gt lv w ≤ gt lv v

inductive AdmTo (g : Graph) (lv : Array Nat) (t : Nat) : Nat → Prop where
  | refl : AdmTo g lv t t
  | step {v w : Nat} : Adm g lv v w → AdmTo g lv t w → AdmTo g lv t v

/-- every labelled node other than the target has a labelled, non-source successor one level below -/
def LPI (g : Graph) (source t : Nat) (lv : Array Nat) : Prop :=
  ∀ v, v < g.numNodes → Lab lv v → v = t ∨
    ∃ w, w < g.numNodes ∧ w ≠ source ∧ PosEdge g v w ∧ Lab lv w ∧ gt lv v = gt lv w + 1

theorem bfsEdges_tot (g : Graph) (hwf : WF g) (hrc : RevClosed g) (source t u L : Nat) (hu : u < g.numNodes)
    (hus : u ≠ source) (hL : L + 1 ≠ INV) (k : Nat) : ∀ (e : Nat) (lv : Array Nat) (q : List Nat),
    g.beginEdges u ≤ e → e + k ≤ g.beginEdges u + g.deg u → lv.size = g.numNodes →
    Lab lv u → gt lv u = L → LPI g source t lv →
    ∃ lv' q', bfsEdges g source u e k lv q = some (lv', q') ∧
      q'.length + unm lv' g.numNodes ≤ q.length + unm lv g.numNodes ∧ LPI g source t lv' := by
  induction k with
  | zero =>
    intro e lv q _ _ _ _ _ hlp
    exact ⟨lv, q, by simp [bfsEdges], Nat.le_refl _, hlp⟩
  | succ k ih =>
    intro e lv q hr1 hr2 hsz hlab hlu hlp
    have hre : InRange g u e := ⟨hr1, by omega⟩
    have hvn : gt g.tgt e < g.numNodes := hwf.tgtOK e (hwf.inRange_lt hu hre)
    simp only [bfsEdges]
    split
    · exact ih (e + 1) lv q (by omega) (by omega) hsz hlab hlu hlp
    · rename_i hc
      obtain ⟨e', re', te'⟩ := hrc u e hu hre
      obtain ⟨rev, hrev⟩ := findEdge_some_of_edge g (gt g.tgt e) u e' hvn re' te'
      simp only [hrev]
      split
      · exact ih (e + 1) lv q (by omega) (by omega) hsz hlab hlu hlp
      · rename_i hcap
        obtain ⟨_, hrr, htr⟩ := findEdge_spec g _ _ rev hrev
        have hpe : PosEdge g (gt g.tgt e) u := ⟨rev, hrr.1, hrr.2, htr, by omega⟩
        have hvu : gt g.tgt e ≠ u := by
          intro hh; apply hc; rw [hh]; exact ⟨hus, hlab⟩
        have hlab1 : Lab (st lv (gt g.tgt e) (gt lv u + 1)) u := by
          unfold Lab; rw [gt_st_ne _ _ _ _ hvu]; exact hlab
        have hlu1 : gt (st lv (gt g.tgt e) (gt lv u + 1)) u = L := by
          rw [gt_st_ne _ _ _ _ hvu]; exact hlu
        have hvalv : gt (st lv (gt g.tgt e) (gt lv u + 1)) (gt g.tgt e) = L + 1 := by
          rw [gt_st_eq _ _ _ (by rw [hsz]; exact hvn), hlu]
        -- the level-path invariant after labelling v
        have hlp1 : LPI g source t (st lv (gt g.tgt e) (gt lv u + 1)) := by
          intro x hx hlx
          by_cases hxv : x = gt g.tgt e
          · right
            refine ⟨u, hu, hus, hxv ▸ hpe, hlab1, ?_⟩
            rw [hxv, hvalv, hlu1]
          · have hlx0 : Lab lv x := by
              unfold Lab at hlx ⊢; rw [gt_st_ne _ _ _ _ (fun hh => hxv hh.symm)] at hlx; exact hlx
            rcases hlp x hx hlx0 with h1 | ⟨w, hw, hws, hpw, hlw, hval⟩
            · exact Or.inl h1
            · right
              have hwv : w ≠ gt g.tgt e := by
                intro hh; apply hc; rw [← hh]; exact ⟨hws, hlw⟩
              refine ⟨w, hw, hws, hpw, ?_, ?_⟩
              · unfold Lab; rw [gt_st_ne _ _ _ _ (fun hh => hwv hh.symm)]; exact hlw
              · rw [gt_st_ne _ _ _ _ (fun hh => hxv hh.symm), gt_st_ne _ _ _ _ (fun hh => hwv hh.symm)]
                exact hval
        split
        · rename_i hvs
          -- v is not the source, hence was unlabelled: one more in the queue, one less unlabelled
          have hvI : gt lv (gt g.tgt e) = INV := by
            cases Nat.decEq (gt lv (gt g.tgt e)) INV with
            | isTrue h => exact h
            | isFalse h => exact absurd ⟨hvs, h⟩ hc
          obtain ⟨lv', q', h1, h2, h3⟩ := ih (e + 1) _ (q ++ [gt g.tgt e]) (by omega) (by omega)
            (by simp [hsz]) hlab1 hlu1 hlp1
          refine ⟨lv', q', h1, ?_, h3⟩
          have := unm_st_mark lv (gt g.tgt e) (gt lv u + 1) g.numNodes hvn (by rw [hsz]; exact hvn) hvI
            (by rw [hlu]; exact hL)
          simp only [List.length_append, List.length_singleton] at h2
          omega
        · rename_i hvs
          obtain ⟨lv', q', h1, h2, h3⟩ := ih (e + 1) _ q (by omega) (by omega)
            (by simp [hsz]) hlab1 hlu1 hlp1
          refine ⟨lv', q', h1, ?_, h3⟩
          by_cases hvI : gt lv (gt g.tgt e) = INV
          · have := unm_st_mark lv (gt g.tgt e) (gt lv u + 1) g.numNodes hvn (by rw [hsz]; exact hvn) hvI
              (by rw [hlu]; exact hL)
            omega
          · have := unm_st_remark lv (gt g.tgt e) (gt lv u + 1) g.numNodes hvI (by rw [hlu]; exact hL)
            omega

theorem bfsLoop_tot (g : Graph) (hwf : WF g) (huq : Uniq g) (hrc : RevClosed g) (source t : Nat)
    (hN : g.numNodes + 2 < INV) (fuel : Nat) :
    ∀ (lv : Array Nat) (q : List Nat), BInv g source t lv q fuel → LPI g source t lv →
    q.length + unm lv g.numNodes < fuel →
    ∃ lv', bfsLoop g source fuel lv q = some lv' ∧ LPI g source t lv' := by
  induction fuel with
  | zero => intro lv q _ _ h; omega
  | succ fuel ih =>
    intro lv q hi hlp hm
    cases q with
    | nil => exact ⟨lv, by simp [bfsLoop], hlp⟩
    | cons u rest =>
      obtain ⟨hun, hus, hul⟩ := hi.qOK u List.mem_cons_self
      have hbd := hi.bound u hun hus hul
      obtain ⟨lv1, q1, h1, h2, h3⟩ := bfsEdges_tot g hwf hrc source t u (gt lv u) hun hus (by omega) (g.deg u)
        (g.beginEdges u) lv rest (Nat.le_refl _) (Nat.le_refl _) hi.hsz hul rfl hlp
      simp only [bfsLoop, h1]
      apply ih lv1 q1 (binv_step g hwf huq hrc source t hN fuel lv u rest lv1 q1 hi h1) h3
      simp only [List.length_cons] at hm
      omega

/-- from the level-path invariant: a labelled node reaches the target along admissible edges -/
theorem admTo_of_lpi (g : Graph) (source t : Nat) (lv : Array Nat) (hlp : LPI g source t lv) (k : Nat) :
    ∀ v, v < g.numNodes → Lab lv v → gt lv v ≤ k → AdmTo g lv t v := by
  induction k with
  | zero =>
    intro v hv hl hk
    rcases hlp v hv hl with h | ⟨w, _, _, _, _, hval⟩
    · rw [h]; exact AdmTo.refl
    · omega
  | succ k ih =>
    intro v hv hl hk
    rcases hlp v hv hl with h | ⟨w, hw, _, hpw, hlw, hval⟩
    · rw [h]; exact AdmTo.refl
    · obtain ⟨e, h1, h2, h3, h4⟩ := hpw
      exact AdmTo.step ⟨e, h1, h2, h3, by omega, by omega⟩ (ih w hw hlw (by omega))

/-- **`bfs()` returns**, and a `true` answer comes with an admissible path source → target -/
theorem bfs_total (d : Dinic) (hwf : WF d.g) (huq : Uniq d.g) (hrc : RevClosed d.g)
    (hN : d.g.numNodes + 2 < INV) (hsz : d.level.size = d.g.numNodes) (hs : d.source < d.g.numNodes)
    (ht : d.target < d.g.numNodes) (hst : d.source ≠ d.target) :
    ∃ d' b, d.bfs = some (d', b) ∧ (b = true → AdmTo d'.g d'.level d'.target d'.source) := by
  have hrep : ∀ x, x < d.level.size → gt (Array.replicate d.level.size INV) x = INV := by
    intro x hx; unfold gt; simp [Array.getD_eq_getD_getElem?, hx]
  have hlab0 : ∀ x, x < d.g.numNodes →
      Lab (st (Array.replicate d.level.size INV) d.target 0) x → x = d.target := by
    intro x hx hl'
    unfold Lab at hl'
    rw [gt_st] at hl'
    split at hl'
    · rename_i hh; exact hh.1.symm
    · exact absurd (hrep x (by rw [hsz]; exact hx)) hl'
  have hlt0 : Lab (st (Array.replicate d.level.size INV) d.target 0) d.target := by
    unfold Lab; rw [gt_st_eq _ _ _ (by simp [hsz, ht])]; unfold INV; omega
  have hinv : BInv d.g d.source d.target (st (Array.replicate d.level.size INV) d.target 0)
      [d.target] (d.g.numNodes + 1) := by
    refine ⟨by simp [hsz], hlt0, ?_, ?_, ?_⟩
    · intro x hx; rw [List.mem_singleton] at hx; subst hx
      exact ⟨ht, fun e => hst e.symm, hlt0⟩
    · intro x hx _ hl'
      left; rw [hlab0 x hx hl']; exact List.mem_singleton.mpr rfl
    · intro x hx _ hl'
      rw [hlab0 x hx hl', gt_st_eq _ _ _ (by simp [hsz, ht])]; omega
  have hlp0 : LPI d.g d.source d.target (st (Array.replicate d.level.size INV) d.target 0) :=
    fun v hv hl => Or.inl (hlab0 v hv hl)
  have hmeas : [d.target].length + unm (st (Array.replicate d.level.size INV) d.target 0) d.g.numNodes
      < d.g.numNodes + 1 := by
    have h1 := unm_st_mark (Array.replicate d.level.size INV) d.target 0 d.g.numNodes ht
      (by simp [hsz, ht]) (hrep _ (by rw [hsz]; exact ht)) (by unfold INV; omega)
    have h2 := unm_replicate d.level.size d.g.numNodes (by omega)
    simp only [List.length_singleton]; omega
  obtain ⟨lv, hl, hlp⟩ := bfsLoop_tot d.g hwf huq hrc d.source d.target hN _ _ _ hinv hlp0 hmeas
  refine ⟨{ d with level := lv, bfsCount := d.bfsCount + 1 }, gt lv d.source != INV, ?_, ?_⟩
  · unfold Dinic.bfs; simp only [hl]
  · intro hb
    have hlabs : Lab lv d.source := by
      unfold Lab; intro he; simp [he] at hb
    exact admTo_of_lpi d.g d.source d.target lv hlp _ d.source hs hlabs (Nat.le_refl _)

end Tbx.Flow
